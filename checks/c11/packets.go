package main

import (
	"bytes"
	"encoding/json"
	"fmt"
	"math/rand"
	"strings"
	"time"

	"github.com/karagenc/socket.io-go/engine.io/parser"

	"sioverif/internal/refcodec"
	"sioverif/internal/vk"
)

const b64chars = "ABCDEFGHIJKLMNOPQRSTUVWXYZabcdefghijklmnopqrstuvwxyz0123456789+/"

var textClasses = []string{"random", "zeros", "ff", "b64text", "bprefix", "digitprefix", "utf8"}
var binClasses = []string{"random", "zeros", "ff", "b64text", "bprefix", "digitprefix", "utf8", "rs"}

func mkData(r *rand.Rand, class string, n int, text bool) []byte {
	b := make([]byte, n)
	switch class {
	case "empty":
		return b[:0]
	case "random", "long":
		r.Read(b)
	case "zeros":
	case "ff":
		for i := range b {
			b[i] = 0xff
		}
	case "b64text", "bprefix":
		for i := range b {
			b[i] = b64chars[r.Intn(64)]
		}
		if n >= 4 && r.Intn(2) == 0 {
			b[n-1] = '='
			if r.Intn(2) == 0 {
				b[n-2] = '='
			}
		}
		if class == "bprefix" && n > 0 {
			b[0] = 'b'
		}
	case "digitprefix":
		for i := range b {
			b[i] = byte(0x20 + r.Intn(0x5f))
		}
		if n > 0 {
			b[0] = byte('0' + r.Intn(8))
		}
	case "utf8":
		const s = "é€𝄞ß\x00 漢字 "
		for i := range b {
			b[i] = s[i%len(s)]
		}
	case "rs":
		for i := range b {
			b[i] = 0x1e
		}
	}
	if text {
		noRS(b)
	}
	return b
}

func lenBucket(n int) string {
	if n <= 300 {
		return fmt.Sprint(n)
	}
	m := 1
	for m*2 <= n {
		m *= 2
	}
	return fmt.Sprintf("~2^%d.mod3=%d", bitsOf(m), n%3)
}

func bitsOf(m int) int {
	k := 0
	for m > 1 {
		m >>= 1
		k++
	}
	return k
}

func realEncode(pk *parser.Packet, sb, plain bool) (out []byte, err error, pan string) {
	pan = guard(func() {
		if plain {
			w := &plainWriter{}
			err = pk.Encode(w, sb)
			out = w.b
		} else {
			var buf bytes.Buffer
			err = pk.Encode(&buf, sb)
			out = buf.Bytes()
		}
	})
	return
}

func realDecode(b []byte, binFrame bool) (pk *parser.Packet, err error, pan string) {
	pan = guard(func() { pk, err = parser.Decode(bytes.NewReader(b), binFrame) })
	return
}

// pktCase runs all single-packet comparisons for one input.
func pktCase(run *vk.Run, rp *rep, smp *sampler, typ int, bin bool, class string, data []byte, sb, plain bool) {
	run.Eval(1)
	kind, mode := "text", "text"
	if bin {
		kind = "bin"
		mode = "b64"
		if sb {
			mode = "raw"
		}
	}
	writer := "bytewriter"
	if plain {
		writer = "plain"
	}
	run.Distinct(fmt.Sprintf("pkt/type=%d/%s/%s/class=%s/len=%s", typ, kind, mode, class, lenBucket(len(data))))
	run.Count("pkt_cases", 1)
	run.Count("pkt_cases_mode_"+mode, 1)
	fields := func(extra ...string) map[string]any {
		m := map[string]any{"type": typ, "kind": kind, "mode": mode, "class": class, "writer": writer}
		for i := 0; i+1 < len(extra); i += 2 {
			m[extra[i]] = extra[i+1]
		}
		return m
	}
	witness := map[string]any{"type": typ, "binary": bin, "supports_binary": sb, "writer": writer, "class": class, "len": len(data), "data_hex": hexTrunc(data, 256)}

	ep := refcodec.EPacket{Type: typ, Binary: bin, Data: append([]byte(nil), data...)} // private copy = snapshot
	pk, err := parser.NewPacket(parser.PacketType(typ), bin, data)
	if err != nil {
		rp.viol("pkt-newpacket", fields(), "NewPacket rejects a legal packet: "+err.Error(), witness)
		return
	}
	enc, err, pan := realEncode(pk, sb, plain)
	if pan != "" {
		rp.viol("panic", map[string]any{"site": "Packet.Encode", "kind": panicKind(pan)}, "Encode panicked: "+pan, witness)
		return
	}
	if err != nil {
		rp.viol("pkt-encode-error", fields(), "Encode into an in-memory writer failed: "+err.Error(), witness)
		return
	}
	if !bytes.Equal(pk.Data, ep.Data) || int(pk.Type) != typ || pk.IsBinary != bin {
		rp.viol("pkt-input-mutated", fields(), "Encode changed the packet it was given", witness)
	}
	want := refcodec.EncodeEIO(ep, sb)
	if !bytes.Equal(enc, want) {
		rp.viol("pkt-format", fields(), fmt.Sprintf("encoded bytes differ from the v4 form at byte %d: got %d bytes %s, want %d bytes %s",
			firstDiff(enc, want), len(enc), hexTrunc(enc, 32), len(want), hexTrunc(want, 32)), witness)
	}
	if n := pk.EncodedLen(sb); n != len(enc) {
		rp.viol("pkt-encodedlen", fields(), fmt.Sprintf("EncodedLen(%v)=%d but %d bytes were written", sb, n, len(enc)), witness)
	}
	binFrame := bin && sb
	dec, err, pan := realDecode(enc, binFrame)
	switch {
	case pan != "":
		rp.viol("panic", map[string]any{"site": "Decode", "kind": panicKind(pan)}, "Decode panicked on the encoder's own output: "+pan, witness)
	case err != nil:
		rp.viol("pkt-roundtrip", fields("how", "error"), "real Decode rejects real Encode output: "+err.Error(), witness)
	default:
		if d := diffPacket(dec, ep); d != "" {
			rp.viol("pkt-roundtrip", fields("how", "differs"), "decode(encode(p)) != p: "+d, witness)
		}
	}
	dec2, err, pan := realDecode(want, binFrame)
	switch {
	case pan != "":
		rp.viol("panic", map[string]any{"site": "Decode", "kind": panicKind(pan)}, "Decode panicked on reference bytes: "+pan, witness)
	case err != nil:
		rp.viol("pkt-interop-decode", fields("how", "error"), "real Decode rejects the reference encoding: "+err.Error(), witness)
	default:
		if d := diffPacket(dec2, ep); d != "" {
			rp.viol("pkt-interop-decode", fields("how", "differs"), "real Decode of the reference encoding differs: "+d, witness)
		}
	}
	if n := len(data); (class == "ff" && mode == "b64" && n == 5) || (class == "bprefix" && mode == "text" && n == 16 && typ == 4) || (class == "rs" && mode == "raw" && n == 4) {
		smp.add("pkt/"+class, 1, map[string]any{"check": "packet", "type": typ, "kind": kind, "mode": mode, "class": class, "writer": writer, "data_len": len(data), "encoded_len": len(enc), "encoded_hex": hexTrunc(enc, 24)})
	}
}

func checkPackets(run *vk.Run, rp *rep, smp *sampler) {
	start := time.Now()
	sizes := []int{1, 2, 3, 4, 5, 6, 7, 8, 15, 16, 17, 56, 57, 58, 125, 126, 127, 255, 256, 257, 1000, 4095, 4096}
	long := []int{65535, 65536, 100000}
	if run.Thorough() {
		long = append(long, 1<<20, 3<<20+1)
	}
	type kindT struct {
		typ int
		bin bool
	}
	var kinds []kindT
	for t := 0; t <= 6; t++ {
		kinds = append(kinds, kindT{t, false})
	}
	kinds = append(kinds, kindT{refcodec.EMessage, true})

	// binary flag on a non-message type must be refused by the constructor (documented); informational.
	for t := 0; t <= 6; t++ {
		if t == refcodec.EMessage {
			continue
		}
		if _, err := parser.NewPacket(parser.PacketType(t), true, []byte("x")); err == nil {
			run.Count("newpacket_accepts_binary_non_message", 1)
		}
	}

	r := run.Rand("c11-pkt-matrix")
	for _, k := range kinds {
		classes := textClasses
		if k.bin {
			classes = binClasses
		}
		for _, sb := range []bool{true, false} {
			for _, plain := range []bool{false, true} {
				pktCase(run, rp, smp, k.typ, k.bin, "empty", nil, sb, plain)
				pktCase(run, rp, smp, k.typ, k.bin, "empty", []byte{}, sb, plain)
				for _, cl := range classes {
					for _, n := range sizes {
						pktCase(run, rp, smp, k.typ, k.bin, cl, mkData(r, cl, n, !k.bin), sb, plain)
					}
				}
				for _, n := range long {
					pktCase(run, rp, smp, k.typ, k.bin, "long", mkData(r, "long", n, !k.bin), sb, plain)
				}
			}
		}
	}
	matrix := run.Counter("pkt_cases")

	// seeded random cases, 16 deterministic shards
	total := run.Pick(20000, 300000)
	const shards = 16
	parallel(shards, func(s int) {
		r := run.Rand(fmt.Sprintf("c11-pkt-rand-%d", s))
		for i := 0; i < total/shards; i++ {
			k := kinds[r.Intn(len(kinds))]
			if r.Intn(3) == 0 {
				k = kindT{refcodec.EMessage, true}
			}
			classes := textClasses
			if k.bin {
				classes = binClasses
			}
			cl := classes[r.Intn(len(classes))]
			var n int
			switch x := r.Intn(100); {
			case x < 70:
				n = r.Intn(65)
			case x < 95:
				n = r.Intn(2001)
			default:
				n = r.Intn(70001)
			}
			if n == 0 {
				cl = "empty"
			}
			pktCase(run, rp, smp, k.typ, k.bin, cl, mkData(r, cl, n, !k.bin), r.Intn(2) == 0, r.Intn(2) == 0)
		}
	})
	run.Logf("packets: %d matrix + %d random cases in %v", matrix, run.Counter("pkt_cases")-matrix, time.Since(start).Round(time.Millisecond))
}

// ---------------------------------------------------------------------------
// payloads

func payloadPattern(eps []refcodec.EPacket) string {
	var b strings.Builder
	for _, p := range eps {
		switch {
		case p.Binary && len(p.Data) == 0:
			b.WriteByte('z')
		case p.Binary:
			b.WriteByte('B')
		case len(p.Data) == 0:
			b.WriteByte('e')
		default:
			b.WriteByte('T')
		}
	}
	return b.String()
}

func payloadCase(run *vk.Run, rp *rep, smp *sampler, eps []refcodec.EPacket, plain bool) {
	run.Eval(1)
	n := len(eps)
	pat := payloadPattern(eps)
	run.Distinct(fmt.Sprintf("payload/n=%d/%s", n, pat))
	run.Count("payload_cases", 1)
	run.Count(fmt.Sprintf("payload_cases_n%d", n), 1)
	writer := "bytewriter"
	if plain {
		writer = "plain"
	}
	fields := func(extra ...string) map[string]any {
		m := map[string]any{"n": n, "writer": writer}
		for i := 0; i+1 < len(extra); i += 2 {
			m[extra[i]] = extra[i+1]
		}
		return m
	}
	var wit []map[string]any
	for _, p := range eps {
		wit = append(wit, map[string]any{"type": p.Type, "binary": p.Binary, "len": len(p.Data), "data_hex": hexTrunc(p.Data, 64)})
	}
	witness := map[string]any{"packets": wit, "writer": writer}

	pks := make([]*parser.Packet, 0, n) // non-nil also for n == 0
	for _, p := range eps {
		pk, err := parser.NewPacket(parser.PacketType(p.Type), p.Binary, append([]byte(nil), p.Data...))
		if err != nil {
			rp.viol("pkt-newpacket", map[string]any{"type": p.Type}, "NewPacket rejects a legal packet: "+err.Error(), witness)
			return
		}
		pks = append(pks, pk)
	}
	var enc []byte
	var err error
	pan := guard(func() {
		if plain {
			w := &plainWriter{}
			err = parser.EncodePayloads(w, pks...)
			enc = w.b
		} else {
			var buf bytes.Buffer
			err = parser.EncodePayloads(&buf, pks...)
			enc = buf.Bytes()
		}
	})
	if pan != "" {
		rp.viol("panic", map[string]any{"site": "EncodePayloads", "kind": panicKind(pan)}, "EncodePayloads panicked: "+pan, witness)
		return
	}
	if err != nil {
		rp.viol("payload-encode-error", fields(), "EncodePayloads into an in-memory writer failed: "+err.Error(), witness)
		return
	}
	var l int
	if pan := guard(func() { l = parser.EncodedPayloadsLen(pks...) }); pan != "" {
		rp.viol("panic", map[string]any{"site": "EncodedPayloadsLen", "kind": panicKind(pan)}, "EncodedPayloadsLen panicked: "+pan, witness)
	} else if l != len(enc) {
		rp.viol("payload-encodedlen", fields(), fmt.Sprintf("EncodedPayloadsLen=%d but %d bytes were written", l, len(enc)), witness)
	}
	if n == 0 {
		return // v4 has no encoding of an empty payload: only the length consistency is checked
	}
	want := refcodec.EncodePayload(eps)
	if !bytes.Equal(enc, want) {
		rp.viol("payload-format", fields(), fmt.Sprintf("payload bytes differ from the v4 form at byte %d: got %d bytes %s, want %d bytes %s",
			firstDiff(enc, want), len(enc), hexTrunc(enc, 32), len(want), hexTrunc(want, 32)), witness)
	}
	for _, src := range []struct {
		name string
		b    []byte
	}{{"payload-roundtrip", enc}, {"payload-interop-decode", want}} {
		var got []*parser.Packet
		var err error
		pan := guard(func() { got, err = parser.DecodePayloads(bytes.NewReader(src.b)) })
		switch {
		case pan != "":
			rp.viol("panic", map[string]any{"site": "DecodePayloads", "kind": panicKind(pan)}, "DecodePayloads panicked on a valid payload: "+pan, witness)
		case err != nil:
			rp.viol(src.name, fields("how", "error"), "DecodePayloads rejects a valid payload: "+err.Error(), witness)
		case len(got) != n:
			rp.viol(src.name, fields("how", "count"), fmt.Sprintf("%d packets decoded, %d encoded (pattern %s)", len(got), n, pat), witness)
		default:
			for i := range got {
				if d := diffPacket(got[i], eps[i]); d != "" {
					rp.viol(src.name, fields("how", "differs"), fmt.Sprintf("packet %d of %d differs: %s", i, n, d), witness)
					break
				}
			}
		}
	}
	if n >= 3 && strings.Contains(pat, "B") && strings.Contains(pat, "T") && len(enc) < 120 {
		smp.add("payload", 2, map[string]any{"check": "payload", "n": n, "pattern": pat, "writer": writer, "encoded_len": len(enc), "encoded_hex": hexTrunc(enc, 120)})
	}
}

func genPayloadPacket(r *rand.Rand) refcodec.EPacket {
	bin := r.Intn(10) < 3
	var n int
	switch x := r.Intn(100); {
	case x < 20:
		n = 0
	case x < 85:
		n = 1 + r.Intn(40)
	case x < 98:
		n = r.Intn(600)
	default:
		n = r.Intn(5001)
	}
	if bin {
		cl := binClasses[r.Intn(len(binClasses))]
		return refcodec.EPacket{Type: refcodec.EMessage, Binary: true, Data: mkData(r, cl, n, false)}
	}
	cl := textClasses[r.Intn(len(textClasses))]
	return refcodec.EPacket{Type: r.Intn(7), Data: mkData(r, cl, n, true)}
}

func checkPayloads(run *vk.Run, rp *rep, smp *sampler) {
	start := time.Now()
	// systematic small ones
	payloadCase(run, rp, smp, nil, false)
	payloadCase(run, rp, smp, nil, true)
	for n := 1; n <= 8; n++ {
		var allEmpty, allBinEmpty, alt, rs []refcodec.EPacket
		for i := 0; i < n; i++ {
			allEmpty = append(allEmpty, refcodec.EPacket{Type: i % 7})
			allBinEmpty = append(allBinEmpty, refcodec.EPacket{Type: refcodec.EMessage, Binary: true})
			if i%2 == 0 {
				alt = append(alt, refcodec.EPacket{Type: refcodec.EMessage, Data: []byte("b4hello")})
			} else {
				alt = append(alt, refcodec.EPacket{Type: refcodec.EMessage, Binary: true, Data: []byte{0x1e, 0x1e, byte(i)}})
			}
			rs = append(rs, refcodec.EPacket{Type: refcodec.EMessage, Binary: true, Data: bytes.Repeat([]byte{0x1e}, i+1)})
		}
		for _, plain := range []bool{false, true} {
			payloadCase(run, rp, smp, allEmpty, plain)
			payloadCase(run, rp, smp, allBinEmpty, plain)
			payloadCase(run, rp, smp, alt, plain)
			payloadCase(run, rp, smp, rs, plain)
		}
	}
	total := run.Pick(6000, 120000)
	const shards = 16
	parallel(shards, func(s int) {
		r := run.Rand(fmt.Sprintf("c11-payload-%d", s))
		for i := 0; i < total/shards; i++ {
			n := r.Intn(9)
			eps := make([]refcodec.EPacket, 0, n)
			for j := 0; j < n; j++ {
				eps = append(eps, genPayloadPacket(r))
			}
			payloadCase(run, rp, smp, eps, r.Intn(2) == 0)
		}
	})
	run.Logf("payloads: %d cases in %v", run.Counter("payload_cases"), time.Since(start).Round(time.Millisecond))
}

// ---------------------------------------------------------------------------
// handshake (OPEN packet body): v4 field names and millisecond durations

func checkHandshake(run *vk.Run, rp *rep, smp *sampler) {
	r := run.Rand("c11-handshake")
	n := run.Pick(2000, 20000)
	for i := 0; i < n; i++ {
		run.Eval(1)
		run.Count("handshake_cases", 1)
		sid := string(mkData(r, []string{"b64text", "digitprefix", "utf8"}[r.Intn(3)], 1+r.Intn(30), true))
		sid = strings.ToValidUTF8(sid, "?")
		ups := [][]string{{}, {"websocket"}, {"websocket", "webtransport"}, {"webtransport"}}[r.Intn(4)]
		pi, pt, mp := r.Int63n(1<<40), r.Int63n(1<<40), r.Int63n(1<<53)
		if i == 0 { // the example of the protocol text
			sid, ups, pi, pt, mp = "lv_VI97HAXpY6yYWAAAC", []string{"websocket"}, 25000, 20000, 1000000
		}
		run.Distinct(fmt.Sprintf("handshake/upgrades=%d/sidlen=%d", len(ups), len(sid)))
		body, _ := json.Marshal(map[string]any{"sid": sid, "upgrades": ups, "pingInterval": pi, "pingTimeout": pt, "maxPayload": mp})
		witness := map[string]any{"body": string(body)}
		wire := refcodec.EncodeEIO(refcodec.EPacket{Type: refcodec.EOpen, Data: body}, false)
		pk, err, pan := realDecode(wire, false)
		if pan != "" || err != nil {
			rp.viol("handshake", map[string]any{"how": "decode"}, "OPEN packet not decodable: "+errStr(err)+pan, witness)
			continue
		}
		var hr *parser.HandshakeResponse
		pan = guard(func() { hr, err = parser.ParseHandshakeResponse(pk) })
		if pan != "" {
			rp.viol("panic", map[string]any{"site": "ParseHandshakeResponse", "kind": panicKind(pan)}, "ParseHandshakeResponse panicked: "+pan, witness)
			continue
		}
		if err != nil {
			rp.viol("handshake", map[string]any{"how": "error"}, "a v4 handshake body is rejected: "+err.Error(), witness)
			continue
		}
		if hr.SID != sid || strings.Join(hr.Upgrades, ",") != strings.Join(ups, ",") || hr.PingInterval != pi || hr.PingTimeout != pt || hr.MaxPayload != mp ||
			hr.GetPingInterval() != time.Duration(pi)*time.Millisecond || hr.GetPingTimeout() != time.Duration(pt)*time.Millisecond {
			rp.viol("handshake", map[string]any{"how": "differs"}, fmt.Sprintf("handshake fields differ after parsing: %+v", *hr), witness)
		}
		// produced form: the struct must marshal to the v4 field names
		out, err := json.Marshal(hr)
		var back map[string]any
		if err != nil || json.Unmarshal(out, &back) != nil {
			rp.viol("handshake", map[string]any{"how": "marshal"}, "HandshakeResponse does not marshal to a JSON object", witness)
			continue
		}
		for _, k := range []string{"sid", "upgrades", "pingInterval", "pingTimeout", "maxPayload"} {
			if _, ok := back[k]; !ok {
				rp.viol("handshake", map[string]any{"how": "field-name"}, "marshalled handshake lacks the v4 field "+k+": "+string(out), witness)
			}
		}
		if len(back) != 5 {
			run.Count("handshake_extra_fields", 1)
		}
		// a non-OPEN packet must be refused
		for t := 1; t <= 6; t++ {
			if _, err := parser.ParseHandshakeResponse(&parser.Packet{Type: parser.PacketType(t), Data: body}); err == nil {
				rp.viol("handshake", map[string]any{"how": "non-open-accepted"}, fmt.Sprintf("a packet of type %d is accepted as a handshake", t), witness)
			}
		}
		smp.add("handshake", 1, map[string]any{"check": "handshake", "body": string(body)})
	}
}
