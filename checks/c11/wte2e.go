package main

// WebTransport end to end: a real server-side WebTransport session (HTTP/3 over QUIC on loopback UDP) opened by a
// peer that is not the repository's code (webtransport-go's dialer + the reference framer of refcodec). Frames of
// lengths around the three length forms and around MaxBufferSize are written to the stream in small pieces, the way
// QUIC delivers them; the server's OnPacket is the observation point for client->server, the frames read back from
// the stream (the server echoes) for server->client.

import (
	"bytes"
	"context"
	"crypto/tls"
	"encoding/binary"
	"fmt"
	"io"
	"net/http"
	"net/http/httptest"
	"os"
	"sync"
	"time"

	eio "github.com/karagenc/socket.io-go/engine.io"
	"github.com/karagenc/socket.io-go/engine.io/parser"
	"github.com/madflojo/testcerts"
	"github.com/quic-go/webtransport-go"

	"sioverif/internal/refcodec"
	"sioverif/internal/vk"
)

type wtGot struct {
	binary bool
	data   []byte
}

type wtWorld struct {
	limit    int
	server   *eio.Server
	wts      *webtransport.Server
	ts       *httptest.Server
	mu       sync.Mutex
	got      []wtGot
	closes   int
	cleanups []func()
}

func (w *wtWorld) close() {
	for i := len(w.cleanups) - 1; i >= 0; i-- {
		w.cleanups[i]()
	}
}

func newWTWorld(limit int) (*wtWorld, error) {
	w := &wtWorld{limit: limit}
	dir, err := os.MkdirTemp(".work", "wtcert")
	if err != nil {
		dir, err = os.MkdirTemp("", "wtcert")
		if err != nil {
			return nil, err
		}
	}
	w.cleanups = append(w.cleanups, func() { os.RemoveAll(dir) })
	certFile, keyFile, err := testcerts.GenerateCertsToTempFile(dir)
	if err != nil {
		w.close()
		return nil, err
	}
	onSocket := func(s eio.ServerSocket) *eio.Callbacks {
		return &eio.Callbacks{
			OnPacket: func(packets ...*parser.Packet) {
				for _, p := range packets {
					if p.Type != parser.PacketTypeMessage {
						continue
					}
					w.mu.Lock()
					w.got = append(w.got, wtGot{p.IsBinary, append([]byte(nil), p.Data...)})
					w.mu.Unlock()
					if echo, err := parser.NewPacket(parser.PacketTypeMessage, p.IsBinary, p.Data); err == nil {
						s.Send(echo)
					}
				}
			},
			OnClose: func(eio.Reason, error) { w.mu.Lock(); w.closes++; w.mu.Unlock() },
		}
	}
	w.wts = &webtransport.Server{}
	w.server = eio.NewServer(onSocket, &eio.ServerConfig{MaxBufferSize: int64(limit), WebTransportServer: w.wts,
		PingInterval: time.Minute, PingTimeout: time.Minute})
	if err := w.server.Run(); err != nil {
		w.close()
		return nil, err
	}
	w.cleanups = append(w.cleanups, func() { w.server.Close() })
	w.ts = httptest.NewUnstartedServer(w.server)
	cert, err := tls.LoadX509KeyPair(certFile, keyFile)
	if err != nil {
		w.close()
		return nil, err
	}
	w.ts.TLS = &tls.Config{Certificates: []tls.Certificate{cert}}
	w.ts.StartTLS()
	w.cleanups = append(w.cleanups, w.ts.Close)
	w.wts.H3.Addr = w.ts.Listener.Addr().String()
	w.wts.H3.Handler = w.server
	go func() {
		if err := w.wts.ListenAndServeTLS(certFile, keyFile); err != nil && err != http.ErrServerClosed {
			_ = err
		}
	}()
	w.cleanups = append(w.cleanups, func() { w.wts.Close() })
	return w, nil
}

type wtPeer struct {
	session *webtransport.Session
	stream  webtransport.Stream
}

func (w *wtWorld) dial() (*wtPeer, error) {
	d := &webtransport.Dialer{TLSClientConfig: &tls.Config{InsecureSkipVerify: true}}
	ctx, cancel := context.WithTimeout(context.Background(), 20*time.Second)
	defer cancel()
	var sess *webtransport.Session
	var err error
	for i := 0; i < 40; i++ { // the HTTP/3 listener starts asynchronously
		_, sess, err = d.Dial(ctx, w.ts.URL+"/", nil)
		if err == nil {
			break
		}
		time.Sleep(100 * time.Millisecond)
	}
	if err != nil {
		return nil, err
	}
	st, err := sess.OpenStreamSync(ctx)
	if err != nil {
		sess.CloseWithError(0, "")
		return nil, err
	}
	p := &wtPeer{sess, st}
	// handshake: OPEN without sid, answered by OPEN with the handshake data
	if _, err := st.Write(refcodec.EncodeWT(refcodec.EPacket{Type: refcodec.EOpen})); err != nil {
		p.close()
		return nil, err
	}
	ep, err := p.read(10 * time.Second)
	if err != nil {
		p.close()
		return nil, fmt.Errorf("handshake reply: %w", err)
	}
	if ep.Type != refcodec.EOpen {
		p.close()
		return nil, fmt.Errorf("handshake reply is %v", ep)
	}
	return p, nil
}

func (p *wtPeer) close() { p.session.CloseWithError(0, "") }

// read reads one frame with the reference framer.
func (p *wtPeer) read(d time.Duration) (refcodec.EPacket, error) {
	p.stream.SetReadDeadline(time.Now().Add(d))
	h := make([]byte, 1)
	if _, err := io.ReadFull(p.stream, h); err != nil {
		return refcodec.EPacket{}, err
	}
	frame := append([]byte(nil), h...)
	n := int(h[0] & 0x7f)
	switch n {
	case 126:
		x := make([]byte, 2)
		if _, err := io.ReadFull(p.stream, x); err != nil {
			return refcodec.EPacket{}, err
		}
		frame = append(frame, x...)
		n = int(binary.BigEndian.Uint16(x))
	case 127:
		x := make([]byte, 8)
		if _, err := io.ReadFull(p.stream, x); err != nil {
			return refcodec.EPacket{}, err
		}
		frame = append(frame, x...)
		n = int(binary.BigEndian.Uint64(x))
	}
	if n > 1<<22 {
		return refcodec.EPacket{}, fmt.Errorf("server announced a frame of %d bytes", n)
	}
	body := make([]byte, n)
	if _, err := io.ReadFull(p.stream, body); err != nil {
		return refcodec.EPacket{}, err
	}
	ep, _, err := refcodec.DecodeWT(append(frame, body...))
	return ep, err
}

// write sends the frame in pieces of at most piece bytes.
func (p *wtPeer) write(b []byte, piece int) error {
	for len(b) > 0 {
		n := piece
		if n > len(b) {
			n = len(b)
		}
		p.stream.SetWriteDeadline(time.Now().Add(5 * time.Second))
		if _, err := p.stream.Write(b[:n]); err != nil {
			return err
		}
		b = b[n:]
	}
	return nil
}

func wtE2EPacket(kind string, L int) refcodec.EPacket {
	d := make([]byte, L)
	for i := range d {
		if kind == "text" {
			d[i] = "wt-e2e probe "[i%13]
		} else {
			d[i] = byte(i*11 + L)
		}
	}
	return refcodec.EPacket{Type: refcodec.EMessage, Binary: kind == "binary", Data: d}
}

func checkWTE2E(run *vk.Run, rp *rep, smp *sampler) {
	limits := []int{200, 4096, 70000}
	if run.Thorough() {
		limits = []int{64, 200, 1000, 4096, 20000, 65536, 70000}
	}
	for _, limit := range limits {
		w, err := newWTWorld(limit)
		if err != nil {
			run.Inconclusive(fmt.Sprintf("wt-e2e limit %d: cannot start a WebTransport server: %v", limit, err))
			continue
		}
		func() {
			defer w.close()
			// ---- within the limit: one session, both kinds, all three length forms where the limit admits them
			p, err := w.dial()
			if err != nil {
				run.Inconclusive(fmt.Sprintf("wt-e2e limit %d: cannot open a WebTransport session: %v", limit, err))
				return
			}
			var sizes []int
			for _, s := range []int{0, 1, 124, 125, 126, 127, 1000, 65534, 65535, 65536, 65537, limit / 2, limit - 10, limit - 9} {
				if s >= 0 && s <= limit-9-1 { // body = type byte + data for text
					sizes = append(sizes, s)
				}
			}
			var sent []refcodec.EPacket
			for i, s := range sizes {
				for _, kind := range []string{"text", "binary"} {
					ep := wtE2EPacket(kind, s)
					piece := []int{1 << 20, 1000, 7}[i%3]
					if s > 5000 && piece == 7 {
						piece = 333
					}
					if err := p.write(refcodec.EncodeWT(ep), piece); err != nil {
						run.Inconclusive(fmt.Sprintf("wt-e2e limit %d: write: %v", limit, err))
						p.close()
						return
					}
					sent = append(sent, ep)
				}
			}
			// echoes, in order
			for i, ep := range sent {
				run.Eval(1)
				f := map[string]any{"part": "wt-e2e", "limit": limit, "dir": "s2c"}
				got, err := p.read(20 * time.Second)
				for err == nil && got.Type != refcodec.EMessage { // heartbeat
					got, err = p.read(20 * time.Second)
				}
				if err != nil {
					rp.viol("wt-e2e-within-limit-lost", map[string]any{"part": "wt-e2e", "limit": limit}, fmt.Sprintf("frame %d of %d (%s, %d data bytes, within MaxBufferSize %d) was not echoed over a real WebTransport session: %v", i, len(sent), kindOf(ep), len(ep.Data), limit, err),
						map[string]any{"limit": limit, "size": len(ep.Data), "kind": kindOf(ep)})
					break
				}
				if got.Binary != ep.Binary || !bytes.Equal(got.Data, ep.Data) {
					rp.viol("wt-e2e-altered", f, fmt.Sprintf("echo of frame %d (%s, %d bytes) came back as %s, %d bytes", i, kindOf(ep), len(ep.Data), kindOf(got), len(got.Data)),
						map[string]any{"limit": limit, "size": len(ep.Data)})
				}
				run.Distinct(fmt.Sprintf("wt-e2e/within/limit=%d/%s/form=%s", limit, kindOf(ep), lenForm(len(refcodec.EncodeEIO(ep, true)))))
			}
			w.mu.Lock()
			got := append([]wtGot(nil), w.got...)
			w.mu.Unlock()
			for i, ep := range sent {
				f := map[string]any{"part": "wt-e2e", "limit": limit, "dir": "c2s"}
				if i >= len(got) {
					rp.viol("wt-e2e-within-limit-lost", map[string]any{"part": "wt-e2e", "limit": limit}, fmt.Sprintf("server received %d of %d frames within the limit", len(got), len(sent)), map[string]any{"limit": limit})
					break
				}
				if got[i].binary != ep.Binary || !bytes.Equal(got[i].data, ep.Data) {
					rp.viol("wt-e2e-altered", f, fmt.Sprintf("frame %d (%s, %d bytes) reached OnPacket as binary=%v, %d bytes", i, kindOf(ep), len(ep.Data), got[i].binary, len(got[i].data)), map[string]any{"limit": limit, "size": len(ep.Data)})
				}
			}
			if len(got) > len(sent) {
				rp.viol("wt-e2e-duplicate", map[string]any{"part": "wt-e2e", "limit": limit}, fmt.Sprintf("server received %d messages for %d frames", len(got), len(sent)), nil)
			}
			p.close()
			run.Count("wt_e2e_frames_within_limit", int64(len(sent)))

			// ---- beyond the limit: one session each, announced in the header and delivered in pieces below the limit
			for _, over := range []int{limit + 1, limit + 100, 2 * limit, limit + 65536} {
				for _, kind := range []string{"text", "binary"} {
					run.Eval(1)
					w.mu.Lock()
					w.got = nil
					closes0 := w.closes
					w.mu.Unlock()
					p, err := w.dial()
					if err != nil {
						run.Inconclusive(fmt.Sprintf("wt-e2e limit %d: cannot open a WebTransport session: %v", limit, err))
						return
					}
					ep := wtE2EPacket(kind, over)
					piece := limit / 2
					if piece > 1000 {
						piece = 1000
					}
					werr := p.write(refcodec.EncodeWT(ep), piece)
					// settled when the server closed the session (expected) or delivered the frame (refutation)
					vk.WaitUntil(10*time.Second, func() bool {
						w.mu.Lock()
						defer w.mu.Unlock()
						return w.closes > closes0 || len(w.got) > 0
					})
					w.mu.Lock()
					delivered := len(w.got)
					var dsize int
					if delivered > 0 {
						dsize = len(w.got[0].data)
					}
					closed := w.closes > closes0
					w.mu.Unlock()
					f := map[string]any{"part": "wt-e2e", "limit": limit, "kind": kind}
					if delivered > 0 {
						rp.viol("wt-e2e-oversize-delivered", f, fmt.Sprintf("a %s frame announcing %d data bytes on a real WebTransport session was read (allocated) and delivered to OnPacket (%d bytes) with MaxBufferSize %d", kind, over, dsize, limit),
							map[string]any{"limit": limit, "announced": over, "piece": piece, "write_error": fmt.Sprint(werr)})
					}
					if closed {
						run.Count("wt_e2e_oversize_session_closed", 1)
					} else {
						run.Count("wt_e2e_oversize_session_not_closed_within_10s", 1)
					}
					run.Distinct(fmt.Sprintf("wt-e2e/beyond/limit=%d/%s/over=+%d/closed=%v", limit, kind, over-limit, closed))
					p.close()
				}
			}
		}()
	}
}

func kindOf(p refcodec.EPacket) string {
	if p.Binary {
		return "binary"
	}
	return "text"
}

func lenForm(n int) string {
	switch {
	case n < 126:
		return "7bit"
	case n < 65536:
		return "16bit"
	}
	return "64bit"
}
