package main

import (
	"bufio"
	"bytes"
	"encoding/json"
	"flag"
	"fmt"
	"io"
	"math/bits"
	"os"
	"os/exec"
	"path/filepath"
	"runtime"
	"runtime/debug"
	"sort"
	"strconv"
	"strings"
	"syscall"
	"time"

	"github.com/karagenc/socket.io-go/engine.io/parser"
	wt "github.com/karagenc/socket.io-go/engine.io/transport/webtransport"

	"sioverif/internal/vk"
)

const (
	allocSlack   = 64 << 10
	childASLimit = 8 << 30
)

var allocLimits = []int64{16, 4096, 1000000}

// one line of the child's journal
type probeRec struct {
	Stage     string `json:"stage"` // begin | end | random | info | done
	I         int    `json:"i"`
	Limit     int64  `json:"limit"`
	Claimed   string `json:"claimed,omitempty"` // decimal uint64
	Form      string `json:"form,omitempty"`
	Kind      string `json:"kind,omitempty"`
	Delivery  string `json:"delivery,omitempty"`
	Control   bool   `json:"control,omitempty"`
	Delta     uint64 `json:"delta"`
	Err       string `json:"err,omitempty"`
	Panic     string `json:"panic,omitempty"`
	GotPacket bool   `json:"got_packet,omitempty"`
	DataLen   int    `json:"data_len,omitempty"`
	// random-header summary
	Count    int    `json:"count,omitempty"`
	MaxDelta uint64 `json:"max_delta,omitempty"`
	Skipped  bool   `json:"skipped,omitempty"`
	Msg      string `json:"msg,omitempty"`
}

func claimName(c uint64) string {
	if c != 0 && c&(c-1) == 0 {
		return fmt.Sprintf("2^%d", bits.TrailingZeros64(c))
	}
	if c+1 != 0 && (c+1)&c == 0 {
		return fmt.Sprintf("2^%d-1", bits.TrailingZeros64(c+1))
	}
	if c+1 == 0 {
		return "2^64-1"
	}
	return strconv.FormatUint(c, 10)
}

// escalation returns the claimed lengths (> limit) in ascending order.
func escalation(limit int64) []uint64 {
	l := uint64(limit)
	cs := []uint64{2 * l, 2*l + 1, 65535, 65536, 1 << 20, 1 << 26, 1 << 30, 1 << 31, 1<<32 - 1, 1 << 32, 1<<32 + 1<<20, 1 << 36, 1 << 40,
		1 << 44, 1 << 45, 1 << 48, 1 << 49, 1 << 50, 1 << 52, 1<<52 | 1<<20, 1 << 53, 1 << 56, 1 << 58, 1 << 60, 1 << 62,
		1<<63 - 1, 1 << 63, 1<<63 + 1, 1<<63 | 1<<20, 0xFFFFFFFF00000000, 0xFFFFFFFFFFFFFFFF}
	seen := map[uint64]bool{}
	var out []uint64
	for _, c := range cs {
		if c > l && !seen[c] {
			seen[c] = true
			out = append(out, c)
		}
	}
	sort.Slice(out, func(i, j int) bool { return out[i] < out[j] })
	return out
}

// measure runs one VerifNextPacket call on a single goroutine between two MemStats readings.
func measure(stream []byte, oneByte bool, limit int64) (delta uint64, got bool, dataLen int, err error, pan string) {
	var rd io.Reader = bytes.NewReader(stream)
	if oneByte {
		rd = &chunkReader{b: stream, chunk: 1}
	}
	var m0, m1 runtime.MemStats
	var p *parser.Packet
	runtime.ReadMemStats(&m0)
	pan = guard(func() { p, err = wt.VerifNextPacket(rd, limit) })
	runtime.ReadMemStats(&m1)
	if p != nil {
		dataLen = len(p.Data)
	}
	return m1.TotalAlloc - m0.TotalAlloc, p != nil && err == nil, dataLen, err, pan
}

func allocChild(run *vk.Run) {
	journalPath := ""
	if f := flag.Lookup("subout"); f != nil {
		journalPath = f.Value.String()
	}
	if journalPath == "" {
		fmt.Println("alloc child: no -subout")
		os.Exit(3)
	}
	jf, err := os.OpenFile(journalPath, os.O_CREATE|os.O_WRONLY|os.O_APPEND, 0o644)
	if err != nil {
		fmt.Println("alloc child: cannot open journal:", err)
		os.Exit(3)
	}
	emit := func(r probeRec) {
		b, _ := json.Marshal(&r)
		jf.Write(append(b, '\n')) // unbuffered: survives a crash of this process
	}
	rl := syscall.Rlimit{Cur: childASLimit, Max: childASLimit}
	if err := syscall.Setrlimit(syscall.RLIMIT_AS, &rl); err != nil {
		emit(probeRec{Stage: "info", Msg: "setrlimit(RLIMIT_AS) failed: " + err.Error()})
	} else {
		emit(probeRec{Stage: "info", Msg: fmt.Sprintf("RLIMIT_AS=%d GOGC=%s", uint64(childASLimit), os.Getenv("GOGC"))})
	}
	debug.SetGCPercent(-1)
	var curFile *os.File
	if p := os.Getenv("VERIF_C11_CURRENT"); p != "" {
		curFile, _ = os.OpenFile(p, os.O_CREATE|os.O_WRONLY, 0o644)
	}
	tail := []byte("4abcd")
	i := 0
	// calibration: an empty measurement
	{
		var m0, m1 runtime.MemStats
		runtime.ReadMemStats(&m0)
		runtime.ReadMemStats(&m1)
		emit(probeRec{Stage: "info", Msg: fmt.Sprintf("baseline TotalAlloc delta of an empty measurement: %d", m1.TotalAlloc-m0.TotalAlloc)})
	}
	anyViolated := false
	for _, limit := range allocLimits {
		// control: an honest frame of min(limit/2, 60000) bytes, fully delivered — the monitor must see >= that many bytes
		{
			n := int(limit / 2)
			if n > 60000 {
				n = 60000 // stay in the 16-bit form
			}
			body := bytes.Repeat([]byte{0xab}, n)
			stream := append(wtHeader(uint64(n), true), body...)
			runtime.GC()
			i++
			rec := probeRec{I: i, Limit: limit, Claimed: fmt.Sprint(n), Form: wtForm(uint64(n)), Kind: "binary", Delivery: "whole", Control: true}
			rec.Stage = "begin"
			emit(rec)
			delta, got, dl, err, pan := measure(stream, false, limit)
			rec.Stage, rec.Delta, rec.GotPacket, rec.DataLen, rec.Err, rec.Panic = "end", delta, got, dl, errStr(err), pan
			emit(rec)
		}
		violated := false
		for _, claimed := range escalation(limit) {
			for _, kind := range []string{"text", "binary"} {
				for _, del := range []string{"whole", "onebyte"} {
					stream := append(wtHeader(claimed, kind == "binary"), tail...)
					runtime.GC()
					i++
					rec := probeRec{I: i, Limit: limit, Claimed: strconv.FormatUint(claimed, 10), Form: wtForm(claimed), Kind: kind, Delivery: del}
					rec.Stage = "begin"
					emit(rec)
					delta, got, dl, err, pan := measure(stream, del == "onebyte", limit)
					rec.Stage, rec.Delta, rec.GotPacket, rec.DataLen, rec.Err, rec.Panic = "end", delta, got, dl, errStr(err), pan
					emit(rec)
					runtime.GC()
					debug.FreeOSMemory()
					if delta > uint64(limit)+allocSlack {
						violated = true
					}
				}
			}
			if violated {
				break // do not escalate further: larger claims could really take the memory
			}
		}
		// random headers, only when the escalation showed that claims are bounded
		n := run.Pick(2000, 50000)
		sum := probeRec{Stage: "random", Limit: limit}
		if violated {
			anyViolated = true
			sum.Skipped = true
			emit(sum)
			continue
		}
		r := run.Rand(fmt.Sprintf("c11-alloc-random-%d", limit))
		for k := 0; k < n; k++ {
			claimed := r.Uint64() >> uint(r.Intn(64))
			if claimed <= uint64(limit) {
				continue
			}
			bin := r.Intn(2) == 0
			stream := append(wtHeader(claimed, bin), tail[:r.Intn(len(tail)+1)]...)
			if curFile != nil {
				curFile.WriteAt([]byte(fmt.Sprintf("%-60s\n", fmt.Sprintf("limit=%d claimed=%d bin=%v", limit, claimed, bin))), 0)
			}
			delta, got, _, err, pan := measure(stream, r.Intn(2) == 0, limit)
			sum.Count++
			if delta > sum.MaxDelta {
				sum.MaxDelta = delta
			}
			if pan != "" || got || delta > uint64(limit)+allocSlack {
				i++
				emit(probeRec{Stage: "end", I: i, Limit: limit, Claimed: strconv.FormatUint(claimed, 10), Form: wtForm(claimed), Kind: map[bool]string{true: "binary", false: "text"}[bin],
					Delivery: "random", Delta: delta, GotPacket: got, Err: errStr(err), Panic: pan})
				if delta > uint64(limit)+allocSlack {
					break
				}
			}
			if k%1000 == 999 {
				runtime.GC()
			}
		}
		emit(sum)
	}
	// client path (no limiting reader, so no allocation bound is asserted; only "never panics").
	// Two claims whose 32-bit halves are small, so that an implementation that truncates the
	// length does not really allocate much: 0x0001000100000010 (> 2^48: more than any 64-bit Go
	// heap can hold, make() panics instead of allocating) and 0x8000000100000010 (negative as int).
	// Run only when the limited path showed that claims are bounded.
	if !anyViolated {
		for _, claimed := range []uint64{0x0001000100000010, 0x8000000100000010} {
			for _, kind := range []string{"text", "binary"} {
				stream := append(wtHeader(claimed, kind == "binary"), tail...)
				i++
				rec := probeRec{I: i, Limit: -1, Claimed: strconv.FormatUint(claimed, 10), Form: wtForm(claimed), Kind: kind, Delivery: "raw-path"}
				rec.Stage = "begin"
				emit(rec)
				var m0, m1 runtime.MemStats
				var p *parser.Packet
				var err error
				runtime.ReadMemStats(&m0)
				pan := guard(func() { p, err = wt.VerifNextPacketRaw(bytes.NewReader(stream)) })
				runtime.ReadMemStats(&m1)
				rec.Stage, rec.Delta, rec.GotPacket, rec.Err, rec.Panic = "end", m1.TotalAlloc-m0.TotalAlloc, p != nil && err == nil, errStr(err), pan
				emit(rec)
				p = nil
				runtime.GC()
				debug.FreeOSMemory()
			}
		}
	} else {
		emit(probeRec{Stage: "info", Msg: "raw-path huge-claim probes skipped: the limited path already allocates from the header"})
	}
	emit(probeRec{Stage: "done"})
	jf.Close()
	os.Exit(0)
}

// ---------------------------------------------------------------------------
// parent side

func checkAlloc(run *vk.Run, rp *rep, smp *sampler) {
	start := time.Now()
	work := filepath.Join(vk.Root, ".work", fmt.Sprintf("c11-%d", os.Getpid()))
	os.MkdirAll(work, 0o755)
	keep := false
	defer func() {
		if !keep {
			os.RemoveAll(work)
		}
	}()
	journal := filepath.Join(work, "alloc.jsonl")
	cur := filepath.Join(work, "alloc.current")
	logp := filepath.Join(work, "alloc.log")
	lf, err := os.Create(logp)
	if err != nil {
		run.Inconclusive("allocation probes: cannot create the child log: " + err.Error())
		return
	}
	cmd := exec.Command(os.Args[0], "-tier", run.Tier(), "-seed", fmt.Sprint(run.Seed()), "-sub", "alloc", "-subout", journal)
	cmd.Env = append(os.Environ(), "GOGC=off", "VERIF_C11_CURRENT="+cur)
	cmd.Stdout = lf
	cmd.Stderr = lf
	cmd.SysProcAttr = &syscall.SysProcAttr{Setpgid: true, Pdeathsig: syscall.SIGKILL}
	if err := cmd.Start(); err != nil {
		lf.Close()
		run.Inconclusive("allocation probes: cannot start the child: " + err.Error())
		return
	}
	done := make(chan error, 1)
	go func() { done <- cmd.Wait() }()
	var werr error
	timedOut := false
	select {
	case werr = <-done:
	case <-time.After(time.Duration(run.Pick(120, 400)) * time.Second):
		timedOut = true
		syscall.Kill(-cmd.Process.Pid, syscall.SIGKILL)
		werr = <-done
	}
	lf.Close()

	// read the journal
	var recs []probeRec
	if f, err := os.Open(journal); err == nil {
		sc := bufio.NewScanner(f)
		sc.Buffer(make([]byte, 1<<20), 1<<20)
		for sc.Scan() {
			var r probeRec
			if json.Unmarshal(sc.Bytes(), &r) == nil {
				recs = append(recs, r)
			}
		}
		f.Close()
	}
	finished := false
	var open *probeRec
	type rowKey struct {
		limit   int64
		claimed string
	}
	rows := map[rowKey]uint64{}
	var rowOrder []rowKey
	var infos []string
	var controls []map[string]any
	var rawNotes []map[string]any
	probes := 0
	for idx := range recs {
		r := recs[idx]
		switch r.Stage {
		case "info":
			infos = append(infos, r.Msg)
		case "done":
			finished = true
		case "begin":
			open = &recs[idx]
		case "random":
			run.Count("alloc_random_header_probes", int64(r.Count))
			run.Eval(r.Count)
			if r.Skipped {
				run.Count("alloc_random_header_probes_skipped_after_violation", 1)
			} else {
				run.Note(fmt.Sprintf("alloc_random_headers_limit_%d", r.Limit), map[string]any{"probes": r.Count, "max_delta_bytes": r.MaxDelta})
				run.Distinct(fmt.Sprintf("alloc/limit=%d/random-headers", r.Limit))
			}
		case "end":
			open = nil
			probes++
			run.Eval(1)
			claimed, _ := strconv.ParseUint(r.Claimed, 10, 64)
			cn := claimName(claimed)
			run.Distinct(fmt.Sprintf("alloc/limit=%d/claim=%s/%s/%s", r.Limit, cn, r.Kind, r.Delivery))
			witness := map[string]any{"limit": r.Limit, "claimed": r.Claimed, "claimed_name": cn, "kind": r.Kind, "delivery": r.Delivery, "header_hex": hexTrunc(wtHeader(claimed, r.Kind == "binary"), 9),
				"delivered_after_header": "5 bytes then EOF", "total_alloc_delta": r.Delta, "error": r.Err, "panic": r.Panic}
			if r.Control {
				run.Count("alloc_control_probes", 1)
				if !r.GotPacket || uint64(r.DataLen) != claimed {
					// the honest frame itself was not read correctly (reported by sub-check 3/4): no statement about the monitor
					run.Count("alloc_control_probes_unusable", 1)
				} else if r.Delta < claimed {
					run.Inconclusive(fmt.Sprintf("allocation monitor control (honest frame of %s bytes, limit %d): delta=%d err=%q panic=%q", r.Claimed, r.Limit, r.Delta, r.Err, r.Panic))
				}
				controls = append(controls, map[string]any{"limit": r.Limit, "honest_frame_bytes": claimed, "total_alloc_delta": r.Delta, "read_back_ok": r.GotPacket && uint64(r.DataLen) == claimed})
				continue
			}
			if r.Delivery == "raw-path" {
				// client-side reader: no limit is configured, so only "never panics" is decided here
				run.Count("alloc_raw_path_probes", 1)
				rawNotes = append(rawNotes, map[string]any{"claimed": cn, "kind": r.Kind, "total_alloc_delta": r.Delta, "error": r.Err, "panic": r.Panic})
				if r.Panic != "" {
					rp.viol("panic", map[string]any{"site": "wt-next-packet-raw", "kind": panicKind(r.Panic)}, fmt.Sprintf("nextPacket (client path, no limit) panicked on a header announcing %s bytes: %s", cn, r.Panic), witness)
				}
				if r.GotPacket {
					rp.viol("truncated-frame-accepted", map[string]any{"form": r.Form, "kind": r.Kind}, fmt.Sprintf("a %s header announcing %s bytes followed by 5 bytes and EOF yields a packet without error (client path)", r.Kind, cn), witness)
				}
				continue
			}
			run.Count("alloc_probes", 1)
			k := rowKey{r.Limit, cn}
			if _, ok := rows[k]; !ok {
				rowOrder = append(rowOrder, k)
			}
			if r.Delta > rows[k] {
				rows[k] = r.Delta
			}
			if r.Panic != "" {
				rp.viol("panic", map[string]any{"site": "wt-next-packet", "kind": panicKind(r.Panic)}, fmt.Sprintf("nextPacket panicked on a header announcing %s bytes (limit %d): %s", cn, r.Limit, r.Panic), witness)
			}
			if r.Delta > uint64(r.Limit)+allocSlack {
				rp.viol("alloc-beyond-limit", map[string]any{"limit": r.Limit, "form": r.Form}, fmt.Sprintf("a %s header announcing %s bytes (5 delivered, %s) made the reader allocate %d bytes with limit %d (bound %d)",
					r.Kind, cn, r.Delivery, r.Delta, r.Limit, uint64(r.Limit)+allocSlack), witness)
			}
			if r.GotPacket {
				rp.viol("truncated-frame-accepted", map[string]any{"form": r.Form, "kind": r.Kind}, fmt.Sprintf("a %s header announcing %s bytes followed by 5 bytes and EOF yields a packet without error (limit %d, %s)", r.Kind, cn, r.Limit, r.Delivery), witness)
			}
		}
	}
	if c := run.Counter("alloc_control_probes"); c > 0 && run.Counter("alloc_control_probes_unusable") == c {
		run.Inconclusive("allocation monitor: no control probe was usable, the TotalAlloc monitor is unconfirmed in this run")
	}
	run.Note("alloc_child_info", infos)
	run.Note("alloc_control_probes", controls)
	if len(rawNotes) > 0 {
		run.Note("raw_path_huge_claims", rawNotes)
	}
	var table []map[string]any
	for _, k := range rowOrder {
		table = append(table, map[string]any{"limit": k.limit, "claimed": k.claimed, "max_total_alloc_delta": rows[k]})
	}
	run.Note("alloc_probe_table", table)
	if len(table) > 0 {
		smp.add("alloc", 1, table[len(table)-1])
	}

	switch {
	case timedOut:
		keep = true
		run.Inconclusive(fmt.Sprintf("allocation probes: child did not finish in time (journal %s, log %s)", journal, logp))
	case !finished || werr != nil:
		logb, _ := os.ReadFile(logp)
		head := firstLines(string(logb), 6)
		kind := "other"
		switch {
		case strings.Contains(string(logb), "out of memory") || strings.Contains(string(logb), "cannot allocate memory"):
			kind = "out-of-memory"
		case strings.Contains(string(logb), "makeslice"):
			kind = "makeslice"
		case strings.Contains(string(logb), "panic:"):
			kind = "panic"
		}
		what := fmt.Sprintf("the allocation-probe child died (%v): %s", werr, head)
		witness := map[string]any{"child_log_head": firstLines(string(logb), 30), "exit": fmt.Sprint(werr)}
		if open != nil {
			claimed, _ := strconv.ParseUint(open.Claimed, 10, 64)
			what = fmt.Sprintf("the process died while reading a %s header announcing %s bytes with limit %d (%s): %s", open.Kind, claimName(claimed), open.Limit, open.Delivery, head)
			witness["limit"], witness["claimed"], witness["kind"], witness["delivery"] = open.Limit, open.Claimed, open.Kind, open.Delivery
		} else if b, err := os.ReadFile(cur); err == nil {
			witness["last_random_probe"] = strings.TrimSpace(string(b))
		}
		if open == nil && len(recs) == 0 {
			run.Inconclusive("allocation probes: child left no journal: " + head)
		} else if open != nil && open.Delivery == "raw-path" && kind == "out-of-memory" {
			// no limit is configured on the client path: running out of the child's 8 GiB address-space cap is outside the property
			keep = true
			run.Inconclusive("client-path probe ran out of memory under the child's address-space cap (no limit is configured on that path): " + what)
		} else {
			rp.viol("alloc-child-crash", map[string]any{"kind": kind}, what, witness)
		}
	}
	run.Logf("allocation probes: %d probes + %d random headers in %v", probes, run.Counter("alloc_random_header_probes"), time.Since(start).Round(time.Millisecond))
}

func firstLines(s string, n int) string {
	lines := strings.SplitN(s, "\n", n+1)
	if len(lines) > n {
		lines = lines[:n]
	}
	return strings.Join(lines, " / ")
}
