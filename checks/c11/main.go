// C11 — Engine.IO framing round-trips and matches protocol v4 in every transport's form.
//
// Monitor (all against the real /repo packages, reference = sioverif/internal/refcodec):
//  1. single packets: real Encode -> real Decode == input; real bytes == reference bytes;
//     reference bytes -> real Decode == input; EncodedLen == bytes really written.
//  2. long-polling payloads of 0..8 packets: the same four comparisons.
//  3. WebTransport frames of every encoded length (thorough: every L in 0..70000, text and
//     binary): bytes == reference, header prefix == real body length, the real reader
//     returns the same packet, consumes exactly the frame and decodes the next frame.
//  4. limit semantics of the server-side reader (within limit accepted, beyond rejected,
//     limit 0 = "disabled" as the server passes it).
//  5. decoders never panic: random and mutated byte strings under recover().
//  6. allocation bound: child process (-sub alloc), TotalAlloc delta around one
//     VerifNextPacket call on a reader that announces L >> limit and delivers 5 bytes.
//
// Files: main.go (driver, helpers), packets.go (1,2, handshake), wt.go (3,4), fuzz.go (5),
// alloc.go (6).
package main

import (
	"bytes"
	"encoding/binary"
	"encoding/hex"
	"fmt"
	"io"
	"runtime"
	"sort"
	"strings"
	"sync"
	"syscall"

	"github.com/karagenc/socket.io-go/engine.io/parser"

	"sioverif/internal/refcodec"
	"sioverif/internal/vk"
)

// ---------------------------------------------------------------------------
// reporter with a per-class cap: after 3 reports of one class the observation is only counted.

type rep struct {
	run *vk.Run
	mu  sync.Mutex
	n   map[string]int
}

func newRep(run *vk.Run) *rep { return &rep{run: run, n: map[string]int{}} }

func fieldKey(f map[string]any) string {
	keys := make([]string, 0, len(f))
	for k := range f {
		keys = append(keys, k)
	}
	sort.Strings(keys)
	var b strings.Builder
	for _, k := range keys {
		fmt.Fprintf(&b, "%s=%v,", k, f[k])
	}
	return b.String()
}

// capKeys are the fields that define a class for the 3-reports cap; the finer fields
// (type, class, writer, n) stay in Fields for known-finding matching only.
var capKeys = map[string]bool{"kind": true, "mode": true, "how": true, "form": true, "site": true, "decoder": true, "delivery": true, "limit": true}

func coarse(f map[string]any) map[string]any {
	m := map[string]any{}
	for k, v := range f {
		if capKeys[k] {
			m[k] = v
		}
	}
	return m
}

func (r *rep) viol(sub string, fields map[string]any, what string, witness any) {
	cls := sub + "|" + fieldKey(coarse(fields))
	r.mu.Lock()
	r.n[cls]++
	c := r.n[cls]
	r.mu.Unlock()
	r.run.Count("failed_observations/"+sub, 1)
	if c > 3 {
		r.run.Count("failed_observations_not_reported_after_3_per_class/"+sub, 1)
		return
	}
	r.run.Violation(vk.Violation{Sub: sub, Fields: fields, What: what, Witness: witness})
}

// seen tells how often a class was observed so far.
func (r *rep) seen(sub string, fields map[string]any) int {
	r.mu.Lock()
	defer r.mu.Unlock()
	return r.n[sub+"|"+fieldKey(coarse(fields))]
}

// ---------------------------------------------------------------------------
// sample collector with per-group quotas (vk keeps the first 12 samples only).

type sampler struct {
	mu    sync.Mutex
	items map[string][]any
}

func (s *sampler) add(grp string, max int, v any) {
	s.mu.Lock()
	if s.items == nil {
		s.items = map[string][]any{}
	}
	if len(s.items[grp]) < max {
		s.items[grp] = append(s.items[grp], v)
	}
	s.mu.Unlock()
}

func (s *sampler) flush(run *vk.Run, order ...string) {
	s.mu.Lock()
	defer s.mu.Unlock()
	for _, g := range order {
		for _, v := range s.items[g] {
			run.Sample(v)
		}
	}
}

// ---------------------------------------------------------------------------
// small helpers

func guard(f func()) (pan string) {
	defer func() {
		if x := recover(); x != nil {
			pan = fmt.Sprintf("%v", x)
		}
	}()
	f()
	return ""
}

func panicKind(p string) string {
	switch {
	case strings.Contains(p, "makeslice"):
		return "makeslice"
	case strings.Contains(p, "slice bounds out of range"):
		return "slice-bounds"
	case strings.Contains(p, "index out of range"):
		return "index-range"
	case strings.Contains(p, "nil pointer"):
		return "nil-deref"
	}
	return "other"
}

func hexTrunc(b []byte, n int) string {
	if len(b) > n {
		return hex.EncodeToString(b[:n]) + fmt.Sprintf("...(%d bytes)", len(b))
	}
	return hex.EncodeToString(b)
}

func errStr(err error) string {
	if err == nil {
		return ""
	}
	return err.Error()
}

// errClass shortens an error message to a stable class (no numbers / quoted input).
func errClass(err error) string {
	if err == nil {
		return "ok"
	}
	s := err.Error()
	if i := strings.IndexAny(s, "0123456789\"'`"); i > 0 {
		s = s[:i]
	}
	if len(s) > 48 {
		s = s[:48]
	}
	return "err:" + strings.TrimSpace(s)
}

type plainWriter struct { // implements io.Writer only (no io.ByteWriter)
	b     []byte
	calls int
}

func (w *plainWriter) Write(p []byte) (int, error) {
	w.b = append(w.b, p...)
	w.calls++
	return len(p), nil
}

// chunkReader delivers at most `chunk` bytes per Read; optionally the last data
// comes together with io.EOF (both are legal io.Reader behaviours).
type chunkReader struct {
	b           []byte
	chunk       int
	eofWithData bool
}

func (c *chunkReader) Read(p []byte) (int, error) {
	if len(c.b) == 0 {
		return 0, io.EOF
	}
	n := c.chunk
	if n > len(p) {
		n = len(p)
	}
	if n > len(c.b) {
		n = len(c.b)
	}
	if n == 0 {
		return 0, nil
	}
	copy(p, c.b[:n])
	c.b = c.b[n:]
	if c.eofWithData && len(c.b) == 0 {
		return n, io.EOF
	}
	return n, nil
}

func (c *chunkReader) remaining() int { return len(c.b) }

const wholeChunk = 1 << 62

func toE(p *parser.Packet) refcodec.EPacket {
	return refcodec.EPacket{Type: int(p.Type), Binary: p.IsBinary, Data: p.Data}
}

// diffPacket returns "" if the real packet equals the expected one.
func diffPacket(got *parser.Packet, want refcodec.EPacket) string {
	if got == nil {
		return "nil packet"
	}
	if int(got.Type) != want.Type {
		return fmt.Sprintf("type %d, want %d", got.Type, want.Type)
	}
	if got.IsBinary != want.Binary {
		return fmt.Sprintf("binary flag %v, want %v", got.IsBinary, want.Binary)
	}
	if !bytes.Equal(got.Data, want.Data) {
		i := 0
		for i < len(got.Data) && i < len(want.Data) && got.Data[i] == want.Data[i] {
			i++
		}
		return fmt.Sprintf("data differs at byte %d: got %d bytes %s, want %d bytes %s", i, len(got.Data), hexTrunc(got.Data, 24), len(want.Data), hexTrunc(want.Data, 24))
	}
	return ""
}

func firstDiff(a, b []byte) int {
	i := 0
	for i < len(a) && i < len(b) && a[i] == b[i] {
		i++
	}
	return i
}

func noRS(b []byte) []byte {
	for i := range b {
		if b[i] == 0x1e {
			b[i] = 0x1f
		}
	}
	return b
}

func wtForm(n uint64) string {
	switch {
	case n < 126:
		return "1-byte"
	case n < 65536:
		return "3-byte"
	}
	return "9-byte"
}

// parseWTHeader is the monitor's own reading of a frame header (protocol text:
// bit 7 = binary, low 7 bits = length or 126 -> uint16 BE, 127 -> uint64 BE).
func parseWTHeader(b []byte) (isBin bool, claimed uint64, hdrLen int, ok bool) {
	if len(b) < 1 {
		return
	}
	isBin = b[0]&0x80 != 0
	switch l := b[0] & 0x7f; l {
	case 126:
		if len(b) < 3 {
			return
		}
		return isBin, uint64(binary.BigEndian.Uint16(b[1:3])), 3, true
	case 127:
		if len(b) < 9 {
			return
		}
		return isBin, binary.BigEndian.Uint64(b[1:9]), 9, true
	default:
		return isBin, uint64(l), 1, true
	}
}

// wtHeader builds the canonical header for a claimed body length.
func wtHeader(claimed uint64, bin bool) []byte {
	var h []byte
	switch {
	case claimed < 126:
		h = []byte{byte(claimed)}
	case claimed < 65536:
		h = []byte{126, 0, 0}
		binary.BigEndian.PutUint16(h[1:], uint16(claimed))
	default:
		h = make([]byte, 9)
		h[0] = 127
		binary.BigEndian.PutUint64(h[1:], claimed)
	}
	if bin {
		h[0] |= 0x80
	}
	return h
}

// parallel runs f(0..n-1) on a pool of GOMAXPROCS goroutines.
func parallel(n int, f func(i int)) {
	nw := runtime.GOMAXPROCS(0)
	if nw > n {
		nw = n
	}
	if nw < 1 {
		nw = 1
	}
	jobs := make(chan int, 256)
	var wg sync.WaitGroup
	for w := 0; w < nw; w++ {
		wg.Add(1)
		go func() {
			defer wg.Done()
			for i := range jobs {
				f(i)
			}
		}()
	}
	for i := 0; i < n; i++ {
		jobs <- i
	}
	close(jobs)
	wg.Wait()
}

func main() {
	run := vk.Start("C11", "exploration")
	if run.SubMode == "alloc" {
		allocChild(run)
		return
	}
	run.Rule("1) packets: full matrix type(0..6) x text/binary(message) x supportsBinary x writer(ByteWriter/plain) x payload class " +
		"(empty, random, zeros, ff, base64-looking, 'b'-prefixed, digit-prefixed, utf8, record-separator bytes in binary) x sizes covering every len%3 and 125/126/127/255/256/4096/65535/65536/100000(+1MiB thorough), plus seeded random cases; distinct by (type, kind, mode, class, length). " +
		"2) payloads: seeded sequences of 0..8 packets (text never contains 0x1e); distinct by (n, per-packet kind/emptiness pattern). " +
		"3) WebTransport frames: one case per (kind, encoded length L); thorough enumerates every L in 0..70000 for text and binary, quick takes 0..300, the boundaries 125/126/127/65534/65535/65536/65537 +-3 and a stride of 997; each case is read back through the real limitedReader path and the raw path, followed by a second frame; distinct by (kind, L). " +
		"4) limit semantics: frames within/beyond limits {16,4096,1e6} and limit 0 under whole/one-byte/chunked delivery. " +
		"5) decoders under recover(): seeded random byte strings (4 alphabets) and 1..3-step mutations of valid encodings into Decode(text), Decode(binary), DecodePayloads, the WebTransport reader (both paths, up to 50 frames per input) and ParseHandshakeResponse; distinct by (decoder, outcome class). " +
		"6) allocation: child process, claimed lengths ascending from 2*limit to 2^64-1 x text/binary x whole/one-byte delivery, TotalAlloc delta per call; distinct by (limit, claimed, kind, delivery)")
	run.Assume("reference codec refcodec/eio.go written from the Engine.IO v4 protocol text, independent of /repo",
		"text payloads never contain the record separator 0x1e (excluded by the property)",
		"'within the limit' is only asserted for body length <= limit-9 and 'beyond the limit' for body length > limit, so either reading of the limit (body only / header+body) is admitted; a frame of exactly the limit is recorded as a note only",
		"allocation is measured as runtime.MemStats.TotalAlloc delta on a single goroutine in a child with GOGC=off; bound = limit + 64 KiB",
		"WebTransport fuzz inputs in the 9-byte form are clamped to claimed lengths < 2^17 so that the in-process fuzz cannot exhaust memory on a tree whose reader allocates from the header; large claims are exercised only in the child (sub-check 6)")

	// protective ceiling: a runaway allocation ends this process loudly instead of the machine
	syscall.Setrlimit(syscall.RLIMIT_AS, &syscall.Rlimit{Cur: 24 << 30, Max: 24 << 30})

	rp := newRep(run)
	smp := &sampler{}

	checkPackets(run, rp, smp)
	checkPayloads(run, rp, smp)
	checkHandshake(run, rp, smp)
	exhaustive := checkWT(run, rp, smp)
	checkLimits(run, rp, smp)
	checkWTE2E(run, rp, smp)
	checkFuzz(run, rp, smp)
	checkAlloc(run, rp, smp)

	run.Exhaustive(exhaustive)
	smp.flush(run, "pkt/ff", "pkt/bprefix", "pkt/rs", "payload", "wt", "limit", "fuzz", "alloc", "handshake")
	run.Finish()
}
