package main

import (
	"bytes"
	"fmt"
	"math/rand"
	"sync"
	"time"

	"github.com/karagenc/socket.io-go/engine.io/parser"

	"sioverif/internal/refcodec"
	"sioverif/internal/vk"
)

var protoAlphabet = []byte("01234567bbQUJDRA==+/\x1e\x1e\x7e\x7f\xfe\xff\x80\x00\n\r -{}\"")

// clampWTInPlace keeps a 9-byte-form header below 2^17 claimed bytes under the big-endian
// 64-bit reading (and below that under any reading of a 4-byte window), see the assumption in main.
func clampWTInPlace(b []byte) bool {
	if len(b) >= 9 && b[0]&0x7f == 127 {
		if b[1]|b[2]|b[3]|b[4]|b[5] != 0 || b[6] > 1 {
			b[1], b[2], b[3], b[4], b[5] = 0, 0, 0, 0, 0
			b[6] &= 1
			return true
		}
	}
	return false
}

func genRandomInput(r *rand.Rand) []byte {
	var n int
	switch x := r.Intn(100); {
	case x < 50:
		n = r.Intn(17)
	case x < 85:
		n = r.Intn(81)
	default:
		n = r.Intn(1501)
	}
	b := make([]byte, n)
	switch r.Intn(4) {
	case 0:
		r.Read(b)
	case 1:
		for i := range b {
			b[i] = protoAlphabet[r.Intn(len(protoAlphabet))]
		}
	case 2: // WebTransport header focus
		r.Read(b)
		if n > 0 {
			b[0] = []byte{126, 127, 254, 255, 125, 0x80, 0, 1, byte(n - 1), byte(n-1) | 0x80}[r.Intn(10)]
		}
		if n >= 3 && r.Intn(2) == 0 { // plausible 16-bit length
			b[1], b[2] = byte((n-3)>>8), byte(n-3)
		}
	case 3: // 'b' + nearly valid base64
		src := make([]byte, n)
		r.Read(src)
		s := refcodec.EncodeEIO(refcodec.EPacket{Type: refcodec.EMessage, Binary: true, Data: src}, false)
		b = s
		if len(b) > 1 {
			switch r.Intn(4) {
			case 0:
				b[1+r.Intn(len(b)-1)] = byte(r.Intn(256))
			case 1:
				b = b[:1+r.Intn(len(b)-1)]
			case 2:
				b = append(b, '=')
			}
		}
	}
	return b
}

func buildCorpus(run *vk.Run) [][]byte {
	r := run.Rand("c11-fuzz-corpus")
	var c [][]byte
	for i := 0; i < 40; i++ {
		p := genPayloadPacket(r)
		c = append(c, refcodec.EncodeEIO(p, false))
		c = append(c, refcodec.EncodeWT(p))
	}
	for i := 0; i < 30; i++ {
		n := 1 + r.Intn(8)
		var eps []refcodec.EPacket
		for j := 0; j < n; j++ {
			eps = append(eps, genPayloadPacket(r))
		}
		c = append(c, refcodec.EncodePayload(eps))
	}
	for _, l := range []int{124, 125, 126, 127, 300, 65535, 65536, 65540} {
		c = append(c, refcodec.EncodeWT(refcodec.EPacket{Type: refcodec.EMessage, Binary: true, Data: mkData(r, "random", l, false)}))
		if l < 1000 {
			c = append(c, refcodec.EncodeWT(refcodec.EPacket{Type: refcodec.EMessage, Data: mkData(r, "b64text", l-1, true)}))
		}
	}
	c = append(c, []byte(`0{"sid":"lv_VI97HAXpY6yYWAAAC","upgrades":["websocket"],"pingInterval":25000,"pingTimeout":20000,"maxPayload":1000000}`))
	return c
}

func mutate(r *rand.Rand, corpus [][]byte) []byte {
	b := append([]byte(nil), corpus[r.Intn(len(corpus))]...)
	interesting := []byte{0x1e, 'b', '=', 0x7e, 0x7f, 0xfe, 0xff, 0, 0x80, '0', '6', '7'}
	for k := 0; k <= r.Intn(3); k++ {
		if len(b) == 0 {
			b = []byte{byte(r.Intn(256))}
		}
		switch r.Intn(8) {
		case 0:
			b[r.Intn(len(b))] ^= 1 << uint(r.Intn(8))
		case 1:
			b[r.Intn(len(b))] = interesting[r.Intn(len(interesting))]
		case 2:
			j := r.Intn(len(b))
			b = append(b[:j], b[j+1:]...)
		case 3:
			j := r.Intn(len(b) + 1)
			b = append(b[:j], append([]byte{interesting[r.Intn(len(interesting))]}, b[j:]...)...)
		case 4:
			b = b[:r.Intn(len(b)+1)]
		case 5:
			j := r.Intn(len(b))
			l := r.Intn(len(b)-j) + 1
			if l > 64 {
				l = 64
			}
			b = append(b[:j+l], append(append([]byte(nil), b[j:j+l]...), b[j+l:]...)...)
		case 6:
			o := corpus[r.Intn(len(corpus))]
			if len(o) < 5000 {
				b = append(b, o...)
			}
		case 7: // header bytes of a frame
			if len(b) > 0 {
				b[r.Intn(minInt(len(b), 9))] = byte(r.Intn(256))
			}
		}
	}
	return b
}

func minInt(a, b int) int {
	if a < b {
		return a
	}
	return b
}

type fuzzState struct {
	run      *vk.Run
	rp       *rep
	smp      *sampler
	mu       sync.Mutex
	examples []map[string]any // informational real-vs-reference disagreements on non-canonical input
}

func (fs *fuzzState) disagree(decoder string, in []byte, realOut, refOut string) {
	fs.run.Count("differential_disagreements_noncanonical/"+decoder, 1)
	fs.mu.Lock()
	if len(fs.examples) < 8 {
		fs.examples = append(fs.examples, map[string]any{"decoder": decoder, "input_hex": hexTrunc(in, 48), "real": realOut, "reference": refOut})
	}
	fs.mu.Unlock()
}

func hasRS(b []byte) bool { return bytes.IndexByte(b, 0x1e) >= 0 }

// feedAll pushes one input through every decoder under recover().
func (fs *fuzzState) feedAll(in []byte, origin string) {
	run, rp := fs.run, fs.rp
	run.Eval(1)
	witness := map[string]any{"input_hex": hexTrunc(in, 2048), "len": len(in), "origin": origin}
	panicV := func(site, pan string) {
		rp.viol("panic", map[string]any{"site": site, "kind": panicKind(pan)}, fmt.Sprintf("%s panicked on %d input bytes %s: %s", site, len(in), hexTrunc(in, 40), pan), witness)
	}

	// 1. Decode, text frame
	pk, err, pan := realDecode(append([]byte(nil), in...), false)
	run.Count("fuzz_calls", 1)
	if pan != "" {
		panicV("Decode", pan)
	} else {
		oc := errClass(err)
		if err == nil {
			oc = fmt.Sprintf("ok/t=%d/bin=%v", pk.Type, pk.IsBinary)
		}
		run.Distinct("fuzz/decode-text/" + oc)
		ref, rerr := refcodec.DecodeEIO(in, false)
		if rerr == nil && bytes.Equal(refcodec.EncodeEIO(ref, false), in) && (ref.Binary || !hasRS(ref.Data)) {
			// canonical v4 encoding of ref: the real decoder must agree
			if err != nil {
				rp.viol("fuzz-canonical-decode", map[string]any{"decoder": "Decode", "how": "error"}, fmt.Sprintf("canonical encoding %s of %v rejected: %v", hexTrunc(in, 40), ref, err), witness)
			} else if d := diffPacket(pk, ref); d != "" {
				rp.viol("fuzz-canonical-decode", map[string]any{"decoder": "Decode", "how": "differs"}, fmt.Sprintf("canonical encoding %s decodes differently: %s", hexTrunc(in, 40), d), witness)
			}
			run.Count("fuzz_canonical_inputs/decode-text", 1)
		} else if (err == nil) != (rerr == nil) || (err == nil && diffPacket(pk, ref) != "") {
			fs.disagree("Decode", in, oc, errClass(rerr))
		}
	}
	// 2. Decode, binary frame: any bytes are a binary message
	pk, err, pan = realDecode(append([]byte(nil), in...), true)
	run.Count("fuzz_calls", 1)
	if pan != "" {
		panicV("Decode(binary)", pan)
	} else if err != nil {
		rp.viol("fuzz-canonical-decode", map[string]any{"decoder": "Decode(binary)", "how": "error"}, "a binary frame is rejected: "+err.Error(), witness)
	} else if d := diffPacket(pk, refcodec.EPacket{Type: refcodec.EMessage, Binary: true, Data: in}); d != "" {
		rp.viol("fuzz-canonical-decode", map[string]any{"decoder": "Decode(binary)", "how": "differs"}, "a binary frame decodes differently: "+d, witness)
	} else {
		run.Distinct("fuzz/decode-binary/ok")
	}
	// 3. DecodePayloads
	var pks []*parser.Packet
	pan = guard(func() { pks, err = parser.DecodePayloads(bytes.NewReader(in)) })
	run.Count("fuzz_calls", 1)
	if pan != "" {
		panicV("DecodePayloads", pan)
	} else {
		oc := errClass(err)
		if err == nil {
			oc = fmt.Sprintf("ok/n=%d", minInt(len(pks), 9))
		}
		run.Distinct("fuzz/decode-payload/" + oc)
		refs, rerr := refcodec.DecodePayload(in)
		same := err == nil && rerr == nil && len(refs) == len(pks)
		if same {
			for i := range refs {
				if diffPacket(pks[i], refs[i]) != "" {
					same = false
				}
			}
		}
		if rerr == nil && bytes.Equal(refcodec.EncodePayload(refs), in) {
			run.Count("fuzz_canonical_inputs/decode-payload", 1)
			if err != nil {
				rp.viol("fuzz-canonical-decode", map[string]any{"decoder": "DecodePayloads", "how": "error"}, fmt.Sprintf("canonical payload %s rejected: %v", hexTrunc(in, 40), err), witness)
			} else if !same {
				rp.viol("fuzz-canonical-decode", map[string]any{"decoder": "DecodePayloads", "how": "differs"}, fmt.Sprintf("canonical payload %s decodes differently (%d packets, reference %d)", hexTrunc(in, 40), len(pks), len(refs)), witness)
			}
		} else if (err == nil) != (rerr == nil) || (err == nil && !same) {
			fs.disagree("DecodePayloads", in, oc, errClass(rerr))
		}
	}
	// 4. WebTransport reader, both paths, frame after frame. The header at every frame
	// position is clamped in place (on a private copy) before the reader sees it.
	for _, p := range wtPaths {
		buf := append([]byte(nil), in...)
		rd := &chunkReader{b: buf, chunk: wholeChunk}
		for k := 0; k < 50; k++ {
			pos := len(buf) - rd.remaining()
			rest := buf[pos:]
			if clampWTInPlace(rest) {
				run.Count("fuzz_wt_headers_clamped", 1)
			}
			// what the protocol says about the bytes at this position (computed before the call)
			ref, after, rerr := refcodec.DecodeWT(rest)
			canonical := rerr == nil && (ref.Binary || !hasRS(ref.Data)) && bytes.Equal(refcodec.EncodeWT(ref), rest[:len(rest)-len(after)])
			_, claimedLen, _, hdrOK := parseWTHeader(rest)
			var got *parser.Packet
			pan := guard(func() { got, err = p.next(rd) })
			run.Count("fuzz_calls", 1)
			if pan != "" {
				panicV("wt-next-packet", pan)
				break
			}
			if k == 0 {
				oc := errClass(err)
				if err == nil {
					oc = fmt.Sprintf("ok/t=%d/bin=%v", got.Type, got.IsBinary)
				}
				if hdrOK {
					oc += "/" + wtForm(claimedLen)
					if b0 := rest[0] & 0x7f; (b0 == 126 && claimedLen < 126) || (b0 == 127 && claimedLen < 65536) {
						oc += "-overlong"
					}
				}
				run.Distinct("fuzz/wt-" + p.name + "/" + oc)
			}
			if canonical {
				run.Count("fuzz_canonical_inputs/wt", 1)
				form := wtForm(claimedLen)
				if err != nil {
					rp.viol("fuzz-canonical-decode", map[string]any{"decoder": "wt-next-packet", "how": "error", "form": form}, fmt.Sprintf("canonical frame at offset %d of the input (path %s) rejected: %v", pos, p.name, err), witness)
					break
				}
				if d := diffPacket(got, ref); d != "" {
					rp.viol("fuzz-canonical-decode", map[string]any{"decoder": "wt-next-packet", "how": "differs", "form": form}, fmt.Sprintf("canonical frame at offset %d of the input (path %s) decodes differently: %s", pos, p.name, d), witness)
					break
				}
				if consumed, want := len(buf)-rd.remaining(), len(buf)-len(after); consumed != want {
					rp.viol("wt-consumed", map[string]any{"kind": "fuzz", "form": form}, fmt.Sprintf("reader stands at offset %d, the frame ends at %d (path %s)", consumed, want, p.name), witness)
					break
				}
				continue
			}
			if k == 0 && ((err == nil) != (rerr == nil) || (err == nil && diffPacket(got, ref) != "")) {
				fs.disagree("wt-next-packet", rest, errClass(err), errClass(rerr))
			}
			if err != nil {
				break
			}
		}
	}
	// 5. handshake body
	pan = guard(func() { _, err = parser.ParseHandshakeResponse(&parser.Packet{Type: parser.PacketTypeOpen, Data: in}) })
	run.Count("fuzz_calls", 1)
	if pan != "" {
		panicV("ParseHandshakeResponse", pan)
	}
}

func checkFuzz(run *vk.Run, rp *rep, smp *sampler) {
	start := time.Now()
	fs := &fuzzState{run: run, rp: rp, smp: smp}
	corpus := buildCorpus(run)
	for _, c := range corpus { // unmutated corpus first
		fs.feedAll(c, "corpus")
	}
	nRand := run.Pick(100000, 1200000)
	nMut := run.Pick(60000, 600000)
	const shards = 16
	parallel(shards, func(s int) {
		r := run.Rand(fmt.Sprintf("c11-fuzz-rand-%d", s))
		for i := 0; i < nRand/shards; i++ {
			in := genRandomInput(r)
			fs.feedAll(in, "random")
			if s == 0 && len(in) >= 6 && len(in) <= 40 {
				smp.add("fuzz", 1, map[string]any{"check": "decoder-fuzz", "origin": "random", "input_hex": hexTrunc(in, 48)})
			}
		}
		run.Count("fuzz_random_inputs", int64(nRand/shards))
		r = run.Rand(fmt.Sprintf("c11-fuzz-mut-%d", s))
		for i := 0; i < nMut/shards; i++ {
			fs.feedAll(mutate(r, corpus), "mutation")
		}
		run.Count("fuzz_mutated_inputs", int64(nMut/shards))
	})
	run.Note("fuzz_corpus_entries", len(corpus))
	if len(fs.examples) > 0 {
		run.Note("informational_decoder_disagreements_on_noncanonical_input", fs.examples)
	}
	run.Logf("decoder fuzz: %d random + %d mutated inputs, %d decoder calls in %v", run.Counter("fuzz_random_inputs"), run.Counter("fuzz_mutated_inputs"), run.Counter("fuzz_calls"), time.Since(start).Round(time.Millisecond))
}
