package main

import (
	"bytes"
	"fmt"
	"io"
	"sort"
	"sync"
	"time"

	"github.com/karagenc/socket.io-go/engine.io/parser"
	wt "github.com/karagenc/socket.io-go/engine.io/transport/webtransport"

	"sioverif/internal/refcodec"
	"sioverif/internal/vk"
)

const maxLenWT = 70000
const bigLimit = int64(1) << 30

type wtPath struct {
	name string
	next func(io.Reader) (*parser.Packet, error)
}

var wtPaths = []wtPath{
	{"limited", func(r io.Reader) (*parser.Packet, error) { return wt.VerifNextPacket(r, bigLimit) }},
	{"raw", func(r io.Reader) (*parser.Packet, error) { return wt.VerifNextPacketRaw(r) }},
}

type delivery struct {
	name        string
	chunk       int
	eofWithData bool
}

var (
	wtTextPool []byte
	wtBinPool  []byte
)

// wtPacket builds the packet whose *encoded* length is L.
func wtPacket(kind string, L int) refcodec.EPacket {
	off := (L * 31) % 1000
	if kind == "text" {
		return refcodec.EPacket{Type: L % 7, Data: wtTextPool[off : off+L-1]}
	}
	return refcodec.EPacket{Type: refcodec.EMessage, Binary: true, Data: wtBinPool[off : off+L]}
}

func wtCase(run *vk.Run, rp *rep, smp *sampler, kind string, L int, chunked bool) {
	run.Eval(1)
	run.Distinct(fmt.Sprintf("wt/%s/len=%d", kind, L))
	run.Count("wt_cases_"+kind, 1)
	form := wtForm(uint64(L))
	run.Count("wt_cases_form_"+form, 1)
	ep := wtPacket(kind, L)
	witness := map[string]any{"kind": kind, "encoded_len": L, "type": ep.Type, "form": form, "data": "pool offset (L*31)%1000 of the seeded pool", "data_hex": hexTrunc(ep.Data, 32)}
	fields := func(extra ...string) map[string]any {
		m := map[string]any{"kind": kind, "form": form}
		for i := 0; i+1 < len(extra); i += 2 {
			m[extra[i]] = extra[i+1]
		}
		return m
	}
	pk, err := parser.NewPacket(parser.PacketType(ep.Type), ep.Binary, ep.Data)
	if err != nil {
		rp.viol("pkt-newpacket", fields(), "NewPacket rejects a legal packet: "+err.Error(), witness)
		return
	}
	if n := pk.EncodedLen(true); n != L {
		rp.viol("pkt-encodedlen", fields(), fmt.Sprintf("EncodedLen(true)=%d, want %d", n, L), witness)
	}
	var buf bytes.Buffer
	pan := guard(func() { err = wt.VerifSend(&buf, pk) })
	if pan != "" {
		rp.viol("panic", map[string]any{"site": "wt-send", "kind": panicKind(pan)}, fmt.Sprintf("send panicked at encoded length %d: %s", L, pan), witness)
		return
	}
	if err != nil {
		rp.viol("wt-send-error", fields(), "send into an in-memory writer failed: "+err.Error(), witness)
		return
	}
	frame := append([]byte(nil), buf.Bytes()...)
	ref := refcodec.EncodeWT(ep)
	if !bytes.Equal(frame, ref) {
		rp.viol("wt-format", fields(), fmt.Sprintf("frame for encoded length %d differs from the reference at byte %d: got %d bytes %s, want %d bytes %s",
			L, firstDiff(frame, ref), len(frame), hexTrunc(frame, 16), len(ref), hexTrunc(ref, 16)), witness)
	}
	// header prefix == real body length (monitor's own header reading)
	if isBin, claimed, hl, ok := parseWTHeader(frame); !ok {
		rp.viol("wt-length-prefix", fields(), fmt.Sprintf("frame of %d bytes has no complete header", len(frame)), witness)
	} else {
		if claimed != uint64(len(frame)-hl) {
			rp.viol("wt-length-prefix", fields(), fmt.Sprintf("header announces %d bytes, %d body bytes were written (encoded length %d)", claimed, len(frame)-hl, L), witness)
		}
		if isBin != ep.Binary {
			rp.viol("wt-format", fields("what", "binary-flag"), fmt.Sprintf("binary flag %v on a %s packet", isBin, kind), witness)
		}
	}

	// read back: first frame, exact consumption, second frame, then EOF
	tail := refcodec.EPacket{Type: refcodec.EPing, Data: []byte("probe")}
	if L%2 == 1 {
		tail = refcodec.EPacket{Type: refcodec.EMessage, Binary: true, Data: []byte{0x1e, 0x00, 0xff}}
	}
	tailFrame := refcodec.EncodeWT(tail)
	dels := []delivery{{"whole", wholeChunk, false}}
	if chunked {
		if L <= 5000 {
			dels = append(dels, delivery{"onebyte", 1, false})
		}
		dels = append(dels, delivery{"chunk1000+eof-with-data", 1000, true})
	}
	for _, src := range []struct {
		name string
		b    []byte
	}{{"wt-roundtrip", frame}, {"wt-interop-decode", ref}} {
		if src.name == "wt-interop-decode" && bytes.Equal(frame, ref) {
			continue // same bytes, already done
		}
		for _, p := range wtPaths {
			for _, d := range dels {
				stream := make([]byte, 0, len(src.b)+len(tailFrame))
				stream = append(append(stream, src.b...), tailFrame...)
				rd := &chunkReader{b: stream, chunk: d.chunk, eofWithData: d.eofWithData}
				where := fmt.Sprintf("encoded length %d, path %s, delivery %s", L, p.name, d.name)
				var got *parser.Packet
				var err error
				pan := guard(func() { got, err = p.next(rd) })
				run.Count("wt_reads", 1)
				if pan != "" {
					rp.viol("panic", map[string]any{"site": "wt-next-packet", "kind": panicKind(pan)}, "nextPacket panicked ("+where+"): "+pan, witness)
					continue
				}
				if err != nil {
					rp.viol(src.name, fields("how", "error"), "a valid frame is rejected ("+where+"): "+err.Error(), witness)
					continue
				}
				if dd := diffPacket(got, ep); dd != "" {
					rp.viol(src.name, fields("how", "differs"), "frame decodes to a different packet ("+where+"): "+dd, witness)
					continue
				}
				if consumed := len(stream) - rd.remaining(); consumed != len(src.b) {
					rp.viol("wt-consumed", fields(), fmt.Sprintf("%d bytes consumed for a frame of %d bytes (%s)", consumed, len(src.b), where), witness)
					continue
				}
				pan = guard(func() { got, err = p.next(rd) })
				if pan != "" {
					rp.viol("panic", map[string]any{"site": "wt-next-packet", "kind": panicKind(pan)}, "nextPacket panicked on the following frame ("+where+"): "+pan, witness)
					continue
				}
				if err != nil {
					rp.viol("wt-second-frame", fields("how", "error"), "the frame that follows is rejected ("+where+"): "+err.Error(), witness)
					continue
				}
				if dd := diffPacket(got, tail); dd != "" {
					rp.viol("wt-second-frame", fields("how", "differs"), "the frame that follows decodes differently ("+where+"): "+dd, witness)
					continue
				}
				pan = guard(func() { got, err = p.next(rd) })
				if pan != "" {
					rp.viol("panic", map[string]any{"site": "wt-next-packet", "kind": panicKind(pan)}, "nextPacket panicked at end of stream ("+where+"): "+pan, witness)
				} else if err == nil {
					rp.viol("wt-eof", fields(), "a packet is returned from an exhausted stream ("+where+")", witness)
				}
			}
		}
	}
	switch L {
	case 125, 126, 65535, 65536:
		if kind == "text" || L == 65536 {
			smp.add("wt", 4, map[string]any{"check": "webtransport-frame", "kind": kind, "encoded_len": L, "form": form, "header_hex": hexTrunc(frame, 9), "frame_len": len(frame)})
		}
	}
}

// wtLengths returns the set of encoded lengths of the tier and the subset read with chunked deliveries too.
func wtLengths(run *vk.Run) (ls []int, chunked map[int]bool, exhaustive bool) {
	chunked = map[int]bool{}
	bounds := []int{125, 126, 127, 65534, 65535, 65536, 65537}
	for _, b := range bounds {
		for d := -3; d <= 3; d++ {
			chunked[b+d] = true
		}
	}
	for _, l := range []int{0, 1, 2, 3, 1000, 1001, 4096, 32768, 70000} {
		chunked[l] = true
	}
	if run.Thorough() {
		for l := 0; l <= maxLenWT; l++ {
			ls = append(ls, l)
			if l%500 == 0 {
				chunked[l] = true
			}
		}
		return ls, chunked, true
	}
	set := map[int]bool{}
	for l := 0; l <= 300; l++ {
		set[l] = true
	}
	for l := range chunked {
		set[l] = true
	}
	for l := 0; l <= maxLenWT; l += 997 {
		set[l] = true
	}
	set[maxLenWT] = true
	for l := range set {
		ls = append(ls, l)
	}
	sort.Ints(ls)
	return ls, chunked, false
}

func checkWT(run *vk.Run, rp *rep, smp *sampler) (exhaustive bool) {
	start := time.Now()
	r := run.Rand("c11-wt-pool")
	wtBinPool = make([]byte, maxLenWT+1100)
	r.Read(wtBinPool)
	wtTextPool = noRS(append([]byte(nil), wtBinPool...))
	ls, chunked, exhaustive := wtLengths(run)
	type job struct {
		kind string
		L    int
	}
	var jobs []job
	for _, l := range ls {
		if l >= 1 {
			jobs = append(jobs, job{"text", l})
		}
		jobs = append(jobs, job{"binary", l})
	}
	parallel(len(jobs), func(i int) { wtCase(run, rp, smp, jobs[i].kind, jobs[i].L, chunked[jobs[i].L]) })
	run.Note("wt_lengths", map[string]any{"count": len(ls), "min": ls[0], "max": ls[len(ls)-1], "every_length_enumerated": exhaustive, "lengths_with_chunked_delivery": len(chunked)})
	run.Logf("webtransport frames: %d cases (%d lengths), %d reads in %v", len(jobs), len(ls), run.Counter("wt_reads"), time.Since(start).Round(time.Millisecond))
	return exhaustive
}

// ---------------------------------------------------------------------------
// limit semantics of the server-side reader

func checkLimits(run *vk.Run, rp *rep, smp *sampler) {
	dedupe := func(in []int) []int {
		seen := map[int]bool{}
		var out []int
		for _, v := range in {
			if v >= 0 && !seen[v] {
				seen[v] = true
				out = append(out, v)
			}
		}
		sort.Ints(out)
		return out
	}
	mk := func(kind string, L int) (refcodec.EPacket, bool) {
		if kind == "text" {
			if L < 1 {
				return refcodec.EPacket{}, false
			}
			d := bytes.Repeat([]byte("limit-probe "), L/12+1)[:L-1]
			return refcodec.EPacket{Type: refcodec.EMessage, Data: d}, true
		}
		d := make([]byte, L)
		for i := range d {
			d[i] = byte(i * 7)
		}
		return refcodec.EPacket{Type: refcodec.EMessage, Binary: true, Data: d}, true
	}
	read := func(ep refcodec.EPacket, limit int64, d delivery) (got *parser.Packet, err error, pan string) {
		rd := &chunkReader{b: refcodec.EncodeWT(ep), chunk: d.chunk, eofWithData: d.eofWithData}
		pan = guard(func() { got, err = wt.VerifNextPacket(rd, limit) })
		return
	}
	atLimit := map[string]any{}
	table := map[string]map[string]int{} // "limit=…/delivery" -> frames beyond the limit / accepted
	var tm sync.Mutex
	for _, limit := range []int64{16, 4096, 1000000} {
		lim := int(limit)
		dels := []delivery{{"whole", wholeChunk, false}, {"onebyte", 1, false}}
		c := lim
		if c > 1000 {
			c = 1000
		}
		dels = append(dels, delivery{"chunk<=limit", c, false}, delivery{"chunk>limit", 2 * lim, false})
		within := dedupe([]int{0, 1, 2, lim / 2, lim - 9})
		over := dedupe([]int{lim + 1, lim + 2, lim + 100, 2 * lim, 10*lim + 3})
		for _, kind := range []string{"text", "binary"} {
			for _, L := range within {
				for _, d := range dels {
					ep, ok := mk(kind, L)
					if !ok {
						continue
					}
					form := wtForm(uint64(L))
					run.Eval(1)
					run.Count("limit_cases_within", 1)
					run.Distinct(fmt.Sprintf("limit/%d/within/%s/len=%d/%s", limit, kind, L, d.name))
					witness := map[string]any{"limit": limit, "kind": kind, "encoded_len": L, "delivery": d.name}
					got, err, pan := read(ep, limit, d)
					if pan != "" {
						rp.viol("panic", map[string]any{"site": "wt-next-packet", "kind": panicKind(pan)}, "nextPacket panicked: "+pan, witness)
					} else if err != nil {
						rp.viol("within-limit-rejected", map[string]any{"form": form}, fmt.Sprintf("a %s frame of encoded length %d is rejected with limit %d (delivery %s): %v", kind, L, limit, d.name, err), witness)
					} else if dd := diffPacket(got, ep); dd != "" {
						rp.viol("within-limit-differs", map[string]any{"form": form}, fmt.Sprintf("a %s frame of encoded length %d within limit %d decodes differently (delivery %s): %s", kind, L, limit, d.name, dd), witness)
					} else {
						run.Count("limit_within_accepted", 1)
					}
				}
			}
			for _, L := range over {
				for _, d := range dels {
					if d.name == "onebyte" && L > 200000 {
						continue
					}
					ep, _ := mk(kind, L)
					form := wtForm(uint64(L))
					run.Eval(1)
					run.Count("limit_cases_beyond", 1)
					run.Distinct(fmt.Sprintf("limit/%d/beyond/%s/len=%d/%s", limit, kind, L, d.name))
					witness := map[string]any{"limit": limit, "kind": kind, "encoded_len": L, "delivery": d.name}
					key := fmt.Sprintf("limit=%d/%s", limit, d.name)
					tm.Lock()
					if table[key] == nil {
						table[key] = map[string]int{}
					}
					table[key]["frames_beyond_limit"]++
					tm.Unlock()
					got, err, pan := read(ep, limit, d)
					if pan != "" {
						rp.viol("panic", map[string]any{"site": "wt-next-packet", "kind": panicKind(pan)}, "nextPacket panicked on a frame beyond the limit: "+pan, witness)
					} else if err == nil {
						tm.Lock()
						table[key]["accepted"]++
						tm.Unlock()
						rp.viol("over-limit-accepted", map[string]any{"form": form}, fmt.Sprintf("a %s frame of encoded length %d is accepted with limit %d (delivery %s; returned %d data bytes)", kind, L, limit, d.name, len(got.Data)), witness)
					} else {
						run.Count("limit_beyond_rejected", 1)
					}
				}
			}
			// exactly at the limit: note only
			if ep, ok := mk(kind, lim); ok {
				_, err, pan := read(ep, limit, delivery{"whole", wholeChunk, false})
				atLimit[fmt.Sprintf("limit=%d/%s", limit, kind)] = map[string]any{"accepted": err == nil && pan == "", "error": errStr(err)}
			}
		}
	}
	run.Note("frame_of_exactly_the_limit", atLimit)
	run.Note("frames_beyond_limit_by_delivery", table)

	// limit 0 is what the server passes when DisableMaxBufferSize is set (= no limit for the
	// other transports). Lengths stay below 65536 to keep this apart from the 9-byte form.
	for _, kind := range []string{"text", "binary"} {
		for _, L := range []int{1, 5, 200, 60000} {
			for _, d := range []delivery{{"whole", wholeChunk, false}, {"onebyte", 1, false}, {"chunk1000", 1000, false}} {
				ep, _ := mk(kind, L)
				run.Eval(1)
				run.Count("limit_cases_zero", 1)
				run.Distinct(fmt.Sprintf("limit/0/%s/len=%d/%s", kind, L, d.name))
				witness := map[string]any{"limit": 0, "kind": kind, "encoded_len": L, "delivery": d.name}
				got, err, pan := read(ep, 0, d)
				if pan != "" {
					rp.viol("panic", map[string]any{"site": "wt-next-packet", "kind": panicKind(pan)}, "nextPacket panicked with limit 0: "+pan, witness)
				} else if err != nil {
					rp.viol("limit-zero-rejects", map[string]any{"delivery": d.name}, fmt.Sprintf("with limit 0 (DisableMaxBufferSize) a %s frame of encoded length %d is rejected (delivery %s): %v", kind, L, d.name, err), witness)
				} else if dd := diffPacket(got, ep); dd != "" {
					rp.viol("limit-zero-rejects", map[string]any{"delivery": d.name, "how": "differs"}, "with limit 0 the frame decodes differently: "+dd, witness)
				}
			}
		}
	}
	smp.add("limit", 1, map[string]any{"check": "limit", "limits": []int{16, 4096, 1000000, 0}, "within": "0,1,2,limit/2,limit-9", "beyond": "limit+1,+2,+100,2*limit,10*limit+3", "deliveries": "whole, onebyte, chunk<=limit, chunk>limit"})
	_ = vk.Root
}
