// C01 — every event emitted on a connected socket reaches the peer exactly once, intact.
//
// sio<->sio worlds (real server, real Go clients, loopback TCP). Every emission carries a
// unique id; typed handlers (one per argument shape, hostile event names) record
// (uid, digest of the received arguments); decoy handlers on look-alike names must stay
// silent. Offline oracle per cell: received multiset == emitted multiset; no unexpected
// disconnect / error callback in a fault-free run. Completion: wire fence (acked event)
// + counters with a generous watchdog.
package main

import (
	"fmt"
	"math/rand"
	"os"
	"reflect"
	"sort"
	"strings"
	"sync"
	"sync/atomic"
	"time"

	sio "github.com/karagenc/socket.io-go"

	"sioverif/internal/e2e"
	"sioverif/internal/gen"
	"sioverif/internal/refcodec"
	"sioverif/internal/vk"
)

type cell struct {
	Transports  []string
	Recovery    bool
	Clients     int
	Emitters    int
	PerEmitter  int
	Sizes       []int
	Dirs        []string // "c2s", "s2c"
	Shapes      []string // nil = all
	MaxBuf      int64    // 0 = default
	Label       string
	SlowUpgrade time.Duration
	SlowPolling time.Duration
	// Early: the client's emitters start before Connect() is called, so that several goroutines are inside
	// Emit while the CONNECT reply is processed and the offline buffer is flushed
	Early bool
}

func (c cell) id() string {
	return fmt.Sprintf("%s/rec=%v/clients=%d/emitters=%d/%s", strings.Join(c.Transports, "+"), c.Recovery, c.Clients, c.Emitters, c.Label)
}

type emission struct {
	uid    int
	event  string
	shape  string
	size   int
	digest string
	dir    string
	client int
	route  string
}

// recorder of one direction of one connection
type recorder struct {
	mu       sync.Mutex
	emitted  map[int]*emission
	received map[int]int
	pending  atomic.Int64
}

func newRecorder() *recorder {
	return &recorder{emitted: map[int]*emission{}, received: map[int]int{}}
}

var intType = reflect.TypeOf(0)

type shapeBinding struct {
	shape *gen.Shape
	event string
	decoy []string
}

func bindShapes(r *rand.Rand, only []string) []shapeBinding {
	var out []shapeBinding
	used := map[string]bool{"fence": true}
	for i := range gen.Shapes {
		s := &gen.Shapes[i]
		if only != nil {
			ok := false
			for _, n := range only {
				ok = ok || n == s.Name
			}
			if !ok {
				continue
			}
		}
		var name string
		for {
			name = gen.EventName(r)
			if len(name) > 20 {
				continue
			}
			name += fmt.Sprintf("#%d", i)
			if !used[name] {
				break
			}
		}
		used[name] = true
		b := shapeBinding{shape: s, event: name}
		for _, d := range []string{name + " ", " " + name, name[:len(name)-1], strings.ToUpper(name), name + name, name + "\x00"} {
			if !used[d] && d != "" && d != name {
				used[d] = true
				b.decoy = append(b.decoy, d)
			}
		}
		out = append(out, b)
	}
	return out
}

type onEventer interface {
	OnEvent(eventName string, handler any)
	OnceEvent(eventName string, handler any)
}

func main() {
	run := vk.Start("C01", "exploration")
	run.Rule("matrix cells {polling, websocket, polling->websocket with emission through the swap} x {recovery off,on} x {c2s,s2c} x 1..3 clients x {1,4,16} emitting goroutines; " +
		"cells whose client emitters start before Connect() (2/8/16 goroutines inside Emit while the CONNECT reply is processed); two handlers per event name; every emission = (unique id, one argument of a registry shape, size class); distinct = (transport, recovery, direction, shape, size class) cells that actually carried >= 1 delivered event")
	run.Assume("except in the across-connect cells, events are emitted only while both sides report connected and handlers are registered (connection handler finished)",
		"handler signatures match the emitted static types; canonical digest normalises JSON number formatting and map order",
		"loss is concluded 30 s after a wire fence acked on the same connection (normal latency: milliseconds)")

	if run.SubMode == "race" {
		for _, c := range cells(run, true) {
			runCell(run, c)
		}
		run.Finish()
	}
	var slow time.Duration
	for _, c := range cells(run, false) {
		t0 := time.Now()
		runCell(run, c)
		slow += time.Since(t0) / (30 * time.Second) // cells that ran into the loss watchdogs
		if run.Violations() > 60 || (run.Violations() > 3 && slow >= 3) {
			run.Logf("stopping early: %d violations, %d watchdog periods spent", run.Violations(), slow)
			break
		}
	}
	if bin := os.Getenv("VERIF_RACE_BIN"); bin != "" && run.Thorough() {
		if s, err := vk.RunSub(bin, "race", run, 30*time.Minute); err != nil {
			run.Inconclusive("race sub-pass: " + err.Error())
		} else {
			run.Merge("race:", s)
		}
	}
	run.Finish()
}

var boundarySizes = []int{32768 - 40, 32768 - 20, 32768 - 12, 32768 - 6, 32768 - 3, 32768, 32768 + 1, 65536 - 40, 65536 - 20, 65536 - 12, 65536 - 6, 65536 - 3, 65536, 65536 + 1}

func cells(run *vk.Run, race bool) []cell {
	var out []cell
	small := []int{0, 1, 17, 100, 126 - 20, 126 - 10, 126, 1000}
	transports := [][]string{{"polling"}, {"websocket"}, {"polling", "websocket"}}
	per := run.Pick(2000, 20000)
	if race {
		per = 30
	}
	for _, tr := range transports {
		for _, rec := range []bool{false, true} {
			for _, shapeCell := range []struct{ clients, emitters int }{{1, 1}, {2, 4}, {3, 16}} {
				if run.Quick() && shapeCell.emitters == 16 && len(tr) == 1 && tr[0] == "polling" && rec {
					continue
				}
				if race && shapeCell.emitters == 1 {
					continue
				}
				out = append(out, cell{Transports: tr, Recovery: rec, Clients: shapeCell.clients, Emitters: shapeCell.emitters,
					PerEmitter: per / max(1, shapeCell.emitters/4), Sizes: small, Dirs: []string{"c2s", "s2c"}, Label: "mixed-shapes"})
			}
		}
	}
	// traffic through a slowed-down swap, binary-heavy (multi-frame packets must not be torn by the swap)
	for _, rec := range []bool{false, true} {
		for rep := 0; rep < run.Pick(3, 20); rep++ {
			out = append(out, cell{Transports: []string{"polling", "websocket"}, Recovery: rec, Clients: 1, Emitters: 3, PerEmitter: run.Pick(300, 1000),
				Sizes: []int{1, 40, 300}, Dirs: []string{"c2s", "s2c"}, Shapes: []string{"Binary", "S6", "map-bin", "[]Binary", "int"},
				Label: fmt.Sprintf("through-swap-%d", rep), SlowUpgrade: time.Duration(2+rep%4) * time.Millisecond})
			out = append(out, cell{Transports: []string{"polling", "websocket"}, Recovery: rec, Clients: 1, Emitters: 3, PerEmitter: run.Pick(300, 1000),
				Sizes: []int{1, 40, 300, 5000}, Dirs: []string{"c2s", "s2c"}, Shapes: []string{"Binary", "S6", "map-bin", "[]Binary", "int"},
				Label: fmt.Sprintf("late-poll-at-swap-%d", rep), SlowPolling: time.Duration(1+rep%3) * time.Millisecond})
		}
	}
	// emitters running across the connect: what was emitted before, during and after the flush of the
	// offline buffer must all arrive
	for rep := 0; rep < run.Pick(12, 60); rep++ {
		out = append(out, cell{Transports: transports[rep%3], Recovery: rep%2 == 1, Clients: 1, Emitters: []int{2, 8, 16}[rep%3], PerEmitter: run.Pick(400, 1500),
			Sizes: []int{1, 40}, Dirs: []string{"c2s"}, Shapes: []string{"int", "string", "Binary", "S2"}, Label: fmt.Sprintf("across-connect-%d", rep), Early: true})
	}
	if race {
		return out
	}
	// size boundaries (string and binary shapes only), each transport, both directions
	for _, tr := range transports {
		out = append(out, cell{Transports: tr, Clients: 1, Emitters: 2, PerEmitter: len(boundarySizes), Sizes: boundarySizes,
			Dirs: []string{"c2s", "s2c"}, Shapes: []string{"string", "Binary", "S2", "map-bin"}, Label: "size-boundaries"})
		big := []int{200 << 10, 500 << 10}
		if run.Thorough() {
			// hostile strings grow under JSON escaping and binary grows 4/3 under base64 on polling:
			// stay clearly inside the 1e6 limit here; the exact boundary is C13's business (ASCII payloads)
			big = append(big, 600_000, 700_000)
		}
		out = append(out, cell{Transports: tr, Clients: 1, Emitters: 1, PerEmitter: len(big), Sizes: big,
			Dirs: []string{"c2s", "s2c"}, Shapes: []string{"string", "Binary"}, Label: "large"})
	}
	// configured 256 KiB limit
	out = append(out, cell{Transports: []string{"websocket"}, Clients: 1, Emitters: 1, PerEmitter: 3, Sizes: []int{100 << 10, 200 << 10, 250 << 10},
		Dirs: []string{"c2s", "s2c"}, Shapes: []string{"string", "Binary"}, MaxBuf: 256 << 10, Label: "limit-256KiB"})
	return out
}

func sizeClass(n int) string {
	switch {
	case n == 0:
		return "0"
	case n < 126:
		return "<126"
	case n < 32768-50:
		return "<32K"
	case n <= 32768+1:
		return "~32K"
	case n < 65536-50:
		return "<64K"
	case n <= 65536+1:
		return "~64K"
	default:
		return ">64K"
	}
}

func runCell(run *vk.Run, c cell) {
	r := run.Rand("c01/" + c.id())
	bindings := bindShapes(r, c.Shapes)
	nDir := 2
	// recorders[client][dir]
	recs := make([][2]*recorder, c.Clients)
	for i := range recs {
		recs[i] = [2]*recorder{newRecorder(), newRecorder()}
	}
	dirIdx := map[string]int{"c2s": 0, "s2c": 1}
	_ = nDir

	witness := func(extra map[string]any) map[string]any {
		m := map[string]any{"cell": c.id(), "seed": run.Seed()}
		for k, v := range extra {
			m[k] = v
		}
		return m
	}
	report := func(sub string, fields map[string]any, what string, wit map[string]any) {
		fields["transport"] = strings.Join(c.Transports, "+")
		fields["recovery"] = c.Recovery
		run.Violation(vk.Violation{Sub: sub, Fields: fields, What: what, Witness: witness(wit)})
	}

	var finalMu sync.Mutex
	var finalChecks []func()
	var finalDeadline time.Time
	register := func(sock onEventer, rec *recorder, dir string, client int) {
		for _, b := range bindings {
			b := b
			ft := reflect.FuncOf([]reflect.Type{intType, b.shape.Type}, nil, false)
			// further handlers of the same event name: a third On handler, a Once handler registered before any event
			// arrives, and an On handler that the primary handler registers while the first event is being dispatched.
			// Each is handed an event at most once and intact; the Once handler gets exactly one event if any arrived.
			var primaryCalls, onceCalls atomic.Int32
			extra := func(label string, calls *atomic.Int32) any {
				var mu sync.Mutex
				seen := map[int]int{}
				return reflect.MakeFunc(ft, func(args []reflect.Value) []reflect.Value {
					uid := int(args[0].Int())
					got := refcodec.Digest(gen.CanonOf(args[1].Interface()))
					if calls != nil {
						calls.Add(1)
					}
					rec.mu.Lock()
					em := rec.emitted[uid]
					rec.mu.Unlock()
					mu.Lock()
					seen[uid]++
					n := seen[uid]
					mu.Unlock()
					if em != nil && em.event == b.event && em.digest != got {
						report("corruption", map[string]any{"dir": dir, "shape": b.shape.Name, "size_class": sizeClass(em.size), "handler": label},
							fmt.Sprintf("uid %d (%s, size %d) arrived altered at the %s handler registered for %q", uid, b.shape.Name, em.size, label, b.event), map[string]any{"uid": uid})
					}
					if n == 2 {
						report("duplicate", map[string]any{"dir": dir, "shape": b.shape.Name, "handler": label}, fmt.Sprintf("uid %d delivered twice to the %s handler", uid, label), map[string]any{"uid": uid})
					}
					return nil
				}).Interface()
			}
			var lateOnce sync.Once
			registerLate := func() { lateOnce.Do(func() { sock.OnEvent(b.event, extra("late", nil)) }) }
			finalMu.Lock()
			finalChecks = append(finalChecks, func() {
				// the handlers of one event run one after the other: the primary one (which the completion counter
				// watches) returns before the Once handler of the same event has been entered
				if primaryCalls.Load() > 0 {
					if left := time.Until(finalDeadline); left > 0 { // one budget for all bindings of the cell
						vk.WaitUntil(left, func() bool { return onceCalls.Load() >= 1 })
					}
				}
				if p, o := primaryCalls.Load(), onceCalls.Load(); p > 0 && o != 1 {
					report("once-handler", map[string]any{"dir": dir, "calls": fmt.Sprint(min(int(o), 2))},
						fmt.Sprintf("event %q: %d event(s) reached the handlers registered with OnEvent, but the handler registered with OnceEvent before any of them ran %d time(s) (another handler of this name was registered while the first event was being dispatched)", b.event, p, o), nil)
				}
			})
			finalMu.Unlock()
			h := reflect.MakeFunc(ft, func(args []reflect.Value) []reflect.Value {
				uid := int(args[0].Int())
				got := refcodec.Digest(gen.CanonOf(args[1].Interface()))
				primaryCalls.Add(1)
				registerLate()
				rec.mu.Lock()
				em := rec.emitted[uid]
				rec.received[uid]++
				n := rec.received[uid]
				rec.mu.Unlock()
				switch {
				case em == nil:
					report("misdelivery", map[string]any{"dir": dir, "kind": "unknown-uid"}, fmt.Sprintf("handler of %q (%s) received uid %d that was never emitted on this connection/direction", b.event, b.shape.Name, uid), map[string]any{"uid": uid})
				case em.event != b.event:
					report("misdelivery", map[string]any{"dir": dir, "kind": "wrong-event"}, fmt.Sprintf("uid %d emitted as %q was handed to the handler of %q", uid, em.event, b.event), map[string]any{"uid": uid})
				case em.digest != got:
					report("corruption", map[string]any{"dir": dir, "shape": b.shape.Name, "size_class": sizeClass(em.size)},
						fmt.Sprintf("uid %d (%s, size %d) arrived altered", uid, b.shape.Name, em.size), map[string]any{"uid": uid, "emitted": trunc(em.digest), "received": trunc(got)})
				}
				if n == 2 {
					report("duplicate", map[string]any{"dir": dir, "shape": b.shape.Name}, fmt.Sprintf("uid %d delivered twice", uid), map[string]any{"uid": uid})
				}
				if n == 1 && em != nil {
					rec.pending.Add(-1)
				}
				return nil
			})
			sock.OnEvent(b.event, h.Interface())
			// a second handler on the same event name: every registered handler is handed the same arguments
			// (the decode step runs once per handler)
			var shadowMu sync.Mutex
			shadowSeen := map[int]int{}
			h2 := reflect.MakeFunc(ft, func(args []reflect.Value) []reflect.Value {
				uid := int(args[0].Int())
				got := refcodec.Digest(gen.CanonOf(args[1].Interface()))
				rec.mu.Lock()
				em := rec.emitted[uid]
				rec.mu.Unlock()
				shadowMu.Lock()
				shadowSeen[uid]++
				n := shadowSeen[uid]
				shadowMu.Unlock()
				if em != nil && em.event == b.event && em.digest != got {
					report("corruption", map[string]any{"dir": dir, "shape": b.shape.Name, "size_class": sizeClass(em.size), "handler": "second"},
						fmt.Sprintf("uid %d (%s, size %d) arrived altered at the SECOND handler registered for %q", uid, b.shape.Name, em.size, b.event), map[string]any{"uid": uid, "emitted": trunc(em.digest), "received": trunc(got)})
				}
				if n == 2 {
					report("duplicate", map[string]any{"dir": dir, "shape": b.shape.Name, "handler": "second"}, fmt.Sprintf("uid %d delivered twice to the second handler", uid), map[string]any{"uid": uid})
				}
				return nil
			})
			sock.OnEvent(b.event, h2.Interface())
			sock.OnEvent(b.event, extra("third", nil))
			sock.OnceEvent(b.event, extra("once", &onceCalls))
			for _, d := range b.decoy {
				d := d
				sock.OnEvent(d, reflect.MakeFunc(reflect.FuncOf(nil, nil, false), func([]reflect.Value) []reflect.Value {
					report("misdelivery", map[string]any{"dir": dir, "kind": "decoy"}, fmt.Sprintf("decoy handler %q ran (real event %q)", d, b.event), nil)
					return nil
				}).Interface())
			}
		}
	}

	type emitFn func(event string, v ...any)
	// route = which public entry point carries the emission; all of them are "an event emitted on a connected socket"
	type route struct {
		name string
		emit emitFn
	}
	var wg sync.WaitGroup
	var uidSeq atomic.Int64
	var world atomic.Pointer[e2e.World]
	upgradedAll := func() bool {
		w := world.Load()
		return w != nil && allUpgraded(w)
	}
	hasDir := func(d string) bool {
		for _, x := range c.Dirs {
			if x == d {
				return true
			}
		}
		return false
	}
	seeds := make([]int64, c.Clients*2*c.Emitters)
	for i := range seeds {
		seeds[i] = r.Int63()
	}
	var started sync.Map
	startEmitters := func(ci int, dir string, routes ...route) {
		if _, dup := started.LoadOrStore(fmt.Sprintf("%d/%s", ci, dir), true); dup {
			return // reconnect in a faulty run: emit once only
		}
		rec := recs[ci][dirIdx[dir]]
		for g := 0; g < c.Emitters; g++ {
			er := rand.New(rand.NewSource(seeds[(ci*2+dirIdx[dir])*c.Emitters+g]))
			go func(g int) {
				defer wg.Done()
				through := len(c.Transports) == 2 && (c.Label == "mixed-shapes" || c.SlowUpgrade > 0 || c.SlowPolling > 0)
				for k := 0; k < c.PerEmitter || (through && !upgradedAll() && k < 20*c.PerEmitter); k++ {
					if through {
						if upgradedAll() {
							run.Count("emitted_after_upgrade", 1)
						} else {
							run.Count("emitted_before_or_during_upgrade", 1)
							if k%8 == 0 {
								time.Sleep(time.Duration(er.Intn(300)) * time.Microsecond)
							}
						}
					}
					b := bindings[er.Intn(len(bindings))]
					size := c.Sizes[(k+g)%len(c.Sizes)]
					if c.Label == "mixed-shapes" || c.SlowUpgrade > 0 || c.SlowPolling > 0 {
						size = c.Sizes[er.Intn(len(c.Sizes))]
					}
					v := b.shape.Make(er, size)
					uid := int(uidSeq.Add(1))
					rt := routes[0]
					if len(routes) > 1 && c.Label == "mixed-shapes" {
						rt = routes[er.Intn(len(routes))]
					}
					em := &emission{uid: uid, event: b.event, shape: b.shape.Name, size: size, digest: refcodec.Digest(gen.CanonOf(v)), dir: dir, client: ci, route: rt.name}
					rec.mu.Lock()
					rec.emitted[uid] = em
					rec.mu.Unlock()
					rec.pending.Add(1)
					rt.emit(b.event, uid, v)
					run.Count("route/"+dir+"/"+rt.name, 1)
					run.Eval(1)
				}
			}(g)
		}
	}
	wg.Add(c.Clients * len(c.Dirs) * c.Emitters)

	cfg := e2e.Config{
		Transports: c.Transports, Recovery: c.Recovery, Clients: c.Clients,
		OnWorld: func(w *e2e.World) { world.Store(w) }, SlowUpgrade: c.SlowUpgrade, SlowPolling: c.SlowPolling,
		OnServerSocket: func(idx int, ss sio.ServerSocket) {
			register(ss, recs[idx][0], "c2s", idx)
			ss.OnEvent("fence", func(ack func()) { ack() })
			// handlers are in place: tell the client it may start, and start our own emitters
			ss.Emit("ready", 1)
			if hasDir("s2c") {
				own := sio.Room(ss.ID())
				startEmitters(idx, "s2c", route{"Emit", ss.Emit},
					route{"Timeout.Emit", ss.Timeout(time.Minute).Emit},
					// through the adapter: a broadcast to the socket's own room (with recovery on, the packet
					// is logged and carries an offset that the client must strip again)
					route{"Namespace.To(own).Emit", func(ev string, v ...any) { ss.Namespace().To(own).Emit(ev, v...) }},
					route{"Namespace.Compress.To(own).Emit", func(ev string, v ...any) { ss.Namespace().Compress(true).To(own).Emit(ev, v...) }},
					route{"Namespace.Local.In(own).Emit", func(ev string, v ...any) { ss.Namespace().Local().In(own).Emit(ev, v...) }})
			}
		},
		OnClientSocket: func(idx int, cs sio.ClientSocket) {
			register(cs, recs[idx][1], "s2c", idx)
			cs.OnEvent("fence", func(ack func()) { ack() })
			if c.Early && hasDir("c2s") {
				startEmitters(idx, "c2s", route{"Emit", cs.Emit}) // before Connect()
			}
			cs.OnEvent("ready", func(int) {
				if hasDir("c2s") {
					startEmitters(idx, "c2s", route{"Emit", cs.Emit}, route{"Timeout.Emit", cs.Timeout(time.Minute).Emit})
				}
			})
		},
	}
	if c.MaxBuf != 0 {
		cfg.ServerCfg = func(sc *sio.ServerConfig) { sc.EIO.MaxBufferSize = c.MaxBuf }
	}
	start := time.Now()
	w, err := e2e.New(cfg)
	if err != nil {
		run.Inconclusive("cell " + c.id() + ": " + err.Error())
		return
	}
	defer w.Close()
	if !vk.Watchdog(120*time.Second, wg.Wait) {
		run.Inconclusive("cell " + c.id() + ": emitters did not finish within 120 s")
		return
	}
	// wire fences: one acked event per connection and direction
	fenceOK := true
	var fwg sync.WaitGroup
	var fmu sync.Mutex
	for _, cl := range w.Clients {
		for _, dir := range c.Dirs {
			fwg.Add(1)
			go func(cl *e2e.Client, dir string) {
				defer fwg.Done()
				done := make(chan struct{})
				if dir == "c2s" {
					cl.S.Emit("fence", func() { close(done) })
				} else {
					cl.SS().Emit("fence", func() { close(done) })
				}
				select {
				case <-done:
				case <-time.After(60 * time.Second):
					fmu.Lock()
					fenceOK = false
					fmu.Unlock()
				}
			}(cl, dir)
		}
	}
	fwg.Wait()
	// handler completion: counters with a 30 s watchdog
	complete := vk.WaitUntil(30*time.Second, func() bool {
		for ci := range recs {
			for d := 0; d < 2; d++ {
				if recs[ci][d].pending.Load() > 0 {
					return false
				}
			}
		}
		return true
	})
	elapsed := time.Since(start)
	faults := w.Faults()
	w.ExpectLifecycle()
	if complete {
		finalMu.Lock()
		finalDeadline = time.Now().Add(10 * time.Second)
		for _, f := range finalChecks {
			f()
		}
		finalMu.Unlock()
	}

	delivered := 0
	for ci := range recs {
		for _, dir := range c.Dirs {
			rec := recs[ci][dirIdx[dir]]
			rec.mu.Lock()
			var lost []*emission
			for uid, em := range rec.emitted {
				if rec.received[uid] == 0 {
					lost = append(lost, em)
				} else {
					delivered++
					run.Distinct(fmt.Sprintf("%s/rec=%v/%s/%s/%s", strings.Join(c.Transports, "+"), c.Recovery, dir, em.shape, sizeClass(em.size)))
				}
			}
			rec.mu.Unlock()
			sort.Slice(lost, func(i, j int) bool { return lost[i].uid < lost[j].uid })
			byClass := map[string][]*emission{}
			for _, em := range lost {
				k := em.shape + "/" + sizeClass(em.size) + " via " + em.route
				byClass[k] = append(byClass[k], em)
			}
			for k, ems := range byClass {
				em := ems[0]
				lastKind := gen.ShapeByName(em.shape).Type.Kind().String()
				report("lost", map[string]any{"dir": dir, "shape": em.shape, "size_class": sizeClass(em.size), "last_param_kind": lastKind, "client_kind": "go", "route": em.route},
					fmt.Sprintf("%d event(s) of class %s never reached the peer's handler (first: uid %d event %q size %d; fence ok=%v, complete=%v, waited 30 s after the fence)", len(ems), k, em.uid, em.event, em.size, fenceOK, complete),
					map[string]any{"lost_uids": uids(ems), "event": em.event, "size": em.size})
			}
		}
	}
	run.Count("delivered", int64(delivered))
	run.Count("cells", 1)
	if !fenceOK {
		run.Count("fence_timeouts", 1)
	}
	if len(faults) > 0 {
		kinds := map[string]bool{}
		for _, f := range faults {
			k := f.What
			if i := strings.Index(k, ":"); i > 0 {
				k = k[:i]
			}
			kinds[k] = true
		}
		var ks []string
		for k := range kinds {
			ks = append(ks, k)
		}
		sort.Strings(ks)
		report("unexpected-lifecycle", map[string]any{"kinds": strings.Join(ks, ","), "label": c.Label},
			fmt.Sprintf("fault-free run but %d lifecycle callback(s) fired, first: %s %s", len(faults), faults[0].Who, trunc(faults[0].What)),
			map[string]any{"faults": faultStrings(faults)})
	}
	upgraded := 0
	for _, cl := range w.Clients {
		if cl.Upgraded() {
			upgraded++
		}
	}
	run.Sample(map[string]any{"cell": c.id(), "delivered": delivered, "elapsed_ms": elapsed.Milliseconds(), "clients_upgraded": upgraded, "bindings_sample": bindings[0].event})
	run.Logf("cell %s: delivered=%d faults=%d upgraded=%d in %v", c.id(), delivered, len(faults), upgraded, elapsed.Round(time.Millisecond))
}

func allUpgraded(w *e2e.World) bool {
	for _, c := range w.Clients {
		if !c.Upgraded() {
			return false
		}
	}
	return true
}

func uids(ems []*emission) []int {
	var out []int
	for i, e := range ems {
		if i >= 20 {
			break
		}
		out = append(out, e.uid)
	}
	return out
}

func faultStrings(fs []e2e.Fault) []string {
	var out []string
	for i, f := range fs {
		if i >= 10 {
			break
		}
		out = append(out, f.Who+": "+trunc(f.What))
	}
	return out
}

func trunc(s string) string {
	if len(s) > 200 {
		return s[:200] + "..."
	}
	return s
}

func max(a, b int) int {
	if a > b {
		return a
	}
	return b
}
