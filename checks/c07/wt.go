package main

// C07, WebTransport part: polling -> WebTransport upgrades of the real Go client against the real
// Engine.IO server over real QUIC on loopback UDP. The server's HTTPS listener (TCP port X) and its
// HTTP/3 listener (UDP, another port) are joined by a UDP relay bound to UDP port X — where the client
// dials — that forwards, delays, black-holes or cuts the datagram flow after the k-th datagram. The
// oracle is the one of the websocket part: numbered messages in both directions from before the
// attempt until after it, multiset equality at a fence while the connection lives, at-most-once and
// close-once when it legitimately dies, TransportName() on both sides. A failed WebTransport attempt
// may be followed by a websocket attempt (Transports polling, webtransport, websocket): the
// connection must then end up on websocket with nothing lost.

import (
	"crypto/tls"
	"fmt"
	"io"
	"log"
	"net"
	"net/http"
	"net/http/httptest"
	"os"
	"strings"
	"sync"
	"sync/atomic"
	"time"

	eio "github.com/karagenc/socket.io-go/engine.io"
	eioparser "github.com/karagenc/socket.io-go/engine.io/parser"
	"github.com/madflojo/testcerts"
	"github.com/quic-go/webtransport-go"
	"nhooyr.io/websocket"

	"sioverif/internal/vk"
)

// udpRelay forwards datagrams between clients (front socket) and one upstream address, one upstream
// socket per client address; per-direction FIFO delay, black hole, cut after a number of datagrams.
type udpRelay struct {
	front    *net.UDPConn
	back     *net.UDPAddr
	mu       sync.Mutex
	flows    map[string]*relayFlow
	delay    atomic.Int64 // nanoseconds per datagram
	hole     atomic.Bool
	cutAfter atomic.Int64 // <= 0: never
	count    atomic.Int64 // datagrams seen (both directions)
	closed   atomic.Bool
	done     chan struct{} // closed by Close; the flow channels are never closed (readers may still be sending)
}

type relayFlow struct {
	up   *net.UDPConn
	c2s  chan relayPkt
	s2c  chan relayPkt
	peer *net.UDPAddr
}

type relayPkt struct {
	due  time.Time
	data []byte
}

func newUDPRelay(port int, back *net.UDPAddr) (*udpRelay, error) {
	front, err := net.ListenUDP("udp4", &net.UDPAddr{IP: net.IPv4(127, 0, 0, 1), Port: port})
	if err != nil {
		return nil, err
	}
	front.SetReadBuffer(4 << 20)
	front.SetWriteBuffer(4 << 20)
	r := &udpRelay{front: front, back: back, flows: map[string]*relayFlow{}, done: make(chan struct{})}
	go r.readFront()
	return r, nil
}

func (r *udpRelay) admit() bool {
	n := r.count.Add(1)
	if r.hole.Load() {
		return false
	}
	if c := r.cutAfter.Load(); c > 0 && n > c {
		return false
	}
	return true
}

func (r *udpRelay) pump(ch chan relayPkt, write func([]byte)) {
	for {
		select {
		case <-r.done:
			return
		case p := <-ch:
			if d := time.Until(p.due); d > 0 {
				time.Sleep(d)
			}
			if r.closed.Load() {
				return
			}
			write(p.data)
		}
	}
}

func (r *udpRelay) readFront() {
	buf := make([]byte, 65536)
	for {
		n, addr, err := r.front.ReadFromUDP(buf)
		if err != nil {
			return
		}
		key := addr.String()
		r.mu.Lock()
		f := r.flows[key]
		if f == nil && !r.closed.Load() {
			up, err := net.DialUDP("udp4", nil, r.back)
			if err != nil {
				r.mu.Unlock()
				continue
			}
			up.SetReadBuffer(4 << 20)
			up.SetWriteBuffer(4 << 20)
			f = &relayFlow{up: up, peer: addr, c2s: make(chan relayPkt, 8192), s2c: make(chan relayPkt, 8192)}
			r.flows[key] = f
			go r.pump(f.c2s, func(b []byte) { f.up.Write(b) })
			go r.pump(f.s2c, func(b []byte) { r.front.WriteToUDP(b, f.peer) })
			go r.readBack(f)
		}
		r.mu.Unlock()
		if f == nil || !r.admit() {
			continue
		}
		p := relayPkt{due: time.Now().Add(time.Duration(r.delay.Load())), data: append([]byte(nil), buf[:n]...)}
		select {
		case f.c2s <- p:
		default: // queue full: a dropped datagram, which QUIC repairs
		}
	}
}

func (r *udpRelay) readBack(f *relayFlow) {
	buf := make([]byte, 65536)
	for {
		n, err := f.up.Read(buf)
		if err != nil {
			return
		}
		if !r.admit() {
			continue
		}
		p := relayPkt{due: time.Now().Add(time.Duration(r.delay.Load())), data: append([]byte(nil), buf[:n]...)}
		select {
		case f.s2c <- p:
		default:
		}
	}
}

func (r *udpRelay) Close() {
	if r.closed.Swap(true) {
		return
	}
	r.front.Close()
	r.mu.Lock()
	close(r.done)
	for _, f := range r.flows {
		f.up.Close()
	}
	r.mu.Unlock()
}

type wtTrial struct {
	Pattern  string // full | jitter | burst
	Fault    string // none | slow | hole | hole+ws | cut
	CutAt    int64  // datagrams admitted before the relay goes dark (cut)
	Emitters int
}

func (t wtTrial) id() string {
	s := "wt/" + t.Pattern + "/" + t.Fault
	if t.Fault == "cut" {
		s += fmt.Sprintf("@%d", t.CutAt)
	}
	if t.Emitters > 1 {
		s += fmt.Sprintf("/x%d", t.Emitters)
	}
	return s
}

var wtCertOnce sync.Once
var wtCertFile, wtKeyFile string
var wtCertErr error

func wtCerts() (string, string, error) {
	wtCertOnce.Do(func() {
		dir, err := os.MkdirTemp(".work", "c07cert")
		if err != nil {
			dir, err = os.MkdirTemp("", "c07cert")
			if err != nil {
				wtCertErr = err
				return
			}
		}
		wtCertFile, wtKeyFile, wtCertErr = testcerts.GenerateCertsToTempFile(dir)
	})
	return wtCertFile, wtKeyFile, wtCertErr
}

// runWTTrial returns the number of datagrams the relay saw (to size the cut sweep).
func runWTTrial(run *vk.Run, t wtTrial) (datagrams int64) {
	run.Eval(1)
	insecure := func() *tls.Config { return &tls.Config{InsecureSkipVerify: true} }
	certFile, keyFile, err := wtCerts()
	if err != nil {
		run.Inconclusive("wt certs: " + err.Error())
		return
	}
	cert, err := tls.LoadX509KeyPair(certFile, keyFile)
	if err != nil {
		run.Inconclusive("wt certs: " + err.Error())
		return
	}
	srvSide, cliSide := newSide("server"), newSide("client")
	var srvSock atomic.Value
	sockReady := make(chan struct{}, 1)
	expectUp := t.Fault == "none" || t.Fault == "slow" || t.Fault == "hole+ws"
	scfg := &eio.ServerConfig{UpgradeTimeout: time.Second, PingInterval: 2 * time.Second, PingTimeout: 2 * time.Second,
		WebSocketAcceptOptions: &websocket.AcceptOptions{CompressionMode: websocket.CompressionDisabled}}
	// the heartbeat travels in-band: behind the backlog of a full-speed pattern on a slow machine (race detector)
	// a PONG can be seconds late, which is a legitimate ping timeout and not a fault of the attempt
	scfg.PingTimeout = 8 * time.Second
	if expectUp {
		scfg.UpgradeTimeout = 10 * time.Second
	}
	wts := &webtransport.Server{}
	scfg.WebTransportServer = wts
	srv := eio.NewServer(func(s eio.ServerSocket) *eio.Callbacks {
		srvSock.Store(s)
		select {
		case sockReady <- struct{}{}:
		default:
		}
		return &eio.Callbacks{
			OnPacket: srvSide.onPacket,
			OnError: func(err error) {
				srvSide.mu.Lock()
				srvSide.errors = append(srvSide.errors, err.Error())
				srvSide.mu.Unlock()
			},
			OnClose: func(r eio.Reason, err error) {
				srvSide.mu.Lock()
				srvSide.closes = append(srvSide.closes, string(r))
				srvSide.closeErrs = append(srvSide.closeErrs, fmt.Sprint(err))
				srvSide.mu.Unlock()
			},
		}
	}, scfg)
	if err := srv.Run(); err != nil {
		run.Inconclusive("wt server: " + err.Error())
		return
	}
	defer srv.Close()
	// HTTPS on TCP port X; the relay on UDP port X; HTTP/3 on its own UDP socket
	var ts *httptest.Server
	var relay *udpRelay
	h3conn, err := net.ListenUDP("udp4", &net.UDPAddr{IP: net.IPv4(127, 0, 0, 1)})
	if err != nil {
		run.Inconclusive("wt udp: " + err.Error())
		return
	}
	h3conn.SetReadBuffer(4 << 20)
	h3conn.SetWriteBuffer(4 << 20)
	for try := 0; try < 20 && relay == nil; try++ {
		ts = httptest.NewUnstartedServer(srv)
		ts.TLS = &tls.Config{Certificates: []tls.Certificate{cert}}
		ts.Config.ErrorLog = log.New(io.Discard, "", 0) // aborted TLS handshakes at trial end are not news
		ts.StartTLS()
		port := ts.Listener.Addr().(*net.TCPAddr).Port
		relay, err = newUDPRelay(port, h3conn.LocalAddr().(*net.UDPAddr))
		if err != nil {
			ts.Close()
			relay = nil
		}
	}
	if relay == nil {
		h3conn.Close()
		run.Inconclusive("wt relay: " + fmt.Sprint(err))
		return
	}
	defer ts.Close()
	defer relay.Close()
	wts.H3.TLSConfig = &tls.Config{Certificates: []tls.Certificate{cert}}
	wts.H3.Handler = srv
	go wts.Serve(h3conn)
	defer func() { wts.Close(); h3conn.Close() }()
	switch t.Fault {
	case "slow":
		relay.delay.Store(int64(3 * time.Millisecond))
	case "hole", "hole+ws":
		relay.hole.Store(true)
	case "cut":
		relay.delay.Store(int64(time.Millisecond))
		relay.cutAfter.Store(t.CutAt)
	}

	var upgradeDone atomic.Bool
	var upgradedTo atomic.Value
	transports := []string{"polling", "webtransport"}
	if t.Fault == "hole+ws" {
		transports = []string{"polling", "webtransport", "websocket"}
	}
	ccfg := &eio.ClientConfig{Transports: transports, UpgradeTimeout: time.Second,
		HTTPTransport:        &http.Transport{TLSClientConfig: insecure()},
		WebSocketDialOptions: &websocket.DialOptions{HTTPClient: &http.Client{Transport: &http.Transport{TLSClientConfig: insecure()}}, CompressionMode: websocket.CompressionDisabled},
		WebTransportDialer:   &webtransport.Dialer{TLSClientConfig: insecure()},
		UpgradeDone: func(name string) {
			upgradedTo.Store(name)
			upgradeDone.Store(true)
		}}
	if expectUp {
		ccfg.UpgradeTimeout = 10 * time.Second
	}
	cli, err := eio.Dial(ts.URL+"/engine.io/", &eio.Callbacks{
		OnPacket: cliSide.onPacket,
		OnError: func(err error) {
			cliSide.mu.Lock()
			cliSide.errors = append(cliSide.errors, err.Error())
			cliSide.mu.Unlock()
		},
		OnClose: func(r eio.Reason, err error) {
			cliSide.mu.Lock()
			cliSide.closes = append(cliSide.closes, string(r))
			cliSide.closeErrs = append(cliSide.closeErrs, fmt.Sprint(err))
			cliSide.mu.Unlock()
		},
	}, ccfg)
	if err != nil {
		run.Inconclusive("wt dial: " + err.Error())
		return
	}
	defer cli.Close()
	defer func() {
		if tr, ok := ccfg.HTTPTransport.(*http.Transport); ok {
			tr.CloseIdleConnections()
		}
	}()
	select {
	case <-sockReady:
	case <-time.After(10 * time.Second):
		run.Inconclusive("wt: no server socket")
		return
	}
	ss := srvSock.Load().(eio.ServerSocket)
	start := time.Now()
	closedNow := func() bool {
		srvSide.mu.Lock()
		a := len(srvSide.closes)
		srvSide.mu.Unlock()
		cliSide.mu.Lock()
		b := len(cliSide.closes)
		cliSide.mu.Unlock()
		return a+b > 0
	}
	// the attempt is over when the client swapped, or after a time by which a failing attempt has been given up
	// (a dial into a black hole ends with QUIC's handshake timeout, 5 s, which the upgrade timeout does not cover)
	over := func() bool {
		if upgradeDone.Load() {
			return true
		}
		switch t.Fault {
		case "hole":
			return time.Since(start) > 1500*time.Millisecond
		case "hole+ws":
			return false
		}
		return time.Since(start) > 4*time.Second
	}
	r := run.Rand("c07/" + t.id())
	jit := make([]int, 64)
	for i := range jit {
		jit[i] = r.Intn(400)
	}
	burstGo := make(chan struct{})
	go func() {
		// bursts released when the first datagrams of the attempt appear
		for i := 0; i < 4000 && relay.count.Load() < 4; i++ {
			time.Sleep(time.Millisecond)
		}
		close(burstGo)
	}()
	sender := func(s *side, send func(...*eioparser.Packet), workers int) {
		var next atomic.Int64
		var inner sync.WaitGroup
		for wk := 0; wk < workers; wk++ {
			inner.Add(1)
			go func() {
				defer inner.Done()
				emit := func(k int) {
					for i := 0; i < k; i++ {
						n := int(next.Add(1))
						s.lastSent.Store(int64(n))
						send(msg(n))
						s.sent.Add(1)
					}
				}
				after, burst := 0, false
				limit := int64(6000)
				if workers > 1 || t.Fault == "slow" {
					limit = 3000
				}
				for next.Load() < limit && !closedNow() {
					switch t.Pattern {
					case "full":
						emit(1)
					case "jitter":
						emit(1)
						time.Sleep(time.Duration(jit[int(next.Load())%len(jit)]) * time.Microsecond)
					case "burst":
						if !burst {
							select {
							case <-burstGo:
								burst = true
								emit(40)
							default:
							}
						}
						emit(3)
						time.Sleep(300 * time.Microsecond)
					}
					if over() {
						after++
						if after > 150/workers+10 {
							break
						}
					}
					if time.Since(start) > 25*time.Second {
						break
					}
				}
			}()
		}
		inner.Wait()
	}
	var wg sync.WaitGroup
	wg.Add(2)
	workers := 1
	if t.Emitters > 1 {
		workers = t.Emitters
	}
	go func() { defer wg.Done(); sender(cliSide, cli.Send, workers) }()
	go func() { defer wg.Done(); sender(srvSide, ss.Send, workers) }()
	if !vk.Watchdog(90*time.Second, wg.Wait) {
		run.Violation(vk.Violation{Sub: "send-hang", Fields: map[string]any{"fault": "wt-" + t.Fault},
			What: "Send did not return within 90 s during trial " + t.id(), Witness: map[string]any{"trial": t.id(), "stacks": vk.DumpGoroutines("c07-wt-send")}})
		return relay.count.Load()
	}
	swapped := upgradeDone.Load()
	f, _ := eioparser.NewPacket(eioparser.PacketTypeMessage, false, []byte("fence"))
	cli.Send(f)
	ss.Send(f)
	// a cut flow is dark from the k-th datagram on: once the client swapped onto it the connection can only die
	expectAlive := t.Fault != "cut" || !swapped
	complete := vk.WaitUntil(30*time.Second, func() bool {
		if closedNow() {
			return true
		}
		srvSide.mu.Lock()
		a := srvSide.gotFence && int64(srvSide.recvN) >= cliSide.sent.Load()
		srvSide.mu.Unlock()
		cliSide.mu.Lock()
		b := cliSide.gotFence && int64(cliSide.recvN) >= srvSide.sent.Load()
		cliSide.mu.Unlock()
		return a && b
	})
	if t.Fault == "cut" && !swapped && !closedNow() {
		// the client may still swap onto the dark flow (probe answered just before the cut): re-evaluate below
		time.Sleep(300 * time.Millisecond)
		if upgradeDone.Load() {
			swapped, expectAlive = true, false
		}
	}
	bothClosed := func() bool {
		srvSide.mu.Lock()
		a := len(srvSide.closes)
		srvSide.mu.Unlock()
		cliSide.mu.Lock()
		b := len(cliSide.closes)
		cliSide.mu.Unlock()
		return a > 0 && b > 0
	}
	if closedNow() {
		vk.WaitUntil(20*time.Second, bothClosed)
	}
	fields := map[string]any{"fault": "wt-" + t.Fault, "pattern": t.Pattern, "upgrade_done": swapped}
	wit := map[string]any{"trial": t.id(), "seed": run.Seed(), "datagrams": relay.count.Load()}
	srvSide.mu.Lock()
	wit["server_close_errors"], wit["server_errors"] = append([]string(nil), srvSide.closeErrs...), append([]string(nil), srvSide.errors...)
	srvSide.mu.Unlock()
	cliSide.mu.Lock()
	wit["client_close_errors"], wit["client_errors"] = append([]string(nil), cliSide.closeErrs...), append([]string(nil), cliSide.errors...)
	cliSide.mu.Unlock()
	check := func(rx, tx *side, dir string) {
		rx.mu.Lock()
		defer rx.mu.Unlock()
		sent := int(tx.sent.Load())
		var dups, lost []int
		for n := 1; n <= sent; n++ {
			c := rx.recv[n]
			if c > 1 && len(dups) < 10 {
				dups = append(dups, n)
			}
			if c == 0 && len(lost) < 10 {
				lost = append(lost, n)
			}
		}
		fl := map[string]any{"dir": dir}
		for k, v := range fields {
			fl[k] = v
		}
		if len(dups) > 0 {
			run.Violation(vk.Violation{Sub: "duplicate", Fields: fl, What: fmt.Sprintf("%s: messages %v received more than once (trial %s)", dir, dups, t.id()), Witness: wit})
		}
		alive := len(rx.closes) == 0 && len(tx.closes) == 0
		if len(lost) > 0 && alive {
			run.Violation(vk.Violation{Sub: "lost", Fields: fl,
				What: fmt.Sprintf("%s: %d sent, messages %v... never received although the connection is alive and the fence passed=%v (trial %s)", dir, sent, lost, rx.gotFence, t.id()), Witness: wit})
		}
		run.Count("wt_messages_"+dir, int64(rx.recvN))
	}
	check(srvSide, cliSide, "c2s")
	check(cliSide, srvSide, "s2c")
	srvSide.mu.Lock()
	sc := append([]string(nil), srvSide.closes...)
	srvSide.mu.Unlock()
	cliSide.mu.Lock()
	cc := append([]string(nil), cliSide.closes...)
	cliSide.mu.Unlock()
	if len(sc) > 1 || len(cc) > 1 {
		run.Violation(vk.Violation{Sub: "close-twice", Fields: fields, What: fmt.Sprintf("close reported more than once: server %v client %v (trial %s)", sc, cc, t.id()), Witness: wit})
	}
	if expectAlive {
		if len(sc)+len(cc) > 0 {
			run.Violation(vk.Violation{Sub: "connection-broken", Fields: fields,
				What:    fmt.Sprintf("WebTransport upgrade attempt %q (client swapped: %v) but the connection was closed: server %v client %v (trial %s)", t.Fault, swapped, sc, cc, t.id()),
				Witness: wit})
		} else if !complete {
			run.Violation(vk.Violation{Sub: "traffic-stopped", Fields: fields,
				What: fmt.Sprintf("connection alive but sent numbers / fence not all received within 30 s (trial %s)", t.id()), Witness: wit})
		} else {
			want := "polling"
			budget := 5 * time.Second
			if expectUp {
				budget = 20 * time.Second // hole+ws: the websocket attempt starts after QUIC's handshake timeout
			}
			ok := vk.WaitUntil(budget, func() bool {
				want = "polling"
				if upgradeDone.Load() {
					want, _ = upgradedTo.Load().(string)
				}
				if expectUp && !upgradeDone.Load() {
					return false
				}
				return cli.TransportName() == want && ss.TransportName() == want
			})
			wantFinal := map[string]string{"none": "webtransport", "slow": "webtransport", "hole+ws": "websocket"}[t.Fault]
			if !ok || (expectUp && want != wantFinal) {
				run.Violation(vk.Violation{Sub: "wrong-transport", Fields: fields,
					What: fmt.Sprintf("after the attempt transport names are client=%s server=%s (UpgradeDone: %v), want %s (trial %s)", cli.TransportName(), ss.TransportName(), upgradedTo.Load(), map[bool]string{true: wantFinal, false: want}[expectUp], t.id()), Witness: wit})
			} else if expectUp {
				// traffic after the (late) swap as well: one more numbered round each way and a second fence
				srvSide.mu.Lock()
				srvSide.gotFence = false
				srvSide.mu.Unlock()
				cliSide.mu.Lock()
				cliSide.gotFence = false
				cliSide.mu.Unlock()
				for i := 0; i < 200; i++ {
					n := int(cliSide.sent.Load()) + 1
					cli.Send(msg(n))
					cliSide.sent.Add(1)
					n = int(srvSide.sent.Load()) + 1
					ss.Send(msg(n))
					srvSide.sent.Add(1)
				}
				cli.Send(f)
				ss.Send(f)
				ok := vk.WaitUntil(30*time.Second, func() bool {
					if closedNow() {
						return true
					}
					srvSide.mu.Lock()
					a := srvSide.gotFence && int64(srvSide.recvN) >= cliSide.sent.Load()
					srvSide.mu.Unlock()
					cliSide.mu.Lock()
					b := cliSide.gotFence && int64(cliSide.recvN) >= srvSide.sent.Load()
					cliSide.mu.Unlock()
					return a && b
				})
				if !ok || closedNow() {
					run.Violation(vk.Violation{Sub: "traffic-stopped", Fields: fields,
						What: fmt.Sprintf("after the swap to %s: second round of 200 messages each way / fence incomplete or connection closed (trial %s)", want, t.id()), Witness: wit})
				} else {
					check(srvSide, cliSide, "c2s")
					check(cliSide, srvSide, "s2c")
					run.Count("wt_through_swap_trials", 1)
				}
			}
		}
	} else if !bothClosed() {
		// swapped onto a flow that is dark: both sides must notice (heartbeat: 2 s + 8 s)
		if !vk.WaitUntil(30*time.Second, bothClosed) {
			srvSide.mu.Lock()
			sc = append([]string(nil), srvSide.closes...)
			srvSide.mu.Unlock()
			cliSide.mu.Lock()
			cc = append([]string(nil), cliSide.closes...)
			cliSide.mu.Unlock()
			run.Violation(vk.Violation{Sub: "half-dead", Fields: fields,
				What: fmt.Sprintf("WebTransport flow cut after the client swapped: close not reported on both sides within 30 s (server %v client %v) (trial %s)", sc, cc, t.id()), Witness: wit})
		}
	}
	class := "alive"
	if closedNow() {
		class = "died"
	}
	run.Distinct(fmt.Sprintf("wt/%s/%s/x%d/upgraded=%v/%s", t.Pattern, t.Fault, t.Emitters, swapped, class))
	run.Count("wt_trials", 1)
	if strings.HasPrefix(class, "alive") && swapped {
		run.Count("wt_upgraded_alive", 1)
	}
	if t.Fault == "cut" {
		run.Count(fmt.Sprintf("wt_cut_swapped=%v_%s", swapped, class), 1)
	}
	return relay.count.Load()
}

func wtTrials(run *vk.Run) {
	var trials []wtTrial
	reps := run.Pick(1, 6)
	for rep := 0; rep < reps; rep++ {
		for _, p := range []string{"full", "jitter", "burst"} {
			trials = append(trials, wtTrial{Pattern: p, Fault: "none"}, wtTrial{Pattern: p, Fault: "slow"})
			if p != "jitter" {
				trials = append(trials, wtTrial{Pattern: p, Fault: "none", Emitters: 8})
			}
			if rep == 0 || p == "jitter" {
				trials = append(trials, wtTrial{Pattern: p, Fault: "hole"})
			}
		}
		trials = append(trials, wtTrial{Pattern: "jitter", Fault: "hole+ws"})
	}
	// the cut sweep covers the QUIC handshake, the HTTP/3 CONNECT, the OPEN packet, the probe and the UPGRADE
	// packet: with the jitter pattern that is the first few dozen datagrams
	var ks []int64
	switch {
	case run.SubMode == "race":
		ks = []int64{3, 9, 14, 19, 30}
	case run.Quick():
		for k := int64(1); k <= 31; k += 2 {
			ks = append(ks, k)
		}
		ks = append(ks, 40, 60)
	default:
		for rep := 0; rep < 3; rep++ {
			for k := int64(1); k <= 40; k++ {
				ks = append(ks, k)
			}
		}
		for k := int64(42); k <= 120; k += 3 {
			ks = append(ks, k)
		}
	}
	for i, k := range ks {
		trials = append(trials, wtTrial{Pattern: []string{"jitter", "burst"}[i%2], Fault: "cut", CutAt: k})
	}
	sem := make(chan struct{}, 8)
	var wg sync.WaitGroup
	for _, t := range trials {
		wg.Add(1)
		sem <- struct{}{}
		go func(t wtTrial) {
			defer wg.Done()
			defer func() { <-sem }()
			runWTTrial(run, t)
		}(t)
	}
	wg.Wait()
}
