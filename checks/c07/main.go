// C07 — a transport upgrade loses, duplicates and breaks nothing.
//
// eio<->eio rig (real Engine.IO server and real Go client) through a TCP fault proxy that
// slows the WebSocket upgrade connection down so that traffic keeps flowing through the
// swap, or refuses / stalls / cuts it at every 8th byte. Both sides send numbered text and
// binary messages from before the upgrade starts until after it is over. Oracle: multiset
// equality of sent and received numbers at a fence (exactly once while the connection
// lives; at most once when the connection legitimately dies after the client swapped),
// TransportName() on both sides, close callbacks counted.
package main

import (
	"fmt"
	"os"
	"strconv"
	"strings"
	"sync"
	"sync/atomic"
	"time"

	eio "github.com/karagenc/socket.io-go/engine.io"
	eioparser "github.com/karagenc/socket.io-go/engine.io/parser"

	"sioverif/internal/proxy"
	"sioverif/internal/rig"
	"sioverif/internal/vk"
)

type side struct {
	name      string
	mu        sync.Mutex
	recv      map[int]int // number -> times received
	recvN     int
	gotFence  bool
	closes    []string
	closeErrs []string
	errors    []string
	sent      atomic.Int64
	lastSent  atomic.Int64
}

func newSide(name string) *side { return &side{name: name, recv: map[int]int{}} }

func (s *side) onPacket(packets ...*eioparser.Packet) {
	s.mu.Lock()
	defer s.mu.Unlock()
	for _, p := range packets {
		if p.Type != eioparser.PacketTypeMessage {
			continue
		}
		d := string(p.Data)
		if d == "fence" {
			s.gotFence = true
			continue
		}
		// payload: "<n>:<padding>"
		i := strings.IndexByte(d, ':')
		if i < 0 {
			continue
		}
		n, err := strconv.Atoi(d[:i])
		if err != nil {
			continue
		}
		s.recv[n]++
		s.recvN++
	}
}

func msg(n int) *eioparser.Packet {
	bin := n%3 == 0
	size := n % 40
	if n%97 == 0 {
		// now and then a message well above 32 KiB (the default read limit of the websocket library):
		// the upgraded transport must carry what the first one carried
		size = 33000 + (n%5)*20000
	}
	data := []byte(fmt.Sprintf("%d:%s", n, strings.Repeat("p", size)))
	p, _ := eioparser.NewPacket(eioparser.PacketTypeMessage, bin, data)
	return p
}

type trial struct {
	Pattern  string // full | jitter | burst
	Fault    string // none | slow | refuse | stall | cut-c2s | cut-s2c
	CutAt    int64
	Emitters int // goroutines per side calling Send (0/1 = one)
}

func (t trial) id() string {
	if strings.HasPrefix(t.Fault, "cut") || t.Fault == "heartbeat" {
		return fmt.Sprintf("%s/%s@%d", t.Pattern, t.Fault, t.CutAt)
	}
	if t.Emitters > 1 {
		return fmt.Sprintf("%s/%s/x%d", t.Pattern, t.Fault, t.Emitters)
	}
	return t.Pattern + "/" + t.Fault
}

type outcome struct {
	upgradeDone bool
	wsBytes     [2]int64
}

// heartbeat: the websocket connection of the upgrade is held back and then slowed (20 ms per hop) so that the
// UPGRADE packet is on its way exactly when the server's first PING (1 s after the handshake) is due. The
// PING is then sitting in the polling queue at the swap: whatever is queued on the old transport at the swap
// — heartbeats included — has to reach the peer, or the server declares a live peer dead one ping timeout
// later. CutAt carries the lead (ms before the ping at which the websocket is released); trials sweep it.
func serverConfigFor(t trial) *eio.ServerConfig {
	if t.Fault == "heartbeat" {
		return &eio.ServerConfig{UpgradeTimeout: 3 * time.Second, PingInterval: time.Second, PingTimeout: time.Second}
	}
	if strings.HasPrefix(t.Fault, "cut") {
		// a cut after the swap is noticed through the heartbeat: keep it short
		return &eio.ServerConfig{UpgradeTimeout: time.Second, PingInterval: 2 * time.Second, PingTimeout: 2 * time.Second}
	}
	// the heartbeat travels in-band: on a loaded machine a PONG can sit behind seconds of backlog of the
	// full-speed patterns; a generous ping timeout keeps that from being mistaken for a fault of the swap
	ut := time.Second
	if t.Fault == "none" || t.Fault == "slow" || t.Fault == "pollstall" {
		// an upgrade that is expected to succeed: on a loaded machine the server's 1 s upgrade timeout can
		// expire while the client completes the very same upgrade, which tears the connection legitimately
		ut = 10 * time.Second
	}
	return &eio.ServerConfig{UpgradeTimeout: ut, PingInterval: 2 * time.Second, PingTimeout: 8 * time.Second}
}

func runTrial(run *vk.Run, t trial) (out outcome) {
	run.Eval(1)
	t0 := time.Now()
	defer func() {
		if d := time.Since(t0); d > 8*time.Second {
			run.Logf("slow trial %s: %v (upgradeDone=%v)", t.id(), d.Round(time.Millisecond), out.upgradeDone)
		}
	}()
	srvSide, cliSide := newSide("server"), newSide("client")
	var srvSock atomic.Value
	sockReady := make(chan struct{}, 1)
	var estAt atomic.Int64 // unix nanos of the server-side session creation (the heartbeat clock starts there)
	srv, err := rig.NewEIOServer(func(s eio.ServerSocket) *eio.Callbacks {
		estAt.CompareAndSwap(0, time.Now().UnixNano())
		srvSock.Store(s)
		select {
		case sockReady <- struct{}{}:
		default:
		}
		return &eio.Callbacks{
			OnPacket: srvSide.onPacket,
			OnError: func(err error) {
				srvSide.mu.Lock()
				srvSide.errors = append(srvSide.errors, err.Error())
				srvSide.mu.Unlock()
			},
			OnClose: func(r eio.Reason, err error) {
				srvSide.mu.Lock()
				srvSide.closes = append(srvSide.closes, string(r))
				srvSide.closeErrs = append(srvSide.closeErrs, fmt.Sprint(err))
				srvSide.mu.Unlock()
			},
		}
	}, serverConfigFor(t))
	if err != nil {
		run.Inconclusive(err.Error())
		return
	}
	defer srv.Close()
	px, err := proxy.New(srv.Addr)
	if err != nil {
		run.Inconclusive(err.Error())
		return
	}
	defer px.Close()
	var wsConn atomic.Pointer[proxy.Conn]
	wsSeen := make(chan struct{}, 1)
	px.OnConn = func(c *proxy.Conn) {
		if !c.IsWS() {
			return
		}
		wsConn.Store(c)
		select {
		case wsSeen <- struct{}{}:
		default:
		}
		switch t.Fault {
		case "slow":
			c.SetDelay(4 * time.Millisecond)
		case "heartbeat":
			c.SetStall(true)
			go func() {
				est := t0
				if v := estAt.Load(); v != 0 {
					est = time.Unix(0, v)
				}
				time.Sleep(time.Until(est.Add(time.Second - time.Duration(t.CutAt)*time.Millisecond)))
				c.SetDelay(20 * time.Millisecond)
				c.SetStall(false)
			}()
		case "pollstall":
			// the poll that is pending during the probe (and everything else on the polling connections) is held
			// for 2.5 s, i.e. beyond the client's upgrade timeout of 1 s, while the websocket answers at once: the
			// client's wait for its last poll outlasts the timer of the attempt (seeded C07-H)
			for _, o := range px.Conns() {
				if o != c { // every other connection is a polling one (a trial has one websocket); Head of a connection still being set up is not read
					o.SetStall(true)
					go func(o *proxy.Conn) { time.Sleep(2500 * time.Millisecond); o.SetStall(false) }(o)
				}
			}
		case "refuse":
			c.Close()
		case "stall":
			c.SetBlackhole(true, true)
		case "late":
			// nothing gets through until after both upgrade timeouts (1 s) have expired, then everything does:
			// the probe and its answer arrive late
			c.SetStall(true)
			go func() {
				time.Sleep(1300 * time.Millisecond)
				c.SetStall(false)
			}()
		case "cut-c2s":
			c.SetDelay(time.Millisecond)
			c.CutAfter(proxy.C2S, t.CutAt)
		case "cut-s2c":
			c.SetDelay(time.Millisecond)
			c.CutAfter(proxy.S2C, t.CutAt)
		}
	}
	var upgradeDone atomic.Bool
	ccfg := &eio.ClientConfig{Transports: []string{"polling", "websocket"}, UpgradeTimeout: time.Second,
		UpgradeDone: func(string) {
			upgradeDone.Store(true)
			if os.Getenv("C07_DEBUG") != "" && estAt.Load() != 0 {
				run.Logf("debug %s: UpgradeDone at est+%v", t.id(), time.Since(time.Unix(0, estAt.Load())).Round(time.Millisecond))
			}
		}}
	if t.Fault == "heartbeat" {
		ccfg.UpgradeTimeout = 3 * time.Second
	}
	if t.Fault == "none" || t.Fault == "slow" {
		ccfg.UpgradeTimeout = 10 * time.Second
	}
	cliOnPacket := cliSide.onPacket
	if os.Getenv("C07_DEBUG") != "" && t.Fault == "heartbeat" {
		cliOnPacket = func(ps ...*eioparser.Packet) {
			for _, p := range ps {
				if p.Type == eioparser.PacketTypePing && estAt.Load() != 0 {
					run.Logf("debug %s: PING at client at est+%v via %s", t.id(), time.Since(time.Unix(0, estAt.Load())).Round(time.Millisecond), "?")
				}
			}
			cliSide.onPacket(ps...)
		}
	}
	cli, err := eio.Dial(px.URL("/engine.io/"), &eio.Callbacks{
		OnPacket: cliOnPacket,
		OnError: func(err error) {
			cliSide.mu.Lock()
			cliSide.errors = append(cliSide.errors, err.Error())
			cliSide.mu.Unlock()
		},
		OnClose: func(r eio.Reason, err error) {
			cliSide.mu.Lock()
			cliSide.closes = append(cliSide.closes, string(r))
			cliSide.closeErrs = append(cliSide.closeErrs, fmt.Sprint(err))
			cliSide.mu.Unlock()
		},
	}, ccfg)
	if err != nil {
		run.Inconclusive("dial: " + err.Error())
		return
	}
	defer cli.Close()
	select {
	case <-sockReady:
	case <-time.After(10 * time.Second):
		run.Inconclusive("no server socket")
		return
	}
	ss := srvSock.Load().(eio.ServerSocket)

	// the upgrade attempt is over when: UpgradeDone fired, or the ws connection is gone / timed out
	attemptOver := func() bool {
		if t.Fault == "pollstall" {
			return false // decided by time below: traffic continues until the held poll has been released
		}
		if upgradeDone.Load() {
			return true
		}
		c := wsConn.Load()
		if c == nil {
			return false
		}
		switch t.Fault {
		case "refuse":
			return true
		case "stall", "late":
			return false // decided by time below
		}
		return c.IsClosed()
	}
	start := time.Now()
	over := func() bool {
		if attemptOver() {
			return true
		}
		if t.Fault == "stall" && time.Since(start) > 1500*time.Millisecond {
			return true
		}
		if t.Fault == "late" {
			return time.Since(start) > 2500*time.Millisecond
		}
		if t.Fault == "pollstall" {
			return time.Since(start) > 3500*time.Millisecond
		}
		return time.Since(start) > 4*time.Second
	}
	closedNow := func() bool {
		srvSide.mu.Lock()
		a := len(srvSide.closes)
		srvSide.mu.Unlock()
		cliSide.mu.Lock()
		b := len(cliSide.closes)
		cliSide.mu.Unlock()
		return a+b > 0
	}

	r := run.Rand("c07/" + t.id())
	jit := make([]int, 64)
	for i := range jit {
		jit[i] = r.Intn(400)
	}
	// workers goroutines share one numbering: several emitters of one side are inside Send at the swap
	sender := func(s *side, send func(...*eioparser.Packet), workers int) {
		var next atomic.Int64
		var inner sync.WaitGroup
		for wk := 0; wk < workers; wk++ {
			inner.Add(1)
			go func() {
				defer inner.Done()
				emit := func(k int) {
					for i := 0; i < k; i++ {
						n := int(next.Add(1))
						s.lastSent.Store(int64(n))
						send(msg(n))
						s.sent.Add(1)
					}
				}
				after := 0
				// a slowed websocket (4 ms per chunk) must not be saturated: the heartbeat travels in-band, and a
				// PONG stuck behind seconds of backlog is a legitimate ping timeout, not a fault of the swap
				limit := int64(8000)
				if workers > 1 {
					limit = 3000
				}
				for next.Load() < limit && !closedNow() {
					switch t.Pattern {
					case "full":
						emit(1)
					case "jitter":
						emit(1)
						time.Sleep(time.Duration(jit[int(next.Load())%len(jit)]) * time.Microsecond)
					case "burst":
						// bursts released by events around the swap
						select {
						case <-wsSeen:
							emit(40)
						default:
						}
						emit(3)
						time.Sleep(300 * time.Microsecond)
					}
					if over() {
						after++
						if after > 150/workers+10 {
							break
						}
					}
				}
			}()
		}
		inner.Wait()
	}
	var wg sync.WaitGroup
	wg.Add(2)
	workers := 1
	if t.Emitters > 1 {
		workers = t.Emitters
	}
	go func() { defer wg.Done(); sender(cliSide, cli.Send, workers) }()
	go func() { defer wg.Done(); sender(srvSide, ss.Send, workers) }()
	if !vk.Watchdog(60*time.Second, wg.Wait) {
		run.Violation(vk.Violation{Sub: "send-hang", Fields: map[string]any{"fault": t.Fault},
			What: "Send did not return within 60 s during trial " + t.id(), Witness: map[string]any{"trial": t.id(), "stacks": vk.DumpGoroutines("c07-send")}})
		return
	}
	out.upgradeDone = upgradeDone.Load()
	if c := wsConn.Load(); c != nil {
		out.wsBytes = [2]int64{c.Bytes(proxy.C2S), c.Bytes(proxy.S2C)}
	}
	// fence
	f, _ := eioparser.NewPacket(eioparser.PacketTypeMessage, false, []byte("fence"))
	cli.Send(f)
	ss.Send(f)
	died := func() bool { return closedNow() }
	expectAlive := !strings.HasPrefix(t.Fault, "cut") || !out.upgradeDone
	complete := vk.WaitUntil(30*time.Second, func() bool {
		if died() {
			return true
		}
		srvSide.mu.Lock()
		a := srvSide.gotFence && int64(srvSide.recvN) >= cliSide.sent.Load()
		srvSide.mu.Unlock()
		cliSide.mu.Lock()
		b := cliSide.gotFence && int64(cliSide.recvN) >= srvSide.sent.Load()
		cliSide.mu.Unlock()
		return a && b
	})
	if t.Fault == "heartbeat" && !died() {
		// a heartbeat lost at the swap shows one ping timeout after it was due: keep watching until then
		est := t0
		if v := estAt.Load(); v != 0 {
			est = time.Unix(0, v)
		}
		for time.Now().Before(est.Add(2500*time.Millisecond)) && !died() {
			time.Sleep(10 * time.Millisecond)
		}
	}
	if died() {
		// let both sides finish closing (server may need a ping timeout to notice)
		vk.WaitUntil(8*time.Second, func() bool {
			srvSide.mu.Lock()
			a := len(srvSide.closes)
			srvSide.mu.Unlock()
			cliSide.mu.Lock()
			b := len(cliSide.closes)
			cliSide.mu.Unlock()
			return a > 0 && b > 0
		})
	}
	fields := map[string]any{"fault": t.Fault, "pattern": t.Pattern, "upgrade_done": out.upgradeDone}
	wit := map[string]any{"trial": t.id(), "seed": run.Seed(), "ws_bytes_c2s": out.wsBytes[0], "ws_bytes_s2c": out.wsBytes[1]}
	srvSide.mu.Lock()
	wit["server_close_errors"], wit["server_errors"] = append([]string(nil), srvSide.closeErrs...), append([]string(nil), srvSide.errors...)
	srvSide.mu.Unlock()
	cliSide.mu.Lock()
	wit["client_close_errors"], wit["client_errors"] = append([]string(nil), cliSide.closeErrs...), append([]string(nil), cliSide.errors...)
	cliSide.mu.Unlock()
	check := func(rx, tx *side, dir string) {
		rx.mu.Lock()
		defer rx.mu.Unlock()
		sent := int(tx.sent.Load())
		var dups, lost []int
		for n := 1; n <= sent; n++ {
			c := rx.recv[n]
			if c > 1 && len(dups) < 10 {
				dups = append(dups, n)
			}
			if c == 0 && len(lost) < 10 {
				lost = append(lost, n)
			}
		}
		f := map[string]any{"dir": dir}
		for k, v := range fields {
			f[k] = v
		}
		if len(dups) > 0 {
			run.Violation(vk.Violation{Sub: "duplicate", Fields: f, What: fmt.Sprintf("%s: messages %v received more than once (trial %s)", dir, dups, t.id()), Witness: wit})
		}
		alive := len(rx.closes) == 0 && len(tx.closes) == 0
		if len(lost) > 0 && alive {
			run.Violation(vk.Violation{Sub: "lost", Fields: f,
				What: fmt.Sprintf("%s: %d sent, messages %v... never received although the connection is alive and the fence passed=%v (trial %s)", dir, sent, lost, rx.gotFence, t.id()), Witness: wit})
		}
		run.Count("messages_"+dir, int64(rx.recvN))
	}
	check(srvSide, cliSide, "c2s")
	check(cliSide, srvSide, "s2c")
	srvSide.mu.Lock()
	sc := append([]string(nil), srvSide.closes...)
	srvSide.mu.Unlock()
	cliSide.mu.Lock()
	cc := append([]string(nil), cliSide.closes...)
	cliSide.mu.Unlock()
	if len(sc) > 1 || len(cc) > 1 {
		run.Violation(vk.Violation{Sub: "close-twice", Fields: fields, What: fmt.Sprintf("close reported more than once: server %v client %v (trial %s)", sc, cc, t.id()), Witness: wit})
	}
	if expectAlive {
		if len(sc)+len(cc) > 0 {
			run.Violation(vk.Violation{Sub: "connection-broken", Fields: fields,
				What:    fmt.Sprintf("upgrade attempt %q (client never swapped: %v) but the connection was closed: server %v client %v (trial %s)", t.Fault, !out.upgradeDone, sc, cc, t.id()),
				Witness: wit})
		} else if !complete {
			run.Violation(vk.Violation{Sub: "traffic-stopped", Fields: fields,
				What: fmt.Sprintf("connection alive but sent numbers / fence not all received within 30 s (trial %s)", t.id()), Witness: wit})
		} else {
			// the server flips its transport when the UPGRADE packet arrives; allow a moment. The expectation follows
			// the client's state NOW (on a loaded machine the swap can complete after the senders have finished)
			want := "polling"
			ok := vk.WaitUntil(5*time.Second, func() bool {
				want = "polling"
				if upgradeDone.Load() {
					want = "websocket"
				}
				return cli.TransportName() == want && ss.TransportName() == want
			})
			if !ok {
				run.Violation(vk.Violation{Sub: "wrong-transport", Fields: fields,
					What: fmt.Sprintf("after the attempt transport names are client=%s server=%s, want %s (trial %s)", cli.TransportName(), ss.TransportName(), want, t.id()), Witness: wit})
			}
		}
	} else if len(sc) == 0 || len(cc) == 0 {
		// the ws died after the client swapped: both sides must notice
		if !vk.WaitUntil(10*time.Second, func() bool {
			srvSide.mu.Lock()
			a := len(srvSide.closes)
			srvSide.mu.Unlock()
			cliSide.mu.Lock()
			b := len(cliSide.closes)
			cliSide.mu.Unlock()
			return a > 0 && b > 0
		}) {
			// connection survived the cut (cut point beyond the traffic): fine if complete
			if !complete {
				run.Violation(vk.Violation{Sub: "half-dead", Fields: fields,
					What: fmt.Sprintf("websocket cut after the swap: traffic incomplete and close not reported on both sides (server %v client %v) (trial %s)", sc, cc, t.id()), Witness: wit})
			}
		}
	}
	class := "alive"
	if len(sc)+len(cc) > 0 {
		class = "died"
	}
	run.Distinct(fmt.Sprintf("%s/%s/x%d/upgraded=%v/%s", t.Pattern, t.Fault, t.Emitters, out.upgradeDone, class))
	if t.Fault == "slow" || t.Fault == "none" {
		cliSide.mu.Lock()
		run.Count("through_swap_trials", 1)
		cliSide.mu.Unlock()
	}
	if run.DistinctCount() < 14 || os.Getenv("C07_DEBUG") != "" {
		run.Sample(map[string]any{"trial": t.id(), "sent_c2s": cliSide.sent.Load(), "sent_s2c": srvSide.sent.Load(), "upgrade_done": out.upgradeDone, "server_closes": sc, "client_closes": cc})
	}
	return
}

func main() {
	run := vk.Start("C07", "fault_enumeration")
	run.Rule("trials = traffic pattern {full speed, jitter, bursts released when the websocket connection appears} x upgrade fault {none, slowed (traffic flows through the swap), held back and slowed so that the server's first PING is queued on polling when the UPGRADE packet arrives (lead swept 70..130 ms; the trial watches until one ping timeout after that PING was due), refused, stalled (timeouts 1 s), late (held for 1.3 s, i.e. past both upgrade timeouts, then delivered), pollstall (the polling connections held for 2.5 s from the moment the websocket appears: the wait for the last poll outlasts the client's 1 s upgrade timeout), " +
		"cut at every 8th byte of the websocket byte stream in each direction}; numbered text and binary messages (every 97th one 33..113 KB) in both directions from before the attempt until after it; " +
		"distinct = (pattern, fault, client swapped?, connection alive/died). WebTransport part: the same traffic and oracle over polling -> WebTransport upgrades of the Go client against the real server over QUIC on loopback UDP through a datagram relay {clean, 3 ms per datagram, black hole (attempt fails, polling continues), black hole followed by a websocket attempt, dark after the k-th datagram for k over the QUIC handshake, CONNECT, OPEN, probe and UPGRADE}; after a successful swap a second numbered round and fence")
	run.Assume("order across the swap is not demanded (C02 covers settled transports)", "a cut after the client swapped legitimately kills the connection: then only at-most-once and close-once are required",
		"polling->WebTransport runs over real QUIC on loopback UDP through a datagram relay (wt.go): faults are whole-datagram delay, black hole and darkness after the k-th datagram, not byte cuts")
	patterns := []string{"full", "jitter", "burst"}
	var trials []trial
	reps := run.Pick(3, 25)
	if run.SubMode == "race" {
		reps = 1
	}
	for rep := 0; rep < reps; rep++ {
		for _, p := range patterns {
			for _, f := range []string{"none", "slow", "refuse", "stall"} {
				if f == "stall" && rep > 0 && run.Quick() {
					continue
				}
				trials = append(trials, trial{Pattern: p, Fault: f})
				if (f == "none" || f == "slow") && p != "jitter" {
					trials = append(trials, trial{Pattern: p, Fault: f, Emitters: 8})
				}
				if f == "slow" && p == "jitter" && (rep == 0 || run.Thorough()) {
					trials = append(trials, trial{Pattern: p, Fault: "late"})
				}
				if f == "slow" && (rep == 0 || run.Thorough()) {
					trials = append(trials, trial{Pattern: p, Fault: "pollstall"})
				}
				if f == "slow" && p == "jitter" {
					for lead := int64(70); lead <= 130; lead += 10 {
						trials = append(trials, trial{Pattern: p, Fault: "heartbeat", CutAt: lead})
					}
				}
			}
		}
	}
	// learn the length of the websocket byte streams from a clean slow run
	var probe outcome
	if os.Getenv("C07_ONLY") != "wt" {
		probe = runTrial(run, trial{Pattern: "jitter", Fault: "slow"})
	}
	run.Note("ws_stream_bytes_probe", probe.wsBytes)
	stride := int64(run.Pick(24, 8))
	if run.SubMode != "race" {
		for dir, name := range []string{"cut-c2s", "cut-s2c"} {
			max := probe.wsBytes[dir]
			if max > 1200 {
				max = 1200 // handshake + probe + upgrade + first messages; beyond that it is an ordinary transport loss (C06)
			}
			for k := int64(1); k <= max; k += stride {
				trials = append(trials, trial{Pattern: patterns[int(k/stride)%3], Fault: name, CutAt: k})
			}
		}
	}
	if os.Getenv("C07_ONLY") == "wt" {
		trials = nil
	}
	if f := strings.TrimPrefix(os.Getenv("C07_ONLY"), "fault:"); f != os.Getenv("C07_ONLY") {
		var keep []trial
		for _, t := range trials {
			if t.Fault == f {
				keep = append(keep, t)
			}
		}
		trials = keep
	}
	sem := make(chan struct{}, 10)
	var wg sync.WaitGroup
	for _, t := range trials {
		wg.Add(1)
		sem <- struct{}{}
		go func(t trial) {
			defer wg.Done()
			defer func() { <-sem }()
			runTrial(run, t)
		}(t)
	}
	wg.Wait()
	if o := os.Getenv("C07_ONLY"); o != "ws" && !strings.HasPrefix(o, "fault:") {
		wtTrials(run)
	}
	if bin := os.Getenv("VERIF_RACE_BIN"); bin != "" && run.Thorough() && run.SubMode == "" {
		if s, err := vk.RunSub(bin, "race", run, 20*time.Minute); err != nil {
			run.Inconclusive("race sub-pass: " + err.Error())
		} else {
			run.Merge("race:", s)
		}
	}
	run.Finish()
}
