package main

// Socket.IO level of the send path: the client socket's offline send buffer. A packet emitted while the CONNECT is
// pending is put into that buffer, and the only thing that empties it is the flush at the moment the socket becomes
// connected. A packet that gets into the buffer after that flush sits there until the next reconnection — a lost
// wake-up one layer above the queues of main.go (seeded C19-H: the emitter reads the state before it takes the buffer
// lock). Monitor: emitters run at full speed from before Connect() until a moment after the connect handler ran, then
// NOTHING more is emitted; every packet handed to Emit must be on the wire of the raw Engine.IO server although no
// later traffic exists that could flush it. Only then a single "kick" event is emitted, to tell a stranded packet
// (arrives behind the kick, or never) from a lost one.

import (
	"fmt"
	"sync"
	"sync/atomic"
	"time"

	sio "github.com/karagenc/socket.io-go"

	"sioverif/internal/rawpeer"
	"sioverif/internal/rig"
	"sioverif/internal/vk"
)

func sendBufferRounds(run *vk.Run) {
	rounds := run.Pick(150, 2000)
	if run.SubMode == "race" {
		rounds = 40
	}
	r := run.Rand("c19/sendbuf")
	type plan struct {
		transport  string
		emitters   int
		spin, tail time.Duration
	}
	plans := make([]plan, rounds)
	for i := range plans {
		plans[i] = plan{[]string{"websocket", "polling"}[i%2], []int{1, 2, 4, 8}[(i/2)%4], time.Duration(r.Intn(300)) * time.Microsecond, time.Duration(r.Intn(400)) * time.Microsecond}
	}
	sem := make(chan struct{}, 8)
	var wg sync.WaitGroup
	var stranded atomic.Int32
	for i, p := range plans {
		if stranded.Load() > 3 {
			break
		}
		wg.Add(1)
		sem <- struct{}{}
		go func(i int, p plan) {
			defer wg.Done()
			defer func() { <-sem }()
			run.Eval(1)
			raw, err := rawpeer.NewServer("")
			if err != nil {
				run.Inconclusive(err.Error())
				return
			}
			defer raw.Close()
			if p.transport == "polling" {
				raw.Upgrades = nil
			}
			mcfg := rig.ManagerConfig(p.transport)
			mcfg.NoReconnection = true
			m := sio.NewManager(raw.URL, mcfg)
			defer m.Close()
			sock := m.Socket("/", nil)
			connected := make(chan struct{})
			var conOnce sync.Once
			var disconnects atomic.Int32
			sock.OnConnect(func() { conOnce.Do(func() { close(connected) }) })
			sock.OnDisconnect(func(sio.Reason) { disconnects.Add(1) })
			var stop atomic.Bool
			counts := make([]int64, p.emitters)
			var ewg sync.WaitGroup
			for g := 0; g < p.emitters; g++ {
				ewg.Add(1)
				go func(g int) {
					defer ewg.Done()
					// capped: on a stalled machine the connect can take long, and a backlog of millions of events
					// would turn the delivery deadline below into a throughput test
					for seq := int64(0); !stop.Load() && seq < 30000; seq++ {
						sock.Emit("o", g, seq)
						counts[g] = seq + 1
					}
				}(g)
			}
			time.Sleep(p.spin)
			sock.Connect()
			select {
			case <-connected:
			case <-time.After(30 * time.Second):
				stop.Store(true)
				ewg.Wait()
				run.Inconclusive(fmt.Sprintf("send buffer round %d: client did not connect to the raw server", i))
				return
			}
			time.Sleep(p.tail)
			stop.Store(true)
			if !vk.Watchdog(60*time.Second, ewg.Wait) {
				run.Violation(vk.Violation{Sub: "emit-hang", Fields: map[string]any{"layer": "sio-send-buffer"},
					What: fmt.Sprintf("Emit did not return within 60 s around the connect (round %d)", i), Witness: map[string]any{"round": i, "stacks": vk.DumpGoroutines("c19-sendbuf")}})
				return
			}
			var total int64
			for _, c := range counts {
				total += c
			}
			sess := raw.WaitSession(1, 10*time.Second)
			if sess == nil {
				run.Inconclusive("send buffer round: no raw session")
				return
			}
			onWire := func() (n int64, perG []int64) {
				ps, _ := sess.Packets()
				perG = make([]int64, p.emitters)
				for _, sp := range ps {
					if rawpeer.EventName(sp.P) != "o" {
						continue
					}
					a := rawpeer.Args(sp.P)
					if len(a) < 2 {
						continue
					}
					g, _ := rawpeer.Num(a[0])
					if int(g) >= 0 && int(g) < p.emitters {
						perG[int(g)]++
						n++
					}
				}
				return
			}
			// nothing is emitted any more: whatever was handed to Emit has to arrive on its own
			// judged on progress, not on a deadline: stranded = the wire count has not moved for 10 s
			all := false
			var last int64 = -1
			lastMove := time.Now()
			for {
				n, _ := onWire()
				if n >= total {
					all = true
					break
				}
				if n != last {
					last, lastMove = n, time.Now()
				} else if time.Since(lastMove) > 10*time.Second {
					break
				}
				time.Sleep(50 * time.Millisecond)
			}
			run.Count("sendbuf_rounds", 1)
			run.Count("sendbuf_events", total)
			if all {
				run.Distinct(fmt.Sprintf("sendbuf/%s/x%d/buffered-then-live", p.transport, p.emitters))
				return
			}
			if disconnects.Load() > 0 {
				run.Inconclusive(fmt.Sprintf("send buffer round %d: the socket was disconnected during the round", i))
				return
			}
			n0, per0 := onWire()
			sock.Emit("kick")
			flushed := vk.WaitUntil(3*time.Second, func() bool { n, _ := onWire(); return n >= total })
			n1, _ := onWire()
			stranded.Add(1)
			run.Violation(vk.Violation{Sub: "stranded-in-send-buffer", Fields: map[string]any{"layer": "sio-send-buffer", "transport": p.transport},
				What: fmt.Sprintf("%d events were handed to Emit around the connect, the socket is connected and idle, but only %d reached the wire and the count has not moved for 10 s with no later traffic; after one more emit %d had arrived (all: %v) (round %d, %d emitters, %s)",
					total, n0, n1, flushed, i, p.emitters, p.transport),
				Witness: map[string]any{"round": i, "seed": run.Seed(), "emitted_per_emitter": counts, "on_wire_per_emitter": per0, "spin_us": p.spin.Microseconds(), "tail_us": p.tail.Microseconds()}})
		}(i, p)
	}
	wg.Wait()
}
