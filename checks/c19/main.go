// C19 — queued packets are sent without waiting for unrelated traffic (no lost wake-up).
//
// Forced schedules: hooks H1/H2 sit exactly between the consumer's emptiness check and
// its wait. A gate installed there parks the consumer; producers run to completion; the
// gate opens. All placements of producers (before the check / inside the window / after
// the consumer waits) and of close/reset are enumerated and executed against the real
// pollQueue and packetQueue. Monitors: conservation (returned + still queued == added, no
// duplicates) and "no consumer blocked while the queue is non-empty at quiescence".
// End-to-end: a real server over real long-polling with H1 = sleep (widens the window),
// a raw polling peer, packets emitted at random phases; oracle: delivery latency.
package main

import (
	"fmt"
	"runtime"
	"sort"
	"strings"
	"sync"
	"sync/atomic"
	"time"

	sio "github.com/karagenc/socket.io-go"
	eioparser "github.com/karagenc/socket.io-go/engine.io/parser"
	"github.com/karagenc/socket.io-go/engine.io/transport/polling"

	"sioverif/internal/rawpeer"
	"sioverif/internal/refcodec"
	"sioverif/internal/rig"
	"sioverif/internal/vk"
)

const (
	hookPoll   = "pollQueue.poll:between-check-and-wait"
	hookPacket = "packetQueue.poll:between-check-and-wait"
)

// gate parks goroutines that hit a hook until the harness releases them.
type gate struct {
	enabled atomic.Bool
	arrived chan struct{}
	release chan struct{}
}

func newGate() *gate {
	return &gate{arrived: make(chan struct{}, 64), release: make(chan struct{}, 64)}
}

func (g *gate) action() {
	if !g.enabled.Load() {
		return
	}
	g.arrived <- struct{}{}
	<-g.release
}

func pkt(id string) *eioparser.Packet {
	p, _ := eioparser.NewPacket(eioparser.PacketTypeMessage, false, []byte(id))
	return p
}

const settle = 250 * time.Millisecond

// placements of a producer relative to consumer 1
const (
	before = iota // before the consumer's emptiness check
	window        // consumer parked between check and wait
	after         // gate released, consumer (presumably) waiting
)

var placeName = []string{"before-check", "in-window", "after-wait"}

type consumerResult struct {
	returned bool
	packets  []string
}

// runPollQueueSchedule executes one schedule on a fresh pollQueue.
// prod[i] = placement of producer i; c2 = -1 (no second consumer) or its start placement.
func runPollQueueSchedule(run *vk.Run, g *gate, prod []int, c2 int) {
	id := fmt.Sprintf("pollQueue c2=%d prod=%v", c2, prod)
	run.Eval(1)
	run.Distinct(id)
	q := polling.VerifNewPollQueue()
	g.enabled.Store(true)
	defer g.enabled.Store(false)

	var mu sync.Mutex
	results := map[int]*consumerResult{}
	startConsumer := func(n int) {
		mu.Lock()
		results[n] = &consumerResult{}
		mu.Unlock()
		go func() {
			ps := q.Poll(time.Hour)
			mu.Lock()
			r := results[n]
			r.returned = true
			for _, p := range ps {
				r.packets = append(r.packets, string(p.Data))
			}
			mu.Unlock()
		}()
	}
	added := []string{}
	produce := func(i int) {
		name := fmt.Sprintf("p%d", i)
		added = append(added, name)
		q.Add(pkt(name)) // runs to completion: append + non-blocking signal
	}
	parked := 0
	// wait until every started consumer is either parked at the gate or has returned
	syncConsumers := func(expect int) bool {
		return vk.WaitUntil(10*time.Second, func() bool {
			for {
				select {
				case <-g.arrived:
					parked++
					continue
				default:
				}
				break
			}
			mu.Lock()
			ret := 0
			for _, r := range results {
				if r.returned {
					ret++
				}
			}
			mu.Unlock()
			return parked+ret >= expect
		})
	}

	for i, pl := range prod {
		if pl == before {
			produce(i)
		}
	}
	startConsumer(1)
	started := 1
	if c2 == before {
		startConsumer(2)
		started++
	}
	if !syncConsumers(started) {
		run.Inconclusive(id + ": consumers reached neither the hook nor returned (hook not compiled in?)")
		return
	}
	for i, pl := range prod {
		if pl == window {
			produce(i)
		}
	}
	if c2 == window {
		startConsumer(2)
		started++
		if !syncConsumers(started) {
			run.Inconclusive(id + ": consumer 2 stuck before hook")
			return
		}
	}
	// open the gate for everything parked
	for i := 0; i < parked; i++ {
		g.release <- struct{}{}
	}
	g.enabled.Store(false) // later arrivals pass straight through
	time.Sleep(20 * time.Millisecond)
	if c2 == after {
		startConsumer(2)
		time.Sleep(20 * time.Millisecond)
	}
	for i, pl := range prod {
		if pl == after {
			produce(i)
		}
	}
	// Quiescence is logical: all producers returned, all gates open. Healthy consumers return within microseconds.
	check := func() (blocked []int, got []string, queued int) {
		mu.Lock()
		defer mu.Unlock()
		for n, r := range results {
			if !r.returned {
				blocked = append(blocked, n)
			}
			got = append(got, r.packets...)
		}
		return blocked, got, q.Len()
	}
	vk.WaitUntil(settle, func() bool {
		b, _, queued := check()
		return queued == 0 || len(b) == 0
	})
	// a consumer may have taken packets from the queue without having reported them yet: wait for the books to balance
	vk.WaitUntil(2*time.Second, func() bool {
		_, g, queued := check()
		return len(g)+queued >= len(added)
	})
	blocked, got, queued := check()
	run.Count("pollQueue_schedules", 1)
	wit := map[string]any{"queue": "pollQueue", "producers": placements(prod), "consumer2": c2Name(c2), "added": added, "returned": got, "still_queued": queued, "blocked_consumers": blocked}
	if len(blocked) > 0 && queued > 0 {
		run.Violation(vk.Violation{Sub: "lost-wakeup", Fields: map[string]any{"queue": "pollQueue"},
			What:    fmt.Sprintf("poll stays blocked with %d packet(s) queued (schedule %s)", queued, id),
			Witness: wit})
	}
	// conservation: returned + queued == added, no duplicates
	rest := q.Get()
	for _, p := range rest {
		got = append(got, string(p.Data))
	}
	if !sameMultiset(got, added) {
		run.Violation(vk.Violation{Sub: "conservation", Fields: map[string]any{"queue": "pollQueue"},
			What: fmt.Sprintf("returned+queued %v != added %v (schedule %s)", got, added, id), Witness: wit})
	}
	// release consumers that are (legitimately) still waiting on an empty queue
	if len(blocked) > 0 {
		for range blocked {
			q.Add(pkt("wake"))
			time.Sleep(time.Millisecond)
		}
		vk.WaitUntil(2*time.Second, func() bool { b, _, _ := check(); return len(b) == 0 })
	}
	if run.DistinctCount()%17 == 0 {
		run.Sample(wit)
	}
}

func placements(p []int) []string {
	out := make([]string, len(p))
	for i, x := range p {
		out[i] = placeName[x]
	}
	return out
}

func c2Name(c int) string {
	if c < 0 {
		return "none"
	}
	return placeName[c]
}

func sameMultiset(a, b []string) bool {
	if len(a) != len(b) {
		return false
	}
	x := append([]string(nil), a...)
	y := append([]string(nil), b...)
	sort.Strings(x)
	sort.Strings(y)
	for i := range x {
		if x[i] != y[i] {
			return false
		}
	}
	return true
}

// closer placements for packetQueue schedules
const (
	noCloser = iota
	closeWindow
	closeAfter
	resetWindow
	resetAfter
)

var closerName = []string{"none", "close-in-window", "close-after", "reset-in-window", "reset-after"}

// runPacketQueueSchedule executes one schedule on a fresh packetQueue with the real sender loop.
func runPacketQueueSchedule(run *vk.Run, g *gate, prod []int, closer int) {
	id := fmt.Sprintf("packetQueue closer=%s prod=%v", closerName[closer], prod)
	run.Eval(1)
	run.Distinct(id)
	q := sio.VerifNewPacketQueue()
	g.enabled.Store(true)
	defer g.enabled.Store(false)

	var mu sync.Mutex
	var sent []string
	senderDone := make(chan struct{})
	added := []string{}
	produce := func(i int) {
		name := fmt.Sprintf("p%d", i)
		added = append(added, name)
		// each producer adds a 2-frame packet atomically (header + attachment)
		q.Add(pkt(name+"a"), pkt(name+"b"))
	}
	for i, pl := range prod {
		if pl == before {
			produce(i)
		}
	}
	go func() {
		defer close(senderDone)
		q.VerifPollAndSend(func(ps ...*eioparser.Packet) {
			mu.Lock()
			for _, p := range ps {
				sent = append(sent, string(p.Data))
			}
			mu.Unlock()
		})
	}()
	// The sender loops: it reaches the hook once the queue has been drained.
	select {
	case <-g.arrived:
	case <-time.After(10 * time.Second):
		run.Inconclusive(id + ": sender never reached the hook")
		q.Close()
		return
	}
	for i, pl := range prod {
		if pl == window {
			produce(i)
		}
	}
	addedBeforeReset := len(added)
	switch closer {
	case closeWindow:
		q.Close()
	case resetWindow:
		q.Reset()
	}
	g.enabled.Store(false)
	g.release <- struct{}{}
	time.Sleep(20 * time.Millisecond)
	for i, pl := range prod {
		if pl == after {
			produce(i)
		}
	}
	switch closer {
	case closeAfter:
		addedBeforeReset = len(added)
		q.Close()
	case resetAfter:
		addedBeforeReset = len(added)
		q.Reset()
	}
	wantAll := closer == noCloser
	ok := vk.WaitUntil(settle, func() bool {
		mu.Lock()
		defer mu.Unlock()
		if wantAll {
			return len(sent) == 2*len(added)
		}
		return false
	})
	mu.Lock()
	got := append([]string(nil), sent...)
	mu.Unlock()
	run.Count("packetQueue_schedules", 1)
	wit := map[string]any{"queue": "packetQueue", "producers": placements(prod), "closer": closerName[closer], "added": added, "sent": got}
	// no duplicates, frames of one packet contiguous and in order, per-producer FIFO
	seen := map[string]int{}
	for i, s := range got {
		seen[s]++
		if strings.HasSuffix(s, "a") && (i+1 >= len(got) || got[i+1] != strings.TrimSuffix(s, "a")+"b") {
			run.Violation(vk.Violation{Sub: "interleaved", Fields: map[string]any{"queue": "packetQueue"},
				What: fmt.Sprintf("frames of one add are not contiguous: %v (schedule %s)", got, id), Witness: wit})
		}
	}
	for s, n := range seen {
		if n > 1 {
			run.Violation(vk.Violation{Sub: "duplicate", Fields: map[string]any{"queue": "packetQueue"},
				What: fmt.Sprintf("packet %s sent %d times (schedule %s)", s, n, id), Witness: wit})
		}
	}
	switch closer {
	case noCloser:
		if !ok {
			run.Violation(vk.Violation{Sub: "lost-wakeup", Fields: map[string]any{"queue": "packetQueue"},
				What:    fmt.Sprintf("sender goroutine left %d of %d frames unsent at quiescence (schedule %s)", 2*len(added)-len(got), 2*len(added), id),
				Witness: wit})
		}
	case resetWindow, resetAfter:
		// packets added after the reset must still be sent
		for _, name := range added[addedBeforeReset:] {
			if seen[name+"a"] != 1 || seen[name+"b"] != 1 {
				run.Violation(vk.Violation{Sub: "lost-wakeup", Fields: map[string]any{"queue": "packetQueue", "after": "reset"},
					What: fmt.Sprintf("packet %s added after reset was never sent (schedule %s)", name, id), Witness: wit})
			}
		}
	}
	// close hand-shake: the sender goroutine exits, waitForDrain returns
	if closer == noCloser || closer == resetWindow || closer == resetAfter {
		q.Close()
	}
	select {
	case <-senderDone:
	case <-time.After(5 * time.Second):
		run.Violation(vk.Violation{Sub: "close-not-observed", Fields: map[string]any{"queue": "packetQueue"},
			What: "sender goroutine did not exit within 5 s after close (schedule " + id + ")", Witness: wit})
	}
	if !vk.Watchdog(5*time.Second, func() { q.WaitForDrain(time.Second) }) {
		run.Violation(vk.Violation{Sub: "drain-hang", Fields: map[string]any{"queue": "packetQueue"},
			What: "waitForDrain did not return (schedule " + id + ")", Witness: wit})
	}
	if run.DistinctCount()%23 == 0 {
		run.Sample(wit)
	}
}

func enumerate(k int, f func([]int)) {
	p := make([]int, k)
	var rec func(i int)
	rec = func(i int) {
		if i == k {
			f(append([]int(nil), p...))
			return
		}
		for v := 0; v < 3; v++ {
			p[i] = v
			rec(i + 1)
		}
	}
	rec(0)
}

func main() {
	run := vk.Start("C19", "exploration")
	run.Rule("forced schedules: every placement of 1..3 producers in {before the consumer's check, inside the check/wait window (consumer parked at hook), after the consumer waits} " +
		"x second consumer start x close/reset placement, each executed on the real queue; distinct = schedule id. " +
		"Socket.IO send buffer: 1/2/4/8 emitters at full speed from before Connect() until a moment after the connect handler, then silence — every event handed to Emit must reach the wire of the raw server without later traffic; lonely packet: ping-pong on the real sender loop, a packet added (after a random sub-microsecond spin) while the sender finishes the previous Send, nothing added afterwards; " +
		"end-to-end: packets emitted at random phases of a real long-polling cycle with the window widened by a sleep hook; distinct = phase bucket")
	run.Assume("the hook sits between the emptiness check and the wait in the real files (build tag verif)",
		"a consumer that has not returned 250 ms after logical quiescence with a non-empty queue is stranded (its own timeout is 1 h)")

	if run.SubMode == "race" {
		// race sub-pass: unforced stress only
		stress(run)
		sendBufferRounds(run)
		run.Finish()
	}

	g := newGate()
	sio.VerifHookSet(hookPoll, g.action)
	enumDepth := 3
	for k := 1; k <= enumDepth; k++ {
		enumerate(k, func(p []int) {
			for _, c2 := range []int{-1, before, window, after} {
				if run.Quick() && k == 3 && c2 >= 0 && c2 != window {
					continue
				}
				runPollQueueSchedule(run, g, p, c2)
			}
		})
	}
	sio.VerifHookSet(hookPoll, nil)
	run.Note("hook_hits_pollQueue", sio.VerifHookHits(hookPoll))

	g2 := newGate()
	sio.VerifHookSet(hookPacket, g2.action)
	for k := 1; k <= enumDepth; k++ {
		enumerate(k, func(p []int) {
			for closer := noCloser; closer <= resetAfter; closer++ {
				if run.Quick() && k == 3 && closer != noCloser {
					continue
				}
				runPacketQueueSchedule(run, g2, p, closer)
			}
		})
	}
	sio.VerifHookSet(hookPacket, nil)
	run.Note("hook_hits_packetQueue", sio.VerifHookHits(hookPacket))
	if sio.VerifHookHits(hookPacket) == 0 || sio.VerifHookHits(hookPoll) == 0 {
		run.Inconclusive("a hook was never reached")
	}
	run.Exhaustive(true)

	stress(run)
	lonely(run)
	endToEnd(run)
	sendBufferRounds(run)

	if bin := raceBin(); bin != "" && run.Thorough() {
		if s, err := vk.RunSub(bin, "race", run, 20*time.Minute); err != nil {
			run.Inconclusive("race sub-pass: " + err.Error())
		} else {
			run.Merge("race:", s)
		}
	}
	run.Finish()
}

func raceBin() string { return vk.Getenv("VERIF_RACE_BIN") }

// stress: unforced producers/consumers hammering both queues; conservation and order only.
func stress(run *vk.Run) {
	rounds := run.Pick(30, 300)
	for round := 0; round < rounds; round++ {
		q := sio.VerifNewPacketQueue()
		var mu sync.Mutex
		var sent []string
		done := make(chan struct{})
		go func() {
			defer close(done)
			q.VerifPollAndSend(func(ps ...*eioparser.Packet) {
				mu.Lock()
				for _, p := range ps {
					sent = append(sent, string(p.Data))
				}
				mu.Unlock()
			})
		}()
		np, per := 8, 200
		var wg sync.WaitGroup
		for p := 0; p < np; p++ {
			wg.Add(1)
			go func(p int) {
				defer wg.Done()
				for i := 0; i < per; i++ {
					q.Add(pkt(fmt.Sprintf("%d:%d:a", p, i)), pkt(fmt.Sprintf("%d:%d:b", p, i)))
				}
			}(p)
		}
		wg.Wait()
		ok := vk.WaitUntil(10*time.Second, func() bool { mu.Lock(); defer mu.Unlock(); return len(sent) == np*per*2 })
		mu.Lock()
		got := append([]string(nil), sent...)
		mu.Unlock()
		run.Eval(1)
		run.Count("stress_frames", int64(len(got)))
		if !ok {
			run.Violation(vk.Violation{Sub: "lost-wakeup", Fields: map[string]any{"queue": "packetQueue", "mode": "stress"},
				What: fmt.Sprintf("stress: %d of %d frames sent 10 s after the last add returned", len(got), np*per*2), Witness: map[string]any{"round": round}})
		}
		next := make([]int, np)
		for i := 0; i+1 < len(got); i += 2 {
			var p, n int
			var ab string
			fmt.Sscanf(strings.ReplaceAll(got[i], ":", " "), "%d %d %s", &p, &n, &ab)
			if ab != "a" || got[i+1] != fmt.Sprintf("%d:%d:b", p, n) {
				run.Violation(vk.Violation{Sub: "interleaved", Fields: map[string]any{"queue": "packetQueue", "mode": "stress"},
					What: fmt.Sprintf("stress: frames not contiguous at %d: %q %q", i, got[i], got[i+1]), Witness: map[string]any{"round": round}})
				break
			}
			if n != next[p] {
				run.Violation(vk.Violation{Sub: "order", Fields: map[string]any{"queue": "packetQueue", "mode": "stress"},
					What: fmt.Sprintf("stress: producer %d packet %d sent when %d was expected", p, n, next[p]), Witness: map[string]any{"round": round}})
				break
			}
			next[p]++
		}
		q.Close()
		select {
		case <-done:
		case <-time.After(5 * time.Second):
			run.Violation(vk.Violation{Sub: "close-not-observed", Fields: map[string]any{"queue": "packetQueue", "mode": "stress"},
				What: "stress: sender goroutine did not exit after close", Witness: map[string]any{"round": round}})
		}
	}
}

// lonely: a packet added while the sender goroutine is just finishing a Send, with nothing coming after it.
// Ping-pong on the real packetQueue + pollAndSend: add A; while the sender is inside Send(A) (random spin of
// 0..0.5 us) add B after a random spin; then nothing else is added. B must be sent promptly: 500 ms of
// idleness with B queued means it was left to be flushed by some later packet.
func lonely(run *vk.Run) {
	q := sio.VerifNewPacketQueue()
	var inSend atomic.Int32
	var sentN atomic.Int64
	var dummy atomic.Int64
	spin := func(k int) {
		for i := 0; i < k; i++ {
			dummy.Add(1)
		}
	}
	r := run.Rand("c19-lonely")
	spins := make([]int, 4096)
	for i := range spins {
		spins[i] = r.Intn(120)
	}
	var it atomic.Int64
	done := make(chan struct{})
	go func() {
		defer close(done)
		q.VerifPollAndSend(func(ps ...*eioparser.Packet) {
			inSend.Store(1)
			spin(spins[(it.Load()*7+3)%4096])
			sentN.Add(int64(len(ps)))
			inSend.Store(0)
		})
	}()
	n := run.Pick(60000, 600000)
	stranded := 0
	for i := 0; i < n && stranded < 3; i++ {
		it.Store(int64(i))
		t0 := time.Now()
		base := sentN.Load()
		q.Add(pkt("A"))
		for spins := 0; inSend.Load() == 0 && sentN.Load() == base; spins++ {
			if spins&0xffff == 0xffff && time.Since(t0) > 500*time.Millisecond {
				break // A itself is stranded: the verdict below reports it
			}
		}
		spin(spins[(i*13+1)%4096] * 2)
		q.Add(pkt("B"))
		deadline := time.Now().Add(500 * time.Millisecond)
		for sentN.Load() < base+2 && time.Now().Before(deadline) {
			if sentN.Load() == base+1 {
				runtime.Gosched()
			}
		}
		run.Eval(1)
		if sentN.Load() < base+2 {
			stranded++
			run.Violation(vk.Violation{Sub: "lost-wakeup", Fields: map[string]any{"queue": "packetQueue", "mode": "lonely-packet"},
				What:    fmt.Sprintf("iteration %d: a packet added while the sender goroutine was finishing the previous Send was still queued 500 ms later with the sender idle (%d of 2 sent): it waits for some later packet to flush it", i, sentN.Load()-base),
				Witness: map[string]any{"iteration": i, "seed": run.Seed()}})
			q.Add(pkt("flush"))
			vk.WaitUntil(2*time.Second, func() bool { return sentN.Load() >= base+3 })
		}
	}
	run.Count("lonely_packet_iterations", int64(n))
	q.Close()
	select {
	case <-done:
	case <-time.After(5 * time.Second):
	}
}

// endToEnd: real server, real long-polling transport, raw polling peer.
func endToEnd(run *vk.Run) {
	sio.VerifHookSet(hookPoll, func() { time.Sleep(15 * time.Millisecond) })
	defer sio.VerifHookSet(hookPoll, nil)
	srv, err := rig.NewServer(&sio.ServerConfig{}, "")
	if err != nil {
		run.Inconclusive("e2e: " + err.Error())
		return
	}
	defer srv.Close()
	sockCh := make(chan sio.ServerSocket, 1)
	srv.IO.OnConnection(func(s sio.ServerSocket) { sockCh <- s })
	peer, err := rawpeer.DialSIO(srv.URL, "polling")
	if err != nil {
		run.Inconclusive("e2e dial: " + err.Error())
		return
	}
	defer peer.C.Close()
	// The CONNECT reply itself can be stranded by a lost wake-up; the generous timeout keeps this a latency observation.
	t0 := time.Now()
	res, err := peer.Connect("/", nil, 60*time.Second)
	if err != nil || !res.OK {
		run.Inconclusive(fmt.Sprintf("e2e connect: %v", err))
		return
	}
	if d := time.Since(t0); d > 5*time.Second {
		run.Violation(vk.Violation{Sub: "e2e-latency", Fields: map[string]any{"what": "connect-reply"},
			What: fmt.Sprintf("CONNECT reply took %v over long-polling (pingInterval 25 s): it sat in the poll queue until unrelated traffic flushed it", d), Witness: map[string]any{"latency_ms": d.Milliseconds()}})
	}
	var sock sio.ServerSocket
	select {
	case sock = <-sockCh:
	case <-time.After(30 * time.Second):
		run.Inconclusive("e2e: no server socket")
		return
	}
	n := run.Pick(250, 2500)
	r := run.Rand("c19-e2e")
	maxLat := time.Duration(0)
	from := 0
	slow := 0
	for i := 0; i < n && slow < 3; i++ {
		phase := time.Duration(r.Intn(22000)) * time.Microsecond
		time.Sleep(phase)
		sent := time.Now()
		sock.Emit("x", i)
		idx, _, err := peer.WaitPacket(from, 40*time.Second, func(p *refcodec.Packet) bool {
			if rawpeer.EventName(p) != "x" {
				return false
			}
			v, _ := rawpeer.Num(rawpeer.Args(p)[0])
			return int(v) == i
		})
		lat := time.Since(sent)
		run.Eval(1)
		run.Distinct(fmt.Sprintf("e2e-phase-%dms", phase.Milliseconds()))
		if err != nil {
			run.Violation(vk.Violation{Sub: "e2e-latency", Fields: map[string]any{"what": "never"},
				What: fmt.Sprintf("packet %d emitted at phase %v was not delivered within 40 s: %v", i, phase, err), Witness: map[string]any{"i": i, "phase_us": phase.Microseconds()}})
			break
		}
		from = idx + 1
		if lat > maxLat {
			maxLat = lat
		}
		if lat > 5*time.Second {
			slow++
			run.Violation(vk.Violation{Sub: "e2e-latency", Fields: map[string]any{"what": "event"},
				What:    fmt.Sprintf("packet %d emitted %v after the previous delivery was delivered only after %v (pingInterval 25 s): stranded in the poll queue", i, phase, lat),
				Witness: map[string]any{"i": i, "phase_us": phase.Microseconds(), "latency_ms": lat.Milliseconds()}})
		}
	}
	run.Note("e2e_max_latency_ms", maxLat.Milliseconds())
	run.Note("e2e_hook_hits", sio.VerifHookHits(hookPoll))
	run.Count("e2e_events", int64(n))
}
