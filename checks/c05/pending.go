package main

// One namespace ends (refused by a middleware, disconnected by the client, disconnected by the server) while the
// CONNECT of another namespace multiplexed on the same Manager is still pending (slow middleware). The end of the one
// is not the business of the other: the pending namespace connects and works.

import (
	"fmt"
	"sync/atomic"
	"time"

	sio "github.com/karagenc/socket.io-go"
	"sioverif/internal/rig"
	"sioverif/internal/vk"
)

func runPendingWhileOtherEnds(run *vk.Run, transports []string, how string, slowFor time.Duration) {
	run.Eval(1)
	id := fmt.Sprintf("pending-while-other-ends/%s/%v/slow=%v", how, transports, slowFor)
	srv, err := rig.NewServer(nil, "")
	if err != nil {
		run.Inconclusive(err.Error())
		return
	}
	defer srv.Close()
	slow := srv.IO.Of("/slow")
	slow.Use(func(sio.ServerSocket, *sio.Handshake) any { time.Sleep(slowFor); return nil })
	slow.OnConnection(func(s sio.ServerSocket) {
		s.OnEvent("probe", func(n int, ack func(int)) { ack(n + 1) })
	})
	other := srv.IO.Of("/other")
	if how == "refused" {
		other.Use(func(sio.ServerSocket, *sio.Handshake) any { return fmt.Errorf("not you") })
	}
	other.OnConnection(func(s sio.ServerSocket) {
		if how == "server-disconnect" {
			go s.Disconnect(false)
		}
	})
	m := sio.NewManager(srv.URL, rig.ManagerConfig(transports...))
	defer m.Close()
	s1 := m.Socket("/slow", nil)
	s2 := m.Socket("/other", nil)
	var connects, disconnects atomic.Int32
	var reason atomic.Value
	s1.OnConnect(func() { connects.Add(1) })
	s1.OnDisconnect(func(r sio.Reason) { disconnects.Add(1); reason.CompareAndSwap(nil, string(r)) })
	var otherEnded atomic.Bool
	s2.OnConnectError(func(any) { otherEnded.Store(true) })
	s2.OnDisconnect(func(sio.Reason) { otherEnded.Store(true) })
	s2.OnConnect(func() {
		if how == "client-disconnect" {
			go s2.Disconnect()
		}
	})
	s1.Connect()
	s2.Connect()
	f := map[string]any{"client_kind": "go", "ctx": "pending-while-other-ends", "how": how}
	ok := vk.WaitUntil(slowFor+20*time.Second, func() bool { return connects.Load() >= 1 })
	if !ok {
		run.Violation(vk.Violation{Sub: "namespace-ended-by-other", Fields: f,
			What: fmt.Sprintf("%s: namespace /slow (CONNECT pending for %v) never connected within %v after /other ended (%s); /slow saw %d disconnect event(s), first reason %v, Active()=%v",
				id, slowFor, slowFor+20*time.Second, how, disconnects.Load(), reason.Load(), s1.Active()),
			Witness: map[string]any{"scenario": id, "other_ended_seen": otherEnded.Load()}})
		return
	}
	done := make(chan int, 1)
	s1.Emit("probe", 41, func(n int) { done <- n })
	select {
	case n := <-done:
		if n != 42 {
			run.Violation(vk.Violation{Sub: "namespace-ended-by-other", Fields: f, What: fmt.Sprintf("%s: probe on /slow answered %d", id, n), Witness: map[string]any{"scenario": id}})
		}
	case <-time.After(20 * time.Second):
		run.Violation(vk.Violation{Sub: "namespace-ended-by-other", Fields: f, What: id + ": /slow connected but a probe did not round-trip within 20 s", Witness: map[string]any{"scenario": id, "disconnects": disconnects.Load(), "reason": reason.Load()}})
	}
	if d := disconnects.Load(); d > 0 {
		run.Violation(vk.Violation{Sub: "namespace-ended-by-other", Fields: f, What: fmt.Sprintf("%s: /slow saw %d disconnect event(s) (%v) although only /other ended", id, d, reason.Load()), Witness: map[string]any{"scenario": id}})
	}
	if !otherEnded.Load() {
		run.Count("pending_other_end_not_observed", 1)
	}
	run.Distinct(id)
}
