// C05 — namespaces multiplexed on one connection are isolated from each other.
//
// Part A: Go clients; look-alike namespace sets multiplexed on one Manager and on separate
// Managers; every payload carries (namespace tag, uid); recorders are per (namespace,
// socket); set-membership oracle on the log (a handler / ack / broadcast recorder of
// namespace X must only ever see payloads tagged X); after a single-namespace disconnect a
// probe must round-trip on every other namespace of the same connection; CONNECT reply
// orders are permuted by per-namespace middleware delays.
// Part B: a raw protocol peer sends EVENT / ACK / DISCONNECT for namespaces it has not
// joined, or whose CONNECT is still parked in a middleware: the connection must be closed
// and no handler may run. With hook H4 widening the admission window, an event sent right
// after the CONNECT reply must be dispatched, not treated as invalid state.
package main

import (
	"encoding/json"
	"fmt"
	"math/rand"
	"os"
	"strings"
	"sync"
	"sync/atomic"
	"time"

	sio "github.com/karagenc/socket.io-go"

	"sioverif/internal/rawpeer"
	"sioverif/internal/refcodec"
	"sioverif/internal/rig"
	"sioverif/internal/vk"
)

var allNsps = []string{"/", "/a", "/ab", "/a/b", "/A", "/a b", "/ä", "/1", "/a?x=1", "/12", "/a,b"[:2] + "_b"}

const hookAdmit = "serverConn.connect:after-nsp-add"

type leak struct {
	where, own, tag string
	uid             int
}

type recorder struct {
	run   *vk.Run
	leaks atomic.Int64
	seen  atomic.Int64
	mu    sync.Mutex
	first *leak
}

func (r *recorder) see(where, own, tag string, uid int) {
	r.seen.Add(1)
	if own != tag {
		r.leaks.Add(1)
		r.mu.Lock()
		if r.first == nil {
			r.first = &leak{where, own, tag, uid}
		}
		r.mu.Unlock()
	}
}

func pickNsps(r *rand.Rand, n int) []string {
	perm := r.Perm(len(allNsps))
	out := []string{}
	for _, i := range perm[:n] {
		out = append(out, allNsps[i])
	}
	return out
}

func runGoProgram(run *vk.Run, r *rand.Rand, nsps []string, shared bool, delays []time.Duration, transports []string) {
	run.Eval(1)
	rec := &recorder{run: run}
	srv, err := rig.NewServer(nil, "")
	if err != nil {
		run.Inconclusive(err.Error())
		return
	}
	defer srv.Close()
	type srvSock struct {
		nsp string
		s   sio.ServerSocket
	}
	var smu sync.Mutex
	srvSocks := map[string]sio.ServerSocket{}
	var srvDisconnects sync.Map
	for i, name := range nsps {
		name := name
		d := delays[i%len(delays)]
		nsp := srv.IO.Of(name)
		nsp.Use(func(sio.ServerSocket, *sio.Handshake) any { time.Sleep(d); return nil })
		nsp.OnConnection(func(s sio.ServerSocket) {
			s.OnEvent("m", func(tag string, uid int) { rec.see("server-handler", name, tag, uid) })
			s.OnEvent("ma", func(tag string, uid int, ack func(string, int)) {
				rec.see("server-handler", name, tag, uid)
				ack(name, uid)
			})
			s.OnEvent("probe", func(n int, ack func(int)) { ack(n + 1) })
			s.OnDisconnect(func(sio.Reason) { srvDisconnects.Store(name, true) })
			smu.Lock()
			srvSocks[name] = s
			smu.Unlock()
		})
	}
	var managers []*sio.Manager
	newManager := func() *sio.Manager {
		m := sio.NewManager(srv.URL, rig.ManagerConfig(transports...))
		managers = append(managers, m)
		return m
	}
	defer func() {
		for _, m := range managers {
			m.Close()
		}
	}()
	var sharedM *sio.Manager
	if shared {
		sharedM = newManager()
	}
	socks := map[string]sio.ClientSocket{}
	var connected sync.Map
	var cliDisconnects sync.Map
	for _, name := range nsps {
		name := name
		m := sharedM
		if !shared {
			m = newManager()
		}
		s := m.Socket(name, nil)
		s.OnEvent("m", func(tag string, uid int) { rec.see("client-handler", name, tag, uid) })
		s.OnEvent("b", func(tag string, uid int) { rec.see("client-broadcast", name, tag, uid) })
		s.OnEvent("ma", func(tag string, uid int, ack func(string, int)) {
			rec.see("client-handler", name, tag, uid)
			ack(name, uid)
		})
		s.OnConnect(func() { connected.Store(name, true) })
		s.OnDisconnect(func(sio.Reason) { cliDisconnects.Store(name, true) })
		socks[name] = s
		s.Connect()
	}
	allConnected := vk.WaitUntil(30*time.Second, func() bool {
		for _, n := range nsps {
			if _, ok := connected.Load(n); !ok {
				return false
			}
		}
		smu.Lock()
		defer smu.Unlock()
		return len(srvSocks) == len(nsps)
	})
	fields := map[string]any{"shared_connection": shared, "namespaces": len(nsps)}
	wit := map[string]any{"namespaces": nsps, "shared_manager": shared, "transports": transports, "seed": run.Seed()}
	if !allConnected {
		var missing []string
		for _, n := range nsps {
			if _, ok := connected.Load(n); !ok {
				missing = append(missing, n)
			}
		}
		run.Violation(vk.Violation{Sub: "namespace-not-connected", Fields: fields,
			What: fmt.Sprintf("namespaces %q did not connect within 30 s when %d namespaces are opened together (set %q)", missing, len(nsps), nsps), Witness: wit})
		return
	}
	// interleaved traffic
	uid := 0
	var acks atomic.Int64
	var wg sync.WaitGroup
	steps := 40
	for i := 0; i < steps; i++ {
		name := nsps[r.Intn(len(nsps))]
		uid++
		u := uid
		smu.Lock()
		ss := srvSocks[name]
		smu.Unlock()
		switch r.Intn(5) {
		case 0:
			socks[name].Emit("m", name, u)
		case 1:
			ss.Emit("m", name, u)
		case 2:
			wg.Add(1)
			socks[name].Emit("ma", name, u, func(tag string, n int) {
				rec.see("client-ack", name, tag, n)
				if n != u {
					rec.see("client-ack-uid", name, fmt.Sprintf("%s#%d!=%d", tag, n, u), n)
				}
				acks.Add(1)
				wg.Done()
			})
		case 3:
			wg.Add(1)
			ss.Emit("ma", name, u, func(tag string, n int) {
				rec.see("server-ack", name, tag, n)
				acks.Add(1)
				wg.Done()
			})
		case 4:
			srv.IO.Of(name).Emit("b", name, u)
		}
	}
	if !vk.Watchdog(30*time.Second, wg.Wait) {
		run.Violation(vk.Violation{Sub: "ack-lost", Fields: fields, What: fmt.Sprintf("acks outstanding after 30 s with namespaces %q", nsps), Witness: wit})
		return
	}
	// concurrent traffic: one emitting goroutine per namespace and side, all at once. The namespaces of a shared
	// manager share one connection, one parser and one packet queue: what is emitted in a namespace must
	// still arrive in that namespace (the recorder flags any payload whose tag names another one).
	if len(nsps) > 1 {
		burst := 300
		var cwg sync.WaitGroup
		for _, name := range nsps {
			name := name
			smu.Lock()
			ss := srvSocks[name]
			smu.Unlock()
			cs := socks[name]
			cwg.Add(2)
			go func() {
				defer cwg.Done()
				for i := 0; i < burst; i++ {
					cs.Emit("m", name, 100000+i)
				}
			}()
			go func() {
				defer cwg.Done()
				for i := 0; i < burst; i++ {
					ss.Emit("m", name, 200000+i)
				}
			}()
		}
		cwg.Wait()
		// fence per namespace and direction
		for _, name := range nsps {
			done := make(chan int, 1)
			socks[name].Emit("probe", 1, func(n int) { done <- n })
			select {
			case <-done:
			case <-time.After(20 * time.Second):
				run.Violation(vk.Violation{Sub: "collateral-disconnect", Fields: fields,
					What: fmt.Sprintf("after concurrent traffic on %d namespaces, namespace %q no longer answers (set %q)", len(nsps), name, nsps), Witness: wit})
				return
			}
		}
		run.Count("concurrent_payloads_emitted", int64(2*burst*len(nsps)))
	}
	// disconnect one namespace; the others must stay connected and usable
	victim := nsps[r.Intn(len(nsps))]
	if r.Intn(2) == 0 {
		socks[victim].Disconnect()
	} else {
		smu.Lock()
		ss := srvSocks[victim]
		smu.Unlock()
		ss.Disconnect(false)
	}
	for _, name := range nsps {
		if name == victim {
			continue
		}
		done := make(chan int, 1)
		socks[name].Emit("probe", 1, func(n int) { done <- n })
		select {
		case <-done:
		case <-time.After(20 * time.Second):
			_, cd := cliDisconnects.Load(name)
			_, sd := srvDisconnects.Load(name)
			run.Violation(vk.Violation{Sub: "collateral-disconnect", Fields: fields,
				What:    fmt.Sprintf("after disconnecting only %q, namespace %q no longer answers (client disconnect event=%v, server disconnect event=%v; set %q)", victim, name, cd, sd, nsps),
				Witness: wit})
			return
		}
		if _, cd := cliDisconnects.Load(name); cd {
			run.Violation(vk.Violation{Sub: "collateral-disconnect", Fields: fields, What: fmt.Sprintf("disconnecting %q also disconnected %q", victim, name), Witness: wit})
		}
	}
	time.Sleep(20 * time.Millisecond)
	if rec.leaks.Load() > 0 {
		rec.mu.Lock()
		l := rec.first
		rec.mu.Unlock()
		run.Violation(vk.Violation{Sub: "cross-namespace-delivery", Fields: map[string]any{"where": l.where, "shared_connection": shared},
			What:    fmt.Sprintf("%s of namespace %q received payload tagged %q (uid %d); %d leaks in this program (set %q)", l.where, l.own, l.tag, l.uid, rec.leaks.Load(), nsps),
			Witness: wit})
	}
	run.Count("payloads_seen", rec.seen.Load())
	run.Count("acks", acks.Load())
	run.Distinct(fmt.Sprintf("go/shared=%v/n=%d/%s", shared, len(nsps), strings.Join(nsps, "|")))
	if run.DistinctCount()%9 == 1 {
		run.Sample(map[string]any{"namespaces": nsps, "shared_manager": shared, "payloads_seen": rec.seen.Load(), "victim": victim})
	}
}

// ---------- part B: raw peer ----------

func runRawInvalid(run *vk.Run, kind string, transport string) {
	run.Eval(1)
	srv, err := rig.NewServer(nil, "")
	if err != nil {
		run.Inconclusive(err.Error())
		return
	}
	defer srv.Close()
	var handlerRuns atomic.Int64
	park := make(chan struct{})
	parked := make(chan struct{}, 4)
	for _, name := range []string{"/", "/a", "/ab", "/slow"} {
		name := name
		nsp := srv.IO.Of(name)
		if name == "/slow" {
			nsp.Use(func(sio.ServerSocket, *sio.Handshake) any { parked <- struct{}{}; <-park; return nil })
		}
		nsp.OnConnection(func(s sio.ServerSocket) {
			s.OnEvent("e", func(n int) { handlerRuns.Add(1) })
			s.OnEvent("ok", func(n int, ack func(int)) { ack(n) })
		})
	}
	defer close(park)
	peer, err := rawpeer.DialSIO(srv.URL, transport)
	if err != nil {
		run.Inconclusive(err.Error())
		return
	}
	defer peer.C.Abort()
	if res, err := peer.Connect("/a", nil, 30*time.Second); err != nil || !res.OK {
		run.Inconclusive(fmt.Sprintf("raw connect /a: %v", err))
		return
	}
	one := json.Number("1")
	id := uint64(3)
	switch kind {
	case "event-unjoined-root":
		peer.Emit("/", nil, "e", one)
	case "event-unjoined-prefix":
		peer.Emit("/ab", nil, "e", one)
	case "event-unknown-namespace":
		peer.Emit("/nope", nil, "e", one)
	case "ack-unjoined":
		peer.Ack("/ab", id, one)
	case "disconnect-unjoined":
		peer.SendPacket(&refcodec.Packet{Type: refcodec.Disconnect, Namespace: "/ab"})
	case "event-while-connect-parked":
		peer.SendPacket(&refcodec.Packet{Type: refcodec.Connect, Namespace: "/slow"})
		select {
		case <-parked:
		case <-time.After(20 * time.Second):
			run.Inconclusive("middleware of /slow not reached")
			return
		}
		peer.Emit("/slow", nil, "e", one)
	case "connect-error-from-client":
		peer.SendPacket(&refcodec.Packet{Type: refcodec.ConnectError, Namespace: "/a", HasData: true, Data: map[string]any{"message": "x"}})
	case "connect-twice":
		peer.SendPacket(&refcodec.Packet{Type: refcodec.Connect, Namespace: "/a"})
	}
	closed := peer.C.WaitClosed(20 * time.Second)
	fields := map[string]any{"kind": kind, "transport": transport}
	wit := map[string]any{"kind": kind, "transport": transport}
	if !closed {
		run.Violation(vk.Violation{Sub: "invalid-packet-not-closed", Fields: fields,
			What: fmt.Sprintf("packet %q for a namespace the connection has not joined did not close the connection within 20 s", kind), Witness: wit})
	}
	time.Sleep(20 * time.Millisecond)
	if handlerRuns.Load() > 0 {
		run.Violation(vk.Violation{Sub: "dispatched-to-unjoined-namespace", Fields: fields,
			What: fmt.Sprintf("packet %q was dispatched to a handler (%d runs)", kind, handlerRuns.Load()), Witness: wit})
	}
	run.Distinct("raw/" + kind + "/" + transport)
}

// runRawRejoin: VALID back-to-back sequences on a multiplexed connection must not hurt the other namespaces.
// The peer has joined /a and /ab; it leaves /a and joins it again in two packets sent together (one polling
// payload / two consecutive websocket frames), several times. Afterwards /a (the new socket) and /ab must
// both answer, and the connection must still be open.
func runRawRejoin(run *vk.Run, transport string, rounds int) {
	run.Eval(1)
	srv, err := rig.NewServer(nil, "")
	if err != nil {
		run.Inconclusive(err.Error())
		return
	}
	defer srv.Close()
	var disc sync.Map
	for _, name := range []string{"/a", "/ab"} {
		name := name
		srv.IO.Of(name).OnConnection(func(s sio.ServerSocket) {
			s.OnEvent("ok", func(n int, ack func(int)) { ack(n) })
			s.OnDisconnect(func(r sio.Reason) { disc.Store(name+":"+string(s.ID()), string(r)) })
		})
	}
	peer, err := rawpeer.DialSIO(srv.URL, transport)
	if err != nil {
		run.Inconclusive(err.Error())
		return
	}
	defer peer.C.Abort()
	for _, name := range []string{"/a", "/ab"} {
		if res, err := peer.Connect(name, nil, 30*time.Second); err != nil || !res.OK {
			run.Inconclusive(fmt.Sprintf("raw connect %s: %v", name, err))
			return
		}
	}
	fields := map[string]any{"kind": "disconnect-then-connect-same-namespace", "transport": transport}
	probe := func(nsp string, id uint64) bool {
		peer.Emit(nsp, &id, "ok", json.Number(fmt.Sprint(id)))
		_, _, err := peer.WaitPacket(0, 15*time.Second, func(p *refcodec.Packet) bool {
			return p.Type == refcodec.Ack && p.Namespace == nsp && p.ID != nil && *p.ID == id
		})
		return err == nil
	}
	for round := 0; round < rounds; round++ {
		from := len(peer.Packets())
		f1, _ := refcodec.EncodeSIO(&refcodec.Packet{Type: refcodec.Disconnect, Namespace: "/a"})
		f2, _ := refcodec.EncodeSIO(&refcodec.Packet{Type: refcodec.Connect, Namespace: "/a"})
		peer.C.SendFrames(append(f1, f2...))
		wit := map[string]any{"transport": transport, "round": round, "sent_together": []string{string(f1[0]), string(f2[0])}}
		_, _, err := peer.WaitPacket(from, 15*time.Second, func(p *refcodec.Packet) bool {
			return (p.Type == refcodec.Connect || p.Type == refcodec.ConnectError) && p.Namespace == "/a"
		})
		if err != nil || peer.C.IsClosed() {
			wit["peer_close_reason"] = peer.C.CloseReason()
			run.Violation(vk.Violation{Sub: "collateral-disconnect", Fields: fields,
				What:    fmt.Sprintf("DISCONNECT /a directly followed by CONNECT /a (both valid) on a connection that also carries /ab: no CONNECT reply for /a (%v), connection closed=%v [%s, round %d]", err, peer.C.IsClosed(), transport, round),
				Witness: wit})
			return
		}
		if !probe("/ab", uint64(1000+round)) || !probe("/a", uint64(2000+round)) {
			run.Violation(vk.Violation{Sub: "collateral-disconnect", Fields: fields,
				What: fmt.Sprintf("after DISCONNECT /a + CONNECT /a sent together, /a or /ab no longer answers [%s, round %d]", transport, round), Witness: wit})
			return
		}
	}
	n := 0
	disc.Range(func(k, v any) bool {
		if strings.HasPrefix(k.(string), "/ab:") {
			n++
		}
		return true
	})
	if n > 0 {
		run.Violation(vk.Violation{Sub: "collateral-disconnect", Fields: fields, What: fmt.Sprintf("leaving and re-joining /a disconnected /ab (%d disconnect events)", n), Witness: map[string]any{"transport": transport}})
	}
	run.Distinct("raw/rejoin/" + transport)
}

// runRawRejected: a connection attached to "/" whose CONNECT for "/adm" was REJECTED — after a first middleware had
// already joined the socket to a room — belongs to "/" only. Nothing emitted in "/adm" afterwards (namespace-wide or
// to that room) may reach it.
func runRawRejected(run *vk.Run, transport string) {
	run.Eval(1)
	srv, err := rig.NewServer(nil, "")
	if err != nil {
		run.Inconclusive(err.Error())
		return
	}
	defer srv.Close()
	srv.IO.Of("/").OnConnection(func(s sio.ServerSocket) { s.OnEvent("ok", func(n int, ack func(int)) { ack(n) }) })
	adm := srv.IO.Of("/adm")
	adm.Use(func(s sio.ServerSocket, h *sio.Handshake) any { s.Join("tenant"); return nil })
	adm.Use(func(s sio.ServerSocket, h *sio.Handshake) any { return fmt.Errorf("not authorized") })
	peer, err := rawpeer.DialSIO(srv.URL, transport)
	if err != nil {
		run.Inconclusive(err.Error())
		return
	}
	defer peer.C.Abort()
	if res, err := peer.Connect("/", nil, 30*time.Second); err != nil || !res.OK {
		run.Inconclusive(fmt.Sprintf("raw connect /: %v", err))
		return
	}
	if res, err := peer.Connect("/adm", nil, 30*time.Second); err != nil || res.OK {
		run.Inconclusive("raw connect /adm was not rejected")
		return
	}
	for i := 0; i < 5; i++ {
		adm.Emit("report", "to-all")
		adm.To("tenant").Emit("report", "to-tenant")
	}
	id := uint64(77)
	peer.Emit("/", &id, "ok", json.Number("1"))
	if _, _, err := peer.WaitPacket(0, 15*time.Second, func(p *refcodec.Packet) bool { return p.Type == refcodec.Ack && p.ID != nil && *p.ID == id }); err != nil {
		run.Inconclusive("raw rejected: fence on / not acknowledged")
		return
	}
	leaked := 0
	first := ""
	for _, sp := range peer.Packets() {
		if sp.P.Namespace == "/adm" && (sp.P.Type == refcodec.Event || sp.P.Type == refcodec.BinaryEvent) {
			leaked++
			if first == "" {
				first = string(sp.Frames[0])
			}
		}
	}
	if leaked > 0 {
		run.Violation(vk.Violation{Sub: "cross-namespace-delivery", Fields: map[string]any{"where": "rejected-socket", "shared_connection": true},
			What:    fmt.Sprintf("a connection whose CONNECT for /adm was rejected (after a middleware had joined the socket to a room) received %d events of /adm, first %q [%s]", leaked, first, transport),
			Witness: map[string]any{"transport": transport, "first_frame": first}})
	}
	run.Distinct("raw/rejected-ghost/" + transport)
}

// a compliant client that answers the CONNECT reply immediately must not hit "invalid state"
func runAdmissionWindow(run *vk.Run, transport string, widen time.Duration, rounds int) {
	srv, err := rig.NewServer(nil, "")
	if err != nil {
		run.Inconclusive(err.Error())
		return
	}
	defer srv.Close()
	for _, name := range []string{"/", "/a"} {
		srv.IO.Of(name).OnConnection(func(s sio.ServerSocket) {
			s.OnEvent("ok", func(n int, ack func(int)) { ack(n) })
		})
	}
	if widen > 0 {
		sio.VerifHookSet(hookAdmit, func() { time.Sleep(widen) })
		defer sio.VerifHookSet(hookAdmit, nil)
	}
	before := sio.VerifHookHits(hookAdmit)
	for i := 0; i < rounds; i++ {
		run.Eval(1)
		peer, err := rawpeer.DialSIO(srv.URL, transport)
		if err != nil {
			run.Inconclusive(err.Error())
			return
		}
		nsp := []string{"/", "/a"}[i%2]
		res, err := peer.Connect(nsp, nil, 30*time.Second)
		if err != nil || !res.OK {
			peer.C.Abort()
			run.Inconclusive(fmt.Sprintf("admission window connect: %v", err))
			continue
		}
		// the CONNECT reply has arrived: the namespace is joined from the client's point of view
		id := uint64(7)
		peer.Emit(nsp, &id, "ok", json.Number("5"))
		_, _, err = peer.WaitPacket(0, 20*time.Second, func(p *refcodec.Packet) bool { return p.Type == refcodec.Ack && p.ID != nil && *p.ID == id })
		if err != nil {
			run.Violation(vk.Violation{Sub: "event-after-connect-reply-rejected", Fields: map[string]any{"transport": transport, "window_widened": widen > 0},
				What:    fmt.Sprintf("an event sent right after the CONNECT reply for %q was not acknowledged: %v (connection closed=%v): the reply is sent before the socket is registered on its connection", nsp, err, peer.C.IsClosed()),
				Witness: map[string]any{"transport": transport, "widen_ms": widen.Milliseconds(), "round": i}})
			peer.C.Abort()
			if widen > 0 {
				break
			}
			continue
		}
		peer.C.Close()
	}
	run.Count("admission_hook_hits", sio.VerifHookHits(hookAdmit)-before)
	run.Distinct(fmt.Sprintf("admission/%s/widen=%v", transport, widen > 0))
}

func main() {
	run := vk.Start("C05", "exploration")
	run.Rule("Go programs: namespace sets of size 1..4 drawn from 11 look-alike names (prefixes of one another, '' vs '/', digits, spaces, unicode, '?'), multiplexed on one Manager or on separate Managers, CONNECT reply order permuted by middleware delays, " +
		"40 interleaved steps {emit c->s, emit s->c, ack c->s, ack s->c, namespace broadcast} then a single-namespace disconnect and probes on the others; raw peer: 8 invalid packet kinds x transports; DISCONNECT + CONNECT of one namespace sent together on a connection carrying another one; concurrent bursts on all namespaces of a program; admission window with hook H4; " +
		"distinct = (client kind, shared connection?, namespace set)")
	run.Assume("every payload carries its namespace tag; the oracle is set membership on the recorded log")
	r := run.Rand("c05")
	nProg := run.Pick(400, 4000)
	if run.SubMode == "race" {
		nProg = 20
	}
	sem := make(chan struct{}, 8)
	var wg sync.WaitGroup
	for i := 0; i < nProg; i++ {
		n := 1 + i%4
		nsps := pickNsps(r, n)
		if i%5 == 0 { // always exercise the default namespace together with look-alikes
			has := false
			for _, x := range nsps {
				has = has || x == "/"
			}
			if !has {
				nsps[0] = "/"
			}
		}
		shared := i%3 != 0
		delays := [][]time.Duration{{0}, {0, 5 * time.Millisecond}, {8 * time.Millisecond, 0, 3 * time.Millisecond}}[i%3]
		transports := [][]string{{"websocket"}, {"polling"}, {"polling", "websocket"}}[i%3]
		pr := rand.New(rand.NewSource(r.Int63()))
		wg.Add(1)
		sem <- struct{}{}
		go func() {
			defer wg.Done()
			defer func() { <-sem }()
			runGoProgram(run, pr, nsps, shared, delays, transports)
		}()
	}
	wg.Wait()
	for _, tr := range []string{"websocket", "polling"} {
		runRawRejoin(run, tr, run.Pick(10, 60))
		runRawRejected(run, tr)
	}
	for _, tr := range []string{"websocket", "polling"} {
		for _, kind := range []string{"event-unjoined-root", "event-unjoined-prefix", "event-unknown-namespace", "ack-unjoined", "disconnect-unjoined", "event-while-connect-parked", "connect-error-from-client", "connect-twice"} {
			wg.Add(1)
			sem <- struct{}{}
			go func(kind, tr string) {
				defer wg.Done()
				defer func() { <-sem }()
				runRawInvalid(run, kind, tr)
			}(kind, tr)
		}
	}
	wg.Wait()
	for _, tr := range [][]string{{"websocket"}, {"polling"}, {"polling", "websocket"}} {
		for _, how := range []string{"refused", "client-disconnect", "server-disconnect"} {
			for _, d := range []time.Duration{150 * time.Millisecond, 400 * time.Millisecond} {
				wg.Add(1)
				sem <- struct{}{}
				go func(tr []string, how string, d time.Duration) {
					defer wg.Done()
					defer func() { <-sem }()
					runPendingWhileOtherEnds(run, tr, how, d)
				}(tr, how, d)
			}
		}
	}
	wg.Wait()
	// admission window: unforced, then widened through the hook (sequential: the hook is process-global)
	runAdmissionWindow(run, "websocket", 0, run.Pick(1500, 15000))
	runAdmissionWindow(run, "polling", 0, run.Pick(400, 4000))
	runAdmissionWindow(run, "websocket", 3*time.Millisecond, run.Pick(10, 50))
	runAdmissionWindow(run, "polling", 3*time.Millisecond, run.Pick(10, 50))
	if bin := os.Getenv("VERIF_RACE_BIN"); bin != "" && run.Thorough() && run.SubMode == "" {
		if s, err := vk.RunSub(bin, "race", run, 20*time.Minute); err != nil {
			run.Inconclusive("race sub-pass: " + err.Error())
		} else {
			run.Merge("race:", s)
		}
	}
	run.Finish()
}
