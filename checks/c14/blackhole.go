package main

// A local, stricter variant of sioverif/internal/proxy (only what C14 needs): a loopback TCP
// relay that can silently black-hole either direction of all current AND future connections.
// Differences to the shared proxy, all in the direction of a more faithful "dead link":
//   - a TCP close (FIN/RST) arriving from one side is NOT propagated to the other side while that
//     direction is black-holed: on a dead link the peer does not learn that the other end gave up;
//   - BlackholeAll and the registration of a new connection are serialised, so no connection
//     can slip between "default set" and "existing connections updated";
//   - the black-hole flag is tested and the chunk written under one lock: once BlackholeAll has
//     returned, not a single further byte is forwarded in a black-holed direction.

import (
	"bytes"
	"net"
	"sync"
	"time"
)

const (
	dirC2S = 0
	dirS2C = 1
)

type bhProxy struct {
	Addr   string
	target string
	l      net.Listener

	// OnConn is called once per accepted connection after its first client chunk was read
	// (Head) and before anything is forwarded. Set it before the first connection.
	OnConn func(c *bhConn)

	mu     sync.Mutex
	conns  []*bhConn
	def    [2]bool
	closed bool

	dmu   sync.Mutex
	drops []drop
}

// drop is one chunk that was swallowed by the black hole.
type drop struct {
	at   time.Time
	conn int
	dir  int
	n    int
	head byte
}

func (p *bhProxy) noteDrop(c *bhConn, dir int, chunk []byte) {
	p.dmu.Lock()
	if len(p.drops) < 24 && len(chunk) > 0 {
		p.drops = append(p.drops, drop{time.Now(), c.id, dir, len(chunk), chunk[0]})
	}
	p.dmu.Unlock()
}

func (p *bhProxy) Drops() []drop {
	p.dmu.Lock()
	defer p.dmu.Unlock()
	return append([]drop(nil), p.drops...)
}

type bhConn struct {
	Head []byte
	id   int
	p    *bhProxy
	cl   net.Conn
	sv   net.Conn

	mu        sync.Mutex
	cond      *sync.Cond
	stall     bool
	blackhole [2]bool
	eof       [2]bool
	deadTo    [2]bool
	closed    bool
	fwd       [2]int64
	dropped   [2]int64
}

func newBHProxy(target string) (*bhProxy, error) {
	l, err := net.Listen("tcp", "127.0.0.1:0")
	if err != nil {
		return nil, err
	}
	p := &bhProxy{Addr: l.Addr().String(), target: target, l: l}
	go func() {
		for {
			c, err := l.Accept()
			if err != nil {
				return
			}
			go p.handle(c)
		}
	}()
	return p, nil
}

func (p *bhProxy) URL(path string) string { return "http://" + p.Addr + path }

func (p *bhProxy) handle(cl net.Conn) {
	sv, err := net.DialTimeout("tcp", p.target, 5*time.Second)
	if err != nil {
		cl.Close()
		return
	}
	c := &bhConn{cl: cl, sv: sv, p: p}
	c.cond = sync.NewCond(&c.mu)
	p.mu.Lock()
	if p.closed {
		p.mu.Unlock()
		cl.Close()
		sv.Close()
		return
	}
	c.blackhole = p.def
	p.conns = append(p.conns, c)
	c.id = len(p.conns)
	p.mu.Unlock()

	buf := make([]byte, 32<<10)
	n, err := cl.Read(buf)
	if n == 0 && err != nil {
		c.Close()
		return
	}
	c.Head = append([]byte(nil), buf[:n]...)
	if p.OnConn != nil {
		p.OnConn(c)
	}
	go c.pump(dirS2C, sv, cl, nil)
	c.pump(dirC2S, cl, sv, buf[:n])
}

func (c *bhConn) pump(dir int, from, to net.Conn, first []byte) {
	buf := make([]byte, 32<<10)
	for {
		var chunk []byte
		if first != nil {
			chunk, first = first, nil
		} else {
			n, err := from.Read(buf)
			if n == 0 && err != nil {
				c.mu.Lock()
				c.eof[dir] = true
				swallow := c.blackhole[dir] && !(c.eof[0] && c.eof[1])
				c.mu.Unlock()
				if !swallow {
					c.Close()
				}
				return
			}
			chunk = buf[:n]
		}
		c.mu.Lock()
		for c.stall && !c.closed {
			c.cond.Wait()
		}
		if c.closed {
			c.mu.Unlock()
			return
		}
		if c.blackhole[dir] || c.deadTo[dir] {
			c.dropped[dir] += int64(len(chunk))
			c.mu.Unlock()
			c.p.noteDrop(c, dir, chunk)
			continue
		}
		_, err := to.Write(chunk) // loopback, tiny frames: does not block
		if err == nil {
			c.fwd[dir] += int64(len(chunk))
		}
		// The receiver is gone. Its RST would travel in the opposite direction: if that
		// direction is black-holed the sender must not learn about it.
		hide := err != nil && c.blackhole[1-dir]
		if hide {
			c.deadTo[dir] = true
		}
		c.mu.Unlock()
		if err != nil && !hide {
			c.Close()
			return
		}
	}
}

func (c *bhConn) Close() {
	c.mu.Lock()
	if c.closed {
		c.mu.Unlock()
		return
	}
	c.closed = true
	c.cond.Broadcast()
	c.mu.Unlock()
	c.cl.Close()
	c.sv.Close()
}

func (c *bhConn) IsWS() bool {
	return bytes.Contains(bytes.ToLower(c.Head), []byte("upgrade: websocket"))
}

// HasSID reports whether the first request carries a session id (i.e. is not a handshake).
func (c *bhConn) HasSID() bool {
	i := bytes.Index(c.Head, []byte("\r\n"))
	if i < 0 {
		i = len(c.Head)
	}
	return bytes.Contains(c.Head[:i], []byte("sid="))
}

func (c *bhConn) SetBlackhole(c2s, s2c bool) {
	c.mu.Lock()
	c.blackhole[dirC2S], c.blackhole[dirS2C] = c2s, s2c
	c.mu.Unlock()
}

// SetStall holds (true) or resumes (false) forwarding without losing bytes.
func (c *bhConn) SetStall(on bool) { c.mu.Lock(); c.stall = on; c.cond.Broadcast(); c.mu.Unlock() }

func (p *bhProxy) Conns() []*bhConn {
	p.mu.Lock()
	defer p.mu.Unlock()
	return append([]*bhConn(nil), p.conns...)
}

// BlackholeAll applies to all current and future connections. When it returns nothing is
// forwarded any more in the chosen directions.
func (p *bhProxy) BlackholeAll(c2s, s2c bool) {
	p.mu.Lock()
	p.def = [2]bool{c2s, s2c}
	cs := append([]*bhConn(nil), p.conns...)
	p.mu.Unlock()
	for _, c := range cs {
		c.SetBlackhole(c2s, s2c)
	}
}

// Traffic returns bytes forwarded and dropped per direction over all connections.
func (p *bhProxy) Traffic() (fwd, dropped [2]int64) {
	for _, c := range p.Conns() {
		c.mu.Lock()
		for d := 0; d < 2; d++ {
			fwd[d] += c.fwd[d]
			dropped[d] += c.dropped[d]
		}
		c.mu.Unlock()
	}
	return
}

func (p *bhProxy) Close() {
	p.mu.Lock()
	if p.closed {
		p.mu.Unlock()
		return
	}
	p.closed = true
	cs := append([]*bhConn(nil), p.conns...)
	p.mu.Unlock()
	p.l.Close()
	for _, c := range cs {
		c.Close()
	}
}
