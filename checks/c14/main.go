// C14 — heartbeats detect a dead peer within the configured bound, never kill a live one.
//
// Rig: a real Engine.IO server and the real Go Engine.IO client, connected THROUGH a TCP
// fault proxy (blackhole.go: a stricter local variant of internal/proxy in which not even a
// FIN/RST crosses a black-holed direction). Both sides' OnPacket / OnError / OnClose callbacks
// are recorded with monotonic time stamps.
//
// DEAD PEER (fault enumeration): at instant t0 the proxy silently black-holes the link (TCP
// stays open, nothing is forwarded any more, neither on the existing nor on new connections) in
// both directions or in one direction only. t0 is swept over the heartbeat schedule: time
// anchored (before the first ping, just before a ping) and event anchored (inside the client's
// callback that sees the ping, i.e. before its pong leaves; inside the server's callback that
// sees the pong), on polling, websocket, after a polling->websocket upgrade and at sub-steps
// DURING the upgrade (the websocket upgrade connection is recognised by the proxy).
// Oracle, per side:
//   - a side that can no longer hear its peer must have run its OnClose by
//     t0 + pingInterval + pingTimeout + 1.5 s (Sub late-close / no-close), and its reason must be
//     "ping timeout" (separate Sub wrong-reason);
//   - a side that still hears the peer may close for any reason: the server by
//     t0 + pingInterval + 2 pingTimeout + 1.5 s, the client by max(that, last ping it actually
//     received + pingInterval + pingTimeout + 1.5 s) (the client's watchdog is re-armed by every
//     ping, and in the c2s-only case one more ping reaches it after t0);
//   - nobody closes before t0 (the peer was answering), and a "ping timeout" close never comes
//     earlier than pingInterval + pingTimeout after the last heartbeat packet the side received
//     (Sub premature-timeout).
//
// LIVE PEER: un-faulted connections, idle or with application traffic at phase offsets relative
// to the ping schedule, observed for 5 pingIntervals + pingTimeout: any OnClose / OnError on
// either side is a violation (Sub live-peer-closed).
//
// Three-valued: a 5 ms ticker canary runs next to the trials; a trial during which it saw a
// stall > 250 ms (or > 750 ms in total) is inconclusive and retried (2 retries), never a violation.
package main

import (
	"fmt"
	"math"
	"sort"
	"strings"
	"sync"
	"sync/atomic"
	"time"

	eio "github.com/karagenc/socket.io-go/engine.io"
	"github.com/karagenc/socket.io-go/engine.io/parser"
	"nhooyr.io/websocket"

	"sioverif/internal/proxy"
	"sioverif/internal/rig"
	"sioverif/internal/vk"
)

const (
	slack      = 1500 * time.Millisecond
	canaryTick = 5 * time.Millisecond
	stallMax   = 250 * time.Millisecond
	stallSum   = 750 * time.Millisecond
	// how long past the latest possible deadline a trial keeps watching a side that has not closed
	observeCap = 8 * time.Second
	maxRetries = 2
	pingReason = string(eio.ReasonPingTimeout)
)

// ---------------------------------------------------------------- canary

type gap struct {
	at time.Time // when the late tick was observed
	d  time.Duration
}

type canary struct {
	mu    sync.Mutex
	gaps  []gap
	ticks atomic.Int64
	worst atomic.Int64
}

func startCanary() *canary {
	c := &canary{}
	go func() {
		last := time.Now()
		for {
			time.Sleep(canaryTick)
			now := time.Now()
			d := now.Sub(last) - canaryTick
			if d > 20*time.Millisecond {
				c.mu.Lock()
				c.gaps = append(c.gaps, gap{now, d})
				c.mu.Unlock()
			}
			if int64(d) > c.worst.Load() {
				c.worst.Store(int64(d))
			}
			last = now
			c.ticks.Add(1)
		}
	}()
	return c
}

// stall returns the largest single stall and the summed stall that overlap [from, to].
func (c *canary) stall(from, to time.Time) (max, sum time.Duration) {
	c.mu.Lock()
	defer c.mu.Unlock()
	for _, g := range c.gaps {
		begin := g.at.Add(-g.d - canaryTick)
		if g.at.Before(from) || begin.After(to) {
			continue
		}
		if g.d > max {
			max = g.d
		}
		sum += g.d
	}
	return
}

// ---------------------------------------------------------------- recorders

type endpoint struct {
	side     string
	beatType parser.PacketType // client: ping received; server: pong received
	hook     func(n int)       // set before dialing; runs synchronously on the library's goroutine

	mu       sync.Mutex
	beats    []time.Time
	msgs     int
	closed   bool
	closeAt  time.Time
	reason   string
	closeErr string
	errs     []string
	errAt    []time.Time
	ended    bool
}

func (e *endpoint) callbacks() *eio.Callbacks {
	return &eio.Callbacks{
		OnPacket: func(ps ...*parser.Packet) {
			for _, p := range ps {
				switch p.Type {
				case e.beatType:
					now := time.Now()
					e.mu.Lock()
					e.beats = append(e.beats, now)
					n := len(e.beats)
					ended := e.ended
					e.mu.Unlock()
					if e.hook != nil && !ended {
						e.hook(n)
					}
				case parser.PacketTypeMessage:
					e.mu.Lock()
					e.msgs++
					e.mu.Unlock()
				}
			}
		},
		OnError: func(err error) {
			now := time.Now()
			e.mu.Lock()
			if !e.ended && len(e.errs) < 8 {
				e.errs = append(e.errs, fmt.Sprint(err))
				e.errAt = append(e.errAt, now)
			}
			e.mu.Unlock()
		},
		OnClose: func(reason eio.Reason, err error) {
			now := time.Now()
			e.mu.Lock()
			if !e.ended && !e.closed {
				e.closed, e.closeAt, e.reason = true, now, string(reason)
				if err != nil {
					e.closeErr = err.Error()
				}
			}
			e.mu.Unlock()
		},
	}
}

type snap struct {
	beats    []time.Time
	msgs     int
	closed   bool
	closeAt  time.Time
	reason   string
	closeErr string
	errs     []string
	errAt    []time.Time
}

func (e *endpoint) snapshot() snap {
	e.mu.Lock()
	defer e.mu.Unlock()
	return snap{append([]time.Time(nil), e.beats...), e.msgs, e.closed, e.closeAt, e.reason, e.closeErr,
		append([]string(nil), e.errs...), append([]time.Time(nil), e.errAt...)}
}

func (e *endpoint) isClosed() bool { e.mu.Lock(); defer e.mu.Unlock(); return e.closed }
func (e *endpoint) end()           { e.mu.Lock(); e.ended = true; e.mu.Unlock() }

// events: named one-shot events with an optional action that runs synchronously on the
// signalling goroutine (that is how the black-hole is placed "before the pong leaves").
type events struct {
	mu   sync.Mutex
	ch   map[string]chan struct{}
	at   map[string]time.Time
	sync map[string]func()
}

func newEvents() *events {
	return &events{ch: map[string]chan struct{}{}, at: map[string]time.Time{}, sync: map[string]func(){}}
}

func (e *events) chanOf(name string) chan struct{} {
	c, ok := e.ch[name]
	if !ok {
		c = make(chan struct{})
		e.ch[name] = c
	}
	return c
}

func (e *events) signal(name string) {
	e.mu.Lock()
	if _, done := e.at[name]; done {
		e.mu.Unlock()
		return
	}
	e.at[name] = time.Now()
	f := e.sync[name]
	c := e.chanOf(name)
	e.mu.Unlock()
	if f != nil {
		f()
	}
	close(c)
}

func (e *events) has(name string) bool {
	e.mu.Lock()
	defer e.mu.Unlock()
	_, ok := e.at[name]
	return ok
}

func (e *events) when(name string) (time.Time, bool) {
	e.mu.Lock()
	defer e.mu.Unlock()
	t, ok := e.at[name]
	return t, ok
}

func (e *events) waitFor(name string, d time.Duration) bool {
	e.mu.Lock()
	c := e.chanOf(name)
	e.mu.Unlock()
	select {
	case <-c:
		return true
	case <-time.After(d):
		return false
	}
}

// wait blocks until the event happened or stop is closed.
func (e *events) wait(name string, stop <-chan struct{}) bool {
	e.mu.Lock()
	c := e.chanOf(name)
	e.mu.Unlock()
	select {
	case <-c:
		return true
	case <-stop:
		return false
	}
}

// ---------------------------------------------------------------- trial specs

type spec struct {
	id      int
	kind    string // dead | live
	mode    string // polling | websocket | upgraded | upgrading
	dir     string // both | c2s | s2c
	pi, pt  time.Duration
	phase   int
	traffic string  // live only
	jit     float64 // seed-determined, [0,1)
}

func (s *spec) String() string {
	if s.kind == "live" {
		return fmt.Sprintf("live/%s/%s/pi=%v,pt=%v", s.mode, s.traffic, s.pi, s.pt)
	}
	return fmt.Sprintf("dead/%s/%s/pi=%v,pt=%v/phase=%d", s.mode, s.dir, s.pi, s.pt, s.phase)
}

func (s *spec) witness() map[string]any {
	return map[string]any{"kind": s.kind, "transport": s.mode, "direction": s.dir, "ping_interval_ms": s.pi.Milliseconds(),
		"ping_timeout_ms": s.pt.Milliseconds(), "phase": s.phase, "phase_name": phaseName(s), "traffic": s.traffic, "jitter": s.jit}
}

func (s *spec) transports() []string {
	switch s.mode {
	case "polling":
		return []string{"polling"}
	case "websocket":
		return []string{"websocket"}
	}
	return []string{"polling", "websocket"}
}

// plan: where the black-hole goes.
type plan struct {
	anchor string        // est | cping1 | spong1 | cping2 | spong2 | wsconn | release | updone | flip
	delay  time.Duration // 0 on an event anchor = synchronously inside the event
	hold   bool          // upgrading: keep the websocket upgrade connection stalled until just before the first ping
	name   string
}

func ms(f float64) time.Duration { return time.Duration(f * float64(time.Millisecond)) }

func phasePlan(s *spec) plan {
	pi := float64(s.pi) / float64(time.Millisecond)
	j := s.jit
	if s.mode == "upgrading" {
		sub := s.phase % 5
		p := plan{hold: s.phase >= 5}
		pre := ""
		if p.hold {
			pre = "held-until-first-ping:"
		}
		switch sub {
		case 0:
			if p.hold {
				p.anchor, p.name = "holdend", pre+"ws-upgrade-request-never-forwarded"
			} else {
				p.anchor, p.name = "wsconn", "ws-upgrade-request-arrives"
			}
		case 1:
			p.anchor, p.delay, p.name = "wsconn", ms(0.2+1.8*j), "mid-upgrade-handshake"
			if p.hold {
				p.anchor, p.name = "release", pre+"mid-upgrade-handshake"
			}
		case 2:
			p.anchor, p.name = "updone", pre+"client-upgrade-done"
		case 3:
			p.anchor, p.name = "flip", pre+"server-switched-transport"
		case 4:
			// the probe has been answered (about a millisecond after the websocket request) and the client waits for
			// its pending poll to be released by the server's next NOOP (100 ms later): the link dies in between
			p.anchor, p.delay, p.name = "wsconn", ms(10+70*j), "probe-answered-poll-still-pending"
			if p.hold {
				p.anchor, p.name = "release", pre+"probe-answered-poll-still-pending"
			}
		}
		return p
	}
	switch s.phase {
	case 0:
		return plan{anchor: "est", delay: ms((0.15 + 0.5*j) * pi), name: "before-first-ping"}
	case 1:
		return plan{anchor: "est", delay: ms(pi - (10 + 50*j)), name: "just-before-first-ping"}
	case 2:
		return plan{anchor: "cping1", name: "ping1-at-client-before-pong"}
	case 3:
		return plan{anchor: "spong1", name: "pong1-at-server"}
	case 4:
		return plan{anchor: "spong1", delay: ms((0.3 + 0.4*j) * pi), name: "mid-second-period"}
	case 5:
		return plan{anchor: "spong1", delay: ms(pi - (10 + 50*j)), name: "just-before-second-ping"}
	case 6:
		return plan{anchor: "cping2", name: "ping2-at-client-before-pong"}
	default:
		return plan{anchor: "spong2", delay: ms(1 + 0.2*j*pi), name: "after-pong2"}
	}
}

func phaseName(s *spec) string {
	if s.kind != "dead" {
		return ""
	}
	return phasePlan(s).name
}

// ---------------------------------------------------------------- results

type finding struct {
	v vk.Violation
}

type sideVerdict struct {
	side      string
	deaf      bool
	closed    bool
	reason    string
	latency   time.Duration // close - t0 (upper estimate: measured from before the black-hole call)
	deadline  time.Duration // deadline - t0
	late      bool
	watchdog  time.Duration // "ping timeout" closes: OnClose - (last heartbeat packet received + pi + pt); live: max ping gap
	hasWatchd bool
}

type result struct {
	sp       *spec
	incon    string
	findings []finding
	class    string
	sides    []sideVerdict
	sample   map[string]any
	wall     time.Duration
	pings    int
}

func rel(t, t0 time.Time) float64 {
	return math.Round(float64(t.Sub(t0))/float64(time.Millisecond)*10) / 10
}

func relAll(ts []time.Time, t0 time.Time) []float64 {
	out := make([]float64, 0, len(ts))
	for _, t := range ts {
		out = append(out, rel(t, t0))
	}
	return out
}

var cleanup sync.WaitGroup

func newDialOptions() *websocket.DialOptions {
	return &websocket.DialOptions{CompressionMode: websocket.CompressionDisabled}
}

// ---------------------------------------------------------------- dead-peer trial

func deadTrial(cn *canary, sp *spec) *result {
	res := &result{sp: sp}
	start := time.Now()
	pl := phasePlan(sp)
	ev := newEvents()
	stop := make(chan struct{})
	var stopOnce sync.Once
	halt := func() { stopOnce.Do(func() { close(stop) }) }

	srvEP := &endpoint{side: "server", beatType: parser.PacketTypePong}
	cliEP := &endpoint{side: "client", beatType: parser.PacketTypePing}
	srvEP.hook = func(n int) { ev.signal(fmt.Sprintf("spong%d", n)) }
	cliEP.hook = func(n int) { ev.signal(fmt.Sprintf("cping%d", n)) }

	var ssv atomic.Value
	srv, err := rig.NewEIOServer(func(s eio.ServerSocket) *eio.Callbacks {
		if ssv.CompareAndSwap(nil, s) {
			ev.signal("est")
		}
		return srvEP.callbacks()
	}, &eio.ServerConfig{PingInterval: sp.pi, PingTimeout: sp.pt})
	if err != nil {
		res.incon = "cannot start server: " + err.Error()
		return res
	}
	px, err := newBHProxy(srv.Addr)
	if err != nil {
		srv.Close()
		res.incon = "cannot start proxy: " + err.Error()
		return res
	}
	c2s, s2c := sp.dir != "s2c", sp.dir != "c2s"

	// the fault
	var (
		fireOnce       sync.Once
		t0lo, t0hi     time.Time
		fired          = make(chan struct{})
		upgradedAtFire bool
		srvTransport   string
	)
	fire := func() {
		fireOnce.Do(func() {
			upgradedAtFire = ev.has("updone") && ev.has("flip")
			if s, ok := ssv.Load().(eio.ServerSocket); ok && sp.mode != "upgrading" {
				srvTransport = s.TransportName()
			}
			t0lo = time.Now()
			px.BlackholeAll(c2s, s2c)
			t0hi = time.Now()
			close(fired)
		})
	}

	var cl eio.ClientSocket
	var clMu sync.Mutex
	defer func() {
		halt()
		srvEP.end()
		cliEP.end()
		cleanup.Add(1)
		go func() {
			defer cleanup.Done()
			clMu.Lock()
			c := cl
			clMu.Unlock()
			if c != nil {
				c.Close()
			}
			px.Close()
			srv.Close()
		}()
	}()

	// placement
	var heldConn atomic.Value
	if pl.delay == 0 && pl.anchor != "holdend" {
		ev.sync[pl.anchor] = fire
	} else if pl.anchor != "holdend" {
		go func() {
			if ev.wait(pl.anchor, stop) {
				at, _ := ev.when(pl.anchor)
				sleepUntil(at.Add(pl.delay), stop)
				select {
				case <-stop:
				default:
					fire()
				}
			}
		}()
	}
	if sp.mode == "upgrading" {
		px.OnConn = func(c *bhConn) {
			if c.IsWS() && c.HasSID() && !ev.has("wsconn") {
				if pl.hold {
					c.SetStall(true)
					heldConn.Store(c)
				}
				ev.signal("wsconn")
			}
		}
		if pl.hold {
			go func() {
				if !ev.wait("est", stop) || !ev.wait("wsconn", stop) {
					return
				}
				est, _ := ev.when("est")
				sleepUntil(est.Add(sp.pi-ms(20+40*sp.jit)), stop)
				select {
				case <-stop:
					return
				default:
				}
				c := heldConn.Load().(*bhConn)
				if pl.anchor == "holdend" {
					fire()
					c.SetStall(false)
					return
				}
				c.SetStall(false)
				ev.signal("release")
			}()
		}
	}
	if sp.mode == "upgraded" || sp.mode == "upgrading" {
		go func() { // server-side transport switch
			if !ev.wait("est", stop) {
				return
			}
			s := ssv.Load().(eio.ServerSocket)
			for {
				if s.TransportName() == "websocket" {
					ev.signal("flip")
					return
				}
				select {
				case <-stop:
					return
				case <-time.After(200 * time.Microsecond):
				}
			}
		}()
	}

	dialStart := time.Now()
	c, err := eio.Dial(px.URL("/engine.io/"), cliEP.callbacks(), &eio.ClientConfig{
		Transports:           sp.transports(),
		UpgradeDone:          func(string) { ev.signal("updone") },
		WebSocketDialOptions: newDialOptions(),
	})
	if err != nil {
		res.incon = "dial failed: " + err.Error()
		return res
	}
	clMu.Lock()
	cl = c
	clMu.Unlock()
	// (over websocket the server writes the OPEN packet before it announces the socket)
	if !ev.waitFor("est", 10*time.Second) {
		res.incon = "client connected but the server did not announce a socket within 10 s"
		return res
	}
	est, _ := ev.when("est")

	// wait for the black-hole instant
	anchorLimit := est.Add(3*sp.pi + 6*time.Second)
	for {
		select {
		case <-fired:
		case <-time.After(5 * time.Millisecond):
			if (srvEP.isClosed() && cliEP.isClosed()) || time.Now().After(anchorLimit) {
				// make sure fire cannot run any more, then look again
				halt()
				fireOnce.Do(func() {})
			} else {
				continue
			}
		}
		break
	}
	didFire := false
	select {
	case <-fired:
		didFire = true
	default:
	}

	bound := sp.pi + sp.pt
	if didFire {
		hard := t0hi.Add(2*sp.pi + 2*sp.pt + slack + observeCap)
		for !(srvEP.isClosed() && cliEP.isClosed()) && time.Now().Before(hard) {
			time.Sleep(5 * time.Millisecond)
		}
	}
	end := time.Now()
	res.wall = end.Sub(start)
	ss, cs := srvEP.snapshot(), cliEP.snapshot()
	res.pings = len(cs.beats)

	if mx, sum := cn.stall(start, end); mx > stallMax || sum > stallSum {
		res.incon = fmt.Sprintf("scheduler canary: max stall %v, total %v during the trial", mx.Round(time.Millisecond), sum.Round(time.Millisecond))
		return res
	}

	wit := sp.witness()
	// the transport each side is on when it is judged (after an upgrade attempt this is not determined by the mode)
	on := map[string]string{"server": "?", "client": "?"}
	var onMu sync.Mutex
	vk.Watchdog(time.Second, func() { // TransportName takes the socket's transport lock
		n := c.TransportName()
		onMu.Lock()
		on["client"] = n
		onMu.Unlock()
		if s, ok := ssv.Load().(eio.ServerSocket); ok {
			n = s.TransportName()
			onMu.Lock()
			on["server"] = n
			onMu.Unlock()
		}
	})
	onMu.Lock()
	on = map[string]string{"server": on["server"], "client": on["client"]}
	onMu.Unlock()
	fields := func(side string, extra ...string) map[string]any {
		m := map[string]any{"side": side, "transport": sp.mode, "direction": sp.dir, "on": on[side]}
		for i := 0; i+1 < len(extra); i += 2 {
			m[extra[i]] = extra[i+1]
		}
		return m
	}
	add := func(sub string, f map[string]any, what string) {
		res.findings = append(res.findings, finding{vk.Violation{Sub: sub, Fields: f, What: sp.String() + " [" + pl.name + "]: " + what, Witness: wit}})
	}

	if !didFire {
		wit["timeline_ms_after_establishment"] = map[string]any{
			"server_close": closeRel(ss, est), "client_close": closeRel(cs, est),
			"pings_at_client": relAll(cs.beats, est), "pongs_at_server": relAll(ss.beats, est),
			"server_errors": ss.errs, "client_errors": cs.errs}
		if ss.closed || cs.closed {
			// the link was healthy: nobody may close
			for _, x := range []struct {
				n string
				s snap
			}{{"server", ss}, {"client", cs}} {
				if x.s.closed {
					add("live-peer-closed", fields(x.n, "reason", x.s.reason, "context", "before-fault"),
						fmt.Sprintf("%s closed (%s %s) %v after establishment although the link was healthy and the black-hole had not been placed yet", x.n, x.s.reason, x.s.closeErr, x.s.closeAt.Sub(est).Round(time.Millisecond)))
				}
			}
			res.class = "closed-before-fault"
			return res
		}
		res.incon = fmt.Sprintf("black-hole anchor %q not reached within %v (pings at client %d, pongs at server %d, client errors %v)", pl.anchor, anchorLimit.Sub(est), len(cs.beats), len(ss.beats), cs.errs)
		return res
	}
	if sp.mode == "upgraded" && (!upgradedAtFire || srvTransport != "websocket") {
		res.incon = "upgrade had not completed at the black-hole instant"
		return res
	}

	fwdB, dropB := px.Traffic()
	timeline := map[string]any{
		"t0":                           "black-hole placed (all times in ms relative to it)",
		"established":                  rel(est, t0hi),
		"blackhole_call_took_ms":       rel(t0hi, t0lo),
		"pings_at_client":              relAll(cs.beats, t0hi),
		"pongs_at_server":              relAll(ss.beats, t0hi),
		"server_close":                 closeRel(ss, t0hi),
		"client_close":                 closeRel(cs, t0hi),
		"server_errors":                ss.errs,
		"client_errors":                cs.errs,
		"bound_ms":                     bound.Milliseconds(),
		"slack_ms":                     slack.Milliseconds(),
		"observation_ended_ms":         rel(end, t0hi),
		"proxy_connections":            len(px.Conns()),
		"proxy_bytes_forwarded":        map[string]int64{"c2s": fwdB[0], "s2c": fwdB[1]},
		"proxy_bytes_blackholed":       map[string]int64{"c2s": dropB[0], "s2c": dropB[1]},
		"blackholed_chunks":            dropList(px, t0hi),
		"server_on":                    on["server"],
		"client_on":                    on["client"],
		"server_transport_at_t0":       srvTransport,
		"client_upgrade_done_at_t0":    upgradedAtFire,
		"canary_worst_stall_so_far_ms": time.Duration(cn.worst.Load()).Milliseconds(),
	}
	wit["timeline"] = timeline

	var classParts []string
	for _, x := range []struct {
		n    string
		s    snap
		deaf bool
	}{{"server", ss, c2s}, {"client", cs, s2c}} {
		sv := sideVerdict{side: x.n, deaf: x.deaf, closed: x.s.closed, reason: x.s.reason}
		// deadline
		var deadline time.Time
		rule := ""
		switch {
		case x.deaf:
			deadline = t0hi.Add(bound + slack)
			rule = "t0 + pingInterval + pingTimeout + slack (cannot hear its peer)"
		case x.n == "server":
			deadline = t0hi.Add(bound + sp.pt + slack)
			rule = "t0 + pingInterval + 2 pingTimeout + slack (still hears its peer)"
		default:
			deadline = t0hi.Add(bound + sp.pt + slack)
			rule = "t0 + pingInterval + 2 pingTimeout + slack (still hears its peer)"
			if n := len(x.s.beats); n > 0 {
				if d := x.s.beats[n-1].Add(bound + slack); d.After(deadline) {
					deadline = d
					rule = "last ping received + pingInterval + pingTimeout + slack (still hears its peer; a ping arrived after t0)"
				}
			}
		}
		sv.deadline = deadline.Sub(t0hi)
		role := "hearing"
		if x.deaf {
			role = "deaf"
		}
		if !x.s.closed {
			sv.late = true
			add("no-close", fields(x.n, "role", role),
				fmt.Sprintf("%s (%s) had not closed %v after the black-hole (deadline %v = %s; observation ended there)", x.n, role, end.Sub(t0hi).Round(time.Millisecond), sv.deadline.Round(time.Millisecond), rule))
			classParts = append(classParts, x.n[:1]+"=never")
			res.sides = append(res.sides, sv)
			continue
		}
		sv.latency = x.s.closeAt.Sub(t0lo)
		if x.s.closeAt.Before(t0lo) {
			add("live-peer-closed", fields(x.n, "reason", x.s.reason, "context", "before-fault"),
				fmt.Sprintf("%s closed (%s %s) %v BEFORE the black-hole was placed, while the peer was answering", x.n, x.s.reason, x.s.closeErr, t0lo.Sub(x.s.closeAt).Round(time.Millisecond)))
			classParts = append(classParts, x.n[:1]+"=early:"+x.s.reason)
			res.sides = append(res.sides, sv)
			continue
		}
		// For a "ping timeout" close the side's own heartbeat deadline is known: pingInterval + pingTimeout after
		// the last heartbeat packet it received (server: pong -> sleep pingInterval -> ping -> wait pingTimeout).
		hb := ""
		anchor, anchorWhat := dialStart, "the dial started"
		if x.s.reason == pingReason {
			for _, b := range x.s.beats {
				if b.Before(x.s.closeAt) {
					anchor = b
					anchorWhat = "its last " + map[string]string{"server": "pong", "client": "ping"}[x.n] + " arrived"
				}
			}
			sv.watchdog, sv.hasWatchd = x.s.closeAt.Sub(anchor)-bound, true
			hb = fmt.Sprintf("; OnClose ran %v after this side's own heartbeat deadline (%s + pingInterval + pingTimeout)", sv.watchdog.Round(time.Millisecond), anchorWhat)
			timeline[x.n+"_onclose_after_own_heartbeat_deadline_ms"] = sv.watchdog.Milliseconds()
		}
		timing := "ok"
		if x.s.closeAt.After(deadline) {
			sv.late = true
			timing = "late"
			add("late-close", fields(x.n, "role", role, "reason", x.s.reason),
				fmt.Sprintf("%s (%s) ran OnClose(%s) %v after the black-hole; deadline %v = %s; excess %v%s", x.n, role, x.s.reason,
					x.s.closeAt.Sub(t0hi).Round(time.Millisecond), sv.deadline.Round(time.Millisecond), rule, x.s.closeAt.Sub(deadline).Round(time.Millisecond), hb))
		}
		if x.deaf && x.s.reason != pingReason {
			add("wrong-reason", fields(x.n, "reason", x.s.reason),
				fmt.Sprintf("%s cannot hear its peer and closed %v after the black-hole with reason %q (%s), not %q", x.n, x.s.closeAt.Sub(t0hi).Round(time.Millisecond), x.s.reason, x.s.closeErr, pingReason))
		}
		// premature "ping timeout": never earlier than pingInterval+pingTimeout after the last heartbeat packet this side saw
		if x.s.reason == pingReason && x.s.closeAt.Before(anchor.Add(bound-2*time.Millisecond)) {
			add("premature-timeout", fields(x.n),
				fmt.Sprintf("%s closed with %q only %v after %s; pingInterval+pingTimeout is %v", x.n, pingReason, x.s.closeAt.Sub(anchor).Round(time.Millisecond), anchorWhat, bound))
		}
		classParts = append(classParts, fmt.Sprintf("%s=%s:%s", x.n[:1], strings.ReplaceAll(x.s.reason, " ", "-"), timing))
		res.sides = append(res.sides, sv)
	}
	res.class = strings.Join(classParts, ",")
	res.sample = map[string]any{"trial": sp.String(), "phase": pl.name, "timeline": timeline, "outcome": res.class}
	return res
}

// dropList renders what the black hole swallowed (first byte of a websocket close frame is 0x88).
func dropList(px *bhProxy, t0 time.Time) []string {
	var out []string
	for _, d := range px.Drops() {
		out = append(out, fmt.Sprintf("%+.1fms conn%d %s %dB first=0x%02x", rel(d.at, t0), d.conn, []string{"c2s", "s2c"}[d.dir], d.n, d.head))
	}
	return out
}

func closeRel(s snap, t0 time.Time) any {
	if !s.closed {
		return "never"
	}
	return map[string]any{"at_ms": rel(s.closeAt, t0), "reason": s.reason, "err": s.closeErr}
}

func sleepUntil(t time.Time, stop <-chan struct{}) {
	d := time.Until(t)
	if d <= 0 {
		return
	}
	tm := time.NewTimer(d)
	defer tm.Stop()
	select {
	case <-tm.C:
	case <-stop:
	}
}

// ---------------------------------------------------------------- live-peer trial

func liveTrial(cn *canary, sp *spec) *result {
	res := &result{sp: sp}
	start := time.Now()
	stop := make(chan struct{})
	var stopOnce sync.Once
	halt := func() { stopOnce.Do(func() { close(stop) }) }
	ev := newEvents()

	srvEP := &endpoint{side: "server", beatType: parser.PacketTypePong}
	cliEP := &endpoint{side: "client", beatType: parser.PacketTypePing}
	var ssv, clv atomic.Value
	var sentC, sentS atomic.Int64
	msg := func(tag string, n int64) *parser.Packet {
		p, _ := parser.NewPacket(parser.PacketTypeMessage, false, []byte(fmt.Sprintf("%s%d", tag, n)))
		return p
	}
	clientSend := func() {
		if c, ok := clv.Load().(eio.ClientSocket); ok {
			c.Send(msg("c", sentC.Add(1)))
		}
	}
	serverSend := func() {
		if s, ok := ssv.Load().(eio.ServerSocket); ok {
			s.Send(msg("s", sentS.Add(1)))
		}
	}
	stopped := func() bool {
		select {
		case <-stop:
			return true
		default:
			return false
		}
	}
	if sp.traffic == "pinglocked" {
		// application traffic exactly where the heartbeat packets are
		cliEP.hook = func(int) {
			for i := 0; i < 3; i++ {
				go func() {
					if !stopped() {
						clientSend()
					}
				}()
			}
		}
		srvEP.hook = func(int) {
			go func() {
				if !stopped() {
					serverSend()
				}
			}()
			go func() { // collides with the next ping (sent pingInterval after this pong)
				sleepUntil(time.Now().Add(sp.pi-ms(1+8*sp.jit)), stop)
				for i := 0; i < 3 && !stopped(); i++ {
					serverSend()
				}
			}()
		}
	}

	if sp.traffic == "pingdense" {
		// a dense stream of server messages (one every 150 us) from 8 ms before until 8 ms after the next
		// ping: over polling the ping then travels in one payload BEHIND messages, over websocket between them
		srvEP.hook = func(int) {
			go func() {
				sleepUntil(time.Now().Add(sp.pi-8*time.Millisecond), stop)
				end := time.Now().Add(16 * time.Millisecond)
				for time.Now().Before(end) && !stopped() {
					serverSend()
					time.Sleep(150 * time.Microsecond)
				}
			}()
		}
	}

	srv, err := rig.NewEIOServer(func(s eio.ServerSocket) *eio.Callbacks {
		if ssv.CompareAndSwap(nil, s) {
			ev.signal("est")
		}
		return srvEP.callbacks()
	}, &eio.ServerConfig{PingInterval: sp.pi, PingTimeout: sp.pt})
	if err != nil {
		res.incon = "cannot start server: " + err.Error()
		return res
	}
	defer func() {
		halt()
		srvEP.end()
		cliEP.end()
		cleanup.Add(1)
		go func() {
			defer cleanup.Done()
			if c, ok := clv.Load().(eio.ClientSocket); ok {
				c.Close()
			}
			srv.Close()
		}()
	}()
	dialURL := srv.URL
	if sp.mode == "upgrading" {
		// live peer, upgrade straddling a heartbeat: the websocket connection of the upgrade is held back and then
		// slowed (20 ms per hop) so that the UPGRADE packet is on its way when the server's first PING is due;
		// the server streams messages around that instant, so the client's last poll is answered at once and
		// the PING is left sitting in the polling queue at the swap. sp.phase selects the lead (70..130 ms).
		px, perr := proxy.New(srv.Addr)
		if perr != nil {
			res.incon = "proxy: " + perr.Error()
			return res
		}
		defer px.Close()
		lead := time.Duration(70+10*sp.phase) * time.Millisecond
		px.OnConn = func(pc *proxy.Conn) {
			if !pc.IsWS() {
				return
			}
			pc.SetStall(true)
			go func() {
				ev.waitFor("est", 10*time.Second)
				e0, _ := ev.when("est")
				sleepUntil(e0.Add(sp.pi-lead), stop)
				pc.SetDelay(20 * time.Millisecond)
				pc.SetStall(false)
			}()
		}
		dialURL = px.URL("/engine.io/")
		go func() {
			ev.waitFor("est", 10*time.Second)
			e0, _ := ev.when("est")
			sleepUntil(e0.Add(sp.pi-300*time.Millisecond), stop)
			end := e0.Add(sp.pi + 100*time.Millisecond)
			for time.Now().Before(end) && !stopped() {
				serverSend()
				time.Sleep(time.Millisecond)
			}
		}()
	}
	c, err := eio.Dial(dialURL, cliEP.callbacks(), &eio.ClientConfig{
		Transports:           sp.transports(),
		UpgradeDone:          func(string) { ev.signal("updone") },
		UpgradeTimeout:       sp.pi + 2*time.Second,
		WebSocketDialOptions: newDialOptions(),
	})
	if err != nil {
		res.incon = "dial failed: " + err.Error()
		return res
	}
	clv.Store(c)
	// (over websocket the server writes the OPEN packet before it announces the socket)
	if !ev.waitFor("est", 10*time.Second) {
		res.incon = "client connected but the server did not announce a socket within 10 s"
		return res
	}
	est, _ := ev.when("est")

	every := func(frac float64, off float64, f func()) {
		period := time.Duration(frac * float64(sp.pi))
		go func() {
			next := est.Add(time.Duration(off * float64(period)))
			for {
				sleepUntil(next, stop)
				if stopped() {
					return
				}
				f()
				next = next.Add(period)
				if now := time.Now(); next.Before(now) {
					next = now
				}
			}
		}()
	}
	switch sp.traffic {
	case "c2s":
		every(0.37, sp.jit, clientSend)
	case "s2c":
		every(0.37, sp.jit, serverSend)
	case "both":
		every(0.37, sp.jit, clientSend)
		every(0.61, 1-sp.jit, serverSend)
	}

	window := 5*sp.pi + sp.pt + 500*time.Millisecond
	until := est.Add(window)
	for time.Now().Before(until) {
		time.Sleep(5 * time.Millisecond)
		if srvEP.isClosed() || cliEP.isClosed() {
			time.Sleep(50 * time.Millisecond) // let the other side's callback land for the witness
			break
		}
	}
	halt()
	end := time.Now()
	res.wall = end.Sub(start)
	ss, cs := srvEP.snapshot(), cliEP.snapshot()
	res.pings = len(cs.beats)
	if mx, sum := cn.stall(start, end); mx > stallMax || sum > stallSum {
		res.incon = fmt.Sprintf("scheduler canary: max stall %v, total %v during the trial", mx.Round(time.Millisecond), sum.Round(time.Millisecond))
		return res
	}
	maxGap := time.Duration(0)
	prev := est
	for _, b := range cs.beats {
		if g := b.Sub(prev); g > maxGap {
			maxGap = g
		}
		prev = b
	}
	wit := sp.witness()
	timeline := map[string]any{
		"all_times":          "ms after establishment",
		"window_ms":          window.Milliseconds(),
		"pings_at_client":    relAll(cs.beats, est),
		"pongs_at_server":    relAll(ss.beats, est),
		"server_close":       closeRel(ss, est),
		"client_close":       closeRel(cs, est),
		"server_errors":      ss.errs,
		"client_errors":      cs.errs,
		"client_sent":        sentC.Load(),
		"server_received":    ss.msgs,
		"server_sent":        sentS.Load(),
		"client_received":    cs.msgs,
		"max_ping_gap_ms":    maxGap.Milliseconds(),
		"client_upgraded":    ev.has("updone"),
		"client_transport":   c.TransportName(),
		"observation_end_ms": rel(end, est),
	}
	wit["timeline"] = timeline
	bad := false
	for _, x := range []struct {
		n string
		s snap
	}{{"server", ss}, {"client", cs}} {
		if x.s.closed {
			bad = true
			res.findings = append(res.findings, finding{vk.Violation{Sub: "live-peer-closed",
				Fields: map[string]any{"side": x.n, "transport": sp.mode, "traffic": sp.traffic, "event": "close", "reason": x.s.reason},
				What: fmt.Sprintf("%s: %s closed (%s %s) %v after establishment on a healthy link; %d pings reached the client, %d pongs the server",
					sp, x.n, x.s.reason, x.s.closeErr, x.s.closeAt.Sub(est).Round(time.Millisecond), len(cs.beats), len(ss.beats)),
				Witness: wit}})
		}
		if len(x.s.errs) > 0 {
			bad = true
			res.findings = append(res.findings, finding{vk.Violation{Sub: "live-peer-closed",
				Fields:  map[string]any{"side": x.n, "transport": sp.mode, "traffic": sp.traffic, "event": "error", "reason": "error"},
				What:    fmt.Sprintf("%s: %s reported OnError(%s) %v after establishment on a healthy link", sp, x.n, x.s.errs[0], x.s.errAt[0].Sub(est).Round(time.Millisecond)),
				Witness: wit}})
		}
	}
	if !bad {
		if len(cs.beats) < 4 || len(ss.beats) < 4 {
			res.incon = fmt.Sprintf("only %d pings / %d pongs seen in %v", len(cs.beats), len(ss.beats), window)
			return res
		}
		if (sp.mode == "upgraded" || sp.mode == "upgrading") && !ev.has("updone") {
			res.incon = "upgrade did not happen"
			return res
		}
		if (sentC.Load() > 0 && ss.msgs == 0) || (sentS.Load() > 0 && cs.msgs == 0) {
			res.incon = "application traffic did not flow"
			return res
		}
	}
	res.class = fmt.Sprintf("alive/pings>=%d", min(len(cs.beats), 5))
	if bad {
		res.class = "closed-or-error"
	}
	res.sample = map[string]any{"trial": sp.String(), "timeline": timeline, "outcome": res.class}
	res.sides = []sideVerdict{{side: "live", watchdog: maxGap, hasWatchd: true}}
	return res
}

// ---------------------------------------------------------------- driver

type latStat struct {
	N             int     `json:"n"`
	MaxMs         int64   `json:"max_latency_ms_after_t0"`
	MaxOverBound  float64 `json:"max_latency_over_pingInterval_plus_pingTimeout"`
	MaxOverDeadl  float64 `json:"max_latency_over_deadline"`
	MinMs         int64   `json:"min_latency_ms_after_t0"`
	SumMs         int64   `json:"-"`
	MeanMs        int64   `json:"mean_latency_ms_after_t0"`
	LateOrMissing int     `json:"late_or_never"`
	MaxOwnMs      int64   `json:"max_onclose_after_own_heartbeat_deadline_ms"`
}

func main() {
	run := vk.Start("C14", "fault_enumeration")
	run.Rule("dead-peer trials = (pingInterval, pingTimeout) x transport {polling, websocket, upgraded, upgrading} x black-holed direction {both, c2s, s2c} x placement phase " +
		"(time anchored: before / just before a ping; event anchored: inside the client's ping callback before the pong leaves, inside the server's pong callback; upgrading: at the ws upgrade request, " +
		"mid-handshake, after the probe was answered while the client's last poll is still pending, at the client's UpgradeDone, at the server's transport switch, each also with the upgrade held back until the first ping), each run against a fresh real server + real client through the fault proxy; " +
		"live-peer trials = (pingInterval, pingTimeout) x transport x traffic {idle, c2s every 0.37 pi, s2c, both 0.37/0.61, locked onto the ping/pong instants, dense server stream (one message per 150 us) around every ping}; live peers whose polling->websocket upgrade is timed so that the first PING is queued on polling at the swap (lead swept 70..130 ms); " +
		"distinct = kind/transport/direction-or-traffic/pi,pt/phase/outcome class (close reason and on-time/late per side)")
	run.Assume("a side is 'closed' when its OnClose callback has run (the only public signal); detection latency is measured from the black-hole call to that callback",
		"black-hole = loopback TCP relay that keeps both TCP connections open and forwards nothing in the chosen direction(s) on existing and new connections, not even the other end's FIN/RST",
		"slack 1.5 s on every deadline; a trial during which the 5 ms canary saw a stall > 250 ms (or > 750 ms in total) is inconclusive and retried twice",
		"a side that still hears its peer may close for any reason; the hearing client's deadline moves with the last ping it actually received (one more ping can arrive after a c2s-only black-hole)",
		"a side that has not closed is watched until t0 + 2 pi + 2 pt + 1.5 s + 8 s and then reported as no-close")
	cn := startCanary()

	type cfg struct{ pi, pt time.Duration }
	var cfgs []cfg
	if run.Quick() {
		cfgs = []cfg{{time.Second, time.Second}, {2 * time.Second, time.Second}}
	} else {
		for _, pi := range []int{1, 2, 3} {
			for _, pt := range []int{1, 2, 3} {
				cfgs = append(cfgs, cfg{time.Duration(pi) * time.Second, time.Duration(pt) * time.Second})
			}
		}
	}
	phases := run.Pick(4, 8)
	rnd := run.Rand("c14-jitter")
	var specs []*spec
	for _, c := range cfgs {
		for _, mode := range []string{"polling", "websocket", "upgraded", "upgrading"} {
			for _, dir := range []string{"both", "c2s", "s2c"} {
				nph := phases
				if mode == "upgrading" {
					nph = run.Pick(5, 10) // five placements, thorough: each also with the upgrade held back
				}
				for ph := 0; ph < nph; ph++ {
					specs = append(specs, &spec{kind: "dead", mode: mode, dir: dir, pi: c.pi, pt: c.pt, phase: ph, jit: rnd.Float64()})
				}
			}
		}
		traffics := []string{"idle", "c2s", "s2c", "pinglocked", "pingdense"}
		if run.Thorough() {
			traffics = append(traffics, "both")
		}
		for _, mode := range []string{"polling", "websocket", "upgraded"} {
			for _, tr := range traffics {
				specs = append(specs, &spec{kind: "live", mode: mode, traffic: tr, pi: c.pi, pt: c.pt, jit: rnd.Float64()})
			}
		}
		if c.pi == time.Second {
			for ph := 0; ph <= 6; ph++ {
				specs = append(specs, &spec{kind: "live", mode: "upgrading", traffic: "swap-stream", pi: c.pi, pt: c.pt, phase: ph, jit: rnd.Float64()})
			}
		}
	}
	// longest first (shorter tail), seed-shuffled among equals
	rnd.Shuffle(len(specs), func(i, j int) { specs[i], specs[j] = specs[j], specs[i] })
	est := func(s *spec) time.Duration {
		if s.kind == "live" {
			return 5*s.pi + s.pt
		}
		return 3*s.pi + s.pt
	}
	sort.SliceStable(specs, func(i, j int) bool { return est(specs[i]) > est(specs[j]) })
	for i, s := range specs {
		s.id = i
	}

	par := 40
	sem := make(chan struct{}, par)
	var wg sync.WaitGroup
	var mu sync.Mutex
	stats := map[string]*latStat{}
	worstRatio := 0.0
	var maxPingGap time.Duration
	var samplesDead, samplesLive int
	record := func(r *result) {
		mu.Lock()
		defer mu.Unlock()
		sp := r.sp
		run.Eval(1)
		run.Count("trials_"+sp.kind, 1)
		run.Count("pings_seen_by_clients", int64(r.pings))
		if sp.kind == "dead" {
			run.Distinct(fmt.Sprintf("%s/%s", sp, r.class))
			run.Count("outcome "+sp.mode+"/"+sp.dir+" "+r.class, 1)
		} else {
			run.Distinct(fmt.Sprintf("%s/%s", sp, r.class))
		}
		for _, sv := range r.sides {
			if sv.side == "live" {
				if sv.watchdog-sp.pi > maxPingGap {
					maxPingGap = sv.watchdog - sp.pi
				}
				continue
			}
			role := "hearing"
			if sv.deaf {
				role = "deaf"
			}
			key := sv.side + "/" + role + "/" + sp.mode
			st := stats[key]
			if st == nil {
				st = &latStat{MinMs: math.MaxInt64}
				stats[key] = st
			}
			if !sv.closed || sv.late {
				st.LateOrMissing++
			}
			if !sv.closed || sv.latency < 0 {
				continue
			}
			st.N++
			if sv.hasWatchd && sv.watchdog.Milliseconds() > st.MaxOwnMs {
				st.MaxOwnMs = sv.watchdog.Milliseconds()
			}
			l := sv.latency.Milliseconds()
			st.SumMs += l
			if l > st.MaxMs {
				st.MaxMs = l
			}
			if l < st.MinMs {
				st.MinMs = l
			}
			ob := float64(sv.latency) / float64(sp.pi+sp.pt)
			if ob > st.MaxOverBound {
				st.MaxOverBound = math.Round(ob*1000) / 1000
			}
			od := float64(sv.latency) / float64(sv.deadline)
			if od > st.MaxOverDeadl {
				st.MaxOverDeadl = math.Round(od*1000) / 1000
			}
			if sv.deaf && ob > worstRatio {
				worstRatio = ob
			}
		}
		if r.sample != nil {
			if sp.kind == "dead" && samplesDead < 8 && sp.id%7 == 0 {
				samplesDead++
				run.Sample(r.sample)
			} else if sp.kind == "live" && samplesLive < 3 && sp.id%5 == 0 {
				samplesLive++
				run.Sample(r.sample)
			}
		}
		for _, f := range r.findings {
			run.Violation(f.v)
		}
	}
	for _, sp := range specs {
		wg.Add(1)
		sem <- struct{}{}
		go func(sp *spec) {
			defer wg.Done()
			defer func() { <-sem }()
			last := ""
			for attempt := 0; attempt <= maxRetries; attempt++ {
				var r *result
				if sp.kind == "dead" {
					r = deadTrial(cn, sp)
				} else {
					r = liveTrial(cn, sp)
				}
				if r.incon == "" {
					record(r)
					return
				}
				last = r.incon
				run.Count("inconclusive_attempts", 1)
				run.Logf("attempt %d of %s inconclusive: %s", attempt+1, sp, r.incon)
				if attempt < maxRetries {
					run.Count("retries", 1)
				}
			}
			run.Count("trials_dropped_inconclusive", 1)
			run.Inconclusive(fmt.Sprintf("%s: %s (after %d attempts)", sp, last, maxRetries+1))
		}(sp)
	}
	wg.Wait()

	mu.Lock()
	for _, st := range stats {
		if st.N > 0 {
			st.MeanMs = st.SumMs / int64(st.N)
		} else {
			st.MinMs = 0
		}
	}
	run.Note("detection_latency_by_side_role_transport", stats)
	run.Note("worst_deaf_side_latency_over_pingInterval_plus_pingTimeout", math.Round(worstRatio*1000)/1000)
	run.Note("live_max_ping_gap_minus_pingInterval_ms", maxPingGap.Milliseconds())
	run.Note("canary", map[string]any{"ticks": cn.ticks.Load(), "worst_stall_ms": time.Duration(cn.worst.Load()).Milliseconds()})
	run.Note("parallel_trials", par)
	run.Note("specs", len(specs))
	mu.Unlock()
	if cn.ticks.Load() == 0 {
		run.Inconclusive("canary never ticked")
	}
	vk.Watchdog(5*time.Second, cleanup.Wait)
	run.Finish()
}
