// C08 — state recovery replays exactly the missed packets, or falls back cleanly.
//
// (1) adapter level: the real session-aware adapter (window and clean-up period exposed by a
// verif constructor) is driven with generated histories of namespace / room / direct
// broadcasts (text, binary, ack-carrying), disconnects at every point k, 0..many clean-up
// passes (counted through a hook) and reconnects on both sides of the window; RestoreSession
// is compared with an executable model of the log. Time is bracketed: "must recover" only when
// an upper bound on the elapsed time is inside the window, "must not" only when a lower bound
// is outside it. (2) end to end with a raw protocol peer that tracks the offset itself.
// (3) the real Go client reconnecting through a TCP proxy cut.
package main

import (
	"encoding/json"
	"fmt"
	"math/rand"
	"os"
	"sort"
	"strings"
	"sync"
	"sync/atomic"
	"time"

	mapset "github.com/deckarep/golang-set/v2"
	sio "github.com/karagenc/socket.io-go"
	"github.com/karagenc/socket.io-go/adapter"
	"github.com/karagenc/socket.io-go/parser"
	jsonparser "github.com/karagenc/socket.io-go/parser/json"
	"github.com/karagenc/socket.io-go/parser/json/serializer/stdjson"

	"sioverif/internal/proxy"
	"sioverif/internal/rawpeer"
	"sioverif/internal/refcodec"
	"sioverif/internal/rig"
	"sioverif/internal/vk"
)

const hookCleaner = "sessionAwareAdapter.cleaner:pass-done"

// ---------- adapter-level harness ----------

type fakeSocket struct {
	id adapter.SocketID
	a  adapter.Adapter
}

func (s *fakeSocket) ID() adapter.SocketID                                   { return s.id }
func (s *fakeSocket) Join(room ...adapter.Room)                              { s.a.AddAll(s.id, room) }
func (s *fakeSocket) Leave(room adapter.Room)                                { s.a.Delete(s.id, room) }
func (s *fakeSocket) Emit(eventName string, v ...any)                        {}
func (s *fakeSocket) To(room ...adapter.Room) *adapter.BroadcastOperator     { return nil }
func (s *fakeSocket) In(room ...adapter.Room) *adapter.BroadcastOperator     { return nil }
func (s *fakeSocket) Except(room ...adapter.Room) *adapter.BroadcastOperator { return nil }
func (s *fakeSocket) Broadcast() *adapter.BroadcastOperator                  { return nil }
func (s *fakeSocket) Disconnect(close bool)                                  {}

type delivery struct {
	uid    int
	offset string
	ok     bool
	err    string
}

type store struct {
	mu      sync.Mutex
	sockets map[adapter.SocketID]adapter.Socket
	got     map[adapter.SocketID][]delivery
}

func (s *store) SendBuffers(sid adapter.SocketID, buffers [][]byte) bool {
	d := decodeFrames(buffers)
	s.mu.Lock()
	s.got[sid] = append(s.got[sid], d)
	s.mu.Unlock()
	return true
}
func (s *store) Get(sid adapter.SocketID) (adapter.Socket, bool) {
	s.mu.Lock()
	defer s.mu.Unlock()
	so, ok := s.sockets[sid]
	return so, ok
}
func (s *store) GetAll() []adapter.Socket {
	s.mu.Lock()
	defer s.mu.Unlock()
	var out []adapter.Socket
	for _, so := range s.sockets {
		out = append(out, so)
	}
	return out
}
func (s *store) Remove(sid adapter.SocketID) { s.mu.Lock(); delete(s.sockets, sid); s.mu.Unlock() }

// decodeFrames decodes frames of an EVENT ("ev", uid, [bin], offset?) with the reference codec.
func decodeFrames(frames [][]byte) delivery {
	p, err := refcodec.DecodeSIO(frames)
	if err != nil {
		return delivery{err: err.Error()}
	}
	args := rawpeer.Args(p)
	if len(args) == 0 {
		return delivery{err: "no args"}
	}
	uid, ok := rawpeer.Num(args[0])
	if !ok {
		return delivery{err: "uid not a number"}
	}
	d := delivery{uid: int(uid), ok: true}
	if s, ok := args[len(args)-1].(string); ok && len(args) > 1 {
		d.offset = s
	}
	// payload integrity of binary packets: attachment content is derived from the uid
	for _, a := range args[1:] {
		if b, isBin := a.(refcodec.Bin); isBin {
			if len(b) != 3+d.uid%5 || (len(b) > 0 && b[0] != byte(d.uid)) {
				d.err = fmt.Sprintf("attachment of uid %d altered (len %d)", d.uid, len(b))
			}
		}
	}
	return d
}

type mpacket struct {
	uid     int
	T, E    []string
	binary  bool
	logged  bool
	emitted time.Time // after Broadcast returned (upper bound of EmittedAt)
	before  time.Time // before Broadcast was called (lower bound of EmittedAt)
}

func addressed(rooms []string, p *mpacket) bool {
	in := len(p.T) == 0
	for _, r := range rooms {
		for _, t := range p.T {
			if r == t {
				in = true
			}
		}
	}
	for _, r := range rooms {
		for _, e := range p.E {
			if r == e {
				return false
			}
		}
	}
	return in
}

var creator = jsonparser.NewCreator(0, stdjson.New())

func set(rooms []string) mapset.Set[adapter.Room] {
	s := mapset.NewSet[adapter.Room]()
	for _, r := range rooms {
		s.Add(adapter.Room(r))
	}
	return s
}

type historyCfg struct {
	window  time.Duration
	cleaner time.Duration
	n       int           // broadcasts
	k       int           // disconnect after k broadcasts
	gap     time.Duration // time between disconnect and restore
	tailGap time.Duration // pause in the middle of the post-disconnect broadcasts
	binary  bool
}

func subset(r *rand.Rand, rooms []string) []string {
	var out []string
	for _, x := range rooms {
		if r.Intn(3) == 0 {
			out = append(out, x)
		}
	}
	return out
}

func runHistory(run *vk.Run, r *rand.Rand, cfg historyCfg) {
	run.Eval(1)
	st := &store{sockets: map[adapter.SocketID]adapter.Socket{}, got: map[adapter.SocketID][]delivery{}}
	ad := adapter.VerifNewSessionAwareAdapterCreator(cfg.window, cfg.cleaner)(st, creator)
	rooms := []string{"r1", "r2", "r3"}
	type msess struct {
		sid, pid string
		rooms    []string
	}
	var socks []*msess
	for i := 0; i < 3; i++ {
		s := &msess{sid: fmt.Sprintf("s%d", i), pid: fmt.Sprintf("p%d", i)}
		s.rooms = append([]string{s.sid}, subset(r, rooms)...)
		st.sockets[adapter.SocketID(s.sid)] = &fakeSocket{id: adapter.SocketID(s.sid), a: ad}
		rs := make([]adapter.Room, len(s.rooms))
		for j, x := range s.rooms {
			rs[j] = adapter.Room(x)
		}
		ad.AddAll(adapter.SocketID(s.sid), rs)
		socks = append(socks, s)
	}
	// one or two sessions are lost at the same point and recovered one after the other from the same log:
	// a restore must not disturb the log for the next one
	nv := 1 + r.Intn(2)
	var log []*mpacket
	uid := 0
	emit := func() {
		uid++
		p := &mpacket{uid: uid, binary: cfg.binary && uid%2 == 0}
		switch r.Intn(4) {
		case 0: // namespace broadcast
		case 1: // room broadcast with exclusions
			p.T = subset(r, rooms)
			p.E = subset(r, append([]string{"s1", "s2"}, rooms...))
		case 2: // direct emit to one socket (as ServerSocket.Emit does under recovery)
			p.T = []string{socks[r.Intn(len(socks))].sid}
		case 3: // room broadcast
			p.T = []string{rooms[r.Intn(len(rooms))]}
		}
		hdr := &parser.PacketHeader{Type: parser.PacketTypeEvent, Namespace: "/"}
		p.logged = true
		if r.Intn(7) == 0 { // ack-carrying emits are never logged
			id := uint64(uid)
			hdr.ID = &id
			p.logged = false
		}
		v := []any{"ev", uid}
		if p.binary {
			b := make([]byte, 3+uid%5)
			b[0] = byte(uid)
			v = append(v, sio.Binary(b))
		}
		opts := adapter.NewBroadcastOptions()
		opts.Rooms = set(p.T)
		opts.Except = set(p.E)
		p.before = time.Now()
		ad.Broadcast(hdr, v, opts)
		p.emitted = time.Now()
		log = append(log, p)
	}
	for i := 0; i < cfg.k; i++ {
		emit()
	}
	type vstate struct {
		s                     *msess
		lastOffset            string
		lastOffsetUID         int
		discBefore, discAfter time.Time
	}
	var vs []*vstate
	passesBefore := adapter.VerifHookHits(hookCleaner)
	for _, victim := range socks[:nv] {
		// what did the victim receive so far? its last offset is what a client would present.
		st.mu.Lock()
		got := append([]delivery(nil), st.got[adapter.SocketID(victim.sid)]...)
		st.mu.Unlock()
		v := &vstate{s: victim}
		for _, d := range got {
			if d.offset != "" {
				v.lastOffset, v.lastOffsetUID = d.offset, d.uid
			}
		}
		// live delivery must match the model as well (targets C04, but integrity of binary frames matters here)
		for _, d := range got {
			if d.err != "" {
				run.Violation(vk.Violation{Sub: "live-delivery-corrupt", Fields: map[string]any{"binary": cfg.binary}, What: "live broadcast frames undecodable/altered: " + d.err, Witness: nil})
			}
		}
		// disconnect (recoverable): persist, leave all, remove
		v.discBefore = time.Now()
		ad.PersistSession(&adapter.SessionToPersist{SID: adapter.SocketID(victim.sid), PID: adapter.PrivateSessionID(victim.pid), Rooms: toRooms(victim.rooms)})
		v.discAfter = time.Now()
		ad.DeleteAll(adapter.SocketID(victim.sid))
		st.Remove(adapter.SocketID(victim.sid))
		vs = append(vs, v)
	}
	half := (cfg.n - cfg.k) / 2
	for i := cfg.k; i < cfg.n; i++ {
		if i == cfg.k+half && cfg.tailGap > 0 {
			time.Sleep(cfg.tailGap)
		}
		emit()
	}
	if cfg.gap > 0 {
		time.Sleep(cfg.gap)
	}
	if nv == 2 && r.Intn(2) == 0 {
		vs[0], vs[1] = vs[1], vs[0]
	}
	for vi, v := range vs {
		judgeRestore(run, r, cfg, ad, v.s.sid, v.s.pid, v.s.rooms, v.lastOffset, v.lastOffsetUID, v.discBefore, v.discAfter, passesBefore, log, nv, vi)
	}
}

// judgeRestore restores one lost session and compares the outcome with the model.
func judgeRestore(run *vk.Run, r *rand.Rand, cfg historyCfg, ad adapter.Adapter, vsid, vpid string, vrooms []string, lastOffset string, lastOffsetUID int,
	discBefore, discAfter time.Time, passesBefore int64, log []*mpacket, nv, vi int) {
	victim := struct {
		sid, pid string
		rooms    []string
	}{vsid, vpid, vrooms}
	restoreBefore := time.Now()
	sess, ok := ad.RestoreSession(adapter.PrivateSessionID(victim.pid), lastOffset)
	restoreAfter := time.Now()
	passes := adapter.VerifHookHits(hookCleaner) - passesBefore

	// model
	var want []int
	seenOffset := lastOffset == ""
	var offsetPkt *mpacket
	for _, p := range log {
		if !p.logged {
			continue
		}
		if !seenOffset {
			if p.uid == lastOffsetUID {
				seenOffset = true
				offsetPkt = p
			}
			continue
		}
		if p.uid > lastOffsetUID && addressed(victim.rooms, p) {
			want = append(want, p.uid)
		}
	}
	elapsedUpper := restoreAfter.Sub(discBefore)
	elapsedLower := restoreBefore.Sub(discAfter)
	margin := 3 * time.Millisecond
	sessionAlive := elapsedUpper+margin < cfg.window
	sessionDead := elapsedLower-margin > cfg.window
	offsetAlive, offsetDead := false, false
	if offsetPkt != nil {
		offsetAlive = restoreAfter.Sub(offsetPkt.before)+margin < cfg.window || cfg.cleaner == 0
		offsetDead = restoreBefore.Sub(offsetPkt.emitted)-margin > cfg.window && passes > int64(len(log)) // every expired entry surely cleaned
	}
	fields := map[string]any{"binary": cfg.binary, "cleaner": cfg.cleaner > 0}
	wit := map[string]any{"sessions_lost_together": nv, "restore_order_index": vi, "window_ms": cfg.window.Milliseconds(), "cleaner_ms": cfg.cleaner.Milliseconds(), "n": cfg.n, "k": cfg.k, "gap_ms": cfg.gap.Milliseconds(),
		"cleaner_passes_between": passes, "elapsed_upper_ms": elapsedUpper.Milliseconds(), "last_offset_uid": lastOffsetUID, "victim_rooms": victim.rooms, "want_missed_uids": want, "seed": run.Seed()}
	class := "inconclusive-window"
	switch {
	case lastOffset == "":
		class = "no-offset"
		if ok {
			run.Violation(vk.Violation{Sub: "recovered-without-offset", Fields: fields, What: "session reported recovered although the client never received an offset", Witness: wit})
		}
	case ok:
		class = "recovered"
		if sessionDead {
			run.Violation(vk.Violation{Sub: "recovered-outside-window", Fields: fields,
				What: fmt.Sprintf("recovered %v after the disconnect with a window of %v", elapsedLower, cfg.window), Witness: wit})
		}
		var gotUIDs []int
		for _, mp := range sess.MissedPackets {
			hdr := *mp.Header
			frames, err := creator().Encode(&hdr, &mp.Data)
			if err != nil {
				run.Violation(vk.Violation{Sub: "replay-unencodable", Fields: fields, What: "missed packet cannot be encoded for replay: " + err.Error(), Witness: wit})
				continue
			}
			d := decodeFrames(frames)
			if !d.ok || d.err != "" {
				fields2 := map[string]any{"binary": cfg.binary, "cleaner": cfg.cleaner > 0, "packet_binary": true}
				run.Violation(vk.Violation{Sub: "replay-corrupt", Fields: fields2,
					What: fmt.Sprintf("replayed packet (log id %s) does not decode to what was emitted: %s (header frame %q)", mp.ID, d.err, trunc(frames[0])), Witness: wit})
				continue
			}
			gotUIDs = append(gotUIDs, d.uid)
		}
		wit["got_missed_uids"] = gotUIDs
		if len(gotUIDs) != len(sess.MissedPackets) {
			// corrupt entries were already reported; do not report the same packets as a gap again
		} else if fmt.Sprint(gotUIDs) != fmt.Sprint(want) {
			kind := "other"
			switch {
			case isSubsequence(gotUIDs, want) && len(gotUIDs) < len(want):
				kind = "gap"
			case isSubsequence(want, gotUIDs):
				kind = "extra"
			case sameSet(gotUIDs, want):
				kind = "reordered-or-duplicated"
			}
			run.Violation(vk.Violation{Sub: "replay-mismatch", Fields: map[string]any{"binary": cfg.binary, "cleaner": cfg.cleaner > 0, "kind": kind},
				What: fmt.Sprintf("recovered, but replayed uids %v != missed uids %v (%s; %d clean-up passes in between)", gotUIDs, want, kind, passes), Witness: wit})
		}
		if string(sess.SID) != victim.sid || !sameSet2(sess.Rooms, victim.rooms) {
			run.Violation(vk.Violation{Sub: "restored-identity", Fields: fields, What: fmt.Sprintf("restored sid/rooms %s %v != %s %v", sess.SID, sess.Rooms, victim.sid, victim.rooms), Witness: wit})
		}
	default:
		class = "fresh"
		if sessionAlive && offsetAlive {
			run.Violation(vk.Violation{Sub: "not-recovered-inside-window", Fields: fields,
				What:    fmt.Sprintf("session (disconnected <= %v ago) and offset (emitted <= %v ago) are both inside the %v window but RestoreSession refused (%d clean-up passes in between)", elapsedUpper, restoreAfter.Sub(offsetPkt.before), cfg.window, passes),
				Witness: wit})
		}
	}
	_ = offsetDead
	run.Distinct(fmt.Sprintf("adapter/%s/binary=%v/cleaner=%v/passes=%s/missed=%s/restore=%d-of-%d", class, cfg.binary, cfg.cleaner > 0, bucket(int(passes)), bucket(len(want)), vi+1, nv))
	run.Count("adapter_"+class, 1)
	if r.Intn(400) == 0 {
		run.Sample(wit)
	}
}

func bucket(n int) string {
	switch {
	case n == 0:
		return "0"
	case n < 3:
		return "1-2"
	case n < 10:
		return "3-9"
	}
	return "10+"
}

func toRooms(s []string) []adapter.Room {
	out := make([]adapter.Room, len(s))
	for i, x := range s {
		out[i] = adapter.Room(x)
	}
	return out
}

func isSubsequence(a, b []int) bool {
	j := 0
	for _, x := range b {
		if j < len(a) && a[j] == x {
			j++
		}
	}
	return j == len(a)
}

func sameSet(a, b []int) bool {
	x, y := append([]int(nil), a...), append([]int(nil), b...)
	sort.Ints(x)
	sort.Ints(y)
	return fmt.Sprint(x) == fmt.Sprint(y)
}

func sameSet2(a []adapter.Room, b []string) bool {
	x := make([]string, len(a))
	for i, r := range a {
		x[i] = string(r)
	}
	y := append([]string(nil), b...)
	sort.Strings(x)
	sort.Strings(y)
	return fmt.Sprint(x) == fmt.Sprint(y)
}

func trunc(b []byte) string {
	if len(b) > 90 {
		return string(b[:90]) + "..."
	}
	return string(b)
}

// ---------- end to end ----------

type e2eCfg struct {
	window  time.Duration
	cleaner time.Duration
	binary  bool
	gap     time.Duration
	client  string // raw | go
	second  bool   // go client: a second outage right after the recovery, no live event in between
}

func runE2E(run *vk.Run, r *rand.Rand, cfg e2eCfg) {
	run.Eval(1)
	scfg := &sio.ServerConfig{AdapterCreator: adapter.VerifNewSessionAwareAdapterCreator(cfg.window, cfg.cleaner)}
	scfg.ServerConnectionStateRecovery.Enabled = true
	scfg.ServerConnectionStateRecovery.MaxDisconnectionDuration = cfg.window
	srv, err := rig.NewServer(scfg, "")
	if err != nil {
		run.Inconclusive(err.Error())
		return
	}
	defer srv.Close()
	type ssRec struct {
		id        string
		recovered bool
		rooms     []string
	}
	var mu sync.Mutex
	var conns []ssRec
	var cur atomic.Value
	var disconnects atomic.Int32
	srv.IO.OnConnection(func(s sio.ServerSocket) {
		if !s.Recovered() {
			s.Join("room1")
		}
		var rooms []string
		for _, x := range s.Rooms().ToSlice() {
			rooms = append(rooms, string(x))
		}
		sort.Strings(rooms)
		mu.Lock()
		conns = append(conns, ssRec{id: string(s.ID()), recovered: s.Recovered(), rooms: rooms})
		mu.Unlock()
		s.OnDisconnect(func(sio.Reason) { disconnects.Add(1) })
		cur.Store(s)
	})
	uid := 0
	var emitted []int // uids addressed to the client, in emission order
	emit := func(to sio.ServerSocket) {
		uid++
		args := []any{uid}
		if cfg.binary && uid%2 == 0 {
			b := make([]byte, 3+uid%5)
			b[0] = byte(uid)
			args = append(args, sio.Binary(b))
		}
		switch r.Intn(4) {
		case 0:
			srv.IO.Emit("ev", args...)
			emitted = append(emitted, uid)
		case 1:
			srv.IO.To("room1").Emit("ev", args...)
			emitted = append(emitted, uid)
		case 2:
			srv.IO.To("other-room").Emit("ev", args...) // not addressed to the client
		case 3:
			if to != nil {
				to.Emit("ev", args...)
				emitted = append(emitted, uid)
			} else {
				srv.IO.Except("nobody").Emit("ev", args...)
				emitted = append(emitted, uid)
			}
		}
	}
	fields := map[string]any{"client": cfg.client, "binary": cfg.binary}
	wit := map[string]any{"window_ms": cfg.window.Milliseconds(), "gap_ms": cfg.gap.Milliseconds(), "client": cfg.client, "binary": cfg.binary, "seed": run.Seed()}
	nBefore, nMissed := 2+r.Intn(4), 1+r.Intn(5)

	if cfg.client == "raw" {
		peer, err := rawpeer.DialSIO(srv.URL, "websocket")
		if err != nil {
			run.Inconclusive(err.Error())
			return
		}
		res, err := peer.Connect("/", nil, 30*time.Second)
		if err != nil || !res.OK || res.PID == "" {
			run.Inconclusive(fmt.Sprintf("raw connect: %v %+v", err, res))
			peer.C.Abort()
			return
		}
		vk.WaitUntil(10*time.Second, func() bool { return cur.Load() != nil })
		ss, _ := cur.Load().(sio.ServerSocket)
		for i := 0; i < nBefore; i++ {
			emit(ss)
		}
		ss.Emit("fence", 0)
		if _, _, err := peer.WaitPacket(0, 30*time.Second, func(p *refcodec.Packet) bool { return rawpeer.EventName(p) == "fence" }); err != nil {
			run.Inconclusive("raw: fence before disconnect not seen")
			peer.C.Abort()
			return
		}
		received := map[int]int{}
		lastOffset := ""
		collect := func(ps []rawpeer.SPacket) {
			for _, sp := range ps {
				name := rawpeer.EventName(sp.P)
				if name != "ev" && name != "fence" {
					continue
				}
				args := rawpeer.Args(sp.P)
				if s, ok := args[len(args)-1].(string); ok {
					lastOffset = s
				}
				if name == "ev" {
					u, _ := rawpeer.Num(args[0])
					received[int(u)]++
					for _, a := range args[1:] {
						if b, isBin := a.(refcodec.Bin); isBin && (len(b) != 3+int(u)%5 || b[0] != byte(u)) {
							run.Violation(vk.Violation{Sub: "replay-corrupt", Fields: map[string]any{"client": "raw", "binary": true, "packet_binary": true},
								What: fmt.Sprintf("uid %d arrived with an altered attachment", u), Witness: wit})
						}
					}
				}
			}
		}
		collect(peer.Packets())
		discAt := time.Now()
		peer.C.Abort() // recoverable: transport close/error
		if !vk.WaitUntil(10*time.Second, func() bool { return disconnects.Load() > 0 }) {
			run.Inconclusive("raw: server did not notice the disconnect")
			return
		}
		discSeen := time.Now()
		for i := 0; i < nMissed; i++ {
			emit(nil)
		}
		time.Sleep(cfg.gap)
		peer2, err := rawpeer.DialSIO(srv.URL, "websocket")
		if err != nil {
			run.Inconclusive(err.Error())
			return
		}
		defer peer2.C.Abort()
		recBefore := time.Now()
		res2, err := peer2.Connect("/", map[string]any{"pid": res.PID, "offset": lastOffset}, 30*time.Second)
		recAfter := time.Now()
		if err != nil || !res2.OK {
			run.Inconclusive(fmt.Sprintf("raw reconnect: %v", err))
			return
		}
		recovered := res2.PID == res.PID && res2.SID == res.SID
		vk.WaitUntil(10*time.Second, func() bool { mu.Lock(); defer mu.Unlock(); return len(conns) >= 2 })
		ss2, _ := cur.Load().(sio.ServerSocket)
		ss2.Emit("fence", 1)
		_, _, ferr := peer2.WaitPacket(0, 30*time.Second, func(p *refcodec.Packet) bool {
			return rawpeer.EventName(p) == "fence" && fmt.Sprint(rawpeer.Args(p)[0]) == "1"
		})
		if perr := peer2.Err(); perr != nil {
			run.Violation(vk.Violation{Sub: "replay-corrupt", Fields: map[string]any{"client": "raw", "binary": cfg.binary, "packet_binary": true},
				What: "frames sent after the reconnect do not form valid packets: " + perr.Error(), Witness: wit})
			return
		}
		if ferr != nil {
			run.Inconclusive("raw: fence after reconnect not seen: " + ferr.Error())
			return
		}
		collect(peer2.Packets())
		judgeE2E(run, fields, wit, cfg, recovered, emitted, received, recAfter.Sub(discAt), recBefore.Sub(discSeen), lastOffset != "")
		mu.Lock()
		c := append([]ssRec(nil), conns...)
		mu.Unlock()
		if len(c) >= 2 && recovered {
			if !c[1].recovered || c[1].id != c[0].id || fmt.Sprint(c[1].rooms) != fmt.Sprint(c[0].rooms) {
				run.Violation(vk.Violation{Sub: "restored-identity", Fields: fields,
					What: fmt.Sprintf("client told 'recovered' but server socket: recovered=%v id %s (was %s) rooms %v (were %v)", c[1].recovered, c[1].id, c[0].id, c[1].rooms, c[0].rooms), Witness: wit})
			}
		}
		if len(c) >= 2 && !recovered && c[1].recovered {
			run.Violation(vk.Violation{Sub: "restored-identity", Fields: fields, What: "server socket says recovered, CONNECT reply carries a fresh sid/pid", Witness: wit})
		}
		return
	}

	// Go client through a proxy
	px, err := proxy.New(srv.Addr)
	if err != nil {
		run.Inconclusive(err.Error())
		return
	}
	defer px.Close()
	mcfg := rig.ManagerConfig("websocket")
	mcfg.ReconnectionDelay = rig.Dur(cfg.gap)
	mcfg.ReconnectionDelayMax = rig.Dur(cfg.gap)
	mcfg.RandomizationFactor = rig.F32(0)
	m := sio.NewManager(px.URL("/socket.io/"), mcfg)
	defer m.Close()
	sock := m.Socket("/", nil)
	var rmu sync.Mutex
	received := map[int]int{}
	var order []int
	sock.OnEvent("ev", func(u int) { rmu.Lock(); received[u]++; order = append(order, u); rmu.Unlock() })
	if cfg.binary {
		sock.OffEvent("ev")
		sock.OnEvent("ev", func(u int, b sio.Binary) { rmu.Lock(); received[u]++; order = append(order, u); rmu.Unlock() })
	}
	var connects atomic.Int32
	var recoveredFlag atomic.Bool
	sock.OnConnect(func() { recoveredFlag.Store(sock.Recovered()); connects.Add(1) })
	sock.Connect()
	if !vk.WaitUntil(30*time.Second, func() bool { return connects.Load() == 1 && cur.Load() != nil }) {
		run.Inconclusive("go client: no connect")
		return
	}
	ss, _ := cur.Load().(sio.ServerSocket)
	if cfg.binary { // binary handler expects (int, Binary): emit only binary-shaped events
		r = rand.New(rand.NewSource(r.Int63()))
	}
	emitGo := func(to sio.ServerSocket) {
		uid++
		args := []any{uid}
		if cfg.binary {
			b := make([]byte, 3+uid%5)
			b[0] = byte(uid)
			args = append(args, sio.Binary(b))
		}
		if to != nil && r.Intn(2) == 0 {
			to.Emit("ev", args...)
		} else {
			srv.IO.To("room1").Emit("ev", args...)
		}
		emitted = append(emitted, uid)
	}
	for i := 0; i < nBefore; i++ {
		emitGo(ss)
	}
	if !vk.WaitUntil(30*time.Second, func() bool { rmu.Lock(); defer rmu.Unlock(); return len(received) == nBefore }) {
		run.Inconclusive("go client: events before the cut not delivered")
		return
	}
	discAt := time.Now()
	px.CutAll()
	if !vk.WaitUntil(10*time.Second, func() bool { return disconnects.Load() > 0 }) {
		run.Inconclusive("go client: server did not notice the cut")
		return
	}
	discSeen := time.Now()
	for i := 0; i < nMissed; i++ {
		emitGo(nil)
	}
	if !vk.WaitUntil(cfg.gap+30*time.Second, func() bool { return connects.Load() >= 2 }) {
		run.Inconclusive("go client: did not reconnect")
		return
	}
	recAfter := time.Now()
	recovered := recoveredFlag.Load()
	if cfg.second && recovered {
		// second outage right after the recovery, with NO live event in between: the offset the client presents
		// next has to come from the packets it was replayed. Barrier without traffic: the replay has arrived.
		if !vk.WaitUntil(30*time.Second, func() bool { rmu.Lock(); defer rmu.Unlock(); return len(received) >= nBefore+nMissed }) {
			run.Inconclusive("go client: replay of the first recovery incomplete")
			return
		}
		d0 := disconnects.Load()
		px.CutAll()
		if !vk.WaitUntil(10*time.Second, func() bool { return disconnects.Load() > d0 }) {
			run.Inconclusive("go client: server did not notice the second cut")
			return
		}
		for i := 0; i < nMissed; i++ {
			emitGo(nil)
		}
		if !vk.WaitUntil(cfg.gap+30*time.Second, func() bool { return connects.Load() >= 3 }) {
			run.Inconclusive("go client: did not reconnect after the second cut")
			return
		}
		if !recoveredFlag.Load() {
			run.Violation(vk.Violation{Sub: "not-recovered-inside-window", Fields: fields,
				What: fmt.Sprintf("second outage (%v) right after a recovery, no live event in between: the session was not recovered a second time", cfg.gap), Witness: wit})
		}
		wit["second_outage"] = true
		run.Count("e2e_second_outage_trials", 1)
	}
	// fence: a direct event after reconnect
	vk.WaitUntil(10*time.Second, func() bool { mu.Lock(); defer mu.Unlock(); return len(conns) >= 2 })
	ss2, _ := cur.Load().(sio.ServerSocket)
	fenceDone := make(chan struct{})
	sock.OnEvent("fence", func() { close(fenceDone) })
	ss2.Emit("fence")
	select {
	case <-fenceDone:
	case <-time.After(30 * time.Second):
		run.Inconclusive("go client: fence after reconnect not seen")
		return
	}
	time.Sleep(50 * time.Millisecond)
	rmu.Lock()
	rc := map[int]int{}
	for k, v := range received {
		rc[k] = v
	}
	rmu.Unlock()
	// the Go client waits ReconnectionDelay (= gap) before reconnecting, so elapsed ~ gap
	judgeE2E(run, fields, wit, cfg, recovered, emitted, rc, recAfter.Sub(discAt), cfg.gap-20*time.Millisecond-0*discSeen.Sub(discAt), true)
	mu.Lock()
	c := append([]ssRec(nil), conns...)
	mu.Unlock()
	if len(c) >= 2 && !cfg.second && recovered != c[1].recovered {
		run.Violation(vk.Violation{Sub: "restored-identity", Fields: fields, What: fmt.Sprintf("client Recovered()=%v but server socket Recovered()=%v", recovered, c[1].recovered), Witness: wit})
	}
}

func judgeE2E(run *vk.Run, fields, wit map[string]any, cfg e2eCfg, recovered bool, emitted []int, received map[int]int, elapsedUpper, elapsedLower time.Duration, hadOffset bool) {
	var lost, dup []int
	for _, u := range emitted {
		switch {
		case received[u] == 0:
			lost = append(lost, u)
		case received[u] > 1:
			dup = append(dup, u)
		}
	}
	wit["emitted_to_client"] = emitted
	wit["lost"] = lost
	wit["duplicates"] = dup
	wit["recovered"] = recovered
	wit["elapsed_upper_ms"] = elapsedUpper.Milliseconds()
	class := "fresh"
	if recovered {
		class = "recovered"
		if len(lost) > 0 {
			run.Violation(vk.Violation{Sub: "replay-mismatch", Fields: map[string]any{"client": fields["client"], "binary": cfg.binary, "kind": "gap"},
				What: fmt.Sprintf("reported recovered but uids %v addressed to the client were never delivered", lost), Witness: wit})
		}
		if elapsedLower-5*time.Millisecond > cfg.window {
			run.Violation(vk.Violation{Sub: "recovered-outside-window", Fields: fields, What: fmt.Sprintf("recovered >= %v after the disconnect, window %v", elapsedLower, cfg.window), Witness: wit})
		}
	} else if hadOffset && elapsedUpper+20*time.Millisecond < cfg.window && cfg.cleaner == 0 {
		run.Violation(vk.Violation{Sub: "not-recovered-inside-window", Fields: fields,
			What: fmt.Sprintf("reconnected %v after the disconnect (window %v, clean-up disabled) with pid and offset but got a fresh session", elapsedUpper, cfg.window), Witness: wit})
	}
	if len(dup) > 0 {
		run.Violation(vk.Violation{Sub: "replay-mismatch", Fields: map[string]any{"client": fields["client"], "binary": cfg.binary, "kind": "reordered-or-duplicated"},
			What: fmt.Sprintf("uids %v delivered more than once across the reconnect", dup), Witness: wit})
	}
	run.Distinct(fmt.Sprintf("e2e/%s/%s/binary=%v/missed=%d", cfg.client, class, cfg.binary, len(emitted)))
	run.Count("e2e_"+cfg.client+"_"+class, 1)
	if run.Counter("e2e_"+cfg.client+"_"+class) <= 2 {
		run.Sample(wit)
	}
}

// runCleanerRace: the clean-up task removes expired entries from the packet log WHILE broadcasts keep
// appending to it. A steady single-goroutine stream of namespace-wide broadcasts (uids 1,2,3,...) runs for the
// whole trial with a window of 400 ms and a clean-up period of 1 ms; once the log holds expired entries (so
// that every pass really removes something) one session is lost and restored 150 ms later, well inside the
// window. Required: every uid whose Broadcast had returned between the session's offset and the start of
// RestoreSession is replayed exactly once, in order (uids still in flight at the restore may or may not be).
func runCleanerRace(run *vk.Run, rep int) {
	run.Eval(1)
	window := 400 * time.Millisecond
	st := &store{sockets: map[adapter.SocketID]adapter.Socket{}, got: map[adapter.SocketID][]delivery{}}
	ad := adapter.VerifNewSessionAwareAdapterCreator(window, time.Millisecond)(st, creator)
	for _, sid := range []adapter.SocketID{"v", "w"} {
		st.sockets[sid] = &fakeSocket{id: sid, a: ad}
		ad.AddAll(sid, []adapter.Room{adapter.Room(sid)})
	}
	passes0 := adapter.VerifHookHits(hookCleaner)
	var returned atomic.Int64 // highest uid whose Broadcast has returned
	stop := make(chan struct{})
	done := make(chan struct{})
	var calledAt []time.Time // calledAt[uid-1]: taken before Broadcast(uid) is called; read after <-done
	go func() {
		defer close(done)
		for uid := 1; ; uid++ {
			select {
			case <-stop:
				return
			default:
			}
			calledAt = append(calledAt, time.Now())
			hdr := &parser.PacketHeader{Type: parser.PacketTypeEvent, Namespace: "/"}
			ad.Broadcast(hdr, []any{"ev", uid}, adapter.NewBroadcastOptions())
			returned.Store(int64(uid))
			if uid%8 == 0 {
				time.Sleep(50 * time.Microsecond)
			}
		}
	}()
	time.Sleep(window + time.Duration(100+20*(rep%5))*time.Millisecond) // expired entries exist from now on
	// lose the session: its offset is the last delivery it got
	st.mu.Lock()
	got := st.got["v"]
	var off delivery
	if len(got) > 0 {
		off = got[len(got)-1]
	}
	st.mu.Unlock()
	lostAt := time.Now()
	ad.PersistSession(&adapter.SessionToPersist{SID: "v", PID: "pv", Rooms: []adapter.Room{"v"}})
	ad.DeleteAll("v")
	st.Remove("v")
	time.Sleep(150 * time.Millisecond)
	mustHave := int(returned.Load())
	sess, ok := ad.RestoreSession("pv", off.offset)
	restoredAt := time.Now()
	away := restoredAt.Sub(lostAt)
	close(stop)
	<-done
	if off.uid >= 1 && off.uid <= len(calledAt) {
		// the window runs from the emission of the packet the offset names, not from the loss of the session: when the
		// broadcasting goroutine was starved before the loss (loaded machine), that packet is older than "away" says
		if age := restoredAt.Sub(calledAt[off.uid-1]); age > window-150*time.Millisecond {
			run.Inconclusive(fmt.Sprintf("cleaner race: the packet the offset names was up to %v old at the restore (window %v; away %v): it may legitimately have expired", age.Round(time.Millisecond), window, away.Round(time.Millisecond)))
			return
		}
	}
	if away > window-150*time.Millisecond {
		// the 150 ms nap overshot badly (loaded machine): the offset entry may legitimately have expired
		run.Inconclusive(fmt.Sprintf("cleaner race: the session was away %v (planned 150 ms, window %v)", away.Round(time.Millisecond), window))
		return
	}
	passes := adapter.VerifHookHits(hookCleaner) - passes0
	fields := map[string]any{"binary": false, "cleaner": true, "concurrent_broadcasts": true}
	wit := map[string]any{"window_ms": window.Milliseconds(), "cleaner_ms": 1, "offset_uid": off.uid, "last_uid_returned_before_restore": mustHave, "cleaner_passes": passes, "seed": run.Seed()}
	switch {
	case off.offset == "":
		run.Inconclusive("cleaner race: the session never received an offset")
	case !ok:
		run.Violation(vk.Violation{Sub: "not-recovered-inside-window", Fields: fields,
			What: fmt.Sprintf("session lost for 150 ms with a window of %v while broadcasts and clean-up passes (%d) run concurrently: RestoreSession refused (the Broadcast of offset uid %d was called under %v before the restore returned)", window, passes, off.uid, window-150*time.Millisecond), Witness: wit})
	default:
		var replay []int
		for _, mp := range sess.MissedPackets {
			hdr := *mp.Header
			frames, err := creator().Encode(&hdr, &mp.Data)
			if err != nil {
				continue
			}
			if d := decodeFrames(frames); d.ok {
				replay = append(replay, d.uid)
			}
		}
		var missing, disorder []int
		pos := map[int]int{}
		for i, u := range replay {
			if _, dup := pos[u]; dup || (i > 0 && u <= replay[i-1]) {
				disorder = append(disorder, u)
			}
			pos[u] = i
		}
		for u := off.uid + 1; u <= mustHave; u++ {
			if _, ok := pos[u]; !ok {
				missing = append(missing, u)
			}
		}
		wit["replayed"], wit["missing_count"] = len(replay), len(missing)
		if len(missing) > 0 {
			m := missing
			if len(m) > 12 {
				m = m[:12]
			}
			run.Violation(vk.Violation{Sub: "replay-mismatch", Fields: map[string]any{"binary": false, "cleaner": true, "kind": "gap", "concurrent_broadcasts": true},
				What: fmt.Sprintf("recovered inside the window, but %d of the %d broadcasts that had returned while the session was away are missing from the replay (first: %v); %d clean-up passes ran concurrently with the broadcasts",
					len(missing), mustHave-off.uid, m, passes), Witness: wit})
		} else if len(disorder) > 0 {
			run.Violation(vk.Violation{Sub: "replay-mismatch", Fields: map[string]any{"binary": false, "cleaner": true, "kind": "reordered-or-duplicated", "concurrent_broadcasts": true},
				What: fmt.Sprintf("replay out of order or duplicated at uids %v", disorder[:min(len(disorder), 12)]), Witness: wit})
		}
		run.Count("cleaner_race_replayed", int64(len(replay)))
	}
	run.Count("cleaner_race_passes", passes)
	run.Distinct(fmt.Sprintf("adapter/cleaner-race/recovered=%v", ok))
}

func main() {
	run := vk.Start("C08", "exploration")
	run.Rule("adapter histories: n broadcasts {namespace, room with exclusions, direct, room} x {text, binary, ack-carrying} over 3 sessions x 3 rooms, disconnect at every point k, reconnect gap on both sides of the window, " +
		"clean-up period {off, 2 ms, 10 ms}; a steady broadcast stream running concurrently with 1 ms clean-up passes around a lost and restored session; end to end with a raw peer and with the Go client (proxy cut; half of the recoverable Go-client trials add a second outage right after the recovery without any live event in between); distinct = (layer, outcome class, binary, cleaner on/off, clean-up passes bucket, missed-count bucket)")
	run.Assume("time is bracketed: must-recover only when an upper bound of the elapsed time is inside the window (and the offset entry is provably unexpired or the cleaner is off), must-not only when a lower bound is outside",
		"a client that never received an offset cannot recover (reference behaviour)")
	r := run.Rand("c08")
	if adapter.VerifHookHits(hookCleaner) < 0 {
		run.Inconclusive("hook missing")
	}
	nHist := run.Pick(1500, 12000)
	if run.SubMode == "race" {
		nHist = 100
	}
	sem := make(chan struct{}, 16)
	var wg sync.WaitGroup
	for i := 0; i < nHist; i++ {
		window := time.Duration(60+r.Intn(140)) * time.Millisecond
		cfg := historyCfg{window: window, n: 4 + r.Intn(10), binary: i%3 == 0}
		cfg.k = r.Intn(cfg.n + 1)
		cfg.cleaner = []time.Duration{0, 2 * time.Millisecond, 10 * time.Millisecond}[i%3]
		switch r.Intn(4) {
		case 0:
			cfg.gap = 0
		case 1:
			cfg.gap = window / 3
		case 2:
			cfg.gap = window + window/3
		case 3:
			cfg.gap = time.Duration(r.Int63n(int64(2 * window)))
		}
		if r.Intn(3) == 0 {
			cfg.tailGap = window / 4
		}
		hr := rand.New(rand.NewSource(r.Int63()))
		wg.Add(1)
		sem <- struct{}{}
		go func() {
			defer wg.Done()
			defer func() { <-sem }()
			runHistory(run, hr, cfg)
		}()
	}
	wg.Wait()
	// four at a time: each trial keeps a core busy with its broadcast stream, and its 150 ms nap must not overshoot
	csem := make(chan struct{}, 4)
	for rep := 0; rep < run.Pick(6, 40); rep++ {
		rep := rep
		wg.Add(1)
		csem <- struct{}{}
		go func() {
			defer wg.Done()
			defer func() { <-csem }()
			runCleanerRace(run, rep)
		}()
	}
	wg.Wait()
	run.Note("cleaner_hook_hits", adapter.VerifHookHits(hookCleaner))
	if adapter.VerifHookHits(hookCleaner) == 0 {
		run.Inconclusive("clean-up hook never reached")
	}
	nE2E := run.Pick(48, 400)
	if run.SubMode == "race" {
		nE2E = 6
	}
	for i := 0; i < nE2E; i++ {
		window := 400 * time.Millisecond
		cfg := e2eCfg{window: window, binary: i%2 == 1, client: []string{"raw", "go"}[(i/2)%2]}
		cfg.cleaner = []time.Duration{0, 10 * time.Millisecond}[(i/4)%2]
		cfg.gap = []time.Duration{60 * time.Millisecond, 700 * time.Millisecond, 60 * time.Millisecond}[i%3]
		cfg.second = cfg.client == "go" && cfg.gap < window && (i/12)%2 == 0
		er := rand.New(rand.NewSource(r.Int63()))
		wg.Add(1)
		sem <- struct{}{}
		go func() {
			defer wg.Done()
			defer func() { <-sem }()
			runE2E(run, er, cfg)
		}()
	}
	wg.Wait()
	if bin := os.Getenv("VERIF_RACE_BIN"); bin != "" && run.Thorough() && run.SubMode == "" {
		if s, err := vk.RunSub(bin, "race", run, 20*time.Minute); err != nil {
			run.Inconclusive("race sub-pass: " + err.Error())
		} else {
			run.Merge("race:", s)
		}
	}
	run.Finish()
}

var _ = json.Marshal
var _ = strings.Repeat
