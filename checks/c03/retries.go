package main

// The client's retry queue (ClientSocketConfig.Retries / AckTimeout): every Emit goes through a queue that keeps one
// packet in flight, waits for its acknowledgement, repeats it after AckTimeout up to Retries times and repeats the
// head after a reconnection. The caller's ack function is still an ack function: it fires at most once, exactly
// once in the end, and a successful call carries the reply of that packet. Several tries of one packet can be
// outstanding at once (a try repeated after a reconnection while the previous one has not timed out yet), so replies
// and time-outs of earlier tries arrive after the packet has been settled - this part produces those.

import (
	"errors"
	"fmt"
	"sync"
	"sync/atomic"
	"time"

	sio "github.com/karagenc/socket.io-go"
	"sioverif/internal/proxy"
	"sioverif/internal/rig"
	"sioverif/internal/vk"
)

type retryEmit struct {
	n       int
	withAck bool
	calls   atomic.Int32
	mu      sync.Mutex
	errs    []error
	replies []int
}

// scenario: which packet is pending (its acknowledgement held back by the server) when the link is cut, how many
// packets wait behind it, Retries, and whether the server answers the first try late (after the cut) or never.
type retryScenario struct {
	retries   int
	behind    int
	cut       bool // cut the link while the first packet is pending
	firstHold time.Duration
	// the server also holds back its first reply to packet 2, so that the queue is still busy (packet 2 in flight)
	// when the timer of the superseded first try of packet 0 fires
	secondHold time.Duration
	transport  string
}

func (s retryScenario) id() string {
	return fmt.Sprintf("retries=%d/behind=%d/cut=%v/hold=%v/hold2=%v/%s", s.retries, s.behind, s.cut, s.firstHold, s.secondHold, s.transport)
}

func runRetryQueue(run *vk.Run, sc retryScenario) {
	const ackTimeout = 500 * time.Millisecond
	ctx := "retry-queue"
	srv, err := rig.NewServer(nil, "")
	if err != nil {
		run.Inconclusive(err.Error())
		return
	}
	defer srv.Close()
	var smu sync.Mutex
	received := map[int]int{}
	var order []int
	var held, held2 atomic.Bool
	srv.IO.OnConnection(func(s sio.ServerSocket) {
		s.OnEvent("rq", func(n int, ack func(int)) {
			smu.Lock()
			received[n]++
			first := received[n] == 1
			if first {
				order = append(order, n)
			}
			smu.Unlock()
			if n == 0 && first && sc.firstHold > 0 && held.CompareAndSwap(false, true) {
				time.Sleep(sc.firstHold)
			}
			if n == 2 && first && sc.secondHold > 0 && held2.CompareAndSwap(false, true) {
				time.Sleep(sc.secondHold)
			}
			ack(n*7 + 3)
		})
	})
	px, err := proxy.New(srv.Addr)
	if err != nil {
		run.Inconclusive(err.Error())
		return
	}
	defer px.Close()
	mcfg := rig.ManagerConfig(sc.transport)
	mcfg.ReconnectionDelay = rig.Dur(20 * time.Millisecond)
	mcfg.ReconnectionDelayMax = rig.Dur(20 * time.Millisecond)
	mcfg.RandomizationFactor = rig.F32(0)
	m := sio.NewManager(px.URL("/socket.io/"), mcfg)
	defer m.Close()
	sock := m.Socket("/", &sio.ClientSocketConfig{Retries: sc.retries, AckTimeout: ackTimeout})
	var connects atomic.Int32
	sock.OnConnect(func() { connects.Add(1) })
	sock.Connect()
	if !vk.WaitUntil(30*time.Second, func() bool { return connects.Load() >= 1 }) {
		run.Inconclusive(ctx + " " + sc.id() + ": no connect")
		return
	}
	var emits []*retryEmit
	emit := func(n int, withAck bool) {
		e := &retryEmit{n: n, withAck: withAck}
		emits = append(emits, e)
		if !withAck {
			sock.Emit("rq", n)
			return
		}
		sock.Emit("rq", n, func(err error, reply int) {
			e.mu.Lock()
			e.errs = append(e.errs, err)
			e.replies = append(e.replies, reply)
			e.mu.Unlock()
			e.calls.Add(1)
		})
	}
	emit(0, true)
	for i := 1; i <= sc.behind; i++ {
		emit(i, i%4 != 3) // every fourth one without an ack function of its own
	}
	if sc.cut {
		// the first packet has reached the server (or is about to) and its acknowledgement is held back
		vk.WaitUntil(5*time.Second, func() bool { smu.Lock(); defer smu.Unlock(); return received[0] >= 1 })
		px.CutAll()
		if !vk.WaitUntil(20*time.Second, func() bool { return connects.Load() >= 2 }) {
			run.Inconclusive(ctx + " " + sc.id() + ": no reconnect within 20 s")
			return
		}
	}
	// a second wave while the queue is working
	for i := sc.behind + 1; i <= sc.behind+3; i++ {
		emit(i, true)
	}
	total := len(emits)
	// bounded progress: every packet is settled after at most (Retries+1) tries of AckTimeout each
	bound := time.Duration(total*(sc.retries+1))*ackTimeout + 10*time.Second
	settled := vk.WaitUntil(bound, func() bool {
		for _, e := range emits {
			if e.withAck && e.calls.Load() == 0 {
				return false
			}
		}
		smu.Lock()
		defer smu.Unlock()
		return len(received) >= total
	})
	// late time-outs / replies of earlier tries: every timer armed so far has fired after one more AckTimeout
	time.Sleep(time.Duration(sc.retries+1)*ackTimeout + sc.firstHold + sc.secondHold + 200*time.Millisecond)
	f := func(extra map[string]any) map[string]any {
		m := map[string]any{"ctx": ctx, "dir": "c2s", "cut": sc.cut, "retries": sc.retries}
		for k, v := range extra {
			m[k] = v
		}
		return m
	}
	smu.Lock()
	rcv := map[int]int{}
	for k, v := range received {
		rcv[k] = v
	}
	ord := append([]int(nil), order...)
	smu.Unlock()
	for _, e := range emits {
		run.Eval(1)
		wit := map[string]any{"scenario": sc.id(), "packet": e.n, "server_received_times": rcv[e.n], "seed": run.Seed()}
		if !e.withAck {
			if rcv[e.n] == 0 && settled {
				run.Violation(vk.Violation{Sub: "retry-queue-lost", Fields: f(map[string]any{"with_ack": false}),
					What: fmt.Sprintf("packet %d (no ack function) was queued behind others and never reached the server although the server answers every packet at once", e.n), Witness: wit})
			}
			continue
		}
		e.mu.Lock()
		errs, replies := append([]error(nil), e.errs...), append([]int(nil), e.replies...)
		e.mu.Unlock()
		wit["callbacks"] = fmt.Sprint(errs, replies)
		switch {
		case len(errs) == 0:
			run.Violation(vk.Violation{Sub: "ack-never-called", Fields: f(nil),
				What: fmt.Sprintf("packet %d: ack function never called within %v (Retries %d, AckTimeout %v)", e.n, bound, sc.retries, ackTimeout), Witness: wit})
			continue
		case len(errs) > 1:
			run.Violation(vk.Violation{Sub: "ack-called-twice", Fields: f(nil),
				What: fmt.Sprintf("packet %d: ack function called %d times: %v", e.n, len(errs), errs), Witness: wit})
		}
		if errs[0] == nil {
			if replies[0] != e.n*7+3 {
				run.Violation(vk.Violation{Sub: "ack-wrong-reply", Fields: f(nil),
					What: fmt.Sprintf("packet %d: ack function got reply %d, the reply to this packet is %d", e.n, replies[0], e.n*7+3), Witness: wit})
			}
			if rcv[e.n] == 0 {
				run.Violation(vk.Violation{Sub: "ack-without-delivery", Fields: f(nil),
					What: fmt.Sprintf("packet %d: ack function reports success but the server never received the packet", e.n), Witness: wit})
			}
		} else {
			if !errors.Is(errs[0], sio.ErrAckTimeout) {
				run.Violation(vk.Violation{Sub: "ack-wrong-error", Fields: f(nil), What: fmt.Sprintf("packet %d: error %v is not ErrAckTimeout", e.n, errs[0]), Witness: wit})
			}
			// only the first packet ever waits for its reply; every other packet is answered at once on a healthy link
			if e.n != 0 && rcv[e.n] >= sc.retries+1 {
				// every try reached the server and was answered at once, yet no reply arrived in time: load, not a verdict
				run.Inconclusive(fmt.Sprintf("%s %s: packet %d timed out although all %d tries reached the server", ctx, sc.id(), e.n, rcv[e.n]))
			} else if e.n != 0 {
				run.Violation(vk.Violation{Sub: "ack-spurious-timeout", Fields: f(nil),
					What: fmt.Sprintf("packet %d: answered at once by the server (received %d time(s)) but its ack function got %v", e.n, rcv[e.n], errs[0]), Witness: wit})
			}
		}
	}
	// the queue sends one packet at a time: first receipts are in emission order
	for i := 1; i < len(ord); i++ {
		if ord[i] < ord[i-1] {
			run.Violation(vk.Violation{Sub: "retry-queue-order", Fields: f(nil),
				What:    fmt.Sprintf("retry queue delivered packet %d before packet %d", ord[i-1], ord[i]),
				Witness: map[string]any{"scenario": sc.id(), "first_receipts": fmt.Sprint(ord)}})
			break
		}
	}
	dup := 0
	for _, c := range rcv {
		if c > 1 {
			dup++
		}
	}
	run.Logf("retry-queue %s: settled=%v server receipts=%v first-receipt order=%v connects=%d", sc.id(), settled, rcv, ord, connects.Load())
	run.Count("retry_queue_packets", int64(total))
	run.Count("retry_queue_repeated_packets_seen_by_server", int64(dup))
	run.Distinct(fmt.Sprintf("%s/%s/repeated=%v", ctx, sc.id(), dup > 0))
}

func retryScenarios(run *vk.Run) []retryScenario {
	var out []retryScenario
	for _, tr := range []string{"websocket", "polling"} {
		// healthy link, prompt server: plain queue behaviour
		out = append(out, retryScenario{retries: 2, behind: 12, transport: tr})
		// first reply late but inside the time-out / outside it (one repeat) / never inside any try
		out = append(out, retryScenario{retries: 2, behind: 4, firstHold: 250 * time.Millisecond, transport: tr})
		out = append(out, retryScenario{retries: 2, behind: 4, firstHold: 750 * time.Millisecond, transport: tr})
		// link cut while the head is pending: the head is repeated after the reconnection while the timer of the
		// previous try is still running; with Retries = 1 that timer finds the try count used up
		if tr != "websocket" {
			continue // a cut TCP connection does not end a polling session: the next request opens a new one
		}
		for _, r := range []int{1, 2, 3} {
			out = append(out, retryScenario{retries: r, behind: 5, cut: true, firstHold: 350 * time.Millisecond, transport: tr})
			out = append(out, retryScenario{retries: r, behind: 5, cut: true, firstHold: 350 * time.Millisecond, secondHold: 700 * time.Millisecond, transport: tr})
		}
		if run.Thorough() {
			for _, r := range []int{1, 2} {
				for _, b := range []int{0, 1, 2, 9} {
					for _, h := range []time.Duration{100 * time.Millisecond, 600 * time.Millisecond, 1100 * time.Millisecond} {
						out = append(out, retryScenario{retries: r, behind: b, cut: true, firstHold: h, transport: tr})
						if b >= 2 {
							out = append(out, retryScenario{retries: r, behind: b, cut: true, firstHold: h, secondHold: 700 * time.Millisecond, transport: tr})
						}
					}
				}
			}
		}
	}
	return out
}

func runRetryQueueAll(run *vk.Run) {
	scs := retryScenarios(run)
	// independent worlds: four at a time
	sem := make(chan struct{}, 4)
	var wg sync.WaitGroup
	for _, sc := range scs {
		wg.Add(1)
		sem <- struct{}{}
		go func(sc retryScenario) {
			defer wg.Done()
			defer func() { <-sem }()
			runRetryQueue(run, sc)
		}(sc)
	}
	wg.Wait()
}
