// C03 — acks fire at most once, exactly once with a timeout, and carry the right reply.
//
// Monitors: per-emission callback counter + reply token check (the responder answers
// token = H(uid), so a reply identifies its emission); outcome classes are prescribed only
// outside the race band (delay 0 with a long timeout => reply; never => ErrAckTimeout);
// wire-level ACK count per id through a raw protocol peer; after every offline-timeout
// trial: connect handler runs, a probe round-trips, the server saw neither error nor
// disconnect nor the purged event.
package main

import (
	"encoding/json"
	"errors"
	"fmt"
	"os"
	"strings"
	"sync"
	"sync/atomic"
	"time"

	sio "github.com/karagenc/socket.io-go"

	"sioverif/internal/e2e"
	"sioverif/internal/proxy"
	"sioverif/internal/rawpeer"
	"sioverif/internal/refcodec"
	"sioverif/internal/rig"
	"sioverif/internal/vk"
)

func token(uid int) int { return uid*7 + 3 }

type result struct {
	calls   atomic.Int32
	mu      sync.Mutex
	err     error
	tok     int
	binOK   bool
	at      time.Time
	emitted time.Time
}

type trial struct {
	uid     int
	delay   time.Duration // responder delay; <0 = never reply
	timeout time.Duration // 0 = no timeout
	natt    int
	mode    int  // responder calls ack: 1 = once, 2 = twice, 3 = twice from two goroutines
	big     bool // reply carries bigPad
	dir     string
	// volatile: the emission also carries the volatile flag (dropped instead of buffered while there is no
	// connection); its ack function is an ack function all the same
	volatile bool
	res      *result
}

const never = -1

// responder side: registers "q0" (ack(int)) and "qb" (ack(int, Binary, Binary)).
type onEventer interface{ OnEvent(string, any) }

func registerResponder(s onEventer, seen *sync.Map) {
	respond := func(uid, delayUs, mode int, do func()) {
		if seen != nil {
			seen.Store(uid, true)
		}
		if delayUs < 0 {
			return
		}
		go func() {
			if delayUs > 0 {
				time.Sleep(time.Duration(delayUs) * time.Microsecond)
			}
			switch mode {
			case 2:
				do()
				do()
			case 3:
				var wg sync.WaitGroup
				for i := 0; i < 2; i++ {
					wg.Add(1)
					go func() { defer wg.Done(); do() }()
				}
				wg.Wait()
			default:
				do()
			}
		}()
	}
	s.OnEvent("q0", func(uid, delayUs, mode int, ack func(int)) {
		respond(uid, delayUs, mode, func() { ack(token(uid)) })
	})
	s.OnEvent("qb", func(uid, delayUs, mode int, b1, b2 sio.Binary, ack func(int, sio.Binary, sio.Binary)) {
		respond(uid, delayUs, mode, func() { ack(token(uid), b2, b1) })
	})
	s.OnEvent("qL", func(uid, delayUs, mode int, ack func(int, string)) {
		respond(uid, delayUs, mode, func() { ack(token(uid), bigPad) })
	})
	s.OnEvent("probe", func(n int, ack func(int)) { ack(n + 1) })
	s.OnEvent("plain", func(uid int) {
		if seen != nil {
			seen.Store(uid, true)
		}
	})
}

// bigPad makes decoding a reply take about a millisecond or more: the window between "reply matched
// to its callback" and "callback entered" becomes wide enough for a timer to fire inside it.
var bigPad = strings.Repeat("0123456789abcdef\\\"\u00e9", 32000)

type emitterSock interface {
	Emit(string, ...any)
	Timeout(time.Duration) sio.Emitter
}

func bin(uid, k, n int) sio.Binary {
	b := make([]byte, n)
	for i := range b {
		b[i] = byte(uid + k + i)
	}
	return b
}

func sameBin(a, b sio.Binary) bool {
	if len(a) != len(b) {
		return false
	}
	for i := range a {
		if a[i] != b[i] {
			return false
		}
	}
	return true
}

// issue emits one ack-carrying event according to the trial.
func timed(s emitterSock, t *trial) sio.Emitter {
	em := s.Timeout(t.timeout)
	if t.volatile {
		em = em.Volatile()
	}
	return em
}

func issue(s emitterSock, t *trial) {
	r := t.res
	r.emitted = time.Now()
	delayUs := int(t.delay / time.Microsecond)
	if t.delay < 0 {
		delayUs = -1
	}
	if t.big {
		timed(s, t).Emit("qL", t.uid, delayUs, t.mode, func(err error, tok int, pad string) {
			r.mu.Lock()
			r.err, r.tok, r.at = err, tok, time.Now()
			r.binOK = err != nil || pad == bigPad
			r.mu.Unlock()
			r.calls.Add(1)
		})
		return
	}
	if t.natt == 0 {
		if t.timeout > 0 {
			timed(s, t).Emit("q0", t.uid, delayUs, t.mode, func(err error, tok int) {
				r.mu.Lock()
				r.err, r.tok, r.at, r.binOK = err, tok, time.Now(), true
				r.mu.Unlock()
				r.calls.Add(1)
			})
		} else {
			s.Emit("q0", t.uid, delayUs, t.mode, func(tok int) {
				r.mu.Lock()
				r.tok, r.at, r.binOK = tok, time.Now(), true
				r.mu.Unlock()
				r.calls.Add(1)
			})
		}
		return
	}
	b1, b2 := bin(t.uid, 1, 10+t.uid%50), bin(t.uid, 2, 1+t.uid%7)
	if t.timeout > 0 {
		timed(s, t).Emit("qb", t.uid, delayUs, t.mode, b1, b2, func(err error, tok int, x, y sio.Binary) {
			r.mu.Lock()
			r.err, r.tok, r.at = err, tok, time.Now()
			r.binOK = err != nil || (sameBin(x, bin(t.uid, 2, 1+t.uid%7)) && sameBin(y, bin(t.uid, 1, 10+t.uid%50)))
			r.mu.Unlock()
			r.calls.Add(1)
		})
	} else {
		s.Emit("qb", t.uid, delayUs, t.mode, b1, b2, func(tok int, x, y sio.Binary) {
			r.mu.Lock()
			r.tok, r.at = tok, time.Now()
			r.binOK = sameBin(x, bin(t.uid, 2, 1+t.uid%7)) && sameBin(y, bin(t.uid, 1, 10+t.uid%50))
			r.mu.Unlock()
			r.calls.Add(1)
		})
	}
}

// judge evaluates a finished trial (called after timeout + watchdog).
func judge(run *vk.Run, t *trial, ctx string) {
	r := t.res
	calls := int(r.calls.Load())
	r.mu.Lock()
	err, tok, binOK := r.err, r.tok, r.binOK
	r.mu.Unlock()
	f := map[string]any{"dir": t.dir, "ctx": ctx, "binary": t.natt > 0}
	wit := map[string]any{"uid": t.uid, "delay_us": int64(t.delay / time.Microsecond), "timeout_ms": t.timeout.Milliseconds(), "attachments": t.natt, "responder_mode": t.mode, "ctx": ctx, "dir": t.dir}
	class := "reply"
	if calls > 1 {
		run.Violation(vk.Violation{Sub: "ack-called-twice", Fields: f, What: fmt.Sprintf("ack callback of uid %d invoked %d times", t.uid, calls), Witness: wit})
	}
	if calls >= 1 {
		if err == nil {
			if tok != token(t.uid) {
				run.Violation(vk.Violation{Sub: "ack-wrong-reply", Fields: f, What: fmt.Sprintf("uid %d got reply token %d, want %d", t.uid, tok, token(t.uid)), Witness: wit})
			}
			if !binOK {
				run.Violation(vk.Violation{Sub: "ack-wrong-reply", Fields: f, What: fmt.Sprintf("uid %d: binary reply arguments differ from what the responder passed", t.uid), Witness: wit})
			}
		} else {
			class = "timeout"
			if !errors.Is(err, sio.ErrAckTimeout) {
				run.Violation(vk.Violation{Sub: "ack-wrong-error", Fields: f, What: fmt.Sprintf("uid %d: error %v is not ErrAckTimeout", t.uid, err), Witness: wit})
			}
			if tok != 0 {
				run.Violation(vk.Violation{Sub: "ack-wrong-error", Fields: f, What: fmt.Sprintf("uid %d: timeout callback carries non-zero value %d", t.uid, tok), Witness: wit})
			}
			if t.timeout == 0 {
				run.Violation(vk.Violation{Sub: "ack-wrong-error", Fields: f, What: fmt.Sprintf("uid %d: timeout error without a timeout", t.uid), Witness: wit})
			}
		}
	} else {
		class = "none"
	}
	if t.timeout > 0 && calls == 0 {
		run.Violation(vk.Violation{Sub: "ack-never-called", Fields: f,
			What: fmt.Sprintf("uid %d: timeout %v set but the ack callback was not invoked within timeout + 10 s", t.uid, t.timeout), Witness: wit})
	}
	// prescribed outcomes outside the race band
	if ctx == "online" && calls == 1 {
		if t.delay == 0 && t.timeout >= 5*time.Second && err != nil {
			run.Violation(vk.Violation{Sub: "ack-spurious-timeout", Fields: f, What: fmt.Sprintf("uid %d: immediate reply but ErrAckTimeout with timeout %v", t.uid, t.timeout), Witness: wit})
		}
		if t.delay < 0 && t.timeout > 0 && err == nil {
			run.Violation(vk.Violation{Sub: "ack-phantom-reply", Fields: f, What: fmt.Sprintf("uid %d: responder never replied but callback got a reply", t.uid), Witness: wit})
		}
	}
	if ctx == "online" && t.timeout == 0 && t.delay >= 0 && calls == 0 {
		run.Violation(vk.Violation{Sub: "ack-never-called", Fields: f, What: fmt.Sprintf("uid %d: reply sent after %v but callback never invoked (no timeout)", t.uid, t.delay), Witness: wit})
	}
	band := "far"
	if t.timeout > 0 && t.delay >= 0 {
		d := t.delay - t.timeout
		if d > -3*time.Millisecond && d < 3*time.Millisecond {
			band = "race"
		}
	}
	if t.big {
		wit["big_reply"] = true
		run.Count("big_reply_"+class, 1)
	}
	if run.DistinctCount()%8 == 0 {
		wit["outcome"] = class
		wit["callback_invocations"] = calls
		wit["band"] = band
		run.Sample(wit)
	}
	if t.big {
		run.Distinct(fmt.Sprintf("%s/%s/big/mode=%d/%s", ctx, t.dir, t.mode, class))
	} else {
		run.Distinct(fmt.Sprintf("%s/%s/T=%v/band=%s/att=%d/mode=%d/%s", ctx, t.dir, t.timeout, band, t.natt, t.mode, class))
	}
	run.Count("outcome_"+class, 1)
	if band == "race" {
		run.Count("race_band_"+class, 1)
	}
}

var uidSeq atomic.Int64

func nextUID() int { return int(uidSeq.Add(1)) }

func onlineTrials(run *vk.Run, timeouts []time.Duration, reps int) []*trial {
	var ts []*trial
	add := func(delay, timeout time.Duration, natt, mode int) {
		ts = append(ts, &trial{uid: nextUID(), delay: delay, timeout: timeout, natt: natt, mode: mode, res: &result{}})
	}
	for rep := 0; rep < reps; rep++ {
		for _, T := range timeouts {
			for _, natt := range []int{0, 2} {
				add(0, T, natt, 1)
				add(T/2, T, natt, 1)
				add(2*T, T, natt, 1)
				add(never, T, natt, 1)
				for d := T - 2*time.Millisecond; d <= T+2*time.Millisecond; d += 250 * time.Microsecond {
					add(d, T, natt, 1+rep%3)
				}
			}
		}
		// guard-band and no-timeout trials
		for _, natt := range []int{0, 2} {
			for mode := 1; mode <= 3; mode++ {
				add(0, 6*time.Second, natt, mode)
				add(0, 0, natt, mode)
				add(3*time.Millisecond, 0, natt, mode)
			}
		}
	}
	return ts
}

func runOnline(run *vk.Run, transports []string, timeouts []time.Duration, reps int) {
	w, err := e2e.New(e2e.Config{Transports: transports, Clients: 1, WaitUpgrade: len(transports) == 2,
		OnServerSocket: func(_ int, ss sio.ServerSocket) { registerResponder(ss, nil) },
		OnClientSocket: func(_ int, cs sio.ClientSocket) { registerResponder(cs, nil) },
	})
	if err != nil {
		run.Inconclusive("online world: " + err.Error())
		return
	}
	defer w.Close()
	var all []*trial
	for _, dir := range []string{"c2s", "s2c"} {
		ts := onlineTrials(run, timeouts, reps)
		var sock emitterSock = w.Clients[0].S
		if dir == "s2c" {
			sock = w.Clients[0].SS()
		}
		for _, t := range ts {
			t.dir = dir
		}
		// all trials of one direction are issued concurrently: many acks outstanding at once
		var wg sync.WaitGroup
		for _, t := range ts {
			wg.Add(1)
			go func(t *trial) { defer wg.Done(); issue(sock, t) }(t)
		}
		wg.Wait()
		all = append(all, ts...)
		run.Count("max_outstanding", int64(len(ts)))
	}
	maxT := time.Duration(0)
	for _, t := range all {
		if t.timeout > maxT {
			maxT = t.timeout
		}
		if 2*t.delay > maxT {
			maxT = 2 * t.delay
		}
	}
	// exactly-once is decided at timeout + 10 s; return early once everything with a timeout was called
	vk.WaitUntil(maxT+10*time.Second, func() bool {
		for _, t := range all {
			if t.res.calls.Load() == 0 && (t.timeout > 0 || t.delay >= 0) {
				return false
			}
		}
		return true
	})
	time.Sleep(50 * time.Millisecond) // let double invocations surface
	for _, t := range all {
		run.Eval(1)
		judge(run, t, "online")
	}
	var f []e2e.Fault
	for _, x := range w.Faults() {
		// A reply that arrives after its timeout fired is reported to the error handlers ("ACK with ID n not found");
		// the property does not forbid that report and the socket stays usable.
		if strings.Contains(x.What, "ACK with ID") && strings.Contains(x.What, "not found") {
			run.Count("late_reply_reported_as_error", 1)
			continue
		}
		f = append(f, x)
	}
	if len(f) > 0 {
		run.Violation(vk.Violation{Sub: "socket-unusable", Fields: map[string]any{"ctx": "online"},
			What: fmt.Sprintf("lifecycle callback during ack trials: %s %s", f[0].Who, f[0].What), Witness: map[string]any{"faults": fmt.Sprint(f)}})
	}
}

// Big replies inside the race band, one trial at a time: the reply (about 600 KB of JSON) takes long
// to decode, so "timer fires while the matched reply is on its way into the callback" is hit by
// a fair share of the trials instead of once in 10^5. The oracle is the same: exactly one invocation,
// reply xor timeout error.
func runBigReplyRace(run *vk.Run, transports []string, n int) {
	w, err := e2e.New(e2e.Config{Transports: transports, Clients: 1, WaitUpgrade: len(transports) == 2,
		OnServerSocket: func(_ int, ss sio.ServerSocket) { registerResponder(ss, nil) },
		OnClientSocket: func(_ int, cs sio.ClientSocket) { registerResponder(cs, nil) },
	})
	if err != nil {
		run.Inconclusive("big-reply world: " + err.Error())
		return
	}
	defer w.Close()
	rnd := run.Rand("c03/big/" + strings.Join(transports, "+"))
	for _, dir := range []string{"c2s", "s2c"} {
		var sock emitterSock = w.Clients[0].S
		if dir == "s2c" {
			sock = w.Clients[0].SS()
		}
		// round-trip time of a big reply (includes decoding), to centre the band
		var rtt time.Duration
		for i := 0; i < 3; i++ {
			t := &trial{uid: nextUID(), delay: 0, timeout: 10 * time.Second, big: true, mode: 1, dir: dir, res: &result{}}
			issue(sock, t)
			vk.WaitUntil(12*time.Second, func() bool { return t.res.calls.Load() > 0 })
			t.res.mu.Lock()
			d := t.res.at.Sub(t.res.emitted)
			t.res.mu.Unlock()
			if t.res.calls.Load() == 0 {
				run.Inconclusive("big-reply " + dir + ": calibration reply not received")
				return
			}
			if i == 0 || d < rtt {
				rtt = d
			}
			run.Eval(1)
			judge(run, t, "online-big")
		}
		run.Note("big_reply_rtt_"+dir+"_"+strings.Join(transports, "+"), rtt.String())
		T := 30*time.Millisecond + rtt
		var ts []*trial
		for i := 0; i < n; i++ {
			// reply expected to reach the callback at T - rtt .. T + 1 ms + jitter
			d := T - rtt - 2*time.Millisecond + time.Duration(rnd.Int63n(int64(rtt+4*time.Millisecond)))
			if d < 0 {
				d = 0
			}
			t := &trial{uid: nextUID(), delay: d, timeout: T, big: true, mode: 1 + i%3, dir: dir, res: &result{}}
			issue(sock, t)
			vk.WaitUntil(T+10*time.Second, func() bool { return t.res.calls.Load() > 0 })
			ts = append(ts, t)
		}
		time.Sleep(100 * time.Millisecond) // let double invocations surface
		for _, t := range ts {
			run.Eval(1)
			judge(run, t, "online-big")
		}
	}
}

// wire-level: responder (real server) calls its ack function twice / concurrently: at most one ACK packet per id.
func runWire(run *vk.Run, transport string, n int) {
	srv, err := rig.NewServer(nil, "")
	if err != nil {
		run.Inconclusive(err.Error())
		return
	}
	defer srv.Close()
	srv.IO.OnConnection(func(s sio.ServerSocket) { registerResponder(s, nil) })
	peer, err := rawpeer.DialSIO(srv.URL, transport)
	if err != nil {
		run.Inconclusive(err.Error())
		return
	}
	defer peer.C.Close()
	if res, err := peer.Connect("/", nil, 30*time.Second); err != nil || !res.OK {
		run.Inconclusive(fmt.Sprintf("wire connect: %v", err))
		return
	}
	for i := 0; i < n; i++ {
		id := uint64(i)
		mode := 2 + i%2
		peer.Emit("/", &id, "q0", jn(1000+i), jn(0), jn(mode))
	}
	fid := uint64(n + 5)
	peer.Emit("/", &fid, "probe", jn(1))
	_, _, err = peer.WaitPacket(0, 30*time.Second, func(p *refcodec.Packet) bool { return p.Type == refcodec.Ack && p.ID != nil && *p.ID == fid })
	time.Sleep(100 * time.Millisecond)
	counts := map[uint64]int{}
	for _, sp := range peer.Packets() {
		if (sp.P.Type == refcodec.Ack || sp.P.Type == refcodec.BinaryAck) && sp.P.ID != nil {
			counts[*sp.P.ID]++
		}
	}
	for i := 0; i < n; i++ {
		run.Eval(1)
		c := counts[uint64(i)]
		if c > 1 {
			run.Violation(vk.Violation{Sub: "wire-double-ack", Fields: map[string]any{"transport": transport},
				What: fmt.Sprintf("%d ACK packets on the wire for one event id (responder called its ack function twice)", c), Witness: map[string]any{"id": i}})
		}
		if c == 0 && err == nil {
			run.Violation(vk.Violation{Sub: "wire-no-ack", Fields: map[string]any{"transport": transport},
				What: fmt.Sprintf("no ACK packet for id %d although the responder acked and a later fence was acked", i), Witness: map[string]any{"id": i}})
		}
	}
	run.Distinct("wire/" + transport)
	run.Count("wire_acks_checked", int64(n))
}

func jn(i int) any { return refJSONNumber(i) }

// offline: emit with a timeout while the socket has never been connected; then connect.
func runOffline(run *vk.Run, natt int, transports []string) {
	run.Eval(1)
	srv, err := rig.NewServer(nil, "")
	if err != nil {
		run.Inconclusive(err.Error())
		return
	}
	defer srv.Close()
	var seen sync.Map
	var srvFaults atomic.Int32
	var firstFault atomic.Value
	srv.IO.OnConnection(func(s sio.ServerSocket) {
		registerResponder(s, &seen)
		s.OnError(func(err error) { srvFaults.Add(1); firstFault.CompareAndSwap(nil, "error: "+err.Error()) })
		s.OnDisconnect(func(r sio.Reason) { srvFaults.Add(1); firstFault.CompareAndSwap(nil, "disconnect: "+string(r)) })
	})
	mcfg := rig.ManagerConfig(transports...)
	m := sio.NewManager(srv.URL, mcfg)
	defer m.Close()
	sock := m.Socket("/", nil)
	var connects atomic.Int32
	sock.OnConnect(func() { connects.Add(1) })
	var mgrErr atomic.Value
	m.OnError(func(err error) { mgrErr.CompareAndSwap(nil, err.Error()) })

	// an event WITHOUT acknowledgement sits in the offline buffer, in front of the timed ones, when their timeouts fire
	plainUID := nextUID()
	sock.Emit("plain", plainUID)
	// three buffered ack-carrying emissions with a short timeout, never sent
	T := 60 * time.Millisecond
	var ts []*trial
	for i := 0; i < 3; i++ {
		t := &trial{uid: nextUID(), delay: 0, timeout: T, natt: natt, mode: 1, dir: "c2s", res: &result{}}
		ts = append(ts, t)
		issue(sock, t)
	}
	// the same with the volatile flag: nothing is buffered, the timer still answers the caller
	for i := 0; i < 2; i++ {
		t := &trial{uid: nextUID(), delay: 0, timeout: T, natt: natt, mode: 1, dir: "c2s", volatile: true, res: &result{}}
		ts = append(ts, t)
		issue(sock, t)
	}
	keepUID := nextUID()
	sock.Emit("q0", keepUID, 0, 1, func(int) {}) // buffered without timeout: must still be delivered after connect
	vk.WaitUntil(T+10*time.Second, func() bool {
		for _, t := range ts {
			if t.res.calls.Load() == 0 {
				return false
			}
		}
		return true
	})
	ctx := fmt.Sprintf("offline-att%d", natt)
	for _, t := range ts {
		judge(run, t, ctx)
		t.res.mu.Lock()
		err := t.res.err
		t.res.mu.Unlock()
		if t.res.calls.Load() == 1 && err == nil {
			run.Violation(vk.Violation{Sub: "ack-phantom-reply", Fields: map[string]any{"ctx": ctx}, What: "never-connected socket got a reply", Witness: map[string]any{"uid": t.uid}})
		}
	}
	// now connect: the socket must be usable (every call under a watchdog: a mutex left locked by the purge
	// makes Connect / Emit block for good)
	f := map[string]any{"ctx": ctx, "attachments": natt}
	if !vk.Watchdog(20*time.Second, func() { sock.Connect() }) {
		run.Violation(vk.Violation{Sub: "socket-unusable", Fields: f, What: "Connect() blocked for 20 s after offline ack timeouts",
			Witness: map[string]any{"stacks": vk.DumpGoroutines("c03-offline-connect")}})
		return
	}
	if !vk.WaitUntil(20*time.Second, func() bool { return connects.Load() > 0 }) {
		run.Violation(vk.Violation{Sub: "socket-unusable", Fields: f,
			What:    fmt.Sprintf("after %d offline ack timeouts (each packet buffered as %d frames) the client's connect handler never ran within 20 s of Connect()", len(ts), natt+1),
			Witness: map[string]any{"attachments": natt, "manager_error": mgrErr.Load(), "stacks": vk.DumpGoroutines("c03-offline")}})
		return
	}
	probeDone := make(chan int, 1)
	if !vk.Watchdog(20*time.Second, func() { sock.Emit("probe", 41, func(n int) { probeDone <- n }) }) {
		run.Violation(vk.Violation{Sub: "socket-unusable", Fields: f, What: "Emit blocked for 20 s on a connected socket after offline ack timeouts (a mutex of the socket was left locked)",
			Witness: map[string]any{"stacks": vk.DumpGoroutines("c03-offline-emit")}})
		return
	}
	select {
	case n := <-probeDone:
		if n != 42 {
			run.Violation(vk.Violation{Sub: "socket-unusable", Fields: f, What: fmt.Sprintf("probe after offline timeouts answered %d", n), Witness: nil})
		}
	case <-time.After(20 * time.Second):
		run.Violation(vk.Violation{Sub: "socket-unusable", Fields: f, What: "probe after offline ack timeouts did not round-trip within 20 s",
			Witness: map[string]any{"server_fault": firstFault.Load(), "manager_error": mgrErr.Load()}})
		return
	}
	time.Sleep(100 * time.Millisecond)
	for _, t := range ts {
		if _, ok := seen.Load(t.uid); ok {
			run.Violation(vk.Violation{Sub: "purged-event-sent", Fields: f,
				What: fmt.Sprintf("event uid %d whose ack had already timed out offline was still sent to the server after connect", t.uid), Witness: map[string]any{"uid": t.uid}})
		}
	}
	if _, ok := seen.Load(plainUID); !ok {
		run.Violation(vk.Violation{Sub: "buffered-event-lost", Fields: f,
			What: "an event buffered offline without acknowledgement, in front of emits whose timeouts expired offline, was not delivered after connect", Witness: map[string]any{"uid": plainUID}})
	}
	if _, ok := seen.Load(keepUID); !ok {
		run.Violation(vk.Violation{Sub: "buffered-event-lost", Fields: f,
			What: "an event buffered offline WITHOUT timeout was not delivered after connect (purge removed too much)", Witness: map[string]any{"uid": keepUID}})
	}
	if srvFaults.Load() > 0 {
		run.Violation(vk.Violation{Sub: "socket-unusable", Fields: f,
			What: fmt.Sprintf("server reported %v after the offline-timeout sequence (orphan frames?)", firstFault.Load()), Witness: map[string]any{"server_fault": firstFault.Load()}})
	}
	if e := mgrErr.Load(); e != nil {
		run.Violation(vk.Violation{Sub: "socket-unusable", Fields: f, What: fmt.Sprintf("manager error after offline-timeout sequence: %v", e), Witness: nil})
	}
	run.Distinct("offline/att=" + fmt.Sprint(natt) + "/" + fmt.Sprint(transports))
}

// mid-flight disconnect: the link is cut between emit and reply.
func runMidFlight(run *vk.Run, n int) {
	srv, err := rig.NewServer(nil, "")
	if err != nil {
		run.Inconclusive(err.Error())
		return
	}
	defer srv.Close()
	srv.IO.OnConnection(func(s sio.ServerSocket) { registerResponder(s, nil) })
	px, err := proxy.New(srv.Addr)
	if err != nil {
		run.Inconclusive(err.Error())
		return
	}
	defer px.Close()
	mcfg := rig.ManagerConfig("websocket")
	mcfg.NoReconnection = true
	m := sio.NewManager(px.URL("/socket.io/"), mcfg)
	defer m.Close()
	sock := m.Socket("/", nil)
	connected := make(chan struct{}, 1)
	sock.OnConnect(func() { connected <- struct{}{} })
	sock.Connect()
	select {
	case <-connected:
	case <-time.After(30 * time.Second):
		run.Inconclusive("mid-flight: no connect")
		return
	}
	var ts []*trial
	for i := 0; i < n; i++ {
		T := time.Duration(0)
		if i%2 == 0 {
			T = 150 * time.Millisecond
		}
		t := &trial{uid: nextUID(), delay: 30 * time.Millisecond, timeout: T, natt: (i % 3) * (i % 2) * 0, mode: 1, dir: "c2s", res: &result{}}
		if i%4 == 1 {
			t.natt = 2
		}
		ts = append(ts, t)
		issue(sock, t)
	}
	time.Sleep(10 * time.Millisecond)
	px.CutAll() // replies (due after 30 ms) can never arrive
	vk.WaitUntil(11*time.Second, func() bool {
		for _, t := range ts {
			if t.timeout > 0 && t.res.calls.Load() == 0 {
				return false
			}
		}
		return true
	})
	for _, t := range ts {
		run.Eval(1)
		judge(run, t, "midflight")
	}
	// emitted after the disconnection (no reconnection configured), timed, half of them volatile: the packet goes
	// nowhere, the caller is answered by the timer - once
	var disc atomic.Bool
	sock.OnDisconnect(func(sio.Reason) { disc.Store(true) })
	if !vk.WaitUntil(20*time.Second, func() bool { return disc.Load() || !sock.Connected() }) {
		run.Inconclusive("mid-flight: the client did not notice the cut within 20 s")
		return
	}
	var after []*trial
	for i := 0; i < 6; i++ {
		t := &trial{uid: nextUID(), delay: never, timeout: 100 * time.Millisecond, natt: 2 * (i % 2), mode: 1, dir: "c2s", volatile: i%3 != 0, res: &result{}}
		after = append(after, t)
		issue(sock, t)
	}
	vk.WaitUntil(11*time.Second, func() bool {
		for _, t := range after {
			if t.res.calls.Load() == 0 {
				return false
			}
		}
		return true
	})
	time.Sleep(50 * time.Millisecond)
	for _, t := range after {
		run.Eval(1)
		judge(run, t, "after-disconnect")
	}
	run.Distinct("after-disconnect/volatile+timed")
}

// mid-flight disconnect WITH reconnection: acknowledgements of the old connection are still outstanding (their
// timers running) when the socket is connected again and new ack-carrying emits are made. The old timers must
// only ever touch their own emissions: the new ones, answered in time, get their replies.
func runMidFlightReconnect(run *vk.Run, n int) {
	srv, err := rig.NewServer(nil, "")
	if err != nil {
		run.Inconclusive(err.Error())
		return
	}
	defer srv.Close()
	srv.IO.OnConnection(func(s sio.ServerSocket) { registerResponder(s, nil) })
	px, err := proxy.New(srv.Addr)
	if err != nil {
		run.Inconclusive(err.Error())
		return
	}
	defer px.Close()
	mcfg := rig.ManagerConfig("websocket")
	mcfg.ReconnectionDelay = rig.Dur(20 * time.Millisecond)
	mcfg.ReconnectionDelayMax = rig.Dur(20 * time.Millisecond)
	mcfg.RandomizationFactor = rig.F32(0)
	m := sio.NewManager(px.URL("/socket.io/"), mcfg)
	defer m.Close()
	sock := m.Socket("/", nil)
	var connects atomic.Int32
	sock.OnConnect(func() { connects.Add(1) })
	sock.Connect()
	if !vk.WaitUntil(30*time.Second, func() bool { return connects.Load() >= 1 }) {
		run.Inconclusive("mid-flight-reconnect: no connect")
		return
	}
	var old, fresh []*trial
	for i := 0; i < n; i++ {
		t := &trial{uid: nextUID(), delay: never, timeout: 500 * time.Millisecond, natt: 2 * (i % 2), mode: 1, dir: "c2s", res: &result{}}
		old = append(old, t)
		issue(sock, t)
	}
	time.Sleep(10 * time.Millisecond)
	px.CutAll()
	if !vk.WaitUntil(20*time.Second, func() bool { return connects.Load() >= 2 }) {
		run.Inconclusive("mid-flight-reconnect: no reconnect within 20 s")
		return
	}
	// answered 700 ms after receipt: after the old timers (500 ms after THEIR emit) have fired, well before 5 s
	for i := 0; i < n; i++ {
		t := &trial{uid: nextUID(), delay: 700 * time.Millisecond, timeout: 5 * time.Second, natt: 2 * (i % 2), mode: 1, dir: "c2s", res: &result{}}
		fresh = append(fresh, t)
		issue(sock, t)
	}
	vk.WaitUntil(8*time.Second, func() bool {
		for _, t := range append(append([]*trial(nil), old...), fresh...) {
			if t.res.calls.Load() == 0 {
				return false
			}
		}
		return true
	})
	time.Sleep(50 * time.Millisecond)
	for _, t := range old {
		run.Eval(1)
		judge(run, t, "midflight-reconnect-old")
	}
	for _, t := range fresh {
		run.Eval(1)
		judge(run, t, "midflight-reconnect-new")
		t.res.mu.Lock()
		err := t.res.err
		t.res.mu.Unlock()
		if t.res.calls.Load() >= 1 && err != nil {
			run.Violation(vk.Violation{Sub: "ack-spurious-timeout", Fields: map[string]any{"dir": "c2s", "ctx": "midflight-reconnect-new", "binary": t.natt > 0},
				What:    fmt.Sprintf("uid %d: emitted after a reconnect with a 5 s timeout and answered after 0.7 s, but the callback got %v (acknowledgements of the previous connection were still outstanding)", t.uid, err),
				Witness: map[string]any{"uid": t.uid, "outstanding_from_previous_connection": len(old)}})
		}
	}
	run.Distinct("midflight-reconnect")
}

func main() {
	run := vk.Start("C03", "exploration")
	run.Rule("ack trials: reply delay d in {0, T/2, T-2ms..T+2ms step 0.25ms (race band), 2T, never} for T in {20,100,400 ms} x {0,2 attachments} x responder calling ack {1x,2x,2x concurrently} x {c2s,s2c}, " +
		"all trials of a direction outstanding at once; offline (never connected) timeouts with 0..3 attachments followed by connect + probe; link cut mid-flight (without reconnection, and with reconnection followed by new ack-carrying emits while the old timers still run); wire-level ACK count; " +
		"distinct = (context, direction, timeout, band, attachments, responder mode, outcome class)")
	run.Assume("no outcome is prescribed inside the race band (reply and timer within 3 ms of each other); callbacks are counted, not timed",
		"'exactly once with a timeout' is decided at timeout + 10 s")
	timeouts := []time.Duration{20 * time.Millisecond, 100 * time.Millisecond, 400 * time.Millisecond}
	reps := run.Pick(2, 12)
	if os.Getenv("VERIF_C03_ONLY") == "retry" { // development aid
		runRetryQueueAll(run)
		run.Finish()
	}
	if run.SubMode == "race" {
		runOnline(run, []string{"websocket"}, timeouts, 2)
		for natt := 0; natt <= 3; natt++ {
			runOffline(run, natt, []string{"websocket"})
		}
		runRetryQueueAll(run) // the retry queue's timers, replies and drains under the race detector
		run.Finish()
	}
	for _, tr := range [][]string{{"websocket"}, {"polling"}, {"polling", "websocket"}} {
		runOnline(run, tr, timeouts, reps)
	}
	for _, tr := range [][]string{{"websocket"}, {"polling"}} {
		runBigReplyRace(run, tr, run.Pick(40, 300))
	}
	runWire(run, "websocket", run.Pick(100, 1000))
	runWire(run, "polling", run.Pick(100, 1000))
	for rep := 0; rep < run.Pick(1, 5); rep++ {
		for natt := 0; natt <= 3; natt++ {
			runOffline(run, natt, []string{"websocket"})
			runOffline(run, natt, []string{"polling"})
		}
	}
	for rep := 0; rep < run.Pick(2, 10); rep++ {
		runMidFlight(run, 24)
		runMidFlightReconnect(run, 8)
	}
	runRetryQueueAll(run)
	if bin := os.Getenv("VERIF_RACE_BIN"); bin != "" && run.Thorough() {
		if s, err := vk.RunSub(bin, "race", run, 20*time.Minute); err != nil {
			run.Inconclusive("race sub-pass: " + err.Error())
		} else {
			run.Merge("race:", s)
		}
	}
	run.Finish()
}

func refJSONNumber(i int) any { return json.Number(fmt.Sprint(i)) }
