// C09 — Socket.IO encoding round-trips, matches the v5 format, leaves its input intact.
//
// Monitor: generated packets are pushed through the real encoder; the produced frames
// are decoded (1) by the independent reference codec (format conformance), (2) by the
// real decoder into the same static types and (3) into the generic `any` family; the
// caller's value graph is snapshotted before and compared after Encode; the same values
// are encoded a second time; and frames produced by the reference encoder are fed to the
// real decoder (interop the other way).
package main

import (
	"fmt"
	"math"
	"math/rand"
	"reflect"
	"strings"
	"time"

	"github.com/karagenc/socket.io-go/parser"
	jsonparser "github.com/karagenc/socket.io-go/parser/json"
	"github.com/karagenc/socket.io-go/parser/json/serializer/stdjson"

	"sioverif/internal/gen"
	"sioverif/internal/refcodec"
	"sioverif/internal/vk"
)

type caseT struct {
	Type   int
	Nsp    string
	ID     *uint64
	Event  string
	Shapes []string
	Size   int
	args   []any
	shapes []*gen.Shape
}

func (c *caseT) describe() map[string]any {
	m := map[string]any{"type": c.Type, "nsp": c.Nsp, "event": c.Event, "shapes": c.Shapes, "size": c.Size}
	if c.ID != nil {
		m["id"] = fmt.Sprint(*c.ID)
	}
	return m
}

var creator = jsonparser.NewCreator(0, stdjson.New())

func ackID(r *rand.Rand) *uint64 {
	var v uint64
	switch r.Intn(8) {
	case 0:
		return nil
	case 1:
		v = 0
	case 2:
		v = 1
	case 3:
		v = math.MaxInt64
	case 4:
		v = 1 << 63
	case 5:
		v = math.MaxUint64
	default:
		v = r.Uint64() >> uint(r.Intn(64))
	}
	return &v
}

func genCase(r *rand.Rand) *caseT {
	c := &caseT{Nsp: gen.Namespace(r)}
	switch r.Intn(10) {
	case 0:
		c.Type = refcodec.Ack
	case 1:
		c.Type = refcodec.Connect
	case 2:
		c.Type = refcodec.Disconnect
	case 3:
		c.Type = refcodec.ConnectError
	default:
		c.Type = refcodec.Event
	}
	switch c.Type {
	case refcodec.Event:
		c.ID = ackID(r)
		c.Event = gen.EventName(r)
	case refcodec.Ack:
		for c.ID == nil {
			c.ID = ackID(r)
		}
	}
	if c.Type == refcodec.Event || c.Type == refcodec.Ack {
		n := r.Intn(5)
		sizes := []int{0, 1, 3, 17, 100, 1000}
		c.Size = sizes[r.Intn(len(sizes))]
		for i := 0; i < n; i++ {
			s := &gen.Shapes[r.Intn(len(gen.Shapes))]
			c.shapes = append(c.shapes, s)
			c.Shapes = append(c.Shapes, s.Name)
			c.args = append(c.args, s.Make(r, c.Size))
		}
	}
	return c
}

// realDecode feeds frames to a fresh real parser and decodes with the given types.
func realDecode(frames [][]byte, types []reflect.Type) (hdr *parser.PacketHeader, event string, vals []reflect.Value, err error) {
	defer func() {
		if p := recover(); p != nil {
			err = fmt.Errorf("PANIC: %v", p)
		}
	}()
	p := creator()
	finished := false
	for i, f := range frames {
		e := p.Add(f, func(h *parser.PacketHeader, ev string, decode parser.Decode) {
			finished = true
			hdr, event = h, ev
			vals, err = decode(types...)
		})
		if e != nil {
			return nil, "", nil, fmt.Errorf("Add(frame %d): %w", i, e)
		}
	}
	if !finished {
		return nil, "", nil, fmt.Errorf("decoder did not finish after %d frames", len(frames))
	}
	return
}

func valsCanon(vals []reflect.Value) []any {
	out := make([]any, len(vals))
	for i, v := range vals {
		if v.CanInterface() {
			out[i] = gen.CanonOf(v.Interface())
		} else {
			out[i] = "?non-interfaceable"
		}
	}
	return out
}

// firstBinMismatch walks expected vs got and returns the container chain of the
// first binary leaf that did not come back as binary with the right bytes.
func firstBinMismatch(exp, got any, chain string) (string, bool) {
	switch x := exp.(type) {
	case refcodec.Bin:
		if refcodec.Equal(exp, got) != "" {
			return chain, true
		}
	case []any:
		y, ok := got.([]any)
		if !ok || len(y) != len(x) {
			return "", false
		}
		for i := range x {
			if c, f := firstBinMismatch(x[i], y[i], chain+"/slice"); f {
				return c, true
			}
		}
	case map[string]any:
		y, ok := got.(map[string]any)
		if !ok {
			return "", false
		}
		for k := range x {
			if c, f := firstBinMismatch(x[k], y[k], chain+"/map"); f {
				return c, true
			}
		}
	}
	return "", false
}

func lastSeg(chain string) string {
	if i := strings.LastIndexByte(chain, '/'); i >= 0 {
		return chain[i+1:]
	}
	return chain
}

func main() {
	run := vk.Start("C09", "exploration")
	run.Rule("seeded generator: packet type x namespace x ack id (uint64 range) x hostile event name x 0..4 arguments from the shape registry x size class; " +
		"a case is non-trivial/distinct by (type, has-id, namespace-class, sorted shape multiset, size)")
	run.Assume("stdjson serializer (the default); reference codec written from the v5 protocol text; encoding/json data model for canonical trees")
	n := run.Pick(20000, 400000)
	r := run.Rand("c09")

	check := func(c *caseT) {
		run.Eval(1)
		nspClass := "root"
		if c.Nsp != "/" {
			nspClass = "custom"
		}
		run.Distinct(fmt.Sprintf("t%d/id%v/%s/%v/%d", c.Type, c.ID != nil, nspClass, c.Shapes, c.Size))
		fields := func(sub string, extra map[string]any) map[string]any {
			m := map[string]any{"type": c.Type}
			for k, v := range extra {
				m[k] = v
			}
			return m
		}
		viol := func(sub, what string, extra map[string]any) {
			run.Violation(vk.Violation{Sub: sub, Fields: fields(sub, extra), What: what, Witness: c.describe()})
		}

		// Expected canonical packet, computed BEFORE encoding.
		exp := &refcodec.Packet{Type: c.Type, Namespace: c.Nsp, ID: c.ID}
		var v any
		var types []reflect.Type
		before := make([]any, len(c.args))
		for i := range c.args {
			before[i] = gen.CanonOf(c.args[i])
		}
		switch c.Type {
		case refcodec.Event:
			arr := append([]any{c.Event}, c.args...)
			v = &arr
			exp.HasData = true
			exp.Data = append([]any{c.Event}, before...)
			for _, s := range c.shapes {
				types = append(types, s.Type)
			}
		case refcodec.Ack:
			arr := append([]any{}, c.args...)
			v = &arr
			exp.HasData = true
			exp.Data = append([]any{}, before...)
			for _, s := range c.shapes {
				types = append(types, s.Type)
			}
		case refcodec.Connect:
			m := map[string]any{"sid": "abc", "pid": "p\"q"}
			v = &m
			exp.HasData = true
			exp.Data = gen.CanonOf(m)
		case refcodec.ConnectError:
			m := map[string]any{"message": "denied \\ \"x\"", "data": map[string]any{"code": float64(7)}}
			v = &m
			exp.HasData = true
			exp.Data = gen.CanonOf(m)
		case refcodec.Disconnect:
			v = nil
		}
		nExpBins := gen.CountBins(exp.Data)
		if nExpBins > 0 {
			if exp.Type == refcodec.Event {
				exp.Type = refcodec.BinaryEvent
			} else if exp.Type == refcodec.Ack {
				exp.Type = refcodec.BinaryAck
			}
			exp.Attachments = nExpBins
		}

		enc := creator()
		hdr := &parser.PacketHeader{Type: parser.PacketType(c.Type), Namespace: c.Nsp, ID: c.ID}
		frames, err := safeEncode(enc, hdr, v)
		if err != nil {
			viol("encode-error", "Encode failed: "+err.Error(), map[string]any{"shapes": strings.Join(c.Shapes, ",")})
			return
		}

		// (1) format conformance via the reference decoder.
		got, err := refcodec.DecodeSIO(frames)
		if err != nil {
			viol("format", fmt.Sprintf("reference decoder rejects the produced frames: %v (header %q)", err, trunc(frames[0])), nil)
		} else {
			if got.Type != exp.Type || got.Namespace != exp.Namespace || !idEq(got.ID, exp.ID) || got.Attachments != exp.Attachments {
				viol("format", fmt.Sprintf("header mismatch: got type=%d nsp=%q id=%s att=%d, want type=%d nsp=%q id=%s att=%d (frame %q)",
					got.Type, got.Namespace, idStr(got.ID), got.Attachments, exp.Type, exp.Namespace, idStr(exp.ID), exp.Attachments, trunc(frames[0])), nil)
			} else if got.HasData != exp.HasData {
				viol("format", fmt.Sprintf("payload presence mismatch (frame %q)", trunc(frames[0])), nil)
			} else if d := refcodec.Equal(exp.Data, got.Data); d != "" {
				viol("format", "payload differs from what was emitted at "+d, nil)
			}
		}

		// (4) input untouched.
		knownMutation := false
		for i := range c.args {
			after := gen.CanonOf(c.args[i])
			if d := refcodec.Equal(before[i], after); d != "" {
				kind := mutationKind(before[i], after)
				shared := c.shapes[i].BinClass == "ptr-struct" || c.shapes[i].BinClass == "map" || c.shapes[i].BinClass == "slice" || c.shapes[i].Name == "S5"
				if kind == "binary-leaf-to-placeholder" && shared {
					knownMutation = true
				}
				viol("input-mutated", fmt.Sprintf("argument %d (%s) changed by Encode at %s", i, c.shapes[i].Name, d),
					map[string]any{"mutation": kind, "binary_behind_shared_memory": shared})
			}
		}

		if c.Type == refcodec.Event || c.Type == refcodec.Ack {
			// (2) typed round trip through the real decoder.
			h2, ev, vals, err := realDecode(frames, types)
			if err != nil {
				viol("roundtrip-typed", "real decoder fails on real encoder output: "+err.Error(),
					map[string]any{"event_trailing_backslash": strings.HasSuffix(c.Event, `\`)})
			} else {
				if int(h2.Type) != exp.Type || h2.Namespace != exp.Namespace || !idEq(h2.ID, exp.ID) {
					viol("roundtrip-typed", fmt.Sprintf("header differs after round trip: type=%d nsp=%q id=%s", h2.Type, h2.Namespace, idStr(h2.ID)), nil)
				}
				if c.Type == refcodec.Event && ev != c.Event {
					viol("roundtrip-typed", fmt.Sprintf("event name %q came back as %q", c.Event, ev), nil)
				}
				gotArgs := valsCanon(vals)
				if len(gotArgs) != len(before) {
					viol("roundtrip-typed", fmt.Sprintf("%d values decoded, %d emitted", len(gotArgs), len(before)), nil)
				} else {
					for i := range before {
						if d := refcodec.Equal(before[i], gotArgs[i]); d != "" {
							viol("roundtrip-typed", fmt.Sprintf("argument %d (%s) differs at %s", i, c.shapes[i].Name, d),
								map[string]any{"shape": c.shapes[i].Name, "bin_class": c.shapes[i].BinClass})
						}
					}
				}
			}
			// (3) generic round trip.
			gtypes := make([]reflect.Type, len(types))
			_, _, vals, err = realDecode(frames, gtypes)
			if err != nil {
				viol("roundtrip-generic", "real decoder (generic targets) fails: "+err.Error(),
					map[string]any{"event_trailing_backslash": strings.HasSuffix(c.Event, `\`)})
			} else {
				gotArgs := valsCanon(vals)
				for i := range before {
					if i >= len(gotArgs) {
						break
					}
					if d := refcodec.Equal(before[i], gotArgs[i]); d != "" {
						chain, isBin := firstBinMismatch(before[i], gotArgs[i], "top")
						lc := "none"
						if isBin {
							lc = lastSeg(chain)
						}
						viol("roundtrip-generic", fmt.Sprintf("argument %d (%s) differs at %s (binary leaf chain %q)", i, c.shapes[i].Name, d, chain),
							map[string]any{"shape": c.shapes[i].Name, "leaf_container": lc, "chain": chain})
					}
				}
			}
		}

		// (5) encoding the same values again must yield the same packet.
		hdr2 := &parser.PacketHeader{Type: parser.PacketType(c.Type), Namespace: c.Nsp, ID: c.ID}
		var v2 any
		switch c.Type {
		case refcodec.Event:
			arr := append([]any{c.Event}, c.args...)
			v2 = &arr
		case refcodec.Ack:
			arr := append([]any{}, c.args...)
			v2 = &arr
		default:
			v2 = v
		}
		frames2, err := safeEncode(creator(), hdr2, v2)
		if err != nil {
			viol("re-encode", "second Encode of the same values fails: "+err.Error(), map[string]any{"after_known_input_mutation": knownMutation})
		} else if got2, err := refcodec.DecodeSIO(frames2); err != nil {
			viol("re-encode", "second Encode yields frames the reference decoder rejects: "+err.Error(), map[string]any{"after_known_input_mutation": knownMutation})
		} else if d := refcodec.Equal(exp.Data, got2.Data); d != "" || got2.Type != exp.Type {
			viol("re-encode", "second Encode of the same values yields a different packet at "+d, map[string]any{"after_known_input_mutation": knownMutation})
		}

		// (6) reference encoder -> real decoder.
		if c.Type == refcodec.Event || c.Type == refcodec.Ack {
			rp := &refcodec.Packet{Type: c.Type, Namespace: c.Nsp, ID: c.ID, HasData: true, Data: exp.Data}
			rframes, err := refcodec.EncodeSIO(rp)
			if err == nil {
				_, ev, vals, err := realDecode(rframes, types)
				if err != nil {
					viol("interop-decode", "real decoder fails on reference frames: "+err.Error()+" header="+trunc(rframes[0]),
						map[string]any{"event_trailing_backslash": strings.HasSuffix(c.Event, `\`)})
				} else {
					if c.Type == refcodec.Event && ev != c.Event {
						viol("interop-decode", fmt.Sprintf("event name %q decoded as %q", c.Event, ev), nil)
					}
					gotArgs := valsCanon(vals)
					for i := range before {
						if i < len(gotArgs) {
							if d := refcodec.Equal(before[i], gotArgs[i]); d != "" {
								viol("interop-decode", fmt.Sprintf("argument %d (%s) differs at %s", i, c.shapes[i].Name, d),
									map[string]any{"shape": c.shapes[i].Name, "bin_class": c.shapes[i].BinClass})
							}
						}
					}
				}
			}
		}
		run.Count("packets_type_"+fmt.Sprint(c.Type), 1)
		run.Count("attachments_total", int64(nExpBins))
		if r.Intn(n/8+1) == 0 {
			s := c.describe()
			s["header_frame"] = trunc(frames[0])
			s["frames"] = len(frames)
			run.Sample(s)
		}
	}

	start := time.Now()
	for i := 0; i < n; i++ {
		check(genCase(r))
	}
	run.Logf("%d packets in %v", n, time.Since(start))
	run.Finish()
}

// mutationKind classifies how the caller's value changed: "binary-leaf-to-placeholder"
// when every difference is a binary leaf whose bytes became placeholder JSON text.
func mutationKind(before, after any) string {
	kind := "binary-leaf-to-placeholder"
	var walk func(a, b any)
	walk = func(a, b any) {
		if refcodec.Equal(a, b) == "" {
			return
		}
		switch x := a.(type) {
		case refcodec.Bin:
			y, ok := b.(refcodec.Bin)
			if !ok || !strings.HasPrefix(string(y), `{"_placeholder":true,"num":`) {
				kind = "other"
			}
		case []any:
			y, ok := b.([]any)
			if !ok || len(x) != len(y) {
				kind = "other"
				return
			}
			for i := range x {
				walk(x[i], y[i])
			}
		case map[string]any:
			y, ok := b.(map[string]any)
			if !ok || len(x) != len(y) {
				kind = "other"
				return
			}
			for k := range x {
				walk(x[k], y[k])
			}
		default:
			kind = "other"
		}
	}
	walk(before, after)
	return kind
}

func safeEncode(p parser.Parser, h *parser.PacketHeader, v any) (frames [][]byte, err error) {
	defer func() {
		if x := recover(); x != nil {
			err = fmt.Errorf("PANIC in Encode: %v", x)
		}
	}()
	return p.Encode(h, v)
}

func idEq(a, b *uint64) bool {
	if a == nil || b == nil {
		return a == b
	}
	return *a == *b
}

func idStr(a *uint64) string {
	if a == nil {
		return "-"
	}
	return fmt.Sprint(*a)
}

func trunc(b []byte) string {
	if len(b) > 100 {
		return string(b[:100]) + "..."
	}
	return string(b)
}
