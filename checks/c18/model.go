package main

import (
	"fmt"
	"sort"
	"strings"
)

// Reference model of a handler registry.
//
// A state maps (event, handler) to the number of live On registrations and the number
// of live Once registrations. Order is deliberately absent: the property does not
// constrain the order in which the handlers of one occurrence run.
//
// The model is SET-VALUED where the statement is silent: Off(h) for a handler that is
// registered k > 1 times may remove all k registrations or only some of them (one per
// time the handler is named in the call); every such outcome is a possible successor.
// An observation (who ran for an occurrence) filters the set; an observation that no
// state predicts refutes the property.

const (
	NE = 3 // events
	NH = 8 // handlers per event
)

type cnt struct{ on, once uint8 }
type evState [NH]cnt
type mstate [NE]evState

type model struct {
	states []mstate
}

func newModel() *model { return &model{states: []mstate{{}}} }

func (m *model) clone() *model {
	return &model{states: append([]mstate(nil), m.states...)}
}

func (m *model) ambiguous() bool { return len(m.states) > 1 }

func (m *model) on(e, h int) {
	for i := range m.states {
		m.states[i][e][h].on++
	}
}

func (m *model) once(e, h int) {
	for i := range m.states {
		m.states[i][e][h].once++
	}
}

func (m *model) offAll() {
	m.states = []mstate{{}}
}

// off applies Off(event e, handlers hs...). len(hs)==0 clears the event.
func (m *model) off(e int, hs []int) {
	if len(hs) == 0 {
		for i := range m.states {
			m.states[i][e] = evState{}
		}
		m.dedupe()
		return
	}
	// multiplicity with which each handler is named
	var named [NH]int
	for _, h := range hs {
		named[h]++
	}
	for h := 0; h < NH; h++ {
		if named[h] == 0 {
			continue
		}
		var next []mstate
		for _, s := range m.states {
			c := s[e][h]
			total := int(c.on) + int(c.once)
			if total == 0 {
				next = append(next, s)
				continue
			}
			// (a) every registration of h is removed
			t := s
			t[e][h] = cnt{}
			next = append(next, t)
			// (b) j registrations are removed, 1 <= j <= times named, any On/Once split
			for j := 1; j <= named[h] && j < total; j++ {
				for a := 0; a <= j; a++ { // a from On, j-a from Once
					b := j - a
					if a > int(c.on) || b > int(c.once) {
						continue
					}
					t := s
					t[e][h] = cnt{on: c.on - uint8(a), once: c.once - uint8(b)}
					next = append(next, t)
				}
			}
		}
		m.states = next
		m.dedupe()
	}
}

func (m *model) dedupe() {
	if len(m.states) < 2 {
		return
	}
	seen := make(map[mstate]struct{}, len(m.states))
	out := m.states[:0]
	for _, s := range m.states {
		if _, ok := seen[s]; ok {
			continue
		}
		seen[s] = struct{}{}
		out = append(out, s)
	}
	m.states = out
}

// predict: runs of each handler for n consecutive occurrences of event e in state s.
func predict(s *mstate, e, n int) (r [NH]int) {
	if n <= 0 {
		return
	}
	for h := 0; h < NH; h++ {
		r[h] = int(s[e][h].on)*n + int(s[e][h].once)
	}
	return
}

// matches reports whether some state predicts got for n occurrences of e (no commit).
func (m *model) matches(e, n int, got [NH]int) bool {
	for i := range m.states {
		if predict(&m.states[i], e, n) == got {
			return true
		}
	}
	return false
}

// fire commits n occurrences of e with observation got: keeps the states that predicted
// it and consumes their once registrations. Returns false (model unchanged) if no state
// predicted the observation.
func (m *model) fire(e, n int, got [NH]int) bool {
	var keep []mstate
	for i := range m.states {
		if predict(&m.states[i], e, n) == got {
			s := m.states[i]
			if n > 0 {
				for h := 0; h < NH; h++ {
					s[e][h].once = 0
				}
			}
			keep = append(keep, s)
		}
	}
	if len(keep) == 0 {
		return false
	}
	m.states = keep
	m.dedupe()
	return true
}

// bounds: per handler the smallest and largest predicted number of runs over all states.
func (m *model) bounds(e, n int) (lo, hi [NH]int) {
	for i := range m.states {
		p := predict(&m.states[i], e, n)
		for h := 0; h < NH; h++ {
			if i == 0 || p[h] < lo[h] {
				lo[h] = p[h]
			}
			if i == 0 || p[h] > hi[h] {
				hi[h] = p[h]
			}
		}
	}
	return
}

// absoluteCap: an upper bound on the TOTAL future runs of handler h for event e that
// holds for any number of occurrences (only when no state has an On registration).
func (m *model) absoluteCap(e, h int) (cap int, ok bool) {
	for i := range m.states {
		c := m.states[i][e][h]
		if c.on > 0 {
			return 0, false
		}
		if int(c.once) > cap {
			cap = int(c.once)
		}
	}
	return cap, true
}

// ---- operations ----

type op struct {
	K string // On | Once | Off | OffAll | Fire
	E int
	H []int // On/Once: one handler; Off: 0..3 handlers (0 = "no handler given": clear the event)
	N int   // Fire: number of occurrences (part B); part A always 1
}

func (o op) String() string {
	switch o.K {
	case "OffAll":
		return "OffAll()"
	case "Fire":
		if o.N > 1 {
			return fmt.Sprintf("Fire(e%d)x%d", o.E, o.N)
		}
		return fmt.Sprintf("Fire(e%d)", o.E)
	case "Off":
		hs := make([]string, len(o.H))
		for i, h := range o.H {
			hs[i] = fmt.Sprintf("h%d", h)
		}
		return fmt.Sprintf("Off(e%d;%s)", o.E, strings.Join(hs, ","))
	}
	return fmt.Sprintf("%s(e%d,h%d)", o.K, o.E, o.H[0])
}

func opsStrings(ops []op) []string {
	out := make([]string, len(ops))
	for i, o := range ops {
		out[i] = o.String()
	}
	return out
}

func (o op) isOffish() bool { return o.K == "Off" || o.K == "OffAll" }

// applyToModel applies a registry operation (not Fire) to the model.
func (m *model) apply(o op) {
	switch o.K {
	case "On":
		m.on(o.E, o.H[0])
	case "Once":
		m.once(o.E, o.H[0])
	case "Off":
		m.off(o.E, o.H)
	case "OffAll":
		m.offAll()
	}
}

func hasDup(hs []int) bool {
	for i := range hs {
		for j := i + 1; j < len(hs); j++ {
			if hs[i] == hs[j] {
				return true
			}
		}
	}
	return false
}

func contains(hs []int, h int) bool {
	for _, x := range hs {
		if x == h {
			return true
		}
	}
	return false
}

// effect describes how an observation deviates from the model's bounds, relative to the
// handlers named by the blamed operation.
func effect(lo, hi, got [NH]int, named []int) (eff string, over, under []int) {
	for h := 0; h < NH; h++ {
		if got[h] > hi[h] {
			over = append(over, h)
		}
		if got[h] < lo[h] {
			under = append(under, h)
		}
	}
	var parts []string
	for _, h := range over {
		if contains(named, h) {
			parts = append(parts, "named-handler-still-registered")
		} else {
			parts = append(parts, "unnamed-handler-ran-too-often")
		}
	}
	for _, h := range under {
		if contains(named, h) {
			parts = append(parts, "named-handler-removed-too-often")
		} else {
			parts = append(parts, "unnamed-handler-removed")
		}
	}
	if len(parts) == 0 {
		return "joint-mismatch", over, under
	}
	sort.Strings(parts)
	uniq := parts[:1]
	for _, p := range parts[1:] {
		if p != uniq[len(uniq)-1] {
			uniq = append(uniq, p)
		}
	}
	return strings.Join(uniq, "+"), over, under
}
