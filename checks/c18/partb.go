package main

import (
	"fmt"
	"math/rand"
	"net"
	"os"
	"strings"
	"sync"
	"sync/atomic"
	"time"

	sio "github.com/karagenc/socket.io-go"

	"sioverif/internal/rig"
	"sioverif/internal/vk"
)

// Part B: the model driven through every public On/Once/Off family, with real occurrences.

const (
	occurrenceWait = 20 * time.Second // waiting for an occurrence to be observed at all: timeout => inconclusive
	absenceWait    = 15 * time.Second // "handler did not run although the occurrence happened": normal latency is < 10 ms
)

type family struct {
	name  string // e.g. "Namespace.Connection"
	kind  string // lifecycle | event
	ne    int
	c     *famCtr
	on    func(e, h int)
	once  func(e, h int)
	off   func(e int, hs []int)
	mOn   string
	mOnce string
	mOff  string

	m    *model
	dead bool // a violation was reported for this family in the current program
	base [NE][NH]int
	log  []logEntry
	obs  []roundObs
}

type logEntry struct {
	Round int
	Op    op
}

type roundObs struct {
	n    [NE]int
	spec [NE]occSpec
	got  [NE][NH]int
}

func (f *family) applies(o op) bool { return f.ne > 1 || o.E == 0 || o.K == "OffAll" }

func (f *family) method(o op) string {
	switch o.K {
	case "On":
		return f.mOn
	case "Once":
		return f.mOnce
	}
	return f.mOff
}

func (f *family) delta() (r [NE][NH]int) {
	s := f.c.snap()
	for e := 0; e < NE; e++ {
		for h := 0; h < NH; h++ {
			r[e][h] = s[e][h] - f.base[e][h]
		}
	}
	return
}

func lifecycle[G any, F any](typ, ev string, c *famCtr, raw [NHB]G, conv func(G) F, fOn, fOnce func(F), fOff func(...F)) *family {
	var hs [NHB]F
	for i := range raw {
		hs[i] = conv(raw[i])
	}
	return &family{
		name: typ + "." + ev, kind: "lifecycle", ne: 1, c: c,
		mOn: typ + ".On" + ev, mOnce: typ + ".Once" + ev, mOff: typ + ".Off" + ev,
		on:   func(e, h int) { fOn(hs[h]) },
		once: func(e, h int) { fOnce(hs[h]) },
		off: func(e int, idx []int) {
			fs := make([]F, len(idx))
			for i, x := range idx {
				fs[i] = hs[x]
			}
			fOff(fs...)
		},
	}
}

func eventFam(typ string, c *famCtr, fOn, fOnce func(string, any), fOff func(string, ...any)) *family {
	hs := hsEvent(c)
	return &family{
		name: typ + ".Event", kind: "event", ne: NE, c: c,
		mOn: typ + ".OnEvent", mOnce: typ + ".OnceEvent", mOff: typ + ".OffEvent",
		on:   func(e, h int) { fOn(evName[e], hs[h]) },
		once: func(e, h int) { fOnce(evName[e], hs[h]) },
		off: func(e int, idx []int) {
			fs := make([]any, len(idx))
			for i, x := range idx {
				fs[i] = hs[x]
			}
			fOff(evName[e], fs...)
		},
	}
}

// occSpec: what the trigger knows about the occurrences it caused for (family, event).
type occSpec struct {
	exact int  // >= 0: exactly this many occurrences are known to have happened; -1: not known exactly, resolved from the observation
	min   int  // for exact == -1: at least this many are expected
	known bool // the lower bound min was established independently of the handlers under test (fewer => violation, otherwise => inconclusive)
}

type instance struct {
	typ        string
	fams       []*family
	offAll     func()
	offAllName string
	phases     func(last bool) int
	maxRounds  int  // > 0: the instance can only produce occurrences for this many rounds (later rounds are dropped)
	stop       bool // an absence verdict (15 s wait) was issued: do not run further steps of this program
	// trigger causes the occurrences of (round, phase) and says what it knows about them.
	trigger func(round, phase int, last bool) (map[string][NE]occSpec, error)
	close   func()
}

func (in *instance) fam(name string) *family {
	for _, f := range in.fams {
		if f.name == name {
			return f
		}
	}
	return nil
}

type bprog struct {
	name   string
	rounds [][]op
}

func (p *bprog) describe() []string {
	var out []string
	for i, r := range p.rounds {
		out = append(out, fmt.Sprintf("round %d: %s | occurrence(s)", i, strings.Join(opsStrings(r), " ")))
	}
	return out
}

func on(e, h int) op         { return op{K: "On", E: e, H: []int{h}} }
func once(e, h int) op       { return op{K: "Once", E: e, H: []int{h}} }
func off(e int, h ...int) op { return op{K: "Off", E: e, H: h} }

func witnessAll() []op { return []op{on(0, W), on(1, W), on(2, W)} }

func directedPrograms() []*bprog {
	w := witnessAll
	return []*bprog{
		{"on-every-time", [][]op{append(w(), on(0, 0), on(0, 1)), {}, {}}},
		{"off-one", [][]op{append(w(), on(0, 0), on(0, 1), off(0, 0)), {}}},
		{"once", [][]op{append(w(), once(0, 3), on(0, 1)), {}, {}}},
		{"once-twice", [][]op{append(w(), once(0, 3), once(0, 3)), {}}},
		{"dup-on", [][]op{append(w(), on(0, 0), on(0, 0), on(0, 1)), {}}},
		{"dup-on-then-off", [][]op{append(w(), on(0, 0), on(0, 1), on(0, 0)), {off(0, 0)}}},
		{"off-two", [][]op{append(w(), on(0, 0), on(0, 1), on(0, 2), off(0, 0, 1)), {}}},
		{"off-three", [][]op{append(w(), on(0, 0), on(0, 1), on(0, 2), on(0, 4), off(0, 0, 1, 4))}},
		{"off-same-twice", [][]op{append(w(), on(0, 0), on(0, 1), off(0, 0, 0))}},
		{"off-none-clears", [][]op{append(w(), on(0, 0), once(0, 1), off(0), on(0, W)), {}}},
		{"off-absent", [][]op{append(w(), on(0, 0), off(0, 4))}},
		{"once-then-off", [][]op{append(w(), once(0, 3), on(0, 0), off(0, 3)), {}}},
		{"offall", [][]op{append(append(w(), on(0, 0), once(0, 1), on(1, 2), op{K: "OffAll"}), w()...), {}}},
		{"off-other-event", [][]op{append(w(), on(0, 0), on(1, 0), on(1, 1), off(1, 0)), {}}},
		{"off-after-occurrence", [][]op{append(w(), on(0, 0), on(0, 1)), {off(0, 1)}, {on(0, 1)}}},
	}
}

func randomProgram(r *rand.Rand, k int) *bprog {
	p := &bprog{name: fmt.Sprintf("random-%d", k)}
	nr := 1 + r.Intn(3)
	var reg [NE][]int
	for ri := 0; ri < nr; ri++ {
		var ops []op
		if ri == 0 {
			ops = witnessAll()
		}
		n := 1 + r.Intn(6)
		for i := 0; i < n; i++ {
			e := 0
			if r.Intn(10) >= 6 {
				e = r.Intn(NE)
			}
			switch x := r.Intn(100); {
			case x < 40:
				h := r.Intn(W)
				ops = append(ops, on(e, h))
				reg[e] = append(reg[e], h)
			case x < 58:
				h := r.Intn(W)
				ops = append(ops, once(e, h))
				reg[e] = append(reg[e], h)
			case x < 90:
				k := 1 + r.Intn(3)
				if r.Intn(2) == 0 {
					k = 1
				}
				var hs []int
				for len(hs) < k {
					y := r.Intn(100)
					switch {
					case y < 65 && len(reg[e]) > 0:
						hs = append(hs, reg[e][r.Intn(len(reg[e]))])
					case y < 75 && len(hs) > 0:
						hs = append(hs, hs[r.Intn(len(hs))])
					default:
						hs = append(hs, r.Intn(W))
					}
				}
				ops = append(ops, off(e, hs...))
			case x < 96:
				ops = append(ops, off(e), on(e, W))
				reg[e] = nil
			default:
				ops = append(ops, op{K: "OffAll"})
				ops = append(ops, witnessAll()...)
				reg = [NE][]int{}
			}
		}
		p.rounds = append(p.rounds, ops)
	}
	return p
}

// ---------- runner ----------

type bctx struct {
	run *vk.Run
	mu  sync.Mutex
	cls map[string]int
}

func (b *bctx) violation(v vk.Violation) {
	b.mu.Lock()
	cls := v.Sub + fmt.Sprint(v.Fields)
	b.cls[cls]++
	n := b.cls[cls]
	b.mu.Unlock()
	if n > 3 {
		v.Witness = nil
	} else if os.Getenv("C18_DEBUG") != "" {
		b.run.Logf("debug: sub=%s fields=%v: %s", v.Sub, v.Fields, v.What)
	}
	b.run.Violation(v)
}

func witnessOf(in *instance, p *bprog, f *family, extra map[string]any) map[string]any {
	w := map[string]any{"instance": in.typ, "program": p.name, "rounds": p.describe(), "handlers": "h0..h4 subjects, h5 witness (never named in Off)"}
	if f != nil {
		w["family"] = f.name
		var obs []map[string]any
		for i, o := range f.obs {
			obs = append(obs, map[string]any{"step": i, "occurrences": o.n[:f.ne], "ran": trimObs(o.got, f.ne)})
		}
		w["committed_observations"] = obs
	}
	for k, v := range extra {
		w[k] = v
	}
	return w
}

func trimObs(g [NE][NH]int, ne int) [][]int {
	out := make([][]int, ne)
	for e := 0; e < ne; e++ {
		out[e] = append([]int(nil), g[e][:NHB]...)
	}
	return out
}

func runProgram(b *bctx, in *instance, p *bprog) {
	run := b.run
	run.Eval(1)
	run.Count("B_programs", 1)
	for _, f := range in.fams {
		f.m = newModel()
		f.base = f.c.snap()
		f.log = nil
		f.obs = nil
		f.dead = false
	}
	step := 0
	rounds := p.rounds
	if in.maxRounds > 0 && len(rounds) > in.maxRounds {
		rounds = rounds[:in.maxRounds]
	}
	for ri, ops := range rounds {
		last := ri == len(rounds)-1
		for _, o := range ops {
			if o.K == "OffAll" {
				if in.offAll == nil {
					continue
				}
				if pn := safely(in.offAll); pn != nil {
					b.violation(vk.Violation{Sub: "panic", Fields: map[string]any{"family": in.offAllName},
						What: fmt.Sprintf("%s panics: %v (program %s)", in.offAllName, trunc(fmt.Sprint(pn), 160), p.name), Witness: witnessOf(in, p, nil, nil)})
					return
				}
				for _, f := range in.fams {
					f.m.offAll()
					f.log = append(f.log, logEntry{step, o})
				}
				run.Count("B_op_OffAll", 1)
				continue
			}
			for _, f := range in.fams {
				if f.dead || !f.applies(o) {
					continue
				}
				o := o
				f := f
				pn := safely(func() {
					switch o.K {
					case "On":
						f.on(o.E, o.H[0])
					case "Once":
						f.once(o.E, o.H[0])
					case "Off":
						f.off(o.E, o.H)
					}
				})
				run.Count("B_calls_"+f.method(o), 1)
				if pn != nil {
					sub := "panic"
					if o.K == "Off" {
						sub = "off-panic"
					}
					b.violation(vk.Violation{Sub: sub, Fields: map[string]any{"family": f.method(o)},
						What:    fmt.Sprintf("%s%v panics: %v (program %s)", f.method(o), hnames(o.H), trunc(fmt.Sprint(pn), 160), p.name),
						Witness: witnessOf(in, p, f, map[string]any{"panicking_call": o.String()})})
					f.dead = true // the registry is in an unknown state: drop the family from the rest of the program
					continue
				}
				f.m.apply(o)
				f.log = append(f.log, logEntry{step, o})
			}
		}
		for ph := 0; ph < in.phases(last); ph++ {
			spec, err := in.trigger(ri, ph, last)
			if err != nil {
				run.Inconclusive(fmt.Sprintf("B %s/%s round %d phase %d: %v", in.typ, p.name, ri, ph, err))
				return
			}
			if !judge(b, in, p, step, spec) {
				return
			}
			step++
		}
	}
	for _, f := range in.fams {
		run.Count("B_family_programs_"+f.name, 1)
		if !f.dead {
			run.Count("B_family_programs_in_agreement_"+f.name, 1)
		}
	}
}

// resolveN: the number of occurrences of (f, e) in this step. Known exactly from the
// trigger, or — when the harness cannot count them itself — the smallest n (not below an
// independently established lower bound) for which some model state predicts the
// observation (the witness handler makes n unique).
func resolveN(m *model, e int, sp occSpec, got [NH]int) (n int, ok bool) {
	if sp.exact >= 0 {
		return sp.exact, m.matches(e, sp.exact, got)
	}
	lo, hi := nRange(sp, got)
	for n := lo; n <= hi; n++ {
		if m.matches(e, n, got) {
			return n, true
		}
	}
	return got[W], false
}

func nRange(sp occSpec, got [NH]int) (lo, hi int) {
	if sp.exact >= 0 {
		return sp.exact, sp.exact
	}
	for _, g := range got {
		if g > hi {
			hi = g
		}
	}
	if sp.known {
		lo = sp.min
		if hi < lo {
			hi = lo
		}
	}
	return
}

// couldGrow: can the observation still become one that the model predicts, by more
// handler runs only (counts never decrease)? If not, some handler already ran too often.
func couldGrow(m *model, e int, sp occSpec, got [NH]int) bool {
	lo, hi := nRange(sp, got)
	for n := lo; n <= hi; n++ {
		for i := range m.states {
			p := predict(&m.states[i], e, n)
			fits := true
			for h := 0; h < NH; h++ {
				if got[h] > p[h] {
					fits = false
					break
				}
			}
			if fits {
				return true
			}
		}
	}
	return false
}

// judge waits until the observation of this step is complete and compares it with the
// model, family by family. A family with a refuted observation is reported and dropped
// from the rest of the program; judge returns false when no family is left.
func judge(b *bctx, in *instance, p *bprog, step int, spec map[string][NE]occSpec) bool {
	run := b.run
	start := time.Now()
	settle := 60 * time.Millisecond
	for _, f := range in.fams {
		if !f.dead && f.m.ambiguous() {
			settle = 300 * time.Millisecond
		}
	}
	type snapT map[string][NE][NH]int
	var last snapT
	stableSince := time.Now()
	same := func(a, b snapT) bool {
		if a == nil || len(a) != len(b) {
			return false
		}
		for k, v := range a {
			if b[k] != v {
				return false
			}
		}
		return true
	}
	report := func(f *family, e, n int, got [NH]int, kind string, solid bool) {
		sub, fields, what := classifyB(in, f, e, spec[f.name][e], got, kind)
		b.violation(vk.Violation{Sub: sub, Fields: fields,
			What: fmt.Sprintf("%s (program %s, step %d, %s): %s", f.name, p.name, step, evLabel(f, e), what),
			Witness: witnessOf(in, p, f, map[string]any{"failing_step": step, "event": evLabel(f, e), "occurrences": n, "ran": got[:NHB],
				"occurrence_count_known_independently": solid})})
		f.dead = true
	}
	sleep := 200 * time.Microsecond
	for {
		cur := snapT{}
		for _, f := range in.fams {
			cur[f.name] = f.delta()
		}
		now := time.Now()
		if !same(last, cur) {
			last = cur
			stableSince = now
		}
		stable := now.Sub(stableSince)
		expired := now.Sub(start) > absenceWait
		pending := false
		for _, f := range in.fams {
			if f.dead {
				continue
			}
			for e := 0; e < f.ne && !f.dead; e++ {
				got := cur[f.name][e]
				sp := spec[f.name][e]
				n, ok := resolveN(f.m, e, sp, got)
				solid := sp.exact >= 0
				if ok && (solid || n >= sp.min) {
					continue
				}
				// which way does it deviate?
				kind := "missing"
				certain := false // an excess that is independent of the number of occurrences
				if !couldGrow(f.m, e, sp, got) {
					kind = "excess"
					certain = solid
				}
				for h := 0; h < NHB; h++ {
					if cp, capped := f.m.absoluteCap(e, h); capped && got[h] > cp {
						kind, certain = "excess", true
					}
				}
				switch {
				case kind == "excess" && ((certain && stable >= 500*time.Millisecond) || stable >= 2*time.Second || expired):
					report(f, e, n, got, kind, solid)
				case kind == "missing" && expired:
					if ok && !solid && n < sp.min && !sp.known {
						run.Inconclusive(fmt.Sprintf("B %s/%s step %d: %d occurrence(s) of %s observed within %v, expected at least %d", in.typ, p.name, step, n, f.name, absenceWait, sp.min))
						f.dead = true
					} else {
						report(f, e, n, got, kind, solid)
						in.stop = true
					}
				default:
					pending = true
				}
			}
		}
		alive := 0
		for _, f := range in.fams {
			if !f.dead {
				alive++
			}
		}
		if alive == 0 {
			return false
		}
		if !pending && in.stop {
			return false
		}
		if !pending && stable >= settle {
			for _, f := range in.fams {
				if f.dead {
					continue
				}
				var ro roundObs
				for e := 0; e < f.ne; e++ {
					got := cur[f.name][e]
					n, _ := resolveN(f.m, e, spec[f.name][e], got)
					f.m.fire(e, n, got)
					ro.n[e] = n
					ro.spec[e] = spec[f.name][e]
					ro.got[e] = got
					run.Count("B_occurrences_"+f.name, int64(n))
				}
				f.obs = append(f.obs, ro)
				for e := 0; e < NE; e++ {
					for h := 0; h < NH; h++ {
						f.base[e][h] += cur[f.name][e][h]
					}
				}
			}
			return true
		}
		time.Sleep(sleep)
		if sleep < 5*time.Millisecond {
			sleep *= 2
		}
	}
}

func evLabel(f *family, e int) string {
	if f.kind == "event" {
		return "event " + evName[e]
	}
	return f.name
}

// classifyB names the violation class. It looks for the simplest hypothesis "these
// removal calls were no-ops" under which the model explains every observation of the
// family so far; failing that, the last removal call with handlers is blamed.
func classifyB(in *instance, f *family, e int, sp occSpec, got [NH]int, kind string) (string, map[string]any, string) {
	replay := func(skip func(i int, o op) bool) bool {
		m := newModel()
		li := 0
		for st := 0; st <= len(f.obs); st++ {
			for li < len(f.log) && f.log[li].Round <= st {
				if !skip(li, f.log[li].Op) {
					m.apply(f.log[li].Op)
				}
				li++
			}
			if st < len(f.obs) {
				for ev := 0; ev < f.ne; ev++ {
					n, ok := resolveN(m, ev, f.obs[st].spec[ev], f.obs[st].got[ev])
					if !ok || !m.fire(ev, n, f.obs[st].got[ev]) {
						return false
					}
				}
			} else {
				_, ok := resolveN(m, e, sp, got)
				return ok
			}
		}
		return false
	}
	n, okN := resolveN(f.m, e, sp, got)
	if !okN && sp.exact < 0 && sp.known && n < sp.min {
		n = sp.min
	}
	lo, hi := f.m.bounds(e, n)
	detail := fmt.Sprintf("ran=%v; for %d occurrence(s) the model allows lo=%v hi=%v", got[:NHB], n, lo[:NHB], hi[:NHB])
	withArgs := func(o op) bool { return o.K == "Off" && len(o.H) > 0 }
	noArgs := func(o op) bool { return o.K == "Off" && len(o.H) == 0 }
	offAll := func(o op) bool { return o.K == "OffAll" }
	lastOf := func(pred func(op) bool) (op, bool) {
		for i := len(f.log) - 1; i >= 0; i-- {
			if pred(f.log[i].Op) {
				return f.log[i].Op, true
			}
		}
		return op{}, false
	}
	name := func(o op) (string, map[string]any, string) {
		switch {
		case offAll(o):
			return "offall-incomplete", map[string]any{"family": in.offAllName, "registry": f.name},
				fmt.Sprintf("%s() left the %s handlers registered (the observations are explained by treating the call as a no-op for this registry); %s", in.offAllName, f.name, detail)
		case noArgs(o):
			return "off-none-noop", map[string]any{"family": f.mOff},
				fmt.Sprintf("%s with no handler removed nothing (the observations are explained by treating the call as a no-op); %s", f.mOff, detail)
		}
		sub := "off-noop"
		if f.kind == "lifecycle" {
			sub = "lifecycle-off-noop"
		}
		return sub, map[string]any{"family": f.mOff},
			fmt.Sprintf("%s(%s) removed nothing (the observations are explained by treating the call as a no-op); %s", f.mOff, strings.Join(hnames(o.H), ","), detail)
	}
	// (1) one single call was a no-op
	for i := len(f.log) - 1; i >= 0; i-- {
		if f.log[i].Op.isOffish() && replay(func(j int, _ op) bool { return j == i }) {
			return name(f.log[i].Op)
		}
	}
	// (2) every call of one kind was a no-op
	for _, pred := range []func(op) bool{withArgs, noArgs, offAll} {
		if o, ok := lastOf(pred); ok && replay(func(_ int, o op) bool { return pred(o) }) {
			return name(o)
		}
	}
	// (3) not a plain no-op: attribute to the last removal call, if any
	if o, ok := lastOf(func(o op) bool { return o.isOffish() }); ok {
		eff, _, _ := effect(lo, hi, got, o.H)
		if eff == "joint-mismatch" {
			eff = "counts-inconsistent"
		}
		switch {
		case offAll(o):
			return "offall", map[string]any{"family": in.offAllName, "registry": f.name, "effect": eff}, fmt.Sprintf("after %s(): %s; %s", in.offAllName, eff, detail)
		case noArgs(o):
			return "off-none", map[string]any{"family": f.mOff, "effect": eff}, fmt.Sprintf("after %s with no handler: %s; %s", f.mOff, eff, detail)
		}
		sub := "off-single"
		if len(o.H) > 1 {
			sub = "off-multi-removal"
		}
		return sub, map[string]any{"family": f.mOff, "effect": eff},
			fmt.Sprintf("after %s(%s): %s; %s", f.mOff, strings.Join(hnames(o.H), ","), eff, detail)
	}
	sub := "handler-ran-too-often"
	if kind == "missing" {
		sub = "handler-missed-occurrence"
	}
	return sub, map[string]any{"family": f.name}, detail
}

// ---------- instances ----------

var nameSeq atomic.Int64

func uniq(prefix string) string { return fmt.Sprintf("/%s%d", prefix, nameSeq.Add(1)) }

func fastManagerConfig() *sio.ManagerConfig {
	cfg := rig.ManagerConfig("websocket")
	cfg.ReconnectionDelay = rig.Dur(15 * time.Millisecond)
	cfg.ReconnectionDelayMax = rig.Dur(30 * time.Millisecond)
	return cfg
}

type client struct {
	m *sio.Manager
	s sio.ClientSocket
}

func newClient(url, nsp string) *client {
	m := sio.NewManager(url, fastManagerConfig())
	return &client{m: m, s: m.Socket(nsp, nil)}
}

func (c *client) connect() error {
	c.s.Connect()
	if !vk.WaitUntil(occurrenceWait, c.s.Connected) {
		return fmt.Errorf("client did not connect within %v", occurrenceWait)
	}
	return nil
}

func exactAll(n int) [NE]occSpec { return [NE]occSpec{{exact: n}, {exact: n}, {exact: n}} }
func exact0(n int) [NE]occSpec   { return [NE]occSpec{{exact: n}} }
func unknown0(min int) [NE]occSpec {
	return [NE]occSpec{{exact: -1, min: min}}
}
func atLeast0(min int) [NE]occSpec {
	return [NE]occSpec{{exact: -1, min: min, known: true}}
}

func onePhase(bool) int { return 1 }

// Namespace.OnConnection/OnceConnection/OffConnection + Namespace.OnEvent/OnceEvent/OffEvent + Namespace.OffAll
func newNamespaceInstance(shared *rig.Server) (*instance, error) {
	nsp := shared.IO.Of(uniq("nsp"))
	cc, ce := new(famCtr), new(famCtr)
	var clients []*client
	in := &instance{typ: "namespace", offAll: nsp.OffAll, offAllName: "Namespace.OffAll", phases: onePhase}
	in.fams = []*family{
		lifecycle("Namespace", "Connection", cc, hsSock(cc), func(g func(sio.ServerSocket)) sio.NamespaceConnectionFunc { return g },
			nsp.OnConnection, nsp.OnceConnection, nsp.OffConnection),
		eventFam("Namespace", ce, nsp.OnEvent, nsp.OnceEvent, nsp.OffEvent),
	}
	in.trigger = func(round, phase int, last bool) (map[string][NE]occSpec, error) {
		c := newClient(shared.URL, nsp.Name())
		clients = append(clients, c)
		if err := c.connect(); err != nil {
			return nil, err
		}
		k := 1 + round%2
		for i := 0; i < k; i++ {
			for e := 0; e < NE; e++ {
				nsp.OnServerSideEmit(evName[e], e)
			}
		}
		return map[string][NE]occSpec{"Namespace.Connection": exact0(1), "Namespace.Event": exactAll(k)}, nil
	}
	in.close = func() {
		for _, c := range clients {
			c.m.Close()
		}
	}
	return in, nil
}

// Server.OnAnyConnection/... + Server.OnNewNamespace/...
func newServerInstance() (*instance, error) {
	srv, err := rig.NewServer(&sio.ServerConfig{}, "")
	if err != nil {
		return nil, err
	}
	ca, cn := new(famCtr), new(famCtr)
	var clients []*client
	in := &instance{typ: "server", phases: onePhase}
	in.fams = []*family{
		lifecycle("Server", "AnyConnection", ca, hsNspSock(ca), func(g func(string, sio.ServerSocket)) sio.ServerAnyConnectionFunc { return g },
			srv.IO.OnAnyConnection, srv.IO.OnceAnyConnection, srv.IO.OffAnyConnection),
		lifecycle("Server", "NewNamespace", cn, hsNsp(cn), func(g func(*sio.Namespace)) sio.ServerNewNamespaceFunc { return g },
			srv.IO.OnNewNamespace, srv.IO.OnceNewNamespace, srv.IO.OffNewNamespace),
	}
	in.trigger = func(round, phase int, last bool) (map[string][NE]occSpec, error) {
		name := uniq("created")
		srv.IO.Of(name) // occurrence of new_namespace
		c := newClient(srv.URL, name)
		clients = append(clients, c)
		if err := c.connect(); err != nil { // occurrence of (any) connection
			return nil, err
		}
		return map[string][NE]occSpec{"Server.AnyConnection": exact0(1), "Server.NewNamespace": exact0(1)}, nil
	}
	in.close = func() {
		for _, c := range clients {
			c.m.Close()
		}
		srv.Close()
	}
	return in, nil
}

// ServerSocket.OnEvent/... + OnError/... + OnDisconnecting/... + OnDisconnect/... + ServerSocket.OffAll
func newServerSocketInstance(shared *rig.Server) (*instance, error) {
	nsp := shared.IO.Of(uniq("ss"))
	sockCh := make(chan sio.ServerSocket, 1)
	nsp.OnConnection(func(s sio.ServerSocket) { sockCh <- s })
	c := newClient(shared.URL, nsp.Name())
	if err := c.connect(); err != nil {
		c.m.Close()
		return nil, err
	}
	var s sio.ServerSocket
	select {
	case s = <-sockCh:
	case <-time.After(occurrenceWait):
		c.m.Close()
		return nil, fmt.Errorf("no server-side socket")
	}
	fence := make(chan struct{}, 16)
	helpers := func() {
		s.OnEvent("bad", func(int) {})
		s.OnEvent("fence", func() { fence <- struct{}{} })
	}
	helpers()
	ce, cr, cg, cd := new(famCtr), new(famCtr), new(famCtr), new(famCtr)
	in := &instance{typ: "server-socket", offAllName: "ServerSocket.OffAll"}
	in.offAll = func() { s.OffAll(); helpers() }
	in.phases = func(last bool) int {
		if last {
			return 2
		}
		return 1
	}
	in.fams = []*family{
		eventFam("ServerSocket", ce, s.OnEvent, s.OnceEvent, s.OffEvent),
		lifecycle("ServerSocket", "Error", cr, hsErr(cr), func(g func(error)) sio.ServerSocketErrorFunc { return g }, s.OnError, s.OnceError, s.OffError),
		lifecycle("ServerSocket", "Disconnecting", cg, hsReason(cg), func(g func(sio.Reason)) sio.ServerSocketDisconnectingFunc { return g },
			s.OnDisconnecting, s.OnceDisconnecting, s.OffDisconnecting),
		lifecycle("ServerSocket", "Disconnect", cd, hsReason(cd), func(g func(sio.Reason)) sio.ServerSocketDisconnectFunc { return g },
			s.OnDisconnect, s.OnceDisconnect, s.OffDisconnect),
	}
	in.trigger = func(round, phase int, last bool) (map[string][NE]occSpec, error) {
		if phase == 1 { // the socket's single disconnect, after everything else was judged
			c.s.Disconnect()
			if !vk.WaitUntil(occurrenceWait, func() bool { return !s.Connected() }) {
				return nil, fmt.Errorf("the server-side socket did not become disconnected")
			}
			return map[string][NE]occSpec{"ServerSocket.Event": exactAll(0), "ServerSocket.Error": exact0(0),
				"ServerSocket.Disconnecting": atLeast0(1), "ServerSocket.Disconnect": atLeast0(1)}, nil
		}
		k := 1 + round%2
		for i := 0; i < k; i++ {
			for e := 0; e < NE; e++ {
				c.s.Emit(evName[e], e)
			}
			c.s.Emit("bad", "not a number") // the handler of "bad" wants an int: decoding fails => error occurrence
		}
		c.s.Emit("fence")
		select {
		case <-fence:
		case <-time.After(occurrenceWait):
			return nil, fmt.Errorf("fence event not received by the server socket")
		}
		return map[string][NE]occSpec{"ServerSocket.Event": exactAll(k), "ServerSocket.Error": atLeast0(k),
			"ServerSocket.Disconnecting": exact0(0), "ServerSocket.Disconnect": exact0(0)}, nil
	}
	in.close = func() { c.m.Close() }
	return in, nil
}

// ClientSocket.OnEvent/... + OnConnect/... + OnDisconnect/... + ClientSocket.OffAll
func newClientSocketInstance(shared *rig.Server) (*instance, error) {
	nsp := shared.IO.Of(uniq("cs"))
	sockCh := make(chan sio.ServerSocket, 4)
	nsp.OnConnection(func(s sio.ServerSocket) { sockCh <- s })
	c := newClient(shared.URL, nsp.Name())
	fence := make(chan struct{}, 16)
	helpers := func() { c.s.OnEvent("fence", func() { fence <- struct{}{} }) }
	helpers()
	ce, cc, cd := new(famCtr), new(famCtr), new(famCtr)
	in := &instance{typ: "client-socket", offAllName: "ClientSocket.OffAll", phases: func(bool) int { return 2 }}
	in.offAll = func() { c.s.OffAll(); helpers() }
	in.fams = []*family{
		eventFam("ClientSocket", ce, c.s.OnEvent, c.s.OnceEvent, c.s.OffEvent),
		lifecycle("ClientSocket", "Connect", cc, hsVoid(cc), func(g func()) sio.ClientSocketConnectFunc { return g }, c.s.OnConnect, c.s.OnceConnect, c.s.OffConnect),
		lifecycle("ClientSocket", "Disconnect", cd, hsReason(cd), func(g func(sio.Reason)) sio.ClientSocketDisconnectFunc { return g },
			c.s.OnDisconnect, c.s.OnceDisconnect, c.s.OffDisconnect),
	}
	in.trigger = func(round, phase int, last bool) (map[string][NE]occSpec, error) {
		if phase == 1 {
			c.s.Disconnect()
			return map[string][NE]occSpec{"ClientSocket.Event": exactAll(0), "ClientSocket.Connect": exact0(0), "ClientSocket.Disconnect": exact0(1)}, nil
		}
		if err := c.connect(); err != nil {
			return nil, err
		}
		var s sio.ServerSocket
		select {
		case s = <-sockCh:
		case <-time.After(occurrenceWait):
			return nil, fmt.Errorf("no server-side socket")
		}
		k := 1 + round%2
		for i := 0; i < k; i++ {
			for e := 0; e < NE; e++ {
				s.Emit(evName[e], e)
			}
		}
		s.Emit("fence")
		select {
		case <-fence:
		case <-time.After(occurrenceWait):
			return nil, fmt.Errorf("fence event not received by the client socket")
		}
		return map[string][NE]occSpec{"ClientSocket.Event": exactAll(k), "ClientSocket.Connect": exact0(1), "ClientSocket.Disconnect": exact0(0)}, nil
	}
	in.close = func() { c.m.Close() }
	return in, nil
}

// ClientSocket.OnConnectError/... (1): a CONNECT_ERROR packet, caused by connecting to a
// namespace the server does not have. A socket gets this only once (a second Connect() of
// the same socket does not send CONNECT again), so only the first round of a program is run.
func newConnectErrorInstance(shared *rig.Server) (*instance, error) {
	c := newClient(shared.URL, uniq("missing"))
	cc := new(famCtr)
	in := &instance{typ: "client-socket-connect-error-packet", offAllName: "ClientSocket.OffAll", phases: onePhase, maxRounds: 1}
	in.offAll = c.s.OffAll
	in.fams = []*family{
		lifecycle("ClientSocket", "ConnectError", cc, hsAny(cc), func(g func(any)) sio.ClientSocketConnectErrorFunc { return g },
			c.s.OnConnectError, c.s.OnceConnectError, c.s.OffConnectError),
	}
	in.trigger = func(round, phase int, last bool) (map[string][NE]occSpec, error) {
		c.s.Connect() // marks the socket active; the CONNECT_ERROR packet makes it inactive again
		if !vk.WaitUntil(occurrenceWait, func() bool { return !c.s.Active() }) {
			return nil, fmt.Errorf("the socket was not refused by the server")
		}
		return map[string][NE]occSpec{"ClientSocket.ConnectError": atLeast0(1)}, nil
	}
	in.close = func() { c.m.Close() }
	return in, nil
}

// ClientSocket.OnConnectError/... (2): the manager cannot reach any server; every failed
// dial is a connect_error occurrence of the not-yet-connected socket. Repeatable.
func newConnectErrorDialInstance() (*instance, error) {
	l, err := net.Listen("tcp", "127.0.0.1:0")
	if err != nil {
		return nil, err
	}
	url := "http://" + l.Addr().String() + "/socket.io/"
	l.Close()
	cfg := fastManagerConfig()
	cfg.ReconnectionAttempts = 2
	m := sio.NewManager(url, cfg)
	s := m.Socket("/", nil)
	var gaveUp atomic.Int64
	m.OnReconnectFailed(func() { gaveUp.Add(1) }) // a different registry than the one under test
	cc := new(famCtr)
	in := &instance{typ: "client-socket-connect-error-dial", offAllName: "ClientSocket.OffAll", phases: onePhase}
	in.offAll = s.OffAll
	in.fams = []*family{
		lifecycle("ClientSocket", "ConnectError", cc, hsAny(cc), func(g func(any)) sio.ClientSocketConnectErrorFunc { return g },
			s.OnConnectError, s.OnceConnectError, s.OffConnectError),
	}
	in.trigger = func(round, phase int, last bool) (map[string][NE]occSpec, error) {
		before := gaveUp.Load()
		s.Connect()
		if !vk.WaitUntil(occurrenceWait, func() bool { return gaveUp.Load() > before }) {
			return nil, fmt.Errorf("the manager did not give up reconnecting within %v", occurrenceWait)
		}
		return map[string][NE]occSpec{"ClientSocket.ConnectError": atLeast0(2)}, nil
	}
	in.close = func() { m.Close() }
	return in, nil
}

func managerFamilies(m *sio.Manager) []*family {
	c := func() *famCtr { return new(famCtr) }
	co, cp, ce, cc, cr, ca, cre, cf := c(), c(), c(), c(), c(), c(), c(), c()
	return []*family{
		lifecycle("Manager", "Open", co, hsVoid(co), func(g func()) sio.ManagerOpenFunc { return g }, m.OnOpen, m.OnceOpen, m.OffOpen),
		lifecycle("Manager", "Ping", cp, hsVoid(cp), func(g func()) sio.ManagerPingFunc { return g }, m.OnPing, m.OncePing, m.OffPing),
		lifecycle("Manager", "Error", ce, hsErr(ce), func(g func(error)) sio.ManagerErrorFunc { return g }, m.OnError, m.OnceError, m.OffError),
		lifecycle("Manager", "Close", cc, hsReasonErr(cc), func(g func(sio.Reason, error)) sio.ManagerCloseFunc { return g }, m.OnClose, m.OnceClose, m.OffClose),
		lifecycle("Manager", "Reconnect", cr, hsU32(cr), func(g func(uint32)) sio.ManagerReconnectFunc { return g }, m.OnReconnect, m.OnceReconnect, m.OffReconnect),
		lifecycle("Manager", "ReconnectAttempt", ca, hsU32(ca), func(g func(uint32)) sio.ManagerReconnectAttemptFunc { return g },
			m.OnReconnectAttempt, m.OnceReconnectAttempt, m.OffReconnectAttempt),
		lifecycle("Manager", "ReconnectError", cre, hsErr(cre), func(g func(error)) sio.ManagerReconnectErrorFunc { return g },
			m.OnReconnectError, m.OnceReconnectError, m.OffReconnectError),
		lifecycle("Manager", "ReconnectFailed", cf, hsVoid(cf), func(g func()) sio.ManagerReconnectFailedFunc { return g },
			m.OnReconnectFailed, m.OnceReconnectFailed, m.OffReconnectFailed),
	}
}

func witnessCount(f *family) int { return int(f.c.n[0][W].Load()) }

// Manager families against a server that does not exist: error, reconnect_attempt,
// reconnect_error, reconnect_failed (2 attempts, then the manager gives up). The failed
// dials are counted independently through a client socket of the manager (its
// connect_error handlers are fed through the manager's internal sub-event list, not
// through the registries under test).
func newManagerDeadInstance() (*instance, error) {
	l, err := net.Listen("tcp", "127.0.0.1:0")
	if err != nil {
		return nil, err
	}
	url := "http://" + l.Addr().String() + "/socket.io/"
	l.Close()
	cfg := fastManagerConfig()
	cfg.ReconnectionAttempts = 2
	m := sio.NewManager(url, cfg)
	s := m.Socket("/", nil)
	var dialErrors atomic.Int64
	s.OnConnectError(func(any) { dialErrors.Add(1) })
	in := &instance{typ: "manager-no-server", offAll: m.OffAll, offAllName: "Manager.OffAll", phases: onePhase}
	in.fams = managerFamilies(m)
	in.trigger = func(round, phase int, last bool) (map[string][NE]occSpec, error) {
		before := dialErrors.Load()
		if round == 0 {
			s.Connect()
		} else {
			m.Open()
		}
		// 1 failed open + 2 failed reconnect attempts
		if !vk.WaitUntil(occurrenceWait, func() bool { return dialErrors.Load() >= before+3 }) {
			return nil, fmt.Errorf("saw %d failed dials, waited for 3", dialErrors.Load()-before)
		}
		return map[string][NE]occSpec{
			"Manager.Open": unknown0(0), "Manager.Ping": unknown0(0), "Manager.Close": unknown0(0), "Manager.Reconnect": unknown0(0),
			"Manager.Error": atLeast0(3), "Manager.ReconnectAttempt": atLeast0(2), "Manager.ReconnectError": atLeast0(2), "Manager.ReconnectFailed": atLeast0(1),
		}, nil
	}
	in.close = func() { m.Close() }
	return in, nil
}

// Manager families against a live server (ping interval 1 s, the minimum) that is killed
// and restarted on the same address: open, ping, close, reconnect_attempt, reconnect
// (+ error, reconnect_error while it is down). Opens and closes are established
// independently through the connected state of a client socket of the manager.
func newManagerLiveInstance() (*instance, error) {
	mk := func(addr string) (*rig.Server, error) {
		cfg := &sio.ServerConfig{}
		cfg.EIO.PingInterval = time.Second
		cfg.EIO.PingTimeout = 20 * time.Second
		srv, err := rig.NewServer(cfg, addr)
		if err == nil {
			srv.IO.Of("/") // the root namespace exists only once it has been asked for
		}
		return srv, err
	}
	srv, err := mk("")
	if err != nil {
		return nil, err
	}
	addr := srv.Addr
	m := sio.NewManager(srv.URL, fastManagerConfig())
	s := m.Socket("/", nil)
	in := &instance{typ: "manager-live-server", offAll: m.OffAll, offAllName: "Manager.OffAll", phases: onePhase}
	in.fams = managerFamilies(m)
	fPing := in.fam("Manager.Ping")
	waitConn := func(want bool, what string) error {
		if !vk.WaitUntil(occurrenceWait, func() bool { return s.Connected() == want }) {
			return fmt.Errorf("%s: client socket connected=%v not reached within %v", what, want, occurrenceWait)
		}
		return nil
	}
	in.trigger = func(round, phase int, last bool) (map[string][NE]occSpec, error) {
		p := witnessCount(fPing)
		if round == 0 {
			s.Connect()
		} else {
			m.Open()
		}
		if err := waitConn(true, "open"); err != nil {
			return nil, err
		}
		pings := 1
		if round == 0 {
			pings = 2
		}
		// pings cannot be observed from outside the registry under test: wait on its witness, bounded
		vk.WaitUntil(time.Duration(pings)*time.Second+5*time.Second, func() bool { return witnessCount(fPing) >= p+pings })
		srv.Kill()
		if err := waitConn(false, "kill"); err != nil {
			return nil, err
		}
		time.Sleep(40 * time.Millisecond) // a few failed reconnect attempts
		if srv, err = mk(addr); err != nil {
			return nil, fmt.Errorf("restart: %w", err)
		}
		if err := waitConn(true, "reconnect"); err != nil {
			return nil, err
		}
		m.Close()
		if err := waitConn(false, "close"); err != nil {
			return nil, err
		}
		return map[string][NE]occSpec{
			"Manager.Open": atLeast0(2), "Manager.Ping": unknown0(pings), "Manager.Close": atLeast0(2), "Manager.Reconnect": atLeast0(1),
			"Manager.Error": unknown0(0), "Manager.ReconnectAttempt": atLeast0(1), "Manager.ReconnectError": unknown0(0), "Manager.ReconnectFailed": unknown0(0),
		}, nil
	}
	in.close = func() {
		m.Close()
		srv.Close()
		rig.ReleasePort(addr)
	}
	return in, nil
}

// ---------- part B driver ----------

func partB(run *vk.Run) {
	start := time.Now()
	shared, err := rig.NewServer(&sio.ServerConfig{}, "")
	if err != nil {
		run.Inconclusive("B: cannot start the shared server: " + err.Error())
		return
	}
	defer shared.Close()
	b := &bctx{run: run, cls: map[string]int{}}

	type mkInst struct {
		typ    string
		mk     func() (*instance, error)
		random int
	}
	makers := []mkInst{ // slowest first
		{"manager-live-server", newManagerLiveInstance, run.Pick(3, 20)},
		{"namespace", func() (*instance, error) { return newNamespaceInstance(shared) }, run.Pick(6, 60)},
		{"server", newServerInstance, run.Pick(4, 40)},
		{"server-socket", func() (*instance, error) { return newServerSocketInstance(shared) }, run.Pick(6, 60)},
		{"client-socket", func() (*instance, error) { return newClientSocketInstance(shared) }, run.Pick(6, 60)},
		{"client-socket-connect-error-packet", func() (*instance, error) { return newConnectErrorInstance(shared) }, run.Pick(3, 30)},
		{"client-socket-connect-error-dial", newConnectErrorDialInstance, run.Pick(3, 30)},
		{"manager-no-server", newManagerDeadInstance, run.Pick(3, 30)},
	}
	type job struct {
		mk mkInst
		p  *bprog
	}
	var jobs []job
	for _, mk := range makers {
		for _, p := range directedPrograms() {
			jobs = append(jobs, job{mk, p})
			run.Distinct("B " + mk.typ + "/" + p.name)
		}
		r := run.Rand("c18-B-" + mk.typ)
		for k := 0; k < mk.random; k++ {
			p := randomProgram(r, k)
			jobs = append(jobs, job{mk, p})
			var flat []op
			for _, ro := range p.rounds {
				flat = append(flat, ro...)
			}
			run.Distinct("B " + mk.typ + "/random " + signature(flat, fmt.Sprintf("rounds=%d", len(p.rounds))))
			if k == 0 && (mk.typ == "namespace" || mk.typ == "server-socket" || mk.typ == "manager-live-server") {
				run.Sample(map[string]any{"part": "B", "instance": mk.typ, "program": p.describe()})
			}
		}
	}
	workers := 32 // the workers mostly wait (occurrences, settle windows, absence watchdogs)
	ch := make(chan job)
	var wg sync.WaitGroup
	for w := 0; w < workers; w++ {
		wg.Add(1)
		go func() {
			defer wg.Done()
			for j := range ch {
				in, err := j.mk.mk()
				if err != nil {
					run.Inconclusive(fmt.Sprintf("B %s/%s: cannot build the instance: %v", j.mk.typ, j.p.name, err))
					continue
				}
				if pn := safely(func() { runProgram(b, in, j.p) }); pn != nil {
					run.Inconclusive(fmt.Sprintf("B %s/%s: harness panic: %v", j.mk.typ, j.p.name, pn))
				}
				in.close()
			}
		}()
	}
	for _, j := range jobs {
		ch <- j
	}
	close(ch)
	wg.Wait()
	run.Logf("part B: %d programs over %d instance types in %v", len(jobs), len(makers), time.Since(start).Round(time.Millisecond))
}
