package main

import (
	"sync/atomic"

	sio "github.com/karagenc/socket.io-go"
)

// Handlers for the public-API part. Every family gets NHB handlers that come from NHB
// DISTINCT function literals of the family's signature (closures made from one literal
// share a code pointer and could not be told apart by an identity that looks at the
// code pointer, which is what OffEvent does and what a repaired lifecycle Off may do).
// Index W is the witness: it is never named in an Off call.

const (
	NHB = 6
	W   = NHB - 1
)

type famCtr struct{ n [NE][NHB]atomic.Int64 }

func (c *famCtr) hit(e, h int) {
	if e < 0 || e >= NE {
		e = 0
	}
	c.n[e][h].Add(1)
}

func (c *famCtr) snap() (r [NE][NH]int) {
	for e := 0; e < NE; e++ {
		for h := 0; h < NHB; h++ {
			r[e][h] = int(c.n[e][h].Load())
		}
	}
	return
}

func hsVoid(c *famCtr) [NHB]func() {
	return [NHB]func(){
		func() { c.hit(0, 0) }, func() { c.hit(0, 1) }, func() { c.hit(0, 2) },
		func() { c.hit(0, 3) }, func() { c.hit(0, 4) }, func() { c.hit(0, 5) },
	}
}

func hsErr(c *famCtr) [NHB]func(error) {
	return [NHB]func(error){
		func(error) { c.hit(0, 0) }, func(error) { c.hit(0, 1) }, func(error) { c.hit(0, 2) },
		func(error) { c.hit(0, 3) }, func(error) { c.hit(0, 4) }, func(error) { c.hit(0, 5) },
	}
}

func hsAny(c *famCtr) [NHB]func(any) {
	return [NHB]func(any){
		func(any) { c.hit(0, 0) }, func(any) { c.hit(0, 1) }, func(any) { c.hit(0, 2) },
		func(any) { c.hit(0, 3) }, func(any) { c.hit(0, 4) }, func(any) { c.hit(0, 5) },
	}
}

func hsReason(c *famCtr) [NHB]func(sio.Reason) {
	return [NHB]func(sio.Reason){
		func(sio.Reason) { c.hit(0, 0) }, func(sio.Reason) { c.hit(0, 1) }, func(sio.Reason) { c.hit(0, 2) },
		func(sio.Reason) { c.hit(0, 3) }, func(sio.Reason) { c.hit(0, 4) }, func(sio.Reason) { c.hit(0, 5) },
	}
}

func hsReasonErr(c *famCtr) [NHB]func(sio.Reason, error) {
	return [NHB]func(sio.Reason, error){
		func(sio.Reason, error) { c.hit(0, 0) }, func(sio.Reason, error) { c.hit(0, 1) }, func(sio.Reason, error) { c.hit(0, 2) },
		func(sio.Reason, error) { c.hit(0, 3) }, func(sio.Reason, error) { c.hit(0, 4) }, func(sio.Reason, error) { c.hit(0, 5) },
	}
}

func hsU32(c *famCtr) [NHB]func(uint32) {
	return [NHB]func(uint32){
		func(uint32) { c.hit(0, 0) }, func(uint32) { c.hit(0, 1) }, func(uint32) { c.hit(0, 2) },
		func(uint32) { c.hit(0, 3) }, func(uint32) { c.hit(0, 4) }, func(uint32) { c.hit(0, 5) },
	}
}

func hsSock(c *famCtr) [NHB]func(sio.ServerSocket) {
	return [NHB]func(sio.ServerSocket){
		func(sio.ServerSocket) { c.hit(0, 0) }, func(sio.ServerSocket) { c.hit(0, 1) }, func(sio.ServerSocket) { c.hit(0, 2) },
		func(sio.ServerSocket) { c.hit(0, 3) }, func(sio.ServerSocket) { c.hit(0, 4) }, func(sio.ServerSocket) { c.hit(0, 5) },
	}
}

func hsNspSock(c *famCtr) [NHB]func(string, sio.ServerSocket) {
	return [NHB]func(string, sio.ServerSocket){
		func(string, sio.ServerSocket) { c.hit(0, 0) }, func(string, sio.ServerSocket) { c.hit(0, 1) }, func(string, sio.ServerSocket) { c.hit(0, 2) },
		func(string, sio.ServerSocket) { c.hit(0, 3) }, func(string, sio.ServerSocket) { c.hit(0, 4) }, func(string, sio.ServerSocket) { c.hit(0, 5) },
	}
}

func hsNsp(c *famCtr) [NHB]func(*sio.Namespace) {
	return [NHB]func(*sio.Namespace){
		func(*sio.Namespace) { c.hit(0, 0) }, func(*sio.Namespace) { c.hit(0, 1) }, func(*sio.Namespace) { c.hit(0, 2) },
		func(*sio.Namespace) { c.hit(0, 3) }, func(*sio.Namespace) { c.hit(0, 4) }, func(*sio.Namespace) { c.hit(0, 5) },
	}
}

// Event handlers receive the index of the event as payload, so that a run is attributed
// to the event that caused it even though one handler is registered for several events.
func hsEvent(c *famCtr) [NHB]func(int) {
	return [NHB]func(int){
		func(e int) { c.hit(e, 0) }, func(e int) { c.hit(e, 1) }, func(e int) { c.hit(e, 2) },
		func(e int) { c.hit(e, 3) }, func(e int) { c.hit(e, 4) }, func(e int) { c.hit(e, 5) },
	}
}
