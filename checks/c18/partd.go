package main

import (
	"fmt"
	"runtime"
	"sync"
	"time"

	"github.com/anishathalye/porcupine"

	"sioverif/internal/vk"
)

// Part C (continued): linearizability of concurrent On/Once/Off/OffAll/Fire histories,
// checked with porcupine against the sequential registry specification, partitioned by
// event. The output of a Fire is the multiset of handlers it ran; runs are attributed to
// the Fire call that caused them through the id of the calling goroutine (both exported
// registries run the handlers synchronously on the caller's goroutine).
//
// The workload never registers a handler twice for one event and never removes several
// handlers in one call, so that the sequential specification is deterministic and the
// (sequentially reproducible) remove-while-iterating defects are out of reach: a history
// that is not linearizable is a concurrency fact.

func goid() uint64 {
	var buf [64]byte
	n := runtime.Stack(buf[:], false)
	var id uint64
	for _, c := range buf[len("goroutine "):n] {
		if c < '0' || c > '9' {
			break
		}
		id = id*10 + uint64(c-'0')
	}
	return id
}

// attributor maps a goroutine to the run vector of the Fire call it is executing.
type attributor struct {
	mu  sync.Mutex
	cur map[uint64]*[NH]uint8
	// runs outside any recorded Fire call (cannot happen with synchronous dispatch)
	stray int
}

func (a *attributor) hit(h int) {
	id := goid()
	a.mu.Lock()
	if v := a.cur[id]; v != nil {
		v[h]++
	} else {
		a.stray++
	}
	a.mu.Unlock()
}

func (a *attributor) begin() *[NH]uint8 {
	v := new([NH]uint8)
	id := goid()
	a.mu.Lock()
	a.cur[id] = v
	a.mu.Unlock()
	return v
}

func (a *attributor) end() {
	id := goid()
	a.mu.Lock()
	delete(a.cur, id)
	a.mu.Unlock()
}

func mkAttrHandlers(a *attributor) [NH]func() {
	return [NH]func(){
		func() { a.hit(0) },
		func() { a.hit(1) },
		func() { a.hit(2) },
		func() { a.hit(3) },
		func() { a.hit(4) },
		func() { a.hit(5) },
		func() { a.hit(6) },
		func() { a.hit(7) },
	}
}

const (
	pOn = iota
	pOnce
	pOff
	pOffAll
	pFire
)

var pKind = []string{"On", "Once", "Off", "OffAll", "Fire"}

type pIn struct {
	Kind, E, H int
}

type pState [NH]cnt

var registryModel = porcupine.Model{
	Partition: func(history []porcupine.Operation) [][]porcupine.Operation {
		parts := make([][]porcupine.Operation, NE)
		for _, o := range history {
			in := o.Input.(pIn)
			if in.Kind == pOffAll { // affects every event: part of every partition
				for e := range parts {
					parts[e] = append(parts[e], o)
				}
				continue
			}
			parts[in.E] = append(parts[in.E], o)
		}
		return parts
	},
	Init: func() interface{} { return pState{} },
	Step: func(state, input, output interface{}) (bool, interface{}) {
		s := state.(pState)
		in := input.(pIn)
		switch in.Kind {
		case pOn:
			s[in.H].on++
		case pOnce:
			s[in.H].once++
		case pOff:
			s[in.H] = cnt{}
		case pOffAll:
			s = pState{}
		case pFire:
			out := output.([NH]uint8)
			for h := 0; h < NH; h++ {
				if out[h] != s[h].on+s[h].once {
					return false, s
				}
				s[h].once = 0
			}
		}
		return true, s
	},
	Equal: func(a, b interface{}) bool { return a.(pState) == b.(pState) },
	DescribeOperation: func(input, output interface{}) string {
		in := input.(pIn)
		if in.Kind == pFire {
			return fmt.Sprintf("Fire(e%d) -> ran %v", in.E, output)
		}
		return fmt.Sprintf("%s(e%d,h%d)", pKind[in.Kind], in.E, in.H)
	},
}

func linearizability(run *vk.Run, store string, histories, iters int) {
	r := run.Rand("c18-C-lin-" + store)
	reported := 0
	for hi := 0; hi < histories; hi++ {
		a := &attributor{cur: map[uint64]*[NH]uint8{}}
		var t target
		if store == "eventHandlerStore" {
			t, _ = newEvTarget()
			t.(*evTarget).hs = mkAttrHandlers(a)
		} else {
			t, _ = newLcTarget()
			hs := mkAttrHandlers(a)
			t.(*lcTarget).hs = &hs
		}
		ne := t.events()
		var mu sync.Mutex
		var hist []porcupine.Operation
		t0 := time.Now()
		var panics []string
		do := func(client int, in pIn, f func()) {
			var out [NH]uint8
			call := time.Since(t0).Nanoseconds()
			var p any
			if in.Kind == pFire {
				v := a.begin()
				p = safely(f)
				a.end()
				out = *v
			} else {
				p = safely(f)
			}
			ret := time.Since(t0).Nanoseconds()
			mu.Lock()
			if p != nil {
				panics = append(panics, fmt.Sprintf("%s: %v", pKind[in.Kind], p))
			}
			hist = append(hist, porcupine.Operation{ClientId: client, Input: in, Call: call, Output: out, Return: ret})
			mu.Unlock()
		}
		seed := r.Int63()
		startCh := make(chan struct{})
		var wg sync.WaitGroup
		for g := 0; g < 8; g++ {
			wg.Add(1)
			go func(g int) {
				defer wg.Done()
				x := uint64(seed) + uint64(g+1)*0x9e3779b97f4a7c15
				next := func(n int) int {
					x ^= x << 13
					x ^= x >> 7
					x ^= x << 17
					return int(x % uint64(n))
				}
				<-startCh
				for i := 0; i < iters; i++ {
					e := next(ne)
					switch {
					case g < 6: // owns handler g: register, fire, remove (never registered twice for one event)
						if next(3) == 0 {
							do(g, pIn{pOnce, e, g}, func() { t.Once(e, g) })
						} else {
							do(g, pIn{pOn, e, g}, func() { t.On(e, g) })
						}
						do(g, pIn{pFire, e, 0}, func() { t.Fire(e) })
						if next(2) == 0 {
							do(g, pIn{pFire, e, 0}, func() { t.Fire(e) })
						}
						do(g, pIn{pOff, e, g}, func() { t.Off(e, []int{g}) })
					case g == 6:
						do(g, pIn{pFire, e, 0}, func() { t.Fire(e) })
					default:
						do(g, pIn{pFire, e, 0}, func() { t.Fire(e) })
						if next(6) == 0 {
							do(g, pIn{pOffAll, 0, 0}, func() { t.OffAll() })
						}
					}
				}
			}(g)
		}
		close(startCh)
		wg.Wait()
		run.Eval(1)
		run.Count("C_linearizability_histories_"+store, 1)
		run.Count("C_linearizability_operations_"+store, int64(len(hist)))
		run.Distinct("C linearizability " + store)
		if len(panics) > 0 {
			run.Violation(vk.Violation{Sub: "panic-concurrent", Fields: map[string]any{"store": store, "op": "linearizability-workload"},
				What: fmt.Sprintf("%s: %d calls panicked in a workload without duplicate registrations or multi-handler removal: %s", store, len(panics), panics[0]), Witness: map[string]any{"history": hi}})
			continue
		}
		if a.stray > 0 {
			run.Inconclusive(fmt.Sprintf("C linearizability %s: %d handler runs outside a recorded Fire call (dispatch is not synchronous?)", store, a.stray))
			continue
		}
		switch res := porcupine.CheckOperationsTimeout(registryModel, hist, 60*time.Second); res {
		case porcupine.Ok:
		case porcupine.Unknown:
			run.Inconclusive(fmt.Sprintf("C linearizability %s: checker timed out on history %d (%d operations)", store, hi, len(hist)))
		default:
			var w any
			if reported < 3 {
				w = map[string]any{"store": store, "history_no": hi, "operations": describeHistory(hist)}
			}
			reported++
			run.Violation(vk.Violation{Sub: "not-linearizable", Fields: map[string]any{"store": store},
				What:    fmt.Sprintf("%s: a concurrent On/Once/Off/OffAll/Fire history (%d operations, 8 goroutines) has no sequential explanation", store, len(hist)),
				Witness: w})
		}
	}
}

func describeHistory(h []porcupine.Operation) []string {
	out := make([]string, 0, len(h))
	for _, o := range h {
		out = append(out, fmt.Sprintf("g%d [%d,%d] %s", o.ClientId, o.Call, o.Return, registryModel.DescribeOperation(o.Input, o.Output)))
	}
	return out
}
