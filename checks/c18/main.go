// C18 — Handlers: On fires every time, Once at most once, Off removes just what it names.
//
// Part A (main.go): generated On/Once/Off/OffAll/Fire sequences run in lock-step against
// the two real (unexported) registries and a set-valued reference model (model.go); after
// every Fire the multiset of handlers that ran is compared with the model. A divergence is
// attributed to one operation by replaying every prefix on a fresh registry and probing all
// events, then shrunk (class-preserving) to a short witness program. Plus an exhaustive
// pass over all short programs of a small alphabet.
// Part B (partb.go): the same model driven through EVERY public On/Once/Off family with
// real occurrences (real server, real Go clients, kill/restart of the server for the
// Manager families); directed programs and seeded random programs.
// Part C (partc.go, partd.go): occurrences racing Once handlers on the registries and end
// to end, concurrent On/Off/Fire without panics, linearizability of recorded histories
// (porcupine).
package main

import (
	"fmt"
	"math/rand"
	"os"
	"reflect"
	"sort"
	"strings"
	"sync/atomic"
	"time"

	sio "github.com/karagenc/socket.io-go"

	"sioverif/internal/vk"
)

// ---------- handlers for the store-level parts ----------

type hits [NH]atomic.Int64

func (c *hits) reset() {
	for i := range c {
		c[i].Store(0)
	}
}

func (c *hits) snapshot() (r [NH]int) {
	for i := range c {
		r[i] = int(c[i].Load())
	}
	return
}

// mkHandlers returns NH handlers made from NH DISTINCT function literals (distinct code
// pointers: the event registry identifies handlers by code pointer).
func mkHandlers(c *hits) [NH]func() {
	return [NH]func(){
		func() { c[0].Add(1) },
		func() { c[1].Add(1) },
		func() { c[2].Add(1) },
		func() { c[3].Add(1) },
		func() { c[4].Add(1) },
		func() { c[5].Add(1) },
		func() { c[6].Add(1) },
		func() { c[7].Add(1) },
	}
}

var evName = [NE]string{"alpha", "beta", "gamma"}

// target is one real registry behind the operations of the model.
type target interface {
	On(e, h int)
	Once(e, h int)
	Off(e int, hs []int)
	OffAll()
	Fire(e int)
	events() int
	name() string
}

type evTarget struct {
	s  *sio.VerifEventHandlerStore
	hs [NH]func()
}

func (t *evTarget) On(e, h int)   { t.s.On(evName[e], t.hs[h]) }
func (t *evTarget) Once(e, h int) { t.s.Once(evName[e], t.hs[h]) }
func (t *evTarget) Off(e int, hs []int) {
	fs := make([]any, len(hs))
	for i, h := range hs {
		fs[i] = t.hs[h]
	}
	t.s.Off(evName[e], fs...)
}
func (t *evTarget) OffAll()      { t.s.OffAll() }
func (t *evTarget) Fire(e int)   { t.s.Fire(evName[e]) }
func (t *evTarget) events() int  { return NE }
func (t *evTarget) name() string { return "eventHandlerStore" }

type lcTarget struct {
	s  *sio.VerifHandlerStore
	hs *[NH]func() // identity of a lifecycle handler is the address of the func variable
}

func (t *lcTarget) On(e, h int)   { t.s.On(&t.hs[h]) }
func (t *lcTarget) Once(e, h int) { t.s.Once(&t.hs[h]) }
func (t *lcTarget) Off(e int, hs []int) {
	fs := make([]*func(), len(hs))
	for i, h := range hs {
		fs[i] = &t.hs[h]
	}
	t.s.Off(fs...)
}
func (t *lcTarget) OffAll()      { t.s.OffAll() }
func (t *lcTarget) Fire(e int)   { t.s.Fire() }
func (t *lcTarget) events() int  { return 1 }
func (t *lcTarget) name() string { return "handlerStore" }

type factory func() (target, *hits)

func newEvTarget() (target, *hits) {
	c := new(hits)
	return &evTarget{s: sio.VerifNewEventHandlerStore(), hs: mkHandlers(c)}, c
}

func newLcTarget() (target, *hits) {
	c := new(hits)
	hs := mkHandlers(c)
	return &lcTarget{s: sio.VerifNewHandlerStore(), hs: &hs}, c
}

func safely(f func()) (p any) {
	defer func() {
		if r := recover(); r != nil {
			p = r
		}
	}()
	f()
	return nil
}

func applyReal(t target, o op) any {
	return safely(func() {
		switch o.K {
		case "On":
			t.On(o.E, o.H[0])
		case "Once":
			t.Once(o.E, o.H[0])
		case "Off":
			t.Off(o.E, o.H)
		case "OffAll":
			t.OffAll()
		case "Fire":
			t.Fire(o.E)
		}
	})
}

// ---------- lock-step execution ----------

type divergence struct {
	At    int // index of the operation at which the divergence became visible
	Panic string
	E     int
	Got   [NH]int
	Lo    [NH]int
	Hi    [NH]int
}

// lockstep runs ops on a fresh registry and a fresh model. If probe is set, after the
// last operation every event is fired once more and compared (used for attribution).
func lockstep(mk factory, ops []op, probe bool) (d *divergence, m *model) {
	t, c := mk()
	m = newModel()
	fireAndCompare := func(i, e int) *divergence {
		c.reset()
		if p := applyReal(t, op{K: "Fire", E: e}); p != nil {
			return &divergence{At: i, Panic: fmt.Sprint(p), E: e}
		}
		got := c.snapshot()
		lo, hi := m.bounds(e, 1)
		if !m.fire(e, 1, got) {
			return &divergence{At: i, E: e, Got: got, Lo: lo, Hi: hi}
		}
		return nil
	}
	for i, o := range ops {
		if o.K == "Fire" {
			if d := fireAndCompare(i, o.E); d != nil {
				return d, m
			}
			continue
		}
		if p := applyReal(t, o); p != nil {
			return &divergence{At: i, Panic: fmt.Sprint(p), E: o.E}, m
		}
		m.apply(o)
	}
	if probe {
		for e := 0; e < t.events(); e++ {
			if d := fireAndCompare(len(ops)-1, e); d != nil {
				return d, m
			}
		}
	}
	return nil, m
}

// blame finds the first operation after which the registry and the model disagree.
func blame(mk factory, ops []op) (idx int, d *divergence) {
	for p := 1; p <= len(ops); p++ {
		if d, _ := lockstep(mk, ops[:p], true); d != nil {
			return d.At, d
		}
	}
	return -1, nil
}

// diagnosis of a diverging program: blamed operation, class, description.
type diagnosis struct {
	Blamed int
	D      *divergence
	Sub    string
	Fields map[string]any
	What   string
	cls    string
}

func diagnose(mk factory, store string, ops []op) *diagnosis {
	bi, bd := blame(mk, ops)
	if bi < 0 {
		return nil
	}
	sub, fields, what := classifyStore(store, ops[bi], bd)
	return &diagnosis{Blamed: bi, D: bd, Sub: sub, Fields: fields, What: what, cls: sub + " " + fmt.Sprint(fields)}
}

// shrink removes operations greedily while the program still shows the SAME violation class.
func shrink(mk factory, store string, ops []op, cls string) []op {
	cur := append([]op(nil), ops...)
	for changed := true; changed; {
		changed = false
		for i := 0; i < len(cur); i++ {
			cand := append(append([]op(nil), cur[:i]...), cur[i+1:]...)
			if len(cand) == 0 {
				continue
			}
			if g := diagnose(mk, store, cand); g != nil && g.cls == cls {
				cur = cand
				changed = true
				i--
			}
		}
	}
	return cur
}

// classifyStore names the violation class from the blamed operation and the deviation.
func classifyStore(store string, o op, d *divergence) (sub string, fields map[string]any, what string) {
	fields = map[string]any{"store": store}
	if d.Panic != "" {
		if o.K == "Off" {
			sub = "off-panic"
			fields["off_args"] = "1"
			if len(o.H) > 1 {
				fields["off_args"] = "2+"
			}
		} else {
			sub = "panic"
			fields["op"] = o.K
		}
		return sub, fields, fmt.Sprintf("%s panics: %s", o, trunc(d.Panic, 160))
	}
	eff, over, under := effect(d.Lo, d.Hi, d.Got, o.H)
	if eff == "joint-mismatch" && o.K == "Off" {
		// every handler is within its own bounds but no state predicts the combination: a handler
		// registered k times of which neither all nor one-per-naming were removed
		eff = "duplicate-partially-removed"
	}
	fields["effect"] = eff
	detail := fmt.Sprintf("occurrence of e%d: ran=%v, model allows lo=%v hi=%v (too often: %v, too rarely: %v)", d.E, d.Got, d.Lo, d.Hi, hnames(over), hnames(under))
	switch {
	case o.K == "Off" && len(o.H) == 0:
		sub = "off-none"
		if len(over) > 0 && len(under) == 0 {
			sub = "off-none-noop"
			fields["effect"] = "handlers-still-registered"
		}
	case o.K == "Off" && len(o.H) == 1:
		sub = "off-single"
	case o.K == "Off":
		sub = "off-multi-removal"
	case o.K == "OffAll":
		sub = "offall"
	case o.K == "Fire":
		sub = "fire"
	default:
		sub = "register"
		fields["op"] = o.K
	}
	return sub, fields, fmt.Sprintf("after %s the registry disagrees with the model; %s", o, detail)
}

func hnames(hs []int) []string {
	out := make([]string, len(hs))
	for i, h := range hs {
		out[i] = fmt.Sprintf("h%d", h)
	}
	return out
}

func trunc(s string, n int) string {
	if len(s) > n {
		return s[:n] + "..."
	}
	return s
}

// ---------- generator ----------

func genSeq(r *rand.Rand, ne int) []op {
	n := 1 + r.Intn(25)
	ops := make([]op, 0, n)
	var reg [NE][]int // handlers registered since the last clear (generator's rough view)
	pickE := func() int {
		if ne == 1 {
			return 0
		}
		if r.Intn(10) < 6 {
			return 0
		}
		return r.Intn(ne)
	}
	pickH := func() int {
		if r.Intn(2) == 0 {
			return r.Intn(4)
		}
		return r.Intn(NH)
	}
	for len(ops) < n {
		e := pickE()
		switch x := r.Intn(100); {
		case x < 30:
			h := pickH()
			ops = append(ops, op{K: "On", E: e, H: []int{h}})
			reg[e] = append(reg[e], h)
		case x < 44:
			h := pickH()
			ops = append(ops, op{K: "Once", E: e, H: []int{h}})
			reg[e] = append(reg[e], h)
		case x < 66:
			k := 1 + r.Intn(3)
			hs := make([]int, 0, k)
			for len(hs) < k {
				y := r.Intn(100)
				switch {
				case y < 60 && len(reg[e]) > 0:
					hs = append(hs, reg[e][r.Intn(len(reg[e]))])
				case y < 75 && len(hs) > 0:
					hs = append(hs, hs[r.Intn(len(hs))]) // the same handler twice
				default:
					hs = append(hs, r.Intn(NH)) // possibly absent
				}
			}
			ops = append(ops, op{K: "Off", E: e, H: hs})
		case x < 70:
			ops = append(ops, op{K: "Off", E: e})
			reg[e] = nil
		case x < 73:
			ops = append(ops, op{K: "OffAll"})
			reg = [NE][]int{}
		default:
			ops = append(ops, op{K: "Fire", E: e})
		}
	}
	return ops
}

// signature: bucketed multiset of operation kinds plus the features the quantifier names.
func signature(ops []op, store string) string {
	kinds := map[string]int{}
	feat := map[string]bool{}
	var reg [NE][NH]int
	for _, o := range ops {
		k := o.K
		switch o.K {
		case "On", "Once":
			reg[o.E][o.H[0]]++
			if reg[o.E][o.H[0]] > 1 {
				feat["dup-registration"] = true
			}
		case "Off":
			k = fmt.Sprintf("Off%d", len(o.H))
			present := 0
			for _, h := range o.H {
				if reg[o.E][h] > 0 {
					present++
					if reg[o.E][h] > 1 {
						feat["off-of-dup"] = true
					}
				} else {
					feat["off-absent"] = true
				}
			}
			if present >= 2 {
				feat["multi-off-present"] = true
			}
			if hasDup(o.H) {
				feat["off-same-twice"] = true
			}
			if len(o.H) == 0 {
				reg[o.E] = [NH]int{}
			} else {
				for _, h := range o.H {
					reg[o.E][h] = 0
				}
			}
		case "OffAll":
			reg = [NE][NH]int{}
		}
		kinds[k]++
	}
	bucket := func(n int) string {
		if n >= 3 {
			return "3+"
		}
		return fmt.Sprint(n)
	}
	var parts []string
	for k, n := range kinds {
		parts = append(parts, k+":"+bucket(n))
	}
	for f := range feat {
		parts = append(parts, f)
	}
	sort.Strings(parts)
	return store + " " + strings.Join(parts, " ")
}

// ---------- part A ----------

type classLimiter struct{ n map[string]int }

func (c *classLimiter) first(cls string, k int) bool {
	if c.n == nil {
		c.n = map[string]int{}
	}
	c.n[cls]++
	return c.n[cls] <= k
}

func partA(run *vk.Run, n int) {
	lim := &classLimiter{}
	for _, st := range []struct {
		mk   factory
		name string
		ne   int
	}{{newEvTarget, "eventHandlerStore", NE}, {newLcTarget, "handlerStore", 1}} {
		r := run.Rand("c18-A-" + st.name)
		start := time.Now()
		diverged := 0
		for i := 0; i < n; i++ {
			ops := genSeq(r, st.ne)
			run.Eval(1)
			run.Distinct(signature(ops, st.name))
			for _, o := range ops {
				k := o.K
				if k == "Off" {
					k = fmt.Sprintf("Off/%d", len(o.H))
				}
				run.Count("A_"+st.name+"_op_"+k, 1)
			}
			d, _ := lockstep(st.mk, ops, false)
			if i%(n/3+1) == 0 {
				run.Sample(map[string]any{"part": "A", "store": st.name, "ops": opsStrings(ops), "diverged": d != nil})
			}
			if d == nil {
				continue
			}
			diverged++
			reportStore(run, lim, st.mk, st.name, ops[:d.At+1], d, map[string]any{"sequence_no": i})
		}
		run.Count("A_"+st.name+"_sequences", int64(n))
		run.Count("A_"+st.name+"_sequences_diverged", int64(diverged))
		run.Logf("part A %s: %d sequences, %d diverged, %v", st.name, n, diverged, time.Since(start).Round(time.Millisecond))
	}
}

// report a diverging store-level program (shared by the random and the exhaustive pass).
func reportStore(run *vk.Run, lim *classLimiter, mk factory, store string, prefix []op, d *divergence, extra map[string]any) {
	g := diagnose(mk, store, prefix)
	if g == nil { // cannot happen for a deterministic registry; keep the raw observation
		sub, fields, what := classifyStore(store, prefix[d.At], d)
		g = &diagnosis{Blamed: d.At, D: d, Sub: sub, Fields: fields, What: what, cls: sub + " " + fmt.Sprint(fields)}
	}
	v := vk.Violation{Sub: g.Sub, Fields: g.Fields, What: store + ": " + g.What}
	if lim.first(g.cls, 3) {
		small := shrink(mk, store, prefix[:g.Blamed+1], g.cls)
		w := map[string]any{"store": store, "sequence": opsStrings(prefix), "blamed_op_index": g.Blamed, "blamed_op": prefix[g.Blamed].String(),
			"minimal_program": opsStrings(small)}
		for k, x := range extra {
			w[k] = x
		}
		if sg := diagnose(mk, store, small); sg != nil {
			w["minimal_program_observation"] = map[string]any{"event": sg.D.E, "ran": sg.D.Got, "model_lo": sg.D.Lo, "model_hi": sg.D.Hi, "panic": sg.D.Panic}
			v.What = fmt.Sprintf("%s: minimal program %v: %s", store, opsStrings(small), sg.What)
		}
		if store == "eventHandlerStore" && g.Sub == "off-none-noop" {
			v.What += " [Off is called through the same conversion as the public OffEvent methods: an empty, non-nil slice]"
		}
		v.Witness = w
	}
	run.Violation(v)
}

// partAExhaustive: EVERY program of up to maxLen operations over one event and three
// handlers (On h, Once h, Off(h), Off(h,h'), Off(), Fire), each followed by a probing
// occurrence, on both registries.
func partAExhaustive(run *vk.Run, maxLen int) {
	var alphabet []op
	for h := 0; h < 3; h++ {
		alphabet = append(alphabet, op{K: "On", H: []int{h}}, op{K: "Once", H: []int{h}}, op{K: "Off", H: []int{h}})
		for h2 := 0; h2 < 3; h2++ {
			alphabet = append(alphabet, op{K: "Off", H: []int{h, h2}})
		}
	}
	alphabet = append(alphabet, op{K: "Off"}, op{K: "Fire"})
	lim := &classLimiter{}
	for _, st := range []struct {
		mk   factory
		name string
	}{{newEvTarget, "eventHandlerStore"}, {newLcTarget, "handlerStore"}} {
		start := time.Now()
		total, diverged := 0, 0
		prog := make([]op, 0, maxLen)
		var rec func()
		rec = func() {
			if len(prog) > 0 {
				// a program whose proper prefix already diverges adds nothing: it is cut there
				total++
				if d, _ := lockstep(st.mk, prog, true); d != nil {
					diverged++
					reportStore(run, lim, st.mk, st.name, append([]op(nil), prog[:d.At+1]...), d, map[string]any{"pass": "exhaustive"})
					return
				}
			}
			if len(prog) == maxLen {
				return
			}
			for _, o := range alphabet {
				prog = append(prog, o)
				rec()
				prog = prog[:len(prog)-1]
			}
		}
		rec()
		run.Eval(total)
		run.Count("A_exhaustive_"+st.name+"_programs", int64(total))
		run.Count("A_exhaustive_"+st.name+"_programs_diverged", int64(diverged))
		run.Distinct(fmt.Sprintf("A exhaustive %s: all programs of length<=%d over %d operations", st.name, maxLen, len(alphabet)))
		run.Logf("part A exhaustive %s: %d programs (length <= %d, %d operations), %d diverged (extensions of a diverging program are not enumerated), %v",
			st.name, total, maxLen, len(alphabet), diverged, time.Since(start).Round(time.Millisecond))
	}
	run.Note("exhaustive_subspace", fmt.Sprintf("part A: every program of length <= %d over {On,Once,Off(h),Off(h,h'),Off(),Fire} x 3 handlers x 1 event, each followed by a probing occurrence, on both registries (programs extending an already diverging program are cut)", maxLen))
}

// selfCheck: the harness' own assumptions (distinct code pointers, model sanity).
func selfCheck(run *vk.Run) bool {
	c := new(hits)
	hs := mkHandlers(c)
	seen := map[uintptr]bool{}
	for _, h := range hs {
		seen[reflect.ValueOf(h).Pointer()] = true
	}
	if len(seen) != NH {
		run.Inconclusive("harness: the handler literals do not have distinct code pointers")
		return false
	}
	return true
}

func main() {
	run := vk.Start("C18", "exploration")
	run.Rule("A: seeded On/Once/Off(0..3 handlers, absent ones, the same one twice)/OffAll/Fire sequences of length 1..25 over 3 events x 8 handlers (distinct function literals), " +
		"lock-step against a set-valued reference model on both real registries; distinct = registry + bucketed multiset of operation kinds + features (dup registration, multi-off of present handlers, off of absent, same handler twice, off of a dup); " +
		"plus EVERY program of length <= 4 (thorough: 5) over 20 operations x 3 handlers on both registries. " +
		"B: 15 directed and seeded random programs (1..3 rounds of registry calls, each followed by real occurrences) through every public On/Once/Off family (17 lifecycle families, 3 event families, 4 OffAll methods); distinct = instance type/program. " +
		"C: occurrences racing Once handlers on the registries and end to end, concurrent On/Once/Off/Fire, porcupine on recorded histories partitioned by event; distinct = scenario/goroutines/registrations")
	run.Assume("handlers are distinct function literals (closures of one literal share a code pointer and are indistinguishable to OffEvent by design)",
		"the order in which the handlers of one occurrence run is not checked",
		"Off(h) with h registered k>1 times may remove all or one registration per time h is named (both accepted)",
		"a Once handler is expected to run for the first occurrence after its registration (sequential parts); in the racing parts only 'more than once' is a violation",
		"part B absence verdicts ('handler did not run') are taken only when the occurrence is known to have happened and 15 s passed (normal latency: milliseconds)")
	if !selfCheck(run) {
		run.Finish()
	}

	if run.SubMode == "race" {
		partA(run, run.Pick(1500, 15000))
		partAExhaustive(run, 3)
		partC(run)
		run.Finish()
	}

	parts := os.Getenv("C18_PARTS") // debugging aid: run a subset of the parts, e.g. C18_PARTS=B
	if parts == "" {
		parts = "ABC"
	} else {
		run.Note("parts_restricted_to", parts)
	}
	if strings.Contains(parts, "A") {
		partA(run, run.Pick(20000, 300000))
		partAExhaustive(run, run.Pick(4, 5))
	}
	if strings.Contains(parts, "B") {
		partB(run)
	}
	if strings.Contains(parts, "C") {
		partC(run)
	}

	if bin := os.Getenv("VERIF_RACE_BIN"); bin != "" && run.Thorough() {
		if s, err := vk.RunSub(bin, "race", run, 15*time.Minute); err != nil {
			run.Inconclusive("race sub-pass: " + err.Error())
		} else {
			run.Merge("race:", s)
		}
	}
	run.Finish()
}
