package main

import (
	"fmt"
	"sync"
	"sync/atomic"
	"time"

	sio "github.com/karagenc/socket.io-go"

	"sioverif/internal/rig"
	"sioverif/internal/vk"
)

// Part C: occurrences racing Once handlers; concurrent On/Off/Fire.

// onceRaceStore: G goroutines fire the same event on a registry that holds k Once
// registrations of h0 (and j of h1) and one On registration of h7. Fire is synchronous on
// the exported registries, so after all goroutines returned: h0 ran <= k times (property),
// h7 ran exactly G*m times.
func onceRaceStore(run *vk.Run, mk factory, store string, rounds int) {
	r := run.Rand("c18-C-once-" + store)
	for round := 0; round < rounds; round++ {
		t, c := mk()
		k := 1 + r.Intn(3)
		j := r.Intn(2)
		G := 8 + r.Intn(9)
		m := 1 + r.Intn(4)
		t.On(0, 7)
		for i := 0; i < k; i++ {
			t.Once(0, 0)
		}
		for i := 0; i < j; i++ {
			t.Once(0, 1)
		}
		startCh := make(chan struct{})
		var wg sync.WaitGroup
		var panics atomic.Int64
		var firstPanic atomic.Value
		for g := 0; g < G; g++ {
			wg.Add(1)
			go func() {
				defer wg.Done()
				<-startCh
				for i := 0; i < m; i++ {
					if p := safely(func() { t.Fire(0) }); p != nil {
						panics.Add(1)
						firstPanic.CompareAndSwap(nil, fmt.Sprint(p))
					}
				}
			}()
		}
		close(startCh)
		wg.Wait()
		got := c.snapshot()
		run.Eval(1)
		run.Count("C_once_race_rounds_"+store, 1)
		run.Count("C_once_race_fires_"+store, int64(G*m))
		run.Distinct(fmt.Sprintf("C once-race %s goroutines=%d once-registrations=%d", store, G, k))
		wit := map[string]any{"store": store, "goroutines": G, "fires_per_goroutine": m, "once_registrations_h0": k, "once_registrations_h1": j, "ran": got, "round": round}
		if round == 0 {
			run.Sample(map[string]any{"part": "C", "scenario": "once-race", "case": wit})
		}
		if n := panics.Load(); n > 0 {
			run.Violation(vk.Violation{Sub: "panic-concurrent", Fields: map[string]any{"store": store, "op": "Fire"},
				What: fmt.Sprintf("%s: %d concurrent Fire calls panicked: %v", store, n, firstPanic.Load()), Witness: wit})
		}
		if got[0] > k || got[1] > j {
			run.Violation(vk.Violation{Sub: "once-ran-more-than-once", Fields: map[string]any{"store": store, "mode": "race"},
				What: fmt.Sprintf("%s: %d Once registrations of h0 ran %d times (h1: %d registrations, %d runs) under %d goroutines firing concurrently", store, k, got[0], j, got[1], G), Witness: wit})
		}
		if got[0] < k || got[1] < j {
			run.Violation(vk.Violation{Sub: "once-never-ran", Fields: map[string]any{"store": store, "mode": "race"},
				What: fmt.Sprintf("%s: %d Once registrations of h0 ran only %d times after %d occurrences (h1: %d/%d)", store, k, got[0], G*m, got[1], j), Witness: wit})
		}
		if got[7] != G*m {
			run.Violation(vk.Violation{Sub: "on-not-every-occurrence", Fields: map[string]any{"store": store, "mode": "race"},
				What: fmt.Sprintf("%s: the On handler ran %d times for %d occurrences", store, got[7], G*m), Witness: wit})
		}
		for h := 2; h < 7; h++ {
			if got[h] != 0 {
				run.Violation(vk.Violation{Sub: "unregistered-handler-ran", Fields: map[string]any{"store": store, "mode": "race"},
					What: fmt.Sprintf("%s: h%d was never registered and ran %d times", store, h, got[h]), Witness: wit})
			}
		}
	}
}

// mixedConcurrent: On/Once/Off/Fire from 8 goroutines on one registry. Goroutine g < 6
// owns handler h_g and alternates register -> fire -> Off(h_g), so that no handler is
// ever registered twice (sequentially this discipline never reaches the remove-in-loop
// defects: any panic here is a concurrency fact). h6 is only ever registered with Once:
// its runs must not exceed its registrations. h7 is never registered.
func mixedConcurrent(run *vk.Run, mk factory, store string, rounds, iters int) {
	r := run.Rand("c18-C-mixed-" + store)
	for round := 0; round < rounds; round++ {
		t, c := mk()
		ne := t.events()
		var onceReg atomic.Int64
		var panics atomic.Int64
		var firstPanic atomic.Value
		call := func(name string, f func()) {
			if p := safely(f); p != nil {
				panics.Add(1)
				firstPanic.CompareAndSwap(nil, name+": "+fmt.Sprint(p))
			}
		}
		seed := r.Int63()
		var wg sync.WaitGroup
		for g := 0; g < 8; g++ {
			wg.Add(1)
			go func(g int) {
				defer wg.Done()
				x := uint64(seed) + uint64(g)*0x9e3779b97f4a7c15
				next := func(n int) int {
					x ^= x << 13
					x ^= x >> 7
					x ^= x << 17
					return int(x % uint64(n))
				}
				for i := 0; i < iters; i++ {
					e := next(ne)
					switch {
					case g < 6:
						if next(3) == 0 {
							call("Once", func() { t.Once(e, g) })
						} else {
							call("On", func() { t.On(e, g) })
						}
						call("Fire", func() { t.Fire(e) })
						call("Off", func() { t.Off(e, []int{g}) })
					case g == 6:
						onceReg.Add(1)
						call("Once", func() { t.Once(e, 6) })
						call("Fire", func() { t.Fire(e) })
					default:
						call("Fire", func() { t.Fire(e) })
						if next(50) == 0 {
							call("Off()", func() { t.Off(e, nil) })
						}
						if next(200) == 0 {
							call("OffAll", func() { t.OffAll() })
						}
					}
				}
			}(g)
		}
		wg.Wait()
		got := c.snapshot()
		run.Eval(1)
		run.Count("C_mixed_rounds_"+store, 1)
		run.Distinct("C mixed-concurrent " + store)
		wit := map[string]any{"store": store, "round": round, "iterations_per_goroutine": iters, "once_registrations_h6": onceReg.Load(), "ran": got}
		if n := panics.Load(); n > 0 {
			run.Violation(vk.Violation{Sub: "panic-concurrent", Fields: map[string]any{"store": store, "op": "mixed"},
				What: fmt.Sprintf("%s: %d calls panicked under concurrent On/Once/Off/Fire without duplicate registrations: %v", store, n, firstPanic.Load()), Witness: wit})
		}
		if int64(got[6]) > onceReg.Load() {
			run.Violation(vk.Violation{Sub: "once-ran-more-than-once", Fields: map[string]any{"store": store, "mode": "mixed"},
				What: fmt.Sprintf("%s: h6 was registered %d times with Once and ran %d times", store, onceReg.Load(), got[6]), Witness: wit})
		}
		if got[7] != 0 {
			run.Violation(vk.Violation{Sub: "unregistered-handler-ran", Fields: map[string]any{"store": store, "mode": "mixed"},
				What: fmt.Sprintf("%s: h7 was never registered and ran %d times", store, got[7]), Witness: wit})
		}
	}
}

// e2eOnceRace: occurrences racing Once handlers through the public API.
func e2eOnceRace(run *vk.Run) {
	srv, err := rig.NewServer(&sio.ServerConfig{}, "")
	if err != nil {
		run.Inconclusive("C e2e: " + err.Error())
		return
	}
	defer srv.Close()
	rounds := run.Pick(4, 25)
	if run.SubMode == "race" {
		rounds = run.Pick(2, 8)
	}
	for round := 0; round < rounds; round++ {
		e2eServerSocketOnce(run, srv, round)
		e2eClientSocketOnce(run, srv, round)
		e2eNamespaceOnce(run, srv, round)
	}
}

type onceCheck struct {
	family string
	k      int           // Once registrations
	once   *atomic.Int64 // runs of the Once handler
	on     *atomic.Int64 // runs of the On handler registered next to it
	n      int           // occurrences caused
}

func judgeOnce(run *vk.Run, oc onceCheck, wit map[string]any) {
	run.Eval(1)
	run.Count("C_e2e_cases_"+oc.family, 1)
	run.Count("C_e2e_occurrences_"+oc.family, int64(oc.n))
	run.Distinct(fmt.Sprintf("C e2e once-race %s registrations=%d", oc.family, oc.k))
	wit["family"] = oc.family
	wit["once_registrations"] = oc.k
	wit["occurrences"] = oc.n
	// all occurrences dispatched?
	all := vk.WaitUntil(occurrenceWait, func() bool { return int(oc.on.Load()) >= oc.n })
	time.Sleep(100 * time.Millisecond)
	wit["once_runs"] = oc.once.Load()
	wit["on_runs"] = oc.on.Load()
	if int(oc.once.Load()) > oc.k {
		run.Violation(vk.Violation{Sub: "once-ran-more-than-once", Fields: map[string]any{"family": oc.family, "mode": "race"},
			What: fmt.Sprintf("%s: %d Once registration(s) ran %d times for %d racing occurrences", oc.family, oc.k, oc.once.Load(), oc.n), Witness: wit})
	}
	if int(oc.on.Load()) > oc.n {
		run.Violation(vk.Violation{Sub: "handler-ran-too-often", Fields: map[string]any{"family": oc.family, "mode": "race"},
			What: fmt.Sprintf("%s: the On handler ran %d times for %d occurrences", oc.family, oc.on.Load(), oc.n), Witness: wit})
	}
	if !all {
		run.Inconclusive(fmt.Sprintf("C e2e %s: the On handler saw %d of %d occurrences within %v", oc.family, oc.on.Load(), oc.n, occurrenceWait))
		return
	}
	if int(oc.once.Load()) < oc.k {
		if !vk.WaitUntil(absenceWait, func() bool { return int(oc.once.Load()) >= oc.k }) {
			run.Violation(vk.Violation{Sub: "once-never-ran", Fields: map[string]any{"family": oc.family, "mode": "race"},
				What: fmt.Sprintf("%s: %d Once registration(s) ran %d times although %d occurrences were dispatched", oc.family, oc.k, oc.once.Load(), oc.n), Witness: wit})
		}
	}
}

// many clients, each emitting the same event in bursts from several goroutines to a
// OnceEvent handler on its server-side socket (the server dispatches every packet on its
// own goroutine).
func e2eServerSocketOnce(run *vk.Run, srv *rig.Server, round int) {
	const clients, senders, perSender = 8, 4, 8
	nsp := srv.IO.Of(uniq("c-ss"))
	type per struct{ once, on atomic.Int64 }
	var mu sync.Mutex
	byID := map[sio.SocketID]*per{}
	k := 1 + round%2
	nsp.OnConnection(func(s sio.ServerSocket) {
		p := &per{}
		for i := 0; i < k; i++ {
			s.OnceEvent("x", func() { p.once.Add(1) })
		}
		s.OnEvent("x", func() { p.on.Add(1) })
		mu.Lock()
		byID[s.ID()] = p
		mu.Unlock()
		s.Emit("ready")
	})
	var cs []*client
	defer func() {
		for _, c := range cs {
			c.m.Close()
		}
	}()
	var wg sync.WaitGroup
	var failed atomic.Int64
	for i := 0; i < clients; i++ {
		c := newClient(srv.URL, nsp.Name())
		cs = append(cs, c)
		ready := make(chan struct{}, 1)
		c.s.OnEvent("ready", func() {
			select {
			case ready <- struct{}{}:
			default:
			}
		})
		wg.Add(1)
		go func() {
			defer wg.Done()
			c.s.Connect()
			select {
			case <-ready:
			case <-time.After(occurrenceWait):
				failed.Add(1)
				return
			}
			var sw sync.WaitGroup
			for g := 0; g < senders; g++ {
				sw.Add(1)
				go func() {
					defer sw.Done()
					for j := 0; j < perSender; j++ {
						c.s.Emit("x")
					}
				}()
			}
			sw.Wait()
		}()
	}
	wg.Wait()
	if failed.Load() > 0 {
		run.Inconclusive(fmt.Sprintf("C e2e ServerSocket.OnceEvent: %d client(s) never got ready", failed.Load()))
		return
	}
	mu.Lock()
	ps := make([]*per, 0, len(byID))
	for _, p := range byID {
		ps = append(ps, p)
	}
	mu.Unlock()
	for i, p := range ps {
		judgeOnce(run, onceCheck{family: "ServerSocket.OnceEvent", k: k, once: &p.once, on: &p.on, n: senders * perSender},
			map[string]any{"round": round, "socket": i, "clients": clients, "sender_goroutines": senders})
	}
}

// the server emits a burst to one client socket that has a OnceEvent handler (the client
// dispatches every packet on its own goroutine).
func e2eClientSocketOnce(run *vk.Run, srv *rig.Server, round int) {
	const burst = 64
	nsp := srv.IO.Of(uniq("c-cs"))
	sockCh := make(chan sio.ServerSocket, 1)
	nsp.OnConnection(func(s sio.ServerSocket) { sockCh <- s })
	c := newClient(srv.URL, nsp.Name())
	defer c.m.Close()
	var onceN, onN atomic.Int64
	k := 1 + round%3
	for i := 0; i < k; i++ {
		c.s.OnceEvent("x", func() { onceN.Add(1) })
	}
	c.s.OnEvent("x", func() { onN.Add(1) })
	if err := c.connect(); err != nil {
		run.Inconclusive("C e2e ClientSocket.OnceEvent: " + err.Error())
		return
	}
	var s sio.ServerSocket
	select {
	case s = <-sockCh:
	case <-time.After(occurrenceWait):
		run.Inconclusive("C e2e ClientSocket.OnceEvent: no server-side socket")
		return
	}
	var wg sync.WaitGroup
	for g := 0; g < 4; g++ {
		wg.Add(1)
		go func() {
			defer wg.Done()
			for j := 0; j < burst/4; j++ {
				s.Emit("x")
			}
		}()
	}
	wg.Wait()
	judgeOnce(run, onceCheck{family: "ClientSocket.OnceEvent", k: k, once: &onceN, on: &onN, n: burst}, map[string]any{"round": round})
}

// many clients connecting at once to a namespace with a OnceConnection handler, and
// OnServerSideEmit from many goroutines against a Namespace.OnceEvent handler.
func e2eNamespaceOnce(run *vk.Run, srv *rig.Server, round int) {
	const clients = 12
	nsp := srv.IO.Of(uniq("c-nsp"))
	var onceN, onN atomic.Int64
	k := 1 + round%2
	for i := 0; i < k; i++ {
		nsp.OnceConnection(func(sio.ServerSocket) { onceN.Add(1) })
	}
	nsp.OnConnection(func(sio.ServerSocket) { onN.Add(1) })
	var cs []*client
	defer func() {
		for _, c := range cs {
			c.m.Close()
		}
	}()
	startCh := make(chan struct{})
	var wg sync.WaitGroup
	var failed atomic.Int64
	for i := 0; i < clients; i++ {
		c := newClient(srv.URL, nsp.Name())
		cs = append(cs, c)
		wg.Add(1)
		go func() {
			defer wg.Done()
			<-startCh
			if err := c.connect(); err != nil {
				failed.Add(1)
			}
		}()
	}
	close(startCh)
	wg.Wait()
	if failed.Load() > 0 {
		run.Inconclusive(fmt.Sprintf("C e2e Namespace.OnceConnection: %d client(s) did not connect", failed.Load()))
	} else {
		judgeOnce(run, onceCheck{family: "Namespace.OnceConnection", k: k, once: &onceN, on: &onN, n: clients}, map[string]any{"round": round})
	}

	var eOnce, eOn atomic.Int64
	for i := 0; i < k; i++ {
		nsp.OnceEvent("x", func() { eOnce.Add(1) })
	}
	nsp.OnEvent("x", func() { eOn.Add(1) })
	const G, per = 16, 4
	start2 := make(chan struct{})
	var wg2 sync.WaitGroup
	for g := 0; g < G; g++ {
		wg2.Add(1)
		go func() {
			defer wg2.Done()
			<-start2
			for j := 0; j < per; j++ {
				nsp.OnServerSideEmit("x")
			}
		}()
	}
	close(start2)
	wg2.Wait()
	judgeOnce(run, onceCheck{family: "Namespace.OnceEvent", k: k, once: &eOnce, on: &eOn, n: G * per}, map[string]any{"round": round})
}

func partC(run *vk.Run) {
	start := time.Now()
	rounds := run.Pick(400, 4000)
	mixedRounds, iters := run.Pick(20, 150), 400
	if run.SubMode == "race" {
		rounds, mixedRounds = run.Pick(100, 800), run.Pick(6, 40)
	}
	onceRaceStore(run, newEvTarget, "eventHandlerStore", rounds)
	onceRaceStore(run, newLcTarget, "handlerStore", rounds)
	mixedConcurrent(run, newEvTarget, "eventHandlerStore", mixedRounds, iters)
	mixedConcurrent(run, newLcTarget, "handlerStore", mixedRounds, iters)
	hist := run.Pick(100, 1000)
	if run.SubMode == "race" {
		hist = run.Pick(20, 150)
	}
	linearizability(run, "eventHandlerStore", hist, 12)
	linearizability(run, "handlerStore", hist, 12)
	e2eOnceRace(run)
	run.Logf("part C: %v", time.Since(start).Round(time.Millisecond))
}
