package main

import (
	"fmt"
	"math/rand"
	"runtime"
	"sort"
	"strings"
	"sync"
	"sync/atomic"

	mapset "github.com/deckarep/golang-set/v2"
	"github.com/karagenc/socket.io-go/adapter"

	"sioverif/internal/vk"
)

// ---------------------------------------------------------------------------------
// the executable model: membership is a map socket -> set of rooms (own-id room included);
// a broadcast (T,E) selects {s : (T empty or rooms(s)∩T≠∅) and rooms(s)∩E=∅}.
// ---------------------------------------------------------------------------------

type membership map[SID]map[Room]bool

func (m membership) selectSet(T, E []Room) map[SID]bool {
	out := map[SID]bool{}
	for sid, rs := range m {
		in := len(T) == 0
		for _, t := range T {
			if rs[t] {
				in = true
				break
			}
		}
		if !in {
			continue
		}
		ex := false
		for _, e := range E {
			if rs[e] {
				ex = true
				break
			}
		}
		if !ex {
			out[sid] = true
		}
	}
	return out
}

func (m membership) members(room Room) map[SID]bool {
	out := map[SID]bool{}
	for sid, rs := range m {
		if rs[room] {
			out[sid] = true
		}
	}
	return out
}

func (m membership) roomsOf(sid SID) []string {
	out := []string{}
	for r := range m[sid] {
		out = append(out, string(r))
	}
	sort.Strings(out)
	return out
}

func (m membership) dump() map[string][]string {
	out := map[string][]string{}
	for sid := range m {
		out[string(sid)] = m.roomsOf(sid)
	}
	return out
}

// seqRec records the deliveries of the single broadcast in flight (sequential parts).
type seqRec struct {
	mu       sync.Mutex
	inflight int64
	got      map[SID]int
	stray    int
	absent   int
}

func (r *seqRec) begin(bid int64) {
	r.mu.Lock()
	r.inflight = bid
	r.got = map[SID]int{}
	r.stray, r.absent = 0, 0
	r.mu.Unlock()
}

func (r *seqRec) onSend(sid SID, bid int64, present bool) {
	r.mu.Lock()
	defer r.mu.Unlock()
	if bid != r.inflight || r.got == nil {
		r.stray++
		return
	}
	if !present {
		r.absent++
		return
	}
	r.got[sid]++
}

func (r *seqRec) end() (got map[SID]int, stray, absent int) {
	r.mu.Lock()
	defer r.mu.Unlock()
	got, stray, absent = r.got, r.stray, r.absent
	r.got = nil
	r.inflight = -1
	return
}

// diffDelivery compares observed deliveries with the selected set.
func diffDelivery(got map[SID]int, want map[SID]bool) (kind string, detail string) {
	var missing, extra, dup []string
	for sid := range want {
		if got[sid] == 0 {
			missing = append(missing, string(sid))
		}
	}
	for sid, n := range got {
		if !want[sid] {
			extra = append(extra, string(sid))
		}
		if n > 1 {
			dup = append(dup, fmt.Sprintf("%s x%d", sid, n))
		}
	}
	sort.Strings(missing)
	sort.Strings(extra)
	sort.Strings(dup)
	switch {
	case len(dup) > 0:
		kind = "duplicate"
	case len(extra) > 0:
		kind = "extra"
	case len(missing) > 0:
		kind = "missing"
	default:
		return "", ""
	}
	return kind, fmt.Sprintf("missing=%v extra=%v duplicate=%v", missing, extra, dup)
}

func maskRooms(mask int, names []Room) []Room {
	var out []Room
	for i, n := range names {
		if mask&(1<<i) != 0 {
			out = append(out, n)
		}
	}
	return out
}

func sidSetOfSockets(socks []adapter.Socket) (map[SID]int, []string) {
	m := map[SID]int{}
	for _, s := range socks {
		m[s.ID()]++
	}
	return m, sortedSIDs(m)
}

// chain builds the operator for (T,E) in one of several shapes.
func chain(root *adapter.BroadcastOperator, shape int, T, E []Room) *adapter.BroadcastOperator {
	switch shape % 5 {
	case 0:
		return root.To(T...).Except(E...)
	case 1:
		return root.Except(E...).In(T...)
	case 2:
		op := root
		for _, t := range T {
			op = op.To(t)
		}
		for _, e := range E {
			op = op.Except(e)
		}
		return op
	case 3:
		op := root
		for i := 0; i < len(T) || i < len(E); i++ {
			if i < len(E) {
				op = op.Except(E[i])
			}
			if i < len(T) {
				op = op.In(T[i])
			}
		}
		return op
	default:
		return root.To(T...).Except(E...).In(T...).Except(E...).Local().Compress(true)
	}
}

// ---------------------------------------------------------------------------------
// Part 1a: exhaustive.
// ---------------------------------------------------------------------------------

func part1a(run *vk.Run) {
	rooms := []Room{"r0", "r1", "r2"}
	sids := []SID{"s0", "s1", "s2"}
	var bid int64
	for m := 0; m < 512; m++ {
		w := newWorld()
		rec := &seqRec{}
		w.onSend = rec.onSend
		socks := make([]*fakeSocket, len(sids))
		for i := range sids {
			socks[i] = w.connect(sids[i])
		}
		root := w.root()
		mem := membership{}
		buildHow := [...]string{"join", "join-all-then-leave", "operator-SocketsJoin"}[m%3]
		for s := range sids {
			mask := (m >> (3 * s)) & 7
			in := maskRooms(mask, rooms)
			mem[sids[s]] = map[Room]bool{Room(sids[s]): true}
			for _, r := range in {
				mem[sids[s]][r] = true
			}
			switch m % 3 {
			case 0:
				if len(in) > 0 {
					socks[s].Join(in...)
				}
			case 1:
				socks[s].Join(rooms...)
				for r := range rooms {
					if mask&(1<<r) == 0 {
						socks[s].Leave(rooms[r])
					}
				}
			case 2:
				if len(in) > 0 {
					root.In(Room(sids[s])).SocketsJoin(in...)
				}
			}
		}
		matrix := mem.dump()
		structViol := func(kind, what string) {
			run.Violation(vk.Violation{Sub: "membership", Fields: map[string]any{"part": "1a", "kind": kind},
				What: fmt.Sprintf("matrix %d (built by %s): %s", m, buildHow, what), Witness: map[string]any{"matrix": matrix, "built_by": buildHow}})
		}
		if err := adapter.VerifCheckIndexInvariant(w.a); err != nil {
			structViol("index-invariant", err.Error())
		}
		run.Eval(1)
		snap := adapter.VerifIndexSnapshot(w.a)
		for _, sid := range sids {
			if !eqStrings(roomStrings(snap[sid]), mem.roomsOf(sid)) {
				structViol("index-snapshot", fmt.Sprintf("index has %s in %v, history says %v", sid, roomStrings(snap[sid]), mem.roomsOf(sid)))
			}
			rs, ok := w.a.SocketRooms(sid)
			if !ok || !eqStrings(setToSortedRooms(rs), mem.roomsOf(sid)) {
				structViol("SocketRooms", fmt.Sprintf("SocketRooms(%s)=%v ok=%v, history says %v", sid, setToSortedRooms(rs), ok, mem.roomsOf(sid)))
			}
			run.Eval(2)
		}
		if len(snap) != len(sids) {
			structViol("index-snapshot", fmt.Sprintf("index knows %d sockets, 3 are connected", len(snap)))
		}

		emit := func(via string, cell string, T, E []Room, f func(bid int64)) {
			bid++
			rec.begin(bid)
			err := safely(func() { f(bid) })
			got, stray, absent := rec.end()
			run.Eval(1)
			run.Count("p1a_broadcasts", 1)
			fields := func(kind string) map[string]any {
				return map[string]any{"part": "1a", "kind": kind, "via": via}
			}
			wit := map[string]any{"matrix": matrix, "built_by": buildHow, "cell": cell, "via": via, "T": roomStrings(T), "E": roomStrings(E), "delivered": got}
			if err != nil {
				run.Violation(vk.Violation{Sub: "broadcast", Fields: fields("panic"), What: fmt.Sprintf("cell %s via %s: %v", cell, via, err), Witness: wit})
				return
			}
			want := mem.selectSet(T, E)
			wit["expected"] = sortedSIDs(want)
			if kind, detail := diffDelivery(got, want); kind != "" {
				run.Violation(vk.Violation{Sub: "broadcast", Fields: fields(kind),
					What: fmt.Sprintf("cell %s via %s: T=%v E=%v delivered to %v, selected set is %v (%s)", cell, via, roomStrings(T), roomStrings(E), got, sortedSIDs(want), detail), Witness: wit})
			}
			if stray > 0 || absent > 0 {
				run.Violation(vk.Violation{Sub: "broadcast", Fields: fields("stray"),
					What: fmt.Sprintf("cell %s via %s: %d deliveries of another broadcast id, %d to sockets not in the store", cell, via, stray, absent), Witness: wit})
			}
		}

		for t := 0; t < 8; t++ {
			T := maskRooms(t, rooms)
			// Sockets(T)
			got := setToSortedSIDs(w.a.Sockets(mapset.NewSet[Room](T...)))
			want := sortedSIDs(mem.selectSet(T, nil))
			run.Eval(1)
			if !eqStrings(got, want) {
				structViol("Sockets", fmt.Sprintf("Sockets(%v)=%v, history says %v", roomStrings(T), got, want))
			}
			for e := 0; e < 8; e++ {
				E := maskRooms(e, rooms)
				cell := fmt.Sprintf("m%d/T%d/E%d", m, t, e)
				run.Distinct(cell)
				want := mem.selectSet(T, E)
				// coverage classification of the cell
				if len(want) > 0 && len(want) < 3 {
					run.Count("p1a_cells_proper_nonempty_recipient_set", 1)
				}
				dedup, exclEff := false, false
				for _, sid := range sids {
					n := 0
					for _, r := range T {
						if mem[sid][r] {
							n++
						}
					}
					if n >= 2 && want[sid] {
						dedup = true
					}
					if (len(T) == 0 || n > 0) && !want[sid] {
						exclEff = true
					}
				}
				if dedup {
					run.Count("p1a_cells_recipient_in_several_target_rooms", 1)
				}
				if exclEff {
					run.Count("p1a_cells_exclusion_removes_a_target", 1)
				}

				// (1) Adapter.Broadcast with explicit options
				emit("Adapter.Broadcast", cell, T, E, func(b int64) { w.bcastAdapter(b, T, E) })
				// (2) operator chain, shape varies with the cell
				shape := m + t*8 + e
				emit(fmt.Sprintf("operator-chain-%d", shape%5), cell, T, E, func(b int64) { chain(root, shape, T, E).Emit("b", b) })
				// (3) immutability: derive children from a parent, then use both
				T1, T2 := T[:len(T)/2], T[len(T)/2:]
				E1, E2 := E[:(len(E)+1)/2], E[(len(E)+1)/2:]
				base := root.To(T1...).Except(E1...)
				child := base.To(T2...).Except(E2...)
				_ = base.To(rooms...)     // sibling that widens the targets
				_ = base.Except(rooms...) // sibling that excludes everybody in a room
				_ = child.In("zz").Except("s0", "s1", "s2")
				emit("operator-child", cell, T, E, func(b int64) { child.Emit("b", b) })
				emit("operator-parent-after-children", cell, T1, E1, func(b int64) { base.Emit("b", b) })
				// (4) broadcasts issued through a socket never reach that socket
				for s := range sids {
					Es := append(append([]Room{}, E...), Room(sids[s]))
					var op *adapter.BroadcastOperator
					switch (shape + s) % 3 {
					case 0:
						op = socks[s].To(T...).Except(E...)
					case 1:
						op = socks[s].Except(E...).In(T...)
					default:
						op = socks[s].Broadcast().To(T...).Except(E...)
					}
					emit("socket-"+string(sids[s]), cell, T, Es, func(b int64) { op.Emit("b", b) })
				}
				// FetchSockets through the operator
				fs, fsl := sidSetOfSockets(chain(root, shape+1, T, E).FetchSockets())
				run.Eval(1)
				if !eqStrings(fsl, sortedSIDs(want)) || len(fs) != len(fsl) {
					structViol("FetchSockets", fmt.Sprintf("FetchSockets(T=%v,E=%v)=%v, selected set is %v", roomStrings(T), roomStrings(E), fsl, sortedSIDs(want)))
				}
				if m%97 == 41 && len(want) == 1 && t != 0 && e != 0 && (t+e)%5 == 0 && samples.take("1a") {
					run.Sample(map[string]any{"part": "1a", "cell": cell, "matrix": matrix, "T": roomStrings(T), "E": roomStrings(E), "recipients": sortedSIDs(want)})
				}
			}
			// private rooms: T ∪ {own id of s}
			for s := range sids {
				Tp := append(append([]Room{}, T...), Room(sids[s]))
				emit("private-room", fmt.Sprintf("m%d/T%d+%s", m, t, sids[s]), Tp, nil, func(b int64) { root.To(Tp...).Emit("b", b) })
			}
		}
		// the root operator was the parent of everything above: it must still select everyone
		emit("root-operator-after-all-children", fmt.Sprintf("m%d/root", m), nil, nil, func(b int64) { root.Emit("b", b) })
		if n := w.badPayload.Load(); n > 0 {
			run.Violation(vk.Violation{Sub: "broadcast", Fields: map[string]any{"part": "1a", "kind": "payload"},
				What: fmt.Sprintf("matrix %d: %d SendBuffers calls carried something else than the broadcast event (%s)", m, n, w.badFirst), Witness: map[string]any{"matrix": matrix}})
		}
	}
	run.Count("p1a_matrices", 512)
}

// ---------------------------------------------------------------------------------
// Part 1b: random histories.
// ---------------------------------------------------------------------------------

const (
	hSlots = 4
	hRooms = 4
)

// hop is one operation of a history. Rooms are referenced by name ("r2") or as the
// id room of an incarnation of a slot ("@<slot>.<back>", back 0 = newest incarnation).
type hop struct {
	Kind  string   `json:"op"`
	Slot  int      `json:"slot"`
	Rooms []string `json:"rooms,omitempty"`
	T     []string `json:"T,omitempty"`
	E     []string `json:"E,omitempty"`
	Via   string   `json:"via,omitempty"`
}

func (o hop) String() string {
	switch o.Kind {
	case "conn", "disc":
		return fmt.Sprintf("%s(slot%d)", o.Kind, o.Slot)
	case "join", "leave":
		return fmt.Sprintf("%s(slot%d,%v)", o.Kind, o.Slot, o.Rooms)
	case "bcast":
		return fmt.Sprintf("bcast[%s,slot%d](T=%v,E=%v)", o.Via, o.Slot, o.T, o.E)
	default:
		return fmt.Sprintf("%s(T=%v,E=%v,%v)", o.Kind, o.T, o.E, o.Rooms)
	}
}

func genRefs(r *rand.Rand, pNamed float64, pID float64) []string {
	var out []string
	for i := 0; i < hRooms; i++ {
		if r.Float64() < pNamed {
			out = append(out, fmt.Sprintf("r%d", i))
		}
	}
	if r.Float64() < pID {
		out = append(out, fmt.Sprintf("@%d.%d", r.Intn(hSlots), r.Intn(2)))
	}
	return out
}

func genTE(r *rand.Rand) (T, E []string) {
	if r.Float64() >= 0.3 {
		T = genRefs(r, 0.3, 0.2)
	}
	if r.Float64() >= 0.35 {
		E = genRefs(r, 0.2, 0.2)
	}
	return
}

func genHistory(r *rand.Rand) []hop {
	n := 6 + r.Intn(35)
	ops := make([]hop, 0, n)
	live := [hSlots]bool{}
	for s := 0; s < hSlots && len(ops) < 4; s++ {
		if s < 3 || r.Intn(2) == 0 {
			ops = append(ops, hop{Kind: "conn", Slot: s})
			live[s] = true
		}
	}
	namedSubset := func(min int) []string {
		var out []string
		for len(out) < min {
			out = out[:0]
			for i := 0; i < hRooms; i++ {
				if r.Intn(3) == 0 {
					out = append(out, fmt.Sprintf("r%d", i))
				}
			}
		}
		return out
	}
	for len(ops) < n {
		slot := r.Intn(hSlots)
		x := r.Intn(100)
		switch {
		case x < 22:
			rooms := namedSubset(1)
			if r.Intn(20) == 0 { // somebody else's id room is a room like any other
				rooms = append(rooms, fmt.Sprintf("@%d.%d", (slot+1+r.Intn(hSlots-1))%hSlots, 0))
			}
			ops = append(ops, hop{Kind: "join", Slot: slot, Rooms: rooms})
		case x < 36:
			ops = append(ops, hop{Kind: "leave", Slot: slot, Rooms: []string{fmt.Sprintf("r%d", r.Intn(hRooms))}})
		case x < 42:
			if live[slot] {
				ops = append(ops, hop{Kind: "disc", Slot: slot})
				live[slot] = false
			}
		case x < 50:
			for s := 0; s < hSlots; s++ {
				if !live[s] {
					ops = append(ops, hop{Kind: "conn", Slot: s})
					live[s] = true
					break
				}
			}
		case x < 58:
			T, E := genTE(r)
			ops = append(ops, hop{Kind: "sjoin", T: T, E: E, Rooms: namedSubset(1)})
		case x < 66:
			T, E := genTE(r)
			ops = append(ops, hop{Kind: "sleave", T: T, E: E, Rooms: namedSubset(1)})
		case x < 69:
			T, E := genTE(r)
			if len(T) == 0 && len(E) == 0 && r.Intn(3) != 0 {
				T = []string{fmt.Sprintf("r%d", r.Intn(hRooms))}
			}
			ops = append(ops, hop{Kind: "sdisc", T: T, E: E})
			// liveness tracking is only a generation bias; execution handles every state
		default:
			T, E := genTE(r)
			via := [...]string{"adapter", "op", "sender", "sender"}[r.Intn(4)]
			ops = append(ops, hop{Kind: "bcast", Slot: slot, T: T, E: E, Via: via})
		}
	}
	return ops
}

type hfail struct {
	Step int
	Sub  string
	Kind string
	What string
}

type hstate struct {
	w     *world
	rec   *seqRec
	root  *adapter.BroadcastOperator
	slots [hSlots]*fakeSocket
	ids   [hSlots][]SID
	mem   membership
	dead  []SID
	bid   int64
	evals int
	// statistics of this execution
	nBcast, nRecipients, nDeadProbes int
}

func newHState() *hstate {
	h := &hstate{w: newWorld(), rec: &seqRec{}, mem: membership{}}
	h.w.onSend = h.rec.onSend
	h.root = h.w.root()
	return h
}

func (h *hstate) resolve(ref string) (Room, bool) {
	if !strings.HasPrefix(ref, "@") {
		return Room(ref), true
	}
	var slot, back int
	if _, err := fmt.Sscanf(ref, "@%d.%d", &slot, &back); err != nil || slot < 0 || slot >= hSlots {
		return "", false
	}
	l := h.ids[slot]
	if back < 0 || back >= len(l) {
		return "", false
	}
	return Room(l[len(l)-1-back]), true
}

func (h *hstate) resolveAll(refs []string) []Room {
	var out []Room
	for _, ref := range refs {
		if r, ok := h.resolve(ref); ok {
			out = append(out, r)
		}
	}
	return out
}

// step executes one operation on the real adapter and on the model, then compares.
func (h *hstate) step(i int, o hop) *hfail {
	fail := func(sub, kind, what string) *hfail {
		return &hfail{Step: i, Sub: sub, Kind: kind, What: fmt.Sprintf("step %d %s: %s", i, o, what)}
	}
	var bcast func(bid int64)
	var bT, bE []Room
	err := safely(func() {
		switch o.Kind {
		case "conn":
			if h.slots[o.Slot] != nil {
				return
			}
			id := SID(fmt.Sprintf("%c%d", 'a'+o.Slot, len(h.ids[o.Slot])))
			h.ids[o.Slot] = append(h.ids[o.Slot], id)
			h.slots[o.Slot] = h.w.connect(id)
			h.mem[id] = map[Room]bool{Room(id): true}
		case "disc":
			s := h.slots[o.Slot]
			if s == nil {
				return
			}
			s.Disconnect(false)
			delete(h.mem, s.id)
			h.dead = append(h.dead, s.id)
			h.slots[o.Slot] = nil
		case "join":
			s := h.slots[o.Slot]
			rooms := h.resolveAll(o.Rooms)
			if s == nil || len(rooms) == 0 {
				return
			}
			s.Join(rooms...)
			for _, r := range rooms {
				h.mem[s.id][r] = true
			}
		case "leave":
			s := h.slots[o.Slot]
			if s == nil {
				return
			}
			for _, r := range h.resolveAll(o.Rooms) {
				if r == Room(s.id) {
					continue // histories never leave the own-id room
				}
				s.Leave(r)
				delete(h.mem[s.id], r)
			}
		case "sjoin":
			T, E, R := h.resolveAll(o.T), h.resolveAll(o.E), h.resolveAll(o.Rooms)
			sel := h.mem.selectSet(T, E)
			h.root.To(T...).Except(E...).SocketsJoin(R...)
			for sid := range sel {
				for _, r := range R {
					h.mem[sid][r] = true
				}
			}
		case "sleave":
			T, E, R := h.resolveAll(o.T), h.resolveAll(o.E), h.resolveAll(o.Rooms)
			sel := h.mem.selectSet(T, E)
			h.root.Except(E...).In(T...).SocketsLeave(R...)
			for sid := range sel {
				for _, r := range R {
					if r != Room(sid) {
						delete(h.mem[sid], r)
					}
				}
			}
		case "sdisc":
			T, E := h.resolveAll(o.T), h.resolveAll(o.E)
			sel := h.mem.selectSet(T, E)
			h.root.To(T...).Except(E...).DisconnectSockets(false)
			for sid := range sel {
				delete(h.mem, sid)
				h.dead = append(h.dead, sid)
				for k := range h.slots {
					if h.slots[k] != nil && h.slots[k].id == sid {
						h.slots[k] = nil
					}
				}
			}
		case "bcast":
			bT, bE = h.resolveAll(o.T), h.resolveAll(o.E)
			T, E := bT, bE
			switch {
			case o.Via == "adapter":
				bcast = func(b int64) { h.w.bcastAdapter(b, T, E) }
			case o.Via == "sender" && h.slots[o.Slot] != nil:
				s := h.slots[o.Slot]
				bE = append(append([]Room{}, E...), Room(s.id))
				bcast = func(b int64) { s.To(T...).Except(E...).Emit("b", b) }
			default:
				bcast = func(b int64) { chain(h.root, i, T, E).Emit("b", b) }
			}
		}
	})
	if err != nil {
		return fail("history", "panic", err.Error())
	}
	if bcast != nil {
		h.bid++
		want := h.mem.selectSet(bT, bE)
		h.rec.begin(h.bid)
		err := safely(func() { bcast(h.bid) })
		got, stray, absent := h.rec.end()
		h.evals++
		h.nBcast++
		h.nRecipients += len(want)
		if err != nil {
			return fail("broadcast", "panic", err.Error())
		}
		if kind, detail := diffDelivery(got, want); kind != "" {
			return fail("broadcast", kind, fmt.Sprintf("T=%v E=%v delivered to %v, selected set is %v (%s); membership %v", roomStrings(bT), roomStrings(bE), got, sortedSIDs(want), detail, h.mem.dump()))
		}
		if stray > 0 || absent > 0 {
			return fail("broadcast", "stray", fmt.Sprintf("%d deliveries of another broadcast, %d to sockets not in the store", stray, absent))
		}
		for _, d := range h.dead {
			if got[d] > 0 {
				return fail("broadcast", "to-disconnected", fmt.Sprintf("disconnected socket %s received the broadcast", d))
			}
		}
	}
	return h.verify(i, o, fail)
}

// verify compares the adapter's state with the model after an operation.
func (h *hstate) verify(i int, o hop, fail func(sub, kind, what string) *hfail) *hfail {
	a := h.w.a
	var f *hfail
	err := safely(func() {
		if err := adapter.VerifCheckIndexInvariant(a); err != nil {
			f = fail("membership", "index-invariant", err.Error())
			return
		}
		h.evals++
		snap := adapter.VerifIndexSnapshot(a)
		if len(snap) != len(h.mem) {
			f = fail("membership", "index-snapshot", fmt.Sprintf("index knows sockets %v, connected are %v", sortedSIDs(snap), sortedSIDs(h.mem)))
			return
		}
		for sid := range h.mem {
			if got, want := roomStrings(snap[sid]), h.mem.roomsOf(sid); !eqStrings(got, want) {
				f = fail("membership", "index-snapshot", fmt.Sprintf("index has %s in %v, net effect of the history is %v", sid, got, want))
				return
			}
			rs, ok := a.SocketRooms(sid)
			h.evals++
			if got, want := setToSortedRooms(rs), h.mem.roomsOf(sid); !ok || !eqStrings(got, want) {
				f = fail("membership", "SocketRooms", fmt.Sprintf("SocketRooms(%s)=%v ok=%v, net effect of the history is %v", sid, got, ok, want))
				return
			}
		}
		for _, d := range h.dead {
			h.evals++
			h.nDeadProbes++
			if rs, ok := a.SocketRooms(d); ok {
				f = fail("membership", "disconnected-in-room", fmt.Sprintf("disconnected socket %s still has rooms %v", d, setToSortedRooms(rs)))
				return
			}
			if _, ok := snap[d]; ok {
				f = fail("membership", "disconnected-in-room", fmt.Sprintf("disconnected socket %s still in the index", d))
				return
			}
		}
		// Sockets(): everybody, every named room, every id room ever handed out, one pair
		probe := func(rooms ...Room) bool {
			got := setToSortedSIDs(a.Sockets(mapset.NewSet[Room](rooms...)))
			want := sortedSIDs(h.mem.selectSet(rooms, nil))
			h.evals++
			if !eqStrings(got, want) {
				f = fail("membership", "Sockets", fmt.Sprintf("Sockets(%v)=%v, net effect of the history is %v", roomStrings(rooms), got, want))
				return false
			}
			for _, d := range h.dead {
				for _, g := range got {
					if g == string(d) {
						f = fail("membership", "disconnected-in-room", fmt.Sprintf("disconnected socket %s listed by Sockets(%v)", d, roomStrings(rooms)))
						return false
					}
				}
			}
			return true
		}
		if !probe() {
			return
		}
		for r := 0; r < hRooms; r++ {
			if !probe(Room(fmt.Sprintf("r%d", r))) {
				return
			}
		}
		for s := range h.ids {
			for _, id := range h.ids[s] {
				if !probe(Room(id)) {
					return
				}
			}
		}
		if !probe(Room(fmt.Sprintf("r%d", i%hRooms)), Room(fmt.Sprintf("r%d", (i+1)%hRooms))) {
			return
		}
		// FetchSockets with the (T,E) of the operation (or everybody)
		T, E := h.resolveAll(o.T), h.resolveAll(o.E)
		want := sortedSIDs(h.mem.selectSet(T, E))
		cnt, got := sidSetOfSockets(h.root.To(T...).Except(E...).FetchSockets())
		h.evals++
		dupl := false
		for _, n := range cnt {
			dupl = dupl || n > 1
		}
		if !eqStrings(got, want) || dupl {
			f = fail("membership", "FetchSockets", fmt.Sprintf("FetchSockets(T=%v,E=%v)=%v (counts %v), selected set is %v", roomStrings(T), roomStrings(E), got, cnt, want))
			return
		}
		_, got2 := sidSetOfSockets(a.FetchSockets(mkOpts(T, E)))
		if !eqStrings(got2, want) {
			f = fail("membership", "FetchSockets", fmt.Sprintf("Adapter.FetchSockets(T=%v,E=%v)=%v, selected set is %v", roomStrings(T), roomStrings(E), got2, want))
			return
		}
		if n := len(h.w.GetAll()); n != len(h.mem) {
			f = fail("membership", "store", fmt.Sprintf("store holds %d sockets, %d are connected", n, len(h.mem)))
		}
	})
	if err != nil {
		return fail("membership", "panic", err.Error())
	}
	if f == nil && h.w.badPayload.Load() > 0 {
		return fail("broadcast", "payload", "SendBuffers carried something else than the broadcast event: "+h.w.badFirst)
	}
	return f
}

func execHistory(ops []hop) (*hstate, *hfail) {
	h := newHState()
	for i, o := range ops {
		if f := h.step(i, o); f != nil {
			return h, f
		}
	}
	return h, nil
}

// shrink removes operations while the same class of failure remains.
func shrink(ops []hop, f *hfail) ([]hop, *hfail) {
	budget := 400
	for changed := true; changed && budget > 0; {
		changed = false
		for i := len(ops) - 1; i >= 0 && budget > 0; i-- {
			cand := append(append([]hop{}, ops[:i]...), ops[i+1:]...)
			budget--
			if _, g := execHistory(cand); g != nil && g.Sub == f.Sub && g.Kind == f.Kind {
				ops, f, changed = cand, g, true
			}
		}
	}
	if f.Step+1 < len(ops) {
		ops = ops[:f.Step+1]
	}
	return ops, f
}

func kindSig(ops []hop) string {
	c := map[string]int{}
	for _, o := range ops {
		k := o.Kind
		if k == "bcast" {
			k += "-" + o.Via
		}
		c[k]++
	}
	keys := make([]string, 0, len(c))
	for k := range c {
		keys = append(keys, k)
	}
	sort.Strings(keys)
	var b strings.Builder
	b.WriteString("1b")
	for _, k := range keys {
		fmt.Fprintf(&b, " %s:%d", k, c[k])
	}
	return b.String()
}

func part1b(run *vk.Run, n int) {
	base := run.Rand("c04-1b").Int63()
	workers := runtime.GOMAXPROCS(0)
	if workers > 8 {
		workers = 8
	}
	var next atomic.Int64
	var wg sync.WaitGroup
	for wk := 0; wk < workers; wk++ {
		wg.Add(1)
		go func() {
			defer wg.Done()
			for {
				i := next.Add(1) - 1
				if i >= int64(n) {
					return
				}
				r := rand.New(rand.NewSource(base ^ (i+1)*0x5851F42D4C957F2D))
				ops := genHistory(r)
				h, f := execHistory(ops)
				run.Eval(h.evals)
				run.Distinct(kindSig(ops))
				run.Count("p1b_histories", 1)
				run.Count("p1b_operations", int64(len(ops)))
				run.Count("p1b_broadcasts", int64(h.nBcast))
				run.Count("p1b_broadcast_recipients", int64(h.nRecipients))
				run.Count("p1b_disconnected_socket_probes", int64(h.nDeadProbes))
				run.Count("p1b_reconnects_with_fresh_id", int64(len(h.ids[0])+len(h.ids[1])+len(h.ids[2])+len(h.ids[3])-hSlots))
				if f != nil {
					small, g := shrink(ops, f)
					strs := make([]string, len(small))
					for k, o := range small {
						strs[k] = o.String()
					}
					run.Violation(vk.Violation{Sub: g.Sub, Fields: map[string]any{"part": "1b", "kind": g.Kind},
						What:    fmt.Sprintf("history #%d (shrunk to %d ops): %s", i, len(small), g.What),
						Witness: map[string]any{"history_index": i, "ops": small, "ops_text": strs, "original_length": len(ops), "original_failure": f.What}})
					continue
				}
				if i%997 == 3 && samples.take("1b") {
					strs := make([]string, len(ops))
					for k, o := range ops {
						strs[k] = o.String()
					}
					run.Sample(map[string]any{"part": "1b", "history_index": i, "ops": strs, "final_membership": h.mem.dump(), "disconnected": h.dead})
				}
			}
		}()
	}
	wg.Wait()
}
