package main

import (
	"encoding/json"
	"fmt"
	"sync"
	"sync/atomic"
	"time"

	mapset "github.com/deckarep/golang-set/v2"
	sio "github.com/karagenc/socket.io-go"
	"github.com/karagenc/socket.io-go/adapter"

	"sioverif/internal/rawpeer"
	"sioverif/internal/refcodec"
	"sioverif/internal/rig"
	"sioverif/internal/vk"
)

// ---------------------------------------------------------------------------------
// Part 3: end to end. Real server, raw protocol peers, fence after every broadcast.
// ---------------------------------------------------------------------------------

const fenceWait = 90 * time.Second

type e2eClient struct {
	peer      *rawpeer.SIO
	transport string
	sid       SID
	sock      sio.ServerSocket
	from      int // first packet index not yet examined
}

type e2e struct {
	run      *vk.Run
	recovery bool
	srv      *rig.Server
	nsp      *sio.Namespace

	mu    sync.Mutex
	socks map[SID]sio.ServerSocket
	gone  map[SID]bool

	clients []*e2eClient
	mem     membership
	dead    []SID
	n       int64
}

func (e *e2e) fields(kind, via string) map[string]any {
	return map[string]any{"part": "3", "kind": kind, "via": via, "recovery": e.recovery}
}

func (e *e2e) dial(transport string) (*e2eClient, error) {
	p, err := rawpeer.DialSIO(e.srv.URL, transport)
	if err != nil {
		return nil, err
	}
	c := &e2eClient{peer: p, transport: transport}
	if err := e.attach(c); err != nil {
		p.C.Close()
		return nil, err
	}
	return c, nil
}

// attach connects the peer to the root namespace and waits for the server-side socket object.
func (e *e2e) attach(c *e2eClient) error {
	res, err := c.peer.Connect("/", nil, fenceWait)
	if err != nil {
		return fmt.Errorf("CONNECT: %w", err)
	}
	if !res.OK {
		return fmt.Errorf("CONNECT refused: %v", res.ErrData)
	}
	c.sid = SID(res.SID)
	c.from = res.Index + 1
	ok := vk.WaitUntil(fenceWait, func() bool {
		e.mu.Lock()
		defer e.mu.Unlock()
		s, ok := e.socks[c.sid]
		if ok {
			c.sock = s
		}
		return ok
	})
	if !ok {
		return fmt.Errorf("connection handler never ran for %s", c.sid)
	}
	e.mem[c.sid] = map[Room]bool{Room(c.sid): true}
	return nil
}

func isEvent(p *refcodec.Packet, name string) (int64, bool) {
	if rawpeer.EventName(p) != name {
		return 0, false
	}
	args := rawpeer.Args(p)
	if len(args) < 1 {
		return 0, false
	}
	return rawpeer.Num(args[0]) // with recovery on a trailing offset string follows: ignored
}

// fence emits a direct event to every client socket and collects, per client, how often
// broadcast n arrived before the fence. ok=false: inconclusive (already reported).
func (e *e2e) fence(n int64, via string) (got map[SID]int, ok bool) {
	for _, c := range e.clients {
		c.sock.Emit("fence", n)
	}
	got = map[SID]int{}
	for _, c := range e.clients {
		idx, _, err := c.peer.WaitPacket(c.from, fenceWait, func(p *refcodec.Packet) bool {
			v, ok := isEvent(p, "fence")
			return ok && v == n
		})
		if err != nil {
			e.run.Inconclusive(fmt.Sprintf("e2e recovery=%v: fence %d did not reach client %s (%s) within %v: %v (%s)", e.recovery, n, c.sid, c.transport, fenceWait, err, c.peer.C.CloseReason()))
			return nil, false
		}
		ps := c.peer.Packets()
		for i := c.from; i < idx; i++ {
			if v, ok := isEvent(ps[i].P, "b"); ok {
				if v == n {
					got[c.sid]++
				} else {
					e.run.Violation(vk.Violation{Sub: "e2e", Fields: e.fields("stray", via),
						What:    fmt.Sprintf("client %s (%s) received broadcast %d between fence %d and fence %d: an earlier broadcast arrived after the fence that followed it, or twice", c.sid, c.transport, v, n-1, n),
						Witness: map[string]any{"client": c.sid, "transport": c.transport, "broadcast": v, "before_fence": n}})
				}
			} else if v, ok := isEvent(ps[i].P, "fence"); ok {
				e.run.Violation(vk.Violation{Sub: "e2e", Fields: e.fields("stray-fence", via),
					What: fmt.Sprintf("client %s (%s) received fence %d while waiting for fence %d", c.sid, c.transport, v, n), Witness: map[string]any{"client": c.sid}})
			}
		}
		c.from = idx + 1
		if err := c.peer.Err(); err != nil {
			e.run.Inconclusive(fmt.Sprintf("e2e recovery=%v: client %s saw a malformed frame sequence: %v", e.recovery, c.sid, err))
			return nil, false
		}
	}
	return got, true
}

func (e *e2e) checkMembership(step int, what string) {
	a := e.nsp.Adapter()
	viol := func(kind, msg string) {
		e.run.Violation(vk.Violation{Sub: "membership", Fields: e.fields(kind, what),
			What: fmt.Sprintf("e2e recovery=%v step %d after %s: %s", e.recovery, step, what, msg), Witness: map[string]any{"membership_model": e.mem.dump(), "step": step}})
	}
	if err := adapter.VerifCheckIndexInvariant(a); err != nil {
		viol("index-invariant", err.Error())
	}
	for _, c := range e.clients {
		e.run.Eval(1)
		if got, want := setToSortedRooms(c.sock.Rooms()), e.mem.roomsOf(c.sid); !eqStrings(got, want) {
			viol("Rooms", fmt.Sprintf("socket %s Rooms()=%v, net effect of the history is %v", c.sid, got, want))
		}
	}
	for r := 0; r < 4; r++ {
		room := Room(fmt.Sprintf("r%d", r))
		e.run.Eval(1)
		if got, want := setToSortedSIDs(a.Sockets(mapset.NewSet[Room](room))), sortedSIDs(e.mem.members(room)); !eqStrings(got, want) {
			viol("Sockets", fmt.Sprintf("Sockets(%s)=%v, net effect of the history is %v", room, got, want))
		}
	}
	e.run.Eval(1)
	all := setToSortedSIDs(a.Sockets(mapset.NewSet[Room]()))
	if want := sortedSIDs(e.mem); !eqStrings(all, want) {
		viol("Sockets", fmt.Sprintf("Sockets()=%v, connected are %v", all, want))
	}
}

// checkGone: after a disconnect the server socket is in no room and listed nowhere.
func (e *e2e) checkGone(step int, how string, sid SID, sock sio.ServerSocket, prevRooms []string) {
	a := e.nsp.Adapter()
	viol := func(msg string) {
		e.run.Violation(vk.Violation{Sub: "membership", Fields: e.fields("disconnected-in-room", how),
			What: fmt.Sprintf("e2e recovery=%v step %d: after %s of %s (was in %v): %s", e.recovery, step, how, sid, prevRooms, msg), Witness: map[string]any{"sid": sid, "how": how, "previous_rooms": prevRooms}})
	}
	e.run.Eval(1)
	e.run.Count("p3_disconnects_checked", 1)
	if rs, ok := a.SocketRooms(sid); ok {
		viol(fmt.Sprintf("adapter still has it in rooms %v", setToSortedRooms(rs)))
	}
	if rs := sock.Rooms(); rs.Cardinality() != 0 {
		viol(fmt.Sprintf("socket.Rooms()=%v", setToSortedRooms(rs)))
	}
	for _, s := range e.nsp.Sockets() {
		if s.ID() == sid {
			viol("still listed by Namespace.Sockets()")
		}
	}
	for _, s := range e.nsp.FetchSockets() {
		if s.ID() == sid {
			viol("still listed by Namespace.FetchSockets()")
		}
	}
	if a.Sockets(mapset.NewSet[Room]()).Contains(sid) {
		viol("still listed by Adapter.Sockets()")
	}
	for _, r := range prevRooms {
		if a.Sockets(mapset.NewSet[Room](Room(r))).Contains(sid) {
			viol(fmt.Sprintf("still listed by Adapter.Sockets(%s)", r))
		}
	}
	if _, ok := adapter.VerifIndexSnapshot(a)[sid]; ok {
		viol("still present in the adapter index")
	}
}

func (e *e2e) waitGone(sid SID) bool {
	return vk.WaitUntil(fenceWait, func() bool {
		e.mu.Lock()
		defer e.mu.Unlock()
		return e.gone[sid]
	})
}

func endToEnd(run *vk.Run, recovery bool, steps int) {
	cfg := &sio.ServerConfig{}
	cfg.ServerConnectionStateRecovery.Enabled = recovery
	cfg.EIO.PingInterval = 3 * time.Second // bounds the damage of any stalled poll; pings between packets are legal
	cfg.EIO.PingTimeout = 120 * time.Second
	srv, err := rig.NewServer(cfg, "")
	if err != nil {
		run.Inconclusive("e2e: " + err.Error())
		return
	}
	defer srv.Close()
	e := &e2e{run: run, recovery: recovery, srv: srv, socks: map[SID]sio.ServerSocket{}, gone: map[SID]bool{}, mem: membership{}}
	srv.IO.OnConnection(func(s sio.ServerSocket) {
		id := s.ID()
		s.OnDisconnect(func(reason sio.Reason) {
			e.mu.Lock()
			e.gone[id] = true
			e.mu.Unlock()
		})
		e.mu.Lock()
		e.socks[id] = s
		e.mu.Unlock()
	})
	e.nsp = srv.IO.Of("/")
	r := run.Rand(fmt.Sprintf("c04-e2e-%v", recovery))
	transports := []string{"websocket", "polling", "websocket", "polling"}
	nClients := 3 + r.Intn(2)
	defer func() {
		for _, c := range e.clients {
			c.peer.C.Close()
		}
	}()
	for i := 0; i < nClients; i++ {
		c, err := e.dial(transports[i])
		if err != nil {
			run.Inconclusive(fmt.Sprintf("e2e recovery=%v: client %d: %v", recovery, i, err))
			return
		}
		e.clients = append(e.clients, c)
	}
	rooms := []Room{"r0", "r1", "r2", "r3"}
	pickRooms := func(p float64, idProb float64) []Room {
		var out []Room
		for _, rm := range rooms {
			if r.Float64() < p {
				out = append(out, rm)
			}
		}
		if r.Float64() < idProb {
			if r.Intn(4) == 0 && len(e.dead) > 0 {
				out = append(out, Room(e.dead[r.Intn(len(e.dead))]))
			} else {
				out = append(out, Room(e.clients[r.Intn(len(e.clients))].sid))
			}
		}
		return out
	}
	disconnectsLeft := steps/15 + 2
	io := srv.IO

	for step := 0; step < steps; step++ {
		c := e.clients[r.Intn(len(e.clients))]
		x := r.Intn(100)
		switch {
		case x < 18: // join
			rs := pickRooms(0.4, 0)
			if len(rs) == 0 {
				rs = []Room{rooms[r.Intn(4)]}
			}
			c.sock.Join(rs...)
			for _, rm := range rs {
				e.mem[c.sid][rm] = true
			}
			run.Count("p3_joins", 1)
			e.checkMembership(step, "Join")
		case x < 30: // leave
			rm := rooms[r.Intn(4)]
			c.sock.Leave(rm)
			delete(e.mem[c.sid], rm)
			run.Count("p3_leaves", 1)
			e.checkMembership(step, "Leave")
		case x < 35: // SocketsJoin
			T, E, R := pickRooms(0.3, 0.2), pickRooms(0.2, 0.2), []Room{rooms[r.Intn(4)]}
			sel := e.mem.selectSet(T, E)
			io.In(T...).Except(E...).SocketsJoin(R...)
			for sid := range sel {
				e.mem[sid][R[0]] = true
			}
			run.Count("p3_sockets_join_leave", 1)
			e.checkMembership(step, "SocketsJoin")
		case x < 40: // SocketsLeave
			T, E, R := pickRooms(0.3, 0.2), pickRooms(0.2, 0.2), []Room{rooms[r.Intn(4)]}
			sel := e.mem.selectSet(T, E)
			io.Except(E...).To(T...).SocketsLeave(R...)
			for sid := range sel {
				delete(e.mem[sid], R[0])
			}
			run.Count("p3_sockets_join_leave", 1)
			e.checkMembership(step, "SocketsLeave")
		case x < 46 && disconnectsLeft > 0: // disconnect + replacement
			disconnectsLeft--
			how := [...]string{"client-closes-connection", "client-DISCONNECT-packet", "server-Disconnect(false)"}[r.Intn(3)]
			prev := e.mem.roomsOf(c.sid)
			oldSID, oldSock := c.sid, c.sock
			switch how {
			case "client-closes-connection":
				c.peer.C.Close()
			case "client-DISCONNECT-packet":
				if err := c.peer.SendPacket(&refcodec.Packet{Type: refcodec.Disconnect, Namespace: "/"}); err != nil {
					run.Inconclusive(fmt.Sprintf("e2e recovery=%v step %d: cannot send DISCONNECT: %v", recovery, step, err))
					return
				}
			default:
				c.sock.Disconnect(false)
			}
			if !e.waitGone(oldSID) {
				run.Inconclusive(fmt.Sprintf("e2e recovery=%v step %d: disconnect handler of %s did not run within %v after %s", recovery, step, oldSID, fenceWait, how))
				return
			}
			delete(e.mem, oldSID)
			e.dead = append(e.dead, oldSID)
			// the client is out of e.clients while it has no namespace socket
			for i := range e.clients {
				if e.clients[i] == c {
					e.clients = append(e.clients[:i], e.clients[i+1:]...)
					break
				}
			}
			e.checkGone(step, how, oldSID, oldSock, prev)
			e.checkMembership(step, how)
			// replacement: same connection where it survived, else a new one
			var nc *e2eClient
			if how != "client-closes-connection" {
				if err := e.attach(c); err == nil {
					nc = c
					run.Count("p3_namespace_reconnects_on_same_connection", 1)
				} else {
					c.peer.C.Close()
				}
			}
			if nc == nil {
				var err error
				nc, err = e.dial(c.transport)
				if err != nil {
					run.Inconclusive(fmt.Sprintf("e2e recovery=%v step %d: replacement client: %v", recovery, step, err))
					return
				}
			}
			e.clients = append(e.clients, nc)
			e.checkMembership(step, "reconnect")
		default: // broadcast
			e.n++
			n := e.n
			T, E := pickRooms(0.3, 0.15), pickRooms(0.2, 0.15)
			if r.Intn(4) == 0 {
				T = nil
			}
			if r.Intn(3) == 0 {
				E = nil
			}
			var via string
			modelE := E
			switch v := r.Intn(8); v {
			case 0:
				via = "Server.To.Except.Emit"
				io.To(T...).Except(E...).Emit("b", n)
			case 1:
				via = "Namespace.Except.In.Emit"
				e.nsp.Except(E...).In(T...).Emit("b", n)
			case 2:
				via, T, E = "Server.Emit", nil, nil
				modelE = nil
				io.Emit("b", n)
			case 3:
				via, T, E = "socket.Broadcast.Emit", nil, nil
				modelE = []Room{Room(c.sid)}
				c.sock.Broadcast().Emit("b", n)
			case 4:
				via, E = "socket.To.Emit", nil
				modelE = []Room{Room(c.sid)}
				c.sock.To(T...).Emit("b", n)
			case 5:
				via, T = "socket.Except.Emit", nil
				modelE = append(append([]Room{}, E...), Room(c.sid))
				c.sock.Except(E...).Emit("b", n)
			case 6:
				via = "socket.To.Except.Emit"
				modelE = append(append([]Room{}, E...), Room(c.sid))
				c.sock.To(T...).Except(E...).Emit("b", n)
			default:
				via, T, E = "Server.To(socket id).Emit", []Room{Room(c.sid)}, nil
				modelE = nil
				io.To(T...).Emit("b", n)
			}
			want := e.mem.selectSet(T, modelE)
			got, ok := e.fence(n, via)
			if !ok {
				return
			}
			run.Eval(1)
			run.Count("p3_broadcasts", 1)
			run.Count("p3_broadcast_recipients", int64(len(want)))
			run.Distinct(fmt.Sprintf("3 rec=%v %s T%d E%d to%d/%d", recovery, via, len(T), len(E), len(want), len(e.clients)))
			if kind, detail := diffDelivery(got, want); kind != "" {
				run.Violation(vk.Violation{Sub: "e2e", Fields: e.fields(kind, via),
					What: fmt.Sprintf("e2e recovery=%v step %d: broadcast %d via %s (T=%v, E=%v, issued through %s) arrived before the fence at %v, selected set is %v (%s)",
						recovery, step, n, via, roomStrings(T), roomStrings(E), c.sid, got, sortedSIDs(want), detail),
					Witness: map[string]any{"step": step, "broadcast": n, "via": via, "T": roomStrings(T), "E": roomStrings(E), "issuer": c.sid, "membership_model": e.mem.dump(), "arrived": got, "expected": sortedSIDs(want)}})
			}
			if len(want) > 0 && len(want) < len(e.clients) && step%11 == 4 && samples.take("e2e") {
				run.Sample(map[string]any{"part": "3", "recovery": recovery, "step": step, "via": via, "T": roomStrings(T), "E": roomStrings(E), "issuer": c.sid, "membership": e.mem.dump(), "arrived_before_fence": sortedSIDs(got)})
			}
		}
	}
	// a last fence: nothing may trail behind
	e.n++
	if _, ok := e.fence(e.n, "final-fence"); ok {
		run.Count("p3_configs_completed", 1)
	}
	run.Count("p3_steps", int64(steps))
}

// joinVersusDisconnect: Join calls racing with the disconnect of the same socket. Whatever
// the interleaving, once both have returned the disconnected socket must be in no room.
// staleMember: a room can hold an id that is not (or no longer, or not yet) in the socket store — the library
// produces such ids itself when a namespace middleware joins a room and a later middleware rejects the
// socket. A broadcast to that room must still reach every real member, whatever the iteration order.
func staleMember(run *vk.Run, rounds int) {
	run.Eval(1)
	srv, err := rig.NewServer(nil, "")
	if err != nil {
		run.Inconclusive("stale-member: " + err.Error())
		return
	}
	defer srv.Close()
	nsp := srv.IO.Of("/")
	nsp.Use(func(s sio.ServerSocket, h *sio.Handshake) any { s.Join("lobby"); return nil })
	nsp.Use(func(s sio.ServerSocket, h *sio.Handshake) any {
		var a struct {
			Ghost bool `json:"ghost"`
		}
		json.Unmarshal(h.Auth, &a)
		if a.Ghost {
			return fmt.Errorf("rejected after joining")
		}
		return nil
	})
	// three rejected sockets leave stale ids in "lobby"
	for i := 0; i < 3; i++ {
		g, err := rawpeer.DialSIO(srv.URL, "websocket")
		if err != nil {
			run.Inconclusive("stale-member: dial: " + err.Error())
			return
		}
		defer g.C.Abort()
		if res, err := g.Connect("/", map[string]any{"ghost": true}, 20*time.Second); err != nil || res.OK {
			run.Inconclusive("stale-member: the ghost was not rejected")
			return
		}
	}
	const n = 6
	var peers []*rawpeer.SIO
	for i := 0; i < n; i++ {
		p, err := rawpeer.DialSIO(srv.URL, "websocket")
		if err != nil {
			run.Inconclusive("stale-member: dial: " + err.Error())
			return
		}
		defer p.C.Abort()
		if res, err := p.Connect("/", nil, 20*time.Second); err != nil || !res.OK {
			run.Inconclusive("stale-member: connect failed")
			return
		}
		peers = append(peers, p)
	}
	for round := 0; round < rounds; round++ {
		nsp.To("lobby").Emit("lob", round)
		nsp.Emit("fence", round) // untargeted: reaches everybody on a correct tree, after "lob" on each connection
		var missed []int
		for i, p := range peers {
			from := 0
			_, _, err := p.WaitPacket(from, 15*time.Second, func(pk *refcodec.Packet) bool {
				v, ok := isEvent(pk, "fence")
				return ok && v == int64(round)
			})
			if err != nil {
				run.Inconclusive(fmt.Sprintf("stale-member: fence %d not seen by client %d", round, i))
				return
			}
			seen := false
			for _, sp := range p.Packets() {
				if v, ok := isEvent(sp.P, "lob"); ok && v == int64(round) {
					seen = true
				}
			}
			if !seen {
				missed = append(missed, i)
			}
		}
		if len(missed) > 0 {
			run.Violation(vk.Violation{Sub: "e2e-delivery", Fields: map[string]any{"kind": "missing", "via": "room-with-stale-member"},
				What:    fmt.Sprintf("broadcast %d to room \"lobby\" (6 members + 3 ids of sockets that were rejected after a middleware had joined them) did not reach clients %v, although the untargeted fence emitted afterwards did", round, missed),
				Witness: map[string]any{"round": round, "missed_clients": missed, "seed": run.Seed()}})
			return
		}
	}
	run.Count("stale_member_broadcasts", int64(rounds))
	run.Distinct("e2e/stale-member")
}

func joinVersusDisconnect(run *vk.Run, trials int) {
	srv, err := rig.NewServer(&sio.ServerConfig{}, "")
	if err != nil {
		run.Inconclusive("join-vs-disconnect: " + err.Error())
		return
	}
	defer srv.Close()
	var mu sync.Mutex
	socks := map[SID]sio.ServerSocket{}
	srv.IO.OnConnection(func(s sio.ServerSocket) {
		mu.Lock()
		socks[s.ID()] = s
		mu.Unlock()
	})
	nsp := srv.IO.Of("/")
	peer, err := rawpeer.DialSIO(srv.URL, "websocket")
	if err != nil {
		run.Inconclusive("join-vs-disconnect dial: " + err.Error())
		return
	}
	defer peer.C.Close()
	r := run.Rand("c04-jvd")
	for trial := 0; trial < trials; trial++ {
		res, err := peer.Connect("/", nil, fenceWait)
		if err != nil || !res.OK {
			run.Inconclusive(fmt.Sprintf("join-vs-disconnect trial %d: connect: %v", trial, err))
			return
		}
		sid := SID(res.SID)
		var sock sio.ServerSocket
		if !vk.WaitUntil(fenceWait, func() bool { mu.Lock(); defer mu.Unlock(); sock = socks[sid]; return sock != nil }) {
			run.Inconclusive(fmt.Sprintf("join-vs-disconnect trial %d: no server socket", trial))
			return
		}
		joiners := 2 + r.Intn(7)
		delay := int64(r.Intn(200000))
		var stop atomic.Bool
		var joins atomic.Int64
		var wg sync.WaitGroup
		start := make(chan struct{})
		for j := 0; j < joiners; j++ {
			room := Room(fmt.Sprintf("race%d", j%3))
			wg.Add(1)
			go func() {
				defer wg.Done()
				<-start
				for !stop.Load() {
					sock.Join(room)
					joins.Add(1)
				}
			}()
		}
		close(start)
		spin(delay)
		sock.Disconnect(false) // synchronous: runs onClose (leave-all, removal) before returning
		stop.Store(true)
		wg.Wait()
		run.Eval(1)
		run.Count("p3_join_vs_disconnect_trials", 1)
		run.Count("p3_join_vs_disconnect_join_calls", joins.Load())
		run.Distinct(fmt.Sprintf("3b joiners%d", joiners))
		a := nsp.Adapter()
		if rs, ok := a.SocketRooms(sid); ok {
			run.Violation(vk.Violation{Sub: "membership", Fields: map[string]any{"part": "3", "kind": "disconnected-in-room", "via": "Join-racing-Disconnect"},
				What: fmt.Sprintf("trial %d: %d goroutines called Join while the socket was disconnected from the server side; after every call had returned the disconnected socket %s is still in rooms %v (Rooms()=%v)",
					trial, joiners, sid, setToSortedRooms(rs), setToSortedRooms(sock.Rooms())),
				Witness: map[string]any{"trial": trial, "joiners": joiners, "delay_ns": delay, "join_calls": joins.Load(), "rooms_left": setToSortedRooms(rs)}})
		}
		if err := adapter.VerifCheckIndexInvariant(a); err != nil {
			run.Violation(vk.Violation{Sub: "membership", Fields: map[string]any{"part": "3", "kind": "index-invariant", "via": "Join-racing-Disconnect"},
				What: fmt.Sprintf("trial %d: %v", trial, err), Witness: map[string]any{"trial": trial}})
		}
	}
}
