package main

import (
	"fmt"
	"math"
	"math/bits"
	"math/rand"
	"sort"
	"strings"
	"sync"
	"sync/atomic"
	"time"

	"github.com/anishathalye/porcupine"
	mapset "github.com/deckarep/golang-set/v2"
	"github.com/karagenc/socket.io-go/adapter"

	"sioverif/internal/rawpeer"
	"sioverif/internal/vk"
)

// ---------------------------------------------------------------------------------
// Part 2: membership changes concurrent with broadcasts, interval semantics.
// ---------------------------------------------------------------------------------

const (
	mJoin = iota
	mLeave
	mConnect
	mDisconnect
)

var mopName = [...]string{"join", "leave", "connect", "disconnect"}

// mop is one recorded membership operation.
type mop struct {
	Kind int   `json:"-"`
	Sock int   `json:"-"`
	Room int   `json:"-"`
	G    int   `json:"goroutine"`
	Call int64 `json:"call_ns"`
	Ret  int64 `json:"ret_ns"`
}

// bop is one recorded broadcast. T/E are masks over the named rooms; Tid/Eid is the index of
// a socket whose id room is part of T/E (-1: none).
type bop struct {
	ID   int    `json:"id"`
	T    uint32 `json:"T_mask"`
	E    uint32 `json:"E_mask"`
	Tid  int    `json:"T_id_room_of"`
	Eid  int    `json:"E_id_room_of"`
	Via  string `json:"via"`
	G    int    `json:"goroutine"`
	Call int64  `json:"call_ns"`
	Ret  int64  `json:"ret_ns"`
}

type plannedOp struct {
	kind, sock, room int
	pause            int64
}

type plannedBc struct {
	T, E     uint32
	Tid, Eid int
	via      string
	pause    int64
}

func spin(ns int64) {
	if ns <= 0 {
		return
	}
	until := rawpeer.Now() + ns
	for rawpeer.Now() < until {
	}
}

// status decides whether a socket was in (+1) / out of (-1) a room during the whole interval
// [c,t], or whether the recorded intervals do not determine it (0). sets/clears are all the
// recorded operations on that (socket, room) that put it in / take it out.
func status(sets, clears []mop, initIn bool, c, t int64) int {
	// in throughout: some set returned before c, and no clear that may take effect after it was called before t
	have, jc := initIn, int64(math.MinInt64)
	for i := range sets {
		if sets[i].Ret < c {
			have = true
			if sets[i].Call > jc {
				jc = sets[i].Call
			}
		}
	}
	if have {
		bad := false
		for i := range clears {
			if clears[i].Ret >= jc && clears[i].Call <= t {
				bad = true
				break
			}
		}
		if !bad {
			return +1
		}
	}
	have, lc := !initIn, int64(math.MinInt64)
	for i := range clears {
		if clears[i].Ret < c {
			have = true
			if clears[i].Call > lc {
				lc = clears[i].Call
			}
		}
	}
	if have {
		bad := false
		for i := range sets {
			if sets[i].Ret >= lc && sets[i].Call <= t {
				bad = true
				break
			}
		}
		if !bad {
			return -1
		}
	}
	return 0
}

type p2config struct {
	Round    int  `json:"round"`
	Stable   int  `json:"stable_sockets"`
	Rooms    int  `json:"rooms"`
	Mutators int  `json:"mutator_goroutines"`
	Churners int  `json:"of_which_connect_disconnect_churners"`
	Bcasters int  `json:"broadcaster_goroutines"`
	Shared   bool `json:"mutators_share_sockets"`
	OpsPer   int  `json:"ops_per_mutator"`
	BcPer    int  `json:"broadcasts_per_broadcaster"`
	Yield    int  `json:"sendbuffers_yields_every"`
}

func part2(run *vk.Run, rounds int) {
	base := run.Rand("c04-2").Int63()
	for round := 0; round < rounds; round++ {
		r := rand.New(rand.NewSource(base ^ int64(round+1)*0x2545F4914F6CDD1D))
		p2round(run, r, round)
	}
}

func p2round(run *vk.Run, r *rand.Rand, round int) {
	cfg := p2config{Round: round, Stable: 2 + r.Intn(4), Rooms: 2 + r.Intn(3), Mutators: 2 + r.Intn(7), Bcasters: 1 + r.Intn(4),
		Shared: r.Intn(2) == 0, OpsPer: 15 + r.Intn(40), BcPer: 8 + r.Intn(25), Yield: []int{0, 1, 2, 3, 5}[r.Intn(5)]}
	cfg.Churners = r.Intn(3)
	if cfg.Churners > cfg.Mutators-1 {
		cfg.Churners = cfg.Mutators - 1
	}
	nPlain := cfg.Mutators - cfg.Churners
	churnInc := 3 + r.Intn(4)
	nSock := cfg.Stable + cfg.Churners*churnInc
	nR := cfg.Rooms
	present := nR // pseudo room: "is connected"
	roomName := func(i int) Room { return Room(fmt.Sprintf("r%d", i)) }
	sidOf := make([]SID, nSock)
	idxOf := map[SID]int{}
	for i := 0; i < cfg.Stable; i++ {
		sidOf[i] = SID(fmt.Sprintf("s%d", i))
	}
	for c := 0; c < cfg.Churners; c++ {
		for k := 0; k < churnInc; k++ {
			sidOf[cfg.Stable+c*churnInc+k] = SID(fmt.Sprintf("c%d_%d", c, k))
		}
	}
	for i, s := range sidOf {
		idxOf[s] = i
	}

	w := newWorld()
	w.yieldEvery = uint32(cfg.Yield)
	nB := cfg.Bcasters * cfg.BcPer
	cnt := make([]atomic.Int32, nB*nSock)
	var absent, unknownSID atomic.Int64
	w.onSend = func(sid SID, bid int64, pres bool) {
		i, ok := idxOf[sid]
		if !ok || bid < 0 || int(bid) >= nB {
			unknownSID.Add(1)
			return
		}
		if !pres {
			absent.Add(1)
			return
		}
		cnt[int(bid)*nSock+i].Add(1)
	}

	// initial state (sequential, before anything is recorded)
	initIn := make([][]bool, nSock)
	for i := range initIn {
		initIn[i] = make([]bool, nR+1)
	}
	stable := make([]*fakeSocket, cfg.Stable)
	for i := 0; i < cfg.Stable; i++ {
		stable[i] = w.connect(sidOf[i])
		initIn[i][present] = true
		for rm := 0; rm < nR; rm++ {
			if r.Intn(2) == 0 {
				stable[i].Join(roomName(rm))
				initIn[i][rm] = true
			}
		}
	}

	// plans
	plans := make([][]plannedOp, nPlain)
	for g := range plans {
		own := g % cfg.Stable
		hot := r.Intn(nR)
		for k := 0; k < cfg.OpsPer; k++ {
			s := own
			if cfg.Shared {
				s = r.Intn(cfg.Stable)
			}
			rm := r.Intn(nR)
			if r.Intn(3) == 0 {
				rm = hot
			}
			kind := mJoin
			if r.Intn(2) == 0 {
				kind = mLeave
			}
			plans[g] = append(plans[g], plannedOp{kind: kind, sock: s, room: rm, pause: int64(r.Intn(4000))})
		}
	}
	churnPlans := make([][]plannedOp, cfg.Churners)
	for c := range churnPlans {
		for k := 0; k < churnInc; k++ {
			s := cfg.Stable + c*churnInc + k
			churnPlans[c] = append(churnPlans[c], plannedOp{kind: mConnect, sock: s, pause: int64(r.Intn(8000))})
			for j := r.Intn(4); j > 0; j-- {
				kind := mJoin
				if r.Intn(3) == 0 {
					kind = mLeave
				}
				churnPlans[c] = append(churnPlans[c], plannedOp{kind: kind, sock: s, room: r.Intn(nR), pause: int64(r.Intn(6000))})
			}
			churnPlans[c] = append(churnPlans[c], plannedOp{kind: mDisconnect, sock: s, pause: int64(r.Intn(20000))})
		}
	}
	bplans := make([][]plannedBc, cfg.Bcasters)
	for g := range bplans {
		for k := 0; k < cfg.BcPer; k++ {
			p := plannedBc{Tid: -1, Eid: -1, pause: int64(r.Intn(3000))}
			if r.Intn(10) >= 3 {
				p.T = uint32(r.Intn(1 << nR))
			}
			if r.Intn(10) >= 4 {
				p.E = uint32(r.Intn(1 << nR))
			}
			if r.Intn(8) == 0 {
				p.Tid = r.Intn(nSock)
			}
			p.via = [...]string{"adapter", "op", "sender"}[r.Intn(3)]
			if p.via == "sender" {
				p.Eid = r.Intn(cfg.Stable)
			} else if r.Intn(8) == 0 {
				p.Eid = r.Intn(nSock)
			}
			bplans[g] = append(bplans[g], p)
		}
	}

	// run
	start := make(chan struct{})
	var wg sync.WaitGroup
	mlogs := make([][]mop, cfg.Mutators)
	blogs := make([][]bop, cfg.Bcasters)
	var panics sync.Map
	guard := func(name string, f func()) {
		defer wg.Done()
		if err := safely(f); err != nil {
			panics.Store(name, err.Error())
		}
	}
	root := w.root()
	for g := 0; g < nPlain; g++ {
		g := g
		wg.Add(1)
		go guard(fmt.Sprintf("mutator-%d", g), func() {
			<-start
			log := make([]mop, 0, len(plans[g]))
			defer func() { mlogs[g] = log }()
			for _, p := range plans[g] {
				spin(p.pause)
				rec := mop{Kind: p.kind, Sock: p.sock, Room: p.room, G: g}
				rec.Call = rawpeer.Now()
				if p.kind == mJoin {
					stable[p.sock].Join(roomName(p.room))
				} else {
					stable[p.sock].Leave(roomName(p.room))
				}
				rec.Ret = rawpeer.Now()
				log = append(log, rec)
			}
		})
	}
	for c := 0; c < cfg.Churners; c++ {
		c := c
		g := nPlain + c
		wg.Add(1)
		go guard(fmt.Sprintf("churner-%d", c), func() {
			<-start
			log := make([]mop, 0, len(churnPlans[c]))
			defer func() { mlogs[g] = log }()
			var cur *fakeSocket
			for _, p := range churnPlans[c] {
				spin(p.pause)
				rec := mop{Kind: p.kind, Sock: p.sock, Room: p.room, G: g}
				rec.Call = rawpeer.Now()
				switch p.kind {
				case mConnect:
					cur = w.connect(sidOf[p.sock])
				case mJoin:
					cur.Join(roomName(p.room))
				case mLeave:
					cur.Leave(roomName(p.room))
				case mDisconnect:
					cur.Disconnect(false)
				}
				rec.Ret = rawpeer.Now()
				log = append(log, rec)
			}
		})
	}
	for g := 0; g < cfg.Bcasters; g++ {
		g := g
		wg.Add(1)
		go guard(fmt.Sprintf("broadcaster-%d", g), func() {
			<-start
			log := make([]bop, 0, len(bplans[g]))
			defer func() { blogs[g] = log }()
			for k, p := range bplans[g] {
				spin(p.pause)
				id := g*cfg.BcPer + k
				var T, E []Room
				for rm := 0; rm < nR; rm++ {
					if p.T&(1<<rm) != 0 {
						T = append(T, roomName(rm))
					}
					if p.E&(1<<rm) != 0 {
						E = append(E, roomName(rm))
					}
				}
				if p.Tid >= 0 {
					T = append(T, Room(sidOf[p.Tid]))
				}
				if p.Eid >= 0 && p.via != "sender" {
					E = append(E, Room(sidOf[p.Eid]))
				}
				rec := bop{ID: id, T: p.T, E: p.E, Tid: p.Tid, Eid: p.Eid, Via: p.via, G: g}
				switch p.via {
				case "adapter":
					rec.Call = rawpeer.Now()
					w.bcastAdapter(int64(id), T, E)
					rec.Ret = rawpeer.Now()
				case "op":
					rec.Call = rawpeer.Now()
					root.To(T...).Except(E...).Emit("b", int64(id)) // root is shared by all broadcasters
					rec.Ret = rawpeer.Now()
				default:
					s := stable[p.Eid]
					rec.Call = rawpeer.Now()
					s.To(T...).Except(E...).Emit("b", int64(id))
					rec.Ret = rawpeer.Now()
				}
				log = append(log, rec)
			}
		})
	}
	close(start)
	done := make(chan struct{})
	go func() { wg.Wait(); close(done) }()
	select {
	case <-done:
	case <-time.After(120 * time.Second):
		p := vk.DumpGoroutines("c04-part2")
		run.Violation(vk.Violation{Sub: "concurrent", Fields: map[string]any{"part": "2", "kind": "hang"},
			What: fmt.Sprintf("round %d: goroutines did not finish within 120 s (stacks in %s)", round, p), Witness: cfg})
		return
	}
	end := rawpeer.Now()
	panics.Range(func(k, v any) bool {
		run.Violation(vk.Violation{Sub: "concurrent", Fields: map[string]any{"part": "2", "kind": "panic"},
			What: fmt.Sprintf("round %d: %v: %v", round, k, v), Witness: cfg})
		return true
	})

	// index the membership operations
	sets := make([][][]mop, nSock)
	clears := make([][][]mop, nSock)
	for i := range sets {
		sets[i] = make([][]mop, nR+1)
		clears[i] = make([][]mop, nR+1)
	}
	var all []mop
	for _, l := range mlogs {
		for _, o := range l {
			all = append(all, o)
			switch o.Kind {
			case mJoin:
				sets[o.Sock][o.Room] = append(sets[o.Sock][o.Room], o)
			case mLeave:
				clears[o.Sock][o.Room] = append(clears[o.Sock][o.Room], o)
			case mConnect:
				sets[o.Sock][present] = append(sets[o.Sock][present], o)
			case mDisconnect:
				for rm := 0; rm <= nR; rm++ {
					clears[o.Sock][rm] = append(clears[o.Sock][rm], o)
				}
			}
		}
	}
	describe := func(s int, rooms []int) []map[string]any {
		var out []map[string]any
		for _, o := range all {
			if o.Sock != s {
				continue
			}
			rel := o.Kind == mConnect || o.Kind == mDisconnect
			for _, rm := range rooms {
				rel = rel || o.Room == rm
			}
			if rel && len(out) < 40 {
				m := map[string]any{"op": mopName[o.Kind], "goroutine": o.G, "call_ns": o.Call, "ret_ns": o.Ret}
				if o.Kind == mJoin || o.Kind == mLeave {
					m["room"] = string(roomName(o.Room))
				}
				out = append(out, m)
			}
		}
		sort.Slice(out, func(i, j int) bool { return out[i]["call_ns"].(int64) < out[j]["call_ns"].(int64) })
		return out
	}

	// judge every (broadcast, socket)
	for _, bl := range blogs {
		for _, b := range bl {
			run.Eval(1)
			run.Count("p2_broadcasts", 1)
			overl := false
			for i := range all {
				if all[i].Call <= b.Ret && all[i].Ret >= b.Call {
					overl = true
					break
				}
			}
			if overl {
				run.Count("p2_broadcasts_overlapping_a_membership_op", 1)
			}
			var relRooms []int
			for rm := 0; rm < nR; rm++ {
				if (b.T|b.E)&(1<<rm) != 0 {
					relRooms = append(relRooms, rm)
				}
			}
			nMust, nNot, nMay, nMayGot := 0, 0, 0, 0
			for s := 0; s < nSock; s++ {
				pres := status(sets[s][present], clears[s][present], initIn[s][present], b.Call, b.Ret)
				// target side
				var ts int
				if b.T == 0 && b.Tid < 0 {
					ts = pres
				} else {
					ts = -1
					for rm := 0; rm < nR && ts != +1; rm++ {
						if b.T&(1<<rm) == 0 {
							continue
						}
						switch status(sets[s][rm], clears[s][rm], initIn[s][rm], b.Call, b.Ret) {
						case +1:
							ts = +1
						case 0:
							ts = 0
						}
					}
					if b.Tid == s && ts != +1 {
						if pres == +1 {
							ts = +1
						} else if pres == 0 {
							ts = 0
						}
					}
				}
				// exclusion side: +1 excluded throughout, -1 never excluded, 0 undetermined
				es := -1
				for rm := 0; rm < nR && es != +1; rm++ {
					if b.E&(1<<rm) == 0 {
						continue
					}
					switch status(sets[s][rm], clears[s][rm], initIn[s][rm], b.Call, b.Ret) {
					case +1:
						es = +1
					case 0:
						es = 0
					}
				}
				if b.Eid == s && es != +1 {
					if pres == +1 {
						es = +1
					} else if pres == 0 {
						es = 0
					}
				}
				n := int(cnt[b.ID*nSock+s].Load())
				class := "undetermined"
				switch {
				case ts == +1 && es == -1 && pres == +1:
					class = "must"
					nMust++
				case ts == -1 || es == +1 || pres == -1:
					class = "must-not"
					nNot++
				default:
					nMay++
					if n > 0 {
						nMayGot++
					}
				}
				kind := ""
				switch {
				case n > 1:
					kind = "duplicate"
				case class == "must" && n == 0:
					kind = "missing"
				case class == "must-not" && n > 0:
					kind = "extra"
				}
				if kind != "" {
					run.Violation(vk.Violation{Sub: "concurrent", Fields: map[string]any{"part": "2", "kind": kind, "class": class},
						What: fmt.Sprintf("round %d: broadcast %d (via %s, T=%03b+id(%d) E=%03b+id(%d), interval [%d,%d] ns) was delivered %d time(s) to socket %s, which the recorded intervals class as %q",
							round, b.ID, b.Via, b.T, b.Tid, b.E, b.Eid, b.Call, b.Ret, n, sidOf[s], class),
						Witness: map[string]any{"config": cfg, "broadcast": b, "socket": sidOf[s], "delivered": n, "class": class,
							"initial_rooms": initIn[s], "socket_ops": describe(s, relRooms)}})
				}
			}
			run.Count("p2_pairs_must", int64(nMust))
			run.Count("p2_pairs_must_not", int64(nNot))
			run.Count("p2_pairs_undetermined", int64(nMay))
			run.Count("p2_pairs_undetermined_delivered", int64(nMayGot))
			if nMay > 0 {
				run.Count("p2_broadcasts_with_a_relevant_change_in_flight", 1)
			}
			tid, eid := "", ""
			if b.Tid >= 0 {
				tid = "+id"
			}
			if b.Eid >= 0 {
				eid = "+id"
			}
			run.Distinct(fmt.Sprintf("2 T%d%s E%d%s must%d not%d may%d/%d", bits.OnesCount32(b.T), tid, bits.OnesCount32(b.E), eid, nMust, nNot, nMayGot, nMay))
			if nMay > 0 && nMust > 0 && nNot > 0 && b.ID%7 == 3 && samples.take("2") {
				run.Sample(map[string]any{"part": "2", "config": cfg, "broadcast": b, "must": nMust, "must_not": nNot, "undetermined": nMay, "undetermined_delivered": nMayGot})
			}
		}
	}
	run.Count("p2_rounds", 1)
	run.Count("p2_membership_ops", int64(len(all)))
	if n := absent.Load(); n > 0 {
		run.Count("p2_sendbuffers_to_socket_already_removed", n)
	}
	if n := unknownSID.Load(); n > 0 {
		run.Violation(vk.Violation{Sub: "concurrent", Fields: map[string]any{"part": "2", "kind": "stray"},
			What: fmt.Sprintf("round %d: %d SendBuffers calls for an unknown socket id or broadcast id", round, n), Witness: cfg})
	}
	if n := w.badPayload.Load(); n > 0 {
		run.Violation(vk.Violation{Sub: "concurrent", Fields: map[string]any{"part": "2", "kind": "payload"},
			What: fmt.Sprintf("round %d: %d SendBuffers calls carried something else than a broadcast event (%s)", round, n, w.badFirst), Witness: cfg})
	}

	// quiescence: index invariant and the determined part of the final state
	if err := adapter.VerifCheckIndexInvariant(w.a); err != nil {
		run.Violation(vk.Violation{Sub: "membership", Fields: map[string]any{"part": "2", "kind": "index-invariant"},
			What: fmt.Sprintf("round %d at quiescence: %v", round, err), Witness: cfg})
	}
	snap := adapter.VerifIndexSnapshot(w.a)
	for s := 0; s < nSock; s++ {
		inSnap := map[Room]bool{}
		for _, rm := range snap[sidOf[s]] {
			inSnap[rm] = true
		}
		pres := status(sets[s][present], clears[s][present], initIn[s][present], end, end)
		_, known := snap[sidOf[s]]
		run.Eval(1)
		if pres == -1 && known {
			run.Violation(vk.Violation{Sub: "membership", Fields: map[string]any{"part": "2", "kind": "disconnected-in-room"},
				What: fmt.Sprintf("round %d at quiescence: disconnected (or never connected) socket %s is in rooms %v", round, sidOf[s], roomStrings(snap[sidOf[s]])), Witness: map[string]any{"config": cfg, "socket_ops": describe(s, nil)}})
			continue
		}
		if pres != +1 {
			continue
		}
		if !inSnap[Room(sidOf[s])] {
			run.Violation(vk.Violation{Sub: "membership", Fields: map[string]any{"part": "2", "kind": "final-state"},
				What: fmt.Sprintf("round %d at quiescence: connected socket %s is not in its own-id room", round, sidOf[s]), Witness: cfg})
		}
		for rm := 0; rm < nR; rm++ {
			st := status(sets[s][rm], clears[s][rm], initIn[s][rm], end, end)
			if (st == +1 && !inSnap[roomName(rm)]) || (st == -1 && inSnap[roomName(rm)]) {
				run.Violation(vk.Violation{Sub: "membership", Fields: map[string]any{"part": "2", "kind": "final-state"},
					What:    fmt.Sprintf("round %d at quiescence: socket %s in room %s = %v, but the recorded operations determine %v", round, sidOf[s], roomName(rm), inSnap[roomName(rm)], st == +1),
					Witness: map[string]any{"config": cfg, "socket_ops": describe(s, []int{rm})}})
			}
			if st != 0 {
				run.Count("p2_final_memberships_determined", 1)
			} else {
				run.Count("p2_final_memberships_undetermined", 1)
			}
		}
	}
}

// ---------------------------------------------------------------------------------
// Part 2b: linearizability of the membership operations, per socket id (porcupine).
// ---------------------------------------------------------------------------------

const linRooms = 4

type linIn struct {
	Op   string `json:"op"` // add | del | delall | rooms | has
	Mask uint8  `json:"rooms_mask"`
}

type linOut struct {
	OK   bool  `json:"ok"`
	Mask uint8 `json:"rooms_mask"`
}

const linExists = uint16(1) << 8

var linModel = porcupine.Model{
	Init: func() interface{} { return uint16(0) },
	Step: func(state, input, output interface{}) (bool, interface{}) {
		st := state.(uint16)
		in := input.(linIn)
		out := output.(linOut)
		switch in.Op {
		case "add":
			return true, st | linExists | uint16(in.Mask)
		case "del":
			if st&linExists != 0 {
				st &^= uint16(in.Mask)
			}
			return true, st
		case "delall":
			return true, uint16(0)
		case "rooms":
			if st&linExists == 0 {
				return !out.OK, st
			}
			return out.OK && uint16(out.Mask) == st&0xff, st
		case "has":
			return out.OK == (st&linExists != 0 && st&uint16(in.Mask) != 0), st
		}
		return false, st
	},
	Equal: func(a, b interface{}) bool { return a.(uint16) == b.(uint16) },
	DescribeOperation: func(input, output interface{}) string {
		return fmt.Sprintf("%+v -> %+v", input, output)
	},
}

type linRec struct {
	key int
	op  porcupine.Operation
}

func part2b(run *vk.Run, rounds int) {
	base := run.Rand("c04-2b").Int63()
	for round := 0; round < rounds; round++ {
		r := rand.New(rand.NewSource(base ^ int64(round+1)*0x2545F4914F6CDD1D))
		p2bRound(run, r, round)
	}
}

func p2bRound(run *vk.Run, r *rand.Rand, round int) {
	nK := 3 + r.Intn(3)
	nG := 3 + r.Intn(4)
	opsPer := 50 * nK / nG
	if opsPer > 40 {
		opsPer = 40
	}
	nBc := 1 + r.Intn(2)
	bcPer := 20 + r.Intn(40)
	w := newWorld()
	w.yieldEvery = uint32(r.Intn(4))
	keys := make([]SID, nK)
	idxOf := map[SID]int{}
	for k := range keys {
		keys[k] = SID(fmt.Sprintf("k%d", k))
		idxOf[keys[k]] = k
		w.register(keys[k]) // in the store throughout; the adapter learns about it through AddAll
	}
	roomName := func(i int) Room { return Room(fmt.Sprintf("r%d", i)) }
	nB := nBc * bcPer
	cnt := make([]atomic.Int32, nB*nK)
	w.onSend = func(sid SID, bid int64, pres bool) {
		if i, ok := idxOf[sid]; ok && bid >= 0 && int(bid) < nB {
			cnt[int(bid)*nK+i].Add(1)
		}
	}
	type planned struct {
		key   int
		in    linIn
		pause int64
	}
	plans := make([][]planned, nG)
	kinds := map[string]int{}
	for g := range plans {
		for i := 0; i < opsPer; i++ {
			p := planned{key: r.Intn(nK), pause: int64(r.Intn(2500))}
			switch x := r.Intn(100); {
			case x < 30:
				p.in = linIn{Op: "add", Mask: uint8(1 + r.Intn(1<<linRooms-1))}
				if r.Intn(3) != 0 {
					p.in.Mask = 1 << r.Intn(linRooms)
				}
			case x < 55:
				p.in = linIn{Op: "del", Mask: 1 << r.Intn(linRooms)}
			case x < 65:
				p.in = linIn{Op: "delall"}
			case x < 88:
				p.in = linIn{Op: "rooms"}
			default:
				p.in = linIn{Op: "has", Mask: 1 << r.Intn(linRooms)}
			}
			kinds[p.in.Op]++
			plans[g] = append(plans[g], p)
		}
	}
	bcT := make([]uint8, nB)
	for i := range bcT {
		if r.Intn(2) == 0 {
			bcT[i] = uint8(1 + r.Intn(1<<linRooms-1))
		}
	}
	bcCall, bcRet := make([]int64, nB), make([]int64, nB) // each entry written by one goroutine, read after Wait
	start := make(chan struct{})
	var wg sync.WaitGroup
	logs := make([][]linRec, nG)
	var panics sync.Map
	for g := 0; g < nG; g++ {
		g := g
		wg.Add(1)
		go func() {
			defer wg.Done()
			if err := safely(func() {
				<-start
				log := make([]linRec, 0, opsPer)
				defer func() { logs[g] = log }()
				for _, p := range plans[g] {
					spin(p.pause)
					sid := keys[p.key]
					var out linOut
					var rooms []Room
					for b := 0; b < linRooms; b++ {
						if p.in.Mask&(1<<b) != 0 {
							rooms = append(rooms, roomName(b))
						}
					}
					call := rawpeer.Now()
					switch p.in.Op {
					case "add":
						w.a.AddAll(sid, rooms)
					case "del":
						w.a.Delete(sid, rooms[0])
					case "delall":
						w.a.DeleteAll(sid)
					case "rooms":
						rs, ok := w.a.SocketRooms(sid)
						out.OK = ok
						if ok {
							for b := 0; b < linRooms; b++ {
								if rs.Contains(roomName(b)) {
									out.Mask |= 1 << b
								}
							}
							if rs.Cardinality() != bits.OnesCount8(out.Mask) {
								out.Mask = 0xff // a room nobody ever joined: cannot match any state
							}
						}
					case "has":
						out.OK = w.a.Sockets(mapset.NewSet[Room](rooms...)).Contains(sid)
					}
					ret := rawpeer.Now()
					log = append(log, linRec{key: p.key, op: porcupine.Operation{ClientId: g, Input: p.in, Call: call, Output: out, Return: ret}})
				}
			}); err != nil {
				panics.Store(fmt.Sprintf("mutator-%d", g), err.Error())
			}
		}()
	}
	for g := 0; g < nBc; g++ {
		g := g
		wg.Add(1)
		go func() {
			defer wg.Done()
			if err := safely(func() {
				<-start
				for k := 0; k < bcPer; k++ {
					id := g*bcPer + k
					var T []Room
					for b := 0; b < linRooms; b++ {
						if bcT[id]&(1<<b) != 0 {
							T = append(T, roomName(b))
						}
					}
					bcCall[id] = rawpeer.Now()
					w.bcastAdapter(int64(id), T, nil)
					bcRet[id] = rawpeer.Now()
				}
			}); err != nil {
				panics.Store(fmt.Sprintf("broadcaster-%d", g), err.Error())
			}
		}()
	}
	close(start)
	done := make(chan struct{})
	go func() { wg.Wait(); close(done) }()
	select {
	case <-done:
	case <-time.After(120 * time.Second):
		p := vk.DumpGoroutines("c04-part2b")
		run.Violation(vk.Violation{Sub: "concurrent", Fields: map[string]any{"part": "2b", "kind": "hang"},
			What: fmt.Sprintf("2b round %d: goroutines did not finish within 120 s (stacks in %s)", round, p), Witness: map[string]any{"round": round}})
		return
	}
	panics.Range(func(k, v any) bool {
		run.Violation(vk.Violation{Sub: "concurrent", Fields: map[string]any{"part": "2b", "kind": "panic"},
			What: fmt.Sprintf("2b round %d: %v: %v", round, k, v), Witness: map[string]any{"round": round}})
		return true
	})
	if err := adapter.VerifCheckIndexInvariant(w.a); err != nil {
		run.Violation(vk.Violation{Sub: "membership", Fields: map[string]any{"part": "2b", "kind": "index-invariant"},
			What: fmt.Sprintf("2b round %d at quiescence: %v", round, err), Witness: map[string]any{"round": round}})
	}
	// deliveries: a room-targeted broadcast de-duplicates per call, so nobody may see it twice even when ids
	// are re-added; a namespace-wide one walks the socket index, where only an id that was removed and added
	// again while the walk was in progress can legitimately come up twice (outside the property: see assumptions).
	for id := 0; id < nB; id++ {
		for k := 0; k < nK; k++ {
			n := cnt[id*nK+k].Load()
			if n <= 1 {
				continue
			}
			removedMeanwhile := false
			for _, l := range logs {
				for _, rec := range l {
					if rec.key == k && rec.op.Input.(linIn).Op == "delall" && rec.op.Call <= bcRet[id] && rec.op.Return >= bcCall[id] {
						removedMeanwhile = true
					}
				}
			}
			if bcT[id] != 0 || !removedMeanwhile {
				run.Violation(vk.Violation{Sub: "concurrent", Fields: map[string]any{"part": "2b", "kind": "duplicate"},
					What: fmt.Sprintf("2b round %d: broadcast %d (T=%04b) delivered %d times to %s (id removed and re-added during the broadcast: %v)", round, id, bcT[id], n, keys[k], removedMeanwhile), Witness: map[string]any{"round": round}})
			} else {
				run.Count("p2b_namespace_wide_broadcast_seen_twice_by_an_id_removed_and_readded_meanwhile", 1)
			}
		}
	}
	run.Count("p2b_background_broadcasts", int64(nB))

	// linearizability per key
	perKey := make([][]porcupine.Operation, nK)
	for _, l := range logs {
		for _, rec := range l {
			perKey[rec.key] = append(perKey[rec.key], rec.op)
		}
	}
	ks := make([]string, 0, len(kinds))
	for k, n := range kinds {
		ks = append(ks, fmt.Sprintf("%s:%d", k, n/4*4))
	}
	sort.Strings(ks)
	run.Distinct(fmt.Sprintf("2b keys%d g%d %s", nK, nG, strings.Join(ks, " ")))
	for k, hist := range perKey {
		if len(hist) == 0 {
			continue
		}
		run.Eval(1)
		run.Count("p2b_histories", 1)
		run.Count("p2b_history_ops", int64(len(hist)))
		conc := 0
		for i := range hist {
			for j := i + 1; j < len(hist); j++ {
				if hist[i].Call <= hist[j].Return && hist[j].Call <= hist[i].Return {
					conc++
				}
			}
		}
		run.Count("p2b_concurrent_op_pairs", int64(conc))
		res := porcupine.CheckOperationsTimeout(linModel, hist, 60*time.Second)
		switch res {
		case porcupine.Ok:
			run.Count("p2b_porcupine_ok", 1)
		case porcupine.Unknown:
			run.Count("p2b_porcupine_unknown", 1)
			run.Inconclusive(fmt.Sprintf("2b round %d key %s: porcupine timed out on %d operations", round, keys[k], len(hist)))
		case porcupine.Illegal:
			run.Count("p2b_porcupine_illegal", 1)
			sort.Slice(hist, func(i, j int) bool { return hist[i].Call < hist[j].Call })
			var wit []map[string]any
			for _, o := range hist {
				wit = append(wit, map[string]any{"goroutine": o.ClientId, "in": o.Input, "out": o.Output, "call_ns": o.Call, "ret_ns": o.Return})
			}
			run.Violation(vk.Violation{Sub: "linearizability", Fields: map[string]any{"part": "2b", "kind": "not-linearizable"},
				What:    fmt.Sprintf("2b round %d: the %d recorded AddAll/Delete/DeleteAll/SocketRooms/Sockets operations on socket id %s admit no linearization", round, len(hist), keys[k]),
				Witness: map[string]any{"round": round, "key": keys[k], "history": wit}})
		}
		if k == 0 && round%37 == 5 && samples.take("2b") {
			run.Sample(map[string]any{"part": "2b", "round": round, "key": keys[k], "operations": len(hist), "concurrent_pairs": conc, "goroutines": nG, "porcupine": string(res)})
		}
	}
}
