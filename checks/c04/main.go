// C04 — a broadcast reaches exactly the sockets its rooms and exclusions select, once.
//
// Part 1 (adapter level, lock-step with a set-comprehension model): the real in-memory
// adapter is built over a recorder that implements the public adapter.SocketStore; every
// SendBuffers call is decoded and attributed to (broadcast id, socket id).
//
//	1a exhaustive: all 2^9 membership matrices of 3 sockets x 3 rooms x all 8x8 (T,E),
//	   through Adapter.Broadcast and through BroadcastOperator chains (To/In/Except,
//	   parents reused after deriving children), plus sender exclusion and private rooms.
//	1b random histories over 4 socket slots x 4 rooms (join, leave, disconnect, reconnect
//	   with a fresh id, SocketsJoin/SocketsLeave/DisconnectSockets, broadcasts, queries);
//	   index invariant + full index snapshot + public queries compared after every step.
//
// Part 2 (concurrent): goroutines mutate membership while others broadcast; every call is
// recorded with [call,return] from one monotonic clock and judged by interval semantics.
// Membership operations are additionally checked for linearizability with porcupine.
//
// Part 3 (end to end): real server, raw protocol peers; after each broadcast a direct
// fence event is emitted to every client socket, so "absent before the fence" on a FIFO
// connection is a definite non-delivery. After every client disconnect the server socket
// must be in no room and listed nowhere. 3b: Join calls racing with the disconnect of the
// same socket; once every call has returned the socket must be in no room.
package main

import (
	"fmt"
	"os"
	"runtime"
	"runtime/debug"
	"sort"
	"strconv"
	"strings"
	"sync"
	"sync/atomic"
	"time"

	mapset "github.com/deckarep/golang-set/v2"
	sio "github.com/karagenc/socket.io-go"
	"github.com/karagenc/socket.io-go/adapter"
	"github.com/karagenc/socket.io-go/parser"
	jsonparser "github.com/karagenc/socket.io-go/parser/json"
	"github.com/karagenc/socket.io-go/parser/json/serializer/stdjson"

	"sioverif/internal/rawpeer"
	"sioverif/internal/refcodec"
	"sioverif/internal/vk"
)

type (
	Room = adapter.Room
	SID  = adapter.SocketID
)

var parserCreator = jsonparser.NewCreator(0, stdjson.New())

const nspName = "/"

// ---------------------------------------------------------------------------------
// world: the real in-memory adapter over the harness' own socket store / recorder.
// ---------------------------------------------------------------------------------

type world struct {
	a adapter.Adapter

	mu    sync.Mutex // guards socks only; never held while calling into the adapter
	socks map[SID]*fakeSocket

	// onSend is set before any broadcast is issued and never changed while goroutines run.
	onSend func(sid SID, bid int64, present bool)

	yieldEvery uint32 // >0: every n-th SendBuffers yields the processor (widens apply's unlocked window)
	sendCtr    atomic.Uint32

	badPayload atomic.Int64
	badMu      sync.Mutex
	badFirst   string
}

func newWorld() *world {
	w := &world{socks: map[SID]*fakeSocket{}}
	w.a = adapter.NewInMemoryAdapterCreator()(w, parserCreator)
	return w
}

// SendBuffers implements adapter.SocketStore: it records which socket saw which broadcast.
func (w *world) SendBuffers(sid SID, buffers [][]byte) bool {
	w.mu.Lock()
	_, present := w.socks[sid]
	w.mu.Unlock()
	bid, ok := parseBID(buffers)
	if !ok {
		w.badPayload.Add(1)
		w.badMu.Lock()
		if w.badFirst == "" && len(buffers) > 0 {
			w.badFirst = fmt.Sprintf("%d frame(s), first %q", len(buffers), trunc(buffers[0]))
		}
		w.badMu.Unlock()
		return present
	}
	if w.yieldEvery > 0 && w.sendCtr.Add(1)%w.yieldEvery == 0 {
		runtime.Gosched()
	}
	if w.onSend != nil {
		w.onSend(sid, bid, present)
	}
	return present
}

func (w *world) Get(sid SID) (adapter.Socket, bool) {
	w.mu.Lock()
	defer w.mu.Unlock()
	s, ok := w.socks[sid]
	if !ok {
		return nil, false
	}
	return s, true
}

func (w *world) GetAll() []adapter.Socket {
	w.mu.Lock()
	defer w.mu.Unlock()
	out := make([]adapter.Socket, 0, len(w.socks))
	for _, s := range w.socks {
		out = append(out, s)
	}
	return out
}

func (w *world) Remove(sid SID) {
	w.mu.Lock()
	delete(w.socks, sid)
	w.mu.Unlock()
}

// connect mirrors Namespace.doConnect: register in the store, then join the own-id room.
func (w *world) connect(id SID) *fakeSocket {
	s := &fakeSocket{id: id, w: w}
	w.mu.Lock()
	w.socks[id] = s
	w.mu.Unlock()
	s.Join(Room(id))
	return s
}

// register puts a socket into the store without touching the adapter (part 2b).
func (w *world) register(id SID) *fakeSocket {
	s := &fakeSocket{id: id, w: w}
	w.mu.Lock()
	w.socks[id] = s
	w.mu.Unlock()
	return s
}

func (w *world) root() *adapter.BroadcastOperator {
	return adapter.NewBroadcastOperator(nspName, w.a, sio.IsEventReservedForServer)
}

func newHeader() *parser.PacketHeader {
	return &parser.PacketHeader{Type: parser.PacketTypeEvent, Namespace: nspName}
}

func mkOpts(T, E []Room) *adapter.BroadcastOptions {
	opts := adapter.NewBroadcastOptions()
	for _, r := range T {
		opts.Rooms.Add(r)
	}
	for _, r := range E {
		opts.Except.Add(r)
	}
	return opts
}

func (w *world) bcastAdapter(bid int64, T, E []Room) {
	w.a.Broadcast(newHeader(), []any{"b", bid}, mkOpts(T, E))
}

// fakeSocket does what serverSocket does with respect to the adapter and the store.
type fakeSocket struct {
	id     SID
	w      *world
	closed atomic.Bool
}

func (s *fakeSocket) ID() SID { return s.id }
func (s *fakeSocket) Join(room ...Room) {
	if s.closed.Load() {
		return
	}
	s.w.a.AddAll(s.id, room)
}
func (s *fakeSocket) Leave(room Room)                 { s.w.a.Delete(s.id, room) }
func (s *fakeSocket) Emit(eventName string, v ...any) {}
func (s *fakeSocket) Broadcast() *adapter.BroadcastOperator {
	return s.w.root().Except(Room(s.id))
}
func (s *fakeSocket) To(room ...Room) *adapter.BroadcastOperator { return s.Broadcast().To(room...) }
func (s *fakeSocket) In(room ...Room) *adapter.BroadcastOperator { return s.To(room...) }
func (s *fakeSocket) Except(room ...Room) *adapter.BroadcastOperator {
	return s.Broadcast().Except(room...)
}
func (s *fakeSocket) Disconnect(close bool) {
	if !s.closed.CompareAndSwap(false, true) {
		return
	}
	s.w.a.DeleteAll(s.id) // serverSocket.onClose: leaveAll, then nsp.remove
	s.w.Remove(s.id)
}

// parseBID extracts the broadcast id from the frames handed to SendBuffers.
func parseBID(buffers [][]byte) (int64, bool) {
	if len(buffers) != 1 {
		return 0, false
	}
	b := buffers[0]
	const pre = `2["b",`
	if len(b) > len(pre)+1 && string(b[:len(pre)]) == pre && b[len(b)-1] == ']' {
		if n, err := strconv.ParseInt(string(b[len(pre):len(b)-1]), 10, 64); err == nil {
			return n, true
		}
	}
	p, err := refcodec.DecodeSIO(buffers)
	if err != nil || p.Namespace != nspName || rawpeer.EventName(p) != "b" {
		return 0, false
	}
	args := rawpeer.Args(p)
	if len(args) < 1 {
		return 0, false
	}
	return rawpeer.Num(args[0])
}

func trunc(b []byte) string {
	if len(b) > 80 {
		return string(b[:80]) + "..."
	}
	return string(b)
}

// ---------------------------------------------------------------------------------
// small helpers
// ---------------------------------------------------------------------------------

func sortedSIDs[V any](m map[SID]V) []string {
	out := make([]string, 0, len(m))
	for k := range m {
		out = append(out, string(k))
	}
	sort.Strings(out)
	return out
}

func roomStrings(rs []Room) []string {
	out := make([]string, len(rs))
	for i, r := range rs {
		out[i] = string(r)
	}
	sort.Strings(out)
	return out
}

func setToSortedRooms(s mapset.Set[Room]) []string {
	if s == nil {
		return nil
	}
	return roomStrings(s.ToSlice())
}

func setToSortedSIDs(s mapset.Set[SID]) []string {
	out := []string{}
	if s == nil {
		return out
	}
	for _, x := range s.ToSlice() {
		out = append(out, string(x))
	}
	sort.Strings(out)
	return out
}

func eqStrings(a, b []string) bool {
	if len(a) != len(b) {
		return false
	}
	for i := range a {
		if a[i] != b[i] {
			return false
		}
	}
	return true
}

// safely runs f and converts a (recoverable) panic inside the code under test into an error.
func safely(f func()) (err error) {
	defer func() {
		if p := recover(); p != nil {
			err = fmt.Errorf("PANIC: %v\n%s", p, firstLines(string(debug.Stack()), 40))
		}
	}()
	f()
	return nil
}

func firstLines(s string, n int) string {
	lines := strings.Split(s, "\n")
	if len(lines) > n {
		lines = lines[:n]
	}
	return strings.Join(lines, "\n")
}

// sampler hands out a bounded number of evidence samples per part.
type sampler struct {
	mu    sync.Mutex
	quota map[string]int
}

func (s *sampler) take(part string) bool {
	s.mu.Lock()
	defer s.mu.Unlock()
	if s.quota[part] <= 0 {
		return false
	}
	s.quota[part]--
	return true
}

var samples = &sampler{quota: map[string]int{"1a": 3, "1b": 2, "2": 3, "2b": 1, "e2e": 3}}

// guarded runs one part under a watchdog: the sequential parts call straight into the adapter, so a
// lock that is never released (e.g. apply not unlocking around its callback) would otherwise hang the check.
func guarded(run *vk.Run, part string, limit time.Duration, f func()) {
	t0 := time.Now()
	if !vk.Watchdog(limit, f) {
		p := vk.DumpGoroutines("c04-part" + part)
		run.Violation(vk.Violation{Sub: "hang", Fields: map[string]any{"part": part, "kind": "hang"},
			What: fmt.Sprintf("part %s did not finish within %v (goroutine stacks: %s)", part, limit, p), Witness: map[string]any{"stacks": p}})
		run.Finish()
	}
	run.Logf("part %s done in %v", part, time.Since(t0).Round(time.Millisecond))
}

func main() {
	run := vk.Start("C04", "exploration")
	run.Rule("1a: every cell (membership matrix of 3 sockets x 3 rooms, T, E) of the 512x8x8 space, each driven through Adapter.Broadcast, an operator chain, a reused parent operator and three senders; distinct = cell id m<matrix>/T<mask>/E<mask>. " +
		"1b: seeded random histories (<= 40 ops, 4 socket slots x 4 rooms, disconnect + reconnect with fresh ids); distinct = multiset of operation kinds of the history. " +
		"2: goroutines mutating membership while others broadcast, judged per (broadcast, socket) by interval semantics; distinct = overlap pattern (|T|,|E|, #must, #must-not, #undetermined, #undetermined delivered). " +
		"2b: per-socket-id linearizability (porcupine) of AddAll/Delete/DeleteAll/SocketRooms/Sockets; distinct = history shape (keys, goroutines, op-kind multiset). " +
		"3: real server + raw peers, broadcast then direct fence on every connection; distinct = (recovery, API variant, |T|, |E|, #recipients/#clients). " +
		"3b: N goroutines calling ServerSocket.Join while the same socket is disconnected, checked once every call has returned; distinct = number of joiners")
	run.Assume(
		"the harness' fake socket does what serverSocket does towards the adapter (Join=AddAll, Leave=Delete, Disconnect=DeleteAll then store removal, Broadcast()=Except(own id)); part 3 covers the real serverSocket",
		"every socket is in the room named by its own id and histories never make it leave that room",
		"part 2 interval rule: in a room throughout = a join of (socket, room) returned before the broadcast was called and no leave/disconnect of it that could follow that join was called before the broadcast returned (symmetrically for out); a socket that is merely in *some* target room at every instant (room hopping) is classed undetermined",
		"part 3: one connection delivers in FIFO order (C02), so a broadcast that has not arrived before the fence emitted after it never arrives",
		"a socket id is never re-used after DeleteAll in parts 1-2 (the real server only re-uses ids through state recovery, C08); part 2b re-uses ids and only counts, never flags, double delivery of a namespace-wide broadcast there",
	)

	if run.SubMode == "race" {
		guarded(run, "race-1b", 14*time.Minute, func() { part1b(run, 10000) })
		guarded(run, "race-2", 14*time.Minute, func() { part2(run, 3000) })
		guarded(run, "race-2b", 14*time.Minute, func() { part2b(run, 2000) })
		run.Finish()
	}

	limit := time.Duration(run.Pick(3, 30)) * time.Minute
	guarded(run, "1a", limit, func() { part1a(run); run.Exhaustive(true) })
	guarded(run, "1b", limit, func() { part1b(run, run.Pick(3000, 60000)) })
	guarded(run, "2", limit, func() { part2(run, run.Pick(3000, 40000)) })
	guarded(run, "2b", limit, func() { part2b(run, run.Pick(1500, 20000)) })
	guarded(run, "3", limit, func() {
		for _, recovery := range []bool{false, true} {
			endToEnd(run, recovery, run.Pick(150, 3000))
		}
		joinVersusDisconnect(run, run.Pick(40, 400))
		staleMember(run, run.Pick(25, 200))
	})

	if bin := os.Getenv("VERIF_RACE_BIN"); bin != "" && run.Thorough() {
		if s, err := vk.RunSub(bin, "race", run, 15*time.Minute); err != nil {
			run.Inconclusive("race sub-pass: " + err.Error())
		} else {
			run.Merge("race:", s)
		}
	}
	run.Finish()
}
