// C13 — size limits are enforced on every transport, and traffic within them is accepted.
//
// Part 1 (enforcement): a real Engine.IO server with MaxBufferSize L and a raw protocol peer
// that is independent of the repository's code. The peer sends one MESSAGE whose size *as the
// transport sees it* (POST body length / websocket frame length) is L-1, L, L+1, 2L, 10L, as a
// POST with Content-Length, a CHUNKED POST (no length declared), a websocket text frame and a
// websocket binary frame; fresh session per trial. Monitors: the server's packet callback
// (what was handed to the application, identified by length + content hash), the server's
// close callback + live-session count, and what the sender saw (status / connection closed).
// Part 2 (acceptance): real Go client <-> real server, every size around the websocket
// library's frame-header steps and its 32 KiB default, L-1 and L, both directions, text and
// binary, polling and websocket: exactly-once delivery, no close / error callback. Also
// multi-packet Send calls over polling whose packets are each within the limit.
// Part 3 (batcher): exhaustive enumeration of the client's real batch splitter through
// eio.VerifSplitBatches: conservation (pointer identity, order) and "every batch with >= 2
// packets fits maxPayload".
package main

import (
	"encoding/json"
	"fmt"
	"hash/fnv"
	"math/rand"
	"os"
	"runtime"
	"runtime/debug"
	"sort"
	"strings"
	"sync"
	"sync/atomic"
	"time"

	eio "github.com/karagenc/socket.io-go/engine.io"
	"github.com/karagenc/socket.io-go/engine.io/parser"
	"nhooyr.io/websocket"

	"sioverif/internal/rawpeer"
	"sioverif/internal/refcodec"
	"sioverif/internal/rig"
	"sioverif/internal/vk"
)

// Absence verdicts ("not delivered", "not closed") are only drawn after this long; normal latency is milliseconds.
const watchdog = 15 * time.Second

// ---------------------------------------------------------------------------------------------
// limits
// ---------------------------------------------------------------------------------------------

type limitCfg struct {
	name     string
	max      int64 // ServerConfig.MaxBufferSize
	disabled bool  // ServerConfig.DisableMaxBufferSize
	L        int64 // effective limit = what must be announced as maxPayload; 0 = none
}

func mkLimit(n int64) limitCfg { return limitCfg{name: fmt.Sprint(n), max: n, L: n} }

var (
	limDefault  = limitCfg{name: "default", max: 0, L: 1000000}
	limDisabled = limitCfg{name: "disabled", disabled: true, L: 0}
)

func limitByName(name string) limitCfg {
	switch name {
	case "default":
		return limDefault
	case "disabled":
		return limDisabled
	}
	var n int64
	fmt.Sscan(name, &n)
	return mkLimit(n)
}

// ---------------------------------------------------------------------------------------------
// messages and recorders
// ---------------------------------------------------------------------------------------------

var msgSeq atomic.Int64

// payload builds n bytes of message data that identify the message: "#<id>#" followed by an
// id-dependent filler. Text payloads are ASCII letters (no 0x1e separator, valid UTF-8).
func payload(n int, binary bool) []byte {
	id := int(msgSeq.Add(1))
	b := make([]byte, n)
	prefix := fmt.Sprintf("#%d#", id)
	if n < len(prefix) {
		for i := range b {
			b[i] = 'A' + byte((id+i)%26)
		}
		return b
	}
	k := copy(b, prefix)
	for i := k; i < n; i++ {
		if binary {
			b[i] = byte(id*131 + i*7 + (i >> 8))
		} else {
			b[i] = 'a' + byte((id+i)%26)
		}
	}
	return b
}

// msgKey identifies a message by kind, length and content hash.
func msgKey(binary bool, data []byte) string {
	h := fnv.New64a()
	h.Write(data)
	return fmt.Sprintf("%t/%d/%016x", binary, len(data), h.Sum64())
}

// recorder is attached to the callbacks of one session end (server socket or Go client).
type recorder struct {
	mu       sync.Mutex
	got      map[string]int
	order    []string
	maxLen   int
	msgs     int
	closed   bool
	closeWhy string
	errs     []string
	sock     eio.ServerSocket
	onMsg    func(n int)
}

func newRecorder() *recorder { return &recorder{got: map[string]int{}} }

func (r *recorder) onPackets(ps ...*parser.Packet) {
	for _, p := range ps {
		if p.Type != parser.PacketTypeMessage {
			continue
		}
		k := msgKey(p.IsBinary, p.Data)
		r.mu.Lock()
		r.got[k]++
		r.order = append(r.order, k)
		if len(p.Data) > r.maxLen {
			r.maxLen = len(p.Data)
		}
		r.msgs++
		f := r.onMsg
		r.mu.Unlock()
		if f != nil {
			f(len(p.Data))
		}
	}
}

func (r *recorder) onError(err error) {
	r.mu.Lock()
	if len(r.errs) < 8 {
		r.errs = append(r.errs, fmt.Sprint(err))
	}
	r.mu.Unlock()
}

func (r *recorder) onClose(reason eio.Reason, err error) {
	r.mu.Lock()
	r.closed = true
	r.closeWhy = string(reason)
	if err != nil {
		r.closeWhy += ": " + err.Error()
	}
	r.mu.Unlock()
}

func (r *recorder) count(key string) int { r.mu.Lock(); defer r.mu.Unlock(); return r.got[key] }
func (r *recorder) isClosed() bool       { r.mu.Lock(); defer r.mu.Unlock(); return r.closed }
func (r *recorder) maxReceived() int     { r.mu.Lock(); defer r.mu.Unlock(); return r.maxLen }
func (r *recorder) socket() eio.ServerSocket {
	r.mu.Lock()
	defer r.mu.Unlock()
	return r.sock
}

// fault returns a description of the first close/error callback seen, or "".
func (r *recorder) fault(who string) string {
	r.mu.Lock()
	defer r.mu.Unlock()
	if r.closed {
		return who + " close callback: " + r.closeWhy
	}
	if len(r.errs) > 0 {
		return who + " error callback: " + r.errs[0]
	}
	return ""
}

func (r *recorder) lens() []int {
	r.mu.Lock()
	defer r.mu.Unlock()
	var out []int
	for _, k := range r.order {
		var b bool
		var n int
		fmt.Sscanf(strings.ReplaceAll(k, "/", " "), "%t %d", &b, &n)
		out = append(out, n)
		if len(out) >= 16 {
			break
		}
	}
	return out
}

// srvRec hands one recorder to every session of a server.
type srvRec struct {
	mu       sync.Mutex
	sessions map[string]*recorder
	maxLen   atomic.Int64
	srvErrs  atomic.Int64
}

func newSrvRec() *srvRec { return &srvRec{sessions: map[string]*recorder{}} }

func (s *srvRec) get(sid string) *recorder {
	s.mu.Lock()
	defer s.mu.Unlock()
	r := s.sessions[sid]
	if r == nil {
		r = newRecorder()
		r.onMsg = func(n int) {
			for {
				cur := s.maxLen.Load()
				if int64(n) <= cur || s.maxLen.CompareAndSwap(cur, int64(n)) {
					return
				}
			}
		}
		s.sessions[sid] = r
	}
	return r
}

func (s *srvRec) onSocket(sock eio.ServerSocket) *eio.Callbacks {
	r := s.get(sock.ID())
	r.mu.Lock()
	r.sock = sock
	r.mu.Unlock()
	return &eio.Callbacks{OnPacket: r.onPackets, OnError: r.onError, OnClose: r.onClose}
}

func startServer(lc limitCfg) (*rig.EIOServer, *srvRec, error) {
	sr := newSrvRec()
	srv, err := rig.NewEIOServer(sr.onSocket, &eio.ServerConfig{
		MaxBufferSize: lc.max, DisableMaxBufferSize: lc.disabled,
		OnError: func(error) { sr.srvErrs.Add(1) },
	})
	return srv, sr, err
}

// sampler keeps a few actual cases per part for the evidence file.
type sampler struct {
	mu sync.Mutex
	by map[string][]any
}

func (s *sampler) add(part string, max int, v any) {
	s.mu.Lock()
	if s.by == nil {
		s.by = map[string][]any{}
	}
	if len(s.by[part]) < max {
		s.by[part] = append(s.by[part], v)
	}
	s.mu.Unlock()
}

// flush hands at most perPart[part-prefix] samples of each part to the evidence writer (which keeps 12).
func (s *sampler) flush(run *vk.Run) {
	parts := make([]string, 0, len(s.by))
	for p := range s.by {
		parts = append(parts, p)
	}
	sort.Strings(parts)
	quota := map[byte]int{'1': 4, '2': 4, '3': 4}
	for _, p := range parts {
		for _, v := range s.by[p] {
			if quota[p[0]] > 0 {
				quota[p[0]]--
				run.Sample(v)
			}
		}
	}
}

var samples sampler

// ---------------------------------------------------------------------------------------------
// part 1: enforcement (raw peer -> real server)
// ---------------------------------------------------------------------------------------------

type sizeSpec struct {
	n     int64
	class string
}

// "up-ws-*": the session is opened on polling and upgraded to websocket before the message is sent —
// the limit of the session must hold on the transport it was upgraded to as well.
// "jsonp-*": the JSON-P form of a polling POST (query j=0, form body d=<payload>), with and without a
// declared Content-Length; the transport-level size is the size of the HTTP body.
var declaredModes = []string{"content-length", "chunked", "ws-text", "ws-binary", "up-ws-text", "up-ws-binary", "jsonp-content-length", "jsonp-chunked"}

func transportOf(declared string) string {
	if strings.Contains(declared, "ws-") {
		return "websocket"
	}
	return "polling"
}

func enforceSizes(run *vk.Run, lc limitCfg, r *rand.Rand) []sizeSpec {
	if lc.L == 0 {
		s := []sizeSpec{{32768, "32768"}, {32769, "32769"}, {65537, "65537"}, {1000000, "1e6"}, {1000001, "1e6+1"}, {2000000, "2e6"}, {3000000, "3e6"}}
		for i := 0; i < run.Pick(1, 3); i++ {
			s = append(s, sizeSpec{2 + r.Int63n(3000000-1), "rand"})
		}
		return s
	}
	L := lc.L
	s := []sizeSpec{{L - 1, "L-1"}, {L, "L"}, {L + 1, "L+1"}, {2 * L, "2L"}, {10 * L, "10L"}}
	if run.Thorough() {
		s = append(s, sizeSpec{2, "2"}, sizeSpec{L / 2, "L/2"}, sizeSpec{L + 2, "L+2"}, sizeSpec{3 * L, "3L"})
	}
	for i := 0; i < run.Pick(1, 3); i++ {
		s = append(s, sizeSpec{2 + r.Int63n(L-1), "rand<=L"})
		s = append(s, sizeSpec{L + 1 + r.Int63n(9*L), "rand>L"})
	}
	return s
}

type enforceEnv struct {
	run   *vk.Run
	lc    limitCfg
	srv   *rig.EIOServer
	sr    *srvRec
	dirty bool
	slow  map[string]int // per declaration: trials that ran into the 15 s watchdog (a broken tree must not cost minutes)
	// max data length handed to the application over all servers of this limit
	maxSeen int64
}

func (e *enforceEnv) start() error {
	if e.srv != nil {
		if m := e.sr.maxLen.Load(); m > e.maxSeen {
			e.maxSeen = m
		}
		e.srv.Close()
	}
	srv, sr, err := startServer(e.lc)
	if err != nil {
		return err
	}
	e.srv, e.sr, e.dirty = srv, sr, false
	return nil
}

// rawSend transmits one MESSAGE in the declared form. status is the HTTP status for polling.
func rawSend(peer *rawpeer.Client, declared string, binary bool, data []byte) (status int, err error) {
	switch declared {
	case "content-length", "chunked":
		body := append([]byte{'4'}, data...)
		return peer.PostRaw(body, declared == "chunked")
	case "jsonp-content-length", "jsonp-chunked":
		st, _, err := peer.PostJSONP(append([]byte{'4'}, data...), declared == "jsonp-chunked")
		return st, err
	default:
		return 0, peer.Send(refcodec.EPacket{Type: refcodec.EMessage, Binary: binary, Data: data})
	}
}

type sendState struct {
	mu     sync.Mutex
	done   bool
	status int
	err    error
}

func (s *sendState) set(status int, err error) {
	s.mu.Lock()
	s.done, s.status, s.err = true, status, err
	s.mu.Unlock()
}

func (s *sendState) get() (bool, int, error) {
	s.mu.Lock()
	defer s.mu.Unlock()
	return s.done, s.status, s.err
}

func (e *enforceEnv) trial(declared string, sz sizeSpec) {
	run := e.run
	tr := transportOf(declared)
	sig := fmt.Sprintf("enforce/%s/%s/L=%s/size=%s", tr, declared, e.lc.name, sz.class)
	run.Eval(1)
	run.Count("enforce_trials", 1)
	dialTr := tr
	if strings.HasPrefix(declared, "up-") {
		dialTr = "polling"
	}
	peer, err := rawpeer.Dial(e.srv.URL, dialTr)
	if err != nil {
		run.Inconclusive(sig + ": dial: " + err.Error())
		e.dirty = true
		return
	}
	if dialTr != tr {
		if err := peer.Upgrade(); err != nil {
			peer.Abort()
			run.Inconclusive(sig + ": upgrade: " + err.Error())
			e.dirty = true
			return
		}
		run.Count("enforce_trials_after_upgrade", 1)
	}
	defer func() {
		peer.Close()
		if !vk.WaitUntil(watchdog, func() bool { return e.srv.EIO.VerifSessionCount() == 0 }) {
			run.Inconclusive(sig + ": session still in the store 15 s after the peer said goodbye; next trial gets a fresh server")
			e.dirty = true
		}
	}()
	f := map[string]any{"transport": tr, "declared": declared, "limit": e.lc.name}
	replay := map[string]any{"part": "enforce", "limit": e.lc.name, "declared": declared, "size": sz.n, "size_class": sz.class}
	if peer.Open.MaxPayload != e.lc.L {
		run.Violation(vk.Violation{Sub: "announced-limit-mismatch", Fields: map[string]any{"transport": tr, "limit": e.lc.name},
			What:    fmt.Sprintf("handshake over %s announces maxPayload %d, the server's effective limit is %d", tr, peer.Open.MaxPayload, e.lc.L),
			Witness: map[string]any{"replay": replay, "announced": peer.Open.MaxPayload}})
	}
	rec := e.sr.get(peer.Open.SID)
	binary := strings.HasSuffix(declared, "ws-binary")
	n := int(sz.n)
	if !binary {
		n-- // the type character "4" is part of the body / frame
	}
	if strings.HasPrefix(declared, "jsonp-") {
		// body = "d=" + form-escaped("4" + data); the two '#' of the id prefix travel as %23
		if sz.n < 32 {
			return
		}
		n = int(sz.n) - 3 - 4
	}
	data := payload(n, binary)
	key := msgKey(binary, data)
	over := e.lc.L > 0 && sz.n > e.lc.L

	var ss sendState
	go func() { ss.set(rawSend(peer, declared, binary, data)) }()
	refused := func() bool {
		done, st, er := ss.get()
		if done && (er != nil || (tr == "polling" && st != 200)) {
			return true
		}
		return peer.IsClosed()
	}
	witness := func() map[string]any {
		done, st, er := ss.get()
		w := map[string]any{"replay": replay, "limit": e.lc.L, "transport_level_size": sz.n, "size_class": sz.class, "data_len": n,
			"sender_returned": done, "sender_http_status": st, "sender_error": fmt.Sprint(er), "sender_saw_close": peer.IsClosed(), "sender_close_reason": peer.CloseReason(),
			"server_delivered_this_message": rec.count(key), "server_received_lens": rec.lens(), "server_close_callback": rec.fault("server"),
			"live_sessions": e.srv.EIO.VerifSessionCount()}
		return w
	}

	if over {
		run.Count("enforce_oversize_trials", 1)
		accepted := func() bool { return rec.count(key) > 0 || int64(rec.maxReceived()) > e.lc.L }
		vk.WaitUntil(watchdog, func() bool {
			return accepted() || (rec.isClosed() && refused() && e.srv.EIO.VerifSessionCount() == 0)
		})
		if !accepted() {
			time.Sleep(50 * time.Millisecond) // a delivery racing the close would land now
		}
		if accepted() {
			vk.WaitUntil(2*time.Second, func() bool { d, _, _ := ss.get(); return d }) // for the witness only
			_, st, er := ss.get()
			run.Count("enforce_oversize_accepted", 1)
			run.Violation(vk.Violation{Sub: "oversize-accepted", Fields: f,
				What: fmt.Sprintf("limit %d: a %d-byte message (%s, %s) was handed to the server's packet callback (data length %d); sender saw status=%d err=%v, session closed=%v",
					e.lc.L, sz.n, tr, declared, rec.maxReceived(), st, er, rec.isClosed()),
				Witness: witness()})
		} else {
			ok := true
			if !rec.isClosed() || e.srv.EIO.VerifSessionCount() != 0 {
				ok = false
				run.Violation(vk.Violation{Sub: "oversize-not-closed", Fields: f,
					What:    fmt.Sprintf("limit %d: %d-byte message (%s, %s) was not delivered, but the session was not closed within 15 s (close callback fired=%v, live sessions=%d)", e.lc.L, sz.n, tr, declared, rec.isClosed(), e.srv.EIO.VerifSessionCount()),
					Witness: witness()})
			}
			if !refused() {
				ok = false
				run.Violation(vk.Violation{Sub: "oversize-sender-not-refused", Fields: f,
					What:    fmt.Sprintf("limit %d: sender of a %d-byte message (%s, %s) saw neither a non-200 status nor its connection closed within 15 s", e.lc.L, sz.n, tr, declared),
					Witness: witness()})
			}
			if ok {
				run.Count("enforce_oversize_rejected", 1)
				run.Distinct(sig + "/rejected")
				_, st, er := ss.get()
				samples.add("1-enforce-over-"+declared, 1, map[string]any{"part": "enforce", "case": sig, "size": sz.n, "limit": e.lc.L, "outcome": "rejected",
					"sender_status": st, "sender_error": fmt.Sprint(er), "server_close": rec.fault("server")})
			}
		}
		return
	}

	// within the limit (or no limit): must be delivered exactly once, sender sees success, session survives a probe.
	run.Count("enforce_within_trials", 1)
	fw := map[string]any{"transport": tr, "declared": declared, "dir": "c2s", "peer": "raw", "kind": kindName(binary), "size_class": sz.class, "limit": e.lc.name}
	refuse := func(why string) {
		run.Violation(vk.Violation{Sub: "within-limit-refused", Fields: fw,
			What:    fmt.Sprintf("limit %s: %d-byte message (%s, %s) %s", limitText(e.lc), sz.n, tr, declared, why),
			Witness: witness()})
	}
	vk.WaitUntil(watchdog, func() bool { return rec.count(key) > 0 || rec.isClosed() || refused() })
	if rec.count(key) == 0 {
		time.Sleep(100 * time.Millisecond)
	}
	if rec.count(key) == 0 {
		refuse(fmt.Sprintf("was not delivered to the server's packet callback (server: %q, sender refused=%v)", rec.fault("server"), refused()))
		return
	}
	vk.WaitUntil(watchdog, func() bool { d, _, _ := ss.get(); return d })
	if done, st, er := ss.get(); !done || er != nil || (tr == "polling" && st != 200) {
		refuse(fmt.Sprintf("was delivered but the sender saw returned=%v status=%d err=%v", done, st, er))
		return
	}
	pdata := payload(24, false)
	pkey := msgKey(false, pdata)
	go rawSend(peer, map[string]string{"polling": "content-length", "websocket": "ws-text"}[tr], false, pdata)
	vk.WaitUntil(watchdog, func() bool { return rec.count(pkey) > 0 || rec.isClosed() || peer.IsClosed() })
	if rec.count(pkey) == 0 || rec.isClosed() {
		refuse(fmt.Sprintf("was delivered, but the session did not survive it: follow-up probe delivered=%v, server: %q, peer closed: %q", rec.count(pkey) > 0, rec.fault("server"), peer.CloseReason()))
		return
	}
	if c := rec.count(key); c > 1 {
		run.Violation(vk.Violation{Sub: "duplicate-delivery", Fields: fw, What: fmt.Sprintf("message delivered %d times", c), Witness: witness()})
		return
	}
	run.Count("enforce_within_accepted", 1)
	run.Distinct(sig + "/accepted")
	samples.add("1-enforce-within-"+declared, 1, map[string]any{"part": "enforce", "case": sig, "size": sz.n, "limit": e.lc.L, "outcome": "delivered once, probe delivered, no close"})
}

func kindName(binary bool) string {
	if binary {
		return "binary"
	}
	return "text"
}

func limitText(lc limitCfg) string {
	if lc.L == 0 {
		return "disabled"
	}
	return fmt.Sprint(lc.L)
}

func runEnforce(run *vk.Run, lc limitCfg, reps int) {
	e := &enforceEnv{run: run, lc: lc, slow: map[string]int{}}
	if err := e.start(); err != nil {
		run.Inconclusive("enforce: server: " + err.Error())
		return
	}
	r := run.Rand("c13-enforce-" + lc.name)
	for rep := 0; rep < reps; rep++ {
		sizes := enforceSizes(run, lc, r)
		for _, declared := range declaredModes {
			for _, sz := range sizes {
				if e.dirty {
					if err := e.start(); err != nil {
						run.Inconclusive("enforce: server restart: " + err.Error())
						return
					}
				}
				if e.slow[declared] >= 1 || e.slow["total"] >= 2 {
					run.Count("enforce_trials_skipped_after_watchdog_verdicts", 1)
					continue
				}
				t := time.Now()
				e.trial(declared, sz)
				if time.Since(t) > 10*time.Second {
					e.slow[declared]++
					e.slow["total"]++
				}
			}
		}
	}
	if m := e.sr.maxLen.Load(); m > e.maxSeen {
		e.maxSeen = m
	}
	e.srv.Close()
	noteMu.Lock()
	maxReceived[lc.name] = e.maxSeen
	noteMu.Unlock()
}

var (
	noteMu      sync.Mutex
	maxReceived = map[string]int64{}
)

// ---------------------------------------------------------------------------------------------
// part 2: acceptance (real Go client <-> real server)
// ---------------------------------------------------------------------------------------------

type amsg struct {
	dir    string // c2s | s2c
	binary bool
	n      int // data length
	class  string
}

func (m amsg) String() string {
	return fmt.Sprintf("%s %s data_len=%d (%s)", m.dir, kindName(m.binary), m.n, m.class)
}

func nominalSizes(lc limitCfg) []sizeSpec {
	base := []int64{1, 125, 126, 32767, 32768, 32769, 65535, 65536, 65537}
	var out []sizeSpec
	seen := map[int64]bool{}
	add := func(n int64, class string) {
		if n < 1 || seen[n] || (lc.L > 0 && n > lc.L) {
			return
		}
		seen[n] = true
		out = append(out, sizeSpec{n, class})
	}
	if lc.L > 0 {
		add(lc.L-1, "L-1")
		add(lc.L, "L")
	} else {
		add(999999, "1e6-1")
		add(1000000, "1e6")
		add(1000001, "1e6+1")
		add(2000000, "2e6")
	}
	for _, b := range base {
		add(b, fmt.Sprint(b))
	}
	sort.Slice(out, func(i, j int) bool { return out[i].n < out[j].n })
	return out
}

// acceptPlan lists the messages of one (limit, transport) cell. Sizes are transport-level sizes:
// text: 1 + len(data); binary over websocket: len(data); binary over polling: raw length, bounded
// so that the base64 form "b"+4*ceil(n/3) stays within the limit.
func acceptPlan(lc limitCfg, transport string, extra []int64) []amsg {
	var plan []amsg
	sizes := nominalSizes(lc)
	have := map[int64]bool{}
	for _, x := range sizes {
		have[x.n] = true
	}
	for _, x := range extra {
		if x >= 1 && (lc.L == 0 || x <= lc.L) && !have[x] {
			have[x] = true
			sizes = append(sizes, sizeSpec{x, "rand"})
		}
	}
	for _, dir := range []string{"c2s", "s2c"} {
		for _, s := range sizes {
			plan = append(plan, amsg{dir: dir, n: int(s.n - 1), class: s.class})
		}
		if transport == "websocket" {
			for _, s := range sizes {
				plan = append(plan, amsg{dir: dir, binary: true, n: int(s.n), class: s.class})
			}
			continue
		}
		// binary over polling
		seen := map[int64]bool{}
		bound := int64(-1)
		if lc.L > 0 {
			bound = (lc.L-1)*3/4 - 3
		}
		for _, s := range sizes {
			if bound >= 0 && s.n > bound {
				continue
			}
			seen[s.n] = true
			plan = append(plan, amsg{dir: dir, binary: true, n: int(s.n), class: "raw=" + s.class})
		}
		if bound >= 1 {
			for _, x := range []sizeSpec{{bound - 1, "raw=bound-1"}, {bound, "raw=bound"}, {3 * ((lc.L - 1) / 4), "raw=b64max"}} {
				if x.n >= 1 && !seen[x.n] && 1+4*((x.n+2)/3) <= lc.L {
					seen[x.n] = true
					plan = append(plan, amsg{dir: dir, binary: true, n: int(x.n), class: x.class})
				}
			}
		}
	}
	return plan
}

type sentMsg struct {
	desc string
	n    int // how many times a message with this (kind, length, content) was sent in this direction
}

type gconn struct {
	cli    eio.ClientSocket
	cliRec *recorder
	srvRec *recorder
	sent   map[string]*sentMsg
	last   string
}

func (c *gconn) fault() string {
	if f := c.cliRec.fault("client"); f != "" {
		return f
	}
	return c.srvRec.fault("server")
}

type acceptEnv struct {
	run       *vk.Run
	lc        limitCfg
	transport string
	upgraded  bool // opened on polling, upgraded to websocket before the messages are sent
	srv       *rig.EIOServer
	sr        *srvRec
}

func trShort(t string) string {
	if t == "websocket" {
		return "ws"
	}
	return t
}

func (a *acceptEnv) dialTransports() []string {
	if a.upgraded {
		return []string{"polling", "websocket"}
	}
	return []string{a.transport}
}

func (a *acceptEnv) dial() (*gconn, error) {
	cr := newRecorder()
	var cli eio.ClientSocket
	var err error
	ok := vk.Watchdog(30*time.Second, func() {
		cli, err = eio.Dial(a.srv.URL, &eio.Callbacks{OnPacket: cr.onPackets, OnError: cr.onError, OnClose: cr.onClose},
			&eio.ClientConfig{Transports: a.dialTransports(), WebSocketDialOptions: &websocket.DialOptions{CompressionMode: websocket.CompressionDisabled}})
	})
	if !ok {
		return nil, fmt.Errorf("eio.Dial did not return within 30 s")
	}
	if err != nil {
		return nil, err
	}
	srec := a.sr.get(cli.ID())
	if !vk.WaitUntil(watchdog, func() bool { return srec.socket() != nil }) {
		cli.Close()
		return nil, fmt.Errorf("server never reported the session %s", cli.ID())
	}
	if a.upgraded {
		vk.WaitUntil(15*time.Second, func() bool { return cli.TransportName() == "websocket" && srec.socket().TransportName() == "websocket" })
	}
	if cli.TransportName() != a.transport {
		cli.Close()
		return nil, fmt.Errorf("client runs on %s, wanted %s", cli.TransportName(), a.transport)
	}
	return &gconn{cli: cli, cliRec: cr, srvRec: srec, sent: map[string]*sentMsg{}}, nil
}

func (a *acceptEnv) fields(m amsg) map[string]any {
	return map[string]any{"transport": a.transport, "upgraded": a.upgraded, "dir": m.dir, "peer": "go-client", "kind": kindName(m.binary), "size_class": m.class, "limit": a.lc.name}
}

// sendOne sends one message and waits for its delivery. Returns false when the connection must be replaced.
func (a *acceptEnv) sendOne(c *gconn, m amsg) bool {
	run := a.run
	run.Eval(1)
	sig := fmt.Sprintf("accept/%s/up=%v/%s/%s/%s/L=%s", trShort(a.transport), a.upgraded, m.dir, kindName(m.binary), m.class, a.lc.name)
	replay := map[string]any{"part": "accept", "limit": a.lc.name, "transport": a.transport, "dir": m.dir, "binary": m.binary, "data_len": m.n, "size_class": m.class}
	if f := c.fault(); f != "" {
		// the connection died after the previous message had been delivered
		run.Violation(vk.Violation{Sub: "within-limit-refused", Fields: map[string]any{"transport": a.transport, "dir": "after", "peer": "go-client", "kind": "any", "size_class": "after-delivery", "limit": a.lc.name},
			What:    fmt.Sprintf("limit %s, %s: %s after the within-limit message [%s] had been delivered", limitText(a.lc), a.transport, f, c.last),
			Witness: map[string]any{"previous_message": c.last, "fault": f}})
		return false
	}
	data := payload(m.n, m.binary)
	key := msgKey(m.binary, data)
	if _, dup := c.sent[m.dir+"|"+key]; dup {
		run.Inconclusive(sig + ": harness produced two identical messages")
		return true
	}
	c.sent[m.dir+"|"+key] = &sentMsg{desc: m.String(), n: 1}
	c.last = m.String()
	p, err := parser.NewPacket(parser.PacketTypeMessage, m.binary, data)
	if err != nil {
		run.Inconclusive(sig + ": NewPacket: " + err.Error())
		return true
	}
	recv := c.srvRec
	if m.dir == "s2c" {
		recv = c.cliRec
	}
	var returned atomic.Bool
	go func() {
		if m.dir == "c2s" {
			c.cli.Send(p)
		} else {
			c.srvRec.socket().Send(p)
		}
		returned.Store(true)
	}()
	vk.WaitUntil(watchdog, func() bool { return recv.count(key) > 0 || c.fault() != "" })
	if recv.count(key) == 0 && c.fault() != "" {
		time.Sleep(100 * time.Millisecond)
	}
	delivered, fault := recv.count(key), c.fault()
	if delivered == 0 || fault != "" {
		why := "was not delivered within 15 s"
		if delivered > 0 {
			why = "was delivered, but"
		}
		if fault != "" {
			why += " (" + fault + ")"
		}
		run.Count("accept_refused", 1)
		run.Violation(vk.Violation{Sub: "within-limit-refused", Fields: a.fields(m),
			What: fmt.Sprintf("limit %s, %s, %s: %s message with %d data bytes [%s] %s", limitText(a.lc), a.transport, m.dir, kindName(m.binary), m.n, m.class, why),
			Witness: map[string]any{"replay": replay, "message": m.String(), "announced_limit": a.lc.L, "delivered": delivered, "fault": fault, "send_returned": returned.Load(),
				"receiver_saw_lens": recv.lens()}})
		return false
	}
	if m.class == "fence" {
		return true
	}
	run.Count("accept_delivered", 1)
	run.Count("accept_delivered_"+trShort(a.transport)+"_"+m.dir, 1)
	run.Distinct(sig)
	if combo := trShort(a.transport) + "-" + m.dir + "-" + kindName(m.binary); m.n > 32768 &&
		(combo == "ws-s2c-text" || combo == "ws-c2s-binary" || combo == "polling-c2s-binary" || combo == "polling-s2c-text") {
		samples.add("2-accept-"+combo, 1, map[string]any{"part": "accept", "case": sig, "data_len": m.n, "limit": a.lc.L, "outcome": "delivered, no close/error callback on either side"})
	}
	return true
}

// finish runs a probe round trip in both directions and audits the recorders of a connection.
func (a *acceptEnv) finish(c *gconn) {
	ok := a.sendOne(c, amsg{dir: "c2s", n: 40, class: "fence"}) && a.sendOne(c, amsg{dir: "s2c", n: 41, class: "fence"})
	if ok {
		time.Sleep(30 * time.Millisecond)
		if f := c.fault(); f != "" {
			a.run.Violation(vk.Violation{Sub: "within-limit-refused", Fields: map[string]any{"transport": a.transport, "dir": "after", "peer": "go-client", "kind": "any", "size_class": "after-delivery", "limit": a.lc.name},
				What: fmt.Sprintf("limit %s, %s: %s at the end of a run of within-limit messages", limitText(a.lc), a.transport, f), Witness: map[string]any{"fault": f}})
		}
	}
	for who, r := range map[string]*recorder{"server": c.srvRec, "client": c.cliRec} {
		dir := map[string]string{"server": "c2s|", "client": "s2c|"}[who]
		r.mu.Lock()
		for k, n := range r.got {
			sm, known := c.sent[dir+k]
			if !known {
				a.run.Violation(vk.Violation{Sub: "unexpected-message", Fields: map[string]any{"transport": a.transport, "receiver": who, "limit": a.lc.name},
					What: fmt.Sprintf("%s received a message that was never sent in this form (kind/len/hash %s): corrupted or truncated", who, k), Witness: map[string]any{"key": k}})
			} else if n > sm.n {
				a.run.Violation(vk.Violation{Sub: "duplicate-delivery", Fields: map[string]any{"transport": a.transport, "receiver": who, "limit": a.lc.name},
					What: fmt.Sprintf("%s received [%s] %d times, it was sent %d time(s)", who, sm.desc, n, sm.n), Witness: map[string]any{"message": sm.desc, "received": n, "sent": sm.n}})
			}
		}
		r.mu.Unlock()
	}
	c.cli.Close()
}

// batched sends several packets, each within the limit, in ONE Send call of the Go client over polling.
func (a *acceptEnv) batched(c *gconn, lens []int) bool {
	run := a.run
	run.Eval(1)
	if f := c.fault(); f != "" {
		return false
	}
	ps := make([]*parser.Packet, len(lens))
	keys := make([]string, len(lens))
	want := map[string]bool{}
	for i, n := range lens {
		d := payload(n, false)
		keys[i] = msgKey(false, d)
		want[keys[i]] = true
		if sm := c.sent["c2s|"+keys[i]]; sm != nil {
			sm.n++ // e.g. several packets without data: identical content
		} else {
			c.sent["c2s|"+keys[i]] = &sentMsg{desc: fmt.Sprintf("batched c2s text data_len=%d", n), n: 1}
		}
		ps[i], _ = parser.NewPacket(parser.PacketTypeMessage, false, d)
	}
	c.last = fmt.Sprintf("batched Send of data lengths %v", lens)
	c.srvRec.mu.Lock()
	mark := len(c.srvRec.order)
	c.srvRec.mu.Unlock()
	// what arrived of this Send call, in arrival order
	arrivedNow := func() []string {
		c.srvRec.mu.Lock()
		defer c.srvRec.mu.Unlock()
		var out []string
		for _, k := range c.srvRec.order[mark:] {
			if want[k] {
				out = append(out, k)
			}
		}
		return out
	}
	go c.cli.Send(ps...)
	all := func() bool { return len(arrivedNow()) >= len(keys) }
	vk.WaitUntil(watchdog, func() bool { return all() || c.fault() != "" })
	if !all() && c.fault() != "" {
		time.Sleep(100 * time.Millisecond)
	}
	f := map[string]any{"transport": a.transport, "limit": a.lc.name}
	wit := map[string]any{"replay": map[string]any{"part": "accept-batched", "limit": a.lc.name, "data_lens": lens}, "data_lens": lens, "announced_limit": a.lc.L, "fault": c.fault(), "server_saw_lens": c.srvRec.lens()}
	if !all() || c.fault() != "" {
		run.Count("accept_batched_refused", 1)
		run.Violation(vk.Violation{Sub: "batched-send-refused", Fields: f,
			What: fmt.Sprintf("limit %d, polling: one Send call with %d text packets of data lengths %v (each within the limit): all delivered=%v, %s",
				a.lc.L, len(lens), lens, all(), orNone(c.fault())), Witness: wit})
		return false
	}
	// order of arrival
	time.Sleep(20 * time.Millisecond) // a duplicate would trail
	if arrived := arrivedNow(); strings.Join(arrived, ",") != strings.Join(keys, ",") {
		run.Violation(vk.Violation{Sub: "batched-send-reordered", Fields: f,
			What: fmt.Sprintf("limit %d, polling: packets of one Send call (data lengths %v) arrived duplicated or out of order", a.lc.L, lens), Witness: wit})
		return false
	}
	run.Count("accept_batched_delivered", 1)
	run.Distinct(fmt.Sprintf("accept-batched/polling/L=%s/k=%d", a.lc.name, len(lens)))
	return true
}

func orNone(s string) string {
	if s == "" {
		return "no close/error callback"
	}
	return s
}

func runAccept(run *vk.Run, lc limitCfg, transport string, reps int) {
	srv, sr, err := startServer(lc)
	if err != nil {
		run.Inconclusive("accept: server: " + err.Error())
		return
	}
	defer srv.Close()
	a := &acceptEnv{run: run, lc: lc, transport: transport, srv: srv, sr: sr}
	if transport == "upgraded" {
		// the session is opened on polling and upgraded; the messages then travel over the websocket it was
		// upgraded to, which must accept what a directly opened websocket accepts
		a.transport, a.upgraded = "websocket", true
		transport = "websocket"
	}
	r := run.Rand("c13-accept-" + lc.name + "-" + transport + fmt.Sprint(a.upgraded))
	run.Count("accept_cells", 1)
	fails, bfails, slow := 0, 0, 0
	var c *gconn
	conn := func() bool {
		if c != nil {
			return true
		}
		var err error
		c, err = a.dial()
		if err != nil {
			run.Inconclusive(fmt.Sprintf("accept %s L=%s: dial: %v", transport, lc.name, err))
			c = nil
			return false
		}
		return true
	}
	drop := func() {
		if c != nil {
			c.cli.Close()
			c = nil
		}
		fails++
	}
	for rep := 0; rep < reps && fails < 5; rep++ {
		var extra []int64
		hi := lc.L
		if hi == 0 {
			hi = 2000000
		}
		for i := 0; i < run.Pick(3, 12); i++ {
			extra = append(extra, 1+r.Int63n(hi))
		}
		plan := acceptPlan(lc, transport, extra)
		if rep > 0 {
			r.Shuffle(len(plan), func(i, j int) { plan[i], plan[j] = plan[j], plan[i] })
		}
		for _, m := range plan {
			if fails >= 5 {
				break
			}
			if !conn() {
				return
			}
			t := time.Now()
			if !a.sendOne(c, m) {
				drop()
				if time.Since(t) > 10*time.Second {
					if slow++; slow >= 2 {
						fails = 5 // two watchdog verdicts: a broken tree must not cost minutes
					}
				}
			}
		}
		// several within-limit packets in one Send call (the client must split the batch for polling)
		if transport == "polling" && lc.L > 0 && fails < 5 && bfails < 5 {
			L := int(lc.L)
			vectors := [][]int{
				{L * 6 / 10, L * 6 / 10, L * 6 / 10},
				{L/2 - 2, L/2 - 2, L/2 - 2, L/2 - 2},
				{10, L - 20, 10, L - 20, 10},
				{0, L - 2, 0, 0, L - 2},
			}
			for i := 0; i < 3*rep; i++ {
				k := 2 + r.Intn(5)
				v := make([]int, k)
				for j := range v {
					v[j] = r.Intn(L - 1)
				}
				vectors = append(vectors, v)
			}
			for _, v := range vectors {
				if bfails >= 5 {
					break
				}
				if !conn() {
					return
				}
				t := time.Now()
				if !a.batched(c, v) {
					drop()
					fails-- // batched failures have their own cap and do not cut the single-message plan short
					bfails++
					if time.Since(t) > 10*time.Second {
						bfails = 5
						slow++
					}
				}
			}
		}
		if c != nil {
			a.finish(c)
			c = nil
		}
	}
	if fails >= 5 {
		run.Logf("accept %s L=%s: stopped after %d failing connections", transport, lc.name, fails)
	}
}

// ---------------------------------------------------------------------------------------------
// part 3: the client's batch splitter, exhaustively
// ---------------------------------------------------------------------------------------------

var alphabet = []int{0, 1, 2, 3, 5, 8, 13}

var filler = func() [][]byte {
	out := make([][]byte, 14)
	for n := range out {
		out[n] = []byte(strings.Repeat("x", n))
	}
	return out
}()

// encLen is the harness's own account of the long-polling encoding: type char + data for text,
// "b" + base64 for binary, one 0x1e between packets.
func encLen(b []*parser.Packet) int {
	n := 0
	for i, p := range b {
		if p.IsBinary {
			n += 1 + 4*((len(p.Data)+2)/3)
		} else {
			n += 1 + len(p.Data)
		}
		if i > 0 {
			n++
		}
	}
	return n
}

type distKey struct {
	ws           bool
	max, k, nb   int
	kind         uint8 // 0 text, 1 binary, 2 mixed
	hasEmptyData bool
}

type batchStats struct {
	calls, vectors, typed, split, multiChecked, singleOver, violCalls, wsCalls, unlimitedCalls int64
	dist                                                                                       map[distKey]struct{}
}

func (s *batchStats) merge(o *batchStats) {
	s.calls += o.calls
	s.vectors += o.vectors
	s.typed += o.typed
	s.split += o.split
	s.multiChecked += o.multiChecked
	s.singleOver += o.singleOver
	s.violCalls += o.violCalls
	s.wsCalls += o.wsCalls
	s.unlimitedCalls += o.unlimitedCalls
	for k := range o.dist {
		s.dist[k] = struct{}{}
	}
}

// batchReporter caps the witnesses of one violation class.
type batchReporter struct {
	run        *vk.Run
	perClass   [256]atomic.Int32
	suppressed atomic.Int64
}

const (
	subNotConserved = iota
	subEmpty
	subSplitWithoutLimit
	subLenMismatch
	subExceeds
)

// report builds and files the violation only while its class (sub + the bits that become
// Fields) has fewer than 5 witnesses; the enumeration visits millions of violating inputs on a broken tree.
func (b *batchReporter) report(sub int, bits int, mk func() vk.Violation) {
	if b.perClass[(sub<<5|bits&31)&255].Add(1) > 5 {
		b.suppressed.Add(1)
		return
	}
	b.run.Violation(mk())
}

func bit(b bool, n uint) int {
	if b {
		return 1 << n
	}
	return 0
}

func kindOf(in []*parser.Packet) (uint8, string) {
	nb := 0
	for _, p := range in {
		if p.IsBinary {
			nb++
		}
	}
	switch {
	case nb == 0:
		return 0, "text"
	case nb == len(in):
		return 1, "binary"
	}
	return 2, "mixed"
}

func describe(in []*parser.Packet, batches [][]*parser.Packet) (sizes []int, types string, shape [][]int, lens []int) {
	idx := map[*parser.Packet]int{}
	for i, p := range in {
		idx[p] = i
		sizes = append(sizes, len(p.Data))
		if p.IsBinary {
			types += "b"
		} else {
			types += "t"
		}
	}
	for _, b := range batches {
		var s []int
		for _, p := range b {
			if i, ok := idx[p]; ok {
				s = append(s, i)
			} else {
				s = append(s, -1)
			}
		}
		shape = append(shape, s)
		lens = append(lens, encLen(b))
	}
	return
}

// checkCall runs the real splitter on one input and applies the oracle.
func checkCall(rep *batchReporter, st *batchStats, in []*parser.Packet, maxPayload int, tr string) (batches [][]*parser.Packet) {
	batches = eio.VerifSplitBatches(int64(maxPayload), tr, in)
	st.calls++
	limited := maxPayload > 0 && tr == "polling"
	if tr != "polling" {
		st.wsCalls++
	} else if maxPayload == 0 {
		st.unlimitedCalls++
	}
	// (i) conservation: the concatenation of the batches is the input, pointer by pointer
	idx, conserved, empty := 0, true, false
	for _, b := range batches {
		if len(b) == 0 {
			empty = true
		}
		for _, p := range b {
			if idx >= len(in) || in[idx] != p {
				conserved = false
			}
			idx++
		}
	}
	if idx != len(in) {
		conserved = false
	}
	kind, kindS := kindOf(in)
	if kind != 0 {
		kindS = "with-binary"
	}
	bad := false
	witness := func(extra map[string]any) map[string]any {
		sizes, types, shape, lens := describe(in, batches)
		bin := make([]bool, len(in))
		for i, p := range in {
			bin[i] = p.IsBinary
		}
		w := map[string]any{"replay": map[string]any{"part": "batch", "sizes": sizes, "binary": bin, "max_payload": maxPayload, "transport": tr},
			"data_lens": sizes, "types": types, "max_payload": maxPayload, "transport": tr, "batches_as_input_indexes": shape, "encoded_len_per_batch": lens}
		for k, v := range extra {
			w[k] = v
		}
		return w
	}
	if !conserved {
		bad = true
		rep.report(subNotConserved, bit(kind != 0, 0)|bit(tr != "polling", 3), func() vk.Violation {
			sizes, types, shape, _ := describe(in, batches)
			return vk.Violation{Sub: "batch-not-conserved", Fields: map[string]any{"transport": tr, "types": kindS},
				What:    fmt.Sprintf("data lengths %v (%s), maxPayload %d: batches %v are not the input in order (dropped, duplicated or reordered)", sizes, types, maxPayload, shape),
				Witness: witness(nil)}
		})
	}
	if empty {
		bad = true
		rep.report(subEmpty, bit(kind != 0, 0)|bit(tr != "polling", 3), func() vk.Violation {
			sizes, types, shape, _ := describe(in, batches)
			return vk.Violation{Sub: "batch-empty", Fields: map[string]any{"transport": tr, "types": kindS},
				What:    fmt.Sprintf("data lengths %v (%s), maxPayload %d: an empty batch was handed to the transport: %v", sizes, types, maxPayload, shape),
				Witness: witness(nil)}
		})
	}
	hasEmpty := false
	for _, p := range in {
		if len(p.Data) == 0 {
			hasEmpty = true
		}
	}
	if !limited {
		// no limit announced / not the polling transport: nothing may be split
		if len(in) > 0 && len(batches) != 1 {
			bad = true
			rep.report(subSplitWithoutLimit, bit(maxPayload == 0, 4)|bit(tr != "polling", 3), func() vk.Violation {
				sizes, types, shape, _ := describe(in, batches)
				return vk.Violation{Sub: "batch-split-without-limit", Fields: map[string]any{"transport": tr, "unlimited": maxPayload == 0},
					What:    fmt.Sprintf("data lengths %v (%s), transport %s, maxPayload %d: %d batches %v, want exactly one", sizes, types, tr, maxPayload, len(batches), shape),
					Witness: witness(nil)}
			})
		}
	} else {
		if len(batches) > 1 {
			st.split++
		}
		for bi, b := range batches {
			n := encLen(b)
			if len(b) == 1 {
				if n > maxPayload {
					st.singleOver++ // allowed: a single packet cannot be split
				}
				continue
			}
			if len(b) == 0 {
				continue
			}
			st.multiChecked++
			if pn := parser.EncodedPayloadsLen(b...); pn != n {
				bad = true
				rep.report(subLenMismatch, bit(kind != 0, 0), func() vk.Violation {
					return vk.Violation{Sub: "encodedlen-mismatch", Fields: map[string]any{"types": kindS},
						What: fmt.Sprintf("parser.EncodedPayloadsLen = %d, the encoding rules give %d", pn, n), Witness: witness(nil)}
				})
			}
			if n > maxPayload {
				bad = true
				which := "first"
				if bi > 0 {
					which = "restarted"
				}
				emptyIn := false
				for _, p := range b {
					if len(p.Data) == 0 {
						emptyIn = true
					}
				}
				bi, nb := bi, len(b)
				rep.report(subExceeds, bit(kind != 0, 0)|bit(bi > 0, 1)|bit(emptyIn, 2), func() vk.Violation {
					sizes, types, shape, lens := describe(in, batches)
					return vk.Violation{Sub: "batch-exceeds-maxpayload", Fields: map[string]any{"transport": tr, "types": kindS, "batch": which, "empty_data_in_batch": emptyIn},
						What: fmt.Sprintf("data lengths %v (%s), maxPayload %d: batches %v have encoded lengths %v; batch #%d holds %d packets and is %d bytes > %d",
							sizes, types, maxPayload, shape, lens, bi, nb, n, maxPayload),
						Witness: witness(map[string]any{"offending_batch": bi, "offending_len": n})}
				})
			}
		}
	}
	if bad {
		st.violCalls++
	}
	st.dist[distKey{ws: tr != "polling", max: maxPayload, k: len(in), nb: len(batches), kind: kind, hasEmptyData: hasEmpty}] = struct{}{}
	return batches
}

// crossCheckEncoding compares the harness's length account with what the real encoder writes
// (the bytes the polling transport would POST).
func crossCheckEncoding(rep *batchReporter, b []*parser.Packet) {
	var sb strings.Builder
	if err := parser.EncodePayloads(&sb, b...); err != nil || sb.Len() != encLen(b) {
		rep.report(subLenMismatch, 2, func() vk.Violation {
			return vk.Violation{Sub: "encodedlen-mismatch", Fields: map[string]any{"types": "encoder"},
				What: fmt.Sprintf("EncodePayloads wrote %d bytes (err %v), the encoding rules give %d", sb.Len(), err, encLen(b)), Witness: nil}
		})
	}
}

func mkPackets(sizes []int, binary []bool) []*parser.Packet {
	in := make([]*parser.Packet, len(sizes))
	for i, n := range sizes {
		in[i] = &parser.Packet{Type: parser.PacketTypeMessage, IsBinary: binary[i], Data: filler[n]}
	}
	return in
}

// masksFor lists the text/binary assignments tried for a vector of length k (bit i = packet i is binary).
func masksFor(k int, all bool) []uint {
	full := uint(1)<<uint(k) - 1
	if all {
		m := make([]uint, 0, full+1)
		for x := uint(0); x <= full; x++ {
			m = append(m, x)
		}
		return m
	}
	set := map[uint]bool{}
	var m []uint
	for _, x := range []uint{0, full, 0x2A & full, 0x15 & full, 0x0C & full} {
		if !set[x] {
			set[x] = true
			m = append(m, x)
		}
	}
	return m
}

// enumVectors enumerates all size vectors of length k that start with prefix.
func enumVectors(k int, prefix []int, f func(idx []int)) {
	v := make([]int, k)
	copy(v, prefix)
	var rec func(i int)
	rec = func(i int) {
		if i == k {
			f(v)
			return
		}
		for a := range alphabet {
			v[i] = a
			rec(i + 1)
		}
	}
	rec(len(prefix))
}

func runBatcher(run *vk.Run) {
	// The enumeration allocates a few hundred bytes per call and keeps nothing: with the default
	// GC pacing the collector runs thousands of times per second and the workers do not scale.
	oldGC := debug.SetGCPercent(-1)
	oldLimit := debug.SetMemoryLimit(1 << 30)
	defer func() { debug.SetGCPercent(oldGC); debug.SetMemoryLimit(oldLimit) }()
	maxK := run.Pick(5, 6)
	maxMP := run.Pick(30, 45)
	allMasks := true // every text/binary assignment in both tiers; the tiers differ in vector length and maxPayload range
	rep := &batchReporter{run: run}
	total := &batchStats{dist: map[distKey]struct{}{}}

	// canonical probes first (so they are among the capped witnesses and in the samples)
	for _, pr := range []struct {
		sizes []int
		bin   []bool
		max   int
	}{
		{[]int{5, 5, 5}, []bool{false, false, false}, 8},
		{[]int{0, 0, 0}, []bool{false, false, false}, 2},
		{[]int{13, 13}, []bool{false, false}, 20},
		{[]int{3, 3, 3, 3, 3, 3}, []bool{false, true, false, true, false, true}, 12},
		{[]int{13}, []bool{false}, 5},
	} {
		in := mkPackets(pr.sizes, pr.bin)
		b := checkCall(rep, total, in, pr.max, "polling")
		_, types, shape, lens := describe(in, b)
		samples.add("3-batch", 4, map[string]any{"part": "batch", "data_lens": pr.sizes, "types": types, "max_payload": pr.max, "batches_as_input_indexes": shape, "encoded_len_per_batch": lens})
		run.Eval(1)
	}

	work := func(st *batchStats, k int, prefix []int) {
		pk := make([]parser.Packet, k)
		in := make([]*parser.Packet, k)
		for i := range in {
			in[i] = &pk[i]
			pk[i].Type = parser.PacketTypeMessage
		}
		masks := masksFor(k, allMasks)
		sample := 0
		enumVectors(k, prefix, func(idx []int) {
			st.vectors++
			for _, m := range masks {
				st.typed++
				for i := 0; i < k; i++ {
					pk[i].IsBinary = m&(1<<uint(i)) != 0
					pk[i].Data = filler[alphabet[idx[i]]]
				}
				for mp := 0; mp <= maxMP; mp++ {
					b := checkCall(rep, st, in, mp, "polling")
					sample++
					if sample%997 == 0 {
						for _, x := range b {
							if len(x) > 0 {
								crossCheckEncoding(rep, x)
							}
						}
					}
				}
				if m == 0 || m == masks[len(masks)-1] {
					checkCall(rep, st, in, 1, "websocket")
					checkCall(rep, st, in, 8, "websocket")
				}
			}
		})
	}

	// short vectors sequentially (deterministic, smallest witnesses first), long ones on all cores
	type task struct {
		k      int
		prefix []int
	}
	var tasks []task
	for k := 1; k <= maxK; k++ {
		if k <= 3 {
			work(total, k, nil)
			continue
		}
		for a := range alphabet {
			for b := range alphabet {
				tasks = append(tasks, task{k, []int{a, b}})
			}
		}
	}
	ch := make(chan task)
	var wg sync.WaitGroup
	var mu sync.Mutex
	workers := runtime.GOMAXPROCS(0)
	for w := 0; w < workers; w++ {
		wg.Add(1)
		go func() {
			defer wg.Done()
			st := &batchStats{dist: map[distKey]struct{}{}}
			for t := range ch {
				work(st, t.k, t.prefix)
			}
			mu.Lock()
			total.merge(st)
			mu.Unlock()
		}()
	}
	for _, t := range tasks {
		ch <- t
	}
	close(ch)
	wg.Wait()

	run.Eval(int(total.calls))
	run.Count("batch_calls", total.calls)
	run.Count("batch_size_vectors", total.vectors)
	run.Count("batch_typed_vectors", total.typed)
	run.Count("batch_calls_that_split", total.split)
	run.Count("batch_multi_packet_batches_checked", total.multiChecked)
	run.Count("batch_single_packet_batches_over_maxpayload_allowed", total.singleOver)
	run.Count("batch_calls_websocket", total.wsCalls)
	run.Count("batch_calls_maxpayload0", total.unlimitedCalls)
	run.Count("batch_violating_calls", total.violCalls)
	run.Count("batch_violations_not_written_after_cap", rep.suppressed.Load())
	for d := range total.dist {
		tr := "polling"
		if d.ws {
			tr = "websocket"
		}
		run.Distinct(fmt.Sprintf("batch/%s/max=%d/k=%d/batches=%d/%s/empty=%t", tr, d.max, d.k, d.nb, []string{"text", "binary", "mixed"}[d.kind], d.hasEmptyData))
	}
	run.Note("batch_space", fmt.Sprintf("size vectors of length 1..%d over %v x %s x maxPayload 0..%d on polling (+ websocket with maxPayload 1 and 8)",
		maxK, alphabet, map[bool]string{true: "all 2^k text/binary assignments", false: "text/binary assignments {all text, all binary, alternating x2, middle pair}"}[allMasks], maxMP))
	if run.Thorough() {
		run.Exhaustive(true)
		run.Note("exhaustive_scope", "part 3 (batch splitter) only: the stated vector x type x maxPayload space is enumerated completely; parts 1 and 2 are finite size matrices")
	} else {
		run.Exhaustive(false)
	}
}

// ---------------------------------------------------------------------------------------------
// replay
// ---------------------------------------------------------------------------------------------

func replay(run *vk.Run, path string) {
	b, err := os.ReadFile(path)
	if err != nil {
		fmt.Println("replay:", err)
		os.Exit(2)
	}
	var rec struct {
		Witness struct {
			Replay map[string]any `json:"replay"`
		} `json:"witness"`
	}
	if err := json.Unmarshal(b, &rec); err != nil || rec.Witness.Replay == nil {
		fmt.Println("replay: no replay record in", path, err)
		os.Exit(2)
	}
	rp := rec.Witness.Replay
	num := func(k string) int64 { f, _ := rp[k].(float64); return int64(f) }
	str := func(k string) string { s, _ := rp[k].(string); return s }
	switch str("part") {
	case "enforce":
		e := &enforceEnv{run: run, lc: limitByName(str("limit"))}
		if err := e.start(); err != nil {
			fmt.Println("replay:", err)
			os.Exit(2)
		}
		e.trial(str("declared"), sizeSpec{num("size"), str("size_class")})
		e.srv.Close()
	case "accept":
		lc := limitByName(str("limit"))
		srv, sr, err := startServer(lc)
		if err != nil {
			fmt.Println("replay:", err)
			os.Exit(2)
		}
		a := &acceptEnv{run: run, lc: lc, transport: str("transport"), srv: srv, sr: sr}
		c, err := a.dial()
		if err != nil {
			fmt.Println("replay:", err)
			os.Exit(2)
		}
		bin, _ := rp["binary"].(bool)
		if a.sendOne(c, amsg{dir: str("dir"), binary: bin, n: int(num("data_len")), class: str("size_class")}) {
			a.finish(c)
		}
		srv.Close()
	case "accept-batched":
		lc := limitByName(str("limit"))
		srv, sr, err := startServer(lc)
		if err != nil {
			fmt.Println("replay:", err)
			os.Exit(2)
		}
		a := &acceptEnv{run: run, lc: lc, transport: "polling", srv: srv, sr: sr}
		c, err := a.dial()
		if err != nil {
			fmt.Println("replay:", err)
			os.Exit(2)
		}
		var lens []int
		for _, x := range rp["data_lens"].([]any) {
			lens = append(lens, int(x.(float64)))
		}
		if a.batched(c, lens) {
			a.finish(c)
		}
		srv.Close()
	case "batch":
		var sizes []int
		var bin []bool
		for _, x := range rp["sizes"].([]any) {
			sizes = append(sizes, int(x.(float64)))
		}
		for _, x := range rp["binary"].([]any) {
			bin = append(bin, x.(bool))
		}
		in := make([]*parser.Packet, len(sizes))
		for i, n := range sizes {
			in[i] = &parser.Packet{Type: parser.PacketTypeMessage, IsBinary: bin[i], Data: []byte(strings.Repeat("x", n))}
		}
		st := &batchStats{dist: map[distKey]struct{}{}}
		out := checkCall(&batchReporter{run: run}, st, in, int(num("max_payload")), str("transport"))
		_, types, shape, lens := describe(in, out)
		fmt.Printf("[C13] replay batch: data lengths %v (%s) maxPayload %d -> batches %v, encoded lengths %v\n", sizes, types, num("max_payload"), shape, lens)
	default:
		fmt.Println("replay: unknown part", str("part"))
		os.Exit(2)
	}
	if run.Violations() > 0 {
		fmt.Printf("[C13] replay: violation reproduced (%d)\n", run.Violations())
		os.Exit(1)
	}
	fmt.Println("[C13] replay: no violation")
	os.Exit(0)
}

// ---------------------------------------------------------------------------------------------

func main() {
	run := vk.Start("C13", "exploration")
	if *vk.FlagReplay != "" {
		replay(run, *vk.FlagReplay)
	}
	run.Rule("part 1 (enforce): limit L in {200, 4096, default 1e6, disabled; thorough + 100, 32768, 65536} x transport-level size in {L-1, L, L+1, 2L, 10L, seeded random <=L and >L; thorough + 2, L/2, L+2, 3L} (disabled: 32768..3e6) x declared as {POST with Content-Length, chunked POST, websocket text frame, websocket binary frame}, raw peer, fresh session per trial; " +
		"part 2 (accept): real Go client <-> real server, limit in {4096, default, disabled; thorough + 200, 32768, 70000} x {polling, websocket} x {c2s, s2c} x {text, binary} x size in {1,125,126,32767,32768,32769,65535,65536,65537,L-1,L, seeded random} (bounded by L; binary over polling bounded so that its base64 form fits), plus multi-packet Send calls over polling; " +
		"part 3 (batch): every vector of <= 6 (quick: 5) data lengths over {0,1,2,3,5,8,13} x every text/binary assignment x maxPayload 0..45 (quick: 0..30) through the real splitter. " +
		"distinct = part 1: (transport, declaration, limit, size class, outcome); part 2: (transport, direction, kind, size class, limit) that was delivered; " +
		"part 3: (transport, maxPayload, vector length, number of batches, text|binary|mixed, contains empty data) — the complete case counts are in counters.batch_*")
	run.Assume("message size = size as the transport sees it: POST body length (\"4\"+data; \"b\"+base64 for binary) for polling, frame length for websocket; a limit n admits exactly n bytes",
		"absence verdicts (not delivered / not closed / sender not refused) are drawn 15 s after the send; positive verdicts (oversized message handed to the callback, close callback on a within-limit message) are immediate",
		"text payloads are ASCII; a message is identified by (kind, length, FNV-64 of its content)",
		"binary over polling: only raw lengths whose base64 form fits the limit are sent (the limit applies to the encoded POST body)",
		"the raw peer (net/http + nhooyr websocket + refcodec) and the Go HTTP server's chunked decoding are trusted")

	t0 := time.Now()
	var wg sync.WaitGroup
	enfLimits := []limitCfg{mkLimit(200), mkLimit(4096), limDefault, limDisabled}
	accLimits := []limitCfg{mkLimit(4096), limDefault, limDisabled}
	if run.Thorough() {
		enfLimits = append(enfLimits, mkLimit(100), mkLimit(32768), mkLimit(65536))
		accLimits = append(accLimits, mkLimit(200), mkLimit(32768), mkLimit(70000))
	}
	for _, lc := range enfLimits {
		wg.Add(1)
		go func(lc limitCfg) { defer wg.Done(); runEnforce(run, lc, run.Pick(1, 5)) }(lc)
	}
	for _, lc := range accLimits {
		for _, tr := range []string{"polling", "websocket", "upgraded"} {
			wg.Add(1)
			go func(lc limitCfg, tr string) { defer wg.Done(); runAccept(run, lc, tr, run.Pick(1, 6)) }(lc, tr)
		}
	}
	wg.Wait()
	noteMu.Lock()
	run.Note("enforce_max_data_len_handed_to_server_callback_per_limit", maxReceived)
	noteMu.Unlock()
	run.Logf("parts 1+2 done after %.1fs", time.Since(t0).Seconds())

	runBatcher(run)
	run.Logf("part 3 done after %.1fs", time.Since(t0).Seconds())

	samples.flush(run)
	run.Finish()
}
