package main

import (
	"fmt"
	"os"
	"sync"
	"sync/atomic"
	"time"

	sio "github.com/karagenc/socket.io-go"
	"sioverif/internal/rig"
)

func main() {
	srv, err := rig.NewServer(nil, "")
	if err != nil {
		panic(err)
	}
	defer srv.Close()
	var mu sync.Mutex
	var got []int
	var slow atomic.Int64 // ms to delay the ack of events
	var conns atomic.Int64
	srv.IO.OnConnection(func(s sio.ServerSocket) {
		conns.Add(1)
		s.OnEvent("e", func(n int, ack func(int)) {
			mu.Lock()
			got = append(got, n); fmt.Printf("%s server got %d\n", time.Now().Format("05.000"), n)
			mu.Unlock()
			if d := slow.Load(); d > 0 {
				time.Sleep(time.Duration(d) * time.Millisecond)
			}
			ack(n * 10)
		})
		s.OnEvent("kick", func() { s.Disconnect(true) })
	})
	mc := rig.ManagerConfig("websocket")
	if os.Getenv("DBG") != "" {
		mc.Debugger = sio.NewPrintDebugger()
	}
	m := sio.NewManager(srv.URL, mc)
	cs := m.Socket("/", &sio.ClientSocketConfig{Retries: 1, AckTimeout: 1500 * time.Millisecond})
	connected := make(chan struct{}, 10)
	cs.OnConnect(func() { connected <- struct{}{} })
	cs.Connect()
	<-connected
	mode := "plain"
	if len(os.Args) > 1 {
		mode = os.Args[1]
	}
	var calls sync.Map
	N := 20
	emit := func(i int) {
		fmt.Printf("%s emit %d\n", time.Now().Format("05.000"), i)
		cs.Emit("e", i, func(err error, r int) {
			c, _ := calls.LoadOrStore(i, new(atomic.Int64))
			k := c.(*atomic.Int64).Add(1)
			fmt.Printf("%s ack i=%d err=%v r=%d call#%d\n", time.Now().Format("05.000"), i, err, r, k)
		})
	}
	switch mode {
	case "plain":
		for i := 0; i < N; i++ {
			emit(i)
		}
	case "reconnect":
		// first packet pending (server acks after 600 ms); connection dropped by the server meanwhile; reconnect quickly
		slow.Store(600)
		emit(0)
		time.Sleep(100 * time.Millisecond)
		slow.Store(0)
		// force a drop: close the engine
		cs.Emit("dummy")
		for i := 1; i < 6; i++ {
			emit(i)
		}
		time.Sleep(50 * time.Millisecond)
		for _, ss := range srv.IO.Sockets() {
			ss.Disconnect(true)
		}
		<-connected
		fmt.Println("reconnected")
	}
	time.Sleep(6 * time.Second)
	mu.Lock()
	fmt.Println("server got:", got, "conns", conns.Load())
	mu.Unlock()
	m.Close()
}
