// C17 — invalid Engine.IO requests get the protocol's error and create no session.
//
// Part A: the full request matrix method x EIO x transport x sid x b64 x jsonp (1600 cells) is
// sent over real loopback HTTP to a real Engine.IO server that holds one monitored live session
// (kept polling by an independent raw peer). Oracle per cell, from the Engine.IO v4 protocol:
// a request carrying one or more of the fault classes {unsupported version -> 5, unknown
// transport on a handshake -> 0, bad handshake method -> 2, unknown/closed sid -> 1} must get
// HTTP 400 + {"code":c,...} with c in the set of faults PRESENT (no precedence demanded); every
// cell but the plain valid polling handshake must leave the NewSocketCallback count, the session
// count and the monitored session (close callback, message delivery) untouched.
// The matrix runs twice: the live session on long-polling and on WebSocket.
// Part B: 1e5/1e6 ids from GenerateBase64ID (16 goroutines) and 500/2000 real handshakes are
// pairwise distinct; Close closes all of them and refuses later requests.
// Part C: handshakes racing Server.Close. (i) K polling handshakes at seeded offsets around one
// Close() behind a sleeping Authenticator (public option); (ii) WebSocket handshakes whose OPEN
// has reached the client, then Close() at once, with a NewSocketCallback that takes 0/1/3 ms.
// Counting oracle at quiescence (+ >= 15 s watchdog): every admitted session had its close
// callback invoked, session count 0, nothing admitted by a handshake that started after Close
// returned. The same facts are re-checked as porcupine histories against a 3-state model.
package main

import (
	"bufio"
	"bytes"
	"encoding/json"
	"fmt"
	"io"
	"math/rand"
	"net"
	"net/http"
	"net/url"
	"sort"
	"strconv"
	"strings"
	"sync"
	"sync/atomic"
	"time"

	"github.com/anishathalye/porcupine"
	eio "github.com/karagenc/socket.io-go/engine.io"
	eioparser "github.com/karagenc/socket.io-go/engine.io/parser"
	"nhooyr.io/websocket"

	"sioverif/internal/rawpeer"
	"sioverif/internal/refcodec"
	"sioverif/internal/rig"
	"sioverif/internal/vk"
)

var t0 = time.Now()

// now returns monotonic nanoseconds since process start (one clock for all recorders).
func now() int64 { return int64(time.Since(t0)) }

// ---------------------------------------------------------------------------
// session tracker: recorder behind NewSocketCallback / OnClose

type sess struct {
	sid      string
	sock     eio.ServerSocket
	openedAt int64
	closedAt int64 // 0 = close callback not invoked (guarded by tracker.mu)
	reason   string
	closes   int
}

type tracker struct {
	mu      sync.Mutex
	order   []*sess
	bySID   map[string]*sess
	dupLive []string      // sid handed to NewSocketCallback while a session with the same sid was live
	cbDelay time.Duration // an application whose NewSocketCallback takes this long (set before the server starts)
	reused  int           // sid handed out again after its first session was closed (allowed)
}

func newTracker() *tracker { return &tracker{bySID: map[string]*sess{}} }

func (t *tracker) onSocket(s eio.ServerSocket) *eio.Callbacks {
	rec := &sess{sid: s.ID(), sock: s, openedAt: now()}
	t.mu.Lock()
	if old, ok := t.bySID[rec.sid]; ok {
		if old.closedAt == 0 {
			t.dupLive = append(t.dupLive, rec.sid)
		} else {
			t.reused++
		}
	}
	t.bySID[rec.sid] = rec
	t.order = append(t.order, rec)
	t.mu.Unlock()
	if t.cbDelay > 0 {
		time.Sleep(t.cbDelay)
	}
	return &eio.Callbacks{OnClose: func(reason eio.Reason, err error) {
		at := now()
		t.mu.Lock()
		rec.closes++
		if rec.closedAt == 0 {
			rec.closedAt = at
			rec.reason = string(reason)
		}
		t.mu.Unlock()
	}}
}

func (t *tracker) opened() int { t.mu.Lock(); defer t.mu.Unlock(); return len(t.order) }

func (t *tracker) get(sid string) *sess { t.mu.Lock(); defer t.mu.Unlock(); return t.bySID[sid] }

func (t *tracker) closedInfo(s *sess) (closed bool, reason string) {
	t.mu.Lock()
	defer t.mu.Unlock()
	return s.closedAt != 0, s.reason
}

// open returns the sessions whose close callback has not been invoked.
func (t *tracker) open() []*sess {
	t.mu.Lock()
	defer t.mu.Unlock()
	var out []*sess
	for _, s := range t.order {
		if s.closedAt == 0 {
			out = append(out, s)
		}
	}
	return out
}

func (t *tracker) snapshot() (opened, closed int, dup []string) {
	t.mu.Lock()
	defer t.mu.Unlock()
	for _, s := range t.order {
		if s.closedAt != 0 {
			closed++
		}
	}
	return len(t.order), closed, append([]string(nil), t.dupLive...)
}

// ---------------------------------------------------------------------------
// plain HTTP helpers (independent of the repository's client)

func newClient(timeout time.Duration, perHost int) *http.Client {
	tr := &http.Transport{
		MaxIdleConnsPerHost: perHost,
		MaxIdleConns:        perHost * 2,
		DialContext:         (&net.Dialer{Timeout: 10 * time.Second}).DialContext,
	}
	return &http.Client{Transport: tr, Timeout: timeout,
		CheckRedirect: func(*http.Request, []*http.Request) error { return http.ErrUseLastResponse }}
}

type answer struct {
	Status int
	Body   []byte
	Err    string
}

// rawRequest writes the request line itself (Go's http.Client rewrites a CONNECT request into the
// authority form and drops path and query).
func rawRequest(method, u string) answer {
	pu, err := url.Parse(u)
	if err != nil {
		return answer{Err: err.Error()}
	}
	conn, err := net.DialTimeout("tcp", pu.Host, 5*time.Second)
	if err != nil {
		return answer{Err: err.Error()}
	}
	defer conn.Close()
	conn.SetDeadline(time.Now().Add(10 * time.Second))
	fmt.Fprintf(conn, "%s %s HTTP/1.1\r\nHost: %s\r\nConnection: close\r\n\r\n", method, pu.RequestURI(), pu.Host)
	resp, err := http.ReadResponse(bufio.NewReader(conn), &http.Request{Method: method})
	if err != nil {
		return answer{Err: err.Error()}
	}
	defer resp.Body.Close()
	b, _ := io.ReadAll(io.LimitReader(resp.Body, 1<<20))
	return answer{Status: resp.StatusCode, Body: b}
}

func request(cl *http.Client, method, u, body string) answer {
	if method == "CONNECT" {
		return rawRequest(method, u)
	}
	var rd io.Reader
	if body != "" {
		rd = strings.NewReader(body)
	}
	req, err := http.NewRequest(method, u, rd)
	if err != nil {
		return answer{Err: err.Error()}
	}
	if body != "" {
		req.Header.Set("Content-Type", "text/plain; charset=UTF-8")
	}
	resp, err := cl.Do(req)
	if err != nil {
		return answer{Err: err.Error()}
	}
	defer resp.Body.Close()
	b, err := io.ReadAll(io.LimitReader(resp.Body, 1<<20))
	if err != nil {
		return answer{Status: resp.StatusCode, Body: b, Err: err.Error()}
	}
	return answer{Status: resp.StatusCode, Body: b}
}

// jsUnescape undoes JavaScript string-literal escaping (JSONP bodies).
func jsUnescape(s string) (string, error) {
	var b strings.Builder
	for i := 0; i < len(s); i++ {
		c := s[i]
		if c != '\\' {
			b.WriteByte(c)
			continue
		}
		i++
		if i >= len(s) {
			return "", fmt.Errorf("dangling backslash")
		}
		switch s[i] {
		case 'n':
			b.WriteByte('\n')
		case 'r':
			b.WriteByte('\r')
		case 't':
			b.WriteByte('\t')
		case 'b':
			b.WriteByte('\b')
		case 'f':
			b.WriteByte('\f')
		case 'v':
			b.WriteByte('\v')
		case '0':
			b.WriteByte(0)
		case 'u':
			if i+4 >= len(s) {
				return "", fmt.Errorf("short \\u escape")
			}
			v, err := strconv.ParseUint(s[i+1:i+5], 16, 32)
			if err != nil {
				return "", err
			}
			b.WriteRune(rune(v))
			i += 4
		case 'x':
			if i+2 >= len(s) {
				return "", fmt.Errorf("short \\x escape")
			}
			v, err := strconv.ParseUint(s[i+1:i+3], 16, 8)
			if err != nil {
				return "", err
			}
			b.WriteByte(byte(v))
			i += 2
		default: // \" \' \\ \/ and anything else: the character itself
			b.WriteByte(s[i])
		}
	}
	return b.String(), nil
}

// parseOpen extracts the OPEN packet of a handshake response: a plain long-polling payload or
// the same payload wrapped as JSONP ( ___eio[j]("<js-escaped payload>"); ).
func parseOpen(body []byte) (rawpeer.OpenInfo, string, error) {
	var info rawpeer.OpenInfo
	try := func(b []byte) error {
		ps, err := refcodec.DecodePayload(b)
		if err != nil {
			return err
		}
		if len(ps) == 0 || ps[0].Type != refcodec.EOpen {
			return fmt.Errorf("first packet is not OPEN")
		}
		if err := json.Unmarshal(ps[0].Data, &info); err != nil {
			return err
		}
		if info.SID == "" {
			return fmt.Errorf("OPEN without sid")
		}
		return nil
	}
	err := try(body)
	if err == nil {
		return info, "plain", nil
	}
	s := string(body)
	if i, j := strings.Index(s, `("`), strings.LastIndex(s, `")`); i >= 0 && j > i+1 {
		inner, uerr := jsUnescape(s[i+2 : j])
		if uerr == nil {
			if err2 := try([]byte(inner)); err2 == nil {
				return info, "jsonp", nil
			}
		}
	}
	return info, "", err
}

// rawHandshake performs a plain valid polling handshake over net/http.
func rawHandshake(cl *http.Client, base string) (string, answer, error) {
	ans := request(cl, "GET", base+"?EIO=4&transport=polling", "")
	if ans.Err != "" {
		return "", ans, fmt.Errorf("%s", ans.Err)
	}
	if ans.Status != 200 {
		return "", ans, fmt.Errorf("status %d", ans.Status)
	}
	info, _, err := parseOpen(ans.Body)
	if err != nil {
		return "", ans, err
	}
	return info.SID, ans, nil
}

func clip(b []byte) string {
	if len(b) > 160 {
		return fmt.Sprintf("%q...(%d bytes)", b[:160], len(b))
	}
	return fmt.Sprintf("%q", b)
}

// plain renders a body for a witness (JSON-encoded later, so no extra quoting).
func plain(b []byte) string {
	if len(b) > 200 {
		return string(b[:200]) + fmt.Sprintf("...(%d bytes)", len(b))
	}
	return string(b)
}

// ---------------------------------------------------------------------------
// Part A: request matrix

const (
	sidAbsent  = "absent"
	sidUnknown = "unknown"
	sidLive    = "live"
	sidClosed  = "closed"
)

var (
	methods    = []string{"GET", "POST", "PUT", "DELETE", "OPTIONS", "PATCH", "CONNECT", "FOO"}
	eioVals    = []string{"", "3", "4", "5", "x"} // "" = parameter absent
	transports = []string{"", "polling", "websocket", "x"}
	sidKinds   = []string{sidAbsent, sidUnknown, sidLive, sidClosed}
	b64Vals    = []string{"", "1"}
	jVals      = []string{"", "0"}
)

// reference texts of the JavaScript reference server (informational only: the statement demands the code)
var refMessage = map[int]string{0: "Transport unknown", 1: "Session ID unknown", 2: "Bad handshake method",
	3: "Bad request", 4: "Forbidden", 5: "Unsupported protocol version"}

type cell struct{ Method, EIO, Transport, SID, B64, J string }

func show(v string) string {
	if v == "" {
		return "-"
	}
	return v
}

func (c cell) id() string {
	return fmt.Sprintf("%s EIO=%s transport=%s sid=%s b64=%s j=%s", c.Method, show(c.EIO), show(c.Transport), c.SID, show(c.B64), show(c.J))
}

// faults: the error codes of the fault classes the request carries (Engine.IO v4).
func (c cell) faults() []int {
	var f []int
	if c.SID == sidAbsent && c.Transport != "polling" && c.Transport != "websocket" {
		f = append(f, 0) // unknown transport (on a handshake)
	}
	if c.SID == sidUnknown || c.SID == sidClosed {
		f = append(f, 1) // unknown session id
	}
	if c.SID == sidAbsent && c.Method != "GET" {
		f = append(f, 2) // bad handshake method
	}
	if c.EIO != "4" {
		f = append(f, 5) // unsupported protocol version
	}
	return f
}

func (c cell) fullyValidHandshake() bool {
	return c.Method == "GET" && c.EIO == "4" && c.Transport == "polling" && c.SID == sidAbsent
}

func (c cell) url(base, sid string) string {
	q := url.Values{}
	if c.EIO != "" {
		q.Set("EIO", c.EIO)
	}
	if c.Transport != "" {
		q.Set("transport", c.Transport)
	}
	if sid != "" {
		q.Set("sid", sid)
	}
	if c.B64 != "" {
		q.Set("b64", c.B64)
	}
	if c.J != "" {
		q.Set("j", c.J)
	}
	return base + "?" + q.Encode()
}

// category of a cell that carries none of the four fault classes
func (c cell) category(liveTransport string) string {
	switch {
	case c.fullyValidHandshake():
		return "valid-polling-handshake"
	case c.SID == sidAbsent:
		return "websocket-handshake-without-upgrade-headers"
	default:
		return fmt.Sprintf("live(%s)-sid transport=%s %s", liveTransport, show(c.Transport), c.Method)
	}
}

type matrixEnv struct {
	run           *vk.Run
	pass          string
	liveTransport string
	srv           *rig.EIOServer
	tr            *tracker
	cl            *http.Client
	rnd           *rand.Rand
	m             *rawpeer.Client // the monitored live session
	mRec          *sess
	expOpened     int // NewSocketCallback invocations the harness accounts for
	msgSeq        int
	cellsRun      int
	skipped       int
	lastCell      string
	answers       map[string]int
	wantSamples   map[string]bool // answer-table keys of which the first cell is written to the evidence samples
	msgMatch      int
	msgDiffer     int
	broken        bool // the monitored session could not be re-opened: the rest of the matrix is not run
}

func (e *matrixEnv) dialMonitored() error {
	m, err := rawpeer.Dial(e.srv.URL, e.liveTransport)
	if err != nil {
		e.expOpened = e.tr.opened()
		return err
	}
	// Over WebSocket the server writes OPEN before it runs NewSocketCallback and stores the session: wait for both.
	if !vk.WaitUntil(20*time.Second, func() bool { return e.tr.get(m.Open.SID) != nil }) {
		e.expOpened = e.tr.opened()
		return fmt.Errorf("monitored session %s unknown to the NewSocketCallback recorder after 20 s", m.Open.SID)
	}
	e.expOpened++
	rec := e.tr.get(m.Open.SID)
	vk.WaitUntil(20*time.Second, func() bool { return e.srv.EIO.VerifSessionCount() >= 1 })
	e.m, e.mRec = m, rec
	return nil
}

func (e *matrixEnv) unknownSID() string {
	const alpha = "ABCDEFGHIJKLMNOPQRSTUVWXYZabcdefghijklmnopqrstuvwxyz0123456789-_"
	for {
		b := make([]byte, 20)
		for i := range b {
			b[i] = alpha[e.rnd.Intn(len(alpha))]
		}
		if e.tr.get(string(b)) == nil {
			return string(b)
		}
	}
}

// handshake opens a helper session with a plain valid handshake.
func (e *matrixEnv) handshake() (string, *sess, error) {
	sid, _, err := rawHandshake(e.cl, e.srv.URL)
	if err != nil {
		e.expOpened = e.tr.opened() // whatever the failed helper request did is not attributed to a cell
		return "", nil, err
	}
	e.expOpened++
	rec := e.tr.get(sid)
	if rec == nil {
		return "", nil, fmt.Errorf("helper session %s unknown to the NewSocketCallback recorder", sid)
	}
	return sid, rec, nil
}

// closedSID opens a session and closes it (by the server or by a CLOSE packet of the client)
// and waits until the store has dropped it.
func (e *matrixEnv) closedSID(byClient bool) (string, error) {
	base := e.srv.EIO.VerifSessionCount()
	sid, rec, err := e.handshake()
	if err != nil {
		return "", err
	}
	if byClient {
		ans := request(e.cl, "POST", e.srv.URL+"?EIO=4&transport=polling&sid="+url.QueryEscape(sid), "1")
		if ans.Err != "" || ans.Status != 200 {
			rec.sock.Close() // fall back, the cell only needs a closed sid
		}
		e.run.Count("closed_sid_by_client_close_packet", 1)
	} else {
		rec.sock.Close()
		e.run.Count("closed_sid_by_server_close", 1)
	}
	ok := vk.WaitUntil(20*time.Second, func() bool {
		c, _ := e.tr.closedInfo(rec)
		return c && e.srv.EIO.VerifSessionCount() <= base
	})
	if !ok {
		return "", fmt.Errorf("helper session %s did not go away within 20 s after being closed", sid)
	}
	return sid, nil
}

func fieldsOf(c cell, status any, code any) map[string]any {
	return map[string]any{"method": c.Method, "eio": show(c.EIO), "transport": show(c.Transport), "sid": c.SID,
		"b64": show(c.B64), "jsonp": show(c.J), "status": status, "code": code}
}

// checkMonitored: the monitored live session is still open and still delivers.
func (e *matrixEnv) checkMonitored(c cell, cid string, wit map[string]any) {
	closed, reason := e.tr.closedInfo(e.mRec)
	why := ""
	if closed {
		why = "its close callback fired (reason " + reason + ")"
	} else {
		e.msgSeq++
		data := fmt.Sprintf("alive-%d", e.msgSeq)
		after := e.m.LastSeq()
		p, _ := eioparser.NewPacket(eioparser.PacketTypeMessage, false, []byte(data))
		e.mRec.sock.Send(p)
		_, err := e.m.WaitFor(after, 20*time.Second, func(rx rawpeer.Rx) bool {
			return rx.P.Type == refcodec.EMessage && string(rx.P.Data) == data
		})
		switch {
		case err == nil:
			e.run.Count("monitored_session_delivery_ok", 1)
			if c2, r2 := e.tr.closedInfo(e.mRec); c2 {
				why = "its close callback fired (reason " + r2 + ")"
			}
		case err == rawpeer.ErrClosed:
			why = "its connection was closed (" + e.m.CloseReason() + ")"
		default:
			why = "a message the server sent to it afterwards was not delivered within 20 s"
		}
	}
	if why == "" {
		return
	}
	f := fieldsOf(c, "-", "-")
	delete(f, "status")
	delete(f, "code")
	e.run.Violation(vk.Violation{Sub: "live-session-altered", Fields: f,
		What: fmt.Sprintf("[%s] after request %s the monitored live session was altered: %s", e.pass, cid, why), Witness: wit})
	// continue with a fresh monitored session so that one alteration is reported once
	e.m.Abort()
	if err := e.dialMonitored(); err != nil {
		e.run.Inconclusive("matrix: cannot re-open the monitored session: " + err.Error())
		e.broken = true
	}
}

// lateEffects: NewSocketCallback invocations the harness cannot account for, seen at a cell boundary.
func (e *matrixEnv) lateEffects() {
	if n := e.tr.opened(); n != e.expOpened {
		e.run.Violation(vk.Violation{Sub: "session-created-by-invalid-request", Fields: map[string]any{"when": "after-response"},
			What:    fmt.Sprintf("[%s] NewSocketCallback ran %d time(s) more than the harness' valid handshakes account for, after the answer to %q was received", e.pass, n-e.expOpened, e.lastCell),
			Witness: map[string]any{"pass": e.pass, "last_cell": e.lastCell, "callbacks": n, "accounted": e.expOpened}})
		e.expOpened = n
	}
}

func (e *matrixEnv) runCell(no int, c cell) {
	run := e.run
	cid := c.id()
	e.lateEffects()
	faults := c.faults()
	valid := c.fullyValidHandshake()
	// A GET/POST that names a live polling session with the right version and transport is a
	// legitimate poll / data request: it goes to a throw-away session.
	legit := e.liveTransport == "polling" && c.SID == sidLive && c.EIO == "4" && c.Transport == "polling" && (c.Method == "GET" || c.Method == "POST")

	var sid string
	var throw *sess
	switch c.SID {
	case sidUnknown:
		sid = e.unknownSID()
	case sidClosed:
		s, err := e.closedSID(no%2 == 1)
		if err != nil {
			run.Inconclusive(fmt.Sprintf("[%s] cell %s: no closed sid: %v", e.pass, cid, err))
			e.skipped++
			return
		}
		sid = s
	case sidLive:
		if legit {
			s, rec, err := e.handshake()
			if err != nil {
				run.Inconclusive(fmt.Sprintf("[%s] cell %s: no throw-away session: %v", e.pass, cid, err))
				e.skipped++
				return
			}
			sid, throw = s, rec
			p, _ := eioparser.NewPacket(eioparser.PacketTypeMessage, false, []byte("queued"))
			rec.sock.Send(p) // so that a GET poll answers at once instead of parking
		} else {
			sid = e.m.Open.SID
		}
	}

	n0 := e.tr.opened()
	c0 := e.srv.EIO.VerifSessionCount()
	u := c.url(e.srv.URL, sid)
	ans := request(e.cl, c.Method, u, "")
	if ans.Err != "" && !valid && !legit {
		run.Count("matrix_request_retried", 1)
		ans = request(e.cl, c.Method, u, "")
	}
	n1 := e.tr.opened()
	c1 := e.srv.EIO.VerifSessionCount()
	run.Eval(1)
	run.Distinct(e.pass + " | " + cid)
	e.cellsRun++
	e.lastCell = cid

	var status any = ans.Status
	if ans.Err != "" {
		status = "no-answer"
	}
	var code any = "-"
	var se struct {
		Code    *int    `json:"code"`
		Message *string `json:"message"`
	}
	if ans.Status == 400 && json.Unmarshal(bytes.TrimSpace(ans.Body), &se) == nil && se.Code != nil {
		code = *se.Code
		if se.Message != nil && *se.Message == refMessage[*se.Code] {
			e.msgMatch++
		} else {
			e.msgDiffer++
		}
	}
	wit := map[string]any{"pass": e.pass, "cell": cid, "url": strings.TrimPrefix(u, e.srv.URL), "faults_present": faults,
		"status": status, "code": code, "body": plain(ans.Body), "error": ans.Err,
		"new_socket_callbacks": []int{n0, n1}, "session_count": []int{c0, c1}}

	key := fmt.Sprintf("faults=%v", faults)
	if len(faults) == 0 {
		key = c.category(e.liveTransport)
	}
	e.answers[fmt.Sprintf("%s -> %v/code=%v", key, status, code)]++
	if e.wantSamples[key] {
		delete(e.wantSamples, key)
		run.Sample(wit)
	}

	// 1. the answer
	if len(faults) > 0 {
		okCode := false
		if ci, isInt := code.(int); isInt {
			for _, f := range faults {
				okCode = okCode || f == ci
			}
		}
		if ans.Status == 400 && okCode {
			run.Count("matrix_fault_cells_answered_correctly", 1)
		} else {
			run.Violation(vk.Violation{Sub: "matrix-wrong-answer", Fields: fieldsOf(c, status, code),
				What:    fmt.Sprintf("[%s] %s carries fault code(s) %v but was answered with status %v, code %v, body %s %s", e.pass, cid, faults, status, code, clip(ans.Body), ans.Err),
				Witness: wit})
		}
	}

	// 2. sessions
	if valid {
		info, form, perr := parseOpen(ans.Body)
		switch {
		case ans.Err != "" || ans.Status != 200 || perr != nil:
			run.Violation(vk.Violation{Sub: "valid-handshake-refused", Fields: fieldsOf(c, status, code),
				What:    fmt.Sprintf("[%s] the valid handshake %s did not yield 200 + OPEN: status %v body %s (%v %s)", e.pass, cid, status, clip(ans.Body), perr, ans.Err),
				Witness: wit})
			e.expOpened = n1
		default:
			e.expOpened++
			run.Count("valid_handshake_"+form, 1)
			vk.WaitUntil(5*time.Second, func() bool {
				return e.tr.get(info.SID) != nil && e.tr.opened() == n0+1 && e.srv.EIO.VerifSessionCount() == c0+1
			})
			n1, c1 = e.tr.opened(), e.srv.EIO.VerifSessionCount()
			rec := e.tr.get(info.SID)
			if n1 != n0+1 || c1 != c0+1 || rec == nil {
				run.Violation(vk.Violation{Sub: "valid-handshake-session-count", Fields: fieldsOf(c, status, code),
					What:    fmt.Sprintf("[%s] %s returned OPEN sid=%s but NewSocketCallback count went %d->%d, session count %d->%d, recorder knows sid: %v", e.pass, cid, info.SID, n0, n1, c0, c1, rec != nil),
					Witness: wit})
				e.expOpened = n1
			}
			if info.SID == e.m.Open.SID {
				run.Violation(vk.Violation{Sub: "duplicate-live-sid", Fields: map[string]any{"part": "matrix"},
					What: fmt.Sprintf("[%s] %s handed out the sid of the live monitored session", e.pass, cid), Witness: wit})
			}
			if rec != nil {
				rec.sock.Close()
				if !vk.WaitUntil(20*time.Second, func() bool { return e.srv.EIO.VerifSessionCount() <= c0 }) {
					run.Inconclusive(fmt.Sprintf("[%s] session of %s did not go away after ServerSocket.Close", e.pass, cid))
				}
			}
		}
	} else {
		if n1 != n0 || c1 > c0 {
			run.Violation(vk.Violation{Sub: "session-created-by-invalid-request", Fields: fieldsOf(c, status, code),
				What:    fmt.Sprintf("[%s] %s is not a valid handshake but NewSocketCallback count went %d->%d and the session count %d->%d", e.pass, cid, n0, n1, c0, c1),
				Witness: wit})
			e.expOpened = n1
			for _, s := range e.tr.open() { // clean up so that the following cells start from the baseline
				if s != e.mRec && s != throw {
					s.sock.Close()
				}
			}
		}
		low := c0
		if legit {
			low = c0 - 1 // a legitimate (empty) data request may end the throw-away session
		}
		if c1 < low {
			f := fieldsOf(c, status, code)
			f["what"] = "session-disappeared"
			run.Violation(vk.Violation{Sub: "live-session-altered", Fields: f,
				What: fmt.Sprintf("[%s] %s: session count dropped %d->%d", e.pass, cid, c0, c1), Witness: wit})
		}
	}

	// 3. the monitored live session
	e.checkMonitored(c, cid, wit)

	if throw != nil {
		throw.sock.Close()
		base := c0 - 1
		if !vk.WaitUntil(20*time.Second, func() bool { return e.srv.EIO.VerifSessionCount() <= base }) {
			run.Inconclusive(fmt.Sprintf("[%s] throw-away session of %s did not go away", e.pass, cid))
		}
	}
}

func runMatrix(run *vk.Run, liveTransport string, rep int, samples []string) {
	pass := "live-session-on-" + liveTransport
	tr := newTracker()
	// short heartbeat: a request that parks on a live session is released within 4 s
	srv, err := rig.NewEIOServer(tr.onSocket, &eio.ServerConfig{PingInterval: 2 * time.Second, PingTimeout: 2 * time.Second})
	if err != nil {
		run.Inconclusive("matrix: cannot start server: " + err.Error())
		return
	}
	defer srv.Close()
	e := &matrixEnv{run: run, pass: pass, liveTransport: liveTransport, srv: srv, tr: tr, cl: newClient(20*time.Second, 8),
		rnd: run.Rand(fmt.Sprintf("c17-matrix-%s-%d", liveTransport, rep)), answers: map[string]int{}, wantSamples: map[string]bool{}}
	for _, k := range samples {
		e.wantSamples[k] = true
	}
	if err := e.dialMonitored(); err != nil {
		run.Inconclusive("matrix: cannot open the monitored session: " + err.Error())
		return
	}
	var cells []cell
	for _, m := range methods {
		for _, v := range eioVals {
			for _, t := range transports {
				for _, s := range sidKinds {
					for _, b := range b64Vals {
						for _, j := range jVals {
							cells = append(cells, cell{m, v, t, s, b, j})
						}
					}
				}
			}
		}
	}
	e.rnd.Shuffle(len(cells), func(i, j int) { cells[i], cells[j] = cells[j], cells[i] })
	for i, c := range cells {
		if e.broken {
			break
		}
		e.runCell(i, c)
	}
	// quiescent end state: nothing but the monitored session, every callback accounted for
	time.Sleep(300 * time.Millisecond)
	e.lateEffects()
	if n := srv.EIO.VerifSessionCount(); n != 1 {
		if !vk.WaitUntil(5*time.Second, func() bool { return srv.EIO.VerifSessionCount() == 1 }) {
			run.Violation(vk.Violation{Sub: "session-created-by-invalid-request", Fields: map[string]any{"when": "end-of-matrix"},
				What:    fmt.Sprintf("[%s] %d sessions are live after the matrix, expected only the monitored one", pass, srv.EIO.VerifSessionCount()),
				Witness: map[string]any{"pass": pass, "session_count": n}})
		}
	}
	_, _, dup := tr.snapshot()
	if len(dup) > 0 {
		run.Violation(vk.Violation{Sub: "duplicate-live-sid", Fields: map[string]any{"part": "matrix"},
			What: fmt.Sprintf("[%s] sid(s) %v were handed to NewSocketCallback while a session with the same sid was live", pass, dup), Witness: dup})
	}
	run.Count("matrix_cells_"+liveTransport, int64(e.cellsRun))
	run.Count("matrix_error_message_equals_reference_text", int64(e.msgMatch))
	run.Count("matrix_error_message_differs_from_reference_text", int64(e.msgDiffer))
	if rep == 0 {
		run.Note("matrix_answers_"+pass, e.answers)
	}
	run.Logf("matrix %s: %d cells run, %d skipped, %d answer classes", pass, e.cellsRun, e.skipped, len(e.answers))
	if e.cellsRun != len(cells) {
		matrixComplete = false
	}
	e.m.Abort()
}

var matrixComplete = true

// ---------------------------------------------------------------------------
// Part B: id uniqueness

func idUniqueness(run *vk.Run) {
	n := run.Pick(100000, 1000000)
	const g = 16
	parts := make([][]string, g)
	errs := make([]error, g)
	var wg sync.WaitGroup
	for w := 0; w < g; w++ {
		wg.Add(1)
		go func(w int) {
			defer wg.Done()
			cnt := n / g
			if w < n%g {
				cnt++
			}
			out := make([]string, 0, cnt)
			for i := 0; i < cnt; i++ {
				id, err := eio.GenerateBase64ID(eio.Base64IDSize)
				if err != nil {
					errs[w] = err
					break
				}
				out = append(out, id)
			}
			parts[w] = out
		}(w)
	}
	wg.Wait()
	for _, err := range errs {
		if err != nil {
			run.Inconclusive("GenerateBase64ID returned an error: " + err.Error())
		}
	}
	all := make([]string, 0, n)
	for _, p := range parts {
		all = append(all, p...)
	}
	lengths := map[int]int{}
	for _, id := range all {
		lengths[len(id)]++
	}
	sort.Strings(all)
	var dups []string
	for i := 1; i < len(all); i++ {
		if all[i] == all[i-1] && len(dups) < 10 {
			dups = append(dups, all[i])
		}
	}
	run.Eval(len(all))
	run.Count("generated_ids", int64(len(all)))
	run.Note("generated_id_lengths", lengths)
	run.Distinct(fmt.Sprintf("generated-ids n=%d goroutines=%d", len(all), g))
	if len(dups) > 0 {
		run.Violation(vk.Violation{Sub: "duplicate-generated-id", Fields: map[string]any{},
			What: fmt.Sprintf("GenerateBase64ID returned the same id twice among %d ids: %v", len(all), dups), Witness: dups})
	}
	if len(all) > 0 {
		run.Sample(map[string]any{"part": "B", "generated_ids": len(all), "first_sorted": all[0], "last_sorted": all[len(all)-1], "duplicates": len(dups)})
	}
}

func handshakeUniqueness(run *vk.Run) {
	n := run.Pick(500, 2000)
	nws := run.Pick(16, 64)
	tr := newTracker()
	srv, err := rig.NewEIOServer(tr.onSocket, nil) // default heartbeat (25 s + 20 s): no session ends on its own during this part
	if err != nil {
		run.Inconclusive("handshake uniqueness: cannot start server: " + err.Error())
		return
	}
	defer srv.Close()
	cl := newClient(30*time.Second, 16)
	var mu sync.Mutex
	var sids []string
	failed := 0
	jobs := make(chan int, n)
	for i := 0; i < n; i++ {
		jobs <- i
	}
	close(jobs)
	var wg sync.WaitGroup
	for w := 0; w < 16; w++ {
		wg.Add(1)
		go func() {
			defer wg.Done()
			for range jobs {
				sid, _, err := rawHandshake(cl, srv.URL)
				mu.Lock()
				if err != nil {
					failed++
				} else {
					sids = append(sids, sid)
				}
				mu.Unlock()
			}
		}()
	}
	wg.Wait()
	var peers []*rawpeer.Client
	for i := 0; i < nws; i++ {
		p, err := rawpeer.Dial(srv.URL, "websocket")
		if err != nil {
			failed++
			continue
		}
		peers = append(peers, p)
		sids = append(sids, p.Open.SID)
	}
	if failed > 0 {
		run.Inconclusive(fmt.Sprintf("handshake uniqueness: %d of %d handshakes failed", failed, n+nws))
	}
	run.Eval(len(sids))
	run.Count("real_handshakes_polling", int64(len(sids)-len(peers)))
	run.Count("real_handshakes_websocket", int64(len(peers)))
	run.Distinct(fmt.Sprintf("real-handshakes polling=%d websocket=%d all live", len(sids)-len(peers), len(peers)))
	seen := map[string]int{}
	for _, s := range sids {
		seen[s]++
	}
	var dups []string
	for s, k := range seen {
		if k > 1 {
			dups = append(dups, s)
		}
	}
	// Over WebSocket OPEN reaches the client before the server has run NewSocketCallback and stored the session:
	// wait until every handshake handler is through, so that this part is free of any race with Close.
	vk.WaitUntil(20*time.Second, func() bool { return tr.opened() >= len(sids) && srv.EIO.VerifSessionCount() >= len(sids) })
	opened, closedBefore, dupLive := tr.snapshot()
	live := srv.EIO.VerifSessionCount()
	wit := map[string]any{"handshakes": len(sids), "distinct_sids": len(seen), "new_socket_callbacks": opened, "closed_before_Close": closedBefore, "session_count": live}
	if len(dups) > 0 || len(dupLive) > 0 {
		run.Violation(vk.Violation{Sub: "duplicate-live-sid", Fields: map[string]any{"part": "handshakes"},
			What: fmt.Sprintf("%d handshakes yielded only %d distinct sids while all sessions were live (duplicates %v / %v)", len(sids), len(seen), dups, dupLive), Witness: wit})
	}
	if closedBefore == 0 && (live != len(sids) || opened != len(sids)) {
		run.Violation(vk.Violation{Sub: "handshake-session-count", Fields: map[string]any{},
			What: fmt.Sprintf("%d accepted handshakes but %d NewSocketCallback invocations and %d live sessions", len(sids), opened, live), Witness: wit})
	}
	for _, s := range sids {
		if tr.get(s) == nil {
			run.Violation(vk.Violation{Sub: "handshake-session-count", Fields: map[string]any{"what": "sid-unknown-to-callback"},
				What: "OPEN carried sid " + s + " that NewSocketCallback never saw", Witness: wit})
			break
		}
	}
	run.Sample(map[string]any{"part": "B", "real_handshakes": wit})

	// "once the server is closed ... all existing ones are closed", without any race
	srv.EIO.Close()
	closeRet := now()
	clean := vk.WaitUntil(15*time.Second, func() bool { return len(tr.open()) == 0 && srv.EIO.VerifSessionCount() == 0 })
	if !clean {
		left := tr.open()
		run.Violation(vk.Violation{Sub: "not-closed-by-close", Fields: map[string]any{"race": "none"},
			What:    fmt.Sprintf("15 s after Close() returned %d of %d sessions have not had their close callback invoked; session count %d", len(left), opened, srv.EIO.VerifSessionCount()),
			Witness: map[string]any{"open": len(left), "close_returned_ns": closeRet}})
	} else {
		run.Count("sessions_closed_by_quiescent_Close", int64(opened))
	}
	ans := request(cl, "GET", srv.URL+"?EIO=4&transport=polling", "")
	if _, _, err := parseOpen(ans.Body); ans.Status == 200 && err == nil {
		run.Violation(vk.Violation{Sub: "admitted-after-close", Fields: map[string]any{"race": "none"},
			What: "a handshake sent after Close() returned was answered with 200 + OPEN", Witness: map[string]any{"body": clip(ans.Body)}})
	} else {
		run.Count("handshake_after_close_refused", 1)
		run.Note("answer_to_handshake_after_close", fmt.Sprintf("status %d body %s %s", ans.Status, clip(ans.Body), ans.Err))
	}
	if len(sids) > 0 {
		pcl := newClient(10*time.Second, 2)
		ans := request(pcl, "GET", srv.URL+"?EIO=4&transport=polling&sid="+url.QueryEscape(sids[0]), "")
		switch {
		case ans.Status == 200:
			run.Violation(vk.Violation{Sub: "poll-served-after-close", Fields: map[string]any{"race": "none"},
				What: "a poll with the sid of a session that existed before Close() was answered with 200 after Close() returned", Witness: map[string]any{"body": clip(ans.Body)}})
		case ans.Err != "":
			run.Inconclusive("poll after Close got no answer: " + ans.Err)
		default:
			run.Count("poll_after_close_refused", 1)
		}
	}
	for _, p := range peers {
		p.Abort()
	}
}

// ---------------------------------------------------------------------------
// Part C: requests racing Server.Close

// raceServer is a real Engine.IO server behind its own loopback listener, like rig.EIOServer, plus a
// counter of HTTP handlers that are inside Server.ServeHTTP. "No handler in flight" is the logical
// barrier of part C: a polling handshake handler has returned (NewSocketCallback and the store are behind
// it), a WebSocket handler returns only when its connection is no longer served. Without it the
// emptiness of recorder and store right after Close() is vacuous for a WebSocket handshake whose OPEN is
// written before NewSocketCallback is entered.
type raceServer struct {
	EIO      *eio.Server
	HTTP     *http.Server
	URL      string
	inflight atomic.Int64
	once     sync.Once
}

func newRaceServer(onSocket eio.NewSocketCallback, cfg *eio.ServerConfig) (*raceServer, error) {
	if cfg.WebSocketAcceptOptions == nil {
		cfg.WebSocketAcceptOptions = &websocket.AcceptOptions{CompressionMode: websocket.CompressionDisabled}
	}
	s := &raceServer{EIO: eio.NewServer(onSocket, cfg)}
	if err := s.EIO.Run(); err != nil {
		return nil, err
	}
	l, err := rig.ListenLoopback()
	if err != nil {
		return nil, err
	}
	mux := http.NewServeMux()
	mux.HandleFunc("/engine.io/", func(w http.ResponseWriter, r *http.Request) {
		s.inflight.Add(1)
		defer s.inflight.Add(-1)
		s.EIO.ServeHTTP(w, r)
	})
	s.URL = "http://" + l.Addr().String() + "/engine.io/"
	s.HTTP = &http.Server{Handler: mux}
	go s.HTTP.Serve(l)
	return s, nil
}

// Close (after the verdict only: it calls Server.Close a second time).
func (s *raceServer) Close() {
	s.once.Do(func() {
		s.EIO.Close()
		s.HTTP.Close()
	})
}

type hsRec struct {
	I      int    `json:"i"`
	Via    string `json:"transport"`
	Start  int64  `json:"start_us"` // relative to the start of the round
	End    int64  `json:"end_us"`
	Status int    `json:"status"`
	SID    string `json:"sid,omitempty"`
	Err    string `json:"err,omitempty"`
	start  int64
	end    int64
}

type roundState struct {
	idx        int
	kind       string // "polling-handshakes-racing-close" | "websocket-open-then-close(...)"
	peers      []*rawpeer.Client
	srv        *raceServer
	tr         *tracker
	authMs     int
	k          int
	roundStart int64
	closeCall  int64
	closeRet   int64
	allRet     int64
	hs         []hsRec
	probes     []string
}

func sleepUntil(t time.Time) {
	if d := time.Until(t); d > 0 {
		time.Sleep(d)
	}
}

func closeRaceRound(run *vk.Run, idx int, rnd *rand.Rand) *roundState {
	authChoices := []int{1, 2, 3, 5, 8}
	authMs := authChoices[rnd.Intn(len(authChoices))]
	if idx%6 == 5 {
		authMs = 0 // default Authenticator: the natural (narrow) window
	}
	k := 16
	if run.Thorough() {
		k = 8 + rnd.Intn(25)
	}
	tr := newTracker()
	// long heartbeat: within the watchdog no session may end through a ping timeout instead of through Close
	cfg := &eio.ServerConfig{PingInterval: 120 * time.Second, PingTimeout: 120 * time.Second}
	authDelay := time.Duration(authMs) * time.Millisecond
	if authMs > 0 {
		cfg.Authenticator = func(w http.ResponseWriter, r *http.Request) bool { time.Sleep(authDelay); return true }
	}
	srv, err := newRaceServer(tr.onSocket, cfg)
	if err != nil {
		run.Inconclusive("close race: cannot start server: " + err.Error())
		return nil
	}
	rs := &roundState{idx: idx, kind: "polling-handshakes-racing-close", srv: srv, tr: tr, authMs: authMs, k: k, hs: make([]hsRec, k)}
	// a handshake lasts about dur; Close is called in the middle third of the start offsets
	dur := authDelay + time.Millisecond
	closeOff := dur + time.Duration(rnd.Int63n(int64(dur)))
	offs := make([]time.Duration, k)
	for i := range offs {
		offs[i] = time.Duration(rnd.Int63n(int64(3 * dur)))
	}
	cl := newClient(30*time.Second, k)
	hsURL := srv.URL + "?EIO=4&transport=polling"
	begin := time.Now().Add(2 * time.Millisecond)
	rs.roundStart = now() + int64(2*time.Millisecond)
	var wg sync.WaitGroup
	for i := 0; i < k; i++ {
		wg.Add(1)
		go func(i int) {
			defer wg.Done()
			sleepUntil(begin.Add(offs[i]))
			r := hsRec{I: i, Via: "polling"}
			r.start = now()
			ans := request(cl, "GET", hsURL, "")
			r.end = now()
			r.Status, r.Err = ans.Status, ans.Err
			if ans.Status == 200 && ans.Err == "" {
				if info, _, err := parseOpen(ans.Body); err == nil {
					r.SID = info.SID
				} else {
					r.Err = "200 without OPEN: " + clip(ans.Body)
				}
			}
			rs.hs[i] = r
		}(i)
	}
	wg.Add(1)
	go func() {
		defer wg.Done()
		sleepUntil(begin.Add(closeOff))
		rs.closeCall = now()
		srv.EIO.Close()
		rs.closeRet = now()
	}()
	wg.Wait() // logical quiescence of the workload: Close and every request have returned
	rs.allRet = now()
	for i := range rs.hs {
		rs.hs[i].Start = (rs.hs[i].start - rs.roundStart) / 1000
		rs.hs[i].End = (rs.hs[i].end - rs.roundStart) / 1000
	}

	// (1) nothing is admitted by a handshake that started after Close() returned
	for _, h := range rs.hs {
		if h.start > rs.closeRet && h.SID != "" {
			run.Violation(vk.Violation{Sub: "admitted-after-close", Fields: map[string]any{"race": "close"},
				What:    fmt.Sprintf("round %d: handshake %d started %d us after Close() had returned and was answered with 200 + OPEN sid=%s", idx, h.I, (h.start-rs.closeRet)/1000, h.SID),
				Witness: rs.witness(nil)})
		}
	}
	// a poll with an admitted sid must be refused now that Close() has returned
	probed := 0
	for _, h := range rs.hs {
		if h.SID == "" || probed >= 3 {
			continue
		}
		probed++
		ans := request(cl, "GET", srv.URL+"?EIO=4&transport=polling&sid="+url.QueryEscape(h.SID), "")
		rs.probes = append(rs.probes, fmt.Sprintf("%s -> %d %s", h.SID, ans.Status, ans.Err))
		switch {
		case ans.Status == 200:
			run.Violation(vk.Violation{Sub: "poll-served-after-close", Fields: map[string]any{"race": "close"},
				What: fmt.Sprintf("round %d: a poll with admitted sid %s was answered with 200 after Close() had returned: %s", idx, h.SID, clip(ans.Body)), Witness: rs.witness(nil)})
		case ans.Err != "":
			run.Inconclusive(fmt.Sprintf("round %d: poll probe got no answer: %s", idx, ans.Err))
		default:
			run.Count("close_race_poll_probe_refused", 1)
		}
	}
	// release the listener; the Engine.IO server object (and whatever it still holds) stays for the verdict.
	// NOT the server's own Close(): a second Server.Close() would sweep the store again and hide a leak.
	// (http.Server.Close closes the listener and idle connections only; no handler is interrupted.)
	srv.HTTP.Close()
	if t, ok := cl.Transport.(*http.Transport); ok {
		t.CloseIdleConnections()
	}
	return rs
}

// wsThenCloseRound: K WebSocket handshakes complete as seen by the client (OPEN received), then Close() is
// called at once. The server writes OPEN before it runs NewSocketCallback and stores the session, so the
// handler may still be in flight; the sessions were nevertheless admitted and must be closed.
func wsThenCloseRound(run *vk.Run, idx int, rnd *rand.Rand) *roundState {
	k := 1 + rnd.Intn(4)
	tr := newTracker()
	cbMs := []int{0, 1, 3}[idx%3] // 0: the natural window (a few instructions)
	tr.cbDelay = time.Duration(cbMs) * time.Millisecond
	srv, err := newRaceServer(tr.onSocket, &eio.ServerConfig{PingInterval: 120 * time.Second, PingTimeout: 120 * time.Second})
	if err != nil {
		run.Inconclusive("close race (ws): cannot start server: " + err.Error())
		return nil
	}
	rs := &roundState{idx: idx, kind: fmt.Sprintf("websocket-open-then-close(NewSocketCallback takes %d ms)", cbMs), srv: srv, tr: tr, k: k, hs: make([]hsRec, k)}
	rs.roundStart = now()
	peers := make([]*rawpeer.Client, k)
	var wg sync.WaitGroup
	for i := 0; i < k; i++ {
		wg.Add(1)
		go func(i int) {
			defer wg.Done()
			r := hsRec{I: i, Via: "websocket"}
			r.start = now()
			p, err := rawpeer.Dial(srv.URL, "websocket")
			r.end = now()
			if err != nil {
				r.Err = err.Error()
			} else {
				r.Status, r.SID = 101, p.Open.SID
				peers[i] = p
			}
			rs.hs[i] = r
		}(i)
	}
	wg.Wait()
	rs.closeCall = now()
	srv.EIO.Close()
	rs.closeRet = now()
	rs.allRet = rs.closeRet
	for i := range rs.hs {
		rs.hs[i].Start = (rs.hs[i].start - rs.roundStart) / 1000
		rs.hs[i].End = (rs.hs[i].end - rs.roundStart) / 1000
	}
	// The peers stay connected until the verdict: a client that goes away would end its session
	// through a transport close and hide that Close() missed it.
	rs.peers = peers
	return rs
}

func (rs *roundState) witness(leaked []string) map[string]any {
	return map[string]any{"round": rs.idx, "kind": rs.kind, "authenticator_sleep_ms": rs.authMs, "handshakes": rs.hs,
		"close_called_us": (rs.closeCall - rs.roundStart) / 1000, "close_returned_us": (rs.closeRet - rs.roundStart) / 1000,
		"all_requests_returned_us": (rs.allRet - rs.roundStart) / 1000, "poll_probes": rs.probes, "never_closed_sids": leaked}
}

func phaseOf(h hsRec, rs *roundState) string {
	switch {
	case h.end < rs.closeCall:
		return "completed-before-close-was-called"
	case h.start > rs.closeRet:
		return "started-after-close-returned"
	default:
		return "overlapping-close"
	}
}

func (rs *roundState) clean() bool {
	// no handler in flight first: only then is "nothing open, nothing stored" a fact about this round's handshakes
	return rs.srv.inflight.Load() == 0 && len(rs.tr.open()) == 0 && rs.srv.EIO.VerifSessionCount() == 0
}

func bucket(n int) string {
	switch {
	case n == 0:
		return "0"
	case n <= 2:
		return "1-2"
	case n <= 7:
		return "3-7"
	default:
		return "8+"
	}
}

// lifecycle model for porcupine: one partition per admitted session.
// state 0 = server open, session not there; 1 = server open, session live; 2 = server closed (no live session).
type lcIn struct{ op string }

var lifecycleModel = porcupine.Model{
	Init: func() interface{} { return 0 },
	Step: func(state, input, output interface{}) (bool, interface{}) {
		st := state.(int)
		switch input.(lcIn).op {
		case "handshake":
			if output.(string) == "admitted" {
				return st == 0, 1
			}
			return true, st // a refusal is always allowed
		case "close":
			return true, 2
		case "probe":
			if output.(string) == "live" {
				return st == 1, st
			}
			return st != 1, st
		}
		return false, st
	},
	DescribeOperation: func(in, out interface{}) string { return fmt.Sprintf("%s -> %v", in.(lcIn).op, out) },
}

// evaluate decides a round after the global watchdog. probeAt is the time of the final observation.
func (rs *roundState) evaluate(run *vk.Run, probeAt int64) {
	opened, closed, dup := rs.tr.snapshot()
	live := rs.srv.EIO.VerifSessionCount()
	run.Eval(1)
	run.Count("close_race_rounds", 1)
	run.Count("close_race_handshakes", int64(rs.k))
	run.Count("close_race_admitted", int64(opened))
	run.Count("close_race_admitted_and_closed", int64(closed))
	byHTTP := map[string]hsRec{}
	nBefore, nOverlap, nAfter, n200, nRefused, nErr := 0, 0, 0, 0, 0, 0
	for _, h := range rs.hs {
		switch {
		case h.end < rs.closeCall:
			nBefore++
		case h.start > rs.closeRet:
			nAfter++
		default:
			nOverlap++
		}
		switch {
		case h.SID != "":
			n200++
			byHTTP[h.SID] = h
		case h.Err != "":
			nErr++
		default:
			nRefused++
		}
	}
	run.Count("close_race_handshakes_completed_before_close", int64(nBefore))
	run.Count("close_race_handshakes_overlapping_close", int64(nOverlap))
	run.Count("close_race_handshakes_started_after_close_returned", int64(nAfter))
	run.Count("close_race_client_received_open", int64(n200))
	run.Count("close_race_client_refused", int64(nRefused))
	if nErr > 0 {
		run.Count("close_race_client_no_answer", int64(nErr))
	}
	for sid := range byHTTP {
		if rs.tr.get(sid) == nil {
			// allowed in a race with Close: the server may refuse a handshake whose OPEN is already on the wire
			// without ever running NewSocketCallback (the client then holds an OPEN for a session that never was)
			run.Count("close_race_open_without_new_socket_callback", 1)
		}
	}
	if len(dup) > 0 {
		run.Violation(vk.Violation{Sub: "duplicate-live-sid", Fields: map[string]any{"part": "close-race"},
			What: fmt.Sprintf("round %d: sid(s) %v handed out twice while live", rs.idx, dup), Witness: rs.witness(nil)})
	}

	// (2) counting oracle: every admitted session has been closed, the store is empty
	left := rs.tr.open()
	if n := rs.srv.inflight.Load(); n != 0 && len(left) == 0 && live == 0 {
		run.Inconclusive(fmt.Sprintf("round %d (%s): %d handler(s) still in flight at the verdict although no session is open or stored", rs.idx, rs.kind, n))
	}
	type leakClass struct{ phase, via string }
	leakedByPhase := map[leakClass][]string{}
	for _, s := range left {
		cls := leakClass{"unmapped", "unknown"}
		if h, ok := byHTTP[s.sid]; ok {
			cls = leakClass{phaseOf(h, rs), h.Via}
		}
		leakedByPhase[cls] = append(leakedByPhase[cls], s.sid)
	}
	outcome := "clean"
	if len(left) > 0 || live != 0 {
		outcome = "leaked"
	}
	run.Distinct(fmt.Sprintf("close-race %s auth=%dms before=%s overlapping=%s after=%s admitted=%s outcome=%s",
		rs.kind, rs.authMs, bucket(nBefore), bucket(nOverlap), bucket(nAfter), bucket(opened), outcome))
	for cls, sids := range leakedByPhase {
		cbAfter := 0
		for _, sid := range sids {
			if s := rs.tr.get(sid); s != nil && s.openedAt > rs.closeRet {
				cbAfter++
			}
		}
		run.Count("close_race_never_closed_sessions", int64(len(sids)))
		run.Violation(vk.Violation{Sub: "admitted-during-close-never-closed", Fields: map[string]any{"handshake": cls.phase, "transport": cls.via},
			What: fmt.Sprintf("round %d (%s; Authenticator sleeps %d ms, %d handshakes): %d session(s) were admitted over %s (NewSocketCallback ran, for %d of them after Close() had returned; as seen by the client the handshake %s) "+
				"and their close callback was not invoked %d s after Close() and all requests had returned; admitted=%d closed=%d session count=%d",
				rs.idx, rs.kind, rs.authMs, rs.k, len(sids), cls.via, cbAfter, cls.phase, (probeAt-rs.allRet)/1e9, opened, closed, live),
			Witness: rs.witness(sids)})
	}
	if len(left) == 0 && live != 0 {
		run.Violation(vk.Violation{Sub: "store-not-empty-after-close", Fields: map[string]any{},
			What: fmt.Sprintf("round %d: all %d admitted sessions had their close callback invoked but the session count is %d", rs.idx, opened, live), Witness: rs.witness(nil)})
	}

	// the same as linearizability of (handshake, close, probe) per admitted session
	rs.tr.mu.Lock()
	recs := append([]*sess(nil), rs.tr.order...)
	closedAt := map[string]int64{}
	for _, s := range recs {
		closedAt[s.sid] = s.closedAt
	}
	rs.tr.mu.Unlock()
	illegal := 0
	for _, s := range recs {
		call, ret := rs.roundStart-int64(time.Millisecond), rs.allRet // widest interval when the request cannot be identified
		if h, ok := byHTTP[s.sid]; ok {
			call, ret = h.start, h.end
		}
		obs := "gone"
		if closedAt[s.sid] == 0 {
			obs = "live"
		}
		hist := []porcupine.Operation{
			{ClientId: 0, Input: lcIn{"handshake"}, Output: "admitted", Call: call, Return: ret},
			{ClientId: 1, Input: lcIn{"close"}, Output: "ok", Call: rs.closeCall, Return: rs.closeRet},
			{ClientId: 2, Input: lcIn{"probe"}, Output: obs, Call: probeAt, Return: probeAt + 1},
		}
		res := porcupine.CheckOperationsTimeout(lifecycleModel, hist, 60*time.Second)
		run.Count("porcupine_partitions", 1)
		switch res {
		case porcupine.Illegal:
			illegal++
		case porcupine.Unknown:
			run.Inconclusive(fmt.Sprintf("round %d: porcupine timed out", rs.idx))
		}
	}
	run.Count("porcupine_illegal_partitions", int64(illegal))
	if illegal > 0 && len(left) == 0 {
		// only admitted-after-close can make a partition illegal when everything was closed; that was reported under (1)
		after := 0
		for _, h := range rs.hs {
			if h.start > rs.closeRet && h.SID != "" {
				after++
			}
		}
		if after == 0 {
			run.Violation(vk.Violation{Sub: "lifecycle-not-linearizable", Fields: map[string]any{},
				What: fmt.Sprintf("round %d: %d session histories (handshake, close, probe) are not linearizable although the counting oracle is satisfied", rs.idx, illegal), Witness: rs.witness(nil)})
		}
	}
	if illegal != len(left) && len(left) > 0 {
		run.Note(fmt.Sprintf("round_%d_oracle_disagreement", rs.idx), fmt.Sprintf("porcupine illegal=%d, never closed=%d", illegal, len(left)))
	}
}

func closeRace(run *vk.Run) {
	rounds := run.Pick(30, 300)
	rnd := run.Rand("c17-close-race")
	var all []*roundState
	for i := 0; i < rounds; i++ {
		if rs := closeRaceRound(run, i, rnd); rs != nil {
			all = append(all, rs)
		}
	}
	wsRounds := run.Pick(30, 300)
	for i := 0; i < wsRounds; i++ {
		if rs := wsThenCloseRound(run, rounds+i, rnd); rs != nil {
			all = append(all, rs)
		}
	}
	// Absence verdict: logical quiescence was reached in every round (Close and all requests returned);
	// now the watchdog: up to 15 s for every admitted session to be reported closed.
	waited := time.Now()
	vk.WaitUntil(15*time.Second, func() bool {
		for _, rs := range all {
			if !rs.clean() {
				return false
			}
		}
		return true
	})
	run.Note("close_race_watchdog_waited_ms", time.Since(waited).Milliseconds())
	probeAt := now()
	leakedRounds, sampled := 0, 0
	var perRound []string
	for _, rs := range all {
		rs.evaluate(run, probeAt)
		opened, closed, _ := rs.tr.snapshot()
		if len(perRound) < 40 {
			perRound = append(perRound, fmt.Sprintf("r%d auth=%dms k=%d admitted=%d closed=%d live=%d", rs.idx, rs.authMs, rs.k, opened, closed, rs.srv.EIO.VerifSessionCount()))
		}
		if opened != closed {
			leakedRounds++
		}
		if sampled < 2 && (opened != closed || rs.idx < 1) {
			sampled++
			run.Sample(map[string]any{"part": "C", "admitted": opened, "closed": closed, "round": rs.witness(nil)})
		}
	}
	run.Note("close_race_rounds_admitted_closed", perRound)
	run.Count("close_race_rounds_with_never_closed_session", int64(leakedRounds))
	// diagnosis only (after the verdict): does a second Close() sweep the left-over sessions?
	swept, notSwept := 0, 0
	for _, rs := range all {
		if !rs.clean() && swept+notSwept < 5 { // a bounded number of rounds: this is a diagnosis, not a verdict
			rs.srv.EIO.Close()
			if vk.WaitUntil(2*time.Second, rs.clean) {
				swept++
			} else {
				notSwept++
			}
		}
		for _, p := range rs.peers {
			if p != nil {
				p.Abort()
			}
		}
		rs.srv.Close()
	}
	if swept+notSwept > 0 {
		run.Note("diagnosis_second_Close_call", fmt.Sprintf("a second Server.Close() closed the left-over sessions in %d of the %d leaking rounds tried (they were in the store, only missed by the first sweep)", swept, swept+notSwept))
	}
}

func main() {
	run := vk.Start("C17", "exploration")
	run.Rule("A: every cell of method{GET,POST,PUT,DELETE,OPTIONS} x EIO{-,3,4,5,x} x transport{-,polling,websocket,x} x sid{absent,unknown,live,closed} x b64{-,1} x j{-,0} " +
		"(1600 cells) sent over loopback HTTP to a real server, once with the live session on long-polling and once on WebSocket; distinct = pass + cell id. " +
		"B: generated ids / real handshakes checked pairwise distinct; distinct = one per population. " +
		"C: per round a fresh server, K polling handshakes at seeded offsets around one Server.Close behind a sleeping Authenticator, or 1-4 WebSocket handshakes followed at once by Close with a NewSocketCallback taking 0/1/3 ms; " +
		"distinct = (round kind, Authenticator delay, #handshakes completed before / overlapping / started after Close (bucketed), #admitted (bucketed), outcome)")
	run.Assume(
		"fault classes and codes from the Engine.IO v4 protocol / reference server: unsupported version 5, unknown transport (handshake only) 0, bad handshake method 2, unknown sid 1; where several coincide any of their codes is accepted",
		"cells without any of the four fault classes (live sid with another transport / odd method, websocket handshake without upgrade headers) are checked for side-effect freedom only; a GET/POST naming a live polling session with EIO=4&transport=polling is a legitimate request and goes to a throw-away session",
		"NewSocketCallback / OnClose invocations are recorded under one mutex; the session count is the store size (VerifSessionCount, build tag verif)",
		"'never closed' is concluded only after Close() and every request of the round have returned and no HTTP handler of the round's server is in flight (counted by a wrapper around Server.ServeHTTP), plus a 15 s watchdog; heartbeat timeouts (240 s) cannot end a session within that time",
		"in a race with Close a client may hold an OPEN whose session the server never created (no NewSocketCallback): allowed, counted only",
		"Server.Close is called exactly once per server before the verdict (the rig's own Close would sweep the store a second time)")

	// Part A (thorough: three different cell orders per pass)
	for rep := 0; rep < run.Pick(1, 3); rep++ {
		var s1, s2 []string
		if rep == 0 {
			s1 = []string{"faults=[0]", "faults=[1]", "faults=[2]", "faults=[0 2]", "valid-polling-handshake", "live(polling)-sid transport=websocket GET"}
			s2 = []string{"faults=[1 5]", "live(websocket)-sid transport=polling POST"}
		}
		runMatrix(run, "polling", rep, s1)
		runMatrix(run, "websocket", rep, s2)
	}
	run.Exhaustive(matrixComplete)

	// Part B
	idUniqueness(run)
	handshakeUniqueness(run)

	// Part C
	closeRace(run)

	run.Finish()
}
