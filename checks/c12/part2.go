package main

import (
	"errors"
	"fmt"
	"math/rand"
	"reflect"
	"strings"
	"sync"
	"time"

	sio "github.com/karagenc/socket.io-go"

	"sioverif/internal/gen"
	"sioverif/internal/rawpeer"
	"sioverif/internal/refcodec"
	"sioverif/internal/rig"
	"sioverif/internal/vk"
)

// ---------- the space ----------

type sigSpec struct {
	Name      string
	Event     string
	FirstKind string // none | string | int | struct | binary
	HasAck    bool
}

var sigs = []sigSpec{
	{"()", "ev:none", "none", false},
	{"(string)", "ev:string", "string", false},
	{"(int)", "ev:int", "int", false},
	{"(S1)", "ev:struct", "struct", false},
	{"(string,ack func(string))", "ev:string+ack", "string", true},
	{"(int,ack func(int))", "ev:int+ack", "int", true},
	{"(Binary)", "ev:binary", "binary", false},
}

func (s *sigSpec) args(uid int) []any {
	switch s.FirstKind {
	case "string":
		return []any{fmt.Sprintf("s%d \"q\" ü", uid)}
	case "int":
		return []any{uid}
	case "struct":
		return []any{gen.S1{A: uid, B: fmt.Sprintf("b%d", uid)}}
	case "binary":
		return []any{sio.Binary(fmt.Sprintf("bin-%d\x00\xff", uid))}
	}
	return nil
}

func (s *sigSpec) wantAck(uid int) any {
	if s.FirstKind == "string" {
		return "re:" + s.args(uid)[0].(string)
	}
	return uid + 1
}

// uidOf recovers the emission id from handler arguments (ok=false for the empty signature).
func (s *sigSpec) uidOf(args []any) (uid int, ok bool) {
	if len(args) == 0 {
		return 0, false
	}
	switch v := args[0].(type) {
	case string:
		_, err := fmt.Sscanf(v, "s%d", &uid)
		return uid, err == nil
	case int:
		return v, true
	case gen.S1:
		return v.A, true
	case sio.Binary:
		_, err := fmt.Sscanf(string(v), "bin-%d", &uid)
		return uid, err == nil
	}
	return 0, false
}

type p2Spec struct {
	Nsp       string
	M         int // number of event middlewares
	Rej       int // index of the middleware that rejects every event; -1 = all accept
	Kind      string
	Transport string
	Reps      int
	Seed      int64
}

func (s p2Spec) id() string {
	rej := "none"
	if s.Rej >= 0 {
		rej = fmt.Sprint(s.Rej)
	}
	return fmt.Sprintf("p2/mw=%d/rej=%s/nsp=%s/%s/%s", s.M, rej, s.Nsp, s.Kind, s.Transport)
}

func part2Jobs(run *vk.Run, race bool) []func() {
	var specs []p2Spec
	rounds := run.Pick(1, 6)
	reps := run.Pick(2, 6)
	if race {
		rounds, reps = 1, 1
	}
	i := 0
	for round := 0; round < rounds; round++ {
		for m := 0; m <= 3; m++ {
			for rej := -1; rej < m; rej++ {
				for _, nsp := range []string{"/", "/custom"} {
					for _, kind := range []string{"go", "raw"} {
						i++
						var transports []string
						switch {
						case race:
							if nsp == "/custom" {
								continue
							}
							transports = []string{"websocket"}
						case run.Thorough():
							transports = []string{"websocket", "polling"}
							if kind == "go" {
								transports = append(transports, "polling+websocket")
							}
						default:
							transports = []string{"websocket"}
							if i%3 == 0 {
								transports = []string{"polling"}
							}
						}
						for _, tr := range transports {
							specs = append(specs, p2Spec{Nsp: nsp, M: m, Rej: rej, Kind: kind, Transport: tr, Reps: reps})
						}
					}
				}
			}
		}
	}
	r := run.Rand("c12/p2/order")
	shuffle(r, specs)
	for i := range specs {
		specs[i].Seed = r.Int63()
	}
	jobs := make([]func(), len(specs))
	for i := range specs {
		s := specs[i]
		jobs[i] = func() { runP2(run, s) }
	}
	run.Note("p2_sockets_planned", len(specs))
	return jobs
}

// ---------- recording ----------

type mwCall struct {
	seq          int64
	idx          int
	name         string
	args         []any // canonical, without a trailing function
	trailingFunc bool
	ret          string // "" = nil
}

type hCall struct {
	seq  int64
	sig  *sigSpec
	args []any
}

type emission struct {
	uid   int
	sig   *sigSpec
	args  []any
	canon []any
	ackID uint64

	emitted  bool
	emitSeq  int64
	timedOut bool
	mws      []mwCall
	hs       []hCall
	errs     []string
	ackN     int
	ackVal   any
}

type p2State struct {
	spec p2Spec
	run  *vk.Run
	srv  *rig.Server

	mu     sync.Mutex
	seq    int64
	cur    *emission
	byUID  map[int]*emission
	ems    []*emission
	stray  []string
	log    []string
	closed bool

	peer     *rawpeer.SIO
	mgr      *sio.Manager
	sock     sio.ClientSocket
	fsock    sio.ClientSocket
	ackSeq   uint64
	fenceErr error
	fenced   bool
	fenceN   uint64
}

func (st *p2State) tick(format string, a ...any) int64 {
	st.seq++
	if len(st.log) < 400 {
		st.log = append(st.log, fmt.Sprintf("%d ", st.seq)+fmt.Sprintf(format, a...))
	}
	return st.seq
}

func isFunc(v any) bool { return v != nil && reflect.TypeOf(v).Kind() == reflect.Func }

func (st *p2State) onMW(i int, name string, v []any) error {
	st.mu.Lock()
	defer st.mu.Unlock()
	c := mwCall{idx: i, name: name}
	if n := len(v); n > 0 && isFunc(v[n-1]) {
		c.trailingFunc = true
		v = v[:n-1]
	}
	c.args = canonList(v)
	e := st.attribute(name, v)
	uid := -1
	if e != nil {
		uid = e.uid
	}
	if i == st.spec.Rej {
		c.ret = fmt.Sprintf("event rejected by event-middleware %d <uid %d>", i, uid)
	}
	c.seq = st.tick("event-mw%d(name=%q, args=%s, trailing_func=%v) -> %q   [during uid %d]", i, name, show(c.args), c.trailingFunc, c.ret, uid)
	if e != nil {
		e.mws = append(e.mws, c)
	} else {
		st.stray = append(st.stray, "middleware call with no emission outstanding")
	}
	if c.ret != "" {
		return errors.New(c.ret)
	}
	return nil
}

// attribute finds the emission a server-side callback belongs to (st.mu held). When the
// callback names a registered event and its arguments carry an emission id, that emission;
// for the argument-less signature the latest emission of it; otherwise (a middleware that was
// not told the event name) the one emission that is in flight on this socket.
func (st *p2State) attribute(name string, args []any) *emission {
	for i := range sigs {
		sig := &sigs[i]
		if sig.Event != name {
			continue
		}
		if uid, ok := sig.uidOf(args); ok {
			if x := st.byUID[uid]; x != nil && x.sig == sig {
				return x
			}
		}
		if sig.FirstKind == "none" {
			var last *emission
			for _, e := range st.ems {
				if e.emitted && e.sig == sig && (last == nil || e.emitSeq > last.emitSeq) {
					last = e
				}
			}
			if last != nil {
				return last
			}
		}
	}
	return st.cur
}

func (st *p2State) onHandler(sig *sigSpec, args []any) {
	st.mu.Lock()
	defer st.mu.Unlock()
	e := st.attribute(sig.Event, args)
	h := hCall{sig: sig, args: canonList(args)}
	uid := -1
	if e != nil {
		uid = e.uid
	}
	h.seq = st.tick("handler %s %s(%s)   [uid %d]", sig.Name, sig.Event, show(h.args), uid)
	if e != nil {
		e.hs = append(e.hs, h)
	} else {
		st.stray = append(st.stray, "handler call with no emission outstanding")
	}
}

func (st *p2State) onError(err error) {
	st.mu.Lock()
	defer st.mu.Unlock()
	e := st.cur
	// a rejection returned by one of our middlewares names its emission
	if i := strings.LastIndex(err.Error(), "<uid "); i >= 0 {
		var n int
		if _, perr := fmt.Sscanf(err.Error()[i:], "<uid %d>", &n); perr == nil && st.byUID[n] != nil {
			e = st.byUID[n]
		}
	}
	uid := -1
	if e != nil {
		uid = e.uid
	}
	st.tick("OnError(%q)   [during uid %d]", err.Error(), uid)
	if e != nil {
		e.errs = append(e.errs, err.Error())
	} else {
		st.stray = append(st.stray, "OnError with no emission outstanding: "+err.Error())
	}
}

func (st *p2State) onAck(e *emission, v any) {
	st.mu.Lock()
	defer st.mu.Unlock()
	e.ackN++
	if e.ackN == 1 {
		e.ackVal = canonArg(v)
	}
	st.tick("client: ack for uid %d = %s", e.uid, show(e.ackVal))
}

func (st *p2State) onConnection(s sio.ServerSocket) {
	s.OnError(st.onError)
	for i := 0; i < st.spec.M; i++ {
		i := i
		s.Use(func(eventName string, v ...any) error { return st.onMW(i, eventName, v) })
	}
	s.OnEvent(sigs[0].Event, func() { st.onHandler(&sigs[0], nil) })
	s.OnEvent(sigs[1].Event, func(a string) { st.onHandler(&sigs[1], []any{a}) })
	s.OnEvent(sigs[2].Event, func(a int) { st.onHandler(&sigs[2], []any{a}) })
	s.OnEvent(sigs[3].Event, func(a gen.S1) { st.onHandler(&sigs[3], []any{a}) })
	s.OnEvent(sigs[4].Event, func(a string, ack func(string)) {
		st.onHandler(&sigs[4], []any{a})
		ack("re:" + a)
	})
	s.OnEvent(sigs[5].Event, func(a int, ack func(int)) {
		st.onHandler(&sigs[5], []any{a})
		ack(a + 1)
	})
	s.OnEvent(sigs[6].Event, func(b sio.Binary) { st.onHandler(&sigs[6], []any{b}) })
	s.Emit("ready")
}

var p2UID struct {
	mu sync.Mutex
	n  int
}

func nextUID() int {
	p2UID.mu.Lock()
	defer p2UID.mu.Unlock()
	p2UID.n++
	return p2UID.n
}

// ---------- running one socket ----------

func runP2(run *vk.Run, spec p2Spec) {
	srv, err := rig.NewServer(&sio.ServerConfig{ConnectTimeout: 10 * time.Minute}, "")
	if err != nil {
		run.Inconclusive(spec.id() + ": " + err.Error())
		return
	}
	st := &p2State{spec: spec, run: run, srv: srv, byUID: map[int]*emission{}}
	srv.IO.Of(spec.Nsp).OnConnection(st.onConnection)
	srv.IO.Of("/fence").OnConnection(func(s sio.ServerSocket) {
		s.OnEvent("fence", func(ack func()) { ack() })
		s.Emit("ready")
	})
	r := rand.New(rand.NewSource(spec.Seed))
	for rep := 0; rep < spec.Reps; rep++ {
		for i := range sigs {
			uid := nextUID()
			e := &emission{uid: uid, sig: &sigs[i], args: sigs[i].args(uid)}
			e.canon = canonList(e.args)
			st.ems = append(st.ems, e)
			st.byUID[uid] = e
		}
	}
	shuffle(r, st.ems)

	if err := st.connect(); err != nil {
		run.Inconclusive(spec.id() + ": " + err.Error())
		st.close()
		return
	}
	wait := shortWait()
	for _, e := range st.ems {
		st.mu.Lock()
		st.cur = e
		e.emitted = true
		e.emitSeq = st.tick("client: emit uid %d %s %s(%s)", e.uid, e.sig.Name, e.sig.Event, show(e.canon))
		st.mu.Unlock()
		st.emit(e)
		if !vk.WaitUntil(wait, func() bool { return st.outcome(e) }) {
			st.mu.Lock()
			e.timedOut = true
			st.mu.Unlock()
			break // at most one emission without an outcome per socket: attribution stays unambiguous
		}
	}
	st.fence()
	if st.allPositive() {
		st.finish(modeComplete)
		return
	}
	// Something expected is missing (no outcome at all, or "OnError but no handler run" for an
	// event nobody rejected). Claiming that it never happens needs the quiescence wait.
	if !park(&parkedCase{what: spec.id(), resolved: st.allPositive, finish: st.finish}, !st.resolved()) {
		st.finish(modeCapped)
	}
}

// allPositive: every emitted event ended the way the model prescribes, by positive observation
// (rejected by a middleware + error reported + handler silent so far; or handler ran and, for
// ack signatures, the reply arrived). No absence claim is needed to judge such a socket.
func (st *p2State) allPositive() bool {
	st.refreshRawAcks()
	st.mu.Lock()
	defer st.mu.Unlock()
	for _, e := range st.ems {
		if !e.emitted {
			return false
		}
		rejected := false
		for _, c := range e.mws {
			rejected = rejected || c.ret != ""
		}
		switch {
		case rejected:
			if len(e.errs) == 0 {
				return false
			}
		case st.spec.Rej >= 0:
			return false // the rejecting middleware did not get to reject
		default:
			if len(e.hs) == 0 || (e.sig.HasAck && e.ackN == 0) {
				return false
			}
		}
	}
	return true
}

func (st *p2State) connect() error {
	spec := st.spec
	if spec.Kind == "raw" {
		p, err := dialFenced(st.srv.URL, spec.Transport)
		if err != nil {
			return err
		}
		st.peer = p
		res, err := p.Connect(spec.Nsp, map[string]any{"role": "p2"}, fenceTimeout)
		if err != nil || !res.OK {
			return fmt.Errorf("connect: %v %+v", err, res)
		}
		if _, _, err := p.WaitPacket(0, fenceTimeout, func(q *refcodec.Packet) bool {
			return q.Namespace == spec.Nsp && rawpeer.EventName(q) == "ready"
		}); err != nil {
			return fmt.Errorf("ready: %w", err)
		}
		// one more round trip before the first emission (see dialFenced)
		st.fence()
		return st.fenceErr
	}
	mcfg := rig.ManagerConfig(strings.Split(spec.Transport, "+")...)
	mcfg.NoReconnection = true
	m := sio.NewManager(st.srv.URL, mcfg)
	st.mgr = m
	fready, ready := make(chan struct{}, 4), make(chan struct{}, 4)
	st.fsock = m.Socket("/fence", nil)
	st.fsock.SetAuth(map[string]any{"role": "fence"})
	st.fsock.OnEvent("ready", func() { fready <- struct{}{} })
	st.fsock.Connect()
	select {
	case <-fready:
	case <-time.After(fenceTimeout):
		return errors.New("go client: fence namespace not ready")
	}
	st.sock = m.Socket(spec.Nsp, nil)
	st.sock.SetAuth(map[string]any{"role": "p2"})
	st.sock.OnEvent("ready", func() { ready <- struct{}{} })
	st.sock.Connect()
	select {
	case <-ready:
	case <-time.After(fenceTimeout):
		return errors.New("go client: socket not ready")
	}
	// one more round trip before the first emission (see dialFenced)
	st.fence()
	return st.fenceErr
}

func (st *p2State) emit(e *emission) {
	if st.peer != nil {
		var id *uint64
		if e.sig.HasAck {
			st.ackSeq++
			v := 1000 + st.ackSeq
			e.ackID = v
			id = &v
		}
		st.peer.Emit(st.spec.Nsp, id, e.sig.Event, e.canon...)
		return
	}
	args := append([]any{}, e.args...)
	if e.sig.HasAck {
		if e.sig.FirstKind == "string" {
			args = append(args, func(r string) { st.onAck(e, r) })
		} else {
			args = append(args, func(r int) { st.onAck(e, r) })
		}
	}
	st.sock.Emit(e.sig.Event, args...)
}

func (st *p2State) refreshRawAcks() {
	if st.peer == nil {
		return
	}
	counts := map[uint64]int{}
	vals := map[uint64]any{}
	for _, sp := range st.peer.Packets() {
		if sp.P.Namespace != st.spec.Nsp || sp.P.ID == nil || (sp.P.Type != refcodec.Ack && sp.P.Type != refcodec.BinaryAck) {
			continue
		}
		counts[*sp.P.ID]++
		if counts[*sp.P.ID] == 1 {
			if a := rawpeer.Args(sp.P); len(a) == 1 {
				vals[*sp.P.ID] = a[0]
			} else {
				vals[*sp.P.ID] = a
			}
		}
	}
	st.mu.Lock()
	for _, e := range st.ems {
		if e.ackID != 0 {
			e.ackN, e.ackVal = counts[e.ackID], vals[e.ackID]
		}
	}
	st.mu.Unlock()
}

// outcome: the emission visibly terminated (handler ran and, for ack signatures, the reply
// arrived; or an error was reported on the server socket).
func (st *p2State) outcome(e *emission) bool {
	st.refreshRawAcks()
	st.mu.Lock()
	defer st.mu.Unlock()
	return len(e.errs) > 0 || (len(e.hs) > 0 && (!e.sig.HasAck || e.ackN > 0))
}

func (st *p2State) resolved() bool {
	for _, e := range st.ems {
		st.mu.Lock()
		em := e.emitted
		st.mu.Unlock()
		if em && !st.outcome(e) {
			return false
		}
	}
	return true
}

// fence: an acked round trip on the same connection after the last emission.
func (st *p2State) fence() {
	var err error
	if st.peer != nil {
		st.fenceN++
		err = rawFenceAgain(st.peer, 100+st.fenceN, fenceTimeout)
	} else {
		done := make(chan struct{})
		st.fsock.Emit("fence", func() { close(done) })
		select {
		case <-done:
		case <-time.After(fenceTimeout):
			err = errors.New("go client fence not acked")
		}
	}
	st.mu.Lock()
	st.fenceErr, st.fenced = err, err == nil
	st.mu.Unlock()
}

func (st *p2State) close() {
	st.mu.Lock()
	if st.closed {
		st.mu.Unlock()
		return
	}
	st.closed = true
	st.mu.Unlock()
	if st.peer != nil {
		st.peer.C.Close()
	}
	if st.mgr != nil {
		st.mgr.Close()
	}
	st.srv.Close()
}

// ---------- verdicts ----------

func (st *p2State) finish(mode judgeMode) {
	defer st.close()
	if mode == modeFinal {
		st.fence() // a second barrier after the shared wait
	}
	st.refreshRawAcks()
	run, spec := st.run, st.spec
	st.mu.Lock()
	defer st.mu.Unlock()

	for _, s := range st.stray {
		run.Violation(vk.Violation{Sub: "event-callback-unattributed", Fields: map[string]any{"part": "event", "client_kind": spec.Kind},
			What: spec.id() + ": " + s, Witness: map[string]any{"socket": spec.id(), "log": st.log}})
	}
	notEmitted := 0
	for _, e := range st.ems {
		if !e.emitted {
			notEmitted++
			continue
		}
		run.Eval(1)
		verdict := st.judgeEmission(e, mode)
		rej := "none"
		if spec.Rej >= 0 {
			rej = fmt.Sprint(spec.Rej)
		}
		run.Distinct(fmt.Sprintf("p2/sig=%s/mw=%d/rej=%s/%s/%s", e.sig.Name, spec.M, rej, spec.Kind, verdict))
		run.Count("p2_verdict_"+verdict, 1)
		st.sample(e, verdict)
	}
	if notEmitted > 0 {
		run.Count("p2_not_emitted_after_an_emission_without_outcome", int64(notEmitted))
	}
	run.Count("p2_sockets", 1)
}

func (st *p2State) emissionLog(e *emission) []string {
	var out []string
	tag := fmt.Sprintf("uid %d", e.uid)
	for _, l := range st.log {
		if strings.Contains(l, tag+"]") || strings.Contains(l, tag+" ") || strings.HasSuffix(l, tag) {
			out = append(out, l)
		}
	}
	return out
}

func (st *p2State) judgeEmission(e *emission, mode judgeMode) (verdict string) {
	run, spec := st.run, st.spec
	fields := func(extra map[string]any) map[string]any {
		f := map[string]any{"part": "event", "signature": e.sig.Name, "first_arg_kind": e.sig.FirstKind, "client_kind": spec.Kind}
		for k, v := range extra {
			f[k] = v
		}
		return f
	}
	viol := func(sub string, extra map[string]any, what string) {
		run.Violation(vk.Violation{Sub: sub, Fields: fields(extra),
			What: fmt.Sprintf("%s: %s %s: %s", spec.id(), e.sig.Name, e.sig.Event, what),
			Witness: map[string]any{"socket": spec.id(), "seed": spec.Seed, "spec_p2": spec, "uid": e.uid, "signature": e.sig.Name, "event": e.sig.Event,
				"emitted_args": show(e.canon), "middlewares": spec.M, "rejecting_middleware": spec.Rej, "log": st.emissionLog(e)}})
	}
	expectRej := spec.Rej >= 0
	lastMW := spec.M - 1
	if expectRej {
		lastMW = spec.Rej
	}

	// middleware calls: order, name, arguments
	loggedRej := ""
	for pos, c := range e.mws {
		switch {
		case expectRej && c.idx > spec.Rej:
			viol("event-mw-after-rejection", nil, fmt.Sprintf("event middleware %d was called after middleware %d had rejected the event", c.idx, spec.Rej))
		case c.idx != pos:
			viol("event-mw-out-of-order", nil, fmt.Sprintf("%d-th event middleware invocation was middleware %d", pos, c.idx))
		}
		if c.ret != "" && loggedRej == "" {
			loggedRej = c.ret
		}
		if c.name != e.sig.Event {
			note := ""
			if len(e.canon) > 0 {
				if s, ok := e.canon[0].(string); ok && s == c.name {
					note = " — that is the event's FIRST ARGUMENT"
				}
			}
			viol("event-mw-wrong-name", nil, fmt.Sprintf("event middleware %d received eventName=%q, the emitted event name is %q%s", c.idx, c.name, e.sig.Event, note))
		}
		if d := refcodec.Equal(any(e.canon), any(c.args)); d != "" {
			viol("event-mw-wrong-args", map[string]any{"emitted_n": len(e.canon), "seen_n": len(c.args)},
				fmt.Sprintf("event middleware %d saw %d argument(s) %s (trailing ack function: %v); emitted were %d argument(s) %s; first difference %s",
					c.idx, len(c.args), show(c.args), c.trailingFunc, len(e.canon), show(e.canon), d))
		}
	}
	called := map[int]int64{}
	for _, c := range e.mws {
		if _, ok := called[c.idx]; !ok {
			called[c.idx] = c.seq
		}
	}
	allCalledBefore := func(t int64) (int, bool) {
		for i := 0; i <= lastMW; i++ {
			if s, ok := called[i]; !ok || s > t {
				return i, false
			}
		}
		return 0, true
	}

	// handler calls
	for i, h := range e.hs {
		if h.sig != e.sig {
			viol("event-misrouted", nil, fmt.Sprintf("handler of %s ran for this emission", h.sig.Event))
		}
		if d := refcodec.Equal(any(e.canon), any(h.args)); d != "" {
			viol("event-handler-wrong-args", nil, fmt.Sprintf("handler received %s, emitted %s (%s)", show(h.args), show(e.canon), d))
		}
		if loggedRej != "" {
			viol("event-handler-after-rejection", nil, fmt.Sprintf("handler ran although an event middleware returned %q", loggedRej))
		} else if mwi, ok := allCalledBefore(h.seq); !ok {
			viol("event-mw-skipped", map[string]any{"expected": map[bool]string{true: "reject", false: "accept"}[expectRej]},
				fmt.Sprintf("handler ran (t=%d) without event middleware %d having been called before it", h.seq, mwi))
		}
		if i == 1 {
			viol("event-handler-twice", nil, fmt.Sprintf("handler ran %d times for one emission", len(e.hs)))
		}
	}

	undecided := func(what string) string {
		switch {
		case mode == modeCapped:
			run.Count("p2_missing_outcome_not_judged_cap", 1)
		case mode == modeComplete:
			run.Count("p2_absence_not_judged_without_quiescence_wait", 1)
		case !st.fenced:
			run.Inconclusive(fmt.Sprintf("%s: uid %d %s: %s, but the fence failed (%v)", spec.id(), e.uid, e.sig.Name, what, st.fenceErr))
		default:
			return ""
		}
		return "undecided"
	}
	errText := strings.Join(e.errs, " | ")

	switch {
	case loggedRej != "":
		// a middleware rejected: the handler must stay silent (checked above) and OnError gets the error
		verdict = "rejected"
		found := false
		for _, s := range e.errs {
			found = found || strings.Contains(s, loggedRej)
		}
		if !found {
			if len(e.errs) > 0 {
				viol("event-rejection-not-reported", nil, fmt.Sprintf("middleware returned %q, OnError handlers got [%s]", loggedRej, errText))
			} else if v := undecided("rejection not reported to OnError"); v != "" {
				verdict = v
			} else {
				viol("event-rejection-not-reported", nil, fmt.Sprintf("middleware returned %q, no OnError handler was called within %v of an acked fence", loggedRej, quiescence))
			}
		}
	case expectRej:
		// the rejecting middleware never returned its error for this event
		switch {
		case len(e.hs) > 0:
			verdict = "delivered-past-rejecting-mw" // reported above as event-mw-skipped
		case len(e.errs) > 0:
			verdict = "dropped-before-mw"
			viol("event-mw-not-called", map[string]any{"error_class": errClass(errText)},
				fmt.Sprintf("event middleware %d was never called for this event; the event was dropped with OnError(%q)", len(e.mws), errText))
		default:
			if verdict = undecided("no middleware call, no handler, no error"); verdict == "" {
				verdict = "vanished"
				viol("event-mw-not-called", map[string]any{"error_class": "silent"},
					fmt.Sprintf("event middleware %d was never called and nothing else was observed within %v of an acked fence", len(e.mws), quiescence))
			}
		}
	default:
		// no middleware rejected: exactly one handler run with the emitted arguments, ack works
		switch {
		case len(e.hs) == 0 && len(e.errs) > 0:
			verdict = "dropped"
			viol("event-dropped-without-rejection", map[string]any{"error_class": errClass(errText), "mw_called": len(e.mws) > 0},
				fmt.Sprintf("no event middleware rejected the event (%d of %d called), yet the handler never ran; OnError got %q", len(e.mws), spec.M, errText))
		case len(e.hs) == 0:
			if verdict = undecided("handler never ran, no error"); verdict == "" {
				verdict = "vanished"
				viol("event-dropped-without-rejection", map[string]any{"error_class": "silent", "mw_called": len(e.mws) > 0},
					fmt.Sprintf("no event middleware rejected the event, yet the handler had not run %v after an acked fence and no error was reported", quiescence))
			}
		default:
			verdict = "delivered"
			if len(e.errs) > 0 {
				viol("event-spurious-error", nil, fmt.Sprintf("event was delivered but OnError got %q", errText))
			}
			if e.sig.HasAck {
				switch {
				case e.ackN == 0:
					if v := undecided("ack reply missing"); v != "" {
						verdict = v
					} else {
						verdict = "delivered-ack-lost"
						viol("event-ack-missing", nil, fmt.Sprintf("handler ran and called its ack function but no reply arrived within %v of an acked fence", quiescence))
					}
				case e.ackN > 1:
					viol("event-ack-twice", nil, fmt.Sprintf("%d ack replies for one emission", e.ackN))
				}
				if e.ackN >= 1 {
					if d := refcodec.Equal(canonArg(e.sig.wantAck(e.uid)), e.ackVal); d != "" {
						viol("event-ack-wrong", nil, fmt.Sprintf("ack reply %s, want %s", show(e.ackVal), show(canonArg(e.sig.wantAck(e.uid)))))
					} else {
						run.Count("p2_acks_correct_after_middlewares", 1)
					}
				}
			}
		}
	}
	if len(e.mws) > 0 {
		run.Count("p2_event_mw_calls", int64(len(e.mws)))
	}
	return verdict
}

func errClass(s string) string {
	switch {
	case strings.Contains(s, "too few input arguments"):
		return "reflect-too-few-arguments"
	case strings.Contains(s, "reflect:"):
		return "reflect-type-mismatch"
	case s == "":
		return "none"
	}
	return "other"
}

func (st *p2State) sample(e *emission, verdict string) {
	slot := ""
	switch {
	case e.sig.FirstKind == "string" && !e.sig.HasAck && st.spec.M == 1 && st.spec.Rej < 0:
		slot = "p2-a-string-1mw-accept"
	case e.sig.FirstKind == "int" && !e.sig.HasAck && st.spec.M == 1 && st.spec.Rej < 0:
		slot = "p2-b-int-1mw-accept"
	case e.sig.FirstKind == "string" && e.sig.HasAck && st.spec.M == 2 && st.spec.Rej == 1:
		slot = "p2-c-string-ack-2mw-reject-second"
	case e.sig.FirstKind == "none" && st.spec.M == 3 && st.spec.Rej < 0:
		slot = "p2-d-noargs-3mw-accept"
	case e.sig.FirstKind == "binary" && st.spec.M == 0:
		slot = "p2-e-binary-0mw"
	case e.sig.FirstKind == "struct" && st.spec.M == 2 && st.spec.Rej == 0 && st.spec.Kind == "raw":
		slot = "p2-f-struct-2mw-reject-first-raw"
	}
	if slot == "" {
		return
	}
	keepSample(slot, map[string]any{"socket": st.spec.id(), "signature": e.sig.Name, "event": e.sig.Event, "emitted_args": show(e.canon),
		"verdict": verdict, "log": st.emissionLog(e)})
}
