package main

// Part 3 — two situations the exhaustive parts do not build.
//
// (a) Several events of ONE socket inside the event-middleware chain at the same time. Parts 1/2
//     keep one event in flight per socket so that observations can be attributed; here every
//     event carries its own identity in its name and in its arguments ("ev<k>", k, "payload-<k>"),
//     so attribution needs no serialisation: a middleware or handler that is handed a name and
//     arguments that do not belong together, a middleware i+1 that runs for k before middleware i
//     did, or a handler that runs for a k some middleware rejected, is a violation whatever the
//     interleaving. The first middleware is slow for every second event, so that the next event
//     enters the chain while the previous one is still inside it.
//
// (b) Admission with connection-state recovery configured. A rejecting namespace middleware must
//     reject whatever the CONNECT auth payload claims: no pid, a made-up pid, a made-up pid with an
//     offset. (Skipping the middlewares is documented only for a session that WAS recovered, with
//     UseMiddlewares=false.) Control: an accepting middleware is called for such a CONNECT.

import (
	"encoding/json"
	"fmt"
	"reflect"
	"strings"
	"sync"
	"sync/atomic"
	"time"

	sio "github.com/karagenc/socket.io-go"

	"sioverif/internal/rawpeer"
	"sioverif/internal/refcodec"
	"sioverif/internal/rig"
	"sioverif/internal/vk"
)

func part3Jobs(run *vk.Run, race bool) []func() {
	var jobs []func()
	reps := run.Pick(3, 20)
	if race {
		reps = 1
	}
	for rep := 0; rep < reps; rep++ {
		for _, tr := range []string{"websocket", "polling"} {
			for _, nmw := range []int{2, 3} {
				rep, tr, nmw := rep, tr, nmw
				jobs = append(jobs, func() { concurrentChain(run, tr, nmw, 30+10*rep) })
			}
		}
	}
	for _, tr := range []string{"websocket", "polling"} {
		tr := tr
		jobs = append(jobs, func() { ackMismatch(run, tr) })
		jobs = append(jobs, func() { connectTimeoutAfterRejection(run, tr) })
	}
	for _, useMW := range []bool{false, true} {
		for _, auth := range []string{"none", "bogus-pid", "bogus-pid-offset", "empty-pid-offset"} {
			for _, reject := range []bool{true, false} {
				useMW, auth, reject := useMW, auth, reject
				jobs = append(jobs, func() { recoveryAdmission(run, useMW, auth, reject) })
			}
		}
	}
	return jobs
}

type chainRec struct {
	where string // "mw0".."mw2", "handler"
	name  string
	k     int
	pay   string
	nargs int
	seq   int64
}

func concurrentChain(run *vk.Run, transport string, nmw, n int) {
	run.Eval(1)
	srv, err := rig.NewServer(nil, "")
	if err != nil {
		run.Inconclusive("part3: " + err.Error())
		return
	}
	defer srv.Close()
	var mu sync.Mutex
	var log []chainRec
	var clock atomic.Int64
	var errs []string
	rejectAt := nmw - 1
	rejected := func(k int) bool { return k%5 == 0 }
	record := func(where, name string, v []any) {
		r := chainRec{where: where, name: name, k: -1, nargs: len(v), seq: clock.Add(1)}
		if len(v) > 0 {
			if k, ok := asInt(v[0]); ok {
				r.k = k
			}
		}
		if len(v) > 1 {
			r.pay, _ = v[1].(string)
		}
		mu.Lock()
		log = append(log, r)
		mu.Unlock()
	}
	srv.IO.Of("/").OnConnection(func(s sio.ServerSocket) {
		for i := 0; i < nmw; i++ {
			i := i
			s.Use(func(name string, v ...any) error {
				record(fmt.Sprintf("mw%d", i), name, v)
				if i == 0 && len(v) > 0 {
					if k, ok := asInt(v[0]); ok && k%2 == 0 {
						time.Sleep(3 * time.Millisecond) // the next event enters the chain meanwhile
					}
				}
				if i == rejectAt && len(v) > 0 {
					if k, ok := asInt(v[0]); ok && rejected(k) {
						return fmt.Errorf("rejected %d", k)
					}
				}
				return nil
			})
		}
		s.OnError(func(err error) { mu.Lock(); errs = append(errs, err.Error()); mu.Unlock() })
		for k := 0; k < n; k++ {
			name := fmt.Sprintf("ev%d", k)
			s.OnEvent(name, func(k int, pay string) { record("handler", name, []any{k, pay}) })
			s.OnEvent(name, func(k int, pay string) { record("handler2", name, []any{k, pay}) }) // the verdict of the chain holds for every handler
		}
		s.OnEvent("fence", func(ack func()) { ack() })
	})
	peer, err := rawpeer.DialSIO(srv.URL, transport)
	if err != nil {
		run.Inconclusive("part3: dial: " + err.Error())
		return
	}
	defer peer.C.Abort()
	if res, err := peer.Connect("/", nil, 20*time.Second); err != nil || !res.OK {
		run.Inconclusive("part3: connect failed")
		return
	}
	for k := 0; k < n; k++ {
		peer.Emit("/", nil, fmt.Sprintf("ev%d", k), json.Number(fmt.Sprint(k)), fmt.Sprintf("payload-%d", k))
	}
	// barrier: every event has left the chain (handler ran or a middleware rejected it)
	done := func() bool {
		mu.Lock()
		defer mu.Unlock()
		seen := map[int]bool{}
		for _, r := range log {
			if r.where == "handler" || (r.where == fmt.Sprintf("mw%d", rejectAt) && rejected(r.k)) {
				seen[r.k] = true
			}
		}
		return len(seen) >= n
	}
	complete := vk.WaitUntil(20*time.Second, done)
	time.Sleep(30 * time.Millisecond)
	mu.Lock()
	recs := append([]chainRec(nil), log...)
	mu.Unlock()
	fields := map[string]any{"part": "3a", "transport": transport}
	wit := map[string]any{"transport": transport, "middlewares": nmw, "events": n, "rejecting_middleware": rejectAt, "seed": run.Seed()}
	bad := func(sub, what string) {
		run.Violation(vk.Violation{Sub: sub, Fields: fields, What: what + fmt.Sprintf(" [%d middlewares, %d events in flight together, %s]", nmw, n, transport), Witness: wit})
	}
	// (1) name and arguments belong together, everywhere
	entered := map[string]map[int]int64{} // where -> k -> seq of first entry
	calls := map[string]int{}             // repeated entries per (where, k)
	overlaps := 0
	for _, r := range recs {
		if r.k < 0 || r.name != fmt.Sprintf("ev%d", r.k) || r.pay != fmt.Sprintf("payload-%d", r.k) {
			bad("event-middleware-wrong-arguments", fmt.Sprintf("%s was handed event %q with arguments (%d, %q): name and arguments of different events", r.where, r.name, r.k, r.pay))
			continue
		}
		if entered[r.where] == nil {
			entered[r.where] = map[int]int64{}
		}
		if _, dup := entered[r.where][r.k]; dup {
			// two handlers are registered per event name and the library runs the middleware chain once per
			// handler: a middleware may see an event twice, a handler only once
			calls[r.where+fmt.Sprint(r.k)]++
			if strings.HasPrefix(r.where, "handler") || calls[r.where+fmt.Sprint(r.k)] > 1 {
				bad("event-middleware-called-twice", fmt.Sprintf("%s ran %d times for event %d (two handlers registered)", r.where, calls[r.where+fmt.Sprint(r.k)]+1, r.k))
			}
			continue
		}
		entered[r.where][r.k] = r.seq
	}
	// (2) chain order per event, (3) nothing after the rejection
	for k := 0; k < n; k++ {
		for i := 1; i < nmw; i++ {
			a, okA := entered[fmt.Sprintf("mw%d", i-1)][k]
			b, okB := entered[fmt.Sprintf("mw%d", i)][k]
			if okB && (!okA || a > b) {
				bad("event-middleware-order", fmt.Sprintf("middleware %d ran for event %d before middleware %d did", i, k, i-1))
			}
		}
		h, ran := entered["handler"][k]
		last, okL := entered[fmt.Sprintf("mw%d", nmw-1)][k]
		if ran && (!okL || last > h) {
			bad("handler-before-middleware", fmt.Sprintf("handler of event %d ran before the last middleware was called for it", k))
		}
		if ran && rejected(k) {
			bad("handler-after-rejection", fmt.Sprintf("event %d was rejected by middleware %d but its handler ran", k, rejectAt))
		}
		if _, ran2 := entered["handler2"][k]; ran2 && rejected(k) {
			bad("handler-after-rejection", fmt.Sprintf("event %d was rejected by middleware %d but the SECOND handler registered for its event name ran", k, rejectAt))
		} else if !ran2 && ran && !rejected(k) && complete {
			bad("event-lost-in-chain", fmt.Sprintf("event %d reached the first handler of its event name but not the second", k))
		}
		if !ran && !rejected(k) && complete {
			bad("event-lost-in-chain", fmt.Sprintf("event %d was accepted by every middleware but its handler never ran", k))
		}
	}
	// evidence: how many events were inside the chain together (entered mw0 before an earlier one reached its end)
	for k := 1; k < n; k++ {
		prevEnd, ok := entered["handler"][k-1]
		if !ok {
			prevEnd, ok = entered[fmt.Sprintf("mw%d", rejectAt)][k-1]
		}
		if cur, ok2 := entered["mw0"][k]; ok && ok2 && cur < prevEnd {
			overlaps++
		}
	}
	run.Count("part3_chain_events", int64(n))
	run.Count("part3_events_overlapping_in_chain", int64(overlaps))
	if !complete {
		run.Inconclusive(fmt.Sprintf("part3a %s: not every event left the chain within 20 s", transport))
	}
	run.Distinct(fmt.Sprintf("3a/%s/mw=%d/overlap=%v", transport, nmw, overlaps > 0))
}

// ackMismatch — part 3c: whether the CLIENT asked for an acknowledgement and whether the HANDLER takes an
// ack function are independent. In all four combinations the event middleware must be handed the event's
// real arguments, all of them (a trailing function value is ignored, as in part 2).
func ackMismatch(run *vk.Run, transport string) {
	run.Eval(1)
	srv, err := rig.NewServer(nil, "")
	if err != nil {
		run.Inconclusive("part3c: " + err.Error())
		return
	}
	defer srv.Close()
	type rec struct {
		name string
		args []any
	}
	var mu sync.Mutex
	var seen []rec
	handled := map[string]int{}
	srv.IO.Of("/").OnConnection(func(s sio.ServerSocket) {
		s.Use(func(name string, v ...any) error {
			var real []any
			for _, x := range v {
				if x != nil && reflect.TypeOf(x).Kind() == reflect.Func {
					continue
				}
				real = append(real, x)
			}
			mu.Lock()
			seen = append(seen, rec{name, real})
			mu.Unlock()
			return nil
		})
		s.OnEvent("two", func(a int, b bool) { mu.Lock(); handled["two"]++; mu.Unlock() })
		s.OnEvent("pay", func(to string, amount int) { mu.Lock(); handled["pay"]++; mu.Unlock() })
		s.OnEvent("ask", func(q string, ack func(string)) { mu.Lock(); handled["ask"]++; mu.Unlock(); ack("re:" + q) })
		s.OnEvent("fence", func(ack func()) { ack() })
	})
	peer, err := rawpeer.DialSIO(srv.URL, transport)
	if err != nil {
		run.Inconclusive("part3c: dial: " + err.Error())
		return
	}
	defer peer.C.Abort()
	if res, err := peer.Connect("/", nil, 20*time.Second); err != nil || !res.OK {
		run.Inconclusive("part3c: connect failed")
		return
	}
	type em struct {
		name    string
		withAck bool
		args    []any
		want    []any
	}
	ems := []em{
		{"two", false, []any{json.Number("7"), true}, []any{7, true}},
		{"two", true, []any{json.Number("7"), true}, []any{7, true}},
		{"pay", false, []any{"mallory", json.Number("-1000000")}, []any{"mallory", -1000000}},
		{"pay", true, []any{"mallory", json.Number("-1000000")}, []any{"mallory", -1000000}},
		{"ask", true, []any{"why"}, []any{"why"}},
		{"ask", false, []any{"why"}, []any{"why"}},
	}
	id := uint64(100)
	for _, e := range ems {
		var pid *uint64
		if e.withAck {
			id++
			v := id
			pid = &v
		}
		peer.Emit("/", pid, e.name, e.args...)
	}
	fid := uint64(999)
	peer.Emit("/", &fid, "fence")
	if _, _, err := peer.WaitPacket(0, 20*time.Second, func(p *refcodec.Packet) bool { return p.Type == refcodec.Ack && p.ID != nil && *p.ID == fid }); err != nil {
		run.Inconclusive("part3c " + transport + ": fence not acknowledged")
		return
	}
	vk.WaitUntil(5*time.Second, func() bool { mu.Lock(); defer mu.Unlock(); return len(seen) >= len(ems) })
	mu.Lock()
	got := append([]rec(nil), seen...)
	mu.Unlock()
	// both emissions of a name carry the same arguments, so the verdict needs no order: every record of a
	// name must show that name's arguments, and there must be two records per name
	want := map[string][]any{}
	for _, e := range ems {
		want[e.name] = e.want
	}
	count := map[string]int{}
	for _, r := range got {
		w, ok := want[r.name]
		if !ok {
			continue
		}
		count[r.name]++
		if fmt.Sprint(r.args) != fmt.Sprint(w) {
			run.Violation(vk.Violation{Sub: "event-middleware-wrong-arguments", Fields: map[string]any{"part": "3c", "handler": r.name},
				What:    fmt.Sprintf("event %q emitted with arguments %v (once with, once without an ack request): the middleware was handed %v [%s]", r.name, w, r.args, transport),
				Witness: map[string]any{"emitted": fmt.Sprint(w), "middleware_saw": fmt.Sprint(r.args), "transport": transport, "all_records": fmt.Sprint(got)}})
		}
	}
	for name := range want {
		if count[name] != 2 {
			run.Violation(vk.Violation{Sub: "event-middleware-not-called", Fields: map[string]any{"part": "3c", "handler": name},
				What:    fmt.Sprintf("event %q was emitted twice (with and without an ack request), the middleware was called %d times for it [%s]", name, count[name], transport),
				Witness: map[string]any{"all_records": fmt.Sprint(got)}})
		}
	}
	run.Distinct("3c/" + transport)
}

// connectTimeoutAfterRejection — part 3d: "nothing of the socket remains on the server". A connection whose only
// CONNECT was rejected has joined no namespace; the server's connect timeout (here 1 s) must reap it exactly as
// it reaps a connection that never sent a CONNECT. Control: a connection with an accepted namespace is kept.
func connectTimeoutAfterRejection(run *vk.Run, transport string) {
	run.Eval(1)
	cfg := &sio.ServerConfig{ConnectTimeout: time.Second}
	srv, err := rig.NewServer(cfg, "")
	if err != nil {
		run.Inconclusive("part3d: " + err.Error())
		return
	}
	defer srv.Close()
	srv.IO.Of("/").Use(func(s sio.ServerSocket, h *sio.Handshake) any {
		var a struct {
			OK bool `json:"ok"`
		}
		json.Unmarshal(h.Auth, &a)
		if !a.OK {
			return fmt.Errorf("not allowed")
		}
		return nil
	})
	srv.IO.Of("/").OnConnection(func(s sio.ServerSocket) {})
	dial := func() *rawpeer.SIO {
		p, err := rawpeer.DialSIO(srv.URL, transport)
		if err != nil {
			run.Inconclusive("part3d: dial: " + err.Error())
			return nil
		}
		return p
	}
	silent, rejectedPeer, accepted := dial(), dial(), dial()
	if silent == nil || rejectedPeer == nil || accepted == nil {
		return
	}
	defer silent.C.Abort()
	defer rejectedPeer.C.Abort()
	defer accepted.C.Abort()
	if res, err := rejectedPeer.Connect("/", nil, 20*time.Second); err != nil || res.OK {
		run.Inconclusive("part3d: the CONNECT was not rejected")
		return
	}
	if res, err := accepted.Connect("/", map[string]any{"ok": true}, 20*time.Second); err != nil || !res.OK {
		run.Inconclusive("part3d: the control CONNECT was not accepted")
		return
	}
	// positive control first: the connection that never sent a CONNECT is reaped by the timeout
	if !silent.C.WaitClosed(15 * time.Second) {
		run.Inconclusive("part3d " + transport + ": the connect timeout (1 s) did not even close a connection that never sent CONNECT")
		return
	}
	fields := map[string]any{"part": "3d", "transport": transport}
	if !rejectedPeer.C.WaitClosed(10 * time.Second) {
		run.Violation(vk.Violation{Sub: "rejected-connection-kept", Fields: fields,
			What:    "ConnectTimeout 1 s: a connection that never sent CONNECT was closed by the timeout, but a connection whose only CONNECT was rejected by a middleware is still open 10 s later: the server still counts the rejected socket's namespace as joined [" + transport + "]",
			Witness: map[string]any{"transport": transport}})
	}
	if accepted.C.IsClosed() {
		run.Violation(vk.Violation{Sub: "accepted-connection-closed", Fields: fields,
			What: "ConnectTimeout 1 s: the connection with an ACCEPTED namespace was closed as well [" + transport + "]", Witness: map[string]any{"transport": transport}})
	}
	run.Distinct("3d/" + transport)
}

func asInt(v any) (int, bool) {
	switch x := v.(type) {
	case int:
		return x, true
	case int64:
		return int(x), true
	case float64:
		return int(x), true
	case json.Number:
		i, err := x.Int64()
		return int(i), err == nil
	}
	return 0, false
}

func recoveryAdmission(run *vk.Run, useMW bool, authKind string, reject bool) {
	run.Eval(1)
	cfg := &sio.ServerConfig{}
	cfg.ServerConnectionStateRecovery.Enabled = true
	cfg.ServerConnectionStateRecovery.UseMiddlewares = useMW
	srv, err := rig.NewServer(cfg, "")
	if err != nil {
		run.Inconclusive("part3b: " + err.Error())
		return
	}
	defer srv.Close()
	var mwCalls, connCalls atomic.Int32
	nsp := srv.IO.Of("/")
	nsp.Use(func(s sio.ServerSocket, h *sio.Handshake) any {
		mwCalls.Add(1)
		if reject {
			return fmt.Errorf("not allowed")
		}
		return nil
	})
	nsp.OnConnection(func(s sio.ServerSocket) { connCalls.Add(1) })
	peer, err := rawpeer.DialSIO(srv.URL, "websocket")
	if err != nil {
		run.Inconclusive("part3b: dial: " + err.Error())
		return
	}
	defer peer.C.Abort()
	var auth map[string]any
	switch authKind {
	case "bogus-pid":
		auth = map[string]any{"pid": "no-such-private-session"}
	case "bogus-pid-offset":
		auth = map[string]any{"pid": "no-such-private-session", "offset": "0000000000000"}
	case "empty-pid-offset":
		auth = map[string]any{"pid": "", "offset": "0000000000000"}
	}
	res, err := peer.Connect("/", auth, 20*time.Second)
	fields := map[string]any{"part": "3b", "recovery_use_middlewares": useMW, "auth": authKind}
	wit := map[string]any{"recovery_enabled": true, "use_middlewares": useMW, "connect_auth": auth, "middleware_rejects": reject, "seed": run.Seed()}
	if err != nil {
		run.Inconclusive(fmt.Sprintf("part3b %v/%s: no reply to CONNECT: %v", useMW, authKind, err))
		return
	}
	time.Sleep(30 * time.Millisecond)
	listed := len(nsp.Sockets())
	switch {
	case reject && (res.OK || connCalls.Load() > 0 || listed > 0):
		run.Violation(vk.Violation{Sub: "admitted-despite-rejection", Fields: fields,
			What: fmt.Sprintf("recovery enabled (UseMiddlewares=%v), CONNECT auth %s: the namespace middleware rejects every socket (called %d times) but the client got CONNECT ok=%v, connection handlers ran %d times, %d sockets listed",
				useMW, authKind, mwCalls.Load(), res.OK, connCalls.Load(), listed), Witness: wit})
	case !reject && (!res.OK || mwCalls.Load() == 0):
		run.Violation(vk.Violation{Sub: "middleware-skipped", Fields: fields,
			What: fmt.Sprintf("recovery enabled (UseMiddlewares=%v), CONNECT auth %s, no session to recover: accepting middleware called %d times, CONNECT ok=%v",
				useMW, authKind, mwCalls.Load(), res.OK), Witness: wit})
	}
	if reject && !res.OK {
		if m, _ := res.ErrData.(map[string]any); m == nil || !strings.Contains(fmt.Sprint(m["message"]), "not allowed") {
			run.Count("part3b_rejection_payload_unexpected", 1)
		}
	}
	run.Distinct(fmt.Sprintf("3b/useMW=%v/%s/reject=%v/ok=%v", useMW, authKind, reject, res.OK))
	_ = refcodec.Connect
}
