package main

import (
	"encoding/json"
	"errors"
	"fmt"
	"math/rand"
	"runtime"
	"sort"
	"strings"
	"sync"
	"time"

	mapset "github.com/deckarep/golang-set/v2"
	sio "github.com/karagenc/socket.io-go"
	"github.com/karagenc/socket.io-go/adapter"

	"sioverif/internal/gen"
	"sioverif/internal/rawpeer"
	"sioverif/internal/refcodec"
	"sioverif/internal/rig"
	"sioverif/internal/vk"
)

// ---------- the space ----------

type chain struct {
	N    int    // number of middlewares
	Rej  int    // index of the first rejecting middleware; -1 = every middleware accepts
	Kind string // error | string | struct | map
}

func (c chain) id() string {
	if c.Rej < 0 {
		return fmt.Sprintf("n=%d/rej=none", c.N)
	}
	return fmt.Sprintf("n=%d/rej=%d/%s", c.N, c.Rej, c.Kind)
}

var rejKinds = []string{"error", "string", "struct", "map"}

func allChains() []chain {
	var out []chain
	for n := 0; n <= 5; n++ {
		out = append(out, chain{N: n, Rej: -1})
		for p := 0; p < n; p++ {
			for _, k := range rejKinds {
				out = append(out, chain{N: n, Rej: p, Kind: k})
			}
		}
	}
	return out
}

type cellSpec struct {
	Chain     chain
	Nsp       string
	Clients   int
	Kind      string // go | raw
	Transport string
	Rep       int
	Seed      int64
}

func (s cellSpec) id() string {
	return fmt.Sprintf("p1/%s/nsp=%s/clients=%d/%s/%s", s.Chain.id(), s.Nsp, s.Clients, s.Kind, s.Transport)
}

type rejData struct {
	Code   int      `json:"code"`
	Reason string   `json:"reason"`
	Tags   []string `json:"tags"`
	Nested struct {
		Deep bool `json:"deep"`
	} `json:"nested"`
}

// rejection builds the value middleware i returns and the canonical message the client must see.
func rejection(kind string, i int) (value any, want any) {
	text := fmt.Sprintf("rejected by mw%d: \"quoted\" \\ ü€\n<end>", i)
	switch kind {
	case "error":
		return errors.New(text), text
	case "string":
		return text, text
	case "struct":
		d := rejData{Code: 400 + i, Reason: text, Tags: []string{"a", "", "c"}}
		d.Nested.Deep = true
		if i%2 == 1 {
			return &d, gen.CanonOf(d)
		}
		return d, gen.CanonOf(d)
	default: // map
		m := map[string]any{"code": 400 + i, "reason": text, "list": []any{1, "two", true}, "null": nil, "obj": map[string]any{"k": "v"}}
		return m, gen.CanonOf(m)
	}
}

func part1Jobs(run *vk.Run, race bool) []func() {
	chains := allChains()
	run.Note("p1_chains", len(chains))
	var specs []cellSpec
	reps := run.Pick(1, 10)
	if race {
		reps = 1
	}
	for rep := 0; rep < reps; rep++ {
		i := 0
		for _, ch := range chains {
			for _, nsp := range []string{"/", "/custom"} {
				for _, clients := range []int{1, 8} {
					for _, kind := range []string{"go", "raw"} {
						i++
						var transports []string
						switch {
						case race:
							if (i+ch.N)%3 != 0 { // the race pass runs a third of the matrix
								continue
							}
							transports = []string{"websocket"}
						case run.Thorough():
							transports = []string{"websocket", "polling"}
							if kind == "go" {
								// the Go client also starts on polling and upgrades while it connects
								transports = append(transports, "polling+websocket")
							}
						default:
							transports = []string{"websocket"}
							if i%4 == 0 {
								transports = []string{"polling"}
							}
						}
						for _, tr := range transports {
							specs = append(specs, cellSpec{Chain: ch, Nsp: nsp, Clients: clients, Kind: kind, Transport: tr, Rep: rep})
						}
					}
				}
			}
		}
	}
	r := run.Rand("c12/p1/order")
	shuffle(r, specs)
	for i := range specs {
		specs[i].Seed = r.Int63()
	}
	jobs := make([]func(), len(specs))
	for i := range specs {
		s := specs[i]
		jobs[i] = func() { runCell(run, s) }
	}
	run.Note("p1_cells_planned", len(specs))
	return jobs
}

// ---------- the log ----------

type logEv struct {
	Seq  int64
	K    string // enter | leave | snap | bcast-call | bcast-ret | handler | reply
	SID  string
	CID  int
	MW   int
	Info string
}

func (e logEv) String() string {
	return fmt.Sprintf("%d %s sid=%s cid=%d mw=%d %s", e.Seq, e.K, e.SID, e.CID, e.MW, e.Info)
}

type mwEv struct {
	idx      int
	seq      int64
	rejected bool
}

type snapRec struct {
	mw    int
	phase string
	seq   int64
	flags []string // non-empty = something of the socket was visible
}

type handlerRec struct {
	seq     int64
	listed  bool
	ownRoom bool
}

type sockRec struct {
	sid      string
	cid      int // -1 unknown (no middleware saw it)
	enters   []mwEv
	leaves   []mwEv
	snaps    []snapRec
	handlers []handlerRec
	sweep    []string // what of the socket was visible at the quiescent sweep
	swept    bool
	// harness-side: a middleware of this socket already returned (or is returning) a rejection
	rejecting bool
}

type bcastRec struct {
	token   string
	by      string
	mw      int
	callSeq int64
	retSeq  int64 // 0 = Emit has not returned
	// number of connection handlers of other sockets that had run when the broadcast was fired
	othersAdmitted int
}

type clientRec struct {
	cid     int
	follows bool // follows the chain's rejection (otherwise accepted by every middleware)

	mu        sync.Mutex
	connectN  int
	sid       string
	errN      int
	errVal    any    // canonical message (Go client) or whole payload (raw peer)
	errIsErr  bool   // Go client: handler got an error value
	mgrErr    string // Go client: manager-level error (dial problems): case is inconclusive
	bcasts    []string
	fenceErr  error
	fenced    bool
	dialErr   error
	replySeen bool

	peer *rawpeer.SIO
	mgr  *sio.Manager
	sock sio.ClientSocket
}

func (c *clientRec) hasReply() bool {
	c.mu.Lock()
	defer c.mu.Unlock()
	return c.connectN+c.errN > 0
}

type cellState struct {
	spec cellSpec
	run  *vk.Run
	srv  *rig.Server
	nsp  *sio.Namespace
	r    *rand.Rand

	mu        sync.Mutex
	seq       int64
	log       []logEv
	socks     map[string]*sockRec
	byCID     map[int][]*sockRec
	bcasts    map[string]*bcastRec
	bcastN    int
	arrived   int
	allIn     chan struct{}
	allInOnce sync.Once
	byAdm     chan struct{} // closed when the first always-accepted client's connection handler ran
	byAdmOnce sync.Once
	handlersN int

	wireFormatReported bool

	clients    []*clientRec
	witness    *rawpeer.SIO
	witnessSID string
	closed     bool
}

func (cs *cellState) add(k, sid string, cid, mw int, info string) int64 {
	cs.seq++
	cs.log = append(cs.log, logEv{Seq: cs.seq, K: k, SID: sid, CID: cid, MW: mw, Info: info})
	return cs.seq
}

func (cs *cellState) sock(sid string, cid int) *sockRec {
	s := cs.socks[sid]
	if s == nil {
		s = &sockRec{sid: sid, cid: -1}
		cs.socks[sid] = s
	}
	if cid >= 0 && s.cid < 0 {
		s.cid = cid
		cs.byCID[cid] = append(cs.byCID[cid], s)
	}
	return s
}

func (cs *cellState) follows(cid int) bool {
	if cs.spec.Chain.Rej < 0 {
		return true
	}
	if cs.spec.Clients == 1 {
		return true
	}
	return cid%2 == 0
}

// visible reports what of socket sid is visible through the public API and the index hook.
func (cs *cellState) visible(sid string, s sio.ServerSocket) (flags []string, listed, ownRoom bool) {
	id := sio.SocketID(sid)
	for _, x := range cs.nsp.Sockets() {
		if x.ID() == id {
			listed = true
		}
	}
	if listed {
		flags = append(flags, "listed")
	}
	a := cs.nsp.Adapter()
	if rooms, ok := a.SocketRooms(id); ok {
		flags = append(flags, fmt.Sprintf("rooms(%d)", rooms.Cardinality()))
		ownRoom = rooms.Contains(sio.Room(sid))
	}
	if a.Sockets(mapset.NewSet[sio.Room](sio.Room(sid))).Cardinality() > 0 {
		flags = append(flags, "own-room-populated")
	}
	if _, ok := adapter.VerifIndexSnapshot(a)[id]; ok {
		flags = append(flags, "in-adapter-index")
	}
	if s != nil {
		if s.Connected() {
			flags = append(flags, "connected")
		}
		if s.Rooms().Cardinality() > 0 {
			flags = append(flags, "socket.Rooms")
		}
	}
	return
}

func (cs *cellState) middleware(i int) sio.NspMiddlewareFunc {
	ch := cs.spec.Chain
	return func(s sio.ServerSocket, h *sio.Handshake) any {
		var a struct {
			CID  *int   `json:"cid"`
			Role string `json:"role"`
		}
		json.Unmarshal(h.Auth, &a)
		if a.Role == "witness" {
			return nil
		}
		cid := -1
		if a.CID != nil {
			cid = *a.CID
		}
		sid := string(s.ID())
		follows := cs.follows(cid)
		rejectHere := follows && ch.Rej >= 0 && i >= ch.Rej

		cs.mu.Lock()
		sr := cs.sock(sid, cid)
		seq := cs.add("enter", sid, cid, i, "")
		sr.enters = append(sr.enters, mwEv{idx: i, seq: seq})
		first := len(sr.enters) == 1
		firstReject := rejectHere && !sr.rejecting
		sr.rejecting = sr.rejecting || rejectHere
		jitter := cs.r.Intn(4)
		cs.mu.Unlock()

		cs.snapshot(sr, s, i, "pre")
		for k := 0; k < jitter; k++ {
			runtime.Gosched()
		}
		if cs.spec.Clients > 1 && first {
			// rendezvous: all concurrently connecting clients are inside their first middleware at once
			cs.mu.Lock()
			cs.arrived++
			if cs.arrived >= cs.spec.Clients {
				cs.allInOnce.Do(func() { close(cs.allIn) })
			}
			cs.mu.Unlock()
			select {
			case <-cs.allIn:
				cs.run.Count("p1_rendezvous_reached", 1)
			case <-time.After(syncWait()):
				syncTimeouts.Add(1)
				cs.run.Count("p1_rendezvous_timeouts", 1)
			}
		}
		if rejectHere && firstReject && cs.spec.Clients > 1 {
			// hold this socket until another client has been admitted, so that the broadcast below
			// has live recipients while this one is still (and stays) outside
			select {
			case <-cs.byAdm:
				cs.run.Count("p1_rejections_held_until_another_client_was_admitted", 1)
			case <-time.After(syncWait()):
				syncTimeouts.Add(1)
				cs.run.Count("p1_bystander_wait_timeouts", 1)
			}
		}
		cs.broadcast(sid, cid, i)
		cs.snapshot(sr, s, i, "post")

		var ret any
		if rejectHere {
			ret, _ = rejection(ch.Kind, i)
		}
		cs.mu.Lock()
		info := "accept"
		if rejectHere {
			info = "reject:" + ch.Kind
		}
		seq = cs.add("leave", sid, cid, i, info)
		sr.leaves = append(sr.leaves, mwEv{idx: i, seq: seq, rejected: rejectHere})
		cs.mu.Unlock()
		return ret
	}
}

func (cs *cellState) snapshot(sr *sockRec, s sio.ServerSocket, i int, phase string) {
	flags, _, _ := cs.visible(sr.sid, s)
	cs.mu.Lock()
	if len(sr.handlers) > 0 {
		flags = append(flags, "connection-handler-ran")
	}
	seq := cs.add("snap", sr.sid, sr.cid, i, phase+":"+strings.Join(flags, ","))
	sr.snaps = append(sr.snaps, snapRec{mw: i, phase: phase, seq: seq, flags: flags})
	cs.mu.Unlock()
	cs.run.Count("p1_snapshots", 1)
}

func (cs *cellState) broadcast(sid string, cid, i int) {
	cs.mu.Lock()
	cs.bcastN++
	tok := fmt.Sprintf("%s#mw%d#%d", sid, i, cs.bcastN)
	b := &bcastRec{token: tok, by: sid, mw: i}
	b.callSeq = cs.add("bcast-call", sid, cid, i, tok)
	for _, o := range cs.socks {
		if o.sid != sid && len(o.handlers) > 0 {
			b.othersAdmitted++
		}
	}
	cs.bcasts[tok] = b
	cs.mu.Unlock()
	cs.nsp.Emit("bcast", tok)
	cs.mu.Lock()
	b.retSeq = cs.add("bcast-ret", sid, cid, i, tok)
	cs.mu.Unlock()
	cs.run.Count("p1_broadcasts_fired_inside_middleware", 1)
	if b.othersAdmitted > 0 {
		cs.run.Count("p1_broadcasts_fired_while_other_sockets_admitted", 1)
	}
}

func (cs *cellState) onConnection(s sio.ServerSocket) {
	sid := string(s.ID())
	_, listed, ownRoom := cs.visible(sid, s)
	cs.mu.Lock()
	sr := cs.sock(sid, -1)
	seq := cs.add("handler", sid, sr.cid, -1, fmt.Sprintf("listed=%v ownRoom=%v", listed, ownRoom))
	sr.handlers = append(sr.handlers, handlerRec{seq: seq, listed: listed, ownRoom: ownRoom})
	cs.handlersN++
	by := sr.cid >= 0 && !cs.follows(sr.cid)
	cs.mu.Unlock()
	if by {
		cs.byAdmOnce.Do(func() { close(cs.byAdm) })
	}
}

// ---------- running a cell ----------

func runCell(run *vk.Run, spec cellSpec) {
	// parked cells stay open through the shared quiescence wait: keep the server from closing
	// connections that (after a rejection) belong to no namespace
	srv, err := rig.NewServer(&sio.ServerConfig{ConnectTimeout: 10 * time.Minute}, "")
	if err != nil {
		run.Inconclusive(spec.id() + ": " + err.Error())
		return
	}
	cs := &cellState{spec: spec, run: run, srv: srv, r: rand.New(rand.NewSource(spec.Seed)),
		socks: map[string]*sockRec{}, byCID: map[int][]*sockRec{}, bcasts: map[string]*bcastRec{},
		allIn: make(chan struct{}), byAdm: make(chan struct{})}
	cs.nsp = srv.IO.Of(spec.Nsp)
	for i := 0; i < spec.Chain.N; i++ {
		cs.nsp.Use(cs.middleware(i))
	}
	cs.nsp.OnConnection(cs.onConnection)
	srv.IO.Of("/fence").OnConnection(func(s sio.ServerSocket) {
		s.OnEvent("fence", func(ack func()) { ack() })
		s.Emit("ready")
	})

	// the witness: an always-admitted raw peer that shows the broadcasts are live
	w, err := dialFenced(srv.URL, "websocket")
	if err != nil {
		run.Inconclusive(spec.id() + ": witness dial: " + err.Error())
		srv.Close()
		return
	}
	cs.witness = w
	if res, err := w.Connect(spec.Nsp, map[string]any{"role": "witness"}, fenceTimeout); err != nil || !res.OK {
		run.Inconclusive(fmt.Sprintf("%s: witness connect: %v %+v", spec.id(), err, res))
		cs.close()
		return
	} else {
		cs.witnessSID = res.SID
	}

	wait := shortWait()
	for cid := 0; cid < spec.Clients; cid++ {
		cs.clients = append(cs.clients, &clientRec{cid: cid, follows: cs.follows(cid)})
	}
	var wg sync.WaitGroup
	for _, c := range cs.clients {
		wg.Add(1)
		go func(c *clientRec) {
			defer wg.Done()
			if spec.Kind == "raw" {
				cs.connectRaw(c, wait)
			} else {
				cs.connectGo(c, wait)
			}
		}(c)
	}
	wg.Wait()
	// connection handlers run on their own goroutine after CONNECT was queued
	vk.WaitUntil(wait, cs.complete)
	if cs.complete() {
		cs.finish(modeComplete)
		return
	}
	if !park(&parkedCase{what: spec.id(), resolved: cs.complete, finish: cs.finish}, true) {
		cs.finish(modeCapped)
	}
}

func (cs *cellState) connectRaw(c *clientRec, wait time.Duration) {
	p, err := dialFenced(cs.srv.URL, cs.spec.Transport)
	if err != nil {
		c.dialErr = err
		return
	}
	c.peer = p
	p.Connect(cs.spec.Nsp, map[string]any{"cid": json.Number(fmt.Sprint(c.cid))}, wait)
	cs.refreshRaw(c)
}

func (cs *cellState) refreshRaw(c *clientRec) {
	if c.peer == nil {
		return
	}
	r := rawReplies(c.peer, cs.spec.Nsp)
	var toks []string
	for _, sp := range c.peer.Packets() {
		if sp.P.Namespace == cs.spec.Nsp && rawpeer.EventName(sp.P) == "bcast" {
			t := "?"
			if a := rawpeer.Args(sp.P); len(a) > 0 {
				t, _ = a[0].(string)
			}
			toks = append(toks, t)
		}
	}
	c.mu.Lock()
	c.connectN, c.errN, c.sid, c.errVal, c.bcasts = r.connects, r.errors, r.sid, r.errData, toks
	c.mu.Unlock()
}

func (cs *cellState) connectGo(c *clientRec, wait time.Duration) {
	mcfg := rig.ManagerConfig(strings.Split(cs.spec.Transport, "+")...)
	mcfg.NoReconnection = true
	m := sio.NewManager(cs.srv.URL, mcfg)
	c.mgr = m
	m.OnError(func(err error) {
		c.mu.Lock()
		if c.mgrErr == "" {
			c.mgrErr = err.Error()
		}
		c.mu.Unlock()
	})
	sock := m.Socket(cs.spec.Nsp, nil)
	c.sock = sock
	sock.SetAuth(map[string]any{"cid": c.cid})
	sock.OnConnect(func() {
		c.mu.Lock()
		c.connectN++
		c.sid = string(sock.ID())
		c.mu.Unlock()
	})
	sock.OnConnectError(func(v any) {
		c.mu.Lock()
		defer c.mu.Unlock()
		if c.mgrErr != "" {
			return // manager-level failure relayed to the socket, not a CONNECT_ERROR packet
		}
		c.errN++
		if c.errN == 1 {
			if e, ok := v.(error); ok {
				c.errIsErr = true
				c.errVal = e.Error()
			} else {
				c.errVal = canonArg(v)
			}
		}
	})
	sock.OnEvent("bcast", func(tok string) {
		c.mu.Lock()
		c.bcasts = append(c.bcasts, tok)
		c.mu.Unlock()
	})
	sock.Connect()
	vk.WaitUntil(wait, c.hasReply)
}

// complete: every client has its reply and every admitted socket's connection handler ran.
func (cs *cellState) complete() bool {
	for _, c := range cs.clients {
		if c.dialErr != nil {
			continue
		}
		if c.peer != nil {
			cs.refreshRaw(c)
		}
		if !c.hasReply() {
			return false
		}
		c.mu.Lock()
		sid, ok := c.sid, c.connectN > 0
		c.mu.Unlock()
		if ok {
			cs.mu.Lock()
			sr := cs.socks[sid]
			ran := sr != nil && len(sr.handlers) > 0
			cs.mu.Unlock()
			if !ran {
				return false
			}
		}
	}
	return true
}

func (cs *cellState) close() {
	cs.mu.Lock()
	if cs.closed {
		cs.mu.Unlock()
		return
	}
	cs.closed = true
	cs.mu.Unlock()
	for _, c := range cs.clients {
		if c.peer != nil {
			c.peer.C.Close()
		}
		if c.mgr != nil {
			c.mgr.Close()
		}
	}
	if cs.witness != nil {
		cs.witness.C.Close()
	}
	cs.srv.Close()
}

// finish: fences, quiescent sweep, verdicts, teardown.
func (cs *cellState) finish(mode judgeMode) {
	defer cs.close()
	// Fences. All replies are in (or the shared wait is over), so every Emit of this cell has
	// returned unless a chain is still running, which the judge sees in the log (retSeq == 0).
	var wg sync.WaitGroup
	for _, c := range cs.clients {
		if c.peer == nil {
			continue
		}
		wg.Add(1)
		go func(c *clientRec) {
			defer wg.Done()
			err := rawFenceAgain(c.peer, 2, fenceTimeout)
			cs.refreshRaw(c)
			c.mu.Lock()
			c.fenceErr, c.fenced = err, err == nil
			c.mu.Unlock()
		}(c)
	}
	witnessFenced := false
	wg.Add(1)
	go func() {
		defer wg.Done()
		witnessFenced = rawFenceAgain(cs.witness, 2, fenceTimeout) == nil
	}()
	wg.Wait()

	// quiescent sweep over every socket the server side ever saw
	cs.mu.Lock()
	var all []*sockRec
	for _, s := range cs.socks {
		all = append(all, s)
	}
	cs.mu.Unlock()
	for _, s := range all {
		flags, _, _ := cs.visible(s.sid, nil)
		cs.mu.Lock()
		s.sweep, s.swept = flags, true
		cs.add("sweep", s.sid, s.cid, -1, strings.Join(flags, ","))
		cs.mu.Unlock()
	}
	indexErr := adapter.VerifCheckIndexInvariant(cs.nsp.Adapter())

	cs.judge(mode, witnessFenced, indexErr)
}

// ---------- verdicts ----------

func (cs *cellState) judge(mode judgeMode, witnessFenced bool, indexErr error) {
	run, spec, ch := cs.run, cs.spec, cs.spec.Chain
	cs.mu.Lock()
	defer cs.mu.Unlock()

	base := func(extra map[string]any) map[string]any {
		f := map[string]any{"part": "nsp", "client_kind": spec.Kind, "clients": spec.Clients}
		for k, v := range extra {
			f[k] = v
		}
		return f
	}
	witness := func(c *clientRec, extra map[string]any) map[string]any {
		w := map[string]any{"cell": spec.id(), "chain": ch.id(), "seed": spec.Seed, "spec_p1": spec, "log": cs.logStrings(200)}
		if c != nil {
			w["cid"] = c.cid
			w["follows_chain"] = c.follows
		}
		for k, v := range extra {
			w[k] = v
		}
		return w
	}
	viol := func(sub string, c *clientRec, fields map[string]any, what string, extra map[string]any) {
		run.Violation(vk.Violation{Sub: sub, Fields: base(fields), What: spec.id() + ": " + what, Witness: witness(c, extra)})
	}

	if indexErr != nil {
		viol("adapter-index-broken", nil, nil, "adapter index invariant violated at the quiescent sweep: "+indexErr.Error(), nil)
	}

	undecided := 0
	for _, c := range cs.clients {
		run.Eval(1)
		if c.dialErr != nil {
			run.Inconclusive(fmt.Sprintf("%s: client %d could not dial: %v", spec.id(), c.cid, c.dialErr))
			undecided++
			continue
		}
		c.mu.Lock()
		connectN, errN, csid, errVal, errIsErr, mgrErr := c.connectN, c.errN, c.sid, c.errVal, c.errIsErr, c.mgrErr
		bcasts := append([]string(nil), c.bcasts...)
		fenced, fenceErr := c.fenced, c.fenceErr
		c.mu.Unlock()
		if mgrErr != "" {
			run.Inconclusive(fmt.Sprintf("%s: client %d manager error: %s", spec.id(), c.cid, mgrErr))
			undecided++
			continue
		}
		expectReject := ch.Rej >= 0 && c.follows

		// server-side sockets of this client
		var socks []*sockRec
		if ch.N > 0 {
			socks = cs.byCID[c.cid]
		} else if csid != "" {
			if s := cs.socks[csid]; s != nil {
				socks = []*sockRec{s}
			}
		}
		if len(socks) > 1 {
			viol("connect-processed-twice", c, nil, fmt.Sprintf("one CONNECT of client %d produced %d server-side sockets", c.cid, len(socks)), nil)
		}
		if ch.N > 0 && len(socks) == 0 {
			if connectN+errN > 0 {
				viol("mw-skipped", c, map[string]any{"which": "all"}, fmt.Sprintf("client %d got a reply (connect=%d, connect_error=%d) but no middleware ever saw its socket", c.cid, connectN, errN), nil)
			} else if mode != modeComplete {
				run.Inconclusive(fmt.Sprintf("%s: client %d never reached the middleware chain and got no reply", spec.id(), c.cid))
				undecided++
			}
			continue
		}

		var sr *sockRec
		if len(socks) > 0 {
			sr = socks[0]
		}
		admitLB := int64(1) << 62 // logical time before which this client cannot have been admitted
		chainDone, chainRejected := ch.N == 0, false
		if sr != nil {
			chainDone, chainRejected = cs.judgeSock(sr, c, expectReject, connectN+errN > 0, viol)
			if chainDone && !chainRejected {
				admitLB = 0
				if n := len(sr.leaves); n > 0 {
					admitLB = sr.leaves[n-1].seq
				}
			}
		} else if ch.N == 0 && connectN > 0 {
			admitLB = 0
		}

		// client outcome
		missing := false
		if expectReject {
			if connectN > 0 {
				viol("connect-after-rejection", c, map[string]any{"kind": ch.Kind}, fmt.Sprintf("client %d received CONNECT although middleware %d rejected it", c.cid, ch.Rej), nil)
			}
			switch {
			case errN == 0:
				missing = true
			case errN > 1:
				viol("connect-error-twice", c, nil, fmt.Sprintf("client %d received %d CONNECT_ERROR replies", c.cid, errN), nil)
			}
			if errN >= 1 {
				_, want := rejection(ch.Kind, ch.Rej)
				cs.judgePayload(c, want, errVal, errIsErr, viol)
			}
		} else {
			if errN > 0 {
				viol("spurious-connect-error", c, nil, fmt.Sprintf("client %d received CONNECT_ERROR %s although every middleware accepted it", c.cid, show(errVal)), nil)
			}
			switch {
			case connectN == 0:
				missing = true
			case connectN > 1:
				viol("connect-twice", c, nil, fmt.Sprintf("client %d received %d CONNECT replies", c.cid, connectN), nil)
			}
			if connectN >= 1 && sr != nil && csid != sr.sid {
				viol("connect-wrong-sid", c, nil, fmt.Sprintf("client %d was told sid %q, the middleware chain ran for socket %q", c.cid, csid, sr.sid), nil)
			}
			if connectN >= 1 && sr == nil {
				viol("connection-handler-missing", c, nil, fmt.Sprintf("client %d got CONNECT (sid %q) but the server side never ran a connection handler for it", c.cid, csid), nil)
			}
		}
		if missing {
			switch {
			case mode == modeCapped:
				run.Count("p1_missing_reply_not_judged_cap", 1)
				undecided++
			case mode == modeComplete:
				// cannot happen: complete() requires a reply
				undecided++
			case !chainDone:
				run.Inconclusive(fmt.Sprintf("%s: client %d: middleware chain did not finish, no reply", spec.id(), c.cid))
				undecided++
			case expectReject:
				viol("connect-error-missing", c, map[string]any{"kind": ch.Kind},
					fmt.Sprintf("middleware %d rejected client %d (leave logged) but no CONNECT_ERROR arrived within %v", ch.Rej, c.cid, quiescence), nil)
			default:
				viol("connect-missing", c, nil, fmt.Sprintf("every middleware accepted client %d but no CONNECT arrived within %v", c.cid, quiescence), nil)
			}
		}

		// broadcasts seen by this client
		tooEarly := 0
		for _, tok := range bcasts {
			b := cs.bcasts[tok]
			if b == nil {
				viol("broadcast-unknown-token", c, nil, fmt.Sprintf("client %d received bcast %q that no middleware fired", c.cid, tok), nil)
				continue
			}
			run.Count("p1_broadcasts_received_by_clients", 1)
			if b.retSeq != 0 && b.retSeq < admitLB {
				run.Count("p1_broadcasts_delivered_to_unadmitted_socket", 1)
				if tooEarly++; tooEarly > 1 {
					continue // one report per client; the rest is counted
				}
				phase := "inside-middleware"
				if chainRejected || expectReject {
					phase = "rejected"
				}
				viol("broadcast-reached-unadmitted", c, map[string]any{"phase": phase},
					fmt.Sprintf("client %d received broadcast %q whose Emit returned at t=%d, before the client's last middleware returned (t=%d; never for a rejected socket)", c.cid, tok, b.retSeq, admitLB),
					map[string]any{"token": tok, "emit_returned_at": b.retSeq, "admission_lower_bound": admitLB})
			}
		}
		// number of (broadcast, this client) pairs for which "must not be received" applied
		must := 0
		for _, b := range cs.bcasts {
			if b.retSeq != 0 && b.retSeq < admitLB {
				must++
			}
		}
		if spec.Kind == "raw" {
			if fenced {
				run.Count("p1_broadcast_absence_pairs_fenced", int64(must))
			} else {
				run.Count("p1_broadcast_absence_pairs_unfenced", int64(must))
				if must > 0 {
					run.Inconclusive(fmt.Sprintf("%s: client %d: fence failed (%v): absence of %d broadcast(s) not concluded", spec.id(), c.cid, fenceErr, must))
				}
			}
		} else {
			run.Count("p1_broadcast_absence_pairs_go_client_unfenced", int64(must))
		}
		if expectReject {
			run.Count("p1_clients_rejected", 1)
		} else {
			run.Count("p1_clients_admitted", 1)
		}
	}

	// sockets that no client accounts for (other than the witness)
	for sid, s := range cs.socks {
		if sid == cs.witnessSID || s.cid >= 0 {
			continue
		}
		owned := false
		for _, c := range cs.clients {
			c.mu.Lock()
			if c.sid == sid {
				owned = true
			}
			c.mu.Unlock()
		}
		if !owned && len(s.handlers) > 0 && ch.N > 0 {
			viol("mw-skipped", nil, map[string]any{"which": "all"}, fmt.Sprintf("connection handler ran for socket %q that never went through the middleware chain", sid), nil)
		}
	}

	// witness: how many broadcasts were live
	if witnessFenced {
		seen := 0
		for _, sp := range cs.witness.Packets() {
			if sp.P.Namespace == spec.Nsp && rawpeer.EventName(sp.P) == "bcast" {
				seen++
			}
		}
		run.Count("p1_broadcasts_seen_by_witness", int64(seen))
		if seen < len(cs.bcasts) {
			run.Count("p1_broadcasts_missed_by_witness", int64(len(cs.bcasts)-seen))
		}
	} else {
		run.Count("p1_witness_fence_failed", 1)
	}

	run.Count("p1_cells", 1)
	if undecided == 0 {
		run.Distinct(spec.id())
	}
	cs.sample()
}

// judgeSock checks the safety facts of one server-side socket. Returns whether the chain
// reached its end for this socket (a rejection or the last accept) and whether it was rejected.
func (cs *cellState) judgeSock(sr *sockRec, c *clientRec, expectReject, replied bool,
	viol func(string, *clientRec, map[string]any, string, map[string]any)) (done, rejected bool) {
	ch := cs.spec.Chain
	last := ch.N - 1
	if expectReject {
		last = ch.Rej
	}
	seen := map[int]int{}
	for pos, e := range sr.enters {
		seen[e.idx]++
		switch {
		case seen[e.idx] == 2:
			viol("mw-ran-twice", c, nil, fmt.Sprintf("middleware %d ran twice for socket %s", e.idx, sr.sid), nil)
		case expectReject && e.idx > ch.Rej:
			viol("mw-after-rejection", c, map[string]any{"kind": ch.Kind}, fmt.Sprintf("middleware %d ran for socket %s after middleware %d had rejected it", e.idx, sr.sid, ch.Rej), nil)
		case e.idx != pos:
			viol("mw-out-of-order", c, nil, fmt.Sprintf("socket %s: %d-th middleware invocation was middleware %d (registration order violated)", sr.sid, pos, e.idx), nil)
		}
		if pos > 0 {
			prevLeft := int64(0)
			for _, l := range sr.leaves {
				if l.idx == sr.enters[pos-1].idx {
					prevLeft = l.seq
				}
			}
			if prevLeft == 0 || prevLeft > e.seq {
				viol("mw-out-of-order", c, nil, fmt.Sprintf("socket %s: middleware %d entered before middleware %d returned", sr.sid, e.idx, sr.enters[pos-1].idx), nil)
			}
		}
	}
	for _, l := range sr.leaves {
		if l.idx == last {
			done = true
		}
		if l.rejected {
			rejected = true
		}
	}
	if replied || done {
		for i := 0; i <= last; i++ {
			if seen[i] == 0 {
				viol("mw-skipped", c, map[string]any{"which": "some"}, fmt.Sprintf("socket %s: middleware %d never ran although the chain produced a reply", sr.sid, i), nil)
				break
			}
		}
	}
	for _, sn := range sr.snaps {
		if len(sn.flags) > 0 {
			viol("admitted-before-accept", c, map[string]any{"what": flagClass(sn.flags)},
				fmt.Sprintf("socket %s inside middleware %d (%s): already visible as [%s] before all middlewares accepted", sr.sid, sn.mw, sn.phase, strings.Join(sn.flags, ",")), nil)
			break
		}
	}
	// connection handler
	switch {
	case expectReject && len(sr.handlers) > 0:
		viol("connection-handler-after-rejection", c, map[string]any{"kind": ch.Kind}, fmt.Sprintf("connection handler ran for socket %s although middleware %d rejected it", sr.sid, ch.Rej), nil)
	case !expectReject && len(sr.handlers) > 1:
		viol("connection-handler-twice", c, nil, fmt.Sprintf("connection handler ran %d times for socket %s", len(sr.handlers), sr.sid), nil)
	}
	if !expectReject && len(sr.handlers) >= 1 {
		h := sr.handlers[0]
		lastLeave := int64(-1)
		for _, l := range sr.leaves {
			if l.idx == ch.N-1 {
				lastLeave = l.seq
			}
		}
		if ch.N > 0 && (lastLeave < 0 || h.seq < lastLeave) {
			viol("connection-handler-before-accept", c, nil, fmt.Sprintf("connection handler of socket %s ran at t=%d, the last middleware returned at t=%d", sr.sid, h.seq, lastLeave), nil)
		}
		if !h.listed || !h.ownRoom {
			viol("not-listed-at-connection", c, map[string]any{"listed": h.listed, "own_room": h.ownRoom},
				fmt.Sprintf("connection handler of socket %s: listed=%v in own-id room=%v", sr.sid, h.listed, h.ownRoom), nil)
		}
	}
	if !expectReject && replied && len(sr.handlers) == 0 {
		c.mu.Lock()
		got := c.connectN > 0
		c.mu.Unlock()
		if got {
			viol("connection-handler-missing", c, nil, fmt.Sprintf("client %d got CONNECT for socket %s but its connection handler had not run %v later", c.cid, sr.sid, quiescence), nil)
		}
	}
	// quiescent sweep
	if sr.swept {
		if expectReject && len(sr.sweep) > 0 {
			viol("leftover-after-rejection", c, map[string]any{"what": flagClass(sr.sweep)},
				fmt.Sprintf("rejected socket %s is still visible at quiescence: [%s]", sr.sid, strings.Join(sr.sweep, ",")), nil)
		}
		if !expectReject && len(sr.handlers) > 0 {
			listed, own := false, false
			for _, f := range sr.sweep {
				listed = listed || f == "listed"
				own = own || f == "own-room-populated"
			}
			if !listed || !own {
				viol("admitted-but-not-listed", c, nil, fmt.Sprintf("admitted socket %s at quiescence: [%s]", sr.sid, strings.Join(sr.sweep, ",")), nil)
			}
		}
	}
	return
}

func flagClass(flags []string) string {
	var out []string
	for _, f := range flags {
		if i := strings.Index(f, "("); i > 0 {
			f = f[:i]
		}
		out = append(out, f)
	}
	sort.Strings(out)
	return strings.Join(out, "+")
}

// judgePayload compares what the client got with the rejection.
func (cs *cellState) judgePayload(c *clientRec, want, got any, gotIsErr bool,
	violAll func(string, *clientRec, map[string]any, string, map[string]any)) {
	ch := cs.spec.Chain
	f := map[string]any{"kind": ch.Kind}
	viol := func(sub string, c *clientRec, fields map[string]any, what string, extra map[string]any) {
		if sub == "connect-error-wire-format" {
			// a property of the encoder, not of the client: one report per cell, narrow class
			cs.run.Count("p1_connect_error_wire_format_deviations", 1)
			if cs.wireFormatReported {
				return
			}
			cs.wireFormatReported = true
			w := map[string]any{"cell": cs.spec.id(), "cid": c.cid, "spec_p1": cs.spec}
			for k, v := range extra {
				w[k] = v
			}
			cs.run.Violation(vk.Violation{Sub: sub, Fields: fields, What: cs.spec.id() + ": " + what, Witness: w})
			return
		}
		violAll(sub, c, fields, what, extra)
	}
	if cs.spec.Kind == "go" {
		// the Go client hands payload.message to the handler (string messages wrapped in an error)
		if d := refcodec.Equal(want, got); d != "" {
			viol("connect-error-wrong-payload", c, f, fmt.Sprintf("OnConnectError value differs from the rejection at %s (want %s, got %s)", d, show(want), show(got)),
				map[string]any{"want": show(want), "got": show(got)})
		} else {
			cs.run.Count("p1_payload_equal_"+ch.Kind, 1)
		}
		if (ch.Kind == "error" || ch.Kind == "string") && !gotIsErr {
			viol("connect-error-go-client-type", c, f, "OnConnectError did not receive an error value for a textual rejection", nil)
		}
		return
	}
	m, ok := got.(map[string]any)
	if !ok {
		viol("connect-error-wire-format", c, map[string]any{"part": "nsp", "kind": ch.Kind, "issue": "payload-not-object"},
			fmt.Sprintf("CONNECT_ERROR payload is not a JSON object: %s", show(got)), map[string]any{"payload": show(got)})
		return
	}
	msg, has := m["message"]
	if !has {
		viol("connect-error-wire-format", c, map[string]any{"part": "nsp", "kind": ch.Kind, "issue": "no-message-key"},
			fmt.Sprintf("CONNECT_ERROR payload has no \"message\": %s", show(got)), map[string]any{"payload": show(got)})
		// the rejection may still be carried elsewhere
		if d := refcodec.Equal(want, m["data"]); d != "" {
			viol("connect-error-wrong-payload", c, f, fmt.Sprintf("rejection not carried by the CONNECT_ERROR payload %s (want %s)", show(got), show(want)), nil)
		}
		return
	}
	if d := refcodec.Equal(want, msg); d != "" {
		viol("connect-error-wrong-payload", c, f, fmt.Sprintf("CONNECT_ERROR message differs from the rejection at %s (want %s, got %s)", d, show(want), show(msg)),
			map[string]any{"want": show(want), "payload": show(got)})
	} else {
		cs.run.Count("p1_payload_equal_"+ch.Kind, 1)
	}
	if _, isStr := msg.(string); !isStr {
		// The rejection IS carried (message equals it), which is all the property demands. That a structured
		// rejection travels in "message" instead of "data" is the library's documented design (its own test
		// "should pass an object" expects it): counted, not a violation.
		cs.run.Count("p1_structured_rejection_carried_in_message_field", 1)
	}
	for k := range m {
		if k != "message" && k != "data" {
			viol("connect-error-wire-format", c, map[string]any{"part": "nsp", "kind": ch.Kind, "issue": "extra-key"},
				fmt.Sprintf("CONNECT_ERROR payload has unexpected key %q: %s", k, show(got)), map[string]any{"payload": show(got)})
		}
	}
}

func (cs *cellState) logStrings(max int) []string {
	out := make([]string, 0, len(cs.log))
	for i, e := range cs.log {
		if i >= max {
			out = append(out, fmt.Sprintf("... %d more", len(cs.log)-max))
			break
		}
		out = append(out, e.String())
	}
	return out
}

// sample keeps the recorded log of a few characteristic cells (called with cs.mu held).
func (cs *cellState) sample() {
	s, ch := cs.spec, cs.spec.Chain
	slot := ""
	switch {
	case ch.N == 0 && s.Kind == "raw" && s.Clients == 1:
		slot = "p1-a-empty-chain"
	case ch.N == 3 && ch.Rej == 1 && ch.Kind == "string" && s.Kind == "raw" && s.Clients == 8:
		slot = "p1-b-reject-middle-8-raw"
	case ch.N == 5 && ch.Rej < 0 && s.Kind == "go" && s.Clients == 8:
		slot = "p1-c-accept-5-8-go"
	case ch.N == 2 && ch.Rej == 0 && ch.Kind == "struct" && s.Kind == "raw" && s.Clients == 1:
		slot = "p1-d-reject-first-struct-raw"
	case ch.N == 5 && ch.Rej == 4 && ch.Kind == "map" && s.Kind == "raw" && s.Clients == 8 && s.Nsp == "/custom":
		slot = "p1-e-reject-last-map-8-raw-custom"
	case ch.N == 1 && ch.Rej == 0 && ch.Kind == "error" && s.Kind == "go" && s.Clients == 1:
		slot = "p1-f-reject-error-go"
	}
	if slot == "" {
		return
	}
	var outcomes []string
	for _, c := range cs.clients {
		c.mu.Lock()
		outcomes = append(outcomes, fmt.Sprintf("cid=%d follows_chain=%v connect=%d sid=%s connect_error=%d payload=%s bcasts_seen=%d fenced=%v",
			c.cid, c.follows, c.connectN, c.sid, c.errN, show(c.errVal), len(c.bcasts), c.fenced))
		c.mu.Unlock()
	}
	keepSample(slot, map[string]any{"cell": s.id(), "clients": outcomes, "log": cs.logStrings(60)})
}
