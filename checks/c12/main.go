// C12 — middlewares gate admission and events: nothing passes that a middleware rejected.
//
// Part 1 (namespace middlewares, admission): for every chain of 0..5 middlewares x every
// position of the first rejection (or none) x rejection kind {error, string, struct, map}
// x namespace {"/", "/custom"} x {1, 8 concurrently connecting clients} x client kind
// {real Go client, raw protocol peer} a fresh real server is started. Every middleware logs
// (enter i, leave i) per socket id under one logical clock, takes snapshots of the public
// server state for the socket it is holding (Sockets(), adapter rooms, index hook,
// Connected(), connection handler count) and fires a namespace-wide broadcast with a unique
// token while it holds the socket. The oracle is a set of safety facts over that log plus
// the client-side observation (CONNECT / CONNECT_ERROR payload, broadcast tokens seen on the
// wire by the raw peer, fenced through a second namespace on the same connection).
//
// Part 2 (per-socket event middlewares, ServerSocket.Use): 0..3 event middlewares x position
// of the rejecting one (or none) x 7 handler signatures x {Go client, raw peer}; one event in
// flight per socket, so that middleware calls, handler entries, OnError callbacks and ack
// replies are attributed to the emission that caused them.
//
// Safety facts (order, too-early listing, handler after rejection, wrong name/arguments) are
// decided on the log alone. Absence facts (no reply, handler never ran) are decided only after
// a logical barrier (reply received / fence acked on the same connection) and one shared
// quiescence wait of >= 15 s; otherwise the case is inconclusive.
package main

import (
	"encoding/json"
	"fmt"
	"math/rand"
	"os"
	"reflect"
	"sort"
	"strings"
	"sync"
	"sync/atomic"
	"time"

	"sioverif/internal/gen"
	"sioverif/internal/rawpeer"
	"sioverif/internal/refcodec"
	"sioverif/internal/vk"
)

const (
	// per-case wait for the expected observations before the case is parked for the shared wait
	shortWaitNormal   = 3 * time.Second
	shortWaitDegraded = 100 * time.Millisecond
	// shared quiescence wait: a parked case is judged no earlier than this after it was parked
	quiescence = 15 * time.Second
	// fences (a round trip on loopback: normally < 5 ms)
	fenceTimeout = 20 * time.Second
	maxParked    = 1200
	// cases parked because an expected observation did not show up in time: the class is
	// established after a few dozen; later ones are judged without absence claims (capped)
	maxParkedTimeouts = 64
	// rendezvous inside middlewares (normally reached within milliseconds)
	syncWaitNormal   = 5 * time.Second
	syncWaitDegraded = 50 * time.Millisecond
)

// ---------- parked cases (absence verdicts share one quiescence wait) ----------

type parkedCase struct {
	at       time.Time
	what     string
	resolved func() bool
	finish   func(mode judgeMode)
}

type judgeMode int

const (
	modeComplete judgeMode = iota // everything expected was observed
	modeFinal                     // judged after the shared quiescence wait: missing = absent
	modeCapped                    // too many parked cases: missing observations are not judged
)

var (
	parkMu         sync.Mutex
	parked         []*parkedCase
	parkedTimeouts int
)

// shortWait: how long a case waits for its expected observations before it is parked. Once
// several cases timed out (a tree that loses replies), later cases are parked quickly; they
// are all judged after the one shared quiescence wait.
func shortWait() time.Duration {
	parkMu.Lock()
	defer parkMu.Unlock()
	if parkedTimeouts >= 4 {
		return shortWaitDegraded
	}
	return shortWaitNormal
}

// park keeps an undecided case open; false when the cap is reached. timedOut tells whether
// an expected observation failed to show up in time (as opposed to a case that has all its
// observations but whose verdict is an absence claim that needs the quiescence wait).
func park(p *parkedCase, timedOut bool) bool {
	parkMu.Lock()
	defer parkMu.Unlock()
	if len(parked) >= maxParked || (timedOut && parkedTimeouts >= maxParkedTimeouts) {
		return false
	}
	if timedOut {
		parkedTimeouts++
	}
	p.at = time.Now()
	parked = append(parked, p)
	return true
}

func settleParked(run *vk.Run) {
	parkMu.Lock()
	ps := parked
	parked = nil
	parkMu.Unlock()
	if len(ps) == 0 {
		return
	}
	run.Logf("%d case(s) parked with missing observations; one shared quiescence wait (>= %v after the last one was parked)", len(ps), quiescence)
	run.Count("parked_cases", int64(len(ps)))
	last := ps[0].at
	for _, p := range ps {
		if p.at.After(last) {
			last = p.at
		}
	}
	deadline := last.Add(quiescence)
	for time.Now().Before(deadline) {
		all := true
		for _, p := range ps {
			if !p.resolved() {
				all = false
				break
			}
		}
		if all {
			break
		}
		time.Sleep(50 * time.Millisecond)
	}
	var wg sync.WaitGroup
	sem := make(chan struct{}, 8)
	for _, p := range ps {
		wg.Add(1)
		sem <- struct{}{}
		go func(p *parkedCase) {
			defer wg.Done()
			defer func() { <-sem }()
			p.finish(modeFinal)
		}(p)
	}
	wg.Wait()
}

// ---------- bounded rendezvous ----------

var syncTimeouts atomic.Int64

// syncWait bounds the rendezvous points the harness places inside middlewares. They only shape
// the interleaving (no verdict depends on them); on a tree where they cannot be reached (e.g.
// chains serialised across connections) they degrade to a short wait after three timeouts.
func syncWait() time.Duration {
	if syncTimeouts.Load() >= 3 {
		return syncWaitDegraded
	}
	return syncWaitNormal
}

// ---------- worker pool ----------

func runPool(workers int, jobs []func()) {
	ch := make(chan func())
	var wg sync.WaitGroup
	for i := 0; i < workers; i++ {
		wg.Add(1)
		go func() {
			defer wg.Done()
			for j := range ch {
				j()
			}
		}()
	}
	for _, j := range jobs {
		ch <- j
	}
	close(ch)
	wg.Wait()
}

// ---------- samples ----------

var (
	sampleMu sync.Mutex
	samples  = map[string]any{}
)

func keepSample(slot string, v any) {
	sampleMu.Lock()
	if _, ok := samples[slot]; !ok {
		samples[slot] = v
	}
	sampleMu.Unlock()
}

func flushSamples(run *vk.Run) {
	sampleMu.Lock()
	defer sampleMu.Unlock()
	keys := make([]string, 0, len(samples))
	for k := range samples {
		keys = append(keys, k)
	}
	sort.Strings(keys)
	// interleave part 1 and part 2 slots so that both are present among the 12 kept samples
	var p1, p2 []string
	for _, k := range keys {
		if strings.HasPrefix(k, "p1") {
			p1 = append(p1, k)
		} else {
			p2 = append(p2, k)
		}
	}
	for i := 0; i < len(p1) || i < len(p2); i++ {
		if i < len(p1) {
			run.Sample(samples[p1[i]])
		}
		if i < len(p2) {
			run.Sample(samples[p2[i]])
		}
	}
}

// ---------- canonical values ----------

// canonArg converts a Go value handed to a callback into a canonical tree; functions become "<func>".
func canonArg(v any) (out any) {
	defer func() {
		if r := recover(); r != nil {
			out = fmt.Sprintf("<uncanonical %T>", v)
		}
	}()
	if v != nil && reflect.TypeOf(v).Kind() == reflect.Func {
		return "<func>"
	}
	return gen.CanonOf(v)
}

func canonList(vs []any) []any {
	out := make([]any, len(vs))
	for i, v := range vs {
		out[i] = canonArg(v)
	}
	return out
}

func show(v any) string {
	s := refcodec.Digest(v)
	if len(s) > 160 {
		s = s[:160] + "..."
	}
	return s
}

// ---------- raw peer helpers ----------

// rawFence round-trips an acked event through the namespace "/fence" on the peer's own
// connection. When it returns nil, everything the server had queued for this connection
// before it queued the ack has arrived (one FIFO queue per connection).
func rawFence(p *rawpeer.SIO, timeout time.Duration) error {
	res, err := p.Connect("/fence", map[string]any{"role": "fence"}, timeout)
	if err != nil {
		return fmt.Errorf("fence connect: %w", err)
	}
	if !res.OK {
		return fmt.Errorf("fence connect refused: %v", res.ErrData)
	}
	if _, _, err := p.WaitPacket(0, timeout, func(q *refcodec.Packet) bool {
		return q.Namespace == "/fence" && rawpeer.EventName(q) == "ready"
	}); err != nil {
		return fmt.Errorf("fence ready: %w", err)
	}
	return rawFenceAgain(p, 1, timeout)
}

func rawFenceAgain(p *rawpeer.SIO, id uint64, timeout time.Duration) error {
	if err := p.Emit("/fence", &id, "fence"); err != nil {
		return fmt.Errorf("fence emit: %w", err)
	}
	if _, _, err := p.WaitPacket(0, timeout, func(q *refcodec.Packet) bool {
		return q.Namespace == "/fence" && q.Type == refcodec.Ack && q.ID != nil && *q.ID == id
	}); err != nil {
		return fmt.Errorf("fence ack: %w", err)
	}
	return nil
}

// dialFenced dials a raw peer and joins the fence namespace before anything else happens on the
// connection, so that later fences are plain acked events on an established socket. (An event
// sent right after CONNECT can reach the server before the connection has registered the new
// socket; the server then closes the connection. That window is outside this property, and a
// connection lost to it here has not been used yet, so it is simply replaced.)
func dialFenced(url, transport string) (*rawpeer.SIO, error) {
	var last error
	for attempt := 0; attempt < 3; attempt++ {
		p, err := rawpeer.DialSIO(url, transport)
		if err != nil {
			last = err
			continue
		}
		if err := rawFence(p, fenceTimeout); err != nil {
			last = err
			p.C.Close()
			continue
		}
		return p, nil
	}
	return nil, last
}

type rawReply struct {
	connects int
	errors   int
	sid      string
	errData  any
}

// rawReplies scans everything the peer received for CONNECT / CONNECT_ERROR of nsp.
func rawReplies(p *rawpeer.SIO, nsp string) rawReply {
	var r rawReply
	for _, sp := range p.Packets() {
		if sp.P.Namespace != nsp {
			continue
		}
		switch sp.P.Type {
		case refcodec.Connect:
			r.connects++
			if m, ok := sp.P.Data.(map[string]any); ok && r.sid == "" {
				r.sid, _ = m["sid"].(string)
			}
		case refcodec.ConnectError:
			r.errors++
			if r.errors == 1 {
				r.errData = sp.P.Data
			}
		}
	}
	return r
}

// replay re-runs the case recorded in a replay file.
func replay(run *vk.Run, path string) error {
	b, err := os.ReadFile(path)
	if err != nil {
		return err
	}
	var rec struct {
		Witness struct {
			P1 *cellSpec `json:"spec_p1"`
			P2 *p2Spec   `json:"spec_p2"`
		} `json:"witness"`
	}
	if err := json.Unmarshal(b, &rec); err != nil {
		return err
	}
	switch {
	case rec.Witness.P1 != nil:
		run.Logf("replaying %s", rec.Witness.P1.id())
		runCell(run, *rec.Witness.P1)
	case rec.Witness.P2 != nil:
		run.Logf("replaying %s", rec.Witness.P2.id())
		runP2(run, *rec.Witness.P2)
	default:
		return fmt.Errorf("%s names no case (spec_p1 / spec_p2)", path)
	}
	return nil
}

func shuffle[T any](r *rand.Rand, xs []T) {
	r.Shuffle(len(xs), func(i, j int) { xs[i], xs[j] = xs[j], xs[i] })
}

func main() {
	run := vk.Start("C12", "exploration")
	run.Rule("part 1: every chain of 0..5 namespace middlewares x first rejection at every position or none x rejection kind {error,string,struct,map} (66 chains) " +
		"x namespace {/,/custom} x {1, 8 clients connecting concurrently; with 8, odd clients are accepted by every middleware while even clients follow the chain} " +
		"x client {Go client, raw peer} x transport; fresh server per cell; every middleware takes state snapshots and fires a tokenised namespace broadcast while it holds the socket; " +
		"distinct = (chain length, rejection position, kind, namespace, clients, client kind, transport) cells in which every client was judged. " +
		"part 2: 0..3 event middlewares x rejecting position or none x 7 handler signatures x {Go client, raw peer} x namespace; one event in flight per socket; " +
		"distinct = (signature, middleware count, rejecting position, client kind, verdict). " +
		"part 3 (sampled, not exhaustive): 30..220 self-identifying events of one socket inside a chain of 2..3 event middlewares at the same time (first middleware slow for every second event, last one rejecting every fifth); " +
		"admission under connection-state recovery {UseMiddlewares false,true} x CONNECT auth {none, made-up pid, made-up pid+offset, empty pid+offset} x middleware {rejecting, accepting}")
	run.Assume("clients identify themselves through the CONNECT auth payload ({cid:n}); the middleware maps socket id -> client from the handshake",
		"a broadcast whose Emit call returned before the last middleware of a socket returned cannot legitimately reach that socket (recipients are computed inside Emit)",
		"absence of a broadcast at a raw peer is concluded after an acked fence event through namespace /fence on the same Engine.IO connection, sent after all Emit calls returned",
		"absence of a reply / handler run is concluded only after a logical barrier plus a shared quiescence wait of 15 s; otherwise inconclusive",
		"event middleware may or may not be handed the ack function as its last variadic argument: a trailing function is ignored when comparing arguments",
		"CONNECT_ERROR: the requirement is that payload.message equals the rejection (error -> its text, string -> the string, struct/map -> JSON-equal); other deviations from the v5 layout {message:string, data?:any} are reported under the separate sub-check connect-error-wire-format")
	race := run.SubMode == "race"
	run.Exhaustive(!race)
	if *vk.FlagReplay != "" {
		// re-run the one cell / socket a replay file names (same spec, same seed)
		if err := replay(run, *vk.FlagReplay); err != nil {
			run.Inconclusive("replay: " + err.Error())
		}
		settleParked(run)
		flushSamples(run)
		run.Finish()
	}
	workers := 8
	if race {
		workers = 4
	}
	var jobs []func()
	// Part 2 first: its absence claims (an event that was dropped) are parked and judged after
	// the shared quiescence wait, which then overlaps with part 1.
	jobs = append(jobs, part2Jobs(run, race)...)
	jobs = append(jobs, part1Jobs(run, race)...)
	jobs = append(jobs, part3Jobs(run, race)...)
	runPool(workers, jobs)
	settleParked(run)
	flushSamples(run)
	if race {
		run.Finish()
	}
	if bin := os.Getenv("VERIF_RACE_BIN"); bin != "" && run.Thorough() {
		if s, err := vk.RunSub(bin, "race", run, 15*time.Minute); err != nil {
			run.Inconclusive("race sub-pass: " + err.Error())
		} else {
			run.Merge("race:", s)
		}
	}
	run.Finish()
}
