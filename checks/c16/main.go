// C16 — the public API is safe under arbitrary concurrent use: no data race, no deadlock.
//
// This check is built with `-race -tags verif,sio_deadlock`. A seeded generator produces
// concurrent API programs (2..16 goroutines, each a random sequence over server / namespace /
// server-socket / manager / client-socket / adapter operations, a share of them issued from
// inside event, ack, connection, disconnecting and disconnect handlers). They run in child
// processes (one per GOMAXPROCS value) under three monitors: the Go race detector
// (halt_on_error=0, reports collected from the log and attributed by the top frame of the two
// accesses), go-deadlock through the repository's own internal/sync aliases (a lock wait of
// 45 s is a violation when the holder turns out to be stuck or gone — decided 70 s later from
// the runtime's wait clock of the holder goroutine; a holder that keeps working is counted
// only; lock-order reports are warnings), and a per-operation watchdog
// (an operation that does not return within 60 s while its peer is alive => violation with a
// goroutine dump). Hooks H1/H2/H4/H5 inject random yields.
package main

import (
	"bytes"
	"fmt"
	"math/rand"
	"os"
	"os/exec"
	"path/filepath"
	"regexp"
	"runtime"
	"sort"
	"strconv"
	"strings"
	"sync"
	"sync/atomic"
	"time"

	mapset "github.com/deckarep/golang-set/v2"
	sio "github.com/karagenc/socket.io-go"
	"github.com/karagenc/socket.io-go/adapter"
	"github.com/sasha-s/go-deadlock"

	"sioverif/internal/rig"
	"sioverif/internal/vk"
)

var hooks = []string{"pollQueue.poll:between-check-and-wait", "packetQueue.poll:between-check-and-wait", "serverConn.connect:after-nsp-add", "clientSocket.onConnect:before-flush"}

type opLog struct {
	mu    sync.Mutex
	open  map[int64]string
	seq   atomic.Int64
	kinds map[string]int
	pairs map[string]struct{}
}

func (l *opLog) begin(kind string) int64 {
	id := l.seq.Add(1)
	l.mu.Lock()
	for _, other := range l.open {
		a, b := kind, other
		if a > b {
			a, b = b, a
		}
		l.pairs[a+"||"+b] = struct{}{}
	}
	l.open[id] = kind
	l.kinds[kind]++
	l.mu.Unlock()
	return id
}

func (l *opLog) end(id int64) {
	l.mu.Lock()
	delete(l.open, id)
	l.mu.Unlock()
}

type world struct {
	run     *vk.Run
	log     *opLog
	srv     *rig.Server
	mgrs    []*sio.Manager
	socks   []sio.ClientSocket // client sockets (all namespaces)
	smu     sync.Mutex
	ssocks  []sio.ServerSocket
	hangs   atomic.Int32
	inHandl atomic.Int64
	program int
}

var nsps = []string{"/", "/b"}
var rooms = []adapter.Room{"r1", "r2", "r3"}

func (w *world) serverSocket(r *rand.Rand) sio.ServerSocket {
	w.smu.Lock()
	defer w.smu.Unlock()
	if len(w.ssocks) == 0 {
		return nil
	}
	return w.ssocks[r.Intn(len(w.ssocks))]
}

// do runs one operation under the watchdog.
func (w *world) do(kind string, f func()) {
	if w.hangs.Load() > 0 {
		return // this program already hangs: the verdict is in, the remaining operations would only queue behind it
	}
	id := w.log.begin(kind)
	done := make(chan struct{})
	go func() {
		defer close(done)
		defer func() {
			if p := recover(); p != nil {
				w.run.Violation(vk.Violation{Sub: "api-panic", Fields: map[string]any{"op": kind},
					What: fmt.Sprintf("operation %s panicked: %v", kind, p), Witness: map[string]any{"program": w.program, "seed": w.run.Seed()}})
			}
		}()
		f()
	}()
	limit := 60 * time.Second
	if w.hangs.Load() > 0 {
		limit = 2 * time.Second // this program is already known to hang: do not pay a minute per remaining operation
	}
	select {
	case <-done:
	case <-time.After(limit):
		if w.hangs.Add(1) <= 3 && limit == 60*time.Second {
			w.run.Violation(vk.Violation{Sub: "hang", Fields: map[string]any{"op": kind},
				What:    fmt.Sprintf("operation %s did not return within 60 s (program %d)", kind, w.program),
				Witness: map[string]any{"program": w.program, "seed": w.run.Seed(), "stacks": vk.DumpGoroutines("c16-hang-" + kind)}})
		}
	}
	w.log.end(id)
}

// chainAck builds an acknowledgement callback that emits again, with an acknowledgement, on the same socket from
// inside the callback (two levels deep): acknowledgement handlers are handlers too, and they must be able to
// use the socket they belong to.
func (w *world) chainAck(emit func(cb func(int)), depth int) func(int) {
	return func(int) {
		if depth < 2 && w.inHandl.Add(1) <= 2000 {
			emit(w.chainAck(emit, depth+1))
		}
	}
}

func noopHandlers() []any {
	return []any{func() {}, func(int) {}, func(string, int) {}}
}

var (
	hA = func(n int) {}
	hB = func(n int) {}
	hC = func(n int, ack func(int)) { ack(n) }
)

// randomOp performs one random API operation. inHandler limits to non-blocking ones.
func (w *world) randomOp(r *rand.Rand, inHandler bool) {
	// handlers fire while runProgram is still creating managers and sockets: read the lists under the lock
	w.smu.Lock()
	socks, mgrs := w.socks, w.mgrs
	w.smu.Unlock()
	if len(socks) == 0 || len(mgrs) == 0 {
		return
	}
	cs := socks[r.Intn(len(socks))]
	ss := w.serverSocket(r)
	m := mgrs[r.Intn(len(mgrs))]
	nsp := w.srv.IO.Of(nsps[r.Intn(len(nsps))])
	room := rooms[r.Intn(len(rooms))]
	n := r.Intn(1000)
	pick := r.Intn(46)
	switch pick {
	case 0:
		w.do("client.Emit", func() { cs.Emit("e", n) })
	case 1:
		w.do("client.Emit+ack", func() { cs.Emit("ea", n, w.chainAck(func(cb func(int)) { cs.Emit("ea", n, cb) }, 0)) })
	case 2:
		w.do("client.Timeout.Emit", func() { cs.Timeout(50*time.Millisecond).Emit("ea", n, func(error, int) {}) })
	case 3:
		w.do("client.Volatile.Emit", func() { cs.Volatile().Emit("e", n) })
	case 4:
		w.do("client.Emit(binary)", func() { cs.Emit("bin", sio.Binary{1, 2, 3}, map[string]any{"b": sio.Binary{4}}) })
	case 5:
		w.do("client.OnEvent", func() { cs.OnEvent("x", hA) })
	case 6:
		w.do("client.OnceEvent", func() { cs.OnceEvent("x", hB) })
	case 7:
		w.do("client.OffEvent", func() { cs.OffEvent("x", hA) })
	case 8:
		w.do("client.OffEvent(all)", func() { cs.OffEvent("x") })
	case 9:
		w.do("client.OnConnect/Off", func() { f := sio.ClientSocketConnectFunc(func() {}); cs.OnConnect(f); cs.OffConnect(f) })
	case 10:
		w.do("client.OnDisconnect/Off", func() {
			f := sio.ClientSocketDisconnectFunc(func(sio.Reason) {})
			cs.OnceDisconnect(f)
			cs.OffDisconnect(f)
		})
	case 11:
		w.do("client.Connected/ID/Active", func() { cs.Connected(); cs.ID(); cs.Active(); cs.Recovered() })
	case 12:
		if !inHandler {
			w.do("client.Disconnect+Connect", func() { cs.Disconnect(); cs.Connect() })
		}
	case 13:
		w.do("client.Connect", func() { cs.Connect() })
	case 14:
		w.do("client.SetAuth/Auth", func() { cs.SetAuth(map[string]any{"k": n}); cs.Auth() })
	case 15:
		w.do("manager.On/Off", func() {
			f := sio.ManagerErrorFunc(func(error) {})
			m.OnError(f)
			m.OffError(f)
			g := sio.ManagerPingFunc(func() {})
			m.OncePing(g)
			m.OffPing(g)
		})
	case 16:
		w.do("manager.Socket", func() { m.Socket(nsps[r.Intn(len(nsps))], nil) })
	case 17:
		w.do("server.Emit", func() { w.srv.IO.Emit("e", n) })
	case 18:
		w.do("nsp.Emit", func() { nsp.Emit("e", n) })
	case 19:
		w.do("nsp.To.Except.Emit", func() { nsp.To(room).Except(rooms[(n+1)%3]).Emit("e", n) })
	case 20:
		w.do("nsp.Sockets/FetchSockets", func() { nsp.Sockets(); nsp.FetchSockets() })
	case 21:
		w.do("nsp.SocketsJoin", func() { nsp.In(room).SocketsJoin(rooms[(n+1)%3]) })
	case 22:
		w.do("nsp.SocketsLeave", func() { nsp.SocketsLeave(room) })
	case 23:
		w.do("nsp.OnConnection/Off", func() {
			f := sio.NamespaceConnectionFunc(func(sio.ServerSocket) {})
			nsp.OnceConnection(f)
			nsp.OffConnection(f)
		})
	case 24:
		w.do("nsp.OnEvent/Off", func() { nsp.OnEvent("sse", hA); nsp.OffEvent("sse", hA) })
	case 25:
		w.do("adapter.Sockets/SocketRooms", func() {
			nsp.Adapter().Sockets(mapset.NewSet(room))
			if ss != nil {
				nsp.Adapter().SocketRooms(ss.ID())
			}
		})
	case 26:
		w.do("server.OnAnyConnection/Off", func() {
			f := sio.ServerAnyConnectionFunc(func(string, sio.ServerSocket) {})
			w.srv.IO.OnAnyConnection(f)
			w.srv.IO.OffAnyConnection(f)
		})
	case 27:
		w.do("server.Of(new)", func() { w.srv.IO.Of(fmt.Sprintf("/dyn%d", n%4)) })
	}
	if ss == nil {
		return
	}
	switch pick {
	case 28:
		w.do("ss.Emit", func() { ss.Emit("e", n) })
	case 29:
		w.do("ss.Emit+ack", func() { ss.Emit("ea", n, w.chainAck(func(cb func(int)) { ss.Emit("ea", n, cb) }, 0)) })
	case 30:
		w.do("ss.Timeout.Emit", func() { ss.Timeout(50*time.Millisecond).Emit("ea", n, func(error, int) {}) })
	case 31:
		w.do("ss.Join", func() { ss.Join(room, rooms[(n+1)%3]) })
	case 32:
		w.do("ss.Leave", func() { ss.Leave(room) })
	case 33:
		w.do("ss.Rooms", func() { ss.Rooms() })
	case 34:
		w.do("ss.To.Emit", func() { ss.To(room).Emit("e", n) })
	case 35:
		w.do("ss.Broadcast.Emit", func() { ss.Broadcast().Emit("e", n) })
	case 36:
		w.do("ss.Except.Emit", func() { ss.Except(room).Emit("e", n) })
	case 37:
		w.do("ss.OnEvent", func() { ss.OnEvent("y", hA) })
	case 38:
		w.do("ss.OnceEvent/OffEvent", func() { ss.OnceEvent("y", hB); ss.OffEvent("y", hB) })
	case 39:
		w.do("ss.OnDisconnect/Off", func() {
			f := sio.ServerSocketDisconnectFunc(func(sio.Reason) {})
			ss.OnDisconnect(f)
			ss.OffDisconnect(f)
		})
	case 40:
		w.do("ss.OnError/Off", func() { f := sio.ServerSocketErrorFunc(func(error) {}); ss.OnceError(f); ss.OffError(f) })
	case 41:
		w.do("ss.Use", func() { ss.Use(func(string, ...any) error { return nil }) })
	case 42:
		w.do("ss.Connected/ID", func() { ss.Connected(); ss.ID(); ss.Recovered(); ss.Namespace(); ss.Server() })
	case 43:
		if !inHandler && r.Intn(4) == 0 {
			w.do("ss.Disconnect(false)", func() { ss.Disconnect(false) })
		}
	case 44:
		if !inHandler && r.Intn(8) == 0 {
			w.do("nsp.DisconnectSockets(false)", func() { nsp.In(room).DisconnectSockets(false) })
		}
	case 45:
		if !inHandler && r.Intn(8) == 0 {
			w.do("ss.Disconnect(true)", func() { ss.Disconnect(true) })
		}
	}
}

func runProgram(run *vk.Run, log *opLog, program int, r *rand.Rand) {
	run.Eval(1)
	w := &world{run: run, log: log, program: program}
	goroutines := 2 + r.Intn(15)
	opsPer := 15 + r.Intn(25)
	transports := [][]string{{"websocket"}, {"polling"}, {"polling", "websocket"}}[program%3]
	recovery := program%4 == 0
	scfg := &sio.ServerConfig{}
	scfg.ServerConnectionStateRecovery.Enabled = recovery
	srv, err := rig.NewServer(scfg, "")
	if err != nil {
		run.Inconclusive(err.Error())
		return
	}
	w.srv = srv
	// handler-issued operations get their own PRNGs
	var hseed atomic.Int64
	hseed.Store(r.Int63())
	hr := func() *rand.Rand { return rand.New(rand.NewSource(hseed.Add(7919))) }
	fromHandler := func(kind string) {
		if w.inHandl.Add(1) > 2000 {
			return // bound the cascade
		}
		hrand := hr()
		if hrand.Intn(3) == 0 {
			w.randomOp(hrand, true)
		}
	}
	for _, name := range nsps {
		nsp := srv.IO.Of(name)
		nsp.OnConnection(func(s sio.ServerSocket) {
			s.OnEvent("e", func(n int) { fromHandler("server-event") })
			s.OnEvent("ea", func(n int, ack func(int)) { ack(n); fromHandler("server-event-ack") })
			s.OnEvent("bin", func(b sio.Binary, m map[string]any) {})
			s.OnDisconnecting(func(sio.Reason) { s.Rooms(); fromHandler("disconnecting") })
			s.OnDisconnect(func(sio.Reason) {
				w.smu.Lock()
				for i, x := range w.ssocks {
					if x == s {
						w.ssocks = append(w.ssocks[:i], w.ssocks[i+1:]...)
						break
					}
				}
				w.smu.Unlock()
				fromHandler("disconnect")
			})
			s.Join(rooms[len(s.ID())%3])
			w.smu.Lock()
			w.ssocks = append(w.ssocks, s)
			w.smu.Unlock()
			fromHandler("connection")
		})
	}
	for i := 0; i < 3; i++ {
		mcfg := rig.ManagerConfig(transports...)
		mcfg.ReconnectionDelay = rig.Dur(20 * time.Millisecond)
		mcfg.ReconnectionDelayMax = rig.Dur(50 * time.Millisecond)
		m := sio.NewManager(srv.URL, mcfg)
		w.smu.Lock()
		w.mgrs = append(w.mgrs, m)
		w.smu.Unlock()
		// Manager lifecycle handlers are handlers too (seeded C16-H: open handlers run with the Manager's
		// connection locks held): besides a random operation they stop and restart the very Manager / one of its
		// sockets they belong to, or emit on it — from inside the handler, under the per-operation hang watchdog.
		var mineMu sync.Mutex
		var mine []sio.ClientSocket
		lifecycle := func(kind string) {
			fromHandler(kind)
			mineMu.Lock()
			own := append([]sio.ClientSocket(nil), mine...)
			mineMu.Unlock()
			if w.inHandl.Add(1) > 2000 || len(own) == 0 {
				return
			}
			hrand := hr()
			cs := own[hrand.Intn(len(own))]
			switch hrand.Intn(12) {
			case 0:
				w.do(kind+":socket.Disconnect+Connect", func() { cs.Disconnect(); cs.Connect() })
			case 1:
				w.do(kind+":manager.Close+Open", func() { m.Close(); m.Open() })
			case 2, 3:
				w.do(kind+":socket.Emit", func() { cs.Emit("e", 1) })
			case 4:
				w.do(kind+":socket.Emit+ack", func() { cs.Emit("ea", 1, func(int) {}) })
			case 5:
				w.do(kind+":manager.Socket", func() { m.Socket(nsps[hrand.Intn(len(nsps))], nil) })
			}
		}
		m.OnOpen(func() { lifecycle("manager-open") })
		m.OnClose(func(sio.Reason, error) { lifecycle("manager-close") })
		m.OnReconnect(func(uint32) { lifecycle("manager-reconnect") })
		m.OnReconnectAttempt(func(uint32) { lifecycle("manager-reconnect-attempt") })
		m.OnError(func(error) { lifecycle("manager-error") })
		for _, name := range nsps {
			s := m.Socket(name, nil)
			s.OnEvent("e", func(n int) { fromHandler("client-event") })
			s.OnEvent("ea", func(n int, ack func(int)) { ack(n); fromHandler("client-event-ack") })
			s.OnConnect(func() { fromHandler("client-connect") })
			s.OnDisconnect(func(sio.Reason) { fromHandler("client-disconnect") })
			w.smu.Lock()
			w.socks = append(w.socks, s)
			w.smu.Unlock()
			mineMu.Lock()
			mine = append(mine, s)
			mineMu.Unlock()
			s.Connect()
		}
	}
	vk.WaitUntil(20*time.Second, func() bool { w.smu.Lock(); defer w.smu.Unlock(); return len(w.ssocks) >= 6 })
	var wg sync.WaitGroup
	for g := 0; g < goroutines; g++ {
		wg.Add(1)
		gr := rand.New(rand.NewSource(r.Int63()))
		go func() {
			defer wg.Done()
			for i := 0; i < opsPer; i++ {
				w.randomOp(gr, false)
			}
		}()
	}
	if !vk.Watchdog(10*time.Minute, wg.Wait) {
		run.Inconclusive(fmt.Sprintf("program %d did not finish (hang verdicts are reported per operation)", program))
	}
	for _, m := range w.mgrs {
		m := m
		w.do("manager.Close", func() { m.Close() })
	}
	w.do("server.Close", func() { srv.IO.Close() })
	if w.hangs.Load() > 0 {
		go srv.Close() // may never return on a deadlocked tree
	} else {
		srv.Close()
	}
	run.Distinct(fmt.Sprintf("program/g=%d/%s/rec=%v", goroutines, strings.Join(transports, "+"), recovery))
}

// ---------- child ----------

func childMain(run *vk.Run) {
	var dlMu sync.Mutex
	var dlBuf bytes.Buffer
	deadlock.Opts.DeadlockTimeout = 45 * time.Second
	deadlock.Opts.LogBuf = &lockedWriter{mu: &dlMu, buf: &dlBuf}
	var waits, orders, stuck atomic.Int32
	var pendingVerdicts atomic.Int32
	deadlock.Opts.OnPotentialDeadlock = func() {
		dlMu.Lock()
		txt := dlBuf.String()
		dlBuf.Reset()
		dlMu.Unlock()
		if strings.Contains(txt, "Inconsistent locking") || strings.Contains(txt, "Recursive locking") {
			if orders.Add(1) <= 5 {
				os.WriteFile(filepath.Join(vk.Root, ".work", fmt.Sprintf("c16-lockorder-%d-%d.txt", os.Getpid(), orders.Load())), []byte(txt), 0o644)
			}
			run.Count("lock_order_reports(warning)", 1)
			return
		}
		// A lock that could not be taken for 45 s is a deadlock only if its holder is stuck. The holder
		// may also be busy for a long time and release the lock later (Manager.reconnect keeps
		// connectMu for the whole reconnection loop while the server is down; the goroutines of
		// concurrent Open() calls queue behind it, no public call is blocked): that is not a
		// violation. Deciding observation: 70 s later the runtime's own wait clock of the holder
		// goroutine ("[semacquire, 1 minutes]") says whether it has been parked in ONE wait for more
		// than a minute; a holder that no longer exists left the mutex locked.
		holder := holderGID(txt)
		waiter := waiterGID(txt)
		go func() {
			time.Sleep(70 * time.Second)
			all := allStacks()
			hdr, hstack, exists := goroutineBlock(all, holder)
			_, wstack, wexists := goroutineBlock(all, waiter)
			stillWaiting := wexists && strings.Contains(wstack, "go-deadlock")
			verdict := ""
			switch {
			case !stillWaiting:
				// the waiter got the lock in the meantime
			case holder != "" && !exists:
				verdict = "the goroutine that took the mutex has exited without releasing it"
			case exists && parkedMinutes(hdr) >= 1:
				verdict = "the holder has been parked in one wait for over a minute: " + hdr
			}
			if verdict == "" {
				run.Count("long_lock_wait_holder_progressing(no violation)", 1)
				if lw := waits.Add(1); lw <= 3 {
					os.WriteFile(filepath.Join(vk.Root, ".work", fmt.Sprintf("c16-longwait-%d-%d.txt", os.Getpid(), lw)), []byte(txt+"\n--- 70 s later, holder:\n"+hdr+"\n"+hstack), 0o644)
				}
				return
			}
			if stuck.Add(1) <= 3 {
				p := filepath.Join(vk.Root, ".work", fmt.Sprintf("c16-lockwait-%d-%d.txt", os.Getpid(), stuck.Load()))
				os.WriteFile(p, []byte(txt+"\n--- 70 s later, holder:\n"+hdr+"\n"+hstack), 0o644)
				run.Violation(vk.Violation{Sub: "lock-wait-timeout", Fields: map[string]any{}, What: "go-deadlock: a mutex could not be acquired for 45 s and " + verdict + " :: " + firstRepoLine(txt),
					Witness: map[string]any{"report": p, "stacks": vk.DumpGoroutines("c16-lockwait")}})
			}
		}()
		pendingVerdicts.Add(1)
		go func() { time.Sleep(72 * time.Second); pendingVerdicts.Add(-1) }()
	}
	// random yields at the hooks
	var yseed atomic.Int64
	for _, h := range hooks {
		sio.VerifHookSet(h, func() {
			if v := yseed.Add(1); v%3 == 0 {
				runtime.Gosched()
			} else if v%17 == 0 {
				time.Sleep(50 * time.Microsecond)
			}
		})
	}
	log := &opLog{open: map[int64]string{}, kinds: map[string]int{}, pairs: map[string]struct{}{}}
	n := run.Pick(60, 400)
	base := run.Rand(fmt.Sprintf("c16/%s", os.Getenv("GOMAXPROCS")))
	for p := 0; p < n; p++ {
		runProgram(run, log, p, rand.New(rand.NewSource(base.Int63())))
		if run.Violations() > 1 {
			break // a tree that hangs costs a minute per program: enough evidence
		}
	}
	vk.WaitUntil(80*time.Second, func() bool { return pendingVerdicts.Load() == 0 })
	log.mu.Lock()
	for pair := range log.pairs {
		run.Distinct("overlap:" + pair)
	}
	for k, v := range log.kinds {
		run.Count("op:"+k, int64(v))
	}
	log.mu.Unlock()
	for _, h := range hooks {
		run.Count("hook:"+h, sio.VerifHookHits(h))
	}
	run.Finish()
}

type lockedWriter struct {
	mu  *sync.Mutex
	buf *bytes.Buffer
}

func (w *lockedWriter) Write(p []byte) (int, error) {
	w.mu.Lock()
	defer w.mu.Unlock()
	return w.buf.Write(p)
}

var (
	reHolder  = regexp.MustCompile(`Previous place where the lock was grabbed\ngoroutine (\d+) lock`)
	reWaiter  = regexp.MustCompile(`Have been trying to lock it again for more than [^\n]*\ngoroutine (\d+) lock`)
	reMinutes = regexp.MustCompile(`, (\d+) minutes`)
)

func holderGID(txt string) string {
	if m := reHolder.FindStringSubmatch(txt); m != nil {
		return m[1]
	}
	return ""
}

func waiterGID(txt string) string {
	if m := reWaiter.FindStringSubmatch(txt); m != nil {
		return m[1]
	}
	return ""
}

func allStacks() string {
	buf := make([]byte, 64<<20)
	return string(buf[:runtime.Stack(buf, true)])
}

// goroutineBlock returns the header line and the stack of goroutine gid in a runtime.Stack(all) dump.
func goroutineBlock(all, gid string) (header, stack string, ok bool) {
	if gid == "" {
		return "", "", false
	}
	pre := "goroutine " + gid + " ["
	for _, g := range strings.Split(all, "\n\n") {
		if strings.HasPrefix(g, pre) {
			if i := strings.Index(g, "\n"); i > 0 {
				return g[:i], g[i+1:], true
			}
			return g, "", true
		}
	}
	return "", "", false
}

func parkedMinutes(header string) int {
	if m := reMinutes.FindStringSubmatch(header); m != nil {
		n, _ := strconv.Atoi(m[1])
		return n
	}
	return 0
}

func firstRepoLine(txt string) string {
	for _, l := range strings.Split(txt, "\n") {
		if strings.Contains(l, "socket.io-go") && !strings.Contains(l, "internal/sync") {
			return strings.TrimSpace(l)
		}
	}
	return ""
}

// ---------- parent ----------

var accessHeader = regexp.MustCompile(`^(Read|Write|Previous read|Previous write|Atomic read|Atomic write|Previous atomic read|Previous atomic write) at 0x[0-9a-f]+ by `)

// accessFrames returns, for each of the two racing accesses of a report block, the first
// frame that is not in the Go runtime / standard library (the code that performed the access).
func accessFrames(blk string) []string {
	var out []string
	lines := strings.Split(blk, "\n")
	for i := 0; i < len(lines); i++ {
		if !accessHeader.MatchString(lines[i]) {
			continue
		}
		for j := i + 1; j < len(lines) && strings.TrimSpace(lines[j]) != ""; j++ {
			l := lines[j]
			if !strings.HasPrefix(l, "  ") || strings.HasPrefix(l, "      ") {
				continue // file:line lines
			}
			fn := strings.TrimSpace(l)
			if k := strings.Index(fn, "("); k > 0 && !strings.HasPrefix(fn, "(") {
				// keep receiver types: function name ends at the last "(" that starts the argument list "()"
			}
			fn = strings.TrimSuffix(fn, "()")
			first := fn
			if k := strings.Index(first, "/"); k >= 0 {
				first = first[:k]
			} else if k := strings.Index(first, "."); k >= 0 {
				first = first[:k]
			}
			std := !strings.Contains(first, ".") && first != "main" && first != "sioverif"
			if std {
				continue // runtime, sync, reflect, net/http, ...
			}
			out = append(out, fn)
			break
		}
	}
	return out
}

func main() {
	run := vk.Start("C16", "exploration")
	if run.SubMode == "worker" {
		childMain(run)
		return
	}
	run.Rule("seeded generator of concurrent API programs: 2..16 goroutines x 15..40 operations drawn from 46 public operations on server / namespace / server socket / manager / client socket / adapter, one third of handler invocations issuing an operation themselves; " +
		"transports and recovery vary per program; one child process per GOMAXPROCS in {1,2,4,16}; distinct = distinct unordered pairs of operation kinds that were observed overlapping in time (by call/return intervals), plus program shapes")
	run.Assume("built with -race -tags verif,sio_deadlock", "a race report counts when the top frame of one of the two accesses is in the repository (not in the harness or a dependency)",
		"go-deadlock lock-order reports are warnings (known false positives); a lock wait > 45 s is a violation when, 70 s later, the waiter still waits and the holder has exited or has been parked in one wait for over a minute (runtime wait clock) — a holder that keeps working, like the reconnection loop holding connectMu, is counted only; an operation not returning within 60 s is a violation")
	work := filepath.Join(vk.Root, ".work")
	os.MkdirAll(work, 0o755)
	gomax := []string{"16", "4"}
	if run.Thorough() {
		gomax = []string{"1", "2", "4", "16"}
	}
	totalRaces := 0
	seen := map[string]bool{}
	for _, gm := range gomax {
		out := filepath.Join(work, fmt.Sprintf("c16-sub-%d-%s.json", os.Getpid(), gm))
		raceLog := filepath.Join(work, fmt.Sprintf("c16-race-%d-%s", os.Getpid(), gm))
		cmd := exec.Command(os.Args[0], "-tier", run.Tier(), "-seed", fmt.Sprint(run.Seed()), "-sub", "worker", "-subout", out)
		cmd.Env = append(os.Environ(), "GOMAXPROCS="+gm, "GORACE=halt_on_error=0 log_path="+raceLog)
		cmd.Stdout = os.Stdout
		cmd.Stderr = os.Stdout
		err := cmd.Run()
		if s, rerr := readSummary(out); rerr == nil {
			run.Merge("gomaxprocs="+gm+":", s)
		} else {
			run.Violation(vk.Violation{Sub: "child-died", Fields: map[string]any{"gomaxprocs": gm},
				What: fmt.Sprintf("worker process ended without a summary (%v): a fatal error (e.g. concurrent map access) or go-deadlock exit", err), Witness: map[string]any{"gomaxprocs": gm}})
		}
		matches, _ := filepath.Glob(raceLog + ".*")
		for _, m := range matches {
			data, _ := os.ReadFile(m)
			for _, blk := range strings.Split(string(data), "==================") {
				if !strings.Contains(blk, "WARNING: DATA RACE") {
					continue
				}
				totalRaces++
				var fr []string
				repo := false
				for _, t := range accessFrames(blk) {
					fr = append(fr, t)
					if strings.Contains(t, "github.com/karagenc/socket") {
						repo = true
					}
				}
				sort.Strings(fr)
				key := strings.Join(fr, " <-> ")
				if !repo {
					run.Count("race_reports_outside_repo", 1)
					continue
				}
				if seen[key] {
					continue
				}
				seen[key] = true
				p := filepath.Join(work, fmt.Sprintf("c16-race-report-%d-%d.txt", os.Getpid(), len(seen)))
				os.WriteFile(p, []byte(blk), 0o644)
				run.Violation(vk.Violation{Sub: "data-race", Fields: map[string]any{"pair": key},
					What: "race detector: " + key, Witness: map[string]any{"report_file": p, "report": truncate(blk, 3000), "gomaxprocs": gm}})
			}
		}
	}
	run.Note("race_report_blocks_total", totalRaces)
	run.Sample(map[string]any{"program_shape": "3 managers x 2 namespaces, g goroutines x n ops, handlers issue ops", "gomaxprocs_values": gomax})
	run.Finish()
}

func readSummary(path string) (*vk.Summary, error) {
	return vk.ReadSummary(path)
}

func truncate(s string, n int) string {
	if len(s) > n {
		return s[:n] + "..."
	}
	return s
}
