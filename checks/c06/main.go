// C06 — every connection end is reported exactly once and leaves nothing on the server.
//
// Fault enumeration: cause x phase trials against a real server, driven by a raw protocol
// peer (precise control over what is on the wire) through a byte-accurate TCP fault proxy,
// plus scripted sessions cut at every k-th byte in either direction, plus several causes
// fired at once. Monitors: per-socket counters on connection / disconnecting / disconnect
// handler entry with the reported reason; a quiescent-point sweep over the public getters,
// the adapter index invariant hook, the Engine.IO session-count hook and an independent
// HTTP probe with the old sid.
package main

import (
	"encoding/json"
	"fmt"
	"github.com/karagenc/socket.io-go/parser"
	"io"
	"net/http"
	"os"
	"sort"
	"strings"
	"sync"
	"sync/atomic"
	"time"

	mapset "github.com/deckarep/golang-set/v2"
	sio "github.com/karagenc/socket.io-go"
	"github.com/karagenc/socket.io-go/adapter"

	"sioverif/internal/proxy"
	"sioverif/internal/rawpeer"
	"sioverif/internal/refcodec"
	"sioverif/internal/rig"
	"sioverif/internal/vk"
)

type sockRec struct {
	id            string
	connected     int
	disconnecting []string
	disconnect    []string
	ss            sio.ServerSocket
}

type world struct {
	srv   *rig.Server
	px    *proxy.Proxy
	nsps  []string
	mu    sync.Mutex
	socks map[string]*sockRec
	order []*sockRec
	// middleware parking
	park     chan struct{} // non-nil => middleware of sockets with auth park=true waits on it
	parked   chan string
	pingI    time.Duration
	pingT    time.Duration
	events   int
	released bool
	// per-socket options taken from the CONNECT auth payload by the middleware
	opts       map[string]sockOpts
	byeStarted chan struct{} // a "slowbye" socket has entered its disconnecting handler
	stops      []chan struct{}
	// admission gate: the adapters are wrapped (public AdapterCreator option); when armed, the next AddAll
	// (the join of the socket's own room during its admission) announces itself and waits to be released
	inner        map[string]adapter.Adapter // namespace adapter as created by the library (for the index hooks)
	admit        chan struct{}
	admitEntered chan struct{}
}

type gateAdapter struct {
	adapter.Adapter
	w *world
}

func (g *gateAdapter) AddAll(sid adapter.SocketID, rooms []adapter.Room) {
	g.w.mu.Lock()
	gate := g.w.admit
	g.w.admit = nil // one shot
	g.w.mu.Unlock()
	if gate != nil {
		select {
		case g.w.admitEntered <- struct{}{}:
		default:
		}
		select {
		case <-gate:
		case <-time.After(20 * time.Second):
		}
	}
	g.Adapter.AddAll(sid, rooms)
}

func (w *world) adapterOf(nsp *sio.Namespace) adapter.Adapter {
	if g, ok := nsp.Adapter().(*gateAdapter); ok {
		return g.Adapter
	}
	return nsp.Adapter()
}

type sockOpts struct {
	Park    bool `json:"park"`
	Joiner  bool `json:"joiner"`  // goroutines keep calling Join/Leave on the socket until shortly after its disconnect handler
	SlowBye bool `json:"slowbye"` // the disconnecting handler takes 40 ms
	SlowReg bool `json:"slowreg"` // the connection handler works for 20 ms before it registers its handlers
}

func newWorld(pingI, pingT time.Duration) (*world, error) { return newWorldAuth(pingI, pingT, 0) }

// newWorldAuth: authDelay > 0 makes the server's Authenticator hold every handshake for that long.
func newWorldAuth(pingI, pingT, authDelay time.Duration) (*world, error) {
	w := &world{socks: map[string]*sockRec{}, nsps: []string{"/", "/b"}, parked: make(chan string, 64), pingI: pingI, pingT: pingT,
		opts: map[string]sockOpts{}, byeStarted: make(chan struct{}, 8), admitEntered: make(chan struct{}, 8)}
	cfg := &sio.ServerConfig{}
	mkAdapter := adapter.NewInMemoryAdapterCreator()
	cfg.AdapterCreator = func(st adapter.SocketStore, pc parser.Creator) adapter.Adapter {
		return &gateAdapter{Adapter: mkAdapter(st, pc), w: w}
	}
	cfg.EIO.PingInterval = pingI
	cfg.EIO.PingTimeout = pingT
	if authDelay > 0 {
		cfg.EIO.Authenticator = func(http.ResponseWriter, *http.Request) bool { time.Sleep(authDelay); return true }
	}
	srv, err := rig.NewServer(cfg, "")
	if err != nil {
		return nil, err
	}
	w.srv = srv
	w.px, err = proxy.New(srv.Addr)
	if err != nil {
		srv.Close()
		return nil, err
	}
	for _, name := range w.nsps {
		nsp := srv.IO.Of(name)
		nsp.Use(func(s sio.ServerSocket, h *sio.Handshake) any {
			var a sockOpts
			json.Unmarshal(h.Auth, &a)
			w.mu.Lock()
			w.opts[string(s.ID())] = a
			w.mu.Unlock()
			if a.Park {
				w.mu.Lock()
				ch := w.park
				w.mu.Unlock()
				if ch != nil {
					w.parked <- string(s.ID())
					<-ch
				}
			}
			return nil
		})
		nsp.OnConnection(func(s sio.ServerSocket) {
			rec := &sockRec{id: string(s.ID()), ss: s}
			w.mu.Lock()
			if old := w.socks[rec.id]; old != nil {
				rec = old
			} else {
				w.socks[rec.id] = rec
				w.order = append(w.order, rec)
			}
			rec.connected++
			opt := w.opts[rec.id]
			w.mu.Unlock()
			if opt.SlowReg {
				time.Sleep(20 * time.Millisecond)
			}
			s.OnDisconnecting(func(r sio.Reason) {
				w.mu.Lock()
				rec.disconnecting = append(rec.disconnecting, string(r))
				w.mu.Unlock()
			})
			s.OnDisconnect(func(r sio.Reason) { w.mu.Lock(); rec.disconnect = append(rec.disconnect, string(r)); w.mu.Unlock() })
			if opt.SlowBye {
				s.OnDisconnecting(func(sio.Reason) {
					select {
					case w.byeStarted <- struct{}{}:
					default:
					}
					time.Sleep(40 * time.Millisecond)
				})
			}
			if opt.Joiner {
				stop := make(chan struct{})
				w.mu.Lock()
				w.stops = append(w.stops, stop)
				w.mu.Unlock()
				var once sync.Once
				s.OnDisconnect(func(sio.Reason) {
					time.AfterFunc(20*time.Millisecond, func() { once.Do(func() { close(stop) }) })
				})
				for g := 0; g < 4; g++ {
					go func(g int) {
						for i := 0; ; i++ {
							select {
							case <-stop:
								return
							default:
							}
							room := sio.Room(fmt.Sprintf("jr%d", (g+i)%5))
							s.Join(room)
							if i%3 == 0 {
								s.Leave(room)
							}
						}
					}(g)
				}
			}
			s.OnEvent("e", func(n int) { w.mu.Lock(); w.events++; w.mu.Unlock() })
			s.OnEvent("ea", func(n int, ack func(int)) { ack(n) })
			s.OnEvent("burst-me", func(n int) {
				for i := 0; i < n; i++ {
					s.Emit("b", i, strings.Repeat("x", 200))
				}
			})
			s.Join("room1", "room2")
		})
	}
	return w, nil
}

func (w *world) close() {
	w.px.Close()
	w.srv.Close()
	w.mu.Lock()
	stops := w.stops
	w.stops = nil
	w.mu.Unlock()
	for _, st := range stops {
		func() {
			defer func() { recover() }() // already closed by the disconnect handler
			close(st)
		}()
	}
}

func (w *world) url() string { return w.px.URL("/socket.io/") }

func (w *world) recsSince(n int) []*sockRec {
	w.mu.Lock()
	defer w.mu.Unlock()
	return append([]*sockRec(nil), w.order[n:]...)
}

func (w *world) nrecs() int { w.mu.Lock(); defer w.mu.Unlock(); return len(w.order) }

// sweep is the quiescent-point check. It polls until the server state is stable and clean
// or the watchdog fires, then reports what is left.
type sweepResult struct {
	leftSockets  []string
	leftRooms    map[string][]string
	sessions     int
	indexErr     string
	probeStatus  int
	probeBody    string
	unfinished   []string // sockets that connected but lack a disconnect
	multi        []string
	badReasons   []string
	disconnectNo int
}

func (w *world) sweep(since int, oldSID string, allowed map[string]bool, expectSessionGone bool, watchdog time.Duration) sweepResult {
	return w.sweepNsps(w.nsps, since, oldSID, allowed, expectSessionGone, watchdog)
}

func (w *world) sweepNsps(nsps []string, since int, oldSID string, allowed map[string]bool, expectSessionGone bool, watchdog time.Duration) sweepResult {
	var res sweepResult
	only := map[string]bool{}
	for _, n := range nsps {
		only[n] = true
	}
	eval := func() bool {
		res = sweepResult{leftRooms: map[string][]string{}}
		for _, name := range nsps {
			nsp := w.srv.IO.Of(name)
			for _, s := range nsp.Sockets() {
				res.leftSockets = append(res.leftSockets, name+":"+string(s.ID()))
			}
			snap := adapter.VerifIndexSnapshot(w.adapterOf(nsp))
			for sid, rooms := range snap {
				rs := make([]string, len(rooms))
				for i, r := range rooms {
					rs[i] = string(r)
				}
				res.leftRooms[name+":"+string(sid)] = rs
			}
			if err := adapter.VerifCheckIndexInvariant(w.adapterOf(nsp)); err != nil {
				res.indexErr = err.Error()
			}
			for _, room := range []adapter.Room{"room1", "room2"} {
				if n := nsp.Adapter().Sockets(mapset.NewSet(room)).Cardinality(); n > 0 {
					res.leftRooms[name+":room:"+string(room)] = []string{fmt.Sprint(n)}
				}
			}
		}
		res.sessions = sio.VerifEIOSessionCount(w.srv.IO)
		w.mu.Lock()
		for _, r := range w.order[since:] {
			if !only[r.ss.Namespace().Name()] {
				continue
			}
			if r.connected > 0 && len(r.disconnect) == 0 {
				res.unfinished = append(res.unfinished, r.id)
			}
			if r.connected > 1 || len(r.disconnect) > 1 || len(r.disconnecting) > 1 {
				res.multi = append(res.multi, fmt.Sprintf("%s conn=%d disconnecting=%v disconnect=%v", r.id, r.connected, r.disconnecting, r.disconnect))
			}
			if len(r.disconnect) == 1 && len(r.disconnecting) == 0 {
				res.multi = append(res.multi, fmt.Sprintf("%s disconnect without disconnecting", r.id))
			}
			for _, reason := range append(append([]string(nil), r.disconnect...), r.disconnecting...) {
				if allowed != nil && !allowed[reason] {
					res.badReasons = append(res.badReasons, reason)
				}
			}
			res.disconnectNo += len(r.disconnect)
		}
		w.mu.Unlock()
		clean := len(res.leftSockets) == 0 && len(res.leftRooms) == 0 && len(res.unfinished) == 0
		if expectSessionGone {
			clean = clean && res.sessions == 0
		}
		return clean
	}
	vk.WaitUntil(watchdog, eval)
	// stable? look once more shortly after (double invocations surface late)
	time.Sleep(30 * time.Millisecond)
	eval()
	if oldSID != "" && expectSessionGone {
		resp, err := http.Get(w.srv.URL + "?EIO=4&transport=polling&sid=" + oldSID)
		if err == nil {
			b, _ := io.ReadAll(resp.Body)
			resp.Body.Close()
			res.probeStatus = resp.StatusCode
			res.probeBody = string(b)
		}
	}
	return res
}

type trialSpec struct {
	Cause     string
	Phase     string
	Transport string
}

func (t trialSpec) id() string { return t.Cause + "/" + t.Phase + "/" + t.Transport }

var reasonSets = map[string][]string{
	"client-nsp-disconnect":   {"client namespace disconnect"},
	"client-transport-close":  {"transport close", "transport error"},
	"server-disconnect-false": {"server namespace disconnect"},
	// "forced close": what a socket of ANOTHER namespace is told when it was admitted while the connection
	// was already being closed by Disconnect(true) (the reason the Engine.IO layer reported); it names the cause
	"server-disconnect-true":  {"server namespace disconnect", "forced server close", "forced close"},
	"disconnect-sockets-true": {"server namespace disconnect", "forced server close", "forced close"},
	"server-close":            {"server shutting down"},
	"tcp-cut":                 {"transport close", "transport error", "ping timeout"},
	"blackhole":               {"ping timeout"},
	"garbage":                 {"forced close", "parse error"},
	"wrong-transport-poll":    {"transport close", "transport error", "forced close", "ping timeout"},
}

func allowedFor(causes ...string) map[string]bool {
	m := map[string]bool{}
	for _, c := range causes {
		for _, r := range reasonSets[c] {
			m[r] = true
		}
	}
	return m
}

// inject fires one cause. ss may be nil (phases before admission).
func inject(w *world, cause string, peer *rawpeer.SIO, ss sio.ServerSocket) {
	switch cause {
	case "client-nsp-disconnect":
		peer.SendPacket(&refcodec.Packet{Type: refcodec.Disconnect, Namespace: "/"})
	case "client-transport-close":
		peer.C.Close()
	case "server-disconnect-false":
		if ss != nil {
			ss.Disconnect(false)
		} else {
			peer.C.Close()
		}
	case "server-disconnect-true":
		if ss != nil {
			ss.Disconnect(true)
		} else {
			peer.C.Close()
		}
	case "disconnect-sockets-true":
		w.srv.IO.Of("/").DisconnectSockets(true)
		if ss == nil {
			peer.C.Close()
		}
	case "server-close":
		w.srv.IO.Close()
	case "tcp-cut":
		w.px.RefuseNew(true) // the link is gone: no later connection (e.g. a websocket upgrade still being dialled) gets through
		w.px.CutAll()
		peer.C.Abort()
	case "blackhole":
		w.px.BlackholeAll(true, true)
	case "garbage":
		peer.C.SendMsg("asdf")
	case "wrong-transport-poll":
		// a poll request for a session whose transport is websocket / a ws-less request for a polling one
		other := "polling"
		if peer.C.Transport == "polling" {
			other = "websocket"
		}
		http.Get(w.srv.URL + "?EIO=4&transport=" + other + "&sid=" + peer.C.Open.SID)
		peer.C.Close()
	}
}

func causeEndsSession(cause string) bool {
	return cause != "client-nsp-disconnect" && cause != "server-disconnect-false"
}

func runTrial(run *vk.Run, t trialSpec) {
	run.Eval(1)
	pingI, pingT := 25*time.Second, 20*time.Second
	if t.Cause == "blackhole" || t.Cause == "tcp-cut" {
		pingI, pingT = time.Second, time.Second
	}
	w, err := newWorld(pingI, pingT)
	if err != nil {
		run.Inconclusive(err.Error())
		return
	}
	defer w.close()
	fields := map[string]any{"cause": t.Cause, "phase": t.Phase, "transport": t.Transport}
	wit := map[string]any{"trial": t.id(), "seed": run.Seed()}
	tr := t.Transport
	if t.Phase == "during-upgrade" {
		tr = "polling"
	}
	peer, err := rawpeer.DialSIO(w.url(), tr)
	if err != nil {
		run.Inconclusive(t.id() + ": dial: " + err.Error())
		return
	}
	defer peer.C.Abort()
	sid := peer.C.Open.SID
	var ss sio.ServerSocket
	connectAndWait := func(auth map[string]any) bool {
		res, err := peer.Connect("/", auth, 30*time.Second)
		if err != nil || !res.OK {
			run.Inconclusive(fmt.Sprintf("%s: connect: %v", t.id(), err))
			return false
		}
		if !vk.WaitUntil(30*time.Second, func() bool { w.mu.Lock(); defer w.mu.Unlock(); return len(w.order) > 0 && w.order[0].connected > 0 }) {
			run.Inconclusive(t.id() + ": connection handler did not run")
			return false
		}
		w.mu.Lock()
		ss = w.order[0].ss
		w.mu.Unlock()
		return true
	}
	switch t.Phase {
	case "before-connect":
		inject(w, t.Cause, peer, nil)
	case "in-middleware":
		w.mu.Lock()
		w.park = make(chan struct{})
		w.mu.Unlock()
		peer.SendPacket(&refcodec.Packet{Type: refcodec.Connect, Namespace: "/", HasData: true, Data: map[string]any{"park": true}})
		select {
		case <-w.parked:
		case <-time.After(30 * time.Second):
			run.Inconclusive(t.id() + ": middleware not reached")
			close(w.park)
			return
		}
		inject(w, t.Cause, peer, nil)
		// let the fault take effect on the server before the middleware returns
		if causeEndsSession(t.Cause) && t.Cause != "blackhole" {
			vk.WaitUntil(10*time.Second, func() bool { return sio.VerifEIOSessionCount(w.srv.IO) == 0 })
		} else if t.Cause == "blackhole" {
			vk.WaitUntil(pingI+pingT+5*time.Second, func() bool { return sio.VerifEIOSessionCount(w.srv.IO) == 0 })
		} else {
			time.Sleep(20 * time.Millisecond)
		}
		close(w.park)
	case "connected-idle":
		if !connectAndWait(nil) {
			return
		}
		inject(w, t.Cause, peer, ss)
	case "mid-burst-c2s":
		if !connectAndWait(nil) {
			return
		}
		go func() {
			for i := 0; i < 300; i++ {
				if peer.Emit("/", nil, "e", json.Number(fmt.Sprint(i))) != nil {
					return
				}
			}
		}()
		time.Sleep(2 * time.Millisecond)
		inject(w, t.Cause, peer, ss)
	case "mid-burst-s2c":
		if !connectAndWait(nil) {
			return
		}
		peer.Emit("/", nil, "burst-me", json.Number("400"))
		time.Sleep(2 * time.Millisecond)
		inject(w, t.Cause, peer, ss)
	case "during-upgrade":
		if !connectAndWait(nil) {
			return
		}
		done := make(chan struct{})
		go func() { peer.C.Upgrade(); close(done) }()
		time.Sleep(time.Duration(run.Rand(t.id()).Intn(3000)) * time.Microsecond)
		inject(w, t.Cause, peer, ss)
		select {
		case <-done:
		case <-time.After(70 * time.Second):
		}
		if t.Cause == "tcp-cut" || t.Cause == "client-transport-close" {
			// the upgrade goroutine may have opened its websocket after the fault was injected
			w.px.CutAll()
			peer.C.Abort()
		}
	case "in-admission":
		// the cause arrives while the server is inside the admission of the socket (after the middlewares,
		// inside onConnect: the join of the socket's own room is held at the adapter)
		gate := make(chan struct{})
		w.mu.Lock()
		w.admit = gate
		w.mu.Unlock()
		peer.SendPacket(&refcodec.Packet{Type: refcodec.Connect, Namespace: "/"})
		select {
		case <-w.admitEntered:
		case <-time.After(30 * time.Second):
			run.Inconclusive(t.id() + ": admission not reached")
			close(gate)
			return
		}
		inject(w, t.Cause, peer, nil)
		time.Sleep(30 * time.Millisecond) // let the fault reach the server while the admission is held
		close(gate)
	case "slow-registration":
		// the connection handler takes 20 ms before it registers the disconnect handlers; the cause arrives right
		// after the CONNECT reply (the library waits for its connection handlers, bounded, before it reports a close)
		res, err := peer.Connect("/", map[string]any{"slowreg": true}, 30*time.Second)
		if err != nil || !res.OK {
			run.Inconclusive(fmt.Sprintf("%s: connect: %v", t.id(), err))
			return
		}
		inject(w, t.Cause, peer, nil)
		vk.WaitUntil(5*time.Second, func() bool { w.mu.Lock(); defer w.mu.Unlock(); return len(w.order) > 0 })
	case "join-storm":
		// Join / Leave keep running on the socket from four goroutines while it is being closed
		if !connectAndWait(map[string]any{"joiner": true}) {
			return
		}
		time.Sleep(time.Duration(1+run.Rand(t.id()).Intn(3)) * time.Millisecond)
		inject(w, t.Cause, peer, ss)
	case "parked-second-nsp":
		// "/" is connected and slow to say goodbye; the CONNECT for "/b" is parked in a middleware and is
		// released at the moment the close of the connection has reached "/"'s disconnecting handler
		if !connectAndWait(map[string]any{"slowbye": true}) {
			return
		}
		w.mu.Lock()
		w.park = make(chan struct{})
		park := w.park
		w.mu.Unlock()
		peer.SendPacket(&refcodec.Packet{Type: refcodec.Connect, Namespace: "/b", HasData: true, Data: map[string]any{"park": true}})
		select {
		case <-w.parked:
		case <-time.After(30 * time.Second):
			run.Inconclusive(t.id() + ": middleware not reached")
			close(park)
			return
		}
		released := make(chan struct{})
		go func() {
			select {
			case <-w.byeStarted:
			case <-time.After(pingI + pingT + 10*time.Second):
			}
			close(park)
			close(released)
		}()
		inject(w, t.Cause, peer, ss)
		<-released
	case "two-namespaces":
		if !connectAndWait(nil) {
			return
		}
		if res, err := peer.Connect("/b", nil, 30*time.Second); err != nil || !res.OK {
			run.Inconclusive(t.id() + ": connect /b failed")
			return
		}
		vk.WaitUntil(10*time.Second, func() bool { return w.nrecs() >= 2 })
		inject(w, t.Cause, peer, ss)
	}
	ends := causeEndsSession(t.Cause)
	if !ends && (t.Phase == "in-admission" || t.Phase == "slow-registration") && t.Cause == "server-disconnect-false" {
		ends = true // no socket to call Disconnect on yet: inject() closed the transport instead
	}
	if !ends && (t.Phase == "before-connect" || t.Phase == "in-middleware") {
		ends = true // inject() fell back to closing the transport
	}
	watchdog := pingI + pingT + 15*time.Second
	if pingI > 5*time.Second {
		// a server-initiated websocket close may spend up to 5 s in the close handshake and up to 15 s
		// waiting for the library's goroutines before the session is removed
		watchdog = 45 * time.Second
	}
	allowed := allowedFor(t.Cause)
	if t.Phase == "before-connect" || t.Phase == "in-middleware" || t.Phase == "during-upgrade" || t.Phase == "in-admission" || t.Phase == "slow-registration" {
		for k := range allowedFor("client-transport-close", "tcp-cut", "garbage") {
			allowed[k] = true
		}
	}
	if !ends {
		// namespace-only disconnect: first check the socket, then end the session and check the rest
		res := w.sweepNsps([]string{"/"}, 0, "", allowed, false, watchdog)
		report(run, fields, wit, res, false)
		peer.C.Close()
		for k := range allowedFor("client-transport-close") {
			allowed[k] = true
		}
	}
	res := w.sweep(0, sid, allowed, true, watchdog)
	report(run, fields, wit, res, true)
	run.Distinct(t.id() + "/disconnects=" + fmt.Sprint(res.disconnectNo))
	run.Count("disconnect_handlers_observed", int64(res.disconnectNo))
	run.Sample(map[string]any{"trial": t.id(), "disconnect_handlers": res.disconnectNo, "sessions_left": res.sessions, "probe_status": res.probeStatus})
}

func report(run *vk.Run, fields, wit map[string]any, res sweepResult, sessionGone bool) {
	add := func(sub, what string) {
		f := map[string]any{}
		for k, v := range fields {
			f[k] = v
		}
		run.Violation(vk.Violation{Sub: sub, Fields: f, What: what + " (" + fmt.Sprint(wit["trial"]) + ")", Witness: wit})
	}
	if len(res.unfinished) > 0 {
		add("no-disconnect", fmt.Sprintf("socket(s) %v ran the connection handler but no disconnect handler at quiescence", res.unfinished))
	}
	if len(res.multi) > 0 {
		add("not-exactly-once", strings.Join(res.multi, "; "))
	}
	if len(res.badReasons) > 0 {
		sort.Strings(res.badReasons)
		add("wrong-reason", fmt.Sprintf("reported reason(s) %v do not name the cause", res.badReasons))
	}
	if len(res.leftSockets) > 0 {
		add("leftover-socket", fmt.Sprintf("still listed in the namespace: %v", res.leftSockets))
	}
	if len(res.leftRooms) > 0 {
		add("leftover-room", fmt.Sprintf("room membership left behind: %v", res.leftRooms))
	}
	if res.indexErr != "" {
		add("index-invariant", res.indexErr)
	}
	if sessionGone {
		if res.sessions != 0 {
			wit["stacks"] = vk.DumpGoroutines("c06-leftover-session")
			add("leftover-session", fmt.Sprintf("%d Engine.IO session(s) still in the store", res.sessions))
		}
		serverClosed := res.probeStatus == 503 && strings.Contains(fmt.Sprint(fields["cause"], fields["causes"]), "server-close")
		if res.probeStatus != 0 && !serverClosed && (res.probeStatus != 400 || !strings.Contains(res.probeBody, `"code":1`)) {
			add("sid-still-known", fmt.Sprintf("probe with the old sid answered %d %q", res.probeStatus, res.probeBody))
		}
	}
}

// scripted session cut at byte k
func runCutScript(run *vk.Run, w *world, dir int, k int64, transport string) (total int64) {
	run.Eval(1)
	since := w.nrecs()
	w.px.SetBudget(proxy.C2S, -1)
	w.px.SetBudget(proxy.S2C, -1)
	base := w.px.Total(dir)
	w.px.SetBudget(dir, base+k)
	sid := ""
	func() {
		peer, err := rawpeer.DialSIO(w.url(), transport)
		if err != nil {
			return
		}
		defer peer.C.Abort()
		sid = peer.C.Open.SID
		res, err := peer.Connect("/", nil, 5*time.Second)
		if err != nil || !res.OK {
			return
		}
		for i := 0; i < 3; i++ {
			id := uint64(i)
			if peer.Emit("/", &id, "ea", json.Number(fmt.Sprint(i))) != nil {
				return
			}
			if _, _, err := peer.WaitPacket(0, 5*time.Second, func(p *refcodec.Packet) bool { return p.Type == refcodec.Ack && p.ID != nil && *p.ID == id }); err != nil {
				return
			}
		}
		peer.Emit("/", nil, "burst-me", json.Number("3"))
		peer.WaitPacket(0, 5*time.Second, func(p *refcodec.Packet) bool {
			if rawpeer.EventName(p) != "b" {
				return false
			}
			n, _ := rawpeer.Num(rawpeer.Args(p)[0])
			return n == 2
		})
		if res, err := peer.Connect("/b", nil, 5*time.Second); err != nil || !res.OK {
			return
		}
		peer.SendPacket(&refcodec.Packet{Type: refcodec.Disconnect, Namespace: "/"})
		peer.C.Close()
	}()
	total = w.px.Total(dir) - base
	w.px.SetBudget(dir, -1)
	w.px.CutAll()
	allowed := allowedFor("client-nsp-disconnect", "client-transport-close", "tcp-cut", "garbage")
	res := w.sweep(since, sid, allowed, true, w.pingI+w.pingT+15*time.Second)
	dirName := []string{"c2s", "s2c"}[dir]
	report(run, map[string]any{"cause": "byte-cut", "phase": "script", "transport": transport, "dir": dirName},
		map[string]any{"trial": fmt.Sprintf("byte-cut/%s/%s/k=%d", transport, dirName, k), "seed": run.Seed()}, res, true)
	run.Distinct(fmt.Sprintf("cut/%s/%s/disconnects=%d", transport, dirName, res.disconnectNo))
	run.Count("byte_cut_trials", 1)
	return total
}

func main() {
	if os.Getenv("C06_ONLY") == "recovery" {
		run := vk.Start("C06", "fault_enumeration")
		recoveryAdmission(run)
		run.Finish()
		return
	}
	run := vk.Start("C06", "fault_enumeration")
	run.Rule("trials = termination cause {client namespace disconnect, client transport close, server Disconnect(false/true), DisconnectSockets, Server.Close, TCP cut, black-hole (ping timeout), protocol garbage, request with the wrong transport} " +
		"x phase {before CONNECT, inside a parked namespace middleware, connected idle, mid-burst c->s, mid-burst s->c, during the polling->websocket upgrade, two namespaces, Join/Leave storm on the socket from 4 goroutines, second namespace's CONNECT parked in a middleware and released while the first socket runs its (slow) disconnecting handler, inside the admission of the socket (its first join held at a wrapped adapter)} x transport; " +
		"scripted sessions cut at every k-th byte of the TCP stream in each direction; several causes at once; sessions being opened by 8 goroutines while Server.Close runs; the Go client closing its Manager while its own (held) handshake is in flight; distinct = (cause, phase, transport, number of disconnect handlers observed)")
	run.Assume("quiescence = sweep stable and clean, watchdog pingInterval+pingTimeout+15 s (server keeps the sid until user close handlers return)",
		"the monitor registers its disconnect handlers inside the connection handler, as applications do")

	causes := []string{"client-nsp-disconnect", "client-transport-close", "server-disconnect-false", "server-disconnect-true", "disconnect-sockets-true", "server-close", "tcp-cut", "blackhole", "garbage", "wrong-transport-poll"}
	phases := []string{"before-connect", "in-middleware", "connected-idle", "mid-burst-c2s", "mid-burst-s2c", "during-upgrade", "two-namespaces", "join-storm", "parked-second-nsp", "in-admission", "slow-registration"}
	var specs []trialSpec
	for _, c := range causes {
		for _, p := range phases {
			for _, tr := range []string{"websocket", "polling"} {
				if p == "during-upgrade" && tr == "websocket" {
					continue
				}
				if run.Quick() && tr == "polling" && !(p == "connected-idle" || p == "in-middleware" || p == "during-upgrade") {
					continue
				}
				if c == "blackhole" && run.Quick() && !(p == "connected-idle" || p == "in-middleware") {
					continue
				}
				specs = append(specs, trialSpec{c, p, tr})
			}
		}
	}
	if run.SubMode == "race" {
		specs = specs[:0]
		for _, c := range causes {
			if c != "blackhole" {
				specs = append(specs, trialSpec{c, "in-middleware", "websocket"}, trialSpec{c, "mid-burst-s2c", "websocket"})
			}
		}
	}
	if only := os.Getenv("C06_ONLY"); only != "" { // debugging aid: C06_ONLY=cause/phase/transport
		var f []trialSpec
		for _, sp := range specs {
			if sp.id() == only {
				for i := 0; i < 6; i++ {
					f = append(f, sp)
				}
			}
		}
		specs = f
	}
	// trials are independent worlds: run them in parallel
	sem := make(chan struct{}, 12)
	var wg sync.WaitGroup
	for _, s := range specs {
		wg.Add(1)
		sem <- struct{}{}
		go func(s trialSpec) {
			defer wg.Done()
			defer func() { <-sem }()
			runTrial(run, s)
		}(s)
	}
	wg.Wait()
	run.Logf("%d cause x phase trials done, violations so far %d", len(specs), run.Violations())

	if run.SubMode != "race" && os.Getenv("C06_ONLY") == "" {
		// byte-cut enumeration (sequential on shared worlds: the sweep inspects global server state)
		stride := int64(run.Pick(37, 1))
		var cwg sync.WaitGroup
		for _, transport := range []string{"websocket", "polling"} {
			for dir := 0; dir < 2; dir++ {
				cwg.Add(1)
				go func(transport string, dir int) {
					defer cwg.Done()
					w, err := newWorld(time.Second, time.Second)
					if err != nil {
						run.Inconclusive(err.Error())
						return
					}
					defer w.close()
					full := runCutScript(run, w, dir, 1<<40, transport)
					run.Note(fmt.Sprintf("script_bytes_%s_%d", transport, dir), full)
					st := stride
					if transport == "polling" { // a cut polling session is only noticed by the heartbeat (2 s): fewer points
						st = stride * 7
					}
					for k := int64(1); k <= full+st; k += st {
						runCutScript(run, w, dir, k, transport)
						if run.Violations() > 40 {
							return
						}
					}
				}(transport, dir)
			}
		}
		cwg.Wait()
		// several causes at once
		multi := [][]string{{"client-nsp-disconnect", "server-disconnect-false"}, {"client-transport-close", "server-disconnect-true"}, {"tcp-cut", "server-close"},
			{"client-nsp-disconnect", "server-close", "tcp-cut"}, {"garbage", "server-disconnect-true"}, {"disconnect-sockets-true", "client-transport-close"}}
		for rep := 0; rep < run.Pick(3, 30); rep++ {
			for _, cs := range multi {
				runMulti(run, cs)
			}
		}
		for rep := 0; rep < run.Pick(2, 12); rep++ {
			runClientCloseDuringDial(run, rep%2 == 1)
		}
		recoveryAdmission(run)
		for rep := 0; rep < run.Pick(10, 100); rep++ {
			runHandshakeRace(run, rep)
			if run.Violations() > 5 {
				break
			}
		}
	}
	if bin := os.Getenv("VERIF_RACE_BIN"); bin != "" && run.Thorough() && run.SubMode == "" {
		if s, err := vk.RunSub(bin, "race", run, 20*time.Minute); err != nil {
			run.Inconclusive("race sub-pass: " + err.Error())
		} else {
			run.Merge("race:", s)
		}
	}
	run.Finish()
}

// runHandshakeRace: "during the handshake" x server shutdown. Eight goroutines keep opening sessions
// (polling handshakes, half of them followed by a CONNECT) while Server.Close runs; afterwards nothing may
// be left: no session in the Engine.IO store, no socket, every sid handed out unknown. A session that was
// registered after Close swept the store stays until its ping timeout (45 s here) and is seen by the sweep.
func runHandshakeRace(run *vk.Run, rep int) {
	run.Eval(1)
	w, err := newWorld(25*time.Second, 20*time.Second)
	if err != nil {
		run.Inconclusive(err.Error())
		return
	}
	defer w.close()
	var opened, refused atomic.Int64
	var sidMu sync.Mutex
	var sids []string
	stop := make(chan struct{})
	var wg sync.WaitGroup
	for g := 0; g < 8; g++ {
		wg.Add(1)
		go func(g int) {
			defer wg.Done()
			for i := 0; ; i++ {
				select {
				case <-stop:
					return
				default:
				}
				resp, err := http.Get(w.srv.URL + "?EIO=4&transport=polling")
				if err != nil {
					refused.Add(1)
					continue
				}
				b, _ := io.ReadAll(resp.Body)
				resp.Body.Close()
				if resp.StatusCode != 200 {
					refused.Add(1)
					if refused.Load() > 200 {
						return
					}
					continue
				}
				opened.Add(1)
				var o struct {
					SID string `json:"sid"`
				}
				if len(b) > 1 && json.Unmarshal(b[1:], &o) == nil && o.SID != "" {
					sidMu.Lock()
					sids = append(sids, o.SID)
					sidMu.Unlock()
					if (g+i)%2 == 0 {
						if r2, err := http.Post(w.srv.URL+"?EIO=4&transport=polling&sid="+o.SID, "text/plain", strings.NewReader("40")); err == nil {
							io.Copy(io.Discard, r2.Body)
							r2.Body.Close()
						}
					}
				}
			}
		}(g)
	}
	time.Sleep(time.Duration(3+rep%5) * time.Millisecond)
	w.srv.IO.Close()
	vk.WaitUntil(5*time.Second, func() bool { return refused.Load() > 16 })
	close(stop)
	wg.Wait()
	res := w.sweep(0, "", nil, true, 8*time.Second)
	fields := map[string]any{"cause": "server-close", "phase": "handshake-race", "transport": "polling"}
	wit := map[string]any{"trial": "handshake-race", "sessions_opened": opened.Load(), "requests_refused": refused.Load(), "seed": run.Seed()}
	report(run, fields, wit, res, true)
	// every sid handed out must be unknown now
	sidMu.Lock()
	all := append([]string(nil), sids...)
	sidMu.Unlock()
	known := 0
	for i, sid := range all {
		if i%7 != 0 && i < len(all)-40 {
			continue // sample the early ones, probe all of the last 40 (the ones opened around the Close)
		}
		cl := &http.Client{Timeout: 3 * time.Second}
		resp, err := cl.Get(w.srv.URL + "?EIO=4&transport=polling&sid=" + sid)
		if err != nil {
			known++ // a poll that hangs is a session that is still served
			continue
		}
		io.Copy(io.Discard, resp.Body)
		resp.Body.Close()
		if resp.StatusCode == 200 {
			known++
		}
	}
	if known > 0 {
		run.Violation(vk.Violation{Sub: "sid-still-known", Fields: fields,
			What: fmt.Sprintf("%d session ids handed out around Server.Close are still served after Close returned (opened %d, refused %d)", known, opened.Load(), refused.Load()), Witness: wit})
	}
	run.Count("handshake_race_sessions_opened", opened.Load())
	run.Distinct(fmt.Sprintf("handshake-race/opened=%s", map[bool]string{true: "some", false: "none"}[opened.Load() > 0]))
}

// runClientCloseDuringDial: the GO CLIENT ends the connection while its own handshake is still in flight (the
// server's Authenticator holds the handshake for 150 ms; Manager.Close is called 50 ms in). Whatever the client
// does with the connection it was building, the server must not be left with a session or a socket that nobody
// will ever close: at quiescence (ping 1 s + 1 s) every socket that connected has had its disconnect handler and
// the session store is empty.
func runClientCloseDuringDial(run *vk.Run, reconnecting bool) {
	run.Eval(1)
	w, err := newWorldAuth(time.Second, time.Second, 150*time.Millisecond)
	if err != nil {
		run.Inconclusive(err.Error())
		return
	}
	defer w.close()
	mcfg := rig.ManagerConfig("websocket")
	mcfg.ReconnectionDelay = rig.Dur(10 * time.Millisecond)
	mcfg.ReconnectionDelayMax = rig.Dur(10 * time.Millisecond)
	mcfg.RandomizationFactor = rig.F32(0)
	m := sio.NewManager(w.srv.URL, mcfg)
	s := m.Socket("/", nil)
	var connects atomic.Int32
	s.OnConnect(func() { connects.Add(1) })
	s.Connect()
	if reconnecting {
		// let the first connection complete, drop it from the server side, close during the reconnection's dial
		if !vk.WaitUntil(20*time.Second, func() bool { return connects.Load() >= 1 }) {
			run.Inconclusive("client-close-during-dial: no first connect")
			m.Close()
			return
		}
		w.srv.IO.Of("/").DisconnectSockets(true)
		time.Sleep(10*time.Millisecond + 50*time.Millisecond)
	} else {
		time.Sleep(50 * time.Millisecond)
	}
	if !vk.Watchdog(20*time.Second, func() { m.Close() }) {
		run.Violation(vk.Violation{Sub: "no-disconnect", Fields: map[string]any{"cause": "client-manager-close", "phase": "during-dial", "transport": "websocket"},
			What: "Manager.Close() did not return within 20 s while a handshake was in flight", Witness: map[string]any{"stacks": vk.DumpGoroutines("c06-close-during-dial")}})
		return
	}
	time.Sleep(300 * time.Millisecond) // the held handshake completes after the Close
	res := w.sweep(0, "", nil, true, 8*time.Second)
	report(run, map[string]any{"cause": "client-manager-close", "phase": "during-dial", "transport": "websocket", "reconnecting": reconnecting},
		map[string]any{"trial": fmt.Sprintf("client-close-during-dial/reconnecting=%v", reconnecting), "client_socket_connected_after_close": s.Connected(), "seed": run.Seed()}, res, true)
	if s.Connected() {
		run.Violation(vk.Violation{Sub: "leftover-socket", Fields: map[string]any{"cause": "client-manager-close", "phase": "during-dial", "transport": "websocket", "side": "client"},
			What: "the client socket of a closed Manager reports Connected() == true", Witness: map[string]any{"reconnecting": reconnecting}})
	}
	run.Distinct(fmt.Sprintf("client-close-during-dial/reconnecting=%v", reconnecting))
}

func runMulti(run *vk.Run, causes []string) {
	run.Eval(1)
	w, err := newWorld(time.Second, time.Second)
	if err != nil {
		run.Inconclusive(err.Error())
		return
	}
	defer w.close()
	peer, err := rawpeer.DialSIO(w.url(), "websocket")
	if err != nil {
		run.Inconclusive(err.Error())
		return
	}
	defer peer.C.Abort()
	sid := peer.C.Open.SID
	if res, err := peer.Connect("/", nil, 30*time.Second); err != nil || !res.OK {
		run.Inconclusive("multi connect failed")
		return
	}
	if !vk.WaitUntil(30*time.Second, func() bool { w.mu.Lock(); defer w.mu.Unlock(); return len(w.order) > 0 && w.order[0].connected > 0 }) {
		run.Inconclusive("multi: no connection handler")
		return
	}
	w.mu.Lock()
	ss := w.order[0].ss
	w.mu.Unlock()
	var wg sync.WaitGroup
	for _, c := range causes {
		wg.Add(1)
		go func(c string) { defer wg.Done(); inject(w, c, peer, ss) }(c)
	}
	wg.Wait()
	peer.C.Close()
	allowed := allowedFor(append(causes, "client-transport-close")...)
	res := w.sweep(0, sid, allowed, true, 45*time.Second)
	id := "multi/" + strings.Join(causes, "+")
	report(run, map[string]any{"cause": "multi", "phase": "connected-idle", "transport": "websocket", "causes": strings.Join(causes, "+")},
		map[string]any{"trial": id, "seed": run.Seed()}, res, true)
	run.Distinct(id + "/disconnects=" + fmt.Sprint(res.disconnectNo))
}
