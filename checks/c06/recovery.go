package main

// Connection-state recovery × connection end: a CONNECT that restores a persisted session (pid + offset) re-creates
// the socket WITH the rooms of the old one before the socket is admitted. If the Engine.IO connection ends while that
// CONNECT is being processed, nothing of the restored socket may stay behind (seeded C06-H: the restored socket was
// turned away because its connection had closed, and its id stayed in the restored rooms for ever).
// The stock session-aware adapter is wrapped through the public AdapterCreator option; a successful RestoreSession can
// be held while the cause is injected. Raw peers (websocket / polling) so that the harness owns the timing.

import (
	"fmt"
	"sync"
	"sync/atomic"
	"time"

	sio "github.com/karagenc/socket.io-go"
	"github.com/karagenc/socket.io-go/adapter"
	"github.com/karagenc/socket.io-go/parser"
	mapset "github.com/deckarep/golang-set/v2"

	"sioverif/internal/rawpeer"
	"sioverif/internal/refcodec"
	"sioverif/internal/rig"
	"sioverif/internal/vk"
)

type restoreGate struct {
	adapter.Adapter
	mu      *sync.Mutex
	armed   *chan struct{} // when non-nil: the next successful RestoreSession waits on it
	entered chan struct{}
}

func (g *restoreGate) RestoreSession(pid adapter.PrivateSessionID, offset string) (*adapter.SessionToPersist, bool) {
	s, ok := g.Adapter.RestoreSession(pid, offset)
	if ok {
		g.mu.Lock()
		gate := *g.armed
		*g.armed = nil
		g.mu.Unlock()
		if gate != nil {
			select {
			case g.entered <- struct{}{}:
			default:
			}
			select {
			case <-gate:
			case <-time.After(20 * time.Second):
			}
		}
	}
	return s, ok
}

func recoveryAdmission(run *vk.Run) {
	causes := []string{"client-abort", "client-close-packet", "server-close", "none"}
	reps := run.Pick(1, 6)
	sem := make(chan struct{}, 7)
	var wg sync.WaitGroup
	for rep := 0; rep < reps; rep++ {
		for _, transport := range []string{"websocket", "polling"} {
			for _, cause := range causes {
				for _, hold := range []bool{true, false} {
					if !hold && cause == "none" {
						continue
					}
					wg.Add(1)
					sem <- struct{}{}
					go func(transport, cause string, hold bool) {
						defer wg.Done()
						defer func() { <-sem }()
						recoveryAdmissionTrial(run, transport, cause, hold)
					}(transport, cause, hold)
				}
			}
		}
	}
	wg.Wait()
}

func recoveryAdmissionTrial(run *vk.Run, transport, cause string, hold bool) {
	run.Eval(1)
	id := fmt.Sprintf("recovery-admission/%s/%s/hold=%v", transport, cause, hold)
	var gmu sync.Mutex
	var armed chan struct{}
	entered := make(chan struct{}, 4)
	inner := adapter.NewSessionAwareAdapterCreator(2 * time.Minute)
	cfg := &sio.ServerConfig{}
	cfg.ServerConnectionStateRecovery.Enabled = true
	// an aborted long-polling peer is noticed through the heartbeat only
	cfg.EIO.PingInterval = time.Second
	cfg.EIO.PingTimeout = time.Second
	cfg.AdapterCreator = func(st adapter.SocketStore, pc parser.Creator) adapter.Adapter {
		return &restoreGate{Adapter: inner(st, pc), mu: &gmu, armed: &armed, entered: entered}
	}
	srv, err := rig.NewServer(cfg, "")
	if err != nil {
		run.Inconclusive(err.Error())
		return
	}
	defer srv.Close()
	type rec struct {
		id          string
		recovered   bool
		disconnects []string
	}
	var mu sync.Mutex
	var conns []*rec
	var cur atomic.Value
	srv.IO.OnConnection(func(s sio.ServerSocket) {
		r := &rec{id: string(s.ID()), recovered: s.Recovered()}
		mu.Lock()
		conns = append(conns, r)
		mu.Unlock()
		s.Join("room1")
		s.OnDisconnect(func(reason sio.Reason) { mu.Lock(); r.disconnects = append(r.disconnects, string(reason)); mu.Unlock() })
		cur.Store(s)
	})
	fields := map[string]any{"phase": "recovery-admission", "cause": cause, "transport": transport, "held": hold}
	wit := map[string]any{"trial": id, "seed": run.Seed()}

	peer, err := rawpeer.DialSIO(srv.URL, transport)
	if err != nil {
		run.Inconclusive(err.Error())
		return
	}
	res, err := peer.Connect("/", nil, 30*time.Second)
	if err != nil || !res.OK || res.PID == "" {
		run.Inconclusive(fmt.Sprintf("%s: first connect: %v", id, err))
		peer.C.Abort()
		return
	}
	vk.WaitUntil(10*time.Second, func() bool { return cur.Load() != nil })
	srv.IO.To("room1").Emit("ev", 1) // gives the client an offset
	_, sp, err := peer.WaitPacket(0, 30*time.Second, func(p *refcodec.Packet) bool { return rawpeer.EventName(p) == "ev" })
	if err != nil {
		run.Inconclusive(id + ": no event with an offset")
		peer.C.Abort()
		return
	}
	args := rawpeer.Args(sp.P)
	offset, _ := args[len(args)-1].(string)
	peer.C.Abort()
	if !vk.WaitUntil(10*time.Second, func() bool { mu.Lock(); defer mu.Unlock(); return len(conns) > 0 && len(conns[0].disconnects) > 0 }) {
		run.Inconclusive(id + ": the server did not notice the first disconnect")
		return
	}
	nsp := srv.IO.Of("/")
	if n := len(nsp.Sockets()); n != 0 {
		run.Inconclusive(fmt.Sprintf("%s: %d sockets before the recovery", id, n))
		return
	}
	// the recovering connection
	release := make(chan struct{})
	if hold {
		gmu.Lock()
		armed = release
		gmu.Unlock()
	}
	peer2, err := rawpeer.DialSIO(srv.URL, transport)
	if err != nil {
		run.Inconclusive(err.Error())
		return
	}
	defer peer2.C.Abort()
	connect := &refcodec.Packet{Type: refcodec.Connect, Namespace: "/", HasData: true, Data: map[string]any{"pid": res.PID, "offset": offset}}
	if err := peer2.SendPacket(connect); err != nil {
		run.Inconclusive(id + ": CONNECT not sent: " + err.Error())
		return
	}
	if hold {
		select {
		case <-entered:
		case <-time.After(15 * time.Second):
			run.Inconclusive(id + ": RestoreSession was not reached (session not recoverable?)")
			close(release)
			return
		}
	}
	eioBefore := sio.VerifEIOSessionCount(srv.IO)
	switch cause {
	case "client-abort":
		peer2.C.Abort()
	case "client-close-packet":
		peer2.C.Close()
	case "server-close":
		go srv.IO.Close()
	case "none":
	}
	if cause != "none" {
		// the cause has to have reached the server before the admission continues
		vk.WaitUntil(5*time.Second, func() bool { return sio.VerifEIOSessionCount(srv.IO) < eioBefore || sio.VerifEIOSessionCount(srv.IO) == 0 })
		time.Sleep(20 * time.Millisecond)
	}
	if hold {
		close(release)
	}
	if cause == "none" {
		// control: the recovery must succeed and the socket must be a member of its rooms again
		ok := vk.WaitUntil(10*time.Second, func() bool { mu.Lock(); defer mu.Unlock(); return len(conns) >= 2 })
		members := nsp.Adapter().Sockets(mapset.NewSet(adapter.Room("room1")))
		if !ok || members.Cardinality() != 1 {
			run.Violation(vk.Violation{Sub: "recovery-control", Fields: fields,
				What: fmt.Sprintf("control (no fault): recovered socket admitted=%v, members of room1: %v (trial %s)", ok, members, id), Witness: wit})
		}
		run.Distinct(id + "/recovered")
		return
	}
	// quiescence: every admitted socket has been told of its end, then nothing may remain
	settled := vk.WaitUntil(15*time.Second, func() bool {
		mu.Lock()
		defer mu.Unlock()
		for _, c := range conns {
			if len(c.disconnects) == 0 {
				return false
			}
		}
		return true
	})
	// bounded progress: the session of an aborted long-polling peer goes with the heartbeat (1 s + 1 s)
	vk.WaitUntil(15*time.Second, func() bool { return sio.VerifEIOSessionCount(srv.IO) == 0 })
	time.Sleep(150 * time.Millisecond)
	mu.Lock()
	var snap []rec
	for _, c := range conns {
		snap = append(snap, *c)
	}
	mu.Unlock()
	wit["server_sockets"] = fmt.Sprintf("%+v", snap)
	for _, c := range snap {
		if len(c.disconnects) != 1 {
			run.Violation(vk.Violation{Sub: map[bool]string{true: "no-disconnect", false: "disconnect-twice"}[len(c.disconnects) == 0], Fields: fields,
				What: fmt.Sprintf("socket %s (recovered=%v) had its connection handlers run and its disconnect handlers %d times: %v (settled=%v, trial %s)", c.id, c.recovered, len(c.disconnects), c.disconnects, settled, id), Witness: wit})
		}
	}
	if socks := nsp.Sockets(); len(socks) != 0 {
		run.Violation(vk.Violation{Sub: "leftover-socket", Fields: fields, What: fmt.Sprintf("%d sockets still listed in the namespace after the connection ended (trial %s)", len(socks), id), Witness: wit})
	}
	members := nsp.Adapter().Sockets(mapset.NewSet(adapter.Room("room1"), adapter.Room(res.SID)))
	rooms, _ := nsp.Adapter().SocketRooms(adapter.SocketID(res.SID))
	if members.Cardinality() != 0 || (rooms != nil && rooms.Cardinality() != 0) {
		run.Violation(vk.Violation{Sub: "leftover-room", Fields: fields,
			What: fmt.Sprintf("the connection that was restoring session %s ended during the admission, but the socket is still a room member: members of {room1, own room} = %v, rooms of the socket = %v (trial %s)", res.SID, members, rooms, id), Witness: wit})
	}
	if n := sio.VerifEIOSessionCount(srv.IO); n != 0 {
		run.Violation(vk.Violation{Sub: "leftover-session", Fields: fields, What: fmt.Sprintf("%d Engine.IO sessions left (trial %s)", n, id), Witness: wit})
	}
	run.Count("recovery_admission_trials", 1)
	run.Distinct(fmt.Sprintf("%s/second-socket-admitted=%v", id, len(snap) >= 2))
}
