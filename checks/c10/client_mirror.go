package main

// Mirror of the process-level part for the Go CLIENT: a child process runs a real Manager /
// client socket with handlers of every signature family against the raw Engine.IO server of
// the parent; the parent sends the hostile frame sequences as the server. Monitors: child
// exit status (a parser panic in the client is process-fatal by construction) and a canary
// (an acked event) that must round-trip after every sequence, on the same or — when the client
// legitimately closed the connection on a parse error and reconnected — on the next session.

import (
	"encoding/json"
	"fmt"
	"io"
	"os"
	"os/exec"
	"path/filepath"
	"strings"
	"syscall"
	"time"

	sio "github.com/karagenc/socket.io-go"
	"github.com/karagenc/socket.io-go/parser"

	"sioverif/internal/gen"
	"sioverif/internal/rawpeer"
	"sioverif/internal/refcodec"
	"sioverif/internal/rig"
	"sioverif/internal/vk"
)

func childClient() {
	url := os.Getenv("VERIF_RAW_URL")
	mcfg := rig.ManagerConfig("websocket")
	mcfg.ReconnectionDelay = rig.Dur(10 * time.Millisecond)
	mcfg.ReconnectionDelayMax = rig.Dur(20 * time.Millisecond)
	mcfg.RandomizationFactor = rig.F32(0)
	m := sio.NewManager(url, mcfg)
	s := m.Socket("/", nil)
	s.OnEvent("e", func(b sio.Binary) {})
	s.OnEvent("m", func(m map[string]any) {})
	s.OnEvent("a", func(a any) {})
	s.OnEvent("s", func(v gen.S2) {})
	s.OnEvent("p", func(v *gen.S6) {})
	s.OnEvent("k", func(a string, ack func()) { ack() })
	s.OnEvent("l", func(v []sio.Binary) {})
	s.OnEvent("g", func(v []any, w any) {})
	s.OnEvent("n", func() {})
	s.OnEvent("u", func(v upload) {})
	s.OnEvent("v", func(v *upload) {})
	s.OnEvent("canary", func(n int, ack func(int)) { ack(n) })
	s.Connect()
	io.Copy(io.Discard, os.Stdin)
	os.Exit(0)
}

type clientChild struct {
	cmd   *exec.Cmd
	stdin io.WriteCloser
	log   string
	done  chan struct{}
}

func startClientChild(url, tag string) (*clientChild, error) {
	work := filepath.Join(vk.Root, ".work", fmt.Sprintf("c10-%d", os.Getpid()))
	os.MkdirAll(work, 0o755)
	logp := filepath.Join(work, tag+".log")
	lf, err := os.Create(logp)
	if err != nil {
		return nil, err
	}
	cmd := exec.Command(os.Args[0], "-sub", "client")
	cmd.Env = append(os.Environ(), "VERIF_RAW_URL="+url)
	cmd.Stdout, cmd.Stderr = lf, lf
	cmd.SysProcAttr = &syscall.SysProcAttr{Setpgid: true, Pdeathsig: syscall.SIGKILL}
	stdin, err := cmd.StdinPipe()
	if err != nil {
		return nil, err
	}
	if err := cmd.Start(); err != nil {
		return nil, err
	}
	c := &clientChild{cmd: cmd, stdin: stdin, log: logp, done: make(chan struct{})}
	go func() { cmd.Wait(); lf.Close(); close(c.done) }()
	return c, nil
}

func (c *clientChild) alive() bool {
	select {
	case <-c.done:
		return false
	default:
		return true
	}
}

func (c *clientChild) kill() {
	c.stdin.Close()
	select {
	case <-c.done:
	case <-time.After(2 * time.Second):
		syscall.Kill(-c.cmd.Process.Pid, syscall.SIGKILL)
		<-c.done
	}
}

func (c *clientChild) logTail() string {
	b, _ := os.ReadFile(c.log)
	if len(b) > 3000 {
		b = b[:3000]
	}
	return string(b)
}

// liveSession returns the newest session on which the client's CONNECT for "/" has arrived.
func liveSession(raw *rawpeer.Server, timeout time.Duration) *rawpeer.Session {
	var found *rawpeer.Session
	vk.WaitUntil(timeout, func() bool {
		ss := raw.Sessions()
		for i := len(ss) - 1; i >= 0; i-- {
			if ss[i].IsClosed() {
				continue
			}
			ps, _ := ss[i].Packets()
			for _, p := range ps {
				if p.P.Type == refcodec.Connect {
					found = ss[i]
					return true
				}
			}
			return false
		}
		return false
	})
	return found
}

func clientCanary(raw *rawpeer.Server, n int) error {
	return clientCanaryWithin(raw, n, 30*time.Second)
}

func clientCanaryWithin(raw *rawpeer.Server, n int, budget time.Duration) error {
	deadline := time.Now().Add(budget)
	var last error
	for time.Now().Before(deadline) {
		sess := liveSession(raw, 10*time.Second)
		if sess == nil {
			last = fmt.Errorf("no live session with a CONNECT")
			continue
		}
		id := uint64(100000 + n)
		sess.Emit("/", &id, "canary", json.Number(fmt.Sprint(n)))
		// a round trip on loopback takes milliseconds; a short wait per try (and many tries within the 30 s
		// budget) keeps a try on a session the client has just abandoned from costing seconds
		_, _, err := sess.WaitPacket(0, 400*time.Millisecond, func(p *refcodec.Packet) bool { return p.Type == refcodec.Ack && p.ID != nil && *p.ID == id })
		if err == nil {
			return nil
		}
		last = err
	}
	return last
}

func clientMirror(run *vk.Run, seqs [][][]byte) {
	raw, err := rawpeer.NewServer("")
	if err != nil {
		run.Inconclusive("client mirror: " + err.Error())
		return
	}
	defer raw.Close()
	raw.Upgrades = nil
	ch, err := startClientChild(raw.URL, "client")
	if err != nil {
		run.Inconclusive("client mirror: " + err.Error())
		return
	}
	defer func() { ch.kill() }()
	if err := clientCanary(raw, 0); err != nil {
		run.Inconclusive("client mirror: initial canary failed: " + err.Error())
		return
	}
	restarts := 0
	mirrorViolations := 0
	for i, frames := range seqs {
		if mirrorViolations >= 3 {
			run.Logf("client mirror: stopping after %d violations (each further one costs its full canary time-out)", mirrorViolations)
			break
		}
		run.Eval(1)
		run.Count("client_mirror_sequences", 1)

		os.WriteFile(filepath.Join(vk.Root, ".work", fmt.Sprintf("c10-%d", os.Getpid()), "last-client-input.txt"), []byte(showFrames(frames)), 0o644)
		sess := liveSession(raw, 20*time.Second)
		died := false
		if sess == nil {
			died = !ch.alive()
			if !died {
				run.Inconclusive("client mirror: no live session before sequence " + fmt.Sprint(i))
				continue
			}
		} else {
			sess.SendFrames(frames)
			// the parser is per connection: terminate a packet that still waits for attachments by dropping the session
			time.Sleep(2 * time.Millisecond)
			vk.WaitUntil(100*time.Millisecond, func() bool { return !ch.alive() })
			died = !ch.alive()
		}
		if !died {
			q := feedQuiet(frames)
			if q.waitingAfter && sess != nil {
				sess.Drop() // otherwise the canary would be swallowed as an attachment
			}
			// a sequence that legitimately ends the client socket (DISCONNECT / CONNECT_ERROR for "/") cannot be
			// followed by a canary round trip: do not spend the full budget waiting for one
			budget := 30 * time.Second
			if endsClientSocket(frames) {
				budget = 2 * time.Second
			}
			if err := clientCanaryWithin(raw, i+1, budget); err != nil {
				if !ch.alive() {
					died = true
				} else if endsClientSocket(frames) {
					// a well-formed DISCONNECT / CONNECT_ERROR for "/" legitimately ends the client socket
					// (the client does not reconnect after a server-initiated disconnect): start a fresh client
					run.Count("client_legitimately_disconnected", 1)
					ch.kill()
					restarts++
					if ch, err = startClientChild(raw.URL, fmt.Sprintf("client%d", restarts)); err != nil {
						return
					}
					clientCanary(raw, 0)
					continue
				} else {
					mirrorViolations++
					run.Violation(vk.Violation{Sub: "wedged", Fields: map[string]any{"side": "client"},
						What:    "Go client no longer answers the canary after the server sent " + showFrames(frames) + ": " + err.Error(),
						Witness: map[string]any{"frames": frameStrings(frames), "side": "client"}})
					ch.kill()
					restarts++
					if ch, err = startClientChild(raw.URL, fmt.Sprintf("client%d", restarts)); err != nil {
						return
					}
					continue
				}
			} else {
				run.Count("client_canary_ok", 1)
			}
		}
		if died {
			logt := ch.logTail()
			kind := "other"
			switch {
			case strings.Contains(logt, "index out of range"):
				kind = "index-range"
			case strings.Contains(logt, "slice bounds out of range"):
				kind = "slice-bounds"
			}
			mirrorViolations++
			run.Violation(vk.Violation{Sub: "process-died", Fields: map[string]any{"kind": kind, "side": "client"},
				What:    "the Go client process exited after the server sent " + showFrames(frames) + " :: " + firstLines(logt, 3),
				Witness: map[string]any{"frames": frameStrings(frames), "side": "client", "child_log": firstLines(logt, 30)}})
			restarts++
			if restarts > 20 {
				return
			}
			if ch, err = startClientChild(raw.URL, fmt.Sprintf("client%d", restarts)); err != nil {
				return
			}
			clientCanary(raw, 0)
		}
	}
	run.Note("client_child_restarts", restarts)
}

// endsClientSocket reports whether the sequence contains a packet that the real parser accepts and
// that legitimately ends the client's socket for "/": DISCONNECT or CONNECT_ERROR.
func endsClientSocket(frames [][]byte) (ends bool) {
	defer func() { recover() }()
	p := creator()
	for _, f := range frames {
		p.Add(f, func(h *parser.PacketHeader, ev string, d parser.Decode) {
			if (h.Namespace == "/" || h.Namespace == "") && (h.Type == parser.PacketTypeDisconnect || h.Type == parser.PacketTypeConnectError) {
				ends = true
			}
		})
	}
	return
}
