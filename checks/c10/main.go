// C10 — no input from a peer can crash or wedge the Socket.IO decoder or the process.
//
// Part 1 (in-process): every frame string up to length L over the protocol alphabet,
// grammar-aware mutations of valid packets and truncations are fed to the real
// Parser.Add; every finished packet is decoded against every handler-signature family.
// Monitors: recover() around every call and a per-worker progress watchdog (hang).
// Part 2 (process level): a child process runs a real server with handlers of every
// family; a raw protocol peer sends the hostile sequences; monitors: child exit
// status, a canary round trip, and "reported" = connection closed by the server or the
// socket's error handler invoked (read back through a stats endpoint of the child).
package main

import (
	"bytes"
	"encoding/json"
	"fmt"
	"io"
	"net/http"
	"os"
	"os/exec"
	"path/filepath"
	"reflect"
	"runtime"
	"strings"
	"sync"
	"sync/atomic"
	"syscall"
	"time"

	sio "github.com/karagenc/socket.io-go"
	"github.com/karagenc/socket.io-go/parser"
	jsonparser "github.com/karagenc/socket.io-go/parser/json"
	"github.com/karagenc/socket.io-go/parser/json/serializer/stdjson"

	"sioverif/internal/gen"
	"sioverif/internal/rawpeer"
	"sioverif/internal/refcodec"
	"sioverif/internal/rig"
	"sioverif/internal/vk"
)

var creator = jsonparser.NewCreator(0, stdjson.New())

type family struct {
	name  string
	types []reflect.Type
}

func tOf[T any]() reflect.Type { var p *T; return reflect.TypeOf(p).Elem() }

// upload: a struct with fields that stay nil / zero when the peer leaves them out (pointer, interface,
// recursive pointer, map, slice) next to a Binary leaf — the reconstruct walk has to cope with every one.
type upload struct {
	Data  sio.Binary        `json:"data"`
	Meta  *gen.S1           `json:"meta"`
	Extra any               `json:"extra"`
	Next  *upload           `json:"next"`
	Tags  map[string]string `json:"tags"`
	Parts []*gen.S2         `json:"parts"`
}

var families = []family{
	{"()", nil},
	{"(Binary)", []reflect.Type{tOf[sio.Binary]()}},
	{"(map)", []reflect.Type{tOf[map[string]any]()}},
	{"(any)", []reflect.Type{tOf[any]()}},
	{"(S2)", []reflect.Type{tOf[gen.S2]()}},
	{"(*S6)", []reflect.Type{tOf[*gen.S6]()}},
	{"(string,func())", []reflect.Type{tOf[string](), tOf[func()]()}},
	{"([]Binary)", []reflect.Type{tOf[[]sio.Binary]()}},
	{"([]any,any)", []reflect.Type{tOf[[]any](), tOf[any]()}},
	{"(upload)", []reflect.Type{tOf[upload]()}},
	{"(*upload)", []reflect.Type{tOf[*upload]()}},
}

// outcome of one hostile frame sequence against the real parser.
type outcome struct {
	AddErr    string // error returned by Add ("" = none)
	Finished  bool
	Waiting   bool
	Event     string
	Type      int
	DecodeErr map[string]string // family -> error
	Panics    []string
}

// inputs currently inside feed (for the memory guard of vk: which input made the parser allocate)
var (
	inflight    [64]atomic.Pointer[[][]byte]
	inflightSeq atomic.Uint64
)

func init() {
	vk.MemGuardInfo.Store(func() string {
		var out []string
		for i := range inflight {
			if p := inflight[i].Load(); p != nil {
				out = append(out, showFrames(*p))
			}
		}
		return strings.Join(out, "  ||  ")
	})
}

// feed runs one frame sequence through a fresh parser with all monitors on.
func feed(frames [][]byte) (o outcome) {
	slot := &inflight[inflightSeq.Add(1)%64]
	slot.Store(&frames)
	defer slot.Store(nil)
	o.DecodeErr = map[string]string{}
	p := creator()
	var dec parser.Decode
	var hdr *parser.PacketHeader
	for i, f := range frames {
		func() {
			defer func() {
				if r := recover(); r != nil {
					o.Panics = append(o.Panics, fmt.Sprintf("Add(frame %d) panicked: %v", i, r))
				}
			}()
			err := p.Add(f, func(h *parser.PacketHeader, ev string, d parser.Decode) {
				o.Finished = true
				o.Event = ev
				hdr = h
				dec = d
			})
			if err != nil {
				o.AddErr = err.Error()
			}
		}()
		if o.AddErr != "" || len(o.Panics) > 0 || o.Finished {
			break
		}
	}
	if !o.Finished {
		o.Waiting = o.AddErr == "" && len(o.Panics) == 0
		return
	}
	o.Type = int(hdr.Type)
	for _, fam := range families {
		func() {
			defer func() {
				if r := recover(); r != nil {
					o.Panics = append(o.Panics, fmt.Sprintf("decode%s panicked: %v", fam.name, r))
				}
			}()
			_, err := dec(fam.types...)
			if err != nil {
				o.DecodeErr[fam.name] = err.Error()
			}
		}()
	}
	return
}

func errClass(s string) string {
	if s == "" {
		return "ok"
	}
	if i := strings.IndexAny(s, "0123456789\"'`"); i > 0 {
		s = s[:i]
	}
	if len(s) > 40 {
		s = s[:40]
	}
	return s
}

const alphabet = "0125-/,\"[]{}\\a69"

var continuation = [][]byte{[]byte(""), []byte("x"), []byte(`{"_placeholder":true,"num":0}`), {0, 1, 2}}

type worker struct {
	cur   atomic.Value // string: current input (journal of the in-flight input)
	ticks atomic.Int64
}

func main() {
	run := vk.Start("C10", "exploration")
	if run.SubMode == "server" {
		childServer()
		return
	}
	if run.SubMode == "client" {
		childClient()
		return
	}
	run.Rule("part 1: exhaustive enumeration of first frames over a 16-symbol protocol alphabet (length <= L) with continuation frames, " +
		"plus grammar-aware mutations and truncations; a case is distinct by (Add outcome class, packet type, per-family decode outcome classes). " +
		"part 2: hostile sequences replayed against a real server in a child process")
	run.Assume("panics are observed with recover() on the calling goroutine in part 1 and as child-process death in part 2",
		"'reported' is demanded only for sequences the real parser itself rejects (Add error => close, decode error for the registered handler => error handler)")
	maxLen := run.Pick(4, 6)
	run.Note("alphabet", alphabet)
	run.Note("max_first_frame_length", maxLen)

	var interesting sync.Map // class -> example frames (for part 2)
	record := func(frames [][]byte, o outcome) {
		run.Eval(1)
		if len(o.Panics) > 0 {
			for _, p := range o.Panics {
				site := "decode"
				if strings.HasPrefix(p, "Add") {
					site = "Add"
				}
				kind := "other"
				switch {
				case strings.Contains(p, "slice bounds out of range"):
					kind = "slice-bounds"
				case strings.Contains(p, "index out of range"):
					kind = "index-range"
				case strings.Contains(p, "reflect"):
					kind = "reflect"
				}
				run.Violation(vk.Violation{Sub: "panic", Fields: map[string]any{"site": site, "kind": kind},
					What: fmt.Sprintf("%s on frames %s", p, showFrames(frames)), Witness: map[string]any{"frames": frameStrings(frames)}})
			}
		}
		var sig strings.Builder
		fmt.Fprintf(&sig, "add=%s fin=%v wait=%v t=%d", errClass(o.AddErr), o.Finished, o.Waiting, o.Type)
		for _, f := range families {
			fmt.Fprintf(&sig, " %s=%s", f.name, errClass(o.DecodeErr[f.name]))
		}
		s := sig.String()
		run.Distinct(s)
		if _, loaded := interesting.LoadOrStore(s, frames); !loaded {
			run.Sample(map[string]any{"frames": frameStrings(frames), "outcome": s})
		}
		switch {
		case o.AddErr != "":
			run.Count("add_error", 1)
		case o.Waiting:
			run.Count("waiting_for_attachments", 1)
		case o.Finished:
			run.Count("finished", 1)
		}
	}

	// ---- exhaustive enumeration, parallel over first two symbols ----
	nw := runtime.GOMAXPROCS(0)
	workers := make([]*worker, nw)
	for i := range workers {
		workers[i] = &worker{}
		workers[i].cur.Store("")
	}
	stopWD := make(chan struct{})
	go func() { // progress watchdog: a worker stuck on one input for > 20 s is a hang
		last := make([]int64, nw)
		stuck := make([]int, nw)
		for {
			select {
			case <-stopWD:
				return
			case <-time.After(2 * time.Second):
			}
			for i, w := range workers {
				t := w.ticks.Load()
				if t == last[i] && w.cur.Load().(string) != "" {
					stuck[i]++
					if stuck[i] == 10 {
						run.Violation(vk.Violation{Sub: "hang", Fields: map[string]any{}, What: "decoder did not return within 20 s on input " + fmt.Sprintf("%q", w.cur.Load()),
							Witness: map[string]any{"input": w.cur.Load(), "stacks": vk.DumpGoroutines("c10-hang")}})
					}
				} else {
					stuck[i] = 0
				}
				last[i] = t
			}
		}
	}()

	jobs := make(chan string, 1024)
	var wg sync.WaitGroup
	for i := 0; i < nw; i++ {
		wg.Add(1)
		go func(w *worker) {
			defer wg.Done()
			buf := make([]byte, 0, 8)
			var rec func(prefix []byte, depth int)
			try := func(s []byte) {
				w.cur.Store(string(s))
				w.ticks.Add(1)
				first := append([]byte(nil), s...)
				o := feed([][]byte{first})
				record([][]byte{first}, o)
				if o.Waiting {
					// header announced attachments: try continuation frames (up to 2)
					for _, c1 := range continuation {
						o1 := feed([][]byte{first, c1})
						record([][]byte{first, c1}, o1)
						if o1.Waiting {
							for _, c2 := range continuation {
								record([][]byte{first, c1, c2}, feed([][]byte{first, c1, c2}))
							}
						}
					}
				}
				w.cur.Store("")
			}
			rec = func(prefix []byte, depth int) {
				try(prefix)
				if depth == maxLen {
					return
				}
				for i := 0; i < len(alphabet); i++ {
					rec(append(prefix, alphabet[i]), depth+1)
				}
			}
			for p := range jobs {
				buf = append(buf[:0], p...)
				if len(p) < 2 { // short prefixes are tried once, not expanded
					try(buf)
					continue
				}
				rec(buf, len(p))
			}
		}(workers[i])
	}
	jobs <- ""
	for i := 0; i < len(alphabet); i++ {
		jobs <- string(alphabet[i])
		for j := 0; j < len(alphabet); j++ {
			jobs <- string([]byte{alphabet[i], alphabet[j]})
		}
	}
	close(jobs)
	wg.Wait()
	run.Exhaustive(true)
	run.Logf("exhaustive part done: %d evaluations, %d distinct outcome classes", run.Counter("add_error")+run.Counter("finished")+run.Counter("waiting_for_attachments"), run.DistinctCount())

	// ---- grammar-aware mutations ----
	w0 := workers[0]
	for _, frames := range mutations(run) {
		w0.cur.Store(showFrames(frames))
		w0.ticks.Add(1)
		record(frames, feed(frames))
		w0.cur.Store("")
		run.Count("grammar_mutations", 1)
	}
	close(stopWD)

	// ---- part 2: process level ----
	var hostile [][][]byte
	interesting.Range(func(k, v any) bool { hostile = append(hostile, v.([][]byte)); return true })
	tp := time.Now()
	processLevel(run, hostile)
	run.Logf("process-level part (server child) done: %d sequences in %.0f s", len(hostile), time.Since(tp).Seconds())
	// mirror for the Go client: the hostile frames come from the server side
	var cseqs [][][]byte
	cseqs = append(cseqs, hostile...)
	all := mutations(run)
	stride := run.Pick(len(all)/150+1, len(all)/2000+1)
	for i := 0; i < len(all); i += stride {
		cseqs = append(cseqs, all[i])
	}
	for _, s := range []string{"0/", "2/", "4/", `51-["e",{"_placeholder":true,"num":-2}]`, `51-["m",{"bin":{"_placeholder":true,"num":-2}}]`, `61-3[{"_placeholder":true,"num":-1}]`} {
		cseqs = append(cseqs, [][]byte{[]byte(s), {1, 2, 3}})
	}
	tp = time.Now()
	clientMirror(run, cseqs)
	run.Logf("client mirror done: %d sequences in %.0f s", len(cseqs), time.Since(tp).Seconds())
	run.Finish()
}

func showFrames(frames [][]byte) string {
	var b strings.Builder
	for i, f := range frames {
		if i > 0 {
			b.WriteString(" | ")
		}
		if len(f) > 120 {
			fmt.Fprintf(&b, "%q...(%d)", f[:120], len(f))
		} else {
			fmt.Fprintf(&b, "%q", f)
		}
	}
	return b.String()
}

func frameStrings(frames [][]byte) []string {
	out := make([]string, len(frames))
	for i, f := range frames {
		out[i] = fmt.Sprintf("%q", f)
	}
	return out
}

// mutations builds grammar-aware hostile sequences from valid packets.
func mutations(run *vk.Run) [][][]byte {
	var out [][][]byte
	add := func(frames ...[]byte) { out = append(out, frames) }
	att := []byte{1, 2, 3}
	events := []string{"e", "m", "a", "s", "p", "k", "l", "g", "u", "v"}
	nums := []string{"-9223372036854775808", "-2", "-1", "0", "1", "2", "3", "1e300", "1.5", "-0.5", `"0"`, "true", "null", "[]", "{}", "9223372036854775807", "18446744073709551616", "1e19"}
	counts := []string{"-1", "0", "1", "2", "3", "2147483648", "9223372036854775807", "9223372036854775808", "18446744073709551615", "18446744073709551616", "1e19", "01", "+1", " 1"}
	for _, ev := range events {
		for _, n := range nums {
			// placeholder number mutations, 1 and 2 attachments, at top level / in map / in slice / in struct field
			for _, tmpl := range []string{
				`51-["%s",{"_placeholder":true,"num":%s}]`,
				`51-["%s",{"num":%s,"_placeholder":true}]`,
				`51-["%s",{"bin":{"_placeholder":true,"num":%s}}]`,
				`51-["%s",[{"_placeholder":true,"num":%s}]]`,
				`51-["%s",{"b1":{"_placeholder":true,"num":%s},"b2":{"_placeholder":true,"num":0}}]`,
				`51-["%s",{"inner":{"bin":{"_placeholder":true,"num":%s}}}]`,
				`51-["%s",{"a":{"b":{"_placeholder":true,"num":%s}}}]`,
				`51-["%s",{"_placeholder":false,"num":%s}]`,
				`51-["%s",{"data":{"_placeholder":true,"num":%s}}]`,
				`51-["%s",{"data":{"_placeholder":true,"num":%s},"meta":null,"extra":null,"next":{"data":null,"next":null},"parts":[null]}]`,
				`51-/nsp,7["%s",{"_placeholder":true,"num":%s}]`,
			} {
				add([]byte(fmt.Sprintf(tmpl, ev, n)), att)
			}
			add([]byte(fmt.Sprintf(`52-["%s",{"_placeholder":true,"num":%s},{"_placeholder":true,"num":1}]`, ev, n)), att, att)
			add([]byte(fmt.Sprintf(`61-3[{"_placeholder":true,"num":%s}]`, n)), att)
		}
		for _, c := range counts {
			add([]byte(fmt.Sprintf(`5%s-["%s",{"_placeholder":true,"num":0}]`, c, ev)), att)
			add([]byte(fmt.Sprintf(`6%s-1[{"_placeholder":true,"num":0}]`, c)), att)
		}
		// text where binary is expected and vice versa, duplicated/missing attachments
		add([]byte(fmt.Sprintf(`51-["%s",{"_placeholder":true,"num":0}]`, ev)), []byte(`2["x"]`))
		add([]byte(fmt.Sprintf(`50-["%s",{"_placeholder":true,"num":0}]`, ev)))
		add([]byte(fmt.Sprintf(`2["%s",{"_placeholder":true,"num":0}]`, ev)))
		add([]byte(fmt.Sprintf(`52-["%s",{"_placeholder":true,"num":1},{"_placeholder":true,"num":1}]`, ev)), att, att)
		add([]byte(fmt.Sprintf(`51-["%s"]`, ev)), att)
		add([]byte(fmt.Sprintf(`51-["%s",1,2,3,4,5,6,7,8,9]`, ev)), att)
		add([]byte(fmt.Sprintf(`2["%s",1,2,3,4,5,6,7,8,9]`, ev)))
		add([]byte(fmt.Sprintf(`2["%s","str",{"k":1},[1],null]`, ev)))
	}
	// namespaces without comma, ids with 21 digits, junk after header
	for _, s := range []string{"0/", "0/abc", "2/", "2/abc", "1/", "3/x", "4/x", "5/", "51-/", "51-/x", "6/", "61-/x", "0/a,", "2/a,", "2/a,[", `2/a,["e"`, "2/a,1", "2/a,1[",
		"2123456789012345678901[\"e\"]", "3123456789012345678901[]", "299999999999999999999[\"e\"]", "2-1[\"e\"]", "2[", "2]", "2{", "2}", `2"`, `2"e"`, `2["e"`, `2["e",`, `2[e]`, `2["\`, `2["\"`, `2["\\"`, `2["\\\"`,
		"0{", "0[", "0[]", "0null", "01", `0"x"`, "0{\"pid\":1}", "4", "4{", "4null", "3", "3[", "31", "31[", "31{}", "31null", "1x", "1{", "7", "8", "9", ":", " ", "\x00", "2\x00", "2[\"\x00\"]",
		"5", "5-", "5--", "51", "51-", "5-1", "5a-", "5 1-", "51-[", "51-2", "51-/a", "51-/a,", "51-/a,1", "61-", "61-1", "61-1[", "6-", "60-1[]", "60-[]",
	} {
		add([]byte(s))
		add([]byte(s), att)
	}
	// truncations of valid packets at every byte
	valid := []string{
		`2/nsp,17["e",{"a":[1,2,{"b":null}],"s":"x\"y\\"},"tail"]`,
		`52-/nsp,17["s",{"bin":{"_placeholder":true,"num":0},"n":1},{"_placeholder":true,"num":1}]`,
		`0/nsp,{"pid":"abc","offset":"def","x":[1,2]}`,
		`61-/nsp,4[{"_placeholder":true,"num":0}]`,
		`4/nsp,{"message":"m","data":{"a":1}}`,
	}
	for _, v := range valid {
		for i := 0; i <= len(v); i++ {
			add([]byte(v[:i]))
			add([]byte(v[:i]), att, att)
		}
	}
	// seeded byte mutations of valid packets
	r := run.Rand("c10-mut")
	nmut := run.Pick(20000, 400000)
	for i := 0; i < nmut; i++ {
		b := []byte(valid[r.Intn(len(valid))])
		for k := 0; k <= r.Intn(3); k++ {
			switch r.Intn(3) {
			case 0:
				b[r.Intn(len(b))] = alphabet[r.Intn(len(alphabet))]
			case 1:
				j := r.Intn(len(b))
				b = append(b[:j], b[j+1:]...)
			case 2:
				j := r.Intn(len(b))
				b = append(b[:j], append([]byte{alphabet[r.Intn(len(alphabet))]}, b[j:]...)...)
			}
			if len(b) == 0 {
				b = []byte("2")
			}
		}
		add(b, att, att)
	}
	return out
}

// ---------------------------------------------------------------------------
// part 2: process level

type stats struct {
	Errors      map[string]int `json:"errors"` // sid -> error handler invocations
	Connections int            `json:"connections"`
	Events      int            `json:"events"`
}

func childServer() {
	var mu sync.Mutex
	st := stats{Errors: map[string]int{}}
	srv, err := rig.NewServer(&sio.ServerConfig{AcceptAnyNamespace: true}, "")
	if err != nil {
		fmt.Println("child: cannot start server:", err)
		os.Exit(3)
	}
	count := func() { mu.Lock(); st.Events++; mu.Unlock() }
	srv.IO.OnAnyConnection(func(nsp string, s sio.ServerSocket) {
		mu.Lock()
		st.Connections++
		mu.Unlock()
		sid := string(s.ID())
		s.OnError(func(err error) { mu.Lock(); st.Errors[sid]++; mu.Unlock() })
		s.OnEvent("e", func(b sio.Binary) { count() })
		s.OnEvent("m", func(m map[string]any) { count() })
		s.OnEvent("a", func(a any) { count() })
		s.OnEvent("s", func(v gen.S2) { count() })
		s.OnEvent("p", func(v *gen.S6) { count() })
		s.OnEvent("k", func(a string, ack func()) { count(); ack() })
		s.OnEvent("l", func(v []sio.Binary) { count() })
		s.OnEvent("g", func(v []any, w any) { count() })
		s.OnEvent("n", func() { count() })
		s.OnEvent("u", func(v upload) { count() })
		s.OnEvent("v", func(v *upload) { count() })
		s.OnEvent("canary", func(n int, ack func(int)) { ack(n) })
	})
	// stats endpoint on a second listener
	mux := http.NewServeMux()
	mux.HandleFunc("/stats", func(w http.ResponseWriter, r *http.Request) {
		mu.Lock()
		defer mu.Unlock()
		json.NewEncoder(w).Encode(&st)
	})
	sl, err := rig.ListenLoopback()
	if err != nil {
		os.Exit(3)
	}
	go http.Serve(sl, mux)
	info := fmt.Sprintf("%s\n%s\n", srv.URL, "http://"+sl.Addr().String()+"/stats")
	os.WriteFile(os.Getenv("VERIF_CHILD_INFO"), []byte(info), 0o644)
	// live until the parent goes away
	io.Copy(io.Discard, os.Stdin)
	os.Exit(0)
}

type child struct {
	cmd   *exec.Cmd
	stdin io.WriteCloser
	url   string
	stats string
	log   string
	done  chan struct{}
	err   error
}

func startChild(tag string) (*child, error) {
	work := filepath.Join(vk.Root, ".work", fmt.Sprintf("c10-%d", os.Getpid()))
	os.MkdirAll(work, 0o755)
	info := filepath.Join(work, tag+".info")
	os.Remove(info)
	logp := filepath.Join(work, tag+".log")
	lf, err := os.Create(logp)
	if err != nil {
		return nil, err
	}
	cmd := exec.Command(os.Args[0], "-sub", "server")
	cmd.Env = append(os.Environ(), "VERIF_CHILD_INFO="+info)
	cmd.Stdout = lf
	cmd.Stderr = lf
	cmd.SysProcAttr = &syscall.SysProcAttr{Setpgid: true, Pdeathsig: syscall.SIGKILL}
	stdin, err := cmd.StdinPipe()
	if err != nil {
		return nil, err
	}
	if err := cmd.Start(); err != nil {
		return nil, err
	}
	c := &child{cmd: cmd, stdin: stdin, log: logp, done: make(chan struct{})}
	go func() { c.err = cmd.Wait(); lf.Close(); close(c.done) }()
	ok := vk.WaitUntil(30*time.Second, func() bool {
		b, err := os.ReadFile(info)
		if err != nil {
			return false
		}
		parts := strings.Split(strings.TrimSpace(string(b)), "\n")
		if len(parts) != 2 {
			return false
		}
		c.url, c.stats = parts[0], parts[1]
		return true
	})
	if !ok {
		c.kill()
		return nil, fmt.Errorf("child did not come up (log %s)", logp)
	}
	return c, nil
}

func (c *child) alive() bool {
	select {
	case <-c.done:
		return false
	default:
		return true
	}
}

func (c *child) kill() {
	c.stdin.Close()
	select {
	case <-c.done:
	case <-time.After(2 * time.Second):
		syscall.Kill(-c.cmd.Process.Pid, syscall.SIGKILL)
		<-c.done
	}
}

func (c *child) getStats() (*stats, error) {
	cl := http.Client{Timeout: 10 * time.Second}
	resp, err := cl.Get(c.stats)
	if err != nil {
		return nil, err
	}
	defer resp.Body.Close()
	var st stats
	err = json.NewDecoder(resp.Body).Decode(&st)
	return &st, err
}

func (c *child) logTail() string {
	b, _ := os.ReadFile(c.log)
	if len(b) > 3000 {
		b = b[:3000]
	}
	return string(b)
}

// canary: a fresh connection must be able to connect and get an ack.
func canary(url string, transport string, n int) error {
	s, err := rawpeer.DialSIO(url, transport)
	if err != nil {
		return fmt.Errorf("dial: %w", err)
	}
	defer s.C.Close()
	res, err := s.Connect("/", nil, 20*time.Second)
	if err != nil || !res.OK {
		return fmt.Errorf("connect: %v %+v", err, res)
	}
	id := uint64(n)
	if err := s.Emit("/", &id, "canary", json.Number(fmt.Sprint(n))); err != nil {
		return err
	}
	_, _, err = s.WaitPacket(0, 20*time.Second, func(p *refcodec.Packet) bool {
		return p.Type == refcodec.Ack && p.ID != nil && *p.ID == id
	})
	if err != nil {
		return fmt.Errorf("ack: %w", err)
	}
	return nil
}

func processLevel(run *vk.Run, fromPart1 [][][]byte) {
	// hostile sequences: every outcome class seen in part 1 + the grammar list restricted to a deterministic subset
	var seqs [][][]byte
	seqs = append(seqs, fromPart1...)
	all := mutations(run)
	stride := run.Pick(len(all)/250+1, len(all)/3000+1)
	for i := 0; i < len(all); i += stride {
		seqs = append(seqs, all[i])
	}
	// always include the shortest classics
	for _, s := range []string{"0/", "0/abc", "2/", `51-["e",{"_placeholder":true,"num":-2}]`, `51-["m",{"bin":{"_placeholder":true,"num":-2}}]`, `51-["a",{"_placeholder":true,"num":-1}]`} {
		seqs = append(seqs, [][]byte{[]byte(s), {1, 2, 3}})
	}
	run.Note("process_level_sequences", len(seqs))

	ch, err := startChild("server")
	if err != nil {
		run.Inconclusive("process-level part: " + err.Error())
		return
	}
	defer func() { ch.kill() }()
	if err := canary(ch.url, "websocket", 0); err != nil {
		run.Inconclusive("process-level part: initial canary failed: " + err.Error())
		return
	}
	transports := []string{"websocket", "polling"}
	restarts := 0
	for i, frames := range seqs {
		tr := transports[i%2]
		run.Eval(1)
		run.Count("process_level_"+tr, 1)
		// journal before sending
		os.WriteFile(filepath.Join(vk.Root, ".work", fmt.Sprintf("c10-%d", os.Getpid()), "last-input.txt"), []byte(showFrames(frames)), 0o644)
		o := feedQuiet(frames)
		s, err := rawpeer.DialSIO(ch.url, tr)
		if err != nil {
			if !ch.alive() {
				goto died
			}
			run.Inconclusive("dial failed: " + err.Error())
			continue
		}
		if res, err := s.Connect("/", nil, 20*time.Second); err != nil || !res.OK {
			s.C.Close()
			if !ch.alive() {
				goto died
			}
			run.Inconclusive(fmt.Sprintf("connect failed: %v", err))
			continue
		} else {
			sid := res.SID
			before, _ := ch.getStats()
			s.C.SendFrames(frames)
			// fence: an acked event after the hostile frames (if the connection survives, FIFO wire => hostile frames were processed)
			fid := uint64(999)
			s.Emit("/", &fid, "canary", json.Number("1"))
			fenceWait := 15 * time.Second
			if o.waitingAfter {
				fenceWait = 300 * time.Millisecond // the fence itself is swallowed as an attachment
			}
			_, _, ferr := s.WaitPacket(0, fenceWait, func(p *refcodec.Packet) bool { return p.Type == refcodec.Ack && p.ID != nil && *p.ID == fid })
			closed := ferr == rawpeer.ErrClosed || s.C.IsClosed()
			if closed { // give a dying child a moment so that the death is attributed to this input
				vk.WaitUntil(150*time.Millisecond, func() bool { return !ch.alive() })
			}
			if !ch.alive() {
				s.C.Close()
				goto died
			}
			if o.expectClose || o.expectErrHandler {
				reported := closed
				if !reported {
					reported = vk.WaitUntil(10*time.Second, func() bool {
						if s.C.IsClosed() {
							return true
						}
						st, err := ch.getStats()
						if err != nil || before == nil {
							return false
						}
						return st.Errors[sid] > before.Errors[sid]
					})
				}
				if !reported && !o.waitingAfter {
					run.Violation(vk.Violation{Sub: "unreported", Fields: map[string]any{"transport": tr, "expect_close": o.expectClose},
						What:    "the real parser rejects the sequence but the server neither closed the connection nor invoked the socket's error handler: " + showFrames(frames),
						Witness: map[string]any{"frames": frameStrings(frames), "transport": tr}})
				} else {
					run.Count("reported_ok", 1)
				}
			}
			s.C.Close()
		}
		if i%25 == 24 || i == len(seqs)-1 {
			if err := canary(ch.url, transports[(i/25)%2], i); err != nil {
				if !ch.alive() {
					goto died
				}
				run.Violation(vk.Violation{Sub: "wedged", Fields: map[string]any{}, What: "canary connection stopped round-tripping after hostile input: " + err.Error(),
					Witness: map[string]any{"last_frames": frameStrings(frames), "stacks_hint": "child log " + ch.log}})
				ch.kill()
				if ch, err = startChild(fmt.Sprintf("server%d", restarts+1)); err != nil {
					run.Inconclusive("cannot restart child: " + err.Error())
					return
				}
				restarts++
			} else {
				run.Count("canary_ok", 1)
			}
		}
		continue
	died:
		{
			logt := ch.logTail()
			kind := "other"
			switch {
			case strings.Contains(logt, "index out of range"):
				kind = "index-range"
			case strings.Contains(logt, "slice bounds out of range"):
				kind = "slice-bounds"
			}
			run.Violation(vk.Violation{Sub: "process-died", Fields: map[string]any{"kind": kind},
				What:    "the server process exited after a peer sent " + showFrames(frames) + " :: " + firstLines(logt, 3),
				Witness: map[string]any{"frames": frameStrings(frames), "transport": tr, "child_log": firstLines(logt, 30)}})
			restarts++
			if restarts > 40 {
				run.Logf("too many child deaths, stopping process-level part")
				return
			}
			var err error
			if ch, err = startChild(fmt.Sprintf("server%d", restarts)); err != nil {
				run.Inconclusive("cannot restart child: " + err.Error())
				return
			}
		}
	}
	run.Note("child_restarts", restarts)
}

type quiet struct {
	expectClose      bool
	expectErrHandler bool
	waitingAfter     bool
}

var eventFamily = map[string]string{"e": "(Binary)", "m": "(map)", "a": "(any)", "s": "(S2)", "p": "(*S6)", "k": "(string,func())", "l": "([]Binary)", "g": "([]any,any)", "n": "()", "u": "(upload)", "v": "(*upload)"}

// feedQuiet classifies a sequence with the real parser (recovering panics) to know what the server must report.
func feedQuiet(frames [][]byte) (q quiet) {
	// The server keeps one parser per connection: feed all frames in order, as the connection would.
	p := creator()
	for _, f := range frames {
		q.waitingAfter = true
		func() {
			defer func() {
				if r := recover(); r != nil {
					q.expectClose = false
					q.expectErrHandler = false
				}
			}()
			err := p.Add(f, func(h *parser.PacketHeader, ev string, d parser.Decode) {
				q.waitingAfter = false
				if h.Namespace != "/" && h.Namespace != "" {
					q.expectClose = true // not joined
					return
				}
				switch h.Type {
				case parser.PacketTypeEvent, parser.PacketTypeBinaryEvent:
					if fam, ok := eventFamily[ev]; ok {
						for _, fm := range families {
							if fm.name == fam {
								func() {
									defer func() { recover() }()
									if _, err := d(fm.types...); err != nil {
										q.expectErrHandler = true
									}
								}()
							}
						}
					}
				case parser.PacketTypeConnect, parser.PacketTypeConnectError:
					q.expectClose = true // invalid state for a connected namespace
				case parser.PacketTypeAck, parser.PacketTypeBinaryAck:
					q.expectErrHandler = true // no such ack registered
				case parser.PacketTypeDisconnect:
					// legal
				}
			})
			if err != nil {
				q.expectClose = true
				q.waitingAfter = false
			}
		}()
		if q.expectClose {
			break
		}
	}
	return
}

func firstLines(s string, n int) string {
	lines := strings.SplitN(s, "\n", n+1)
	if len(lines) > n {
		lines = lines[:n]
	}
	return strings.Join(lines, " / ")
}

var _ = bytes.Equal
