// C02 — per-emitter order is preserved and binary frames are never interleaved.
//
// (a) On the wire: a raw protocol peer (independent of the repository's engine.io code)
// records MESSAGE frames in arrival order; a strict reference assembler (text header ->
// exactly N binary frames) rebuilds packets, so any interleaving of frames of two packets
// is a protocol error; per-emitter sequence numbers must then be increasing. s->c: real
// server -> raw client; c->s: real Go client -> raw Engine.IO server.
// (b) At handler entry in a sio<->sio world: per-emitter sequence numbers at handler entry.
package main

import (
	"fmt"
	"hash/fnv"
	"math/rand"
	"os"
	"strings"
	"sync"
	"sync/atomic"
	"time"

	sio "github.com/karagenc/socket.io-go"

	"sioverif/internal/e2e"
	"sioverif/internal/rawpeer"
	"sioverif/internal/refcodec"
	"sioverif/internal/rig"
	"sioverif/internal/vk"
)

type wcase struct {
	Dir       string // s2c | c2s
	Transport string // polling | websocket | upgraded
	Emitters  int
	Burst     int
}

func (c wcase) id() string {
	return fmt.Sprintf("%s/%s/emitters=%d/burst=%d", c.Dir, c.Transport, c.Emitters, c.Burst)
}

// emitBurst emits Burst events from each of Emitters goroutines: ("o", g, seq, nAtt, attachments...)
func emitBurst(emit func(string, ...any), c wcase, seed int64) {
	var wg sync.WaitGroup
	for g := 0; g < c.Emitters; g++ {
		wg.Add(1)
		r := rand.New(rand.NewSource(seed + int64(g)))
		go func(g int) {
			defer wg.Done()
			for seq := 0; seq < c.Burst; seq++ {
				natt := r.Intn(5)
				args := []any{g, seq, natt}
				for a := 0; a < natt; a++ {
					b := make([]byte, 1+r.Intn(40))
					for i := range b {
						b[i] = byte(g) // content identifies the packet it belongs to
					}
					b[0] = byte(seq)
					args = append(args, sio.Binary(b))
				}
				emit("o", args...)
			}
		}(g)
	}
	wg.Wait()
}

// checkWire verifies the packets reassembled by the strict reference assembler.
func checkWire(run *vk.Run, c wcase, packets []rawpeer.SPacket, protoErr error, gotFence bool) {
	fields := map[string]any{"dir": c.Dir, "transport": c.Transport}
	wit := map[string]any{"case": c.id(), "seed": run.Seed()}
	if protoErr != nil {
		run.Violation(vk.Violation{Sub: "wire-interleaved", Fields: fields,
			What: "MESSAGE frames on the wire do not form contiguous packets: " + protoErr.Error(), Witness: wit})
		return
	}
	next := make([]int, c.Emitters)
	sig := fnv.New64a()
	total := 0
	for _, sp := range packets {
		if rawpeer.EventName(sp.P) != "o" {
			continue
		}
		args := rawpeer.Args(sp.P)
		if len(args) < 3 {
			run.Violation(vk.Violation{Sub: "wire-malformed", Fields: fields, What: fmt.Sprintf("event with %d args", len(args)), Witness: wit})
			continue
		}
		g64, _ := rawpeer.Num(args[0])
		seq64, _ := rawpeer.Num(args[1])
		natt64, _ := rawpeer.Num(args[2])
		g, seq, natt := int(g64), int(seq64), int(natt64)
		if g < 0 || g >= c.Emitters {
			continue
		}
		sig.Write([]byte{byte(g)})
		total++
		if len(args)-3 != natt || len(sp.Frames)-1 != natt {
			run.Violation(vk.Violation{Sub: "wire-attachments", Fields: fields,
				What: fmt.Sprintf("emitter %d seq %d announces %d attachments, %d args / %d binary frames follow", g, seq, natt, len(args)-3, len(sp.Frames)-1), Witness: wit})
		}
		for _, a := range args[3:] {
			b, ok := a.(refcodec.Bin)
			if !ok || len(b) == 0 || b[0] != byte(seq) || (len(b) > 1 && b[1] != byte(g)) {
				run.Violation(vk.Violation{Sub: "wire-foreign-attachment", Fields: fields,
					What: fmt.Sprintf("packet of emitter %d seq %d carries an attachment of another packet", g, seq), Witness: wit})
				break
			}
		}
		if seq != next[g] {
			run.Violation(vk.Violation{Sub: "wire-order", Fields: fields,
				What: fmt.Sprintf("emitter %d: seq %d on the wire where %d was expected (case %s)", g, seq, next[g], c.id()), Witness: wit})
			next[g] = seq + 1
			continue
		}
		next[g]++
	}
	if gotFence {
		for g, n := range next {
			if n != c.Burst {
				run.Violation(vk.Violation{Sub: "wire-missing", Fields: fields,
					What: fmt.Sprintf("emitter %d: %d of %d packets on the wire before the fence", g, n, c.Burst), Witness: wit})
			}
		}
	}
	run.Count("wire_packets", int64(total))
	if total > 0 && (c.Emitters == 4 || c.Emitters == 16) {
		var order []string
		for _, sp := range packets {
			if rawpeer.EventName(sp.P) == "o" && len(order) < 24 {
				a := rawpeer.Args(sp.P)
				order = append(order, fmt.Sprintf("g%v#%v(+%d)", a[0], a[1], len(sp.Frames)-1))
			}
		}
		run.Sample(map[string]any{"case": c.id(), "packets_on_wire": total, "wire_prefix": order})
	}
	run.Distinct(fmt.Sprintf("%s/%s/sig=%x", c.Dir, c.Transport, sig.Sum64()))
}

func isFence(p *refcodec.Packet) bool { return rawpeer.EventName(p) == "fence" }

func runS2C(run *vk.Run, c wcase) {
	run.Eval(1)
	srv, err := rig.NewServer(nil, "")
	if err != nil {
		run.Inconclusive(err.Error())
		return
	}
	defer srv.Close()
	sockCh := make(chan sio.ServerSocket, 1)
	srv.IO.OnConnection(func(s sio.ServerSocket) { sockCh <- s })
	tr := c.Transport
	if tr == "upgraded" {
		tr = "polling"
	}
	peer, err := rawpeer.DialSIO(srv.URL, tr)
	if err != nil {
		run.Inconclusive("dial: " + err.Error())
		return
	}
	defer peer.C.Close()
	if res, err := peer.Connect("/", nil, 30*time.Second); err != nil || !res.OK {
		run.Inconclusive(fmt.Sprintf("connect: %v", err))
		return
	}
	if c.Transport == "upgraded" {
		if err := peer.C.Upgrade(); err != nil {
			run.Inconclusive("upgrade: " + err.Error())
			return
		}
	}
	var ss sio.ServerSocket
	select {
	case ss = <-sockCh:
	case <-time.After(30 * time.Second):
		run.Inconclusive("no server socket")
		return
	}
	emitBurst(ss.Emit, c, run.Seed())
	ss.Emit("fence")
	// wait for the fence — or for a framing error on the wire, after which no fence can be recognised
	deadline := time.Now().Add(60 * time.Second)
	for {
		_, _, err = peer.WaitPacket(0, 250*time.Millisecond, isFence)
		if err == nil || peer.Err() != nil || time.Now().After(deadline) || peer.C.IsClosed() {
			break
		}
	}
	checkWire(run, c, peer.Packets(), peer.Err(), err == nil)
	if err != nil && peer.Err() == nil {
		run.Inconclusive("s2c " + c.id() + ": fence not seen: " + err.Error())
	}
}

func runC2S(run *vk.Run, c wcase) {
	run.Eval(1)
	raw, err := rawpeer.NewServer("")
	if err != nil {
		run.Inconclusive(err.Error())
		return
	}
	defer raw.Close()
	var transports []string
	switch c.Transport {
	case "polling":
		transports = []string{"polling"}
		raw.Upgrades = nil
	case "websocket":
		transports = []string{"websocket"}
	case "upgraded":
		transports = []string{"polling", "websocket"}
	}
	mcfg := rig.ManagerConfig(transports...)
	mcfg.NoReconnection = true
	upgraded := make(chan struct{}, 1)
	mcfg.EIO.UpgradeDone = func(string) { upgraded <- struct{}{} }
	m := sio.NewManager(raw.URL, mcfg)
	defer m.Close()
	sock := m.Socket("/", nil)
	connected := make(chan struct{}, 1)
	sock.OnConnect(func() { connected <- struct{}{} })
	sock.Connect()
	select {
	case <-connected:
	case <-time.After(30 * time.Second):
		run.Inconclusive("c2s " + c.id() + ": client did not connect to the raw server")
		return
	}
	if c.Transport == "upgraded" {
		select {
		case <-upgraded:
		case <-time.After(30 * time.Second):
			run.Inconclusive("c2s " + c.id() + ": upgrade not done")
			return
		}
	}
	sess := raw.WaitSession(1, 10*time.Second)
	if sess == nil {
		run.Inconclusive("no raw session")
		return
	}
	emitBurst(sock.Emit, c, run.Seed())
	sock.Emit("fence")
	var werr error
	deadline := time.Now().Add(60 * time.Second)
	for {
		_, _, werr = sess.WaitPacket(0, 250*time.Millisecond, isFence)
		if _, perr := sess.Packets(); werr == nil || perr != nil || time.Now().After(deadline) {
			break
		}
	}
	ps, perr := sess.Packets()
	checkWire(run, c, ps, perr, werr == nil)
	if werr != nil && perr == nil {
		run.Inconclusive("c2s " + c.id() + ": fence not seen: " + werr.Error())
	}
}

// runC2SAcross: the emitters start BEFORE Connect() and keep emitting at full speed through the connect, so that
// the flush of the offline send buffer (thousands of packets by then) runs while Emit calls of the same goroutines
// are in flight. Per-emitter order on the wire must hold across that hand-over (seeded C02-H: the flush took the
// buffer and released the lock before handing the packets on, so a racing Emit overtook everything buffered).
func runC2SAcross(run *vk.Run, c wcase) {
	run.Eval(1)
	raw, err := rawpeer.NewServer("")
	if err != nil {
		run.Inconclusive(err.Error())
		return
	}
	defer raw.Close()
	transports := []string{"websocket"}
	if c.Transport == "polling" {
		transports = []string{"polling"}
		raw.Upgrades = nil
	}
	mcfg := rig.ManagerConfig(transports...)
	mcfg.NoReconnection = true
	m := sio.NewManager(raw.URL, mcfg)
	defer m.Close()
	sock := m.Socket("/", nil)
	connected := make(chan struct{}, 1)
	sock.OnConnect(func() {
		select {
		case connected <- struct{}{}:
		default:
		}
	})
	var emitted atomic.Int64
	half := int64(c.Emitters * c.Burst / 2)
	goConnect := make(chan struct{})
	var once sync.Once
	go func() {
		<-goConnect
		sock.Connect()
	}()
	emitBurst(func(ev string, args ...any) {
		sock.Emit(ev, args...)
		if emitted.Add(1) >= half {
			once.Do(func() { close(goConnect) })
		}
	}, c, run.Seed())
	once.Do(func() { close(goConnect) })
	select {
	case <-connected:
	case <-time.After(30 * time.Second):
		run.Inconclusive("c2s-across " + c.id() + ": client did not connect to the raw server")
		return
	}
	sess := raw.WaitSession(1, 10*time.Second)
	if sess == nil {
		run.Inconclusive("no raw session")
		return
	}
	sock.Emit("fence")
	var werr error
	deadline := time.Now().Add(60 * time.Second)
	for {
		_, _, werr = sess.WaitPacket(0, 250*time.Millisecond, isFence)
		if _, perr := sess.Packets(); werr == nil || perr != nil || time.Now().After(deadline) {
			break
		}
	}
	ps, perr := sess.Packets()
	checkWire(run, c, ps, perr, werr == nil)
	if werr != nil && perr == nil {
		run.Inconclusive("c2s-across " + c.id() + ": fence not seen: " + werr.Error())
	}
	run.Count("across_connect_cases", 1)
}

// handler-entry order in a sio<->sio world
// big: every second event carries a ~300 KB string, so that decoding an event takes longer than the
// dispatch grace of the library — an implementation that lets the next packet go before the
// previous one has been decoded inverts these pairs systematically.
func runHandlerOrder(run *vk.Run, transports []string, emitters, burst int, big bool) {
	run.Eval(1)
	type rec struct {
		mu   sync.Mutex
		next []int
		inv  int
		n    int
	}
	recs := [2]*rec{{next: make([]int, emitters)}, {next: make([]int, emitters)}}
	pad := ""
	if big {
		pad = strings.Repeat("0123456789abcdef\\\"\u00e9", 16000) // ~300 KB of JSON with escapes
	}
	handler := func(r *rec) func(g, seq int, pad string) {
		return func(g, seq int, _ string) {
			r.mu.Lock()
			if seq < r.next[g] {
				r.inv++
			} else {
				r.next[g] = seq + 1
			}
			r.n++
			r.mu.Unlock()
		}
	}
	w, err := e2e.New(e2e.Config{Transports: transports, Clients: 1, WaitUpgrade: len(transports) == 2,
		OnServerSocket: func(_ int, ss sio.ServerSocket) { ss.OnEvent("h", handler(recs[0])) },
		OnClientSocket: func(_ int, cs sio.ClientSocket) { cs.OnEvent("h", handler(recs[1])) },
	})
	if err != nil {
		run.Inconclusive("handler-order world: " + err.Error())
		return
	}
	defer w.Close()
	var wg sync.WaitGroup
	for d, emit := range []func(string, ...any){w.Clients[0].S.Emit, w.Clients[0].SS().Emit} {
		_ = d
		for g := 0; g < emitters; g++ {
			wg.Add(1)
			go func(g int, emit func(string, ...any)) {
				defer wg.Done()
				for s := 0; s < burst; s++ {
					if big && s%2 == 0 {
						emit("h", g, s, pad)
					} else {
						emit("h", g, s, "")
					}
				}
			}(g, emit)
		}
	}
	wg.Wait()
	vk.WaitUntil(30*time.Second, func() bool {
		for _, r := range recs {
			r.mu.Lock()
			n := r.n
			r.mu.Unlock()
			if n < emitters*burst {
				return false
			}
		}
		return true
	})
	for d, r := range recs {
		dir := []string{"c2s", "s2c"}[d]
		r.mu.Lock()
		inv, n := r.inv, r.n
		r.mu.Unlock()
		run.Count("handler_entries", int64(n))
		run.Count("handler_entry_inversions", int64(inv))
		if n < emitters*burst {
			run.Logf("handler-order %s %v emitters=%d: only %d of %d handler entries after 30 s", dir, transports, emitters, n, emitters*burst)
			run.Count("handler_rig_incomplete", 1)
		}
		if inv > 0 {
			// "rare": the residual of the known finding (a dispatch goroutine descheduled for longer than the
			// grace, about 1 in 10^4 events, more on a loaded machine); "systematic": at least 10 inversions and at
			// least 10 % of the entries of this case — not explained by scheduling accidents.
			rate := "rare"
			if inv >= 10 && inv*10 >= n {
				rate = "systematic"
			}
			run.Logf("handler-order inversions: %d of %d (%s, %s, %d emitters, big=%v): %s", inv, n, dir, strings.Join(transports, "+"), emitters, big, rate)
			run.Violation(vk.Violation{Sub: "handler-order", Fields: map[string]any{"layer": "handler-entry", "rig": "sio-sio", "rate": rate},
				What:    fmt.Sprintf("%d of %d handler entries (%s, %s, %d emitters, big payloads=%v) ran before an earlier event of the same emitter [%s]", inv, n, dir, strings.Join(transports, "+"), emitters, big, rate),
				Witness: map[string]any{"dir": dir, "transports": transports, "emitters": emitters, "burst": burst, "inversions": inv, "entries": n, "big_payloads": big}})
		}
	}
	run.Distinct(fmt.Sprintf("handler/%s/emitters=%d/big=%v", strings.Join(transports, "+"), emitters, big))
}

func main() {
	run := vk.Start("C02", "exploration")
	run.Rule("wire cases {s2c via raw client, c2s via raw Engine.IO server} x {polling, websocket, after a completed upgrade} x emitters {1,2,4,8,16} x burst, 0..4 attachments per event; " +
		"c2s across the connect: 1/2/4 emitters start before Connect() and run through it (the offline buffer is flushed while they emit); distinct = (direction, transport, hash of the emitter-id sequence observed on the wire), i.e. distinct wire interleavings actually seen; plus handler-entry order cases")
	run.Assume("Engine.IO ping/pong/noop packets between MESSAGE frames are legal and ignored",
		"order across the transport swap itself is not demanded here (C07)")
	bursts := []int{run.Pick(100, 200)}
	emitters := []int{1, 2, 4, 8, 16}
	reps := run.Pick(5, 40)
	if run.SubMode == "race" {
		reps = 1
		emitters = []int{4, 16}
	}
	gomax := []int{0}
	_ = gomax
outer:
	for rep := 0; rep < reps; rep++ {
		for _, tr := range []string{"polling", "websocket", "upgraded"} {
			for _, e := range emitters {
				for _, b := range bursts {
					if run.Violations() > 4 {
						break outer // circuit breaker: on a broken tree every further case costs its full time-out
					}
					t0 := time.Now()
					runS2C(run, wcase{"s2c", tr, e, b})
					t1 := time.Now()
					runC2S(run, wcase{"c2s", tr, e, b})
					if d := time.Since(t0); d > 2*time.Second {
						run.Logf("slow wire case %s e=%d: s2c %v c2s %v", tr, e, t1.Sub(t0).Round(time.Millisecond), time.Since(t1).Round(time.Millisecond))
					}
				}
			}
		}
		for _, tr := range []string{"websocket", "polling"} {
			for _, e := range []int{1, 2, 4} {
				if run.Violations() > 4 {
					break outer
				}
				runC2SAcross(run, wcase{"c2s-across-connect", tr, e, run.Pick(4000, 12000) / e})
			}
		}
		for _, tr := range [][]string{{"polling"}, {"websocket"}, {"polling", "websocket"}} {
			for _, e := range []int{1, 4, 16} {
				t0 := time.Now()
				runHandlerOrder(run, tr, e, bursts[0], false)
				if d := time.Since(t0); d > 2*time.Second {
					run.Logf("slow handler-order case %v e=%d: %v", tr, e, d.Round(time.Millisecond))
				}
			}
			if rep < run.Pick(2, 8) {
				runHandlerOrder(run, tr, 1+rep%2, 60, true)
			}
		}
		if run.Violations() > 30 {
			break
		}
	}
	if bin := os.Getenv("VERIF_RACE_BIN"); bin != "" && run.Thorough() && run.SubMode == "" {
		if s, err := vk.RunSub(bin, "race", run, 20*time.Minute); err != nil {
			run.Inconclusive("race sub-pass: " + err.Error())
		} else {
			run.Merge("race:", s)
		}
	}
	run.Finish()
}
