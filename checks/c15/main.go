// C15 — clients reconnect with bounded back-off and deliver what was emitted offline.
//
// Part 1 (function): the back-off calculator over the grid (min, max, jitter, attempt) incl.
// max < min, out-of-range jitter and attempt numbers that overflow: every value in (0, max],
// the first value inside min*(1±jitter) (clamped), no-jitter sequences non-decreasing.
//
// Part 2 (state machine): real Managers against an independent raw Engine.IO/Socket.IO server
// that sits behind a local TCP gate (listener closed = connection refused / accept+reset /
// accept+stall / pass) or answers 503. Every Manager and socket lifecycle event is recorded with
// one monotonic clock. Exact (clock-free) verdicts: number of attempts before giving up,
// reconnect_failed exactly once, no attempt (event or TCP connection) after giving up, no
// giving up with the unlimited setting. Bounded-progress verdicts: reconnects after the server
// is back (barrier + >= 15 s watchdog). Time-bracketed verdicts (jitter canary): the gap between
// a failure and the next attempt; in addition the delay the Manager itself announces on its
// Debugger is checked exactly against the back-off model.
//
// Part 3 (offline buffer, wire level): emits issued at stable offline points (before the first
// Connect, after the disconnect event while the server is still down) must appear on the raw
// server exactly once, in order, after the namespace's CONNECT *and after the server answered
// it*; volatile ones never; emits in transitional windows at most once. The raw server delays
// its CONNECT reply so that "EVENT before the namespace was accepted" is a fact of the log.
package main

import (
	"encoding/json"
	"fmt"
	"io"
	"math"
	"math/big"
	"math/rand"
	"net"
	"os"
	"sort"
	"strings"
	"sync"
	"sync/atomic"
	"time"

	sio "github.com/karagenc/socket.io-go"

	"sioverif/internal/portlock"
	"sioverif/internal/rawpeer"
	"sioverif/internal/refcodec"
	"sioverif/internal/rig"
	"sioverif/internal/vk"
)

const hookFlush = "clientSocket.onConnect:before-flush"

func ms(d time.Duration) string { return fmt.Sprintf("%.1fms", float64(d)/1e6) }

// ---------------------------------------------------------------- jitter canary

type stallRec struct {
	at int64
	d  time.Duration
}

// canary measures how late a 5 ms ticker goroutine is woken: a proxy for how late the
// (asynchronously started) lifecycle handlers of the code under test may record their time.
type canary struct {
	mu     sync.Mutex
	stalls []stallRec
}

func startCanary() *canary {
	c := &canary{}
	go func() {
		tk := time.NewTicker(5 * time.Millisecond)
		last := rawpeer.Now()
		for range tk.C {
			now := rawpeer.Now()
			d := time.Duration(now-last) - 5*time.Millisecond
			last = now
			if d > 2*time.Millisecond {
				c.mu.Lock()
				c.stalls = append(c.stalls, stallRec{now, d})
				c.mu.Unlock()
			}
		}
	}()
	return c
}

func (c *canary) maxStall(from, to int64) time.Duration {
	c.mu.Lock()
	defer c.mu.Unlock()
	var m time.Duration
	for _, s := range c.stalls {
		if s.at >= from && s.at <= to+int64(10*time.Millisecond) && s.d > m {
			m = s.d
		}
	}
	return m
}

// ---------------------------------------------------------------- TCP gate (local fault facility)

const (
	gPass  = iota // forward to the raw server
	gReset        // accept, then reset immediately (attempts are countable on the wire)
	gStall        // accept, forward nothing until healed (then everything)
)

// gate is a killable listener in front of the raw server. Closing the listener gives
// "connection refused"; it can re-listen on the same address ("server restored").
type gate struct {
	addr, target string

	mu      sync.Mutex
	l       net.Listener
	hold    func() // non-nil while the listener is down: keeps the port reserved
	mode    int
	conns   map[net.Conn]struct{}
	stalled []net.Conn
	closed  bool

	accepted atomic.Int64
}

func newGate(target string) (*gate, error) {
	l, err := portlock.Listen("127.0.0.1:0")
	if err != nil {
		return nil, err
	}
	g := &gate{addr: l.Addr().String(), target: target, l: l, conns: map[net.Conn]struct{}{}}
	go g.acceptLoop(l)
	return g, nil
}

func (g *gate) acceptLoop(l net.Listener) {
	for {
		c, err := l.Accept()
		if err != nil {
			return
		}
		g.mu.Lock()
		if g.l != l || g.closed {
			g.mu.Unlock()
			c.Close()
			continue
		}
		g.accepted.Add(1)
		switch g.mode {
		case gReset:
			g.mu.Unlock()
			if tc, ok := c.(*net.TCPConn); ok {
				tc.SetLinger(0)
			}
			c.Close()
		case gStall:
			g.stalled = append(g.stalled, c)
			g.conns[c] = struct{}{}
			g.mu.Unlock()
		default:
			g.conns[c] = struct{}{}
			g.mu.Unlock()
			go g.pipe(c)
		}
	}
}

func (g *gate) pipe(c net.Conn) {
	s, err := net.DialTimeout("tcp", g.target, 5*time.Second)
	if err != nil {
		g.drop(c)
		return
	}
	g.mu.Lock()
	if _, live := g.conns[c]; !live {
		g.mu.Unlock()
		s.Close()
		c.Close()
		return
	}
	g.conns[s] = struct{}{}
	g.mu.Unlock()
	done := make(chan struct{}, 2)
	cp := func(dst, src net.Conn) { io.Copy(dst, src); done <- struct{}{} }
	go cp(s, c)
	go cp(c, s)
	<-done
	g.drop(c)
	g.drop(s)
}

func (g *gate) drop(c net.Conn) {
	g.mu.Lock()
	delete(g.conns, c)
	g.mu.Unlock()
	c.Close()
}

func (g *gate) cutAll() {
	g.mu.Lock()
	cs := make([]net.Conn, 0, len(g.conns))
	for c := range g.conns {
		cs = append(cs, c)
	}
	g.conns = map[net.Conn]struct{}{}
	g.stalled = nil
	g.mu.Unlock()
	for _, c := range cs {
		c.Close()
	}
}

// listenerDown closes the listener (connection refused from now on) and cuts every connection.
// The port stays reserved (portlock.Hold): trials run in parallel, and a port that is really free
// while its server is "down" gets handed to the gate of another trial.
func (g *gate) listenerDown() {
	g.mu.Lock()
	l := g.l
	g.l = nil
	if l != nil && g.hold == nil {
		if rel, err := portlock.Hold(g.addr); err == nil {
			g.hold = rel
		}
	}
	g.mu.Unlock()
	if l != nil {
		l.Close()
	}
	g.cutAll()
}

// listenerUp listens again on the same address.
func (g *gate) listenerUp() error {
	var l net.Listener
	var err error
	for i := 0; i < 150; i++ {
		l, err = portlock.Listen(g.addr)
		if err == nil {
			break
		}
		time.Sleep(20 * time.Millisecond)
	}
	if err != nil {
		return err
	}
	g.mu.Lock()
	g.l = l
	if g.hold != nil {
		g.hold()
		g.hold = nil
	}
	g.mu.Unlock()
	go g.acceptLoop(l)
	return nil
}

func (g *gate) setMode(mode int) {
	g.mu.Lock()
	g.mode = mode
	var rel []net.Conn
	if mode == gPass {
		rel = g.stalled
		g.stalled = nil
	}
	g.mu.Unlock()
	for _, c := range rel {
		go g.pipe(c)
	}
}

func (g *gate) close() {
	g.mu.Lock()
	g.closed = true
	l := g.l
	g.l = nil
	if g.hold != nil {
		g.hold()
		g.hold = nil
	}
	g.mu.Unlock()
	if l != nil {
		l.Close()
	}
	g.cutAll()
}

// ---------------------------------------------------------------- world: raw server behind the gate

const (
	oClosed = iota // listener closed: connection refused
	oReset         // accept + reset
	o503           // raw server answers 503 to everything
	oStall         // accept, forward nothing
)

var kindNames = []string{"refused", "reset", "http503", "stall"}

type ckey struct {
	sess *rawpeer.Session
	nsp  string
}

type world struct {
	raw        *rawpeer.Server
	g          *gate
	url        string
	replyDelay time.Duration

	mu      sync.Mutex
	replyAt map[ckey]int64 // taken immediately BEFORE the CONNECT reply is handed to the transport
}

func newWorld(replyDelay time.Duration) (*world, error) {
	raw, err := rawpeer.NewServer("")
	if err != nil {
		return nil, err
	}
	w := &world{raw: raw, replyDelay: replyDelay, replyAt: map[ckey]int64{}}
	raw.OnConnect = func(s *rawpeer.Session, p *refcodec.Packet) bool {
		k := ckey{s, p.Namespace}
		if w.replyDelay <= 0 {
			w.mu.Lock()
			if _, dup := w.replyAt[k]; !dup {
				w.replyAt[k] = rawpeer.Now()
			}
			w.mu.Unlock()
			return true
		}
		// never block the reader: later frames must keep their true arrival order and time
		go func() {
			time.Sleep(w.replyDelay)
			w.mu.Lock()
			if _, dup := w.replyAt[k]; !dup {
				w.replyAt[k] = rawpeer.Now()
			}
			w.mu.Unlock()
			s.ReplyConnect(p.Namespace)
		}()
		return false
	}
	g, err := newGate(raw.Addr)
	if err != nil {
		raw.Close()
		return nil, err
	}
	w.g = g
	w.url = "http://" + g.addr + "/socket.io/"
	return w, nil
}

func (w *world) replyTime(s *rawpeer.Session, nsp string) (int64, bool) {
	w.mu.Lock()
	defer w.mu.Unlock()
	t, ok := w.replyAt[ckey{s, nsp}]
	return t, ok
}

func (w *world) down(kind int) {
	switch kind {
	case oClosed:
		w.g.listenerDown()
	case oReset:
		w.g.setMode(gReset)
		w.g.cutAll()
	case o503:
		w.raw.Refuse.Store(true)
		w.g.cutAll()
	case oStall:
		w.g.setMode(gStall)
		w.g.cutAll()
	}
}

func (w *world) up(kind int) error {
	switch kind {
	case oClosed:
		return w.g.listenerUp()
	case oReset, oStall:
		w.g.setMode(gPass)
	case o503:
		w.raw.Refuse.Store(false)
	}
	return nil
}

func (w *world) close() {
	w.g.close()
	w.raw.Close()
}

// ---------------------------------------------------------------- timeline of public lifecycle events

type tev struct {
	T      int64
	Kind   string
	N      uint32
	Detail string
}

type dbgDelay struct {
	T   int64
	D   time.Duration
	Idx int
}

type timeline struct {
	mu     sync.Mutex
	t0     int64
	evs    []tev
	delays []dbgDelay
	dbgIdx int
}

func newTimeline() *timeline { return &timeline{t0: rawpeer.Now()} }

func (t *timeline) add(kind string, n uint32, detail string) {
	t.mu.Lock()
	t.evs = append(t.evs, tev{T: rawpeer.Now(), Kind: kind, N: n, Detail: detail})
	t.mu.Unlock()
}

func (t *timeline) countSince(kind string, from int64) int {
	t.mu.Lock()
	defer t.mu.Unlock()
	n := 0
	for _, e := range t.evs {
		if e.Kind == kind && e.T >= from {
			n++
		}
	}
	return n
}

func (t *timeline) count(kind string) int { return t.countSince(kind, 0) }

func (t *timeline) countDetail(kind, detailPrefix string) int {
	t.mu.Lock()
	defer t.mu.Unlock()
	n := 0
	for _, e := range t.evs {
		if e.Kind == kind && strings.HasPrefix(e.Detail, detailPrefix) {
			n++
		}
	}
	return n
}

func (t *timeline) lastT(kinds ...string) int64 {
	t.mu.Lock()
	defer t.mu.Unlock()
	var last int64
	for _, e := range t.evs {
		for _, k := range kinds {
			if e.Kind == k && e.T > last {
				last = e.T
			}
		}
	}
	return last
}

func (t *timeline) snap() ([]tev, []dbgDelay) {
	t.mu.Lock()
	defer t.mu.Unlock()
	return append([]tev(nil), t.evs...), append([]dbgDelay(nil), t.delays...)
}

func (t *timeline) render(max int) []string {
	evs, _ := t.snap()
	var out []string
	for i, e := range evs {
		if i >= max {
			out = append(out, fmt.Sprintf("... %d more", len(evs)-max))
			break
		}
		s := fmt.Sprintf("+%s %s", ms(time.Duration(e.T-t.t0)), e.Kind)
		if e.Kind == "attempt" || e.Kind == "reconnect" {
			s += fmt.Sprintf("#%d", e.N)
		}
		if e.Detail != "" {
			d := e.Detail
			if len(d) > 60 {
				d = d[:60] + "..."
			}
			s += " (" + d + ")"
		}
		out = append(out, s)
	}
	return out
}

// dbg is a Debugger that picks the synchronous "delay chosen" announcement of the Manager
// (auxiliary observation: the delay value itself, not a clock measurement).
type dbg struct{ tl *timeline }

func (d *dbg) Log(main string, v ...any) {
	switch main {
	case "Delay before reconnect attempt":
		if len(v) == 1 {
			if x, ok := v[0].(time.Duration); ok {
				d.tl.mu.Lock()
				d.tl.delays = append(d.tl.delays, dbgDelay{T: rawpeer.Now(), D: x, Idx: d.tl.dbgIdx})
				d.tl.dbgIdx++
				d.tl.mu.Unlock()
			}
		}
	case "Closed. Reason", "Reconnected", "Maximum attempts reached. Attempts made so far":
		d.tl.mu.Lock()
		d.tl.dbgIdx = 0
		d.tl.mu.Unlock()
	}
}
func (d *dbg) WithContext(string) sio.Debugger                       { return d }
func (d *dbg) WithDynamicContext(string, func() string) sio.Debugger { return d }

type client struct {
	m  *sio.Manager
	tl *timeline
}

func shortErr(err any) string {
	s := fmt.Sprint(err)
	if len(s) > 80 {
		s = s[:80]
	}
	return s
}

func newClient(url string, transports []string, limit uint32, mn, mx time.Duration, j float32) *client {
	tl := newTimeline()
	cfg := rig.ManagerConfig(transports...)
	cfg.ReconnectionAttempts = limit
	cfg.ReconnectionDelay = rig.Dur(mn)
	cfg.ReconnectionDelayMax = rig.Dur(mx)
	cfg.RandomizationFactor = rig.F32(j)
	cfg.Debugger = &dbg{tl}
	m := sio.NewManager(url, cfg)
	m.OnOpen(func() { tl.add("open", 0, "") })
	m.OnClose(func(r sio.Reason, err error) { tl.add("close", 0, string(r)) })
	m.OnError(func(err error) { tl.add("error", 0, shortErr(err)) })
	m.OnReconnect(func(a uint32) { tl.add("reconnect", a, "") })
	m.OnReconnectAttempt(func(a uint32) { tl.add("attempt", a, "") })
	m.OnReconnectError(func(err error) { tl.add("reconnect_error", 0, shortErr(err)) })
	m.OnReconnectFailed(func() { tl.add("reconnect_failed", 0, "") })
	return &client{m: m, tl: tl}
}

func (c *client) socket(nsp string) sio.ClientSocket {
	s := c.m.Socket(nsp, nil)
	s.OnConnect(func() { c.tl.add("connect", 0, nsp) })
	s.OnDisconnect(func(r sio.Reason) { c.tl.add("disconnect", 0, nsp+" "+string(r)) })
	s.OnConnectError(func(err any) { c.tl.add("connect_error", 0, nsp+" "+shortErr(err)) })
	return s
}

func closeManager(run *vk.Run, m *sio.Manager) {
	if !vk.Watchdog(10*time.Second, m.Close) {
		run.Count("manager_close_not_returned_in_10s", 1)
	}
}

// sample quota so that the bounded sample list shows every kind of trial
var (
	sampleMu    sync.Mutex
	sampleQuota = map[string]int{}
)

func sampleOnce(run *vk.Run, label string, quota int, v any) {
	sampleMu.Lock()
	ok := sampleQuota[label] < quota
	if ok {
		sampleQuota[label]++
	}
	sampleMu.Unlock()
	if ok {
		run.Sample(v)
	}
}

// ---------------------------------------------------------------- part 1: the back-off function

func minClass(mn, mx time.Duration) string {
	switch {
	case mn == 0:
		return "min=0"
	case mn < mx:
		return "min<max"
	case mn == mx:
		return "min=max"
	}
	return "min>max"
}

// nominal returns min*2^a exactly (big) and whether it is below max.
func nominalBelow(mn, mx time.Duration, a uint32) (v *big.Int, below bool) {
	if a > 200 {
		a = 200
	}
	v = new(big.Int).Lsh(big.NewInt(int64(mn)), uint(a))
	return v, v.Cmp(big.NewInt(int64(mx))) < 0
}

func attClass(mn, mx time.Duration, a uint32) string {
	_, below := nominalBelow(mn, mx, a)
	switch {
	case a == 0:
		return "first"
	case a > 70:
		return "attempt>=2^31"
	case a >= 63:
		return "2^a-overflows-int64"
	case below:
		return "growing"
	}
	return "capped"
}

func part1(run *vk.Run) {
	mins := []time.Duration{0, time.Millisecond, 50 * time.Millisecond, time.Second, time.Hour}
	maxs := []time.Duration{time.Millisecond, 50 * time.Millisecond, time.Second, 5 * time.Second, time.Hour}
	jits := []float32{0, 0.1, 0.5, 1, -0.5, 1.5}
	var atts []uint32
	for a := uint32(0); a <= 70; a++ {
		atts = append(atts, a)
	}
	atts = append(atts, 1<<31, math.MaxUint32)
	draws := run.Pick(50, 200)
	sampled := 0
	for _, mn := range mins {
		for _, mx := range maxs {
			for _, j := range jits {
				inRange := j >= 0 && j <= 1
				for _, a := range atts {
					n := draws
					if j == 0 {
						n = 1 // deterministic
					}
					f := map[string]any{"min_class": minClass(mn, mx), "attempt_class": attClass(mn, mx, a)}
					wit := map[string]any{"min": mn.String(), "max": mx.String(), "jitter": j, "attempt": a,
						"replay": map[string]any{"part": 1, "min_ns": int64(mn), "max_ns": int64(mx), "jitter": j, "attempt": a}}
					nomBig, below := nominalBelow(mn, mx, a)
					var lowest, highest time.Duration
					for d := 0; d < n; d++ {
						v := sio.VerifBackoff(mn, mx, j, a)
						if d == 0 || v < lowest {
							lowest = v
						}
						if d == 0 || v > highest {
							highest = v
						}
						if v <= 0 || v > mx {
							wit["value"] = v.String()
							run.Violation(vk.Violation{Sub: "backoff-range", Fields: f,
								What:    fmt.Sprintf("backoff(min=%v,max=%v,jitter=%v,attempt=%d) = %v, outside (0, %v]", mn, mx, j, a, v, mx),
								Witness: wit})
							break
						}
						if a == 0 && mn > 0 && inRange {
							lo := time.Duration(math.Floor(float64(mn) * (1 - float64(j))))
							hi := time.Duration(math.Ceil(float64(mn) * (1 + float64(j))))
							if lo > mx {
								lo = mx
							}
							if hi > mx {
								hi = mx
							}
							if v < lo-1 || v > hi+1 {
								wit["value"] = v.String()
								run.Violation(vk.Violation{Sub: "backoff-first-value", Fields: f,
									What:    fmt.Sprintf("first delay %v outside min*(1±jitter) clamped to max = [%v, %v] (min=%v,max=%v,jitter=%v)", v, lo, hi, mn, mx, j),
									Witness: wit})
								break
							}
						}
					}
					run.Eval(n)
					run.Count("p1_backoff_values", int64(n))
					// evidence only (not demanded by the statement)
					if mn == 0 && lowest == mx && highest == mx {
						run.Count("p1_cells_min0_returns_max", 1)
					}
					if !inRange && a == 0 && mn > 0 {
						want := mn
						if want > mx {
							want = mx
						}
						if lowest == want && highest == want {
							run.Count("p1_out_of_range_jitter_treated_as_0", 1)
						} else {
							run.Count("p1_out_of_range_jitter_other", 1)
						}
					}
					if j == 0 && mn > 0 && a <= 70 {
						model := mx
						if below {
							model = time.Duration(nomBig.Int64())
						}
						if lowest == model {
							run.Count("p1_nojitter_equals_min(max,min*2^a)", 1)
						} else {
							run.Count("p1_nojitter_differs_from_doubling_model", 1)
						}
					}
					if inRange && j > 0 && below && mn > 0 {
						nom := time.Duration(nomBig.Int64())
						if lowest < nom {
							run.Count("p1_jitter_cells_with_value_below_nominal", 1)
						}
						if highest > nom {
							run.Count("p1_jitter_cells_with_value_above_nominal", 1)
						}
					}
					out := "<max"
					if lowest == mx && highest == mx {
						out = "=max"
					} else if highest == mx {
						out = "mixed"
					}
					run.Distinct(fmt.Sprintf("backoff/%s/j=%v/%s/%s", minClass(mn, mx), j, attClass(mn, mx, a), out))
					if sampled < 1 && j == 0.5 && mn == 50*time.Millisecond && mx == time.Second && a == 3 {
						sampled++
						run.Sample(map[string]any{"part": 1, "cell": wit, "draws": n, "lowest": lowest.String(), "highest": highest.String(),
							"oracle": "0 < v <= max; attempt 0: min*(1-j) <= v <= min*(1+j) clamped to max"})
					}
				}
			}
			// one instance, consecutive delays (the attempt counter is advanced by the code itself)
			for _, j := range jits {
				reps := 1
				if j != 0 {
					reps = run.Pick(5, 20)
				}
				for r := 0; r < reps; r++ {
					seq := sio.VerifBackoffSeq(mn, mx, j, 80)
					run.Eval(1)
					run.Count("p1_sequences", 1)
					f := map[string]any{"min_class": minClass(mn, mx), "attempt_class": "sequence"}
					for i, v := range seq {
						if v <= 0 || v > mx {
							run.Violation(vk.Violation{Sub: "backoff-range", Fields: f,
								What:    fmt.Sprintf("delay #%d of one back-off instance (min=%v,max=%v,jitter=%v) = %v, outside (0, %v]", i, mn, mx, j, v, mx),
								Witness: map[string]any{"min": mn.String(), "max": mx.String(), "jitter": j, "index": i, "seq": fmt.Sprint(seq)}})
							break
						}
						if j == 0 && i > 0 && v < seq[i-1] {
							run.Violation(vk.Violation{Sub: "backoff-not-monotone", Fields: f,
								What:    fmt.Sprintf("without jitter delay #%d = %v < delay #%d = %v (min=%v,max=%v)", i, v, i-1, seq[i-1], mn, mx),
								Witness: map[string]any{"min": mn.String(), "max": mx.String(), "index": i, "seq": fmt.Sprint(seq)}})
							break
						}
					}
					if j == 0 && mn > 0 {
						want := mn
						if want > mx {
							want = mx
						}
						if seq[0] != want {
							run.Violation(vk.Violation{Sub: "backoff-first-value", Fields: f,
								What:    fmt.Sprintf("without jitter the first delay of an instance is %v, want min(min,max) = %v", seq[0], want),
								Witness: map[string]any{"min": mn.String(), "max": mx.String(), "seq": fmt.Sprint(seq[:8])}})
						}
					}
				}
			}
		}
	}
}

// ---------------------------------------------------------------- part 2: reconnection state machine

type rcfg struct {
	ID         int
	Pattern    string
	Kind       int   // outage kind
	Initial    bool  // the server is down before the first Connect()
	Restores   []int // one entry per outage that ends: restore after that many failed attempts
	Final      bool  // ends with an outage that never ends
	Limit      uint32
	Jitter     float32
	Min, Max   time.Duration
	Transports []string
}

func (c rcfg) String() string {
	return fmt.Sprintf("#%d %s/%s limit=%d jitter=%v delay=%v..%v restores=%v final=%v initial=%v tr=%s",
		c.ID, c.Pattern, kindNames[c.Kind], c.Limit, c.Jitter, c.Min, c.Max, c.Restores, c.Final, c.Initial, strings.Join(c.Transports, "+"))
}

func (c rcfg) nominal(n int) float64 {
	if n > 40 {
		n = 40
	}
	return float64(c.Min) * math.Pow(2, float64(n))
}
func (c rcfg) lo(n int) time.Duration {
	v := math.Floor(c.nominal(n) * (1 - float64(c.Jitter)))
	if v > float64(c.Max) {
		v = float64(c.Max)
	}
	return time.Duration(v)
}
func (c rcfg) hi(n int) time.Duration {
	v := math.Ceil(c.nominal(n) * (1 + float64(c.Jitter)))
	if v > float64(c.Max) {
		v = float64(c.Max)
	}
	return time.Duration(v)
}
func (c rcfg) sumHi(from, n int) time.Duration {
	var s time.Duration
	for i := from; i < from+n; i++ {
		s += c.hi(i)
	}
	return s
}

const (
	slack     = 1500 * time.Millisecond
	epsLower  = 5 * time.Millisecond
	canaryMax = 250 * time.Millisecond
)

type rtrial struct {
	run *vk.Run
	cy  *canary
	c   rcfg
	w   *world
	cl  *client
	tl  *timeline

	segs     []int64 // synchronous time stamps taken just before each outage began
	noTiming bool    // the handlers of an outage could not be proven to have all run before the next one began
	outcome  string
}

func (t *rtrial) fields() map[string]any {
	return map[string]any{"pattern": t.c.Pattern, "outage": kindNames[t.c.Kind]}
}

func (t *rtrial) witness(extra map[string]any) map[string]any {
	_, dl := t.tl.snap()
	var ds []string
	for _, d := range dl {
		ds = append(ds, fmt.Sprintf("#%d:%v", d.Idx, d.D))
	}
	w := map[string]any{"case": t.c.String(), "timeline": t.tl.render(80), "announced_delays": ds, "seed": t.run.Seed(),
		"replay": map[string]any{"part": 2, "reconnect_case": t.c}}
	for k, v := range extra {
		w[k] = v
	}
	return w
}

func (t *rtrial) violation(sub, what string, extra map[string]any) {
	t.outcome = "VIOLATION:" + sub
	t.run.Violation(vk.Violation{Sub: sub, Fields: t.fields(), What: what + " [" + t.c.String() + "]", Witness: t.witness(extra)})
}

func (t *rtrial) inconclusive(what string) {
	t.outcome = "inconclusive"
	t.run.Inconclusive(fmt.Sprintf("reconnect %s: %s", t.c.String(), what))
}

// gaveUp evaluates an outage in which the client is expected to exhaust its attempts
// (or, with the unlimited setting, to keep trying). from = start of the outage.
func (t *rtrial) gaveUp(from int64) {
	c, tl := t.c, t.tl
	N := int(c.Limit)
	att := func() int { return tl.countSince("attempt", from) }
	failed := func() int { return tl.countSince("reconnect_failed", from) }
	if N == 0 {
		const want = 8
		bound := c.sumHi(0, want) + want*time.Second + 15*time.Second
		vk.WaitUntil(bound, func() bool { return att() >= want || failed() > 0 })
		time.Sleep(30 * time.Millisecond)
		a, f := att(), failed()
		if f > 0 {
			t.violation("gave-up-with-unlimited-attempts", fmt.Sprintf("reconnect_failed fired %d time(s) after %d attempts although ReconnectionAttempts = 0 (unlimited)", f, a), nil)
			return
		}
		if a < want {
			if age := time.Duration(rawpeer.Now() - tl.lastT("attempt", "reconnect_error", "close", "error")); age >= 15*time.Second {
				t.violation("attempts-stopped", fmt.Sprintf("unlimited attempts: only %d attempts, nothing for %v while the server is still unreachable", a, age.Round(time.Second)), nil)
			} else {
				t.inconclusive(fmt.Sprintf("only %d of %d attempts within %v", a, want, bound))
			}
			return
		}
		t.outcome = fmt.Sprintf("kept-trying(>=%d)", want)
		return
	}
	bound := c.sumHi(0, N) + time.Duration(N)*time.Second + 15*time.Second
	vk.WaitUntil(bound, func() bool { return failed() >= 1 || att() > N })
	time.Sleep(50 * time.Millisecond)
	failedAt := tl.lastT("reconnect_failed")
	tcp0 := t.w.g.accepted.Load()
	obs := 5 * c.Max
	if obs < time.Second {
		obs = time.Second
	}
	time.Sleep(obs)
	tcp1 := t.w.g.accepted.Load()
	a, e, f := att(), tl.countSince("reconnect_error", from), failed()
	ex := map[string]any{"attempts": a, "reconnect_errors": e, "reconnect_failed": f, "limit": N, "observed_after_giving_up": obs.String()}
	if f == 0 {
		switch {
		case a > N:
			t.violation("attempts-exceed-limit", fmt.Sprintf("%d reconnect attempts with ReconnectionAttempts = %d and no reconnect_failed", a, N), ex)
		case a == N && e >= N:
			t.violation("reconnect-failed-missing", fmt.Sprintf("all %d attempts failed but reconnect_failed was not announced within %v", N, bound), ex)
		default:
			if age := time.Duration(rawpeer.Now() - tl.lastT("attempt", "reconnect_error", "close", "error")); age >= 15*time.Second {
				t.violation("attempts-stopped", fmt.Sprintf("%d of %d attempts, no reconnect_failed, nothing for %v", a, N, age.Round(time.Second)), ex)
			} else {
				t.inconclusive(fmt.Sprintf("%d of %d attempts, no reconnect_failed within %v", a, N, bound))
			}
		}
		return
	}
	bad := false
	if f > 1 {
		bad = true
		t.violation("reconnect-failed-repeated", fmt.Sprintf("reconnect_failed fired %d times for one outage", f), ex)
	}
	if a != N {
		bad = true
		sub := "attempt-count"
		if a > N {
			// classify by time only (the count itself is exact)
			evs, _ := tl.snap()
			for _, x := range evs {
				if x.Kind == "attempt" && x.T > failedAt+int64(10*time.Millisecond) && failedAt > 0 {
					sub = "attempt-after-giving-up"
				}
			}
		}
		t.violation(sub, fmt.Sprintf("%d reconnect attempts before/after giving up, ReconnectionAttempts = %d (reconnect_failed fired %d time(s))", a, N, f), ex)
	}
	if e != N {
		bad = true
		t.violation("attempt-count", fmt.Sprintf("%d reconnect_error events for %d failed attempts allowed by ReconnectionAttempts = %d", e, a, N), ex)
	}
	if c.Kind == oReset && tcp1 != tcp0 {
		bad = true
		ex["tcp_connections_after_giving_up"] = tcp1 - tcp0
		t.violation("attempt-after-giving-up", fmt.Sprintf("%d new TCP connection(s) reached the listener during %v after reconnect_failed", tcp1-tcp0, obs), ex)
	}
	if c.Kind == oReset {
		t.run.Count("p2_gave_up_tcp_quiet_checked", 1)
	}
	if !bad {
		t.outcome = "gave-up-after-limit"
	}
}

// timing checks the gaps failure -> next attempt (bracketed) and the announced delays (exact).
// Returns true if a time-bound verdict had to be withheld because the canary tripped.
func (t *rtrial) timing(tEnd int64) (tripped bool) {
	c := t.c
	evs, delays := t.tl.snap()
	// (i) exact: the delay values the Manager announces on its Debugger
	for _, d := range delays {
		t.run.Count("p2_announced_delays_checked", 1)
		lo, hi := c.lo(d.Idx), c.hi(d.Idx)
		if d.D <= 0 || d.D > c.Max {
			t.violation("delay-out-of-range", fmt.Sprintf("the Manager announced reconnect delay #%d = %v, outside (0, %v]", d.Idx, d.D, c.Max), map[string]any{"source": "Debugger"})
		} else if d.D < lo-1 || d.D > hi+1 {
			sub := "delay-not-from-min"
			if d.Idx > 0 {
				sub = "delay-off-model"
			}
			t.violation(sub, fmt.Sprintf("the Manager announced reconnect delay #%d = %v, outside [%v, %v] = min(max, min*2^n*(1±jitter))", d.Idx, d.D, lo, hi), map[string]any{"source": "Debugger"})
		}
	}
	// (ii) lower bound, sound without any assumption about scheduling: recorded times are never earlier
	// than the true times and the outage began after the synchronous time stamp taken just before the
	// cut (or before Connect()), so   recorded(attempt #k) - start >= lo(0) + ... + lo(k-1).
	var short, long []string
	if !t.noTiming {
		for k, start := range t.segs {
			end := int64(math.MaxInt64)
			if k+1 < len(t.segs) {
				end = t.segs[k+1]
			}
			var atts []tev
			for _, e := range evs {
				if e.Kind == "attempt" && e.T >= start && e.T < end {
					atts = append(atts, e)
				}
			}
			ok := true
			for i, a := range atts {
				if int(a.N) != i+1 {
					ok = false
				}
			}
			if !ok {
				t.run.Count("p2_outages_with_unexpected_attempt_numbering_(no_lower_bound_verdict)", 1)
				continue
			}
			var cum time.Duration
			for i, a := range atts {
				cum += c.lo(i)
				el := time.Duration(a.T - start)
				t.run.Count("p2_cumulative_lower_bounds_checked", 1)
				if el < cum-epsLower {
					short = append(short, fmt.Sprintf("attempt #%d of outage %d was announced %s after the outage began, but the first %d delays add up to at least %s (sum of min(max, min*2^n*(1-j)))", a.N, k+1, ms(el), i+1, ms(cum)))
				}
			}
		}
	} else {
		t.run.Count("p2_trials_without_lower_bound_verdict", 1)
	}
	// (iii) upper bound (and, as evidence only, the per-gap lower bound) on recorded gaps failure -> next attempt
	stall := t.cy.maxStall(t.tl.t0, tEnd)
	var lastFail int64
	n := 0 // own count of delays since the last reset
	sawAttempt := false
	for _, e := range evs {
		switch e.Kind {
		case "close", "reconnect", "reconnect_failed":
			n = 0
			if e.Kind == "close" {
				lastFail = e.T
			} else {
				lastFail = 0
			}
		case "error":
			if !sawAttempt && c.Initial && lastFail == 0 {
				lastFail = e.T // failure of the very first open
			}
		case "reconnect_error":
			lastFail = e.T
		case "attempt":
			sawAttempt = true
			idx := n
			n++
			if int(e.N) != idx+1 {
				t.run.Count("p2_attempt_number_differs_from_own_count", 1)
				lastFail = 0
				continue
			}
			if lastFail == 0 {
				continue
			}
			gap := time.Duration(e.T - lastFail)
			lastFail = 0
			t.run.Count("p2_gaps_checked", 1)
			lo, hi := c.lo(idx), c.hi(idx)
			if gap < lo-epsLower {
				// handler goroutines start late by different amounts: not a verdict
				t.run.Count("p2_recorded_gap_below_lower_bound_(handler_lateness,_evidence_only)", 1)
			}
			if gap > hi+slack {
				long = append(long, fmt.Sprintf("gap before attempt #%d = %s > %s + %v slack", e.N, ms(gap), ms(hi), slack))
			}
		}
	}
	if len(short) > 0 {
		t.violation("delay-too-short", short[0], map[string]any{"all": short, "canary_max_stall": stall.String()})
	}
	if len(long) == 0 {
		return false
	}
	if stall > canaryMax {
		t.run.Count("p2_time_verdicts_withheld_by_canary", 1)
		return true
	}
	t.violation("delay-too-long", long[0], map[string]any{"all": long, "canary_max_stall": stall.String()})
	return false
}

func runReconnectOnce(run *vk.Run, cy *canary, c rcfg) (tripped bool) {
	run.Eval(1)
	run.Count("p2_trials", 1)
	w, err := newWorld(0)
	if err != nil {
		run.Inconclusive("world: " + err.Error())
		return false
	}
	defer w.close()
	cl := newClient(w.url, c.Transports, c.Limit, c.Min, c.Max, c.Jitter)
	defer closeManager(run, cl.m)
	t := &rtrial{run: run, cy: cy, c: c, w: w, cl: cl, tl: cl.tl, outcome: "?"}
	tl := cl.tl
	sock := cl.socket("/")
	N := int(c.Limit)

	flow := func() {
		nseg := len(c.Restores)
		if c.Final {
			nseg++
		}
		for s := 0; s < nseg; s++ {
			restore := s < len(c.Restores)
			from := rawpeer.Now()
			if s == 0 && c.Initial {
				w.down(c.Kind)
				from = rawpeer.Now()
				t.segs = append(t.segs, from)
				sock.Connect()
				if !vk.WaitUntil(15*time.Second, func() bool { return tl.countSince("error", from) >= 1 }) {
					t.inconclusive("failure of the first open not reported within 15 s")
					return
				}
			} else {
				if s == 0 {
					sock.Connect()
					if !vk.WaitUntil(30*time.Second, func() bool { return tl.count("connect") >= 1 }) {
						t.inconclusive("no initial connect within 30 s")
						return
					}
					time.Sleep(time.Duration(5+c.ID%4*10) * time.Millisecond) // cut at different points of the upgrade
				}
				from = rawpeer.Now()
				t.segs = append(t.segs, from)
				w.down(c.Kind)
				if !vk.WaitUntil(15*time.Second, func() bool { return tl.countSince("close", from) >= 1 }) {
					t.inconclusive("the cut was not noticed within 15 s (C14's business)")
					return
				}
			}
			if !restore {
				t.gaveUp(from)
				return
			}
			j := c.Restores[s]
			errs := func() int { return tl.countSince("reconnect_error", from) }
			failed := func() int { return tl.countSince("reconnect_failed", from) }
			bound := c.sumHi(0, j) + time.Duration(j)*time.Second + 15*time.Second
			vk.WaitUntil(bound, func() bool { return errs() >= j || failed() > 0 })
			if failed() > 0 {
				// gave up before the planned restore: legitimate only after exactly N failures
				t.gaveUp(from)
				return
			}
			if errs() < j {
				if age := time.Duration(rawpeer.Now() - tl.lastT("attempt", "reconnect_error", "close", "error")); age >= 15*time.Second {
					t.violation("attempts-stopped", fmt.Sprintf("only %d failed attempts, nothing for %v while the server is unreachable", errs(), age.Round(time.Second)), nil)
				} else {
					t.inconclusive(fmt.Sprintf("only %d of %d failures within %v", errs(), j, bound))
				}
				return
			}
			conn0 := tl.count("connect")
			if err := w.up(c.Kind); err != nil {
				t.inconclusive("could not restore the listener: " + err.Error())
				return
			}
			upAt := rawpeer.Now()
			bound = c.sumHi(j, 4) + 15*time.Second
			vk.WaitUntil(bound, func() bool { return tl.count("connect") > conn0 || failed() > 0 })
			time.Sleep(30 * time.Millisecond)
			a := tl.countSince("attempt", from)
			if tl.count("connect") > conn0 {
				run.Count("p2_reconnected_after_restore", 1)
				// logical barrier before the next outage: the reconnect event says how many attempts this outage
				// took; wait until that many attempt handlers have actually run (they run on their own goroutines)
				if !vk.WaitUntil(5*time.Second, func() bool {
					evs, _ := tl.snap()
					var rn uint32
					for _, e := range evs {
						if e.Kind == "reconnect" && e.T >= from {
							rn = e.N
						}
					}
					return rn > 0 && tl.countSince("attempt", from) >= int(rn)
				}) {
					t.noTiming = true
				}
				a = tl.countSince("attempt", from)
				if f := failed(); f > 0 {
					t.violation("attempt-after-giving-up", fmt.Sprintf("reconnect_failed fired (%d) and the client still reconnected afterwards", f), map[string]any{"attempts": a})
					return
				}
				if N > 0 && a > N {
					t.violation("attempts-exceed-limit", fmt.Sprintf("%d attempts in one outage with ReconnectionAttempts = %d", a, N), nil)
					return
				}
				t.outcome = "reconnected"
				continue
			}
			if failed() > 0 {
				if a == N {
					// the N-th attempt raced with the restore and lost: a legitimate give-up
					run.Count("p2_restore_lost_race_with_last_attempt", 1)
					t.gaveUp(from)
					if t.outcome == "gave-up-after-limit" {
						t.outcome = "gave-up(restore lost the race)"
					}
				} else {
					t.gaveUp(from)
				}
				return
			}
			lastAtt := tl.lastT("attempt")
			quiet := time.Duration(rawpeer.Now() - lastAtt)
			if lastAtt < upAt || quiet > 5*c.Max+5*time.Second {
				t.violation("no-reconnect-after-restore", fmt.Sprintf("server reachable again for %v, no socket connect event and no attempt for %v", time.Duration(rawpeer.Now()-upAt).Round(time.Millisecond), quiet.Round(time.Millisecond)), map[string]any{"attempts": a})
			} else {
				t.inconclusive(fmt.Sprintf("not reconnected within %v after the restore but still attempting", bound))
			}
			return
		}
	}
	flow()
	tEnd := rawpeer.Now()
	tripped = t.timing(tEnd)
	jit := "j=0"
	if c.Jitter > 0 {
		jit = "j>0"
	}
	if !tripped {
		run.Distinct(fmt.Sprintf("reconnect/%s/%s/limit=%d/%s/%s/%s", c.Pattern, kindNames[c.Kind], c.Limit, jit, strings.Join(c.Transports, "+"), t.outcome))
		run.Count("p2_outcome_"+strings.SplitN(t.outcome, "(", 2)[0], 1)
	}
	run.Count("p2_attempt_events", int64(tl.count("attempt")))
	run.Count("p2_reconnect_failed_events", int64(tl.count("reconnect_failed")))
	sampleOnce(run, "p2/"+c.Pattern, 1, map[string]any{"part": 2, "case": c.String(), "outcome": t.outcome, "timeline": tl.render(40),
		"tcp_connections_seen_by_gate": w.g.accepted.Load(), "canary_max_stall": cy.maxStall(tl.t0, tEnd).String()})
	if run.Quick() || strings.HasPrefix(t.outcome, "VIOLATION") {
		run.Logf("reconnect %s -> %s (attempts=%d failed=%d)", c.String(), t.outcome, tl.count("attempt"), tl.count("reconnect_failed"))
	}
	return tripped
}

func runReconnect(run *vk.Run, cy *canary, c rcfg) {
	for try := 0; try < 3; try++ {
		if !runReconnectOnce(run, cy, c) {
			return
		}
	}
	run.Inconclusive("reconnect " + c.String() + ": scheduler stalls > 250 ms in three tries, time-bound verdicts withheld")
}

// runStall: the proxy accepts and forwards nothing, later heals. Reported as its own class.
func runStall(run *vk.Run, cy *canary, id int, transports []string) {
	run.Eval(1)
	run.Count("p2_trials", 1)
	c := rcfg{ID: id, Pattern: "stall-then-heal", Kind: oStall, Limit: 0, Jitter: 0, Min: 100 * time.Millisecond, Max: 200 * time.Millisecond, Transports: transports}
	w, err := newWorld(0)
	if err != nil {
		run.Inconclusive("world: " + err.Error())
		return
	}
	defer w.close()
	cl := newClient(w.url, transports, 0, c.Min, c.Max, 0)
	defer closeManager(run, cl.m)
	t := &rtrial{run: run, cy: cy, c: c, w: w, cl: cl, tl: cl.tl, outcome: "?"}
	tl := cl.tl
	sock := cl.socket("/")
	sock.Connect()
	if !vk.WaitUntil(30*time.Second, func() bool { return tl.count("connect") >= 1 }) {
		t.inconclusive("no initial connect")
		return
	}
	from := rawpeer.Now()
	// cut with resets first (a stalled HTTP-level retry of the pending poll would hide the cut), then stall
	w.down(oReset)
	if !vk.WaitUntil(15*time.Second, func() bool { return tl.countSince("close", from) >= 1 }) {
		t.inconclusive("cut not noticed")
		return
	}
	w.g.setMode(gStall)
	acc0 := w.g.accepted.Load()
	// barrier: a connection of a reconnect attempt sits in the stalled listener
	if !vk.WaitUntil(15*time.Second, func() bool { return w.g.accepted.Load() > acc0 }) {
		t.inconclusive("no connection of a reconnect attempt reached the stalled listener within 15 s")
		return
	}
	time.Sleep(20 * time.Millisecond)
	a0, e0 := tl.countSince("attempt", from), tl.countSince("reconnect_error", from)
	if a0 == 0 {
		vk.WaitUntil(5*time.Second, func() bool { return tl.countSince("attempt", from) >= 1 })
		a0 = tl.countSince("attempt", from)
	}
	const wait = 20 * time.Second
	retried := vk.WaitUntil(wait, func() bool {
		return tl.countSince("reconnect_error", from) > e0 || tl.countSince("attempt", from) > a0
	})
	f := map[string]any{"pattern": c.Pattern, "transport": strings.Join(transports, "+")}
	if !retried {
		t.outcome = "attempt-hangs"
		run.Violation(vk.Violation{Sub: "no-connect-timeout", Fields: f,
			What:    fmt.Sprintf("server accepts TCP but answers nothing: reconnect attempt #%d neither failed nor was followed by another attempt within %v (no connect timeout; the Manager is stuck inside the attempt)", a0, wait),
			Witness: t.witness(nil)})
	} else {
		t.outcome = "attempt-times-out"
	}
	conn0 := tl.count("connect")
	w.up(oStall)
	upAt := rawpeer.Now()
	if vk.WaitUntil(c.sumHi(0, 4)+15*time.Second, func() bool { return tl.count("connect") > conn0 }) {
		t.outcome += "+reconnected-after-heal"
	} else {
		lastAtt := tl.lastT("attempt")
		if lastAtt < upAt {
			t.outcome += "+never-reconnected"
			run.Violation(vk.Violation{Sub: "no-reconnect-after-restore", Fields: f,
				What:    "stalled server healed (everything forwarded): no socket connect event within 15 s and no new attempt",
				Witness: t.witness(nil)})
		} else {
			t.inconclusive("not reconnected after heal but still attempting")
		}
	}
	run.Distinct(fmt.Sprintf("reconnect/%s/%s/%s", c.Pattern, strings.Join(transports, "+"), t.outcome))
	sampleOnce(run, "p2/stall", 1, map[string]any{"part": 2, "case": c.String(), "outcome": t.outcome, "timeline": tl.render(40)})
	run.Logf("reconnect %s -> %s", c.String(), t.outcome)
}

var transportSets = [][]string{{"websocket"}, {"polling"}, {"polling", "websocket"}}

func reconnectCases(run *vk.Run, small bool) []rcfg {
	rng := run.Rand("part2")
	var out []rcfg
	id := 0
	add := func(pattern string, kind int, initial bool, restores []int, final bool, limit uint32, jitter float32, tr []string) {
		id++
		out = append(out, rcfg{ID: id, Pattern: pattern, Kind: kind, Initial: initial, Restores: restores, Final: final, Limit: limit, Jitter: jitter,
			Min: time.Duration(30+rng.Intn(71)) * time.Millisecond, Max: time.Duration(200+rng.Intn(201)) * time.Millisecond, Transports: tr})
	}
	jit := []float32{0, 0.5}
	type rj struct {
		n uint32
		j int
	}
	restoreJ := []rj{{0, 0}, {0, 1}, {0, 3}, {0, 6}, {1, 0}, {2, 0}, {2, 1}, {3, 0}, {3, 1}, {3, 2}, {4, 1}, {4, 3}, {5, 0}, {5, 1}, {5, 4}}
	type fl struct {
		n uint32
		r []int
	}
	flaps := []fl{{0, []int{1, 2}}, {2, []int{1, 1}}, {3, []int{2, 0, 1}}, {5, []int{1, 4}}, {1, []int{0, 0, 0}}, {4, []int{3, 2}}, {0, []int{0, 5}}, {3, []int{1, 1, 1}}}
	if run.Quick() || small {
		k := 0
		pick := func() (float32, []string) { k++; return jit[k%2], transportSets[k%3] }
		lims := []uint32{0, 1, 2, 3, 4, 5}
		if small {
			lims = []uint32{0, 2, 5}
		}
		for _, kind := range []int{oClosed, oReset, o503} {
			for _, lim := range lims {
				j, tr := pick()
				add("down-for-good", kind, false, nil, true, lim, j, tr)
			}
		}
		for _, lim := range []uint32{0, 1, 3, 5} {
			j, tr := pick()
			add("down-at-first-connect", []int{oClosed, o503}[k%2], true, nil, true, lim, j, tr)
		}
		rs := []rj{{0, 1}, {0, 3}, {1, 0}, {2, 1}, {3, 2}, {5, 4}, {4, 1}, {0, 6}}
		if small {
			rs = rs[:4]
		}
		for _, x := range rs {
			j, tr := pick()
			add("down-j-then-restored", []int{oClosed, oReset, o503}[k%3], k%4 == 0, []int{x.j}, false, x.n, j, tr)
		}
		fs := flaps[:4]
		if small {
			fs = flaps[:2]
		}
		for _, x := range fs {
			j, tr := pick()
			add("flapping", []int{oClosed, o503, oReset}[k%3], k%3 == 0, x.r, true, x.n, j, tr)
		}
		return out
	}
	for rep := 0; rep < 4; rep++ {
		for _, tr := range transportSets {
			for _, j := range jit {
				for _, kind := range []int{oClosed, oReset, o503} {
					for lim := uint32(0); lim <= 5; lim++ {
						add("down-for-good", kind, false, nil, true, lim, j, tr)
					}
				}
				for lim := uint32(0); lim <= 5; lim++ {
					add("down-at-first-connect", []int{oClosed, o503, oReset}[(int(lim)+rep)%3], true, nil, true, lim, j, tr)
				}
				for i, x := range restoreJ {
					add("down-j-then-restored", []int{oClosed, oReset, o503}[(i+rep)%3], (i+rep)%4 == 0, []int{x.j}, false, x.n, j, tr)
				}
				for i, x := range flaps {
					add("flapping", []int{oClosed, o503, oReset}[(i+rep)%3], (i+rep)%3 == 0, x.r, true, x.n, j, tr)
				}
			}
		}
	}
	return out
}

// ---------------------------------------------------------------- part 3: offline buffering on the wire

type bcfg struct {
	ID         int
	Transports []string
	Nsps       int
	Mix        string // N | NV | NA | NVA
	ReplyDelay time.Duration
	Trans      bool // also emit in transitional windows
	Initial    bool // the server is down at the first Connect()
	Outages    int
	Kind       int
	Len        int
	// FlapPending: after the restore the connection is cut once more while the namespace CONNECTs are
	// still unanswered (needs ReplyDelay > 0): the offline buffer has to survive a second close.
	FlapPending bool
}

func (c bcfg) String() string {
	return fmt.Sprintf("#%d nsps=%d mix=%s len=%d reply-delay=%v transitional=%v down-at-first-connect=%v outages=%d/%s cut-again-while-connect-pending=%v tr=%s",
		c.ID, c.Nsps, c.Mix, c.Len, c.ReplyDelay, c.Trans, c.Initial, c.Outages, kindNames[c.Kind], c.FlapPending, strings.Join(c.Transports, "+"))
}

type erec struct {
	UID    int
	Nsp    string
	Phase  string
	Window string // for transitional emits: which window
	Stable bool
	Fence  bool
	Kind   byte
	Seq    int // per namespace, emission order
	acks   atomic.Int32
}

type seenAt struct {
	sess, idx int
	at        int64
	id        *uint64
}

type bsock struct {
	nsp         string
	s           sio.ClientSocket
	connects    atomic.Int32
	disconnects atomic.Int32
}

type btrial struct {
	run *vk.Run
	c   bcfg
	w   *world
	cl  *client

	socks []*bsock
	opens atomic.Int32

	mu      sync.Mutex
	uid     int
	recs    map[int]*erec
	order   []*erec
	seqs    map[string]int
	barrier map[string]map[string]bool // phase -> nsp -> a later fence of nsp arrived
	acked   map[int]bool
	ackSent map[int]bool
	bad     bool
}

func (t *btrial) fields(phase string) map[string]any { return map[string]any{"phase": phase} }

func (t *btrial) violation(sub string, f map[string]any, what string, extra map[string]any) {
	t.mu.Lock()
	t.bad = true
	t.mu.Unlock()
	wit := map[string]any{"case": t.c.String(), "seed": t.run.Seed(), "wire": t.wireTrace(60), "client_timeline": t.cl.tl.render(40),
		"replay": map[string]any{"part": 3, "buffer_case": t.c}}
	for k, v := range extra {
		wit[k] = v
	}
	t.run.Violation(vk.Violation{Sub: sub, Fields: f, What: what + " [" + t.c.String() + "]", Witness: wit})
}

func (t *btrial) emit(si int, phase, window string, stable, fence bool, kind byte) *erec {
	b := t.socks[si]
	t.mu.Lock()
	t.uid++
	r := &erec{UID: t.uid, Nsp: b.nsp, Phase: phase, Window: window, Stable: stable, Fence: fence, Kind: kind, Seq: t.seqs[b.nsp]}
	t.seqs[b.nsp]++
	t.recs[r.UID] = r
	t.order = append(t.order, r)
	t.mu.Unlock()
	switch kind {
	case 'V':
		b.s.Volatile().Emit("ev", r.UID, phase, "V")
	case 'A':
		b.s.Emit("ev", r.UID, phase, "A", func(int) { r.acks.Add(1) })
	default:
		b.s.Emit("ev", r.UID, phase, "N")
	}
	t.run.Count("p3_emits_"+map[bool]string{true: "stable", false: "other"}[stable], 1)
	return r
}

// kinds returns the stable mix for (trial, phase, namespace): every kind of the class at least once.
func (t *btrial) kinds(phase, nsp string) []byte {
	h := int64(t.c.ID)*7919 + t.run.Seed()*104729
	for _, ch := range phase + nsp {
		h = h*131 + int64(ch)
	}
	rng := rand.New(rand.NewSource(h))
	alphabet := []byte(t.c.Mix)
	ks := append([]byte(nil), alphabet...)
	for len(ks) < t.c.Len {
		ks = append(ks, alphabet[rng.Intn(len(alphabet))])
	}
	rng.Shuffle(len(ks), func(i, j int) { ks[i], ks[j] = ks[j], ks[i] })
	return ks
}

func (t *btrial) mix(phase string, part, parts int) {
	for si, b := range t.socks {
		ks := t.kinds(phase, b.nsp)
		lo, hi := part*len(ks)/parts, (part+1)*len(ks)/parts
		for _, k := range ks[lo:hi] {
			t.emit(si, phase, "", true, false, k)
		}
	}
}

func (t *btrial) burst(si int, window string) {
	for i, k := range []byte{'N', 'A', 'N'} {
		if i > 0 {
			time.Sleep(2 * time.Millisecond)
		}
		t.emit(si, "transitional", window, false, false, k)
	}
}

// scan parses what every raw session has received so far.
func (t *btrial) scan() (occ map[int][]seenAt, sessions []*rawpeer.Session, packets [][]rawpeer.SPacket, perrs []error) {
	occ = map[int][]seenAt{}
	sessions = t.w.raw.Sessions()
	for si, s := range sessions {
		ps, perr := s.Packets()
		packets = append(packets, ps)
		perrs = append(perrs, perr)
		for i, sp := range ps {
			if rawpeer.EventName(sp.P) != "ev" {
				continue
			}
			args := rawpeer.Args(sp.P)
			if len(args) < 1 {
				continue
			}
			uid, ok := rawpeer.Num(args[0])
			if !ok {
				continue
			}
			occ[int(uid)] = append(occ[int(uid)], seenAt{sess: si, idx: i, at: sp.At, id: sp.P.ID})
		}
	}
	return
}

func (t *btrial) wireTrace(max int) []string {
	var out []string
	sessions := t.w.raw.Sessions()
	for si, s := range sessions {
		ps, _ := s.Packets()
		replied := map[string]bool{}
		for _, sp := range ps {
			if len(out) >= max {
				return append(out, "...")
			}
			p := sp.P
			rel := ""
			if ra, ok := t.w.replyTime(s, p.Namespace); ok {
				if sp.At < ra {
					rel = " [BEFORE the CONNECT reply was sent]"
				} else if !replied[p.Namespace] {
					replied[p.Namespace] = true
					out = append(out, fmt.Sprintf("s%d   -- server sent CONNECT reply for %s", si+1, p.Namespace))
				}
			} else if p.Type != refcodec.Connect {
				rel = " [no CONNECT reply sent yet]"
			}
			switch p.Type {
			case refcodec.Connect:
				out = append(out, fmt.Sprintf("s%d CONNECT %s", si+1, p.Namespace))
			case refcodec.Event, refcodec.BinaryEvent:
				a := rawpeer.Args(p)
				desc := fmt.Sprint(a)
				if len(a) >= 3 {
					uid, _ := rawpeer.Num(a[0])
					t.mu.Lock()
					r := t.recs[int(uid)]
					t.mu.Unlock()
					if r != nil {
						ph := r.Phase
						if r.Window != "" {
							ph += ":" + r.Window
						}
						if r.Fence {
							ph = "fence(" + ph + ")"
						}
						desc = fmt.Sprintf("%s #%d %c", ph, r.Seq, r.Kind)
					}
				}
				out = append(out, fmt.Sprintf("s%d EVENT %s %s%s", si+1, p.Namespace, desc, rel))
			default:
				out = append(out, fmt.Sprintf("s%d type=%d %s", si+1, p.Type, p.Namespace))
			}
		}
	}
	return out
}

// fence emits one online event per namespace after the connect events and waits for it on the
// server; FIFO wire => everything queued before it has arrived. Then acks the phase's ack-carrying events.
func (t *btrial) fence(phases ...string) bool {
	var fs []*erec
	for si := range t.socks {
		fs = append(fs, t.emit(si, phases[len(phases)-1], "", false, true, 'N'))
	}
	all := vk.WaitUntil(15*time.Second, func() bool {
		occ, _, _, _ := t.scan()
		for _, f := range fs {
			if len(occ[f.UID]) == 0 {
				return false
			}
		}
		return true
	})
	occ, sessions, _, _ := t.scan()
	t.mu.Lock()
	for _, f := range fs {
		if len(occ[f.UID]) > 0 {
			for _, ph := range phases {
				if t.barrier[ph] == nil {
					t.barrier[ph] = map[string]bool{}
				}
				t.barrier[ph][f.Nsp] = true
			}
		}
	}
	var toAck []*erec
	for _, r := range t.order {
		if r.Kind == 'A' && !t.acked[r.UID] && len(occ[r.UID]) > 0 {
			t.acked[r.UID] = true
			toAck = append(toAck, r)
		}
	}
	t.mu.Unlock()
	var sent []*erec
	if len(sessions) > 0 {
		live := sessions[len(sessions)-1]
		for _, r := range toAck {
			o := occ[r.UID][0]
			if o.id != nil && o.sess == len(sessions)-1 {
				live.SendPacket(&refcodec.Packet{Type: refcodec.Ack, Namespace: r.Nsp, ID: o.id, HasData: true, Data: []any{json.Number(fmt.Sprint(r.UID))}})
				t.run.Count("p3_acks_sent_for_buffered_events", 1)
				sent = append(sent, r)
			}
		}
	}
	t.mu.Lock()
	for _, r := range sent {
		t.ackSent[r.UID] = true
	}
	t.mu.Unlock()
	toAck = sent
	// let the ack callbacks run before the next cut (at-most-once is what is judged)
	vk.WaitUntil(2*time.Second, func() bool {
		for _, r := range toAck {
			if r.acks.Load() == 0 {
				return false
			}
		}
		return true
	})
	if !all {
		t.run.Inconclusive("buffer " + t.c.String() + ": fence after phase " + phases[len(phases)-1] + " not seen on the server within 15 s")
	}
	return all
}

func (t *btrial) snapshot() (conn, disc []int32) {
	for _, b := range t.socks {
		conn = append(conn, b.connects.Load())
		disc = append(disc, b.disconnects.Load())
	}
	return
}

func (t *btrial) allDisconnectedSince(disc []int32, d time.Duration) bool {
	return vk.WaitUntil(d, func() bool {
		for i, b := range t.socks {
			if b.disconnects.Load() <= disc[i] {
				return false
			}
		}
		return true
	})
}

func (t *btrial) allConnectedSince(conn []int32, d time.Duration) bool {
	return vk.WaitUntil(d, func() bool {
		for i, b := range t.socks {
			if b.connects.Load() <= conn[i] {
				return false
			}
		}
		return true
	})
}

func (t *btrial) allConnects(n int32, d time.Duration) bool {
	return vk.WaitUntil(d, func() bool {
		for _, b := range t.socks {
			if b.connects.Load() < n {
				return false
			}
		}
		return true
	})
}

func (t *btrial) evaluate() {
	occ, sessions, packets, perrs := t.scan()
	for si, e := range perrs {
		if e != nil {
			t.violation("wire-protocol-error", map[string]any{"phase": "any"}, fmt.Sprintf("frames of session %d do not form contiguous packets: %v", si+1, e), nil)
		}
	}
	t.mu.Lock()
	recs := append([]*erec(nil), t.order...)
	byUID := t.recs
	t.mu.Unlock()
	// (a) nothing for a namespace before its CONNECT was answered; (b) order per session and namespace
	reported := map[string]bool{}
	for si, ps := range packets {
		connected := map[string]bool{}
		lastSeq := map[string]int{}
		lastAny := map[string]int{}
		for _, sp := range ps {
			p := sp.P
			if p.Type == refcodec.Connect {
				connected[p.Namespace] = true
				continue
			}
			if rawpeer.EventName(p) != "ev" {
				continue
			}
			args := rawpeer.Args(p)
			uid, _ := rawpeer.Num(args[0])
			r := byUID[int(uid)]
			if r == nil {
				t.violation("phantom-event", map[string]any{"phase": "any"}, fmt.Sprintf("event with unknown id %d on the wire", uid), nil)
				continue
			}
			t.run.Count("p3_events_on_wire", 1)
			if r.Nsp != p.Namespace {
				t.violation("wrong-namespace", t.fields(r.Phase), fmt.Sprintf("event #%d emitted on %s is on the wire for %s", r.Seq, r.Nsp, p.Namespace), nil)
			}
			phase := r.Phase
			if r.Fence {
				phase = "online-fence"
			}
			f := map[string]any{"phase": phase}
			if r.Window != "" {
				f["window"] = r.Window
			}
			key := phase + "/" + r.Window
			ra, replied := t.w.replyTime(sessions[si], p.Namespace)
			switch {
			case !connected[p.Namespace]:
				if !reported["nc/"+key] {
					reported["nc/"+key] = true
					f["how"] = "before-CONNECT-packet"
					t.violation("event-before-connect-reply", f, fmt.Sprintf("EVENT for %s (%s #%d) is on the wire of session %d before any CONNECT for that namespace", p.Namespace, phase, r.Seq, si+1), nil)
				}
				t.run.Count("p3_events_before_connect_reply", 1)
			case !replied || sp.At < ra:
				if !reported["nr/"+key] {
					reported["nr/"+key] = true
					t.violation("event-before-connect-reply", f, fmt.Sprintf("EVENT for %s (%s #%d, kind %c) reached the server on session %d before the server had answered the CONNECT for that namespace (a real server closes the connection)", p.Namespace, phase, r.Seq, r.Kind, si+1), nil)
				}
				t.run.Count("p3_events_before_connect_reply", 1)
			}
			if last, ok := lastAny[p.Namespace]; ok && r.Seq < last && !(r.Stable || r.Fence) {
				t.run.Count("p3_transitional_emit_overtaken_on_wire_(evidence_only)", 1)
			} else if ok && r.Seq < last {
				t.run.Count("p3_stable_emit_overtaken_by_transitional_(evidence_only)", 1)
			}
			if r.Seq > lastAny[p.Namespace] {
				lastAny[p.Namespace] = r.Seq
			}
			if r.Stable || r.Fence {
				if last, ok := lastSeq[p.Namespace]; ok && r.Seq < last {
					t.violation("offline-out-of-order", t.fields(r.Phase), fmt.Sprintf("%s: event #%d (%s) is on the wire after #%d on session %d", p.Namespace, r.Seq, r.Phase, last, si+1), nil)
				}
				if r.Seq > lastSeq[p.Namespace] {
					lastSeq[p.Namespace] = r.Seq
				}
			}
		}
	}
	// (c) multiplicity
	lostUndecided := 0
	for _, r := range recs {
		n := len(occ[r.UID])
		switch {
		case r.Fence:
			if n > 1 {
				t.violation("duplicate", map[string]any{"phase": "online-fence"}, fmt.Sprintf("online event #%d of %s delivered %d times", r.Seq, r.Nsp, n), nil)
			}
		case r.Stable && r.Kind == 'V':
			t.run.Count("p3_stable_volatile_checked", 1)
			if n > 0 {
				t.violation("volatile-delivered", t.fields(r.Phase), fmt.Sprintf("volatile event #%d emitted offline on %s (%s) was delivered %d time(s)", r.Seq, r.Nsp, r.Phase, n), nil)
			}
		case r.Stable:
			t.run.Count("p3_stable_nonvolatile_checked", 1)
			if n > 1 {
				t.violation("offline-event-duplicated", t.fields(r.Phase), fmt.Sprintf("event #%d (kind %c) emitted offline on %s (%s) is on the wire %d times", r.Seq, r.Kind, r.Nsp, r.Phase, n), nil)
			}
			if n == 0 {
				t.mu.Lock()
				barrier := t.barrier[r.Phase][r.Nsp]
				t.mu.Unlock()
				if barrier {
					t.violation("offline-event-lost", t.fields(r.Phase), fmt.Sprintf("event #%d (kind %c) emitted offline on %s (%s) never reached the server although a later online event of the same socket did", r.Seq, r.Kind, r.Nsp, r.Phase), nil)
				} else {
					lostUndecided++
				}
			} else {
				t.run.Count("p3_stable_delivered_once", 1)
			}
		default:
			t.run.Count("p3_transitional_checked", 1)
			if n > 1 {
				t.violation("transitional-duplicated", map[string]any{"phase": r.Phase, "window": r.Window}, fmt.Sprintf("event emitted in window %q on %s is on the wire %d times", r.Window, r.Nsp, n), nil)
			}
			if n == 1 {
				t.run.Count("p3_transitional_delivered", 1)
			}
		}
		if c := r.acks.Load(); c > 1 {
			t.violation("ack-callback-twice", t.fields(r.Phase), fmt.Sprintf("ack callback of buffered event #%d ran %d times", r.Seq, c), nil)
		}
	}
	if lostUndecided > 0 {
		t.run.Count("p3_missing_without_barrier_(undecided)", int64(lostUndecided))
	}
	// evidence
	tr := strings.Join(t.c.Transports, "+")
	phases := map[string]bool{}
	for _, r := range recs {
		if (r.Stable && len(occ[r.UID]) > 0) || (!r.Stable && !r.Fence) {
			ph := r.Phase
			if r.Window != "" {
				ph += ":" + r.Window
			}
			phases[ph] = true
		}
	}
	for ph := range phases {
		t.run.Distinct(fmt.Sprintf("buffer/phase=%s/mix=%s/nsps=%d/%s/reply-delay=%v/%s", ph, t.c.Mix, t.c.Nsps, tr, t.c.ReplyDelay, kindNames[t.c.Kind]))
	}
}

func runBuffer(run *vk.Run, c bcfg) {
	run.Eval(1)
	run.Count("p3_trials", 1)
	w, err := newWorld(c.ReplyDelay)
	if err != nil {
		run.Inconclusive("world: " + err.Error())
		return
	}
	defer w.close()
	jit := float32(0)
	if c.ID%2 == 1 {
		jit = 0.5
	}
	cl := newClient(w.url, c.Transports, 0, 30*time.Millisecond, 200*time.Millisecond, jit)
	defer closeManager(run, cl.m)
	t := &btrial{run: run, c: c, w: w, cl: cl, recs: map[int]*erec{}, seqs: map[string]int{}, barrier: map[string]map[string]bool{}, acked: map[int]bool{}, ackSent: map[int]bool{}}
	cl.m.OnOpen(func() { t.opens.Add(1) })
	for _, nsp := range []string{"/", "/b", "/c"}[:c.Nsps] {
		b := &bsock{nsp: nsp, s: cl.socket(nsp)}
		b.s.OnConnect(func() { b.connects.Add(1) })
		b.s.OnDisconnect(func(sio.Reason) { b.disconnects.Add(1) })
		t.socks = append(t.socks, b)
	}
	tl := cl.tl
	incl := func(what string) { run.Inconclusive("buffer " + c.String() + ": " + what) }

	flow := func() {
		// stable: never connected
		t.mix("before-first-connect", 0, 1)
		if c.Initial {
			w.down(c.Kind)
		}
		t.socks[0].s.Connect()
		prePhases := []string{"before-first-connect"}
		if c.Initial {
			if !vk.WaitUntil(20*time.Second, func() bool { return tl.count("reconnect_error") >= 2 }) {
				incl("no two failed attempts within 20 s")
				return
			}
			// stable: never connected, server still down, attempts failing
			t.mix("first-connect-failing", 0, 1)
			prePhases = append(prePhases, "first-connect-failing")
			if err := w.up(c.Kind); err != nil {
				incl("restore: " + err.Error())
				return
			}
		}
		if c.Trans {
			if vk.WaitUntil(20*time.Second, func() bool { return t.opens.Load() >= 1 }) {
				t.burst(0, "manager-just-opened")
			}
		}
		if !vk.WaitUntil(25*time.Second, func() bool { return t.socks[0].connects.Load() >= 1 }) {
			incl("first socket not connected within 25 s")
			return
		}
		for si := 1; si < len(t.socks); si++ {
			t.socks[si].s.Connect() // the Manager is open: CONNECT goes out right away
			if c.Trans {
				t.burst(si, "connect-on-open-manager")
			}
		}
		if !t.allConnects(1, 25*time.Second) {
			incl("not all sockets connected within 25 s")
			return
		}
		if !t.fence(prePhases...) {
			return
		}
		for o := 0; o < c.Outages; o++ {
			ph := fmt.Sprintf("after-disconnect-%d", o+1)
			err0 := tl.count("reconnect_error")
			_, disc0 := t.snapshot()
			w.down(c.Kind)
			if c.Trans {
				t.burst(0, "cut-not-yet-noticed")
			}
			if !t.allDisconnectedSince(disc0, 15*time.Second) {
				incl("disconnect events missing 15 s after the cut")
				return
			}
			// stable: disconnect event delivered, server down
			t.mix(ph, 0, 2)
			vk.WaitUntil(3*time.Second, func() bool { return tl.count("reconnect_error") > err0 })
			t.mix(ph, 1, 2)
			opens0 := t.opens.Load()
			conn0, _ := t.snapshot()
			if err := w.up(c.Kind); err != nil {
				incl("restore: " + err.Error())
				return
			}
			if c.FlapPending {
				// cut again as soon as the Manager re-opened (the CONNECT replies are still delayed)
				if !vk.WaitUntil(20*time.Second, func() bool { return t.opens.Load() > opens0 }) {
					incl("manager did not re-open within 20 s")
					return
				}
				_, disc1 := t.snapshot()
				w.down(c.Kind)
				if !t.allDisconnectedSince(disc1, 15*time.Second) {
					incl("second cut (while CONNECT pending) not noticed within 15 s")
					return
				}
				t.run.Count("p3_cut_again_while_connect_pending", 1)
				opens0 = t.opens.Load()
				conn0, _ = t.snapshot()
				if err := w.up(c.Kind); err != nil {
					incl("restore: " + err.Error())
					return
				}
			}
			if c.Trans {
				if vk.WaitUntil(20*time.Second, func() bool { return t.opens.Load() > opens0 }) {
					for si := range t.socks {
						t.emit(si, "transitional", "manager-just-reopened", false, false, 'N')
					}
					time.Sleep(3 * time.Millisecond)
					for si := range t.socks {
						t.emit(si, "transitional", "manager-just-reopened", false, false, 'A')
					}
				}
			}
			if !t.allConnectedSince(conn0, 25*time.Second) {
				incl(fmt.Sprintf("not all sockets reconnected within 25 s after outage %d (part 2 decides reconnection)", o+1))
				return
			}
			if !t.fence(ph) {
				return
			}
		}
	}
	flow()
	t.evaluate()
	t.mu.Lock()
	called, ackedN := 0, 0
	for _, r := range t.order {
		if t.ackSent[r.UID] {
			ackedN++
			if r.acks.Load() == 1 {
				called++
			}
		}
	}
	bad := t.bad
	t.mu.Unlock()
	run.Count("p3_ack_callbacks_run_once", int64(called))
	run.Count("p3_ack_callbacks_missing_after_2s", int64(ackedN-called))
	label := "p3/clean"
	if bad {
		label = "p3/violating"
	}
	sampleOnce(run, label, 2, map[string]any{"part": 3, "case": c.String(), "wire": t.wireTrace(45)})
	if run.Quick() {
		run.Logf("buffer %s -> %s", c.String(), map[bool]string{false: "clean", true: "VIOLATION"}[bad])
	}
}

// runFlushWindow forces the window between "state = connected" and the flush of the offline buffer (hook H5):
// the same goroutine emitted e1,e2 offline and emits e3 inside the window.
func runFlushWindow(run *vk.Run, transports []string) {
	run.Eval(1)
	w, err := newWorld(0)
	if err != nil {
		run.Inconclusive("world: " + err.Error())
		return
	}
	defer w.close()
	cl := newClient(w.url, transports, 0, 30*time.Millisecond, 200*time.Millisecond, 0)
	defer closeManager(run, cl.m)
	c := bcfg{ID: 9000, Transports: transports, Nsps: 1, Mix: "N", Len: 2}
	t := &btrial{run: run, c: c, w: w, cl: cl, recs: map[int]*erec{}, seqs: map[string]int{}, barrier: map[string]map[string]bool{}, acked: map[int]bool{}, ackSent: map[int]bool{}}
	b := &bsock{nsp: "/", s: cl.socket("/")}
	b.s.OnConnect(func() { b.connects.Add(1) })
	t.socks = []*bsock{b}
	reached := make(chan struct{}, 1)
	release := make(chan struct{})
	var once sync.Once
	free := func() { once.Do(func() { close(release) }) }
	sio.VerifHookSet(hookFlush, func() {
		select {
		case reached <- struct{}{}:
		default:
		}
		select {
		case <-release:
		case <-time.After(10 * time.Second):
		}
	})
	defer sio.VerifHookSet(hookFlush, nil)
	defer free()
	e1 := t.emit(0, "before-first-connect", "", true, false, 'N')
	e2 := t.emit(0, "before-first-connect", "", true, false, 'N')
	b.s.Connect()
	select {
	case <-reached:
	case <-time.After(20 * time.Second):
		run.Inconclusive("flush-window: hook " + hookFlush + " not reached within 20 s")
		return
	}
	e3 := t.emit(0, "transitional", "between-connected-and-flush(H5)", false, false, 'N')
	time.Sleep(20 * time.Millisecond)
	free()
	if !t.allConnects(1, 20*time.Second) {
		run.Inconclusive("flush-window: no connect after releasing the hook")
		return
	}
	if !t.fence("before-first-connect") {
		return
	}
	t.evaluate()
	occ, _, _, _ := t.scan()
	run.Count("p3_flush_window_forced", 1)
	pos := func(r *erec) int {
		if len(occ[r.UID]) == 0 {
			return -1
		}
		return occ[r.UID][0].idx
	}
	p1, p2, p3 := pos(e1), pos(e2), pos(e3)
	out := "in-order"
	if p3 >= 0 && p1 >= 0 && (p3 < p1 || p3 < p2) {
		out = "overtaken"
		t.violation("offline-overtaken-by-later-emit", map[string]any{"window": "between-connected-and-flush(H5)"},
			fmt.Sprintf("one goroutine emitted e1,e2 while disconnected and e3 after the socket reported connected state but before the buffer was flushed: wire positions e1=%d e2=%d e3=%d (e3 overtook the buffered events)", p1, p2, p3), nil)
	}
	run.Distinct("buffer/flush-window(H5)/" + strings.Join(transports, "+") + "/" + out)
	sampleOnce(run, "p3/h5", 1, map[string]any{"part": 3, "case": "forced window between state=connected and flush (H5)", "outcome": out, "wire": t.wireTrace(20)})
}

// runHotEmitter: `emitters` goroutines emit numbered events without pause from before Connect() until after
// the socket has connected; the first `buffered` events of emitter 0 are emitted before Connect() was even
// called. Each goroutine defines a total emission order, so on the wire the events of emitter g must read
// exactly 0,1,2,...: an event emitted while the offline buffer is being flushed must not overtake the
// buffered ones, none may be lost or doubled, and nothing may stay stuck in the buffer once the socket is
// connected. The emitters are typically parked on the socket's buffer lock at the moment of the flush, which
// is what makes the window reachable without a hook inside it.
func runHotEmitter(run *vk.Run, transports []string, buffered, emitters int) {
	run.Eval(1)
	w, err := newWorld(0)
	if err != nil {
		run.Inconclusive("world: " + err.Error())
		return
	}
	defer w.close()
	cl := newClient(w.url, transports, 0, 30*time.Millisecond, 200*time.Millisecond, 0)
	defer closeManager(run, cl.m)
	s := cl.socket("/")
	var connected atomic.Bool
	var disconnects atomic.Int32
	s.OnConnect(func() { connected.Store(true) })
	s.OnDisconnect(func(sio.Reason) { disconnects.Add(1) })
	n0 := 0
	for ; n0 < buffered; n0++ {
		s.Emit("hot", 0, n0)
	}
	stop := make(chan struct{})
	totals := make([]int, emitters)
	var ewg sync.WaitGroup
	for g := 0; g < emitters; g++ {
		ewg.Add(1)
		go func(g int) {
			defer ewg.Done()
			i := 0
			if g == 0 {
				i = n0
			}
			start := i
			for {
				select {
				case <-stop:
					totals[g] = i
					return
				default:
				}
				s.Emit("hot", g, i)
				i++
				if i-start > 50000/emitters {
					totals[g] = i
					<-stop
					return
				}
			}
		}(g)
	}
	s.Connect()
	if !vk.WaitUntil(20*time.Second, connected.Load) {
		close(stop)
		ewg.Wait()
		run.Inconclusive("hot-emitter: no connect within 20 s")
		return
	}
	time.Sleep(5 * time.Millisecond)
	close(stop)
	ewg.Wait()
	total := 0
	for _, t := range totals {
		total += t
	}
	// barrier: an event emitted after every emitter has stopped, on the quiet, connected socket
	s.Emit("hot-fence")
	fenceSeen := false
	vk.WaitUntil(30*time.Second, func() bool {
		for _, se := range w.raw.Sessions() {
			ps, _ := se.Packets()
			for _, sp := range ps {
				if rawpeer.EventName(sp.P) == "hot-fence" {
					fenceSeen = true
					return true
				}
			}
		}
		return false
	})
	wire := make([][]int, emitters)
	onWire := 0
	for _, se := range w.raw.Sessions() {
		ps, _ := se.Packets()
		for _, sp := range ps {
			if rawpeer.EventName(sp.P) != "hot" {
				continue
			}
			if a := rawpeer.Args(sp.P); len(a) > 1 {
				g, ok1 := rawpeer.Num(a[0])
				v, ok2 := rawpeer.Num(a[1])
				if ok1 && ok2 && int(g) < emitters {
					wire[int(g)] = append(wire[int(g)], int(v))
					onWire++
				}
			}
		}
	}
	tr := strings.Join(transports, "+")
	fields := map[string]any{"phase": "hot-emitter"}
	if !fenceSeen {
		if s.Connected() && disconnects.Load() == 0 {
			run.Violation(vk.Violation{Sub: "offline-event-lost", Fields: fields,
				What: fmt.Sprintf("%d goroutines emitted %d events across the connect; the socket is connected (no disconnect), but an event emitted afterwards on the quiet socket did not reach the server within 30 s (%d of %d earlier events arrived): emits are stuck in the send buffer [%s]",
					emitters, total, onWire, total, tr),
				Witness: map[string]any{"transports": transports, "emitters": emitters, "buffered_before_connect": buffered, "emitted": total, "on_wire": onWire, "seed": run.Seed()}})
		} else {
			run.Inconclusive(fmt.Sprintf("hot-emitter %s: fence not seen on the wire within 30 s (%d of %d events arrived, connected=%v)", tr, onWire, total, s.Connected()))
		}
		return
	}
	for g := 0; g < emitters; g++ {
		firstBad := -1
		for i := range wire[g] {
			if wire[g][i] != i {
				firstBad = i
				break
			}
		}
		if firstBad < 0 && len(wire[g]) == totals[g] {
			continue
		}
		lo, hi := firstBad-3, firstBad+6
		kind := "offline-overtaken-by-later-emit"
		if firstBad < 0 {
			kind = "offline-event-lost"
			lo, hi = len(wire[g])-5, len(wire[g])
		}
		if lo < 0 {
			lo = 0
		}
		if hi > len(wire[g]) {
			hi = len(wire[g])
		}
		run.Violation(vk.Violation{Sub: kind, Fields: fields,
			What: fmt.Sprintf("goroutine %d of %d emitted events 0..%d on one socket across the connect (%d buffered before Connect()), the wire has %d of them and deviates from 0,1,2,... at position %d: ...%v... [%s]",
				g, emitters, totals[g]-1, buffered, len(wire[g]), firstBad, wire[g][lo:hi], tr),
			Witness: map[string]any{"transports": transports, "emitters": emitters, "emitter": g, "buffered_before_connect": buffered, "emitted": totals[g], "on_wire": len(wire[g]), "first_deviation": firstBad, "wire_around": wire[g][lo:hi], "seed": run.Seed()}})
		break
	}
	run.Count("p3_hot_emitter_events", int64(total))
	run.Distinct(fmt.Sprintf("buffer/hot-emitter/%s/buffered=%d/emitters=%d", tr, buffered, emitters))
}

// runOfflineTimeout: an ack-carrying emit WITH binary arguments whose timeout expires while the socket has
// never been connected sits in the offline buffer as several frames (header + attachments). When it is purged,
// all of them must go: the other offline emits must reach the server once, in order, on a connection that
// stays up, and the timed-out event must not.
func runOfflineTimeout(run *vk.Run, transports []string, attachments int) {
	run.Eval(1)
	w, err := newWorld(0)
	if err != nil {
		run.Inconclusive("world: " + err.Error())
		return
	}
	defer w.close()
	cl := newClient(w.url, transports, 0, 30*time.Millisecond, 200*time.Millisecond, 0)
	defer closeManager(run, cl.m)
	s := cl.socket("/")
	var connects, disconnects, cbErr, cbOK atomic.Int32
	s.OnConnect(func() { connects.Add(1) })
	s.OnDisconnect(func(sio.Reason) { disconnects.Add(1) })
	s.Emit("ot", 0)
	args := []any{1}
	for i := 0; i < attachments; i++ {
		args = append(args, sio.Binary([]byte{byte(i), 2, 3}))
	}
	args = append(args, func(err error) {
		if err != nil {
			cbErr.Add(1)
		} else {
			cbOK.Add(1)
		}
	})
	s.Timeout(30*time.Millisecond).Emit("ot-timed", args...)
	s.Emit("ot", 2)
	vk.WaitUntil(5*time.Second, func() bool { return cbErr.Load()+cbOK.Load() > 0 })
	time.Sleep(10 * time.Millisecond)
	s.Emit("ot", 3)
	s.Connect()
	tr := strings.Join(transports, "+")
	fields := map[string]any{"phase": "offline-timeout", "attachments": attachments}
	wit := map[string]any{"transports": transports, "attachments_of_timed_out_emit": attachments, "seed": run.Seed()}
	if !vk.WaitUntil(20*time.Second, func() bool { return connects.Load() > 0 }) {
		run.Inconclusive("offline-timeout " + tr + ": no connect within 20 s")
		return
	}
	s.Emit("ot-fence")
	fence := vk.WaitUntil(15*time.Second, func() bool {
		for _, se := range w.raw.Sessions() {
			ps, _ := se.Packets()
			for _, sp := range ps {
				if rawpeer.EventName(sp.P) == "ot-fence" {
					return true
				}
			}
		}
		return false
	})
	var got []int
	timedSeen := 0
	var perr error
	for _, se := range w.raw.Sessions() {
		ps, e := se.Packets()
		if e != nil && perr == nil {
			perr = e
		}
		for _, sp := range ps {
			switch rawpeer.EventName(sp.P) {
			case "ot":
				if a := rawpeer.Args(sp.P); len(a) > 0 {
					if v, ok := rawpeer.Num(a[0]); ok {
						got = append(got, int(v))
					}
				}
			case "ot-timed":
				timedSeen++
			}
		}
	}
	wit["ot_events_on_wire"] = got
	wit["sessions"] = len(w.raw.Sessions())
	wit["client_connects"], wit["client_disconnects"] = connects.Load(), disconnects.Load()
	if perr != nil {
		wit["wire_error"] = perr.Error()
	}
	switch {
	case cbErr.Load() != 1 || cbOK.Load() != 0:
		run.Violation(vk.Violation{Sub: "offline-ack-timeout-callback", Fields: fields,
			What: fmt.Sprintf("offline emit with a 30 ms timeout and %d attachments: callback ran %d times with an error and %d times without [%s]", attachments, cbErr.Load(), cbOK.Load(), tr), Witness: wit})
	case perr != nil || disconnects.Load() > 0 || len(w.raw.Sessions()) > 1:
		run.Violation(vk.Violation{Sub: "offline-event-lost", Fields: fields,
			What: fmt.Sprintf("after an offline emit with %d attachments timed out, the first connection did not survive the flush of the offline buffer (wire error: %v, client disconnects: %d, sessions: %d; plain events seen %v, want [0 2 3]) [%s]",
				attachments, perr, disconnects.Load(), len(w.raw.Sessions()), got, tr), Witness: wit})
	case !fence || fmt.Sprint(got) != "[0 2 3]":
		run.Violation(vk.Violation{Sub: "offline-event-lost", Fields: fields,
			What: fmt.Sprintf("offline emits 0,2,3 around an emit (%d attachments) whose timeout expired offline: the server saw %v (fence seen: %v) [%s]", attachments, got, fence, tr), Witness: wit})
	case timedSeen > 0:
		run.Violation(vk.Violation{Sub: "offline-timed-out-event-sent", Fields: fields,
			What: fmt.Sprintf("the emit whose timeout had expired offline was sent %d times after the connect [%s]", timedSeen, tr), Witness: wit})
	}
	run.Distinct(fmt.Sprintf("buffer/offline-timeout/%s/att=%d", tr, attachments))
}

func bufferCases(run *vk.Run, small bool) []bcfg {
	var out []bcfg
	mixes := []string{"N", "NV", "NA", "NVA"}
	kinds := []int{oClosed, oReset, o503}
	id := 0
	if run.Quick() || small {
		n := 36
		if small {
			n = 14
		}
		for i := 0; i < n; i++ {
			id++
			rd := time.Duration(0)
			if i%2 == 0 {
				rd = 50 * time.Millisecond
			}
			out = append(out, bcfg{ID: id, Transports: transportSets[(i/3)%3], Nsps: 1 + i%3, Mix: mixes[i%4], ReplyDelay: rd,
				Trans: (i/2)%2 == 1, Initial: i%5 == 4, Outages: 1 + (i/4)%2, Kind: kinds[(i/2)%3], Len: 3 + i%5, FlapPending: rd > 0 && i%6 == 0})
		}
		return out
	}
	for rep := 0; rep < 4; rep++ {
		for _, tr := range transportSets {
			for nsps := 1; nsps <= 3; nsps++ {
				for mi, mix := range mixes {
					for _, rd := range []time.Duration{0, 50 * time.Millisecond} {
						for _, trans := range []bool{false, true} {
							id++
							out = append(out, bcfg{ID: id, Transports: tr, Nsps: nsps, Mix: mix, ReplyDelay: rd, Trans: trans,
								Initial: (id+rep)%3 == 0, Outages: 1 + (id+mi)%2, Kind: kinds[(id+rep)%3], Len: 3 + (id+rep)%6, FlapPending: rd > 0 && (id+rep)%4 == 0})
						}
					}
				}
			}
		}
	}
	return out
}

// ---------------------------------------------------------------- pool

type task struct {
	weight int
	slowOK bool // the stall trials wait 20 s by design
	f      func()
}

// runPool runs the trials on a fixed number of workers. Circuit breaker for a badly broken tree: a trial
// normally takes 1-6 s; one that needed more than 15 s sat out a watchdog. After 6 of those the remaining
// trials are skipped (and reported), so that the run stays bounded.
func runPool(run *vk.Run, tasks []task, workers int) {
	sort.SliceStable(tasks, func(i, j int) bool { return tasks[i].weight > tasks[j].weight })
	ch := make(chan task)
	var wg sync.WaitGroup
	var slow, skipped atomic.Int32
	for i := 0; i < workers; i++ {
		wg.Add(1)
		go func() {
			defer wg.Done()
			for t := range ch {
				if slow.Load() >= 6 {
					skipped.Add(1)
					continue
				}
				t0 := time.Now()
				t.f()
				if !t.slowOK && time.Since(t0) > 15*time.Second {
					slow.Add(1)
				}
			}
		}()
	}
	for _, t := range tasks {
		ch <- t
	}
	close(ch)
	wg.Wait()
	if n := skipped.Load(); n > 0 {
		run.Count("trials_skipped_after_6_trials_hit_a_watchdog", int64(n))
		run.Inconclusive(fmt.Sprintf("%d trials skipped: 6 earlier trials each needed more than 15 s (watchdogs)", n))
	}
}

// replay re-runs the case recorded in a replay file (three times; the verdicts are re-derived, not copied).
func replay(run *vk.Run, cy *canary, path string) {
	b, err := os.ReadFile(path)
	if err != nil {
		run.Inconclusive("replay: " + err.Error())
		return
	}
	var rec struct {
		Witness struct {
			Replay struct {
				Part          int     `json:"part"`
				MinNs         int64   `json:"min_ns"`
				MaxNs         int64   `json:"max_ns"`
				Jitter        float32 `json:"jitter"`
				Attempt       uint32  `json:"attempt"`
				ReconnectCase *rcfg   `json:"reconnect_case"`
				BufferCase    *bcfg   `json:"buffer_case"`
			} `json:"replay"`
		} `json:"witness"`
	}
	if err := json.Unmarshal(b, &rec); err != nil {
		run.Inconclusive("replay: " + err.Error())
		return
	}
	r := rec.Witness.Replay
	switch {
	case r.Part == 1:
		mn, mx := time.Duration(r.MinNs), time.Duration(r.MaxNs)
		for i := 0; i < 1000; i++ {
			v := sio.VerifBackoff(mn, mx, r.Jitter, r.Attempt)
			run.Eval(1)
			if v <= 0 || v > mx {
				run.Violation(vk.Violation{Sub: "backoff-range", Fields: map[string]any{"min_class": minClass(mn, mx), "attempt_class": attClass(mn, mx, r.Attempt)},
					What: fmt.Sprintf("backoff(min=%v,max=%v,jitter=%v,attempt=%d) = %v, outside (0, %v]", mn, mx, r.Jitter, r.Attempt, v, mx), Witness: map[string]any{"replayed": path}})
				break
			}
		}
		seq := sio.VerifBackoffSeq(mn, mx, r.Jitter, 80)
		run.Logf("replay part 1: first delays of one instance: %v", seq[:8])
	case r.Part == 2 && r.ReconnectCase != nil:
		for i := 0; i < 3; i++ {
			if r.ReconnectCase.Kind == oStall {
				runStall(run, cy, r.ReconnectCase.ID, r.ReconnectCase.Transports)
			} else {
				runReconnect(run, cy, *r.ReconnectCase)
			}
		}
	case r.Part == 3 && r.BufferCase != nil:
		if r.BufferCase.ID == 9000 {
			runFlushWindow(run, r.BufferCase.Transports)
			return
		}
		for i := 0; i < 3; i++ {
			runBuffer(run, *r.BufferCase)
		}
	default:
		run.Inconclusive("replay: file carries no replayable case")
	}
}

func main() {
	run := vk.Start("C15", "fault_enumeration")
	run.Rule("part 1: grid cells (min class, jitter, attempt class incl. 2^a overflowing int64 and attempt >= 2^31, outcome class) of the back-off function, 50/200 draws per jittered cell, plus 80-step sequences of one instance; " +
		"part 2: one real Manager per trial against a raw server behind a killable listener, distinct = (outage pattern {down for good, down at first connect, down for j failures then restored, flapping, stall-then-heal} , outage kind {connection refused, accept+reset, HTTP 503, stall}, ReconnectionAttempts 0..5, jitter 0/0.5, transports, outcome); " +
		"part 3: offline emits observed on the raw server's wire, distinct = (phase {before first connect, first connect failing, after disconnect k, transitional windows}, mix of non-volatile/volatile/ack-carrying, 1..3 namespaces, transport, CONNECT-reply delay, outage kind)")
	run.Assume("lifecycle handlers of the Manager run on their own goroutines, so their timestamps are late by scheduling latency: time-bound verdicts use tolerance 5 ms + the largest stall a 5 ms canary ticker saw during the trial (lower bound) and 1.5 s slack (upper bound), and are withheld (retried twice, then inconclusive) when the canary saw a stall > 250 ms",
		"counts (attempts, reconnect_failed, deliveries) are exact and need no clock; 'no attempt after giving up' is observed for max(5 x ReconnectionDelayMax, 1 s) after reconnect_failed, on the event log and (accept+reset outages) on the listener's accept counter",
		"'never delivered' is only concluded when a later online event of the same socket (fence) arrived on the FIFO wire; 'never reconnected' only >= 15 s after the restore and only if attempts stopped too",
		"emits issued in transitional windows (manager just opened, Connect() on an open manager, cut not yet noticed) are held to at-most-once, but no EVENT may reach the server before the server answered the namespace's CONNECT",
		"min = 0: only (0, max] is demanded (the code returns max); out-of-range jitter: only (0, max] is demanded",
		"the delay values announced on ManagerConfig.Debugger ('Delay before reconnect attempt') are an auxiliary exact observation; if the message text changes the counter p2_announced_delays_checked drops to 0 and only the bracketed clock oracle remains")
	cy := startCanary()
	if *vk.FlagReplay != "" {
		// a replay does not rewrite the evidence file of the last full run
		replay(run, cy, *vk.FlagReplay)
		run.Logf("replay done: violations=%d (known findings are printed as KNOWN-FINDING lines)", run.Violations())
		if run.Violations() > 0 {
			os.Exit(1)
		}
		os.Exit(0)
	}

	small := run.SubMode == "race"
	if !small {
		part1(run)
		run.Logf("part 1 done: %d values", run.Counter("p1_backoff_values"))
	}

	var tasks []task
	stalls := [][]string{{"websocket"}, {"polling"}}
	if small {
		stalls = stalls[:1]
	} else if run.Thorough() {
		stalls = [][]string{{"websocket"}, {"polling"}, {"polling", "websocket"}, {"websocket"}, {"polling"}, {"polling", "websocket"}}
	}
	for i, tr := range stalls {
		tasks = append(tasks, task{weight: 100, slowOK: true, f: func() { runStall(run, cy, 900+i, tr) }})
	}
	for _, c := range reconnectCases(run, small) {
		wgt := 10 + 3*len(c.Restores)
		if c.Limit == 0 {
			wgt += 5
		}
		tasks = append(tasks, task{weight: wgt, f: func() { runReconnect(run, cy, c) }})
	}
	tasks = append(tasks, userRestartTasks(run, small)...)
	for _, c := range bufferCases(run, small) {
		tasks = append(tasks, task{weight: 5 + 3*c.Outages, f: func() { runBuffer(run, c) }})
	}
	workers := 12
	if small {
		workers = 6
	}
	run.Logf("parts 2+3: %d trials on %d workers", len(tasks), workers)
	runPool(run, tasks, workers)

	// the hook is process-wide: the forced-window trials run alone
	for _, tr := range transportSets {
		runFlushWindow(run, tr)
	}
	// hot emitter through the connect (alone as well: it wants a free CPU for the emitter)
hot:
	for rep := 0; rep < run.Pick(6, 40); rep++ {
		for _, tr := range transportSets {
			runHotEmitter(run, tr, []int{1, 50, 400, 3000}[rep%4], []int{1, 1, 4, 8}[(rep/4+rep)%4])
			if run.Violations() > 6 {
				break hot
			}
		}
	}
	for _, tr := range transportSets {
		for att := 0; att <= 3; att++ {
			runOfflineTimeout(run, tr, att)
		}
	}
	run.Note("hook_hits_before_flush", sio.VerifHookHits(hookFlush))
	run.Note("canary_max_stall_overall", cy.maxStall(0, rawpeer.Now()).String())
	if run.SubMode == "race" {
		run.Finish()
	}
	if bin := os.Getenv("VERIF_RACE_BIN"); bin != "" && run.Thorough() {
		if s, err := vk.RunSub(bin, "race", run, 15*time.Minute); err != nil {
			run.Inconclusive("race sub-pass: " + err.Error())
		} else {
			run.Merge("race:", s)
		}
	}
	run.Finish()
}
