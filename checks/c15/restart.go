package main

// User-initiated stop and restart in the middle of a reconnection series: the server is unreachable, the client has
// failed a few attempts, the application calls Socket.Disconnect() / Manager.Close() and then Connect() / Open() again
// while the server is still away. The restarted client is a client with reconnection enabled like any other: its
// first open fails, it keeps attempting, and it connects once the server is back.

import (
	"fmt"
	"strings"
	"time"

	"sioverif/internal/rawpeer"
	"sioverif/internal/vk"
)

func runUserRestart(run *vk.Run, kind int, how string, transports []string, failuresBefore int) {
	run.Eval(1)
	run.Count("p2_user_restart_trials", 1)
	id := fmt.Sprintf("user-restart/%s/%s/%s/after=%d", how, kindNames[kind], strings.Join(transports, "+"), failuresBefore)
	w, err := newWorld(0)
	if err != nil {
		run.Inconclusive("world: " + err.Error())
		return
	}
	defer w.close()
	cl := newClient(w.url, transports, 0, 20*time.Millisecond, 80*time.Millisecond, 0)
	defer closeManager(run, cl.m)
	tl := cl.tl
	sock := cl.socket("/")
	fields := map[string]any{"pattern": "user-restart", "how": how, "kind": kindNames[kind]}
	sock.Connect()
	if !vk.WaitUntil(30*time.Second, func() bool { return tl.count("connect") >= 1 }) {
		run.Inconclusive(id + ": no initial connect within 30 s")
		return
	}
	from := rawpeer.Now()
	w.down(kind)
	if !vk.WaitUntil(30*time.Second, func() bool { return tl.countSince("reconnect_error", from) >= failuresBefore }) {
		run.Inconclusive(fmt.Sprintf("%s: fewer than %d failed attempts within 30 s of the outage", id, failuresBefore))
		return
	}
	// stop ...
	stopped := vk.Watchdog(20*time.Second, func() {
		if how == "socket" {
			sock.Disconnect()
		} else {
			cl.m.Close()
		}
	})
	if !stopped {
		run.Violation(vk.Violation{Sub: "restart-blocked", Fields: fields, What: id + ": Disconnect()/Close() during a reconnection series did not return within 20 s",
			Witness: map[string]any{"timeline": tl.render(60), "stacks": vk.DumpGoroutines("c15-user-restart-stop")}})
		return
	}
	time.Sleep(30 * time.Millisecond)
	// ... and start again, server still away
	restartAt := rawpeer.Now()
	started := vk.Watchdog(20*time.Second, func() {
		if how == "socket" {
			sock.Connect()
		} else {
			cl.m.Open()
			sock.Connect()
		}
	})
	if !started {
		run.Violation(vk.Violation{Sub: "restart-blocked", Fields: fields, What: id + ": Connect()/Open() after a stop during a reconnection series did not return within 20 s",
			Witness: map[string]any{"timeline": tl.render(60), "stacks": vk.DumpGoroutines("c15-user-restart-start")}})
		return
	}
	// the first open of the restarted client fails (server away): reported as error or reconnect_error
	if !vk.WaitUntil(20*time.Second, func() bool {
		return tl.countSince("error", restartAt)+tl.countSince("reconnect_error", restartAt) >= 1
	}) {
		run.Inconclusive(id + ": the failure of the restarted client's first open was not reported within 20 s")
		return
	}
	conn0 := tl.count("connect")
	if err := w.up(kind); err != nil {
		run.Inconclusive(id + ": could not restore the listener: " + err.Error())
		return
	}
	upAt := rawpeer.Now()
	ok := vk.WaitUntil(20*time.Second, func() bool { return tl.count("connect") > conn0 })
	if ok {
		run.Count("p2_user_restart_reconnected", 1)
		run.Distinct(id + "/reconnected")
		return
	}
	lastAtt := tl.lastT("attempt", "reconnect_error", "error")
	quiet := time.Duration(rawpeer.Now() - lastAtt)
	if lastAtt < upAt || quiet > 5*time.Second {
		run.Violation(vk.Violation{Sub: "no-reconnect-after-restore", Fields: fields,
			What: fmt.Sprintf("%s: stopped and restarted by the application after %d failed attempts while the server was away; server reachable again for %v, no connect event and no attempt for %v (attempts since the restart: %d)",
				id, failuresBefore, time.Duration(rawpeer.Now()-upAt).Round(time.Millisecond), quiet.Round(time.Millisecond), tl.countSince("attempt", restartAt)),
			Witness: map[string]any{"timeline": tl.render(80), "seed": run.Seed()}})
		return
	}
	run.Inconclusive(id + ": not reconnected within 20 s of the restore but still attempting")
}

func userRestartTasks(run *vk.Run, small bool) []task {
	var out []task
	kinds := []int{oClosed, o503}
	hows := []string{"socket", "manager"}
	trs := [][]string{{"websocket"}, {"polling"}}
	if run.Thorough() && !small {
		kinds = []int{oClosed, oReset, o503}
		trs = transportSets
	}
	i := 0
	for _, k := range kinds {
		for _, h := range hows {
			for _, tr := range trs {
				k, h, tr := k, h, tr
				n := 1 + i%3
				i++
				if small && i%2 == 0 {
					continue
				}
				out = append(out, task{weight: 20, f: func() { runUserRestart(run, k, h, tr, n) }})
			}
		}
	}
	return out
}
