#!/bin/bash
# MANIFEST.setup_cmd: builds the framework offline from files on disk only.
set -e
cd /verif
export GOFLAGS=-mod=mod GOPROXY=off GOSUMDB=off GOTOOLCHAIN=local
mkdir -p .work/bin evidence replays
go build -tags verif ./... 
echo "setup ok"
