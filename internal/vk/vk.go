// Package vk is the shared kit of the runtime-monitoring checks: run configuration
// (tier, seed), the violation / known-finding / inconclusive reporter and the
// evidence writer. It is the only writer of /verif/evidence/<id>.json.
package vk

import (
	"encoding/json"
	"flag"
	"fmt"
	"hash/fnv"
	"math"
	"math/rand"
	"os"
	"os/exec"
	"path/filepath"
	"runtime"
	"sort"
	"strconv"
	"strings"
	"sync"
	"sync/atomic"
	"time"
)

// Root is /verif; $VERIF_ROOT moves it for isolated evaluations of seeded changes (tools/mutant_iso.py), which run a
// copy of the framework against a scratch worktree of the repository so that /repo itself stays untouched.
var Root = func() string {
	if r := os.Getenv("VERIF_ROOT"); r != "" {
		return r
	}
	return "/verif"
}()

type Violation struct {
	// Sub-check id, e.g. "wire-order" or "handler-order".
	Sub string
	// Fields available to known-finding predicates (all compared as strings).
	Fields map[string]any
	// One-line description.
	What string
	// Witness written to the replay file (input / history / schedule id / seed).
	Witness any
}

type knownFinding struct {
	Property string            `json:"property"`
	ID       string            `json:"id"`
	Match    map[string]string `json:"match"`
	What     string            `json:"what"`
}

type findingsFile struct {
	Known []knownFinding `json:"known"`
	Fixed []string       `json:"fixed"`
}

type Run struct {
	ID    string
	Level string
	tier  string
	seed  int64
	start time.Time

	// child mode: emit a summary JSON instead of the evidence file.
	SubMode string
	subOut  string

	mu            sync.Mutex
	evaluations   int64
	distinct      map[string]struct{}
	samples       []any
	maxSamples    int
	counters      map[string]int64
	notes         map[string]any
	rule          string
	exhaustive    *bool
	assumptions   []string
	violations    int
	inconclusive  int
	inconclNotes  []string
	knownHits     map[string]int
	knownPrinted  map[string]bool
	known         []knownFinding
	replayN       int
	violationMsgs []string
	classCount    map[string]int
}

var (
	flagTier   = flag.String("tier", "", "quick|thorough (default: $VERIF_TIER or quick)")
	flagSeed   = flag.Int64("seed", -1, "seed (default: $VERIF_SEED or 1)")
	flagSub    = flag.String("sub", "", "internal: child/sub mode")
	flagSubOut = flag.String("subout", "", "internal: where a child writes its summary")
	FlagReplay = flag.String("replay", "", "replay file")
)

// Start parses flags/env and returns the run context.
func Start(id, level string) *Run {
	if !flag.Parsed() {
		flag.Parse()
	}
	tier := *flagTier
	if tier == "" {
		tier = os.Getenv("VERIF_TIER")
	}
	if tier != "thorough" {
		tier = "quick"
	}
	seed := *flagSeed
	if seed < 0 {
		if s := os.Getenv("VERIF_SEED"); s != "" {
			if v, err := strconv.ParseInt(s, 10, 64); err == nil {
				seed = v
			}
		}
	}
	if seed < 0 {
		seed = 1
	}
	r := &Run{
		ID: id, Level: level, tier: tier, seed: seed, start: time.Now(),
		SubMode: *flagSub, subOut: *flagSubOut,
		distinct: map[string]struct{}{}, counters: map[string]int64{}, notes: map[string]any{},
		knownHits: map[string]int{}, knownPrinted: map[string]bool{}, maxSamples: 12,
	}
	r.loadFindings()
	fmt.Printf("[%s] tier=%s seed=%d GOMAXPROCS=%d sub=%q\n", id, tier, seed, runtime.GOMAXPROCS(0), r.SubMode)
	go r.memGuard()
	return r
}

// MemGuardInfo, when set (a func() string), describes the inputs in flight; the memory guard puts it
// into the violation record.
var MemGuardInfo atomic.Value

// memGuard: the sandbox has no memory limit, and a hostile input that makes the code under test
// allocate from an attacker-controlled number takes the whole machine down (OOM killer) before any
// other monitor speaks. The guard watches the resident set of the check process and turns a blow-up
// into an ordinary violation with a replay file. Limit: $VERIF_MEM_LIMIT_GB (default 24), far above
// what any check needs on a healthy tree (the largest measured is a few GB under -race).
func (r *Run) memGuard() {
	limitGB := 24.0
	if s := os.Getenv("VERIF_MEM_LIMIT_GB"); s != "" {
		if v, err := strconv.ParseFloat(s, 64); err == nil && v > 0 {
			limitGB = v
		}
	}
	page := float64(os.Getpagesize())
	var peak float64
	for {
		time.Sleep(25 * time.Millisecond)
		b, err := os.ReadFile("/proc/self/statm")
		if err != nil {
			return
		}
		f := strings.Fields(string(b))
		if len(f) < 2 {
			return
		}
		pages, _ := strconv.ParseFloat(f[1], 64)
		gb := pages * page / (1 << 30)
		if gb > peak {
			peak = gb
			r.mu.Lock()
			r.notes["peak_rss_gb"] = math.Round(peak*100) / 100
			r.mu.Unlock()
		}
		if gb > limitGB {
			info := ""
			if f, ok := MemGuardInfo.Load().(func() string); ok && f != nil {
				info = f()
			}
			r.Violation(Violation{Sub: "memory-blowup", Fields: map[string]any{},
				What:    fmt.Sprintf("resident memory of the check process reached %.1f GB (guard %.0f GB): the code under test allocates without bound; in flight: %s", gb, limitGB, info),
				Witness: map[string]any{"rss_gb": gb, "in_flight": info}})
			r.Finish()
		}
	}
}

func (r *Run) loadFindings() {
	b, err := os.ReadFile(filepath.Join(Root, "known_findings.json"))
	if err != nil {
		return
	}
	var f findingsFile
	if err := json.Unmarshal(b, &f); err != nil {
		fmt.Printf("[%s] WARNING: known_findings.json unreadable: %v\n", r.ID, err)
		return
	}
	for _, k := range f.Known {
		if k.Property == r.ID {
			r.known = append(r.known, k)
		}
	}
}

func (r *Run) Tier() string   { return r.tier }
func (r *Run) Quick() bool    { return r.tier == "quick" }
func (r *Run) Thorough() bool { return r.tier == "thorough" }
func (r *Run) Seed() int64    { return r.seed }
func (r *Run) Pick(q, t int) int {
	if r.Quick() {
		return q
	}
	return t
}

// Rand returns a PRNG determined by the run seed and a sub-stream label.
func (r *Run) Rand(label string) *rand.Rand {
	h := fnv.New64a()
	h.Write([]byte(label))
	return rand.New(rand.NewSource(r.seed*1000003 ^ int64(h.Sum64())))
}

func (r *Run) Eval(n int) {
	r.mu.Lock()
	r.evaluations += int64(n)
	r.mu.Unlock()
}

// Distinct records the signature of a non-trivial case (counted once).
func (r *Run) Distinct(sig string) {
	r.mu.Lock()
	r.distinct[sig] = struct{}{}
	r.mu.Unlock()
}

func (r *Run) DistinctCount() int {
	r.mu.Lock()
	defer r.mu.Unlock()
	return len(r.distinct)
}

// Sample keeps an actual case for the evidence file (bounded).
func (r *Run) Sample(v any) {
	r.mu.Lock()
	if len(r.samples) < r.maxSamples {
		r.samples = append(r.samples, v)
	}
	r.mu.Unlock()
}

func (r *Run) Count(name string, n int64) {
	r.mu.Lock()
	r.counters[name] += n
	r.mu.Unlock()
}

func (r *Run) Counter(name string) int64 {
	r.mu.Lock()
	defer r.mu.Unlock()
	return r.counters[name]
}

func (r *Run) Note(k string, v any) {
	r.mu.Lock()
	r.notes[k] = v
	r.mu.Unlock()
}

func (r *Run) Rule(s string)     { r.mu.Lock(); r.rule = s; r.mu.Unlock() }
func (r *Run) Exhaustive(b bool) { r.mu.Lock(); r.exhaustive = &b; r.mu.Unlock() }
func (r *Run) Assume(s ...string) {
	r.mu.Lock()
	r.assumptions = append(r.assumptions, s...)
	r.mu.Unlock()
}
func (r *Run) Violations() int         { r.mu.Lock(); defer r.mu.Unlock(); return r.violations }
func (r *Run) Logf(f string, a ...any) { fmt.Printf("[%s] "+f+"\n", append([]any{r.ID}, a...)...) }

// Inconclusive records a case that could not be decided (watchdog, canary, hook not reached).
func (r *Run) Inconclusive(what string) {
	r.mu.Lock()
	r.inconclusive++
	if len(r.inconclNotes) < 20 {
		r.inconclNotes = append(r.inconclNotes, what)
	}
	r.mu.Unlock()
	fmt.Printf("[%s] INCONCLUSIVE: %s\n", r.ID, what)
}

func matchFinding(k knownFinding, v *Violation) bool {
	for key, want := range k.Match {
		var got string
		if key == "sub" {
			got = v.Sub
		} else {
			x, ok := v.Fields[key]
			if !ok {
				return false
			}
			got = fmt.Sprint(x)
		}
		if strings.HasPrefix(want, "~") { // substring match
			if !strings.Contains(got, want[1:]) {
				return false
			}
		} else if got != want {
			return false
		}
	}
	return true
}

// Violation reports a refuting observation. It is matched against the committed
// known-findings file; unmatched violations print the VIOLATION line and make
// the run exit 1. Returns true if it was a (new) violation.
func (r *Run) Violation(v Violation) bool {
	r.mu.Lock()
	defer r.mu.Unlock()
	for _, k := range r.known {
		if matchFinding(k, &v) {
			r.knownHits[k.ID]++
			if !r.knownPrinted[k.ID] {
				r.knownPrinted[k.ID] = true
				fmt.Printf("KNOWN-FINDING: property=%s %s [%s] (first witness: %s)\n", r.ID, k.What, k.ID, v.What)
			}
			return false
		}
	}
	r.violations++
	if r.classCount == nil {
		r.classCount = map[string]int{}
	}
	cls := v.Sub + " " + fieldSig(v.Fields)
	r.classCount[cls]++
	if r.classCount[cls] > 3 {
		return true // same class already witnessed 3 times: count only
	}
	r.replayN++
	dir := filepath.Join(Root, "replays", r.ID)
	os.MkdirAll(dir, 0o755)
	name := fmt.Sprintf("%s-%s-seed%d-%03d.json", r.tier, sanitize(v.Sub), r.seed, r.replayN)
	path := filepath.Join(dir, name)
	rec := map[string]any{
		"property": r.ID, "sub": v.Sub, "fields": v.Fields, "what": v.What,
		"witness": v.Witness, "seed": r.seed, "tier": r.tier,
	}
	b, err := json.MarshalIndent(rec, "", " ")
	if err != nil {
		b = []byte(fmt.Sprintf("{\"property\":%q,\"sub\":%q,\"what\":%q,\"witness_unmarshalable\":%q}", r.ID, v.Sub, v.What, fmt.Sprintf("%+v", v.Witness)))
	}
	if r.replayN <= 50 {
		os.WriteFile(path, b, 0o644)
	}
	if len(r.violationMsgs) < 50 {
		r.violationMsgs = append(r.violationMsgs, v.Sub+": "+v.What)
		fmt.Printf("[%s] violation sub=%s fields=%v: %s\n", r.ID, v.Sub, v.Fields, v.What)
		fmt.Printf("VIOLATION property=%s replay=%s\n", r.ID, path)
	}
	return true
}

func fieldSig(f map[string]any) string {
	keys := make([]string, 0, len(f))
	for k := range f {
		keys = append(keys, k)
	}
	sort.Strings(keys)
	var b strings.Builder
	for _, k := range keys {
		fmt.Fprintf(&b, "%s=%v ", k, f[k])
	}
	return b.String()
}

func sanitize(s string) string {
	var b strings.Builder
	for _, c := range s {
		if c >= 'a' && c <= 'z' || c >= 'A' && c <= 'Z' || c >= '0' && c <= '9' || c == '-' || c == '_' {
			b.WriteRune(c)
		} else {
			b.WriteByte('_')
		}
	}
	if b.Len() == 0 {
		return "v"
	}
	return b.String()
}

// Summary is what a child/sub run hands back to its parent.
type Summary struct {
	Evaluations  int64            `json:"evaluations"`
	Distinct     []string         `json:"distinct"`
	Samples      []any            `json:"samples"`
	Counters     map[string]int64 `json:"counters"`
	Violations   int              `json:"violations"`
	Inconclusive int              `json:"inconclusive"`
	KnownHits    map[string]int   `json:"known_hits"`
	Messages     []string         `json:"messages"`
}

// Merge folds the summary of a child run into this run (counters are prefixed).
func (r *Run) Merge(prefix string, s *Summary) {
	r.mu.Lock()
	defer r.mu.Unlock()
	r.evaluations += s.Evaluations
	for _, d := range s.Distinct {
		r.distinct[prefix+d] = struct{}{}
	}
	for _, x := range s.Samples {
		if len(r.samples) < r.maxSamples+4 {
			r.samples = append(r.samples, x)
		}
	}
	for k, v := range s.Counters {
		r.counters[prefix+k] += v
	}
	r.violations += s.Violations
	r.inconclusive += s.Inconclusive
	for k, v := range s.KnownHits {
		r.knownHits[k] += v
		r.knownPrinted[k] = true
	}
}

// Finish writes the evidence file (or the child summary) and exits.
func (r *Run) Finish() {
	r.mu.Lock()
	wall := time.Since(r.start).Seconds()
	dl := make([]string, 0, len(r.distinct))
	for d := range r.distinct {
		dl = append(dl, d)
	}
	sort.Strings(dl)
	if r.SubMode != "" && r.subOut != "" {
		s := Summary{Evaluations: r.evaluations, Distinct: dl, Samples: r.samples, Counters: r.counters,
			Violations: r.violations, Inconclusive: r.inconclusive, KnownHits: r.knownHits, Messages: r.violationMsgs}
		b, _ := json.Marshal(&s)
		os.WriteFile(r.subOut, b, 0o644)
		viol := r.violations
		r.mu.Unlock()
		if viol > 0 {
			os.Exit(1)
		}
		os.Exit(0)
	}
	cov := map[string]any{
		"evaluations":         r.evaluations,
		"distinct_nontrivial": len(dl),
		"rule":                r.rule,
		"samples":             r.samples,
		"counters":            r.counters,
		"inconclusive":        r.inconclusive,
	}
	if len(r.inconclNotes) > 0 {
		cov["inconclusive_notes"] = r.inconclNotes
	}
	if r.exhaustive != nil {
		cov["exhaustive"] = *r.exhaustive
	}
	if len(r.knownHits) > 0 {
		cov["known_findings_observed"] = r.knownHits
	}
	if len(r.violationMsgs) > 0 {
		cov["violation_messages"] = r.violationMsgs
		cov["violation_classes"] = r.classCount
	}
	for cls, n := range r.classCount {
		fmt.Printf("[%s] violation class (%d x): %s\n", r.ID, n, cls)
	}
	for k, v := range r.notes {
		cov[k] = v
	}
	if len(r.samples) == 0 {
		cov["samples"] = []any{}
	}
	ev := map[string]any{
		"property_id": r.ID,
		"tier":        r.tier,
		"seed":        r.seed,
		"level":       r.Level,
		"coverage":    cov,
		"assumptions": r.assumptions,
		"wall_s":      wall,
		"violations":  r.violations,
	}
	viol := r.violations
	incl := r.inconclusive
	evals := r.evaluations
	r.mu.Unlock()

	os.MkdirAll(filepath.Join(Root, "evidence"), 0o755)
	b, err := json.MarshalIndent(ev, "", " ")
	if err != nil {
		fmt.Printf("[%s] cannot marshal evidence: %v\n", r.ID, err)
		os.Exit(2)
	}
	if err := os.WriteFile(filepath.Join(Root, "evidence", r.ID+".json"), b, 0o644); err != nil {
		fmt.Printf("[%s] cannot write evidence: %v\n", r.ID, err)
		os.Exit(2)
	}
	fmt.Printf("[%s] done: evaluations=%d distinct=%d violations=%d inconclusive=%d wall=%.1fs\n",
		r.ID, evals, len(dl), viol, incl, wall)
	if viol > 0 {
		os.Exit(1)
	}
	os.Exit(0)
}

// Watchdog runs f and reports whether it finished within d.
func Watchdog(d time.Duration, f func()) bool {
	done := make(chan struct{})
	go func() { defer close(done); f() }()
	select {
	case <-done:
		return true
	case <-time.After(d):
		return false
	}
}

// WaitUntil polls cond until it holds or d elapses.
func WaitUntil(d time.Duration, cond func() bool) bool {
	deadline := time.Now().Add(d)
	sleep := 200 * time.Microsecond
	for {
		if cond() {
			return true
		}
		if time.Now().After(deadline) {
			return cond()
		}
		time.Sleep(sleep)
		if sleep < 20*time.Millisecond {
			sleep *= 2
		}
	}
}

// DumpGoroutines writes all goroutine stacks to a file under .work and returns its path.
func DumpGoroutines(tag string) string {
	buf := make([]byte, 16<<20)
	n := runtime.Stack(buf, true)
	os.MkdirAll(filepath.Join(Root, ".work"), 0o755)
	p := filepath.Join(Root, ".work", fmt.Sprintf("stacks-%s-%d.txt", sanitize(tag), os.Getpid()))
	os.WriteFile(p, buf[:n], 0o644)
	return p
}

func Getenv(k string) string { return os.Getenv(k) }

// RunSub runs a sibling build of the same check (e.g. the -race build) as a sub-pass
// and returns its summary. Race-detector reports are collected in .work and counted.
func RunSub(bin, sub string, r *Run, timeout time.Duration) (*Summary, error) {
	work := filepath.Join(Root, ".work")
	os.MkdirAll(work, 0o755)
	out := filepath.Join(work, fmt.Sprintf("sub-%s-%s-%d.json", r.ID, sub, os.Getpid()))
	raceLog := filepath.Join(work, fmt.Sprintf("race-%s-%d", r.ID, os.Getpid()))
	os.Remove(out)
	cmd := osexec(bin, "-tier", r.tier, "-seed", strconv.FormatInt(r.seed, 10), "-sub", sub, "-subout", out)
	cmd.Env = append(os.Environ(), "GORACE=halt_on_error=0 log_path="+raceLog)
	cmd.Stdout = os.Stdout
	cmd.Stderr = os.Stdout
	if err := cmd.Start(); err != nil {
		return nil, err
	}
	done := make(chan error, 1)
	go func() { done <- cmd.Wait() }()
	select {
	case <-done:
	case <-time.After(timeout):
		cmd.Process.Kill()
		<-done
		return nil, fmt.Errorf("sub-pass %s timed out after %v", sub, timeout)
	}
	b, err := os.ReadFile(out)
	if err != nil {
		return nil, fmt.Errorf("sub-pass %s left no summary: %w", sub, err)
	}
	var s Summary
	if err := json.Unmarshal(b, &s); err != nil {
		return nil, err
	}
	os.Remove(out)
	// count race reports
	matches, _ := filepath.Glob(raceLog + ".*")
	races, repoRaces := 0, 0
	for _, m := range matches {
		data, _ := os.ReadFile(m)
		for _, blk := range strings.Split(string(data), "==================") {
			if strings.Contains(blk, "WARNING: DATA RACE") {
				races++
				if strings.Contains(blk, "github.com/karagenc/socket.io-go") {
					repoRaces++
				}
			}
		}
	}
	if s.Counters == nil {
		s.Counters = map[string]int64{}
	}
	s.Counters["race_reports"] = int64(races)
	s.Counters["race_reports_with_repo_frames"] = int64(repoRaces)
	if repoRaces > 0 {
		fmt.Printf("[%s] NOTE: %d race report(s) with repository frames in the race sub-pass (logs %s.*); races are decided by C16\n", r.ID, repoRaces, raceLog)
	}
	return &s, nil
}

func osexec(bin string, args ...string) *exec.Cmd { return exec.Command(bin, args...) }

// ReadSummary reads the summary a child/sub run wrote with -subout.
func ReadSummary(path string) (*Summary, error) {
	b, err := os.ReadFile(path)
	if err != nil {
		return nil, err
	}
	var s Summary
	if err := json.Unmarshal(b, &s); err != nil {
		return nil, err
	}
	os.Remove(path)
	return &s, nil
}
