// Package rig starts real socket.io-go / engine.io servers on their own loopback
// listeners (so they can be killed and restarted) and builds Go clients against them.
package rig

import (
	"context"
	"fmt"
	"net"
	"net/http"
	"sioverif/internal/portlock"
	"sync"
	"time"

	sio "github.com/karagenc/socket.io-go"
	eio "github.com/karagenc/socket.io-go/engine.io"
	"nhooyr.io/websocket"
)

// Server is a real Socket.IO server behind its own listener.
type Server struct {
	IO   *sio.Server
	HTTP *http.Server
	L    net.Listener
	Addr string
	// URL is what Go clients and raw peers dial: http://127.0.0.1:port/socket.io/
	URL string

	once sync.Once
}

// NewServer starts a server. addr "" picks a free loopback port.
func NewServer(cfg *sio.ServerConfig, addr string) (*Server, error) {
	if cfg == nil {
		cfg = new(sio.ServerConfig)
	}
	if cfg.EIO.WebSocketAcceptOptions == nil {
		cfg.EIO.WebSocketAcceptOptions = &websocket.AcceptOptions{CompressionMode: websocket.CompressionDisabled}
	}
	io := sio.NewServer(cfg)
	if err := io.Run(); err != nil {
		return nil, err
	}
	return Serve(io, io, addr)
}

// Serve puts an already built handler behind a listener.
func Serve(io *sio.Server, h http.Handler, addr string) (*Server, error) {
	if addr == "" {
		addr = "127.0.0.1:0"
	}
	var l net.Listener
	var err error
	for i := 0; i < 50; i++ {
		l, err = portlock.Listen(addr)
		if err == nil {
			break
		}
		time.Sleep(20 * time.Millisecond)
	}
	if err != nil {
		return nil, err
	}
	releaseHold(l.Addr().String())
	mux := http.NewServeMux()
	mux.Handle("/socket.io/", h)
	s := &Server{IO: io, L: l, Addr: l.Addr().String()}
	s.URL = "http://" + s.Addr + "/socket.io/"
	s.HTTP = &http.Server{Handler: mux}
	go s.HTTP.Serve(l)
	return s, nil
}

// Close shuts the Socket.IO server down, then the listener and all connections.
func (s *Server) Close() {
	s.once.Do(func() {
		if s.IO != nil {
			s.IO.Close()
		}
		s.HTTP.Close()
	})
}

var (
	holdMu sync.Mutex
	holds  = map[string]func(){}
)

func releaseHold(addr string) {
	holdMu.Lock()
	rel := holds[addr]
	delete(holds, addr)
	holdMu.Unlock()
	if rel != nil {
		rel()
	}
}

// Kill closes listener and connections without telling the Socket.IO layer first. The port stays
// reserved (connections are refused, nobody else is handed the port) until a server is started on
// the same address again or ReleasePort is called: trials run in parallel.
func (s *Server) Kill() {
	s.once.Do(func() {
		if rel, err := portlock.Hold(s.Addr); err == nil {
			holdMu.Lock()
			old := holds[s.Addr]
			holds[s.Addr] = rel
			holdMu.Unlock()
			if old != nil {
				old()
			}
		}
		s.HTTP.Close()
		if s.IO != nil {
			go s.IO.Close()
		}
	})
}

// ReleasePort gives up the reservation Kill left on addr (no-op without one).
func ReleasePort(addr string) { releaseHold(addr) }

// EIOServer is a real Engine.IO server behind its own listener.
type EIOServer struct {
	EIO  *eio.Server
	HTTP *http.Server
	Addr string
	URL  string
	once sync.Once
}

func NewEIOServer(onSocket eio.NewSocketCallback, cfg *eio.ServerConfig) (*EIOServer, error) {
	if cfg == nil {
		cfg = new(eio.ServerConfig)
	}
	if cfg.WebSocketAcceptOptions == nil {
		cfg.WebSocketAcceptOptions = &websocket.AcceptOptions{CompressionMode: websocket.CompressionDisabled}
	}
	srv := eio.NewServer(onSocket, cfg)
	if err := srv.Run(); err != nil {
		return nil, err
	}
	l, err := net.Listen("tcp", "127.0.0.1:0")
	if err != nil {
		return nil, err
	}
	mux := http.NewServeMux()
	mux.Handle("/engine.io/", srv)
	s := &EIOServer{EIO: srv, Addr: l.Addr().String()}
	s.URL = "http://" + s.Addr + "/engine.io/"
	s.HTTP = &http.Server{Handler: mux}
	go s.HTTP.Serve(l)
	return s, nil
}

func (s *EIOServer) Close() {
	s.once.Do(func() {
		s.EIO.Close()
		ctx, cancel := context.WithTimeout(context.Background(), time.Second)
		defer cancel()
		s.HTTP.Shutdown(ctx)
		s.HTTP.Close()
	})
}

// ManagerConfig returns a manager config with compression off and the given transports.
func ManagerConfig(transports ...string) *sio.ManagerConfig {
	cfg := &sio.ManagerConfig{}
	cfg.EIO.WebSocketDialOptions = &websocket.DialOptions{CompressionMode: websocket.CompressionDisabled}
	if len(transports) > 0 {
		cfg.EIO.Transports = transports
	} else {
		cfg.EIO.Transports = []string{"polling", "websocket"}
	}
	return cfg
}

func Dur(d time.Duration) *time.Duration { return &d }

func F32(f float32) *float32 { return &f }

// Describe renders a short config description for evidence.
func Describe(transports []string, recovery bool) string {
	return fmt.Sprintf("transports=%v recovery=%v", transports, recovery)
}

// ListenLoopback returns a listener on a free loopback port.
func ListenLoopback() (net.Listener, error) { return net.Listen("tcp", "127.0.0.1:0") }
