// Package e2e builds sio<->sio worlds: a real server on its own listener and N real Go
// clients, with recorders on every lifecycle callback so that a no-fault run can treat
// any disconnect / error callback as an observation.
package e2e

import (
	"encoding/json"
	"fmt"
	"sync"
	"sync/atomic"
	"time"

	sio "github.com/karagenc/socket.io-go"

	"sioverif/internal/proxy"
	"sioverif/internal/rig"
)

type Config struct {
	Transports []string // client transports, e.g. {"polling"}, {"websocket"}, {"polling","websocket"}
	Recovery   bool
	Clients    int
	Nsp        string // default "/"
	// Optional hooks to adjust configs.
	ServerCfg  func(*sio.ServerConfig)
	ManagerCfg func(idx int, cfg *sio.ManagerConfig)
	SocketCfg  func(idx int) *sio.ClientSocketConfig
	// Called for every server socket as soon as its connection handler runs (before it is published).
	OnServerSocket func(idx int, ss sio.ServerSocket)
	// Called for every client socket before Connect().
	OnClientSocket func(idx int, cs sio.ClientSocket)
	// OnWorld is called as soon as the client slots exist (before any connection is made).
	OnWorld func(w *World)
	// SlowUpgrade > 0 puts a TCP proxy in front of the server that delays every chunk of the
	// WebSocket upgrade connection by this much, so that traffic keeps flowing through the swap.
	SlowUpgrade time.Duration
	// SlowPolling > 0 delays every chunk of the non-WebSocket (long-polling) connections instead, so that
	// the poll response in flight at the swap arrives after the new transport is already carrying traffic.
	SlowPolling time.Duration
	// WaitUpgrade waits until every client reports the transport upgrade done (only when transports = polling+websocket).
	WaitUpgrade bool
	NoReconnect bool
}

type Fault struct {
	At   time.Time
	Who  string
	What string
}

type Client struct {
	Idx      int
	M        *sio.Manager
	S        sio.ClientSocket
	upgraded atomic.Bool

	mu sync.Mutex
	ss sio.ServerSocket
}

// SS returns the server-side socket of this client (latest connection).
func (c *Client) SS() sio.ServerSocket {
	c.mu.Lock()
	defer c.mu.Unlock()
	return c.ss
}

func (c *Client) Upgraded() bool { return c.upgraded.Load() }

type World struct {
	Cfg     Config
	Proxy   *proxy.Proxy
	Srv     *rig.Server
	Clients []*Client

	mu       sync.Mutex
	faults   []Fault
	expected atomic.Bool // teardown in progress: lifecycle callbacks are expected
}

func (w *World) fault(who, what string) {
	if w.expected.Load() {
		return
	}
	w.mu.Lock()
	w.faults = append(w.faults, Fault{At: time.Now(), Who: who, What: what})
	w.mu.Unlock()
}

// Faults returns the unexpected lifecycle callbacks observed so far.
func (w *World) Faults() []Fault {
	w.mu.Lock()
	defer w.mu.Unlock()
	return append([]Fault(nil), w.faults...)
}

// ExpectLifecycle tells the world that disconnects/errors are expected from now on.
func (w *World) ExpectLifecycle() { w.expected.Store(true) }

func New(cfg Config) (*World, error) {
	if cfg.Nsp == "" {
		cfg.Nsp = "/"
	}
	if cfg.Clients == 0 {
		cfg.Clients = 1
	}
	w := &World{Cfg: cfg}
	scfg := &sio.ServerConfig{}
	scfg.ServerConnectionStateRecovery.Enabled = cfg.Recovery
	if cfg.ServerCfg != nil {
		cfg.ServerCfg(scfg)
	}
	srv, err := rig.NewServer(scfg, "")
	if err != nil {
		return nil, err
	}
	w.Srv = srv
	url := srv.URL
	if cfg.SlowUpgrade > 0 || cfg.SlowPolling > 0 {
		px, err := proxy.New(srv.Addr)
		if err != nil {
			srv.Close()
			return nil, err
		}
		px.OnConn = func(c *proxy.Conn) {
			if c.IsWS() {
				if cfg.SlowPolling > 0 {
					// late-poll mode: only the websocket handshake is slow (the Socket.IO connection is
					// established meanwhile), the probe and the swap are fast, poll responses are late.
					c.SetDelayFirst(20*time.Millisecond, 2)
				} else {
					c.SetDelay(cfg.SlowUpgrade)
				}
			} else if cfg.SlowPolling > 0 {
				c.SetDirDelay(proxy.S2C, cfg.SlowPolling)
			}
		}
		w.Proxy = px
		url = px.URL("/socket.io/")
	}
	for i := 0; i < cfg.Clients; i++ {
		w.Clients = append(w.Clients, &Client{Idx: i})
	}
	if cfg.OnWorld != nil {
		cfg.OnWorld(w)
	}
	nsp := srv.IO.Of(cfg.Nsp)
	var idxBySID sync.Map
	nsp.Use(func(s sio.ServerSocket, h *sio.Handshake) any {
		var a struct {
			Idx *int `json:"idx"`
		}
		json.Unmarshal(h.Auth, &a)
		if a.Idx != nil {
			idxBySID.Store(s.ID(), *a.Idx)
		}
		return nil
	})
	connected := make(chan int, cfg.Clients*4)
	nsp.OnConnection(func(ss sio.ServerSocket) {
		v, ok := idxBySID.Load(ss.ID())
		if !ok {
			w.fault("server", "connection without idx auth")
			return
		}
		idx := v.(int)
		if idx < 0 || idx >= len(w.Clients) {
			return
		}
		ss.OnDisconnect(func(reason sio.Reason) { w.fault(fmt.Sprintf("server-socket[%d]", idx), "disconnect: "+string(reason)) })
		ss.OnError(func(err error) { w.fault(fmt.Sprintf("server-socket[%d]", idx), "error: "+err.Error()) })
		if cfg.OnServerSocket != nil {
			cfg.OnServerSocket(idx, ss)
		}
		c := w.Clients[idx]
		c.mu.Lock()
		c.ss = ss
		c.mu.Unlock()
		connected <- idx
	})

	clientConnected := make(chan int, cfg.Clients*4)
	for i, c := range w.Clients {
		i, c := i, c
		mcfg := rig.ManagerConfig(cfg.Transports...)
		mcfg.NoReconnection = cfg.NoReconnect
		mcfg.EIO.UpgradeDone = func(string) { c.upgraded.Store(true) }
		if cfg.ManagerCfg != nil {
			cfg.ManagerCfg(i, mcfg)
		}
		c.M = sio.NewManager(url, mcfg)
		who := fmt.Sprintf("client[%d]", i)
		c.M.OnError(func(err error) { w.fault(who+".manager", "error: "+err.Error()) })
		c.M.OnClose(func(reason sio.Reason, err error) { w.fault(who+".manager", fmt.Sprintf("close: %s %v", reason, err)) })
		c.M.OnReconnect(func(uint32) { w.fault(who+".manager", "reconnect") })
		var scfg *sio.ClientSocketConfig
		if cfg.SocketCfg != nil {
			scfg = cfg.SocketCfg(i)
		}
		c.S = c.M.Socket(cfg.Nsp, scfg)
		c.S.SetAuth(map[string]any{"idx": i})
		c.S.OnDisconnect(func(reason sio.Reason) { w.fault(who, "disconnect: "+string(reason)) })
		c.S.OnConnectError(func(err any) { w.fault(who, fmt.Sprintf("connect_error: %v", err)) })
		c.S.OnConnect(func() { clientConnected <- i })
		if cfg.OnClientSocket != nil {
			cfg.OnClientSocket(i, c.S)
		}
		c.S.Connect()
	}
	deadline := time.After(60 * time.Second)
	gotS, gotC := map[int]bool{}, map[int]bool{}
	for len(gotS) < cfg.Clients || len(gotC) < cfg.Clients {
		select {
		case i := <-connected:
			gotS[i] = true
		case i := <-clientConnected:
			gotC[i] = true
		case <-deadline:
			f := w.Faults()
			w.Close()
			return nil, fmt.Errorf("e2e: only %d/%d server-side and %d/%d client-side connects within 60 s (faults: %v)", len(gotS), cfg.Clients, len(gotC), cfg.Clients, f)
		}
	}
	if cfg.WaitUpgrade {
		dl := time.Now().Add(30 * time.Second)
		for _, c := range w.Clients {
			for !c.Upgraded() && time.Now().Before(dl) {
				time.Sleep(time.Millisecond)
			}
			if !c.Upgraded() {
				w.Close()
				return nil, fmt.Errorf("e2e: client %d did not finish its transport upgrade within 30 s", c.Idx)
			}
		}
	}
	return w, nil
}

// Close tears the world down.
func (w *World) Close() {
	w.ExpectLifecycle()
	for _, c := range w.Clients {
		if c.M != nil {
			c.M.Close()
		}
	}
	w.Srv.Close()
	if w.Proxy != nil {
		w.Proxy.Close()
	}
}
