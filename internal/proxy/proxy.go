// Package proxy is a programmable TCP fault proxy for loopback rigs: cut after byte k
// (either direction, per connection or over the whole session), black-hole (keep TCP
// open, forward nothing), stall and resume, refuse, added latency.
package proxy

import (
	"bytes"
	"net"
	"sync"
	"sync/atomic"
	"time"
)

const (
	C2S = 0
	S2C = 1
)

type Proxy struct {
	Addr   string
	target string
	l      net.Listener

	// OnConn is called once per accepted connection after the first client chunk was read
	// (Head holds it) and before it is forwarded.
	OnConn func(c *Conn)

	mu     sync.Mutex
	conns  []*Conn
	nextID int
	refuse atomic.Bool
	closed atomic.Bool

	// session-wide byte budgets (negative = unlimited)
	budget [2]atomic.Int64
	total  [2]atomic.Int64
	// defaults applied to new connections
	defBlackhole [2]atomic.Bool
	defStall     atomic.Bool
	defDelay     atomic.Int64
}

type Conn struct {
	ID   int
	Head []byte
	p    *Proxy
	cl   net.Conn
	sv   net.Conn

	mu        sync.Mutex
	cond      *sync.Cond
	stall     bool
	blackhole [2]bool
	cutAfter  [2]int64
	delay     time.Duration
	dirDelay  [2]time.Duration
	firstN    int // > 0: 'delay' applies only to the first firstN chunks
	closed    bool
	bytes     [2]int64
}

func New(target string) (*Proxy, error) {
	l, err := net.Listen("tcp", "127.0.0.1:0")
	if err != nil {
		return nil, err
	}
	p := &Proxy{Addr: l.Addr().String(), target: target, l: l}
	p.budget[0].Store(-1)
	p.budget[1].Store(-1)
	go p.accept()
	return p, nil
}

func (p *Proxy) URL(path string) string { return "http://" + p.Addr + path }

func (p *Proxy) accept() {
	for {
		c, err := p.l.Accept()
		if err != nil {
			return
		}
		if p.refuse.Load() {
			c.Close()
			continue
		}
		go p.handle(c)
	}
}

func (p *Proxy) handle(cl net.Conn) {
	sv, err := net.DialTimeout("tcp", p.target, 5*time.Second)
	if err != nil {
		cl.Close()
		return
	}
	c := &Conn{p: p, cl: cl, sv: sv, cutAfter: [2]int64{-1, -1}}
	c.cond = sync.NewCond(&c.mu)
	c.blackhole[0] = p.defBlackhole[0].Load()
	c.blackhole[1] = p.defBlackhole[1].Load()
	c.stall = p.defStall.Load()
	c.delay = time.Duration(p.defDelay.Load())
	p.mu.Lock()
	p.nextID++
	c.ID = p.nextID
	p.conns = append(p.conns, c)
	p.mu.Unlock()
	// first chunk (classification)
	buf := make([]byte, 32<<10)
	n, err := cl.Read(buf)
	if err != nil {
		c.Close()
		return
	}
	c.Head = append([]byte(nil), buf[:n]...)
	if p.OnConn != nil {
		p.OnConn(c)
	}
	go c.pump(S2C, sv, cl, nil)
	c.pump(C2S, cl, sv, buf[:n])
}

func (c *Conn) pump(dir int, from, to net.Conn, first []byte) {
	buf := make([]byte, 32<<10)
	for {
		var chunk []byte
		if first != nil {
			chunk, first = first, nil
		} else {
			n, err := from.Read(buf)
			if n == 0 && err != nil {
				c.Close()
				return
			}
			chunk = buf[:n]
		}
		for len(chunk) > 0 {
			c.mu.Lock()
			for c.stall && !c.closed {
				c.cond.Wait()
			}
			if c.closed {
				c.mu.Unlock()
				return
			}
			bh := c.blackhole[dir]
			cut := c.cutAfter[dir]
			delay := c.delay
			if c.firstN > 0 {
				c.firstN--
				if c.firstN == 0 {
					c.delay = 0
				}
			}
			delay += c.dirDelay[dir]
			sent := c.bytes[dir]
			c.mu.Unlock()
			if bh {
				break // drop the chunk
			}
			if delay > 0 {
				time.Sleep(delay)
			}
			n := len(chunk)
			final := false
			if cut >= 0 && sent+int64(n) >= cut {
				n = int(cut - sent)
				if n < 0 {
					n = 0
				}
				final = true
			}
			if b := c.p.budget[dir].Load(); b >= 0 {
				tot := c.p.total[dir].Load()
				if tot+int64(n) >= b {
					n = int(b - tot)
					if n < 0 {
						n = 0
					}
					final = true
				}
			}
			if n > 0 {
				if _, err := to.Write(chunk[:n]); err != nil {
					c.Close()
					return
				}
				c.mu.Lock()
				c.bytes[dir] += int64(n)
				c.mu.Unlock()
				c.p.total[dir].Add(int64(n))
			}
			if final {
				if c.p.budget[dir].Load() >= 0 && c.p.total[dir].Load() >= c.p.budget[dir].Load() {
					c.p.CutAll()
				}
				c.Close()
				return
			}
			chunk = chunk[n:]
		}
	}
}

// Close cuts this connection (both directions, TCP close).
func (c *Conn) Close() {
	c.mu.Lock()
	if c.closed {
		c.mu.Unlock()
		return
	}
	c.closed = true
	c.cond.Broadcast()
	c.mu.Unlock()
	c.cl.Close()
	c.sv.Close()
}

func (c *Conn) IsClosed() bool { c.mu.Lock(); defer c.mu.Unlock(); return c.closed }

func (c *Conn) IsWS() bool {
	return bytes.Contains(bytes.ToLower(c.Head), []byte("upgrade: websocket"))
}
func (c *Conn) IsPost() bool    { return bytes.HasPrefix(c.Head, []byte("POST ")) }
func (c *Conn) IsPollGet() bool { return bytes.HasPrefix(c.Head, []byte("GET ")) && !c.IsWS() }

// HasSID reports whether the first request carries a session id (i.e. is not a handshake).
func (c *Conn) HasSID() bool {
	i := bytes.Index(c.Head, []byte("\r\n"))
	if i < 0 {
		i = len(c.Head)
	}
	return bytes.Contains(c.Head[:i], []byte("sid="))
}

// CutAfter closes the connection once n bytes were forwarded in direction dir.
func (c *Conn) CutAfter(dir int, n int64) { c.mu.Lock(); c.cutAfter[dir] = n; c.mu.Unlock() }

// SetBlackhole drops everything in the given directions while keeping TCP open.
func (c *Conn) SetBlackhole(c2s, s2c bool) {
	c.mu.Lock()
	c.blackhole[C2S], c.blackhole[S2C] = c2s, s2c
	c.mu.Unlock()
}

// SetStall holds (true) or resumes (false) forwarding without losing bytes.
func (c *Conn) SetStall(on bool) { c.mu.Lock(); c.stall = on; c.cond.Broadcast(); c.mu.Unlock() }

func (c *Conn) SetDelay(d time.Duration) { c.mu.Lock(); c.delay = d; c.mu.Unlock() }

// SetDelayFirst delays only the first n chunks (both directions counted together) by d.
func (c *Conn) SetDelayFirst(d time.Duration, n int) {
	c.mu.Lock()
	c.delay, c.firstN = d, n
	c.mu.Unlock()
}

// SetDirDelay delays every chunk in one direction.
func (c *Conn) SetDirDelay(dir int, d time.Duration) { c.mu.Lock(); c.dirDelay[dir] = d; c.mu.Unlock() }

func (c *Conn) Bytes(dir int) int64 { c.mu.Lock(); defer c.mu.Unlock(); return c.bytes[dir] }

// Conns returns all connections seen so far.
func (p *Proxy) Conns() []*Conn {
	p.mu.Lock()
	defer p.mu.Unlock()
	return append([]*Conn(nil), p.conns...)
}

// BlackholeAll applies to all current and future connections.
func (p *Proxy) BlackholeAll(c2s, s2c bool) {
	p.defBlackhole[C2S].Store(c2s)
	p.defBlackhole[S2C].Store(s2c)
	for _, c := range p.Conns() {
		c.SetBlackhole(c2s, s2c)
	}
}

// StallAll holds or resumes all current and future connections.
func (p *Proxy) StallAll(on bool) {
	p.defStall.Store(on)
	for _, c := range p.Conns() {
		c.SetStall(on)
	}
}

func (p *Proxy) DelayAll(d time.Duration) {
	p.defDelay.Store(int64(d))
	for _, c := range p.Conns() {
		c.SetDelay(d)
	}
}

// CutAll closes every current connection.
func (p *Proxy) CutAll() {
	for _, c := range p.Conns() {
		c.Close()
	}
}

// RefuseNew makes the proxy close new connections at accept.
func (p *Proxy) RefuseNew(on bool) { p.refuse.Store(on) }

// SetBudget cuts the whole session once n bytes in total were forwarded in dir (-1 = off).
func (p *Proxy) SetBudget(dir int, n int64) { p.budget[dir].Store(n) }

func (p *Proxy) Total(dir int) int64 { return p.total[dir].Load() }

func (p *Proxy) Close() {
	if p.closed.Swap(true) {
		return
	}
	p.l.Close()
	p.CutAll()
}
