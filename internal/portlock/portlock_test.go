package portlock

import (
	"net"
	"testing"
	"time"
)

func TestHoldRefusesAndKeepsPort(t *testing.T) {
	l, err := Listen("127.0.0.1:0")
	if err != nil {
		t.Fatal(err)
	}
	addr := l.Addr().String()
	rel, err := Hold(addr)
	if err != nil {
		t.Fatal(err)
	}
	// listener still serves while held
	go func() {
		c, _ := l.Accept()
		if c != nil {
			c.Close()
		}
	}()
	c, err := net.DialTimeout("tcp", addr, time.Second)
	if err != nil {
		t.Fatal("dial while listening+held:", err)
	}
	c.Close()
	l.Close()
	// refused while only held
	if c, err := net.DialTimeout("tcp", addr, time.Second); err == nil {
		c.Close()
		t.Fatal("dial succeeded while down")
	} else {
		t.Log("down:", err)
	}
	// nobody else gets the port
	for i := 0; i < 30000; i++ {
		o, err := net.Listen("tcp", "127.0.0.1:0")
		if err != nil {
			t.Fatal(err)
		}
		if o.Addr().String() == addr {
			t.Fatal("port handed out while held")
		}
		o.Close()
	}
	if o, err := net.Listen("tcp", addr); err == nil {
		o.Close()
		t.Fatal("plain listen on the held port succeeded")
	}
	l2, err := Listen(addr)
	if err != nil {
		t.Fatal("re-listen:", err)
	}
	rel()
	rel()
	go func() {
		c, _ := l2.Accept()
		if c != nil {
			c.Close()
		}
	}()
	c, err = net.DialTimeout("tcp", addr, time.Second)
	if err != nil {
		t.Fatal("dial after re-listen:", err)
	}
	c.Close()
	l2.Close()
}
