// Package portlock keeps a loopback port reserved while the listener on it is deliberately down.
//
// Several checks simulate an outage by closing a listener and listening again later on the same
// address. With plain net.Listen the port is free in between, and a concurrently running trial
// that asks for "127.0.0.1:0" can be handed exactly that port: the client of one trial then talks
// to the server of another one (observed in C15 thorough: offline events "lost" / "duplicated").
//
// Listen opens the listener with SO_REUSEPORT; Hold binds a second SO_REUSEPORT socket to the same
// address WITHOUT listening. While only the held socket exists, connection attempts are refused
// (RST) exactly as with a closed port, but the kernel never hands the port to anybody else
// (automatic port selection ignores SO_REUSEPORT sharing). To come back: Listen again, then
// release the hold — no window in which the port is free.
package portlock

import (
	"context"
	"net"
	"syscall"
)

const soReusePort = 0xf

func control(network, address string, c syscall.RawConn) error {
	var serr error
	err := c.Control(func(fd uintptr) {
		serr = syscall.SetsockoptInt(int(fd), syscall.SOL_SOCKET, syscall.SO_REUSEADDR, 1)
		if serr == nil {
			serr = syscall.SetsockoptInt(int(fd), syscall.SOL_SOCKET, soReusePort, 1)
		}
	})
	if err != nil {
		return err
	}
	return serr
}

// Listen is net.Listen("tcp", addr) with SO_REUSEPORT, so that Hold can coexist with it.
func Listen(addr string) (net.Listener, error) {
	lc := net.ListenConfig{Control: control}
	return lc.Listen(context.Background(), "tcp", addr)
}

// Hold binds a non-listening socket to addr. The returned function releases it (idempotent).
func Hold(addr string) (release func(), err error) {
	ta, err := net.ResolveTCPAddr("tcp", addr)
	if err != nil {
		return nil, err
	}
	fd, err := syscall.Socket(syscall.AF_INET, syscall.SOCK_STREAM|syscall.SOCK_CLOEXEC, 0)
	if err != nil {
		return nil, err
	}
	// SO_REUSEPORT only (no SO_REUSEADDR): a plain net.Listen on the held address fails with EADDRINUSE
	if err := syscall.SetsockoptInt(fd, syscall.SOL_SOCKET, soReusePort, 1); err != nil {
		syscall.Close(fd)
		return nil, err
	}
	sa := &syscall.SockaddrInet4{Port: ta.Port}
	copy(sa.Addr[:], ta.IP.To4())
	if err := syscall.Bind(fd, sa); err != nil {
		syscall.Close(fd)
		return nil, err
	}
	done := false
	return func() {
		if !done {
			done = true
			syscall.Close(fd)
		}
	}, nil
}
