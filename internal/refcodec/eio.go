package refcodec

import (
	"bytes"
	"encoding/base64"
	"encoding/binary"
	"errors"
	"fmt"
)

// Engine.IO v4 packet types.
const (
	EOpen = iota
	EClose
	EPing
	EPong
	EMessage
	EUpgrade
	ENoop
)

// EPacket is an Engine.IO packet in reference form.
type EPacket struct {
	Type   int
	Binary bool // only for messages
	Data   []byte
}

func (p EPacket) String() string {
	d := p.Data
	if len(d) > 40 {
		d = d[:40]
	}
	return fmt.Sprintf("{t=%d bin=%v len=%d %q}", p.Type, p.Binary, len(p.Data), d)
}

// EncodeEIO encodes a single packet. supportsBinary selects raw bytes vs "b"+base64
// for binary messages.
func EncodeEIO(p EPacket, supportsBinary bool) []byte {
	if p.Binary {
		if supportsBinary {
			return append([]byte(nil), p.Data...)
		}
		out := make([]byte, 1+base64.StdEncoding.EncodedLen(len(p.Data)))
		out[0] = 'b'
		base64.StdEncoding.Encode(out[1:], p.Data)
		return out
	}
	out := make([]byte, 0, 1+len(p.Data))
	out = append(out, byte('0'+p.Type))
	out = append(out, p.Data...)
	return out
}

var ErrEIO = errors.New("refcodec: invalid engine.io packet")

// DecodeEIO decodes a single packet. binaryFrame tells that the frame was a
// binary websocket/webtransport frame.
func DecodeEIO(b []byte, binaryFrame bool) (EPacket, error) {
	if binaryFrame {
		return EPacket{Type: EMessage, Binary: true, Data: append([]byte(nil), b...)}, nil
	}
	if len(b) == 0 {
		return EPacket{}, ErrEIO
	}
	if b[0] == 'b' {
		d, err := base64.StdEncoding.DecodeString(string(b[1:]))
		if err != nil {
			return EPacket{}, fmt.Errorf("%w: %v", ErrEIO, err)
		}
		return EPacket{Type: EMessage, Binary: true, Data: d}, nil
	}
	if b[0] < '0' || b[0] > '6' {
		return EPacket{}, ErrEIO
	}
	return EPacket{Type: int(b[0] - '0'), Data: append([]byte(nil), b[1:]...)}, nil
}

// EncodePayload joins packets with the 0x1e record separator (long-polling form).
func EncodePayload(ps []EPacket) []byte {
	var b bytes.Buffer
	for i, p := range ps {
		if i > 0 {
			b.WriteByte(0x1e)
		}
		b.Write(EncodeEIO(p, false))
	}
	return b.Bytes()
}

// DecodePayload splits and decodes a long-polling payload.
func DecodePayload(b []byte) ([]EPacket, error) {
	var out []EPacket
	for _, part := range bytes.Split(b, []byte{0x1e}) {
		p, err := DecodeEIO(part, false)
		if err != nil {
			return nil, err
		}
		out = append(out, p)
	}
	return out, nil
}

// EncodeWT produces the WebTransport frame: header (binary flag | length form) + body.
func EncodeWT(p EPacket) []byte {
	body := EncodeEIO(p, true)
	n := len(body)
	var h []byte
	switch {
	case n < 126:
		h = []byte{byte(n)}
	case n < 65536:
		h = make([]byte, 3)
		h[0] = 126
		binary.BigEndian.PutUint16(h[1:], uint16(n))
	default:
		h = make([]byte, 9)
		h[0] = 127
		binary.BigEndian.PutUint64(h[1:], uint64(n))
	}
	if p.Binary {
		h[0] |= 0x80
	}
	return append(h, body...)
}

// DecodeWT decodes one WebTransport frame from b and returns the remaining bytes.
func DecodeWT(b []byte) (EPacket, []byte, error) {
	if len(b) < 1 {
		return EPacket{}, nil, ErrEIO
	}
	isBin := b[0]&0x80 != 0
	n := uint64(b[0] & 0x7f)
	b = b[1:]
	switch n {
	case 126:
		if len(b) < 2 {
			return EPacket{}, nil, ErrEIO
		}
		n = uint64(binary.BigEndian.Uint16(b))
		b = b[2:]
	case 127:
		if len(b) < 8 {
			return EPacket{}, nil, ErrEIO
		}
		n = binary.BigEndian.Uint64(b)
		b = b[8:]
	}
	if uint64(len(b)) < n {
		return EPacket{}, nil, ErrEIO
	}
	p, err := DecodeEIO(b[:n], isBin)
	return p, b[n:], err
}
