// Package refcodec is an independent reference implementation of the Socket.IO v5
// packet format and of the Engine.IO v4 framings, written from the protocol
// documents. It does not import anything from the repository under test.
package refcodec

import (
	"bytes"
	"encoding/json"
	"errors"
	"fmt"
	"sort"
	"strconv"
	"strings"
)

// Socket.IO packet types.
const (
	Connect = iota
	Disconnect
	Event
	Ack
	ConnectError
	BinaryEvent
	BinaryAck
)

// Bin is a binary leaf in a canonical value tree.
type Bin []byte

// Packet is a decoded Socket.IO packet in canonical form.
// Data is nil (no payload) or a tree of: nil(JSON null is NullT{}), bool, json.Number,
// string, []any, map[string]any, Bin.
type Packet struct {
	Type        int
	Namespace   string // "/" when omitted
	ID          *uint64
	Attachments int // as announced in the header (binary types)
	HasData     bool
	Data        any
}

// Null represents JSON null inside canonical trees (so that "absent" and "null" differ).
type Null struct{}

// ---------- encoding (reference) ----------

// EncodeSIO produces the frames the v5 protocol prescribes for p: one text frame
// followed by the binary attachments in placeholder order. Binary leaves are
// numbered in depth-first order, map keys sorted.
func EncodeSIO(p *Packet) ([][]byte, error) {
	var atts [][]byte
	var js []byte
	if p.HasData {
		t := replaceBins(p.Data, &atts)
		var err error
		js, err = marshalCanon(t)
		if err != nil {
			return nil, err
		}
	}
	typ := p.Type
	if len(atts) > 0 {
		switch typ {
		case Event:
			typ = BinaryEvent
		case Ack:
			typ = BinaryAck
		}
	}
	var b bytes.Buffer
	b.WriteByte(byte('0' + typ))
	if typ == BinaryEvent || typ == BinaryAck {
		b.WriteString(strconv.Itoa(len(atts)))
		b.WriteByte('-')
	}
	if p.Namespace != "" && p.Namespace != "/" {
		b.WriteString(p.Namespace)
		b.WriteByte(',')
	}
	if p.ID != nil {
		b.WriteString(strconv.FormatUint(*p.ID, 10))
	}
	b.Write(js)
	frames := [][]byte{b.Bytes()}
	frames = append(frames, atts...)
	return frames, nil
}

func replaceBins(v any, atts *[][]byte) any {
	switch x := v.(type) {
	case Bin:
		n := len(*atts)
		*atts = append(*atts, []byte(x))
		return map[string]any{"_placeholder": true, "num": json.Number(strconv.Itoa(n))}
	case []any:
		out := make([]any, len(x))
		for i := range x {
			out[i] = replaceBins(x[i], atts)
		}
		return out
	case map[string]any:
		keys := make([]string, 0, len(x))
		for k := range x {
			keys = append(keys, k)
		}
		sort.Strings(keys)
		out := make(map[string]any, len(x))
		for _, k := range keys {
			out[k] = replaceBins(x[k], atts)
		}
		return out
	}
	return v
}

func marshalCanon(v any) ([]byte, error) {
	var b bytes.Buffer
	if err := writeCanon(&b, v); err != nil {
		return nil, err
	}
	return b.Bytes(), nil
}

func writeCanon(b *bytes.Buffer, v any) error {
	switch x := v.(type) {
	case nil, Null:
		b.WriteString("null")
	case bool:
		if x {
			b.WriteString("true")
		} else {
			b.WriteString("false")
		}
	case json.Number:
		b.WriteString(string(x))
	case float64:
		b.WriteString(strconv.FormatFloat(x, 'g', -1, 64))
	case int:
		b.WriteString(strconv.Itoa(x))
	case string:
		e := json.NewEncoder(b)
		e.SetEscapeHTML(false)
		if err := e.Encode(x); err != nil {
			return err
		}
		b.Truncate(b.Len() - 1) // newline
	case []any:
		b.WriteByte('[')
		for i := range x {
			if i > 0 {
				b.WriteByte(',')
			}
			if err := writeCanon(b, x[i]); err != nil {
				return err
			}
		}
		b.WriteByte(']')
	case map[string]any:
		keys := make([]string, 0, len(x))
		for k := range x {
			keys = append(keys, k)
		}
		sort.Strings(keys)
		b.WriteByte('{')
		for i, k := range keys {
			if i > 0 {
				b.WriteByte(',')
			}
			if err := writeCanon(b, k); err != nil {
				return err
			}
			b.WriteByte(':')
			if err := writeCanon(b, x[k]); err != nil {
				return err
			}
		}
		b.WriteByte('}')
	default:
		return fmt.Errorf("refcodec: cannot marshal %T", v)
	}
	return nil
}

// ---------- decoding (reference, strict) ----------

var (
	ErrEmpty       = errors.New("refcodec: empty frame")
	ErrType        = errors.New("refcodec: invalid packet type")
	ErrAttachments = errors.New("refcodec: invalid attachment count")
	ErrNamespace   = errors.New("refcodec: namespace not terminated by a comma")
	ErrPayload     = errors.New("refcodec: invalid payload")
	ErrPlaceholder = errors.New("refcodec: invalid placeholder")
)

// Header is the parsed text frame before attachments are put in place.
type Header struct {
	Type        int
	Attachments int
	Namespace   string
	ID          *uint64
	JSON        []byte // rest of the frame (may be empty)
}

// ParseHeader parses the text frame of a Socket.IO packet strictly per
// <type>[<n>-][<nsp>,][<id>][<json>].
func ParseHeader(frame []byte) (*Header, error) {
	if len(frame) == 0 {
		return nil, ErrEmpty
	}
	h := &Header{Namespace: "/"}
	c := frame[0]
	if c < '0' || c > '6' {
		return nil, ErrType
	}
	h.Type = int(c - '0')
	rest := frame[1:]
	if h.Type == BinaryEvent || h.Type == BinaryAck {
		i := bytes.IndexByte(rest, '-')
		if i <= 0 {
			return nil, ErrAttachments
		}
		for _, d := range rest[:i] {
			if d < '0' || d > '9' {
				return nil, ErrAttachments
			}
		}
		n, err := strconv.ParseUint(string(rest[:i]), 10, 31)
		if err != nil {
			return nil, ErrAttachments
		}
		h.Attachments = int(n)
		rest = rest[i+1:]
	}
	if len(rest) > 0 && rest[0] == '/' {
		i := bytes.IndexByte(rest, ',')
		if i < 0 {
			return nil, ErrNamespace
		}
		h.Namespace = string(rest[:i])
		rest = rest[i+1:]
	}
	i := 0
	for i < len(rest) && rest[i] >= '0' && rest[i] <= '9' {
		i++
	}
	if i > 0 {
		n, err := strconv.ParseUint(string(rest[:i]), 10, 64)
		if err != nil {
			return nil, fmt.Errorf("refcodec: invalid ack id: %w", err)
		}
		h.ID = &n
		rest = rest[i:]
	}
	h.JSON = rest
	return h, nil
}

// DecodeSIO decodes one complete packet: frames[0] is the text frame and
// frames[1:] are exactly the announced attachments.
func DecodeSIO(frames [][]byte) (*Packet, error) {
	if len(frames) == 0 {
		return nil, ErrEmpty
	}
	h, err := ParseHeader(frames[0])
	if err != nil {
		return nil, err
	}
	if h.Attachments != len(frames)-1 {
		return nil, fmt.Errorf("%w: header announces %d, %d frames follow", ErrAttachments, h.Attachments, len(frames)-1)
	}
	p := &Packet{Type: h.Type, Namespace: h.Namespace, ID: h.ID, Attachments: h.Attachments}
	if len(h.JSON) > 0 {
		d := json.NewDecoder(bytes.NewReader(h.JSON))
		d.UseNumber()
		var v any
		if err := d.Decode(&v); err != nil {
			return nil, fmt.Errorf("%w: %v", ErrPayload, err)
		}
		if d.More() {
			return nil, fmt.Errorf("%w: trailing data", ErrPayload)
		}
		if rest, _ := readAll(d); len(strings.TrimSpace(rest)) > 0 {
			return nil, fmt.Errorf("%w: trailing data %q", ErrPayload, rest)
		}
		used := make([]bool, len(frames)-1)
		v, err = putBins(toCanon(v), frames[1:], used)
		if err != nil {
			return nil, err
		}
		for i, u := range used {
			if !u {
				return nil, fmt.Errorf("%w: attachment %d is not referenced", ErrPlaceholder, i)
			}
		}
		p.HasData = true
		p.Data = v
	} else if h.Attachments != 0 {
		return nil, fmt.Errorf("%w: attachments without payload", ErrPayload)
	}
	switch p.Type {
	case Event, BinaryEvent:
		arr, ok := p.Data.([]any)
		if !ok || len(arr) == 0 {
			return nil, fmt.Errorf("%w: event payload must be a non-empty array", ErrPayload)
		}
		if _, ok := arr[0].(string); !ok {
			return nil, fmt.Errorf("%w: event name must be a string", ErrPayload)
		}
	case Ack, BinaryAck:
		if _, ok := p.Data.([]any); !ok {
			return nil, fmt.Errorf("%w: ack payload must be an array", ErrPayload)
		}
		if p.ID == nil {
			return nil, fmt.Errorf("%w: ack without id", ErrPayload)
		}
	}
	return p, nil
}

func readAll(d *json.Decoder) (string, error) {
	var b bytes.Buffer
	_, err := b.ReadFrom(d.Buffered())
	return b.String(), err
}

// toCanon converts encoding/json output (UseNumber) to canonical form (null -> Null{}).
func toCanon(v any) any {
	switch x := v.(type) {
	case nil:
		return Null{}
	case []any:
		for i := range x {
			x[i] = toCanon(x[i])
		}
		return x
	case map[string]any:
		for k := range x {
			x[k] = toCanon(x[k])
		}
		return x
	}
	return v
}

func putBins(v any, atts [][]byte, used []bool) (any, error) {
	switch x := v.(type) {
	case []any:
		for i := range x {
			y, err := putBins(x[i], atts, used)
			if err != nil {
				return nil, err
			}
			x[i] = y
		}
		return x, nil
	case map[string]any:
		if ph, ok := x["_placeholder"]; ok && len(x) == 2 {
			if b, ok := ph.(bool); ok && b {
				num, ok := x["num"].(json.Number)
				if !ok {
					return nil, fmt.Errorf("%w: num is not a number", ErrPlaceholder)
				}
				n, err := strconv.Atoi(string(num))
				if err != nil || n < 0 || n >= len(atts) {
					return nil, fmt.Errorf("%w: num %s out of range (attachments %d)", ErrPlaceholder, num, len(atts))
				}
				used[n] = true
				return Bin(atts[n]), nil
			}
		}
		for k := range x {
			y, err := putBins(x[k], atts, used)
			if err != nil {
				return nil, err
			}
			x[k] = y
		}
		return x, nil
	}
	return v, nil
}

// ---------- stream reassembly ----------

// Assembler reassembles MESSAGE frames of one connection into packets with a
// strict state machine: text header -> exactly N binary frames.
type Assembler struct {
	pending [][]byte
	need    int
}

// Feed consumes one MESSAGE frame. It returns a completed packet (or nil) and an
// error when the frame sequence violates the protocol (binary frame without a
// header, text frame while attachments are outstanding, ...).
func (a *Assembler) Feed(isBinary bool, data []byte) (*Packet, [][]byte, error) {
	if a.need > 0 {
		if !isBinary {
			return nil, nil, fmt.Errorf("refcodec: text frame %q while %d attachment(s) of the previous packet are outstanding", trunc(data), a.need)
		}
		a.pending = append(a.pending, data)
		a.need--
		if a.need == 0 {
			frames := a.pending
			a.pending = nil
			p, err := DecodeSIO(frames)
			return p, frames, err
		}
		return nil, nil, nil
	}
	if isBinary {
		return nil, nil, fmt.Errorf("refcodec: binary frame (%d bytes) without a header announcing it", len(data))
	}
	h, err := ParseHeader(data)
	if err != nil {
		return nil, nil, err
	}
	if h.Attachments > 0 {
		a.pending = [][]byte{data}
		a.need = h.Attachments
		return nil, nil, nil
	}
	p, err := DecodeSIO([][]byte{data})
	return p, [][]byte{data}, err
}

func (a *Assembler) Outstanding() int { return a.need }

func trunc(b []byte) string {
	if len(b) > 60 {
		return string(b[:60]) + "..."
	}
	return string(b)
}

// ---------- canonical comparison ----------

// Equal compares two canonical trees. Numbers are compared by numeric value.
// It returns "" when equal, otherwise the path of the first difference.
func Equal(a, b any) string { return equalAt("$", a, b) }

func numVal(v any) (float64, string, bool) {
	switch x := v.(type) {
	case json.Number:
		f, err := x.Float64()
		return f, string(x), err == nil
	case float64:
		return x, strconv.FormatFloat(x, 'g', -1, 64), true
	case int:
		return float64(x), strconv.Itoa(x), true
	case int64:
		return float64(x), strconv.FormatInt(x, 10), true
	case uint64:
		return float64(x), strconv.FormatUint(x, 10), true
	}
	return 0, "", false
}

func equalAt(path string, a, b any) string {
	if fa, sa, ok := numVal(a); ok {
		fb, sb, ok2 := numVal(b)
		if !ok2 {
			return fmt.Sprintf("%s: number %s vs %T", path, sa, b)
		}
		if fa != fb && sa != sb {
			return fmt.Sprintf("%s: %s vs %s", path, sa, sb)
		}
		return ""
	}
	switch x := a.(type) {
	case nil, Null:
		switch b.(type) {
		case nil, Null:
			return ""
		}
		return fmt.Sprintf("%s: null vs %T", path, b)
	case bool:
		y, ok := b.(bool)
		if !ok || x != y {
			return fmt.Sprintf("%s: %v vs %v", path, a, short(b))
		}
	case string:
		y, ok := b.(string)
		if !ok || x != y {
			return fmt.Sprintf("%s: string %q vs %s", path, trunc([]byte(x)), short(b))
		}
	case Bin:
		y, ok := b.(Bin)
		if !ok {
			return fmt.Sprintf("%s: binary(%d) vs %s", path, len(x), short(b))
		}
		if !bytes.Equal(x, y) {
			return fmt.Sprintf("%s: binary(%d) differs from binary(%d)", path, len(x), len(y))
		}
	case []any:
		y, ok := b.([]any)
		if !ok {
			return fmt.Sprintf("%s: array vs %s", path, short(b))
		}
		if len(x) != len(y) {
			return fmt.Sprintf("%s: array length %d vs %d", path, len(x), len(y))
		}
		for i := range x {
			if d := equalAt(fmt.Sprintf("%s[%d]", path, i), x[i], y[i]); d != "" {
				return d
			}
		}
	case map[string]any:
		y, ok := b.(map[string]any)
		if !ok {
			return fmt.Sprintf("%s: object vs %s", path, short(b))
		}
		if len(x) != len(y) {
			return fmt.Sprintf("%s: object size %d vs %d", path, len(x), len(y))
		}
		for k := range x {
			yv, ok := y[k]
			if !ok {
				return fmt.Sprintf("%s: key %q missing", path, k)
			}
			if d := equalAt(path+"."+k, x[k], yv); d != "" {
				return d
			}
		}
	default:
		return fmt.Sprintf("%s: unsupported canonical type %T", path, a)
	}
	return ""
}

func short(v any) string {
	s := fmt.Sprintf("%T:%v", v, v)
	if len(s) > 80 {
		s = s[:80] + "..."
	}
	return s
}

// Digest renders a canonical tree as a deterministic string (for hashing / witnesses).
func Digest(v any) string {
	var b bytes.Buffer
	digest(&b, v)
	return b.String()
}

func digest(b *bytes.Buffer, v any) {
	if f, _, ok := numVal(v); ok {
		b.WriteString(strconv.FormatFloat(f, 'g', -1, 64))
		return
	}
	switch x := v.(type) {
	case nil, Null:
		b.WriteString("null")
	case bool:
		fmt.Fprintf(b, "%v", x)
	case string:
		fmt.Fprintf(b, "%q", x)
	case Bin:
		fmt.Fprintf(b, "bin(%d:%x)", len(x), fnv32(x))
	case []any:
		b.WriteByte('[')
		for i := range x {
			if i > 0 {
				b.WriteByte(',')
			}
			digest(b, x[i])
		}
		b.WriteByte(']')
	case map[string]any:
		keys := make([]string, 0, len(x))
		for k := range x {
			keys = append(keys, k)
		}
		sort.Strings(keys)
		b.WriteByte('{')
		for i, k := range keys {
			if i > 0 {
				b.WriteByte(',')
			}
			fmt.Fprintf(b, "%q:", k)
			digest(b, x[k])
		}
		b.WriteByte('}')
	default:
		fmt.Fprintf(b, "?%T", v)
	}
}

func fnv32(b []byte) uint32 {
	h := uint32(2166136261)
	for _, c := range b {
		h ^= uint32(c)
		h *= 16777619
	}
	return h
}
